#!/usr/bin/env python3
# usage: kf.py fixed <prop> <id> <commit> <what>   |   kf.py open <prop> <id> <signature> <what>
import json,sys
p='/verif/known_findings.json'
d=json.load(open(p))
mode=sys.argv[1]
if mode=='fixed':
    _,_,prop,fid,commit,what=sys.argv
    d['findings']=[f for f in d['findings'] if not (f['property']==prop and f['id']==fid)]
    d['findings'].append({"property":prop,"id":fid,"status":"fixed","commit":commit,"what":"fixed: property=%s %s %s"%(prop,commit,what)})
elif mode=='open':
    _,_,prop,fid,sig,what=sys.argv
    d['findings']=[f for f in d['findings'] if not (f['property']==prop and f['id']==fid)]
    d['findings'].append({"property":prop,"id":fid,"status":"open","signature":sig,"what":what})
json.dump(d,open(p,'w'),indent=1)
print(len(d['findings']),'findings')
