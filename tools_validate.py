#!/usr/bin/env python3
# validates MANIFEST.json and evidence/*.json against the given schemas (python3-vt has jsonschema)
import json,sys,glob
import jsonschema
ok=True
m=json.load(open('/verif/MANIFEST.json'))
try:
    jsonschema.validate(m,json.load(open('/root/.vp/MANIFEST.schema.json'))); print('MANIFEST ok', len(m['checks']),'checks')
except Exception as e:
    ok=False; print('MANIFEST INVALID',e)
es=json.load(open('/root/.vp/EVIDENCE.schema.json'))
for f in sorted(glob.glob('/verif/evidence/*.json')):
    try:
        ev=json.load(open(f)); jsonschema.validate(ev,es); print(f,'ok',ev['tier'],ev['coverage'].get('evaluations'),ev['coverage'].get('distinct_nontrivial'),'viol',ev.get('violations'))
    except Exception as e:
        ok=False; print(f,'INVALID',str(e)[:300])
sys.exit(0 if ok else 1)
