#!/bin/bash
# usage: [ONLY="C01 C07"] sweep.sh <tier> <seed>...   runs every registered check (or those named in ONLY) with the given seeds from this /verif tree
# (under `vp run` this is a snapshot: evidence and replays land in the snapshot, never in the real /verif)
export GOFLAGS=-mod=mod GOPROXY=off GOSUMDB=off GOTOOLCHAIN=local
export VERIF_ROOT=$PWD
tier=$1; shift
(cd harness && go build -o ../bin/vcheck ./cmd/vcheck) || exit 2
for s in "$@"; do
  for p in ${ONLY:-$(bin/vcheck list | cut -d' ' -f1)}; do
    start=$(date +%s)
    VERIF_SEED=$s bin/vcheck run $p --tier $tier > out.$p.$s.log 2>&1; rc=$?
    echo "seed=$s $p exit=$rc $(( $(date +%s) - start ))s $(grep -E 'SUMMARY' out.$p.$s.log | sed 's/.*evaluations=/evals=/' | cut -c1-120)"
    [ $rc -ne 0 ] && grep -E "VIOLATION|signature|what|INCONCL" out.$p.$s.log | cut -c1-300 | head -12
  done
done
