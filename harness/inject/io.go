// Package inject provides readers and writers that deliver, fragment or fail
// a byte stream in controlled ways. It imports nothing from go-mc.
package inject

import (
	"errors"
	"io"
)

// PlainReader hides every optional interface (io.ByteReader, io.WriterTo) of
// the wrapped reader and counts the bytes handed out.
type PlainReader struct {
	R io.Reader
	N int64
}

func (p *PlainReader) Read(b []byte) (int, error) {
	n, err := p.R.Read(b)
	p.N += int64(n)
	return n, err
}

// ByteSrc is a byte-slice reader that implements io.Reader and io.ByteReader
// and counts what was consumed. (bytes.Reader would do, but we also want Pos.)
type ByteSrc struct {
	B   []byte
	Pos int
}

func (s *ByteSrc) Read(p []byte) (int, error) {
	if len(p) == 0 {
		return 0, nil
	}
	if s.Pos >= len(s.B) {
		return 0, io.EOF
	}
	n := copy(p, s.B[s.Pos:])
	s.Pos += n
	return n, nil
}

func (s *ByteSrc) ReadByte() (byte, error) {
	if s.Pos >= len(s.B) {
		return 0, io.EOF
	}
	b := s.B[s.Pos]
	s.Pos++
	return b, nil
}

// Rest returns the unread bytes.
func (s *ByteSrc) Rest() []byte { return s.B[s.Pos:] }

// ChunkReader delivers B in reads of the sizes in Plan (cycled; each >= 1).
// It does not implement io.ByteReader.
type ChunkReader struct {
	B    []byte
	Pos  int
	Plan []int
	i    int
	// Err is returned at the end instead of io.EOF if non-nil.
	Err error
}

func (c *ChunkReader) Read(p []byte) (int, error) {
	if len(p) == 0 {
		return 0, nil
	}
	if c.Pos >= len(c.B) {
		if c.Err != nil {
			return 0, c.Err
		}
		return 0, io.EOF
	}
	k := 1
	if len(c.Plan) > 0 {
		k = c.Plan[c.i%len(c.Plan)]
		c.i++
		if k < 1 {
			k = 1
		}
	}
	if k > len(p) {
		k = len(p)
	}
	n := copy(p[:k], c.B[c.Pos:])
	c.Pos += n
	return n, nil
}

func (c *ChunkReader) Rest() []byte { return c.B[c.Pos:] }

// ChunkByteReader is ChunkReader plus io.ByteReader.
type ChunkByteReader struct{ ChunkReader }

func (c *ChunkByteReader) ReadByte() (byte, error) {
	if c.Pos >= len(c.B) {
		if c.Err != nil {
			return 0, c.Err
		}
		return 0, io.EOF
	}
	b := c.B[c.Pos]
	c.Pos++
	return b, nil
}

// ErrInjected is the sentinel failure.
var ErrInjected = errors.New("inject: injected I/O failure")

// FaultWriter accepts exactly K bytes, then fails with Err (short count + error).
type FaultWriter struct {
	K    int
	Err  error
	Got  []byte
	Fail int // number of failing calls
}

func (f *FaultWriter) Write(p []byte) (int, error) {
	room := f.K - len(f.Got)
	if room >= len(p) {
		f.Got = append(f.Got, p...)
		return len(p), nil
	}
	if room < 0 {
		room = 0
	}
	f.Got = append(f.Got, p[:room]...)
	f.Fail++
	e := f.Err
	if e == nil {
		e = ErrInjected
	}
	return room, e
}

// QuirkReader is a plain io.Reader (no io.ByteReader) that uses the liberties the
// io.Reader contract grants: with Stutter every other call returns (0, nil), and with
// DataEOF the call that delivers the final byte returns io.EOF together with the data.
type QuirkReader struct {
	B       []byte
	Pos     int
	Stutter bool
	DataEOF bool
	calls   int
}

func (q *QuirkReader) Read(p []byte) (int, error) {
	q.calls++
	if len(p) == 0 {
		return 0, nil
	}
	if q.Stutter && q.calls%2 == 1 {
		return 0, nil
	}
	if q.Pos >= len(q.B) {
		return 0, io.EOF
	}
	n := copy(p, q.B[q.Pos:])
	q.Pos += n
	if q.DataEOF && q.Pos == len(q.B) {
		return n, io.EOF
	}
	return n, nil
}
