package inject

import (
	"errors"
	"io"
)

// PhysWrite is one physical write issued against a RecFile.
type PhysWrite struct {
	Off  int64
	Data []byte
}

// RecFile is an in-memory io.ReadWriteSeeker that records every physical
// write. Writing past the end extends the file with zeros, like a real file.
type RecFile struct {
	B      []byte
	pos    int64
	Writes []PhysWrite
	Rec    bool
}

func (f *RecFile) Read(p []byte) (int, error) {
	if f.pos >= int64(len(f.B)) {
		return 0, io.EOF
	}
	n := copy(p, f.B[f.pos:])
	f.pos += int64(n)
	return n, nil
}

func (f *RecFile) writeAt(p []byte, off int64) {
	if f.Rec {
		f.Writes = append(f.Writes, PhysWrite{Off: off, Data: append([]byte{}, p...)})
	}
	ApplyWrite(&f.B, off, p)
}

// ApplyWrite applies one write to an image.
func ApplyWrite(b *[]byte, off int64, p []byte) {
	end := off + int64(len(p))
	if end > int64(len(*b)) {
		nb := make([]byte, end)
		copy(nb, *b)
		*b = nb
	}
	copy((*b)[off:], p)
}

func (f *RecFile) Write(p []byte) (int, error) {
	f.writeAt(p, f.pos)
	f.pos += int64(len(p))
	return len(p), nil
}

func (f *RecFile) Seek(off int64, whence int) (int64, error) {
	var np int64
	switch whence {
	case io.SeekStart:
		np = off
	case io.SeekCurrent:
		np = f.pos + off
	case io.SeekEnd:
		np = int64(len(f.B)) + off
	default:
		return 0, errors.New("bad whence")
	}
	if np < 0 {
		return 0, errors.New("negative position")
	}
	f.pos = np
	return np, nil
}

// RecFileAt additionally implements io.WriterAt (which does not move the position).
type RecFileAt struct{ RecFile }

func (f *RecFileAt) WriteAt(p []byte, off int64) (int, error) {
	f.writeAt(p, off)
	return len(p), nil
}
