// Status ping against a status handler of the monitor's own (second blind-spot review). Every other status exchange
// uses the library's PingInfo + PlayerList, which ignore the one argument the gate hands to a status handler: the
// protocol number the client announced in its handshake ("if the server supports multiple protocols, should be
// implemented as returning clientProtocol"). Here the handler answers with that number, with player counts that no
// PlayerList produces (0, negative, beyond 2^31), with a sample list of its own (nil, empty, up to ten entries in an
// order of its own), with texts that need escaping and with a favicon string of its own; the expected JSON is built
// from the values the handler was constructed with and from the handshake the client sent.
package main

import (
	"context"
	"encoding/json"
	"errors"
	"fmt"
	"math"
	"net"
	"os"
	"reflect"
	"sync"
	"time"

	"github.com/google/uuid"

	"github.com/Tnze/go-mc/bot"
	"github.com/Tnze/go-mc/chat"
	mcnet "github.com/Tnze/go-mc/net"
	"github.com/Tnze/go-mc/server"

	"verif/ref/refwire"
	"verif/vm"
)

type ownStatus struct {
	name      string
	echoProto bool
	fixed     int
	max, on   int
	sample    []server.PlayerSample
	desc      chat.Message
	favicon   string

	mu   sync.Mutex
	args []int32 // what Protocol was called with
}

func (o *ownStatus) Name() string { return o.name }
func (o *ownStatus) Protocol(clientProtocol int32) int {
	o.mu.Lock()
	o.args = append(o.args, clientProtocol)
	o.mu.Unlock()
	if o.echoProto {
		return int(clientProtocol)
	}
	return o.fixed
}
func (o *ownStatus) MaxPlayer() int                       { return o.max }
func (o *ownStatus) OnlinePlayer() int                    { return o.on }
func (o *ownStatus) PlayerSamples() []server.PlayerSample { return o.sample }
func (o *ownStatus) Description() *chat.Message           { return &o.desc }
func (o *ownStatus) FavIcon() string                      { return o.favicon }

var awkwardTexts = []string{"plain", "", `quo"te and back\slash`, "<b>&amp;</b>", "line\nbreak\ttab", "ünï 日本語 🙂", "§aformatted§r", " sep", "null", "{\"text\":\"x\"}"}

func pingOwnHandler(c *vm.Ctx, r *vm.Rand, k int) {
	h := &ownStatus{
		name:      "own-" + awkwardTexts[r.Intn(len(awkwardTexts))],
		echoProto: k%5 != 4,
		fixed:     []int{0, -1, 767, 1 << 40}[r.Intn(4)],
		max:       []int{0, 1, -1, 20, math.MaxInt32, 1 << 40}[r.Intn(6)],
		on:        []int{0, 1, -1, 21, math.MaxInt32, 1 << 40}[r.Intn(6)],
		desc:      chat.Message{Text: awkwardTexts[r.Intn(len(awkwardTexts))], Bold: r.Bool(), Color: chat.Gold},
		favicon:   []string{"", "", "data:image/png;base64,AAAA", "not a data url at all", "data:image/png;base64,"}[r.Intn(5)],
	}
	sampleKind := []string{"nil", "empty", "one", "three", "ten"}[r.Intn(5)]
	switch sampleKind {
	case "empty":
		h.sample = []server.PlayerSample{}
	case "one", "three", "ten":
		for i := map[string]int{"one": 1, "three": 3, "ten": 10}[sampleKind]; i > 0; i-- {
			h.sample = append(h.sample, server.PlayerSample{Name: fmt.Sprintf("%s-%d", awkwardTexts[r.Intn(len(awkwardTexts))], r.Intn(1000)), ID: randUUID(r)})
		}
	}
	srv := &server.Server{ListPingHandler: h, LoginHandler: &server.MojangLoginHandler{Threshold: -1}, ConfigHandler: cfgHandler{}, GamePlay: &gamePlay{done: make(chan struct{})}}
	l, err := mcnet.ListenMC("127.0.0.1:0")
	if err != nil {
		c.Inconclusive("listen: " + err.Error())
		return
	}
	defer l.Close()
	go func() {
		for {
			conn, err := l.Accept()
			if err != nil {
				return
			}
			go srv.AcceptConn(&conn)
		}
	}()
	addr := l.Addr().String()
	via := "raw"
	clientProto := []int32{767, 764, 0, -1, 47, math.MaxInt32, math.MinInt32, 128, 1 << 14}[(k/4)%9]
	if k%4 == 0 {
		via, clientProto = "PingAndList", bot.ProtocolVersion
	}
	base := map[string]any{"client": via, "handshake_protocol": clientProto, "handler_echoes_client_protocol": h.echoProto, "handler_fixed_protocol": h.fixed, "handler_name": h.name, "handler_max": h.max, "handler_online": h.on,
		"handler_sample": fmt.Sprintf("%s %+v", sampleKind, h.sample), "handler_description_text": h.desc.Text, "handler_description_bold": h.desc.Bold, "handler_favicon": h.favicon}
	wit := func() any { return base }
	c.Eval(vm.HashStr("ping-own", fmt.Sprint(c.Shard, k)), true)

	var data []byte
	if via == "PingAndList" {
		var perr error
		if c.Guard("ping-own", wit, func() { data, _, perr = bot.PingAndListTimeout(addr, 10*time.Second) }) {
			return
		}
		if perr != nil {
			if errors.Is(perr, os.ErrDeadlineExceeded) || errors.Is(perr, context.DeadlineExceeded) {
				c.Inconclusive("PingAndListTimeout against a status handler of the monitor's own did not finish within 10 s")
				return
			}
			c.Violation("ping/own-handler/error", "PingAndListTimeout against the gate with a status handler of the monitor's own failed: "+perr.Error(), wit())
			return
		}
	} else {
		conn, err := net.Dial("tcp", addr)
		if err != nil {
			c.Inconclusive("dial: " + err.Error())
			return
		}
		defer conn.Close()
		conn.SetDeadline(time.Now().Add(10 * time.Second)) // bounds the wait only
		host := "verif.test"
		hs := append(refwire.EncVarInt(clientProto), refwire.EncVarInt(int32(len(host)))...)
		hs = append(hs, host...)
		hs = append(hs, 0x63, 0xdd)
		hs = append(hs, refwire.EncVarInt(1)...)
		out := append(refwire.BuildFrame(0, hs, -1, false, 0), refwire.BuildFrame(0, nil, -1, false, 0)...)
		if _, err := conn.Write(out); err != nil {
			c.Inconclusive("raw status client: writing handshake and request: " + err.Error())
			return
		}
		var buf []byte
		f, rerr := readFrame(conn, &buf)
		if rerr != nil {
			var ne net.Error
			if errors.As(rerr, &ne) && ne.Timeout() {
				c.Inconclusive("raw status client: no answer within 10 s")
				return
			}
			c.Violation("ping/own-handler/no-answer", fmt.Sprintf("a status request after a handshake announcing protocol %d got no well-formed answer: %v", clientProto, rerr), wit())
			return
		}
		n, kk, derr := refwire.DecVarInt(f.Payload)
		if f.ID != 0 || derr != nil || n < 0 || int(n) != len(f.Payload)-kk {
			c.Violation("ping/own-handler/status-response-shape", fmt.Sprintf("the answer to a status request has packet id %d and a %d-byte payload whose string length says %d (error %v)", f.ID, len(f.Payload), n, derr), wit())
			return
		}
		data = f.Payload[kk:]
	}
	base["status_json"] = string(data[:min(len(data), 2000)])

	// what the handler was asked
	h.mu.Lock()
	args := append([]int32{}, h.args...)
	h.mu.Unlock()
	if len(args) == 0 {
		c.Violation("ping/own-handler/protocol-not-asked", "the status handler's Protocol method was not called for a status request", wit())
		return
	}
	for _, a := range args {
		if a != clientProto {
			c.Violation("ping/own-handler/protocol-argument", fmt.Sprintf("the client's handshake announced protocol %d, the status handler was asked with %d", clientProto, a), wit())
			return
		}
	}
	var got map[string]any
	if err := json.Unmarshal(data, &got); err != nil {
		c.Violation("ping/own-handler/not-json", "status response is not a JSON object: "+err.Error(), wit())
		return
	}
	num := func(v any) (float64, bool) { f, ok := v.(float64); return f, ok }
	wantProto := float64(h.fixed)
	if h.echoProto {
		wantProto = float64(clientProto)
	}
	ver, _ := got["version"].(map[string]any)
	if vn, _ := ver["name"].(string); ver == nil || vn != h.name {
		c.Violation("ping/own-handler/version-name", fmt.Sprintf("version.name is %v, the handler says %q", ver["name"], h.name), wit())
		return
	}
	if p, ok := num(ver["protocol"]); !ok || p != wantProto {
		c.Violation("ping/own-handler/version-protocol", fmt.Sprintf("version.protocol is %v, the handler answered %v (handshake protocol %d)", ver["protocol"], wantProto, clientProto), wit())
		return
	}
	pl, _ := got["players"].(map[string]any)
	if m, ok := num(pl["max"]); pl == nil || !ok || m != float64(h.max) {
		c.Violation("ping/own-handler/players-max", fmt.Sprintf("players.max is %v, the handler says %d", pl["max"], h.max), wit())
		return
	}
	if o, ok := num(pl["online"]); !ok || o != float64(h.on) {
		c.Violation("ping/own-handler/players-online", fmt.Sprintf("players.online is %v, the handler says %d", pl["online"], h.on), wit())
		return
	}
	var gotSample []any
	switch sv := pl["sample"].(type) {
	case nil: // absent or null: a list without entries
	case []any:
		gotSample = sv
	default:
		c.Violation("ping/own-handler/players-sample", fmt.Sprintf("players.sample is %v, not a list", sv), wit())
		return
	}
	if len(gotSample) != len(h.sample) {
		c.Violation("ping/own-handler/players-sample", fmt.Sprintf("players.sample has %d entries, the handler gave %d", len(gotSample), len(h.sample)), wit())
		return
	}
	for i, el := range gotSample {
		em, _ := el.(map[string]any)
		id, _ := em["id"].(string)
		name, _ := em["name"].(string)
		if pid, err := uuid.Parse(id); err != nil || pid != h.sample[i].ID || name != h.sample[i].Name {
			c.Violation("ping/own-handler/players-sample", fmt.Sprintf("players.sample[%d] is %v, the handler gave %+v", i, el, h.sample[i]), wit())
			return
		}
	}
	wantDesc := map[string]any{"text": h.desc.Text, "color": "gold"}
	if h.desc.Bold {
		wantDesc["bold"] = true
	}
	if h.desc.Text == "" {
		// a component without text: the key may be absent or empty
		if gd, ok := got["description"].(map[string]any); ok {
			if _, has := gd["text"]; !has {
				delete(wantDesc, "text")
			}
		}
	}
	if !reflect.DeepEqual(got["description"], any(wantDesc)) {
		c.Violation("ping/own-handler/description", fmt.Sprintf("description is %v, the handler's message is %v", got["description"], wantDesc), wit())
		return
	}
	fav, has := got["favicon"]
	if fs, _ := fav.(string); (has && fs != h.favicon) || (!has && h.favicon != "") {
		c.Violation("ping/own-handler/favicon", fmt.Sprintf("favicon is %v (present: %v), the handler says %q", fav, has, h.favicon), wit())
		return
	}
	c.Cover("ping.own-handler.ok")
	c.Cover("ping.own-handler.via." + via)
	if h.echoProto {
		c.Cover("ping.own-handler.client-protocol-answered")
		if via == "raw" && clientProto < 0 {
			c.Cover("ping.own-handler.client-protocol-answered.negative")
		}
		if via == "raw" && clientProto > 767 {
			c.Cover("ping.own-handler.client-protocol-answered.above-the-bots-own")
		}
	} else {
		c.Cover("ping.own-handler.fixed-protocol")
	}
	c.Cover("ping.own-handler.sample." + sampleKind)
	if h.max > math.MaxInt32 || h.on > math.MaxInt32 || h.max < 0 || h.on < 0 {
		c.Cover("ping.own-handler.counts-outside-0..2^31")
	}
	if h.favicon != "" {
		c.Cover("ping.own-handler.favicon-string-of-its-own")
	}
}
