// Status ping: the library's three client entry points and a raw client of the monitor's own (refwire frames)
// against the gate's status responder, with and without a favicon.
package main

import (
	"bytes"
	"context"
	"encoding/base64"
	"encoding/binary"
	"encoding/json"
	"errors"
	"fmt"
	"image"
	"image/color"
	"image/png"
	"math"
	"net"
	"os"
	"reflect"
	"strings"
	"time"

	"github.com/google/uuid"

	"github.com/Tnze/go-mc/bot"
	"github.com/Tnze/go-mc/chat"
	mcnet "github.com/Tnze/go-mc/net"
	"github.com/Tnze/go-mc/server"

	"verif/ref/refwire"
	"verif/vm"
)

// statusExpect is what the status handlers were constructed with (not what their getters say).
type statusExpect struct {
	vName      string
	vProto     int
	maxPlayers int
	online     int
	motdText   string
	motdBold   bool
	joined     map[string]string // id -> name of the players on the server
	icon       *image.NRGBA
	iconKind   string
}

// check compares a status JSON with the expectation. It reports violations itself and returns whether the JSON was right.
func (e *statusExpect) check(c *vm.Ctx, data []byte, wit func() any) bool {
	var gotV, wantV any
	if err := json.Unmarshal(data, &gotV); err != nil {
		c.Violation("ping/not-json", "status response is not JSON: "+err.Error(), wit())
		return false
	}
	md := fmt.Sprintf(`{"text":%q,"color":"gold"}`, e.motdText)
	if e.motdBold {
		md = fmt.Sprintf(`{"text":%q,"bold":true,"color":"gold"}`, e.motdText)
	}
	want := fmt.Sprintf(`{"version":{"name":%q,"protocol":%d},"players":{"max":%d,"online":%d},"description":%s}`, e.vName, e.vProto, e.maxPlayers, e.online, md)
	json.Unmarshal([]byte(want), &wantV)
	gm, _ := gotV.(map[string]any)
	// the sample: at most 10 of the players that are on, each once, with their own names
	if pm, ok := gm["players"].(map[string]any); ok {
		sample, _ := pm["sample"].([]any)
		delete(pm, "sample")
		seen := map[string]bool{}
		for _, el := range sample {
			em, _ := el.(map[string]any)
			id, _ := em["id"].(string)
			name, _ := em["name"].(string)
			if e.joined[id] != name || name == "" || seen[id] {
				c.Violation("ping/sample-entry", fmt.Sprintf("status sample lists %v, which is not one of the %d players on the server (or is listed twice)", el, len(e.joined)), wit())
				return false
			}
			seen[id] = true
		}
		if len(sample) != min(e.online, 10) {
			c.Violation("ping/sample-size", fmt.Sprintf("%d players are on, the status sample lists %d (expected %d)", e.online, len(sample), min(e.online, 10)), wit())
			return false
		}
		if e.online > 10 {
			c.Cover("ping.more-than-10-players-online")
		}
	}
	// the icon: a data URL holding a PNG of the picture the handler was given (with no icon the key must be absent,
	// which the comparison below sees)
	if e.icon != nil {
		fav, _ := gm["favicon"].(string)
		const prefix = "data:image/png;base64,"
		if !strings.HasPrefix(fav, prefix) {
			c.Violation("ping/favicon-missing-or-not-a-png-data-url", fmt.Sprintf("the status handler was given a 64x64 icon; the status JSON's favicon is %.60q", fav), wit())
			return false
		}
		raw, err := base64.StdEncoding.DecodeString(fav[len(prefix):])
		if err != nil {
			c.Violation("ping/favicon-not-base64", "the favicon's payload is not standard base64 on one line: "+err.Error(), wit())
			return false
		}
		img, err := png.Decode(bytes.NewReader(raw))
		if err != nil {
			c.Violation("ping/favicon-not-png", "the favicon's payload does not decode as PNG: "+err.Error(), wit())
			return false
		}
		if img.Bounds() != e.icon.Bounds() {
			c.Violation("ping/favicon-size", fmt.Sprintf("the favicon has bounds %v, the icon given %v", img.Bounds(), e.icon.Bounds()), wit())
			return false
		}
		for y := 0; y < 64; y++ {
			for x := 0; x < 64; x++ {
				if g, w := color.NRGBAModel.Convert(img.At(x, y)).(color.NRGBA), e.icon.NRGBAAt(x, y); g != w {
					c.Violation("ping/favicon-pixels-differ", fmt.Sprintf("favicon pixel (%d,%d) is %v, the icon given has %v", x, y, g, w), wit())
					return false
				}
			}
		}
		delete(gm, "favicon")
		c.Cover("ping.favicon-is-the-icon-given")
	}
	if !reflect.DeepEqual(gotV, wantV) {
		c.Violation("ping/status-json-differs", fmt.Sprintf("status JSON %.600s differs from what the status handlers were constructed with: %s", data, want), wit())
		return false
	}
	return true
}

func genIcon(r *vm.Rand) (*image.NRGBA, string) {
	img := image.NewNRGBA(image.Rect(0, 0, 64, 64))
	kind := []string{"random-with-alpha", "random-opaque", "one-colour", "transparent"}[r.Intn(4)]
	switch kind {
	case "random-with-alpha":
		r.Fill(img.Pix)
	case "random-opaque":
		r.Fill(img.Pix)
		for i := 3; i < len(img.Pix); i += 4 {
			img.Pix[i] = 255
		}
	case "one-colour":
		px := r.Bytes(4)
		for i := range img.Pix {
			img.Pix[i] = px[i%4]
		}
	}
	return img, kind
}

// ping runs one status exchange; k numbers the exchanges over all shards, so that the clients and the raw client's
// request orders are all reached in every run (the rest is drawn from r).
func ping(c *vm.Ctx, r *vm.Rand, k int) {
	e := &statusExpect{maxPlayers: r.Range(1, 100), vName: "verif-" + genNames(r), vProto: r.Intn(1000), motdText: "hello " + genNames(r), motdBold: r.Bool(), joined: map[string]string{}}
	pl := server.NewPlayerList(e.maxPlayers)
	motd := chat.Message{Text: e.motdText, Bold: e.motdBold, Color: chat.Gold}
	var icon image.Image // stays a nil interface without an icon
	if r.Bool() {
		e.icon, e.iconKind = genIcon(r)
		icon = e.icon
	}
	var pi *server.PingInfo
	if c.Guard("ping/new-ping-info", func() any { return map[string]any{"icon": e.iconKind} }, func() { pi = server.NewPingInfo(e.vName, e.vProto, motd, icon) }) {
		return
	}
	// players already on the server: none, a few, exactly the 10 a status sample may list, and more than that
	nJoin := []int{0, 0, 1, 3, 9, 10, 11, 12, 25}[r.Intn(9)]
	for k := 0; k < nJoin; k++ {
		ps := server.PlayerSample{Name: fmt.Sprintf("p%d-%s", k, genNames(r)), ID: uuid.UUID{byte(k + 1), byte(r.Intn(256)), 3}}
		before := pl.Len()
		pl.ClientJoin(&listedClient{}, ps)
		if pl.Len() > before {
			e.joined[ps.ID.String()] = ps.Name
		}
	}
	e.online = min(nJoin, e.maxPlayers)
	srv := &server.Server{ListPingHandler: listPing{pl, pi}, LoginHandler: &server.MojangLoginHandler{Threshold: -1}, ConfigHandler: cfgHandler{}, GamePlay: &gamePlay{done: make(chan struct{})}}
	l, err := mcnet.ListenMC("127.0.0.1:0")
	if err != nil {
		c.Inconclusive("listen: " + err.Error())
		return
	}
	defer l.Close()
	go func() {
		for {
			conn, err := l.Accept()
			if err != nil {
				return
			}
			go srv.AcceptConn(&conn)
		}
	}()
	addr := l.Addr().String()
	via := []string{"PingAndList", "PingAndListTimeout", "PingAndListContext(deadline)", "PingAndListContext(background)", "raw", "raw"}[k%6]
	base := map[string]any{"addr": addr, "client": via, "version_name": e.vName, "version_protocol": e.vProto, "max_players": e.maxPlayers, "players_joined": nJoin, "motd": e.motdText, "motd_bold": e.motdBold, "icon": e.iconKind}
	c.Eval(vm.HashStr("ping", fmt.Sprint(r.Uint64())), true)
	if via == "raw" {
		rawStatus(c, r, k/6*2+k%6-4, addr, e, base)
		return
	}
	wit := func() any { return base }
	var data []byte
	var perr error
	const bound = 10 * time.Second // bounds the wait only: a fired bound is inconclusive
	if c.Guard("ping", wit, func() {
		switch via {
		case "PingAndList":
			data, _, perr = bot.PingAndList(addr)
		case "PingAndListTimeout":
			data, _, perr = bot.PingAndListTimeout(addr, bound)
		case "PingAndListContext(deadline)":
			ctx, cancel := context.WithTimeout(context.Background(), bound)
			defer cancel()
			data, _, perr = bot.PingAndListContext(ctx, addr)
		default:
			data, _, perr = bot.PingAndListContext(context.Background(), addr)
		}
	}) {
		return
	}
	if perr != nil {
		if errors.Is(perr, context.DeadlineExceeded) || errors.Is(perr, os.ErrDeadlineExceeded) {
			c.Inconclusive(fmt.Sprintf("%s did not finish within %v", via, bound))
			return
		}
		c.Violation("ping/error", via+" against the library's own server failed: "+perr.Error(), wit())
		return
	}
	if !e.check(c, data, wit) {
		return
	}
	c.Cover("ping.ok")
	c.Cover("ping.via." + via)
}

// readFrame reads one uncompressed frame from conn; buf keeps what was read beyond it.
func readFrame(conn net.Conn, buf *[]byte) (*refwire.Frame, error) {
	tmp := make([]byte, 32<<10)
	for {
		if len(*buf) > 0 {
			f, err := refwire.ParseFrame(*buf, -1)
			if err == nil {
				*buf = (*buf)[f.Size:]
				return f, nil
			}
			if !errors.Is(err, refwire.ErrIncomplete) && len(*buf) >= 5 { // with five bytes the length prefix is complete
				return nil, malformed{err}
			}
		}
		n, err := conn.Read(tmp)
		*buf = append(*buf, tmp[:n]...)
		if n == 0 && err != nil {
			return nil, err
		}
	}
}

// malformed: what arrived is not a frame (as opposed to: nothing arrived).
type malformed struct{ error }

// rawStatus speaks the status protocol itself: handshake with intention 1, then one or two requests in any order.
// What a vanilla server guarantees is an answer to the first request, and to a ping that follows a status
// request; after a pong and after a second status request it hangs up. So the other second answers are optional
// here - but whatever is answered must be right: the JSON of the status handler, the very payload of the ping.
func rawStatus(c *vm.Ctx, r *vm.Rand, q int, addr string, e *statusExpect, base map[string]any) {
	order := [][]string{{"list", "ping"}, {"ping", "list"}, {"ping"}, {"list"}, {"list", "list"}, {"ping", "ping"}}[q%6]
	payloads := make([]int64, len(order))
	for i := range payloads {
		payloads[i] = []int64{0, -1, 1, math.MinInt64, math.MaxInt64, int64(r.Uint64()), int64(r.Uint64())}[(q/6+i)%7]
	}
	clientProto := []int32{767, 764, 0, -1, 47, math.MaxInt32}[r.Intn(6)]
	base["requests"], base["ping_payloads"], base["handshake_protocol"] = strings.Join(order, ","), fmt.Sprint(payloads), clientProto
	wit := func() any { return base }
	conn, err := net.Dial("tcp", addr)
	if err != nil {
		c.Inconclusive("dial: " + err.Error())
		return
	}
	defer conn.Close()
	conn.SetDeadline(time.Now().Add(10 * time.Second)) // bounds the wait only
	timedOut := func(err error) bool {
		var ne net.Error
		return errors.As(err, &ne) && ne.Timeout()
	}
	host := "verif.test"
	hs := append(refwire.EncVarInt(clientProto), refwire.EncVarInt(int32(len(host)))...)
	hs = append(hs, host...)
	hs = append(hs, 0x63, 0xdd)
	hs = append(hs, refwire.EncVarInt(1)...)
	if _, err := conn.Write(refwire.BuildFrame(0, hs, -1, false, 0)); err != nil {
		c.Inconclusive("raw status client: writing the handshake: " + err.Error())
		return
	}
	var buf []byte
	for i, req := range order {
		var frame []byte
		if req == "list" {
			frame = refwire.BuildFrame(0, nil, -1, false, 0)
		} else {
			frame = refwire.BuildFrame(1, binary.BigEndian.AppendUint64(nil, uint64(payloads[i])), -1, false, 0)
		}
		mustAnswer := i == 0 || (order[0] == "list" && req == "ping")
		_, werr := conn.Write(frame)
		var f *refwire.Frame
		var rerr error
		if werr == nil {
			f, rerr = readFrame(conn, &buf)
		}
		if werr != nil || rerr != nil {
			if timedOut(werr) || timedOut(rerr) {
				c.Inconclusive("raw status client: no answer within 10 s")
				return
			}
			if m := (malformed{}); errors.As(rerr, &m) {
				c.Violation("ping/raw/malformed-frame", fmt.Sprintf("the answer to request %d (%s) is not a well-formed frame: %v (first bytes %x)", i+1, req, m.error, buf[:min(len(buf), 16)]), wit())
				return
			}
			if mustAnswer {
				c.Violation("ping/raw/no-answer/"+req, fmt.Sprintf("request %d (%s) of a status connection got no answer: write error %v, read error %v", i+1, req, werr, rerr), wit())
				return
			}
			c.Cover("ping.raw.optional-second-answer-not-given")
			break
		}
		if req == "list" {
			n, k, derr := refwire.DecVarInt(f.Payload)
			if f.ID != 0 || derr != nil || n < 0 || int(n) != len(f.Payload)-k {
				c.Violation("ping/raw/status-response-shape", fmt.Sprintf("the answer to a status request has packet id %d and a %d-byte payload whose string length says %d (error %v)", f.ID, len(f.Payload), n, derr), wit())
				return
			}
			if !e.check(c, f.Payload[k:], wit) {
				return
			}
			c.Cover("ping.raw.json-ok")
		} else {
			want := binary.BigEndian.AppendUint64(nil, uint64(payloads[i]))
			if f.ID != 1 || !bytes.Equal(f.Payload, want) {
				c.Violation("ping/raw/echo-differs", fmt.Sprintf("ping with payload %d (%x) was answered by packet id %d with payload %x", payloads[i], want, f.ID, f.Payload), wit())
				return
			}
			c.Cover("ping.raw.echo-ok")
			if payloads[i] < 0 {
				c.Cover("ping.raw.echo-ok.negative-payload")
			}
		}
		if i == 1 {
			c.Cover("ping.raw.second-answer-given")
		}
	}
	c.Cover("ping.raw.ok")
	c.Cover("ping.raw." + strings.Join(order, "-then-"))
}
