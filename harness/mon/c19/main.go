// Monitor C19: the real bot.Client against the real server gate: join, identity
// agreement, ordered lossless play packets in both directions, handler dispatch
// order, bundles, handler error propagation, status ping. Race-detector build.
package main

import (
	"bytes"
	"context"
	"crypto/md5"
	"encoding/binary"
	"encoding/json"
	"errors"
	"fmt"
	"io"
	"math"
	"net"
	"net/http"
	"os"
	"regexp"
	"sort"
	"strings"
	"sync"
	"time"

	"github.com/google/uuid"

	"github.com/Tnze/go-mc/bot"
	"github.com/Tnze/go-mc/chat"
	"github.com/Tnze/go-mc/data/packetid"
	"github.com/Tnze/go-mc/nbt"
	mcnet "github.com/Tnze/go-mc/net"
	pk "github.com/Tnze/go-mc/net/packet"
	"github.com/Tnze/go-mc/net/queue"
	"github.com/Tnze/go-mc/registry"
	"github.com/Tnze/go-mc/server"
	"github.com/Tnze/go-mc/yggdrasil/user"

	"verif/ref/refwire"
	"verif/vm"
)

func main() { vm.Main("C19", run) }

// ---------------------------------------------------------------------------
// fake session server (online mode), installed as http.DefaultClient.Transport

type sessionServer struct {
	mu        sync.Mutex
	joined    map[string]string // name -> serverId posted by the client
	lastJoin  string
	lastCheck string
	ids       map[string]uuid.UUID
	fault     string // how hasJoined misbehaves for the current session ("" = it answers properly)
	props     string // the properties array of the profile it answers with ("" = an empty array)
}

func (s *sessionServer) RoundTrip(req *http.Request) (*http.Response, error) {
	s.mu.Lock()
	defer s.mu.Unlock()
	resp := func(code int, body string) *http.Response {
		return &http.Response{StatusCode: code, Status: http.StatusText(code), Body: io.NopCloser(strings.NewReader(body)), Header: http.Header{}, Request: req}
	}
	switch {
	case strings.HasSuffix(req.URL.Path, "/session/minecraft/join"):
		var body struct {
			AccessToken     string `json:"accessToken"`
			SelectedProfile struct {
				ID   string `json:"id"`
				Name string `json:"name"`
			} `json:"selectedProfile"`
			ServerID string `json:"serverId"`
		}
		b, _ := io.ReadAll(req.Body)
		if err := json.Unmarshal(b, &body); err != nil {
			return resp(400, "bad json"), nil
		}
		s.joined[body.SelectedProfile.Name] = body.ServerID
		s.lastJoin = body.ServerID
		return resp(204, ""), nil
	case strings.HasSuffix(req.URL.Path, "/session/minecraft/hasJoined"):
		name := req.URL.Query().Get("username")
		sid := req.URL.Query().Get("serverId")
		s.lastCheck = sid
		switch s.fault {
		case "403-json":
			return resp(403, `{"error":"ForbiddenOperationException","errorMessage":"Invalid token."}`), nil
		case "429-json":
			return resp(429, `{"error":"TooManyRequestsException","errorMessage":"rate limited"}`), nil
		case "200-empty-object":
			return resp(200, `{}`), nil
		case "500-html":
			return resp(500, `<html>Internal Server Error</html>`), nil
		}
		if s.joined[name] != sid {
			return resp(204, ""), nil
		}
		id := s.ids[name]
		nameJSON, _ := json.Marshal(name)
		props := s.props
		if props == "" {
			props = "[]"
		}
		return resp(200, fmt.Sprintf(`{"id":"%s","name":%s,"properties":%s}`, strings.ReplaceAll(id.String(), "-", ""), nameJSON, props)), nil
	}
	return resp(404, "not found"), nil
}

// ---------------------------------------------------------------------------

type step struct {
	kind    string // "packet", "bundle-open", "bundle-close"
	id      int32
	seq     uint32
	size    int
	inGroup int // bundle number (0 = none)
}

func body(sender byte, seq uint32, size int) []byte {
	b := make([]byte, 5+size)
	b[0] = sender
	binary.LittleEndian.PutUint32(b[1:], seq)
	st := uint64(sender)<<40 | uint64(seq)
	for i := 5; i < len(b); i++ {
		st = st*6364136223846793005 + 1442695040888963407
		b[i] = byte(st >> 35)
		if i%3 == 0 {
			b[i] = 0 // keep it compressible in part
		}
	}
	return b
}

type recvRec struct {
	id   int32
	seq  uint32
	ok   bool // body intact
	size int
}

func parseBody(sender byte, p pk.Packet) recvRec {
	r := recvRec{id: p.ID, size: len(p.Data) - 5}
	if len(p.Data) < 5 || p.Data[0] != sender {
		return r
	}
	r.seq = binary.LittleEndian.Uint32(p.Data[1:])
	r.ok = bytes.Equal(p.Data, body(sender, r.seq, len(p.Data)-5))
	return r
}

type gamePlay struct {
	mu         sync.Mutex
	name       string
	id         uuid.UUID
	protocol   int32
	accepted   bool
	s2c        []step
	nC2S       int
	gotC2S     []recvRec
	closeSent  map[int]int64 // bundle number -> time the closing delimiter's write began
	base       time.Time
	serverErr  error
	done       chan struct{}
	bundleWait func()
}

func (g *gamePlay) AcceptPlayer(name string, id uuid.UUID, _ *user.PublicKey, _ []user.Property, protocol int32, conn *mcnet.Conn) {
	defer close(g.done)
	g.mu.Lock()
	g.name, g.id, g.protocol, g.accepted = name, id, protocol, true
	g.mu.Unlock()
	var wg sync.WaitGroup
	wg.Add(1)
	go func() { // writer
		defer wg.Done()
		for _, st := range g.s2c {
			var p pk.Packet
			switch st.kind {
			case "packet":
				p = pk.Packet{ID: st.id, Data: body('S', st.seq, st.size)}
			case "bundle-open":
				p = pk.Packet{ID: int32(packetid.BundleDelimiter)}
			case "bundle-close":
				// give a client that dispatches on arrival time to do so, then stamp the moment the closing delimiter starts to go out
				g.bundleWait()
				g.mu.Lock()
				g.closeSent[st.inGroup] = int64(time.Since(g.base))
				g.mu.Unlock()
				p = pk.Packet{ID: int32(packetid.BundleDelimiter)}
			}
			if err := conn.WritePacket(p); err != nil {
				g.mu.Lock()
				g.serverErr = err
				g.mu.Unlock()
				return
			}
		}
	}()
	for i := 0; i < g.nC2S; i++ {
		var p pk.Packet
		if err := conn.ReadPacket(&p); err != nil {
			g.mu.Lock()
			if g.serverErr == nil {
				g.serverErr = err
			}
			g.mu.Unlock()
			break
		}
		rec := parseBody('C', p)
		g.mu.Lock()
		g.gotC2S = append(g.gotC2S, rec)
		g.mu.Unlock()
	}
	wg.Wait()
}

type cfgHandler struct{}

func (cfgHandler) AcceptConfig(conn *mcnet.Conn) error {
	if err := conn.WritePacket(pk.Marshal(packetid.ClientboundConfigFinishConfiguration)); err != nil {
		return err
	}
	var p pk.Packet
	if err := conn.ReadPacket(&p); err != nil {
		return err
	}
	if packetid.ServerboundPacketID(p.ID) != packetid.ServerboundConfigFinishConfiguration {
		return fmt.Errorf("expected configuration acknowledgement, got %#x", p.ID)
	}
	return nil
}

type checker struct {
	accept  bool
	gotName string
	gotID   uuid.UUID
	gotProt int32
	called  bool
}

func (c *checker) CheckPlayer(name string, id uuid.UUID, protocol int32) (bool, chat.Message) {
	c.called, c.gotName, c.gotID, c.gotProt = true, name, id, protocol
	if c.accept {
		return true, chat.Message{}
	}
	return false, chat.Text("refused by checker")
}

type listPing struct {
	*server.PlayerList
	*server.PingInfo
}

type pipeDialer struct {
	srv *server.Server
}

func (d pipeDialer) DialMCContext(ctx context.Context, addr string) (*mcnet.Conn, error) {
	a, b := net.Pipe()
	go d.srv.AcceptConn(mcnet.WrapConn(b))
	return mcnet.WrapConn(a), nil
}

type handlerSpec struct {
	generic  bool
	priority int
	label    int
	id       int32 // the packet id the handler is registered for (ignored by the library for generic handlers)
}

var errSentinel = errors.New("verif: handler failed on purpose")

type invocation struct {
	label int
	seq   uint32
	at    int64
}

func genNames(r *vm.Rand) string {
	switch r.Intn(6) {
	case 0:
		return "a"
	case 1:
		return "SixteenCharsName"
	case 2:
		return []string{"Игрок", "プレイヤー", "Ünï"}[r.Intn(3)]
	case 3:
		return ""
	}
	b := make([]byte, r.Range(1, 16))
	for i := range b {
		b[i] = "abcdefghijklmnopqrstuvwxyzABCDEFGHIJKLMNOPQRSTUVWXYZ0123456789_"[r.Intn(63)]
	}
	return string(b)
}

var digestRe = regexp.MustCompile(`^-?[1-9a-f][0-9a-f]{0,39}$`)

func session(c *vm.Ctx, r *vm.Rand, si int, sess *sessionServer) {
	threshold := []int{-1, 0, 1, 64, 256, 1 << 15}[r.Intn(6)]
	name := genNames(r)
	accept := r.Intn(5) != 0
	online := r.Intn(4) == 0 && name != "" // an online profile always has a name (a session reply without one is no confirmation)
	// who decides about the login: the monitor's checker (which records its arguments), nobody (the field is optional),
	// or the gate's own player list with room for one player, which is free or taken
	chkKind := "monitor"
	switch r.Intn(10) {
	case 0:
		chkKind, accept = "nil", true
	case 1:
		chkKind = "playerlist"
		accept = r.Bool() // true: the one place is free
	}
	ownUUID := r.Bool() // offline mode: the bot announces a UUID of its own in its login start
	// one play packet each way at the protocol's 2^21-byte limit: costly under the race detector (seconds), so one
	// session in sixty (one per shard in the quick tier), which is then made a plain successful one; every other
	// time without compression
	nearMax := si%60 == 5
	if nearMax {
		chkKind, accept = "monitor", true
		if (c.Shard+si/60)%2 == 0 {
			threshold = -1
		} else if threshold < 0 {
			threshold = 256
		}
	}
	transport := []string{"tcp", "pipe"}[r.Intn(2)]
	qkind := []string{"linked", "channel"}[r.Intn(2)]
	// second blind-spot review: dimensions that had one value (drawn from a stream of their own, so that the draws above
	// and below are what they were)
	x := c.Rand(fmt.Sprintf("session-extra-%d", si))
	nameKind := "plain"
	nk := x.Intn(8)
	if online && nk == 2 {
		nk = 0
	}
	switch nk {
	case 0:
		// characters that mean something in the query string the server sends to the session service, in JSON, in a path
		name = []string{"a b", "a+b", "a&b=c", "x&serverId=1", "100%", "a%20b", "q?x#y", "semi;colon", "sl/ash", `quo"te`, `back\slash`, "eq=", "A.B-C~D", "sp ace+plus%2B", " lead", "trail "}[x.Intn(16)]
		nameKind = "url-special"
	case 1:
		// the length prefix of the name takes two bytes from 128 bytes on
		name = strings.Repeat("n", []int{17, 127, 128, 129, 255, 256, 300}[x.Intn(7)]-3) + fmt.Sprintf("%03d", x.Intn(1000))
		if x.Bool() {
			name = "ü" + name[2:]
		}
		nameKind = "long"
	}
	extremePrios := x.Intn(4) == 0
	entry := "JoinServerWithOptions"
	if transport == "tcp" && qkind == "linked" {
		entry = []string{"JoinServerWithOptions", "JoinServer", "JoinServerWithDialer"}[x.Intn(3)]
	}
	withContext := entry == "JoinServerWithOptions" && x.Intn(3) == 0
	addrForm := "host:port"
	if transport == "pipe" {
		addrForm = []string{"host:port", "host:port", "host", "host:0xport", "[v6]:port"}[x.Intn(5)]
	}
	sessProps := ""
	if online && x.Intn(3) == 0 {
		sessProps = []string{
			`[{"name":"textures","value":"eyJ0aW1lc3RhbXAiOjF9","signature":"c2lnbmF0dXJl"}]`,
			`[{"name":"textures","value":"eyJ0aW1lc3RhbXAiOjF9"}]`,
			`[{"name":"textures","value":"` + strings.Repeat("QUJD", 600) + `","signature":"` + strings.Repeat("U0lH", 171) + `"},{"name":"second","value":""}]`,
		}[x.Intn(3)]
	}
	// one session per shard and sixty carries a bundle of thousands of packets, up to the protocol's limit of 4096 (which
	// the library once refused by one; fixed, see known_findings.json)
	bigBundle := si%60 == 17 && !nearMax
	if bigBundle {
		chkKind, accept = "monitor", true
		if threshold == 0 || threshold == 1 {
			threshold = 64 // every packet compressed costs ~3 ms each under the race detector (zlib writer set-up)
		}
	}
	// the configuration step: the minimal one (finish + acknowledgement), or the handler the library itself ships
	var cfgH server.ConfigHandler = cfgHandler{}
	cfgKind := "finish-only"
	regs := registry.NewNetworkCodec()
	if r.Intn(4) == 0 {
		for k := r.Intn(3); k > 0; k-- {
			regs.DimensionType.Put(fmt.Sprintf("verif:dim%d", k), registry.Dimension{Height: int32(16 * r.Range(1, 24)), MinY: -64, Effects: "minecraft:overworld", CoordinateScale: 1,
				MonsterSpawnLightLevel: nbt.RawMessage{Type: nbt.TagInt, Data: []byte{0, 0, 0, 7}}})
		}
		if r.Bool() {
			var ct registry.ChatType
			ct.Chat.TranslationKey, ct.Chat.Parameters = "chat.type.text", []string{"sender", "content"}
			ct.Narration.TranslationKey, ct.Narration.Parameters = "chat.type.text.narrate", []string{"sender", "content"}
			regs.ChatType.Put("minecraft:chat", ct)
		}
		cfgH, cfgKind = &server.Configurations{Registries: regs}, "server.Configurations"
	}
	nS2C, nC2S := r.Range(0, 60), r.Range(0, 60)
	if r.Intn(8) == 0 {
		nS2C, nC2S = r.Range(100, 200), r.Range(100, 200)
	}
	if nearMax {
		nS2C, nC2S = max(nS2C, 1), max(nC2S, 1)
	}
	sizeOf := func() int {
		switch r.Intn(6) {
		case 0:
			return 0
		case 1:
			return max(0, threshold-5+r.Intn(5)-2)
		case 2:
			return 1<<14 - 8 + r.Intn(16)
		case 3:
			return r.Intn(3000)
		case 4:
			if r.Intn(3) == 0 {
				// around 2^15 (the largest threshold used here) and past 2^16
				return []int{1<<15 - 8 + r.Intn(16), 1<<16 - 8 + r.Intn(16), 70000}[r.Intn(3)]
			}
		}
		return r.Intn(100)
	}
	// ids: mostly one-byte ones; every so often a session uses ids that take two VarInt bytes (unknown to the bot's
	// tables, dispatched all the same)
	idTop := 123
	if r.Intn(4) == 0 {
		idTop = 400
	}
	// handler set
	ng, ns := r.Range(0, 6), r.Range(0, 6)
	if r.Intn(4) == 0 {
		// large handler sets with many priority ties (sorting algorithms change behaviour with size)
		ng, ns = r.Range(0, 40), r.Range(0, 40)
	}
	if bigBundle {
		ng, ns = min(ng, 6), min(ns, 6) // thousands of packets: keep the number of invocations modest
	}
	// the ids with specific handlers (AddListener takes ids of the protocol's table only): one to three distinct ones,
	// so that the table of one id can be told from the table of another
	var watched []int32
	for nw := r.Range(1, 3); len(watched) < nw; {
		id := int32(r.Range(1, 123))
		dup := false
		for _, w := range watched {
			dup = dup || w == id
		}
		if !dup {
			watched = append(watched, id)
		}
	}
	pickWatched := func() int32 { return watched[r.Intn(len(watched))] }
	var specs []handlerSpec
	prios := []int{-1, 0, 0, 1, 5}
	if extremePrios {
		// the ends of int: a comparison by subtraction wraps around there
		prios = []int{math.MinInt, math.MinInt + 1, -1, 0, 0, 1, math.MaxInt - 1, math.MaxInt}
	}
	for i := 0; i < ng; i++ {
		specs = append(specs, handlerSpec{generic: true, priority: prios[r.Intn(len(prios))], id: pickWatched()})
	}
	for i := 0; i < ns; i++ {
		specs = append(specs, handlerSpec{generic: false, priority: prios[r.Intn(len(prios))], id: pickWatched()})
	}
	for i := len(specs) - 1; i > 0; i-- { // random registration order
		j := r.Intn(i + 1)
		specs[i], specs[j] = specs[j], specs[i]
	}
	for i := range specs {
		specs[i].label = i
	}
	// server-to-client stream with bundles
	var s2c []step
	seq := uint32(0)
	group := 0
	for len(s2c) < nS2C {
		if r.Intn(8) == 0 {
			group++
			s2c = append(s2c, step{kind: "bundle-open", inGroup: group})
			for k := r.Intn(11); k > 0; k-- {
				id := int32(r.Range(1, idTop))
				if r.Intn(3) == 0 {
					id = pickWatched()
				}
				s2c = append(s2c, step{kind: "packet", id: id, seq: seq, size: sizeOf(), inGroup: group})
				seq++
			}
			s2c = append(s2c, step{kind: "bundle-close", inGroup: group})
			continue
		}
		id := int32(r.Range(1, idTop))
		if r.Intn(3) == 0 {
			id = pickWatched()
		}
		s2c = append(s2c, step{kind: "packet", id: id, seq: seq, size: sizeOf()})
		seq++
	}
	bigBundleSize := 0
	if bigBundle {
		bigBundleSize = 1000 + x.Intn(3000)
		switch (c.Shard + si/60) % 3 {
		case 0:
			bigBundleSize = 4095
		case 1:
			bigBundleSize = 4096 // what the protocol allows (BundlerInfo.BUNDLE_SIZE_LIMIT)
		}
		group++
		s2c = append(s2c, step{kind: "bundle-open", inGroup: group})
		for k := 0; k < bigBundleSize; k++ {
			id := int32(x.Range(1, idTop))
			if x.Intn(3) == 0 {
				id = watched[x.Intn(len(watched))]
			}
			s2c = append(s2c, step{kind: "packet", id: id, seq: seq, size: x.Intn(24), inGroup: group})
			seq++
		}
		s2c = append(s2c, step{kind: "bundle-close", inGroup: group})
		for k := x.Intn(4); k > 0; k-- { // and something after it
			s2c = append(s2c, step{kind: "packet", id: watched[x.Intn(len(watched))], seq: seq, size: x.Intn(24)})
			seq++
		}
	}
	// (nearMax) one packet each way grows to the limit: in one direction id and body together take exactly 2^21
	// bytes (the largest the library's reader takes; the frame length needs four bytes when compression is off),
	// in the other 2^21-6 .. 2^21-1 (the largest three-byte frame length); the directions alternate
	bigS2C, bigC2S, bigS2CTotal, bigC2STotal := -1, -1, pk.MaxDataLength, pk.MaxDataLength-1-r.Intn(6)
	exactS2C := (c.Shard/2+si/60)%2 == 0
	if !exactS2C {
		bigS2CTotal, bigC2STotal = bigC2STotal, bigS2CTotal
	}
	if nearMax {
		if seq > 0 {
			bigS2C = r.Intn(int(seq))
			for i := range s2c {
				if s2c[i].kind == "packet" && int(s2c[i].seq) == bigS2C {
					s2c[i].size = bigS2CTotal - len(refwire.EncVarInt(s2c[i].id)) - 5
				}
			}
		}
		bigC2S = r.Intn(nC2S)
	}
	failAt := -1
	if r.Intn(4) == 0 && seq > 0 && len(specs) > 0 && !nearMax {
		failAt = r.Intn(int(seq))
	}
	if bigBundle {
		failAt = -1
	}
	failLabel := -1
	if failAt >= 0 {
		failLabel = r.Intn(len(specs))
	}
	wit := func() any {
		return map[string]any{"threshold": threshold, "name": name, "checker_accepts": accept, "login_checker": chkKind, "bot_announces_own_uuid": ownUUID, "near_max_packet_s2c_seq": bigS2C, "near_max_packet_c2s_seq": bigC2S, "near_max_id_plus_body_s2c": bigS2CTotal, "near_max_id_plus_body_c2s": bigC2STotal, "online_mode": online, "transport": transport, "bot_queue": qkind, "config_handler": cfgKind,
			"name_kind": nameKind, "name_bytes": len(name), "extreme_priorities": extremePrios, "join_entry_point": entry, "join_with_context": withContext, "address_form": addrForm, "session_profile_properties": sessProps, "big_bundle_packets": bigBundleSize,
			"packets_server_to_client": seq, "packets_client_to_server": nC2S, "bundles": group, "handlers": fmt.Sprintf("%+v", specs), "watched_ids": watched, "fail_at_seq": failAt, "fail_handler": failLabel}
	}
	c.Inflight(fmt.Sprintf("session %d %v", si, wit()))
	c.Eval(vm.HashStr("session", fmt.Sprint(c.Shard, si)), true)

	base := time.Now()
	gp := &gamePlay{s2c: s2c, nC2S: nC2S, closeSent: map[int]int64{}, base: base, done: make(chan struct{}), bundleWait: func() {
		if transport == "tcp" {
			time.Sleep(2 * time.Millisecond)
		} else {
			for i := 0; i < 50; i++ {
				time.Sleep(20 * time.Microsecond)
			}
		}
	}}
	chk := &checker{accept: accept}
	pl := server.NewPlayerList(20)
	var lc server.LoginChecker // stays a nil interface for chkKind "nil"
	switch chkKind {
	case "monitor":
		lc = chk
	case "playerlist":
		pl = server.NewPlayerList(1)
		if !accept {
			pl.ClientJoin(&listedClient{}, server.PlayerSample{Name: "first", ID: uuid.UUID{1}})
		}
		lc = pl
	}
	srv := &server.Server{
		ListPingHandler: listPing{pl, server.NewPingInfo("verif", 767, chat.Text("motd §a"+name), nil)},
		LoginHandler:    &server.MojangLoginHandler{OnlineMode: online, Threshold: threshold, LoginChecker: lc},
		ConfigHandler:   cfgH,
		GamePlay:        gp,
	}
	sess.mu.Lock()
	sess.lastJoin, sess.lastCheck = "", ""
	sessID := randUUID(r)
	sess.ids[name] = sessID
	sess.mu.Unlock()

	cl := bot.NewClient()
	cl.Auth = bot.Auth{Name: name, UUID: randUUID(r).String(), AsTk: "token"}
	if !online && !ownUUID {
		cl.Auth.UUID = ""
	}
	opts := bot.JoinOptions{}
	if qkind == "channel" {
		// a bounded queue refuses when it is full and the bot then stops with "receive queue is full": that is the
		// queue's contract, not a lost packet. The queue must therefore hold what the peer may send before the bot's
		// handlers catch up - for the session with a bundle of thousands of packets that is the whole session
		qcap := 4096
		if bigBundle {
			qcap = 1 << 15
		}
		opts.QueueRead = queue.NewChannelQueue[pk.Packet](qcap)
		opts.QueueWrite = queue.NewChannelQueue[pk.Packet](qcap)
	}
	addr := map[string]string{"host:port": "verif.test:25565", "host": "verif.test", "host:0xport": "verif.test:0x63dd", "[v6]:port": "[::1]:25565"}[addrForm]
	var ln *mcnet.Listener
	if transport == "tcp" {
		l, err := mcnet.ListenMC("127.0.0.1:0")
		if err != nil {
			c.Inconclusive("listen: " + err.Error())
			return
		}
		ln = l
		addr = l.Addr().String()
		go func() {
			for {
				conn, err := l.Accept()
				if err != nil {
					return
				}
				go srv.AcceptConn(&conn)
			}
		}()
		defer l.Close()
	} else {
		opts.MCDialer = pipeDialer{srv}
	}
	// handlers
	var invs []invocation
	var handlers []bot.PacketHandler // parallel to specs
	for _, hs := range specs {
		hs := hs
		h := bot.PacketHandler{ID: packetid.ClientboundPacketID(hs.id), Priority: hs.priority, F: func(p pk.Packet) error {
			rec := parseBody('S', p)
			invs = append(invs, invocation{label: hs.label, seq: rec.seq, at: int64(time.Since(base))})
			if failAt >= 0 && int(rec.seq) == failAt && hs.label == failLabel {
				return errSentinel
			}
			return nil
		}}
		handlers = append(handlers, h)
	}
	// registration in the shuffled order: one call per handler, or a run of consecutive handlers of one kind in one
	// variadic call (the order of registration is the same either way)
	variadicGeneric, variadicSpecific := false, false
	for i := 0; i < len(specs); {
		j := i + 1
		if r.Bool() {
			for j < len(specs) && specs[j].generic == specs[i].generic && r.Intn(4) != 0 {
				j++
			}
		}
		if specs[i].generic {
			cl.Events.AddGeneric(handlers[i:j]...)
			variadicGeneric = variadicGeneric || j-i > 1
		} else {
			cl.Events.AddListener(handlers[i:j]...)
			variadicSpecific = variadicSpecific || j-i > 1
		}
		i = j
	}
	// a recorder for everything (lowest priority generic) to check order/integrity of all packets
	var got []recvRec
	cl.Events.AddGeneric(bot.PacketHandler{Priority: -1000, F: func(p pk.Packet) error {
		got = append(got, parseBody('S', p))
		return nil
	}})

	fault := ""
	if online && r.Intn(3) == 0 && !nearMax && !bigBundle {
		fault = []string{"403-json", "429-json", "200-empty-object", "500-html"}[r.Intn(4)]
	}
	sess.mu.Lock()
	sess.fault, sess.props = fault, sessProps
	sess.mu.Unlock()
	if withContext {
		opts.Context = context.WithValue(context.Background(), ctxKey{}, si)
	}
	var joinErr error
	if c.Guard("join", wit, func() {
		switch entry {
		case "JoinServer":
			joinErr = cl.JoinServer(addr)
		case "JoinServerWithDialer":
			joinErr = cl.JoinServerWithDialer(&net.Dialer{}, addr)
		default:
			joinErr = cl.JoinServerWithOptions(addr, opts)
		}
	}) {
		return
	}
	if fault != "" {
		// the session server did not confirm the player (an error reply, not a profile): nobody may be let in
		if joinErr == nil {
			cl.Close()
		}
		select {
		case <-gp.done:
		case <-time.After(300 * time.Millisecond):
		}
		gp.mu.Lock()
		acc, an, aid := gp.accepted, gp.name, gp.id
		gp.mu.Unlock()
		if acc {
			w := wit().(map[string]any)
			w["session_server_reply"] = fault
			c.Violation("join/online/accepted-without-confirmation/"+fault, fmt.Sprintf("the session server answered hasJoined with %s, yet the server let a player in (as %q, uuid %v)", fault, an, aid), w)
		} else {
			c.Cover("join.online.unconfirmed-refused")
		}
		return
	}
	if !accept {
		if joinErr == nil {
			c.Violation("join/succeeded-although-refused", "JoinServer succeeded although the login checker refused the player", wit())
			cl.Close()
			return
		}
		c.Cover("join.refused")
		if online {
			c.Cover("join.refused.online")
		}
		if chkKind == "playerlist" {
			c.Cover("join.refused.by-full-playerlist")
		}
		return
	}
	if joinErr != nil {
		c.Violation("join/failed/"+vm.NormErr(joinErr.Error()), "JoinServer failed although the checker accepts: "+joinErr.Error(), wit())
		return
	}
	// identity agreement
	select {
	case <-time.After(0):
	default:
	}
	// play phase
	handleDone := make(chan error, 1)
	go func() {
		var err error
		if c.Guard("handlegame", wit, func() { err = cl.HandleGame() }) {
			err = errors.New("panic")
		}
		handleDone <- err
	}()
	sendErr := error(nil)
	for i := 0; i < nC2S; i++ {
		id, size := int32(r.Intn(idTop)), sizeOf()
		if i == bigC2S {
			size = bigC2STotal - len(refwire.EncVarInt(id)) - 5
		}
		if err := cl.Conn.WritePacket(pk.Packet{ID: id, Data: body('C', uint32(i), size)}); err != nil {
			sendErr = err
			break
		}
	}
	var hgErr error
	if failAt >= 0 {
		hgErr = <-handleDone
		cl.Close() // the bot stops: let the server side finish
		<-gp.done
	} else {
		// the server ends first (AcceptPlayer returns, then the gate closes the connection, then HandleGame sees the end).
		// A bot that stops before that would leave the server's writer blocked for good: close the connection for it and
		// let the checks below say what was lost.
		select {
		case <-gp.done:
			hgErr = <-handleDone
			cl.Close()
		case hgErr = <-handleDone:
			cl.Close() // once only: closing a channel queue twice panics
			<-gp.done
		}
	}
	if ln != nil {
		ln.Close()
	}
	gp.mu.Lock()
	defer gp.mu.Unlock()
	if sendErr != nil {
		c.Violation("play/client-send-error", "the bot could not send a play packet: "+sendErr.Error(), wit())
		return
	}
	// names, uuid, protocol
	if gp.name != cl.Name || gp.name != name {
		c.Violation("identity/name", fmt.Sprintf("server got name %q, bot has %q, configured %q", gp.name, cl.Name, name), wit())
		return
	}
	if gp.id != cl.UUID {
		c.Violation("identity/uuid-differs", fmt.Sprintf("server has UUID %v, bot has %v", gp.id, cl.UUID), wit())
		return
	}
	if !online && gp.id != refOfflineUUID(name) {
		c.Violation("identity/not-offline-uuid", fmt.Sprintf("offline-mode UUID is %v, the version-3 UUID of OfflinePlayer:name is %v", gp.id, refOfflineUUID(name)), wit())
		return
	}
	if online && gp.id != sessID {
		c.Violation("identity/not-session-uuid", fmt.Sprintf("online-mode UUID is %v, the session server answered %v", gp.id, sessID), wit())
		return
	}
	if chkKind != "monitor" {
		chk.gotProt, chk.gotName, chk.gotID = bot.ProtocolVersion, name, gp.id // the monitor's checker was not installed
	}
	if chk.gotID != gp.id {
		c.Violation("identity/checker-saw-another-uuid", fmt.Sprintf("the login checker was asked about UUID %v, the player was then handed to the game as %v", chk.gotID, gp.id), wit())
		return
	}
	if gp.protocol != bot.ProtocolVersion || chk.gotProt != bot.ProtocolVersion || chk.gotName != name {
		c.Violation("identity/protocol-or-checker-args", fmt.Sprintf("server got protocol %d (checker %d, name %q), bot speaks %d", gp.protocol, chk.gotProt, chk.gotName, bot.ProtocolVersion), wit())
		return
	}
	if online {
		sess.mu.Lock()
		j, k := sess.lastJoin, sess.lastCheck
		sess.mu.Unlock()
		if j == "" || j != k || !digestRe.MatchString(j) {
			c.Violation("digest/e2e-client-server-differ", fmt.Sprintf("client posted serverId %q, server asked for %q", j, k), wit())
			return
		}
		c.Cover("join.online.digests-agree")
		if strings.HasPrefix(j, "-") {
			c.Cover("join.online.negative-digest")
		}
	}
	// client -> server stream
	if failAt < 0 {
		if bigBundleSize == 4096 && len(got) != int(seq) {
			c.Violation("bundle/4096-packets-refused", fmt.Sprintf("a bundle of 4096 packets (the protocol's limit) was not handled: the bot handled %d of %d packets, HandleGame returned %v", len(got), seq, hgErr), wit())
			return
		}
		if len(gp.gotC2S) != nC2S {
			c.Violation("play/c2s-lost", fmt.Sprintf("server received %d of %d packets (server error: %v)", len(gp.gotC2S), nC2S, gp.serverErr), wit())
			return
		}
		for i, rc := range gp.gotC2S {
			if !rc.ok || rc.seq != uint32(i) {
				c.Violation("play/c2s-altered-or-reordered", fmt.Sprintf("server's %d-th packet is seq %d intact=%v", i, rc.seq, rc.ok), wit())
				return
			}
		}
		// server -> client stream
		if len(got) != int(seq) {
			c.Violation("play/s2c-lost-or-duplicated", fmt.Sprintf("bot handled %d of %d packets (HandleGame returned %v)", len(got), seq, hgErr), wit())
			return
		}
		for i, rc := range got {
			if !rc.ok || rc.seq != uint32(i) {
				c.Violation("play/s2c-altered-or-reordered", fmt.Sprintf("bot's %d-th packet is seq %d intact=%v", i, rc.seq, rc.ok), wit())
				return
			}
		}
		if hgErr == nil {
			c.Violation("play/handlegame-returned-nil", "HandleGame returned nil after the connection ended", wit())
			return
		}
	}
	// handler invocation order: reference dispatcher
	type hk struct {
		prio, order, label int
		generic            bool
	}
	var gs []hk
	ss := map[int32][]hk{} // one table per packet id
	for i, hs := range specs {
		k := hk{prio: hs.priority, order: i, label: hs.label, generic: hs.generic}
		if hs.generic {
			gs = append(gs, k)
		} else {
			ss[hs.id] = append(ss[hs.id], k)
		}
	}
	by := func(x []hk) { sort.SliceStable(x, func(i, j int) bool { return x[i].prio > x[j].prio }) }
	by(gs)
	mostSpecific, idsSeen := 0, map[int32]bool{}
	for id := range ss {
		by(ss[id])
		mostSpecific = max(mostSpecific, len(ss[id]))
	}
	var want []invocation
	stopped := false
	for _, st := range s2c {
		if st.kind != "packet" || stopped {
			continue
		}
		order := append([]hk{}, gs...)
		order = append(order, ss[st.id]...)
		if len(ss[st.id]) > 0 {
			idsSeen[st.id] = true
		}
		for _, h := range order {
			want = append(want, invocation{label: h.label, seq: st.seq})
			if failAt >= 0 && int(st.seq) == failAt && h.label == failLabel {
				stopped = true
				break
			}
		}
	}
	if len(invs) != len(want) {
		c.Violation("dispatch/invocation-count", fmt.Sprintf("%d handler invocations, the reference dispatcher expects %d", len(invs), len(want)), wit())
		return
	}
	for i := range want {
		if invs[i].label != want[i].label || invs[i].seq != want[i].seq {
			c.Violation("dispatch/order", fmt.Sprintf("invocation %d is handler %d on packet %d, expected handler %d on packet %d (generic by descending priority, ties in registration order, then id-specific)", i, invs[i].label, invs[i].seq, want[i].label, want[i].seq), wit())
			return
		}
	}
	if failAt >= 0 {
		if stopped {
			if !errors.Is(hgErr, errSentinel) {
				c.Violation("dispatch/handler-error-not-returned", fmt.Sprintf("a handler failed with the sentinel error, HandleGame returned %v", hgErr), wit())
				return
			}
			c.Cover("dispatch.stops-with-handler-error")
		}
	}
	// bundles: no inner packet handled before the closing delimiter started to go out
	seqGroup := map[uint32]int{}
	for _, st := range s2c {
		if st.kind == "packet" && st.inGroup > 0 {
			seqGroup[st.seq] = st.inGroup
		}
	}
	for _, iv := range invs {
		if gidx, ok := seqGroup[iv.seq]; ok {
			if cs, sent := gp.closeSent[gidx]; sent && iv.at < cs {
				c.Violation("bundle/handled-before-closing-delimiter", fmt.Sprintf("packet %d of bundle %d was handled %.3f ms before the server began to send the closing delimiter", iv.seq, gidx, float64(cs-iv.at)/1e6), wit())
				return
			}
			c.Cover("bundle.inner-packet-handled-after-close")
		}
	}
	if group > 0 {
		c.Cover("bundle.present")
	}
	c.Cover("join.ok." + transport)
	c.Cover("join.config." + cfgKind)
	if cfgKind == "server.Configurations" {
		// the registries the server was configured with have arrived in the bot, entry by entry
		for id := int32(0); ; id++ {
			want := regs.DimensionType.GetByID(id)
			got := cl.Registries.DimensionType.GetByID(id)
			if want == nil {
				if got != nil {
					c.Violation("join/registries/extra-entry", fmt.Sprintf("the bot holds a dimension type with id %d the server never sent", id), wit())
				}
				break
			}
			if got == nil || got.Height != want.Height || got.MinY != want.MinY || got.Effects != want.Effects {
				c.Violation("join/registries/dimension-type", fmt.Sprintf("dimension type %d: the bot holds %+v, the server sent %+v", id, got, want), wit())
				break
			}
			c.Cover("join.registries.dimension-type-arrived")
		}
		if want := regs.ChatType.GetByID(0); want != nil {
			got := cl.Registries.ChatType.GetByID(0)
			if got == nil || got.Chat.TranslationKey != want.Chat.TranslationKey || fmt.Sprint(got.Chat.Parameters) != fmt.Sprint(want.Chat.Parameters) {
				c.Violation("join/registries/chat-type", fmt.Sprintf("chat type 0: the bot holds %+v, the server sent %+v", got, want), wit())
			} else {
				c.Cover("join.registries.chat-type-arrived")
			}
		}
	}
	c.Cover("join.queue." + qkind)
	c.Cover(fmt.Sprintf("join.threshold=%d", threshold))
	if online {
		c.Cover("join.online")
	} else {
		c.Cover("join.offline")
	}
	if len(gs) > 1 || mostSpecific > 1 {
		c.Cover("dispatch.multiple-handlers")
	}
	if len(gs) > 12 || mostSpecific > 12 {
		c.Cover("dispatch.more-than-12-handlers-in-one-list")
	}
	if len(idsSeen) > 1 {
		c.Cover("dispatch.packets-for-several-ids-with-tables-of-their-own")
	}
	if variadicGeneric {
		c.Cover("dispatch.AddGeneric-with-several-handlers")
	}
	if variadicSpecific {
		c.Cover("dispatch.AddListener-with-several-handlers")
	}
	c.Cover("join.checker." + chkKind)
	if chkKind == "monitor" {
		c.Cover("join.checker-saw-the-uuid-of-the-game")
	}
	c.Cover("join.via." + entry)
	if withContext {
		c.Cover("join.with-context-in-options")
	}
	c.Cover("join.address." + addrForm)
	if nameKind != "plain" {
		c.Cover("join.name." + nameKind)
		if online {
			c.Cover("join.online.name." + nameKind)
		}
		if len(name) >= 128 {
			c.Cover("join.name.128-bytes-or-more")
		}
	}
	if sessProps != "" {
		c.Cover("join.online.profile-with-properties")
	}
	if extremePrios && (len(gs) > 1 || mostSpecific > 1) {
		c.Cover("dispatch.priorities-at-the-ends-of-int")
	}
	if bigBundle && failAt < 0 {
		c.Cover("bundle.thousands-of-packets")
		if bigBundleSize == 4095 {
			c.Cover("bundle.4095-packets")
		}
		if bigBundleSize == 4096 {
			c.Cover("bundle.4096-packets")
		}
	}
	if !online && ownUUID {
		c.Cover("join.offline.bot-announced-own-uuid") // identity/* above: the offline UUID was assigned and adopted all the same
	}
	if failAt < 0 && bigS2C >= 0 {
		c.Cover("play.near-2MiB.s2c-intact")
		if exactS2C {
			c.Cover("play.near-2MiB.s2c-intact.exactly-2^21")
		}
	}
	if failAt < 0 && bigC2S >= 0 {
		c.Cover("play.near-2MiB.c2s-intact")
		if !exactS2C {
			c.Cover("play.near-2MiB.c2s-intact.exactly-2^21")
		}
		if threshold < 0 {
			c.Cover("play.near-2MiB.without-compression")
		} else {
			c.Cover("play.near-2MiB.with-compression")
		}
	}
	c.EvalN(int64(seq)+int64(nC2S), vm.HashStr("packets", fmt.Sprint(c.Shard, si)), true)
	if si < 2 {
		c.Sample("session", wit())
	}
}

// refOfflineUUID: Java's UUID.nameUUIDFromBytes(("OfflinePlayer:"+name).getBytes(UTF_8)).
func randUUID(r *vm.Rand) (u uuid.UUID) {
	copy(u[:], r.Bytes(16))
	u[6], u[8] = u[6]&0x0f|0x40, u[8]&0x3f|0x80 // version 4, as the session service issues them
	return u
}

func refOfflineUUID(name string) uuid.UUID {
	h := md5.Sum([]byte("OfflinePlayer:" + name))
	h[6] = h[6]&0x0f | 0x30
	h[8] = h[8]&0x3f | 0x80
	return uuid.UUID(h)
}

type ctxKey struct{}

type listedClient struct{ kicked bool }

func (l *listedClient) SendDisconnect(chat.Message) { l.kicked = true }

func run(c *vm.Ctx) {
	c.EnableParkWatch("deadlock")
	sess := &sessionServer{joined: map[string]string{}, ids: map[string]uuid.UUID{}}
	http.DefaultClient.Transport = sess
	r := c.Rand("sessions")
	timed("sessions", func() {
		for i := 0; i < c.Scale(480, 8000); i++ {
			t, w := vm.CPUSeconds(), time.Now()
			session(c, r, i, sess)
			if os.Getenv("VERIF_TIMING") != "" && time.Since(w) > time.Second {
				fmt.Fprintf(os.Stderr, "TIMING   session %d: %.2f s CPU %.2f s wall\n", i, vm.CPUSeconds()-t, time.Since(w).Seconds())
			}
		}
	})
	timed("server-id sessions", func() { serverIDSessions(c, sess) })
	shr := c.Rand("shared-server")
	timed("shared server", func() {
		for i := 0; i < c.Scale(16, 320); i++ {
			sharedServer(c, shr, i*c.NShards+c.Shard, sess)
		}
	})
	pr := c.Rand("ping")
	timed("ping", func() {
		for i := 0; i < c.Scale(80, 1600); i++ {
			ping(c, pr, i*c.NShards+c.Shard)
		}
	})
	or := c.Rand("ping-own-handler")
	timed("ping, own handler", func() {
		for i := 0; i < c.Scale(72, 1440); i++ {
			pingOwnHandler(c, or, i*c.NShards+c.Shard)
		}
	})
}

// timed prints what a section cost when VERIF_TIMING is set (CPU seconds as well: the machine is shared).
func timed(name string, fn func()) {
	if os.Getenv("VERIF_TIMING") == "" {
		fn()
		return
	}
	t, w := vm.CPUSeconds(), time.Now()
	fn()
	fmt.Fprintf(os.Stderr, "TIMING %-22s %.2f s CPU %.2f s wall\n", name, vm.CPUSeconds()-t, time.Since(w).Seconds())
}
