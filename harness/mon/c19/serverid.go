// The client's use of the server id (C18 item 1 / C19 item 8). The library's own server always announces the
// empty id, so the online sessions of session() never show whether the bot feeds the id it was sent into the
// session hash. Here a scripted online-mode server (refwire frames, its own RSA key) announces ids of its
// choice, decrypts the shared secret the bot answers with, and the serverId the bot posted to the (fake) session
// service is compared with new BigInteger(sha1(latin1(id) ++ secret ++ key)).toString(16) computed from those.
package main

import (
	"context"
	"crypto/rand"
	"crypto/rsa"
	"crypto/sha1"
	"crypto/x509"
	"encoding/hex"
	"errors"
	"fmt"
	"math/big"
	"net"
	"strings"
	"time"

	"github.com/Tnze/go-mc/bot"
	"github.com/Tnze/go-mc/data/packetid"
	mcnet "github.com/Tnze/go-mc/net"

	"verif/ref/refwire"
	"verif/vm"
)

// refSessionHash: Java's new BigInteger(sha1(serverId.getBytes(ISO_8859_1) ++ secret ++ key)).toString(16).
func refSessionHash(serverID string, secret, key []byte) string {
	h := sha1.New()
	for _, r := range serverID {
		if r < 256 {
			h.Write([]byte{byte(r)})
		} else {
			h.Write([]byte{'?'}) // what Java's encoder writes for a character Latin-1 does not have
		}
	}
	h.Write(secret)
	h.Write(key)
	d := h.Sum(nil)
	n := new(big.Int).SetBytes(d)
	if d[0]&0x80 != 0 {
		n.Sub(n, new(big.Int).Lsh(big.NewInt(1), 160))
	}
	return n.Text(16)
}

type scriptResult struct {
	secret []byte
	err    error
}

type scriptedDialer struct{ serve func(net.Conn) }

func (d scriptedDialer) DialMCContext(context.Context, string) (*mcnet.Conn, error) {
	a, b := net.Pipe()
	go d.serve(b)
	return mcnet.WrapConn(a), nil
}

func byteArray(b []byte) []byte { return append(refwire.EncVarInt(int32(len(b))), b...) }

// takeByteArray splits a VarInt-prefixed byte array off the front of b.
func takeByteArray(b []byte) (arr, rest []byte, err error) {
	n, k, err := refwire.DecVarInt(b)
	if err != nil {
		return nil, nil, err
	}
	if n < 0 || int(n) > len(b)-k {
		return nil, nil, fmt.Errorf("byte array of declared length %d in %d bytes", n, len(b)-k)
	}
	return b[k : k+int(n)], b[k+int(n):], nil
}

func genServerID(r *vm.Rand) (id, kind string) {
	switch r.Intn(7) {
	case 0:
		return "", "empty"
	case 1:
		return "abc", "ascii"
	case 2:
		return "Ünï", "latin1"
	case 3:
		return []string{"日本語", "a€b", "🙂x"}[r.Intn(3)], "beyond-latin1"
	case 4:
		b := make([]rune, r.Range(1, 20))
		for i := range b {
			b[i] = rune(0x80 + r.Intn(0x80))
		}
		return string(b), "latin1"
	case 5:
		return strings.Repeat(" ", r.Intn(3)) + fmt.Sprint(r.Intn(1000000)), "ascii"
	}
	b := make([]byte, 20) // the longest id the vanilla protocol allows
	for i := range b {
		b[i] = byte(0x21 + r.Intn(0x5e))
	}
	return string(b), "20-random-characters"
}

func serverIDSession(c *vm.Ctx, r *vm.Rand, si int, sess *sessionServer, key *rsa.PrivateKey, pubDER []byte) {
	serverID, kind := genServerID(r)
	name := genNames(r)
	token := r.Bytes(r.Range(1, 16))
	wit := func() any {
		return map[string]any{"server_id": serverID, "server_id_hex": vm.Hex([]byte(serverID)), "player_name": name, "public_key_der_hex": vm.Hex(pubDER), "verify_token_hex": vm.Hex(token)}
	}
	c.Inflight(fmt.Sprintf("server-id session %d %q", si, serverID))
	c.Eval(vm.HashStr("server-id-session", fmt.Sprint(c.Shard, si)), true)
	sess.mu.Lock()
	sess.lastJoin, sess.lastCheck, sess.fault = "", "", ""
	sess.mu.Unlock()

	res := make(chan scriptResult, 1)
	serve := func(conn net.Conn) {
		defer conn.Close()
		conn.SetDeadline(time.Now().Add(10 * time.Second)) // bounds the wait only
		var buf []byte
		fail := func(stage string, err error) { res <- scriptResult{err: fmt.Errorf("%s: %w", stage, err)} }
		if _, err := readFrame(conn, &buf); err != nil { // handshake
			fail("reading the handshake", err)
			return
		}
		if _, err := readFrame(conn, &buf); err != nil { // login start
			fail("reading the login start", err)
			return
		}
		req := append(byteArray([]byte(serverID)), byteArray(pubDER)...) // a string travels as its UTF-8 bytes behind their count
		req = append(req, byteArray(token)...)
		if _, err := conn.Write(refwire.BuildFrame(int32(packetid.ClientboundLoginHello), req, -1, false, 0)); err != nil {
			fail("writing the encryption request", err)
			return
		}
		f, err := readFrame(conn, &buf)
		if err != nil {
			fail("reading the encryption response", err)
			return
		}
		if f.ID != int32(packetid.ServerboundLoginKey) {
			fail("reading the encryption response", fmt.Errorf("packet id %#x", f.ID))
			return
		}
		encSecret, _, err := takeByteArray(f.Payload)
		if err != nil {
			fail("parsing the encryption response", err)
			return
		}
		secret, err := rsa.DecryptPKCS1v15(rand.Reader, key, encSecret)
		if err != nil {
			fail("decrypting the shared secret", err)
			return
		}
		res <- scriptResult{secret: secret}
		// the script ends here: the connection is closed and the bot's join fails, which is not what is looked at
	}
	cl := bot.NewClient()
	cl.Auth = bot.Auth{Name: name, UUID: randUUID(r).String(), AsTk: "token"}
	var joinErr error
	if c.Guard("join-scripted-online", wit, func() {
		joinErr = cl.JoinServerWithOptions("verif.test:25565", bot.JoinOptions{MCDialer: scriptedDialer{serve}})
	}) {
		return
	}
	if joinErr == nil {
		cl.Close()
	}
	var sr scriptResult
	select {
	case sr = <-res:
	case <-time.After(15 * time.Second):
		c.Inconclusive("server-id session: the scripted server did not finish within 15 s")
		return
	}
	if sr.err != nil {
		if ne := net.Error(nil); errors.As(sr.err, &ne) && ne.Timeout() {
			c.Inconclusive("server-id session: " + sr.err.Error())
			return
		}
		c.Violation("digest/e2e/no-usable-encryption-response", fmt.Sprintf("a scripted online-mode server announcing server id %q got no usable encryption response (%v); the bot's join returned: %v", serverID, sr.err, joinErr), wit())
		return
	}
	sess.mu.Lock()
	posted := sess.lastJoin
	sess.mu.Unlock()
	want := refSessionHash(serverID, sr.secret, pubDER)
	if posted != want {
		w := wit().(map[string]any)
		w["shared_secret_hex"], w["posted_server_id"], w["java"] = hex.EncodeToString(sr.secret), posted, want
		c.Violation("digest/e2e/posted-hash-differs-from-java/"+kind, fmt.Sprintf("server id %q, the secret the bot sent and the key it was sent give %q; the bot posted serverId %q to the session service", serverID, want, posted), w)
		return
	}
	c.Cover("digest.e2e.server-id." + kind)
	if serverID != "" {
		c.Cover("digest.e2e.non-empty-server-id-reaches-the-hash")
	}
	if strings.HasPrefix(want, "-") {
		c.Cover("digest.e2e.negative")
	}
}

func serverIDSessions(c *vm.Ctx, sess *sessionServer) {
	r := c.Rand("server-id")
	key, err := rsa.GenerateKey(rand.Reader, 1024)
	if err != nil {
		c.Inconclusive("rsa.GenerateKey: " + err.Error())
		return
	}
	pubDER, _ := x509.MarshalPKIXPublicKey(&key.PublicKey)
	for i := 0; i < c.Scale(160, 3200); i++ {
		serverIDSession(c, r, i, sess, key, pubDER)
	}
}
