// One server for many connections (second blind-spot review). session() builds a new server.Server and a new
// MojangLoginHandler for every join and a new bot.Client as well, so nothing a handler or a client keeps between
// connections was ever used a second time: the login handler's RSA key (made at the first online login, taken
// from its cache afterwards), the client's Name/UUID/Conn of an earlier join. Here one server serves K bots that
// join at the same time over TCP and over pipes, then the same bot.Client values join it again one after the
// other, some under another name. Each connection carries a short stream each way whose i-th packet is known to
// both ends (so that a packet delivered to the wrong connection is seen) and in which every fifth packet has no
// payload at all - a size the self-describing bodies of session() cannot have.
package main

import (
	"bytes"
	"fmt"
	"sync"
	"time"

	"github.com/google/uuid"

	"github.com/Tnze/go-mc/bot"
	"github.com/Tnze/go-mc/chat"
	mcnet "github.com/Tnze/go-mc/net"
	pk "github.com/Tnze/go-mc/net/packet"
	"github.com/Tnze/go-mc/net/queue"
	"github.com/Tnze/go-mc/server"
	"github.com/Tnze/go-mc/yggdrasil/user"

	"verif/vm"
)

// sharedPacket: the i-th packet of the stream that belongs to (tag, dir). Every fifth one is an id without payload.
func sharedPacket(tag string, dir byte, i int, threshold int) pk.Packet {
	h := vm.HashStr("shared", tag, string(dir), fmt.Sprint(i))
	p := pk.Packet{ID: int32(1 + h%122)}
	if i%5 == 2 {
		return p
	}
	size := int(h>>8) % 40
	switch (h >> 20) % 6 {
	case 0:
		size = max(0, threshold-12+int(h>>24)%8) // id + data on both sides of the threshold
	case 1:
		size = 1 + int(h>>24)%3
	case 2:
		size = 200 + int(h>>24)%3000
	}
	d := make([]byte, 8+size)
	st := h
	for k := range d {
		st = st*6364136223846793005 + 1442695040888963407
		d[k] = byte(st >> 33)
		if k%4 == 1 {
			d[k] = 0
		}
	}
	p.Data = d
	return p
}

type sharedArrival struct {
	name     string
	id       uuid.UUID
	protocol int32
	gotC2S   []pk.Packet
	err      error
}

type sharedPlay struct {
	threshold  int
	nS2C, nC2S int
	mu         sync.Mutex
	arrivals   []*sharedArrival
	all        sync.WaitGroup
}

func (g *sharedPlay) AcceptPlayer(name string, id uuid.UUID, _ *user.PublicKey, _ []user.Property, protocol int32, conn *mcnet.Conn) {
	defer g.all.Done()
	a := &sharedArrival{name: name, id: id, protocol: protocol}
	g.mu.Lock()
	g.arrivals = append(g.arrivals, a)
	g.mu.Unlock()
	var wg sync.WaitGroup
	wg.Add(1)
	var werr error
	go func() {
		defer wg.Done()
		for i := 0; i < g.nS2C; i++ {
			if werr = conn.WritePacket(sharedPacket(name, 'S', i, g.threshold)); werr != nil {
				return
			}
		}
	}()
	for i := 0; i < g.nC2S; i++ {
		var p pk.Packet
		if err := conn.ReadPacket(&p); err != nil {
			a.err = err
			break
		}
		a.gotC2S = append(a.gotC2S, pk.Packet{ID: p.ID, Data: append([]byte(nil), p.Data...)})
	}
	wg.Wait()
	if a.err == nil {
		a.err = werr
	}
}

type sharedChecker struct {
	mu   sync.Mutex
	seen map[string]uuid.UUID
	prot map[string]int32
}

func (s *sharedChecker) CheckPlayer(name string, id uuid.UUID, protocol int32) (bool, chat.Message) {
	s.mu.Lock()
	s.seen[name], s.prot[name] = id, protocol
	s.mu.Unlock()
	return true, chat.Message{}
}

type sharedBot struct {
	cl        *bot.Client
	transport string
	queue     string
	name      string
	sessID    uuid.UUID
	got       []pk.Packet
	joinErr   error
	hgErr     error
	sendErr   error
	panicked  bool
}

func samePacket(a, b pk.Packet) bool { return a.ID == b.ID && bytes.Equal(a.Data, b.Data) }

func sharedServer(c *vm.Ctx, r *vm.Rand, k int, sess *sessionServer) {
	threshold := []int{-1, 0, 1, 64, 256}[(k/2)%5]
	online := k%2 == 1
	K := r.Range(2, 5)
	gp := &sharedPlay{threshold: threshold, nS2C: r.Range(0, 40), nC2S: r.Range(0, 40)}
	chk := &sharedChecker{seen: map[string]uuid.UUID{}, prot: map[string]int32{}}
	srv := &server.Server{
		ListPingHandler: listPing{server.NewPlayerList(20), server.NewPingInfo("verif", 767, chat.Text("shared"), nil)},
		LoginHandler:    &server.MojangLoginHandler{OnlineMode: online, Threshold: threshold, LoginChecker: chk},
		ConfigHandler:   cfgHandler{},
		GamePlay:        gp,
	}
	ln, err := mcnet.ListenMC("127.0.0.1:0")
	if err != nil {
		c.Inconclusive("listen: " + err.Error())
		return
	}
	defer ln.Close()
	go func() {
		for {
			conn, err := ln.Accept()
			if err != nil {
				return
			}
			go srv.AcceptConn(&conn)
		}
	}()
	sess.mu.Lock()
	sess.fault, sess.props = "", ""
	sess.mu.Unlock()

	bots := make([]*sharedBot, K)
	for i := range bots {
		b := &sharedBot{cl: bot.NewClient(), transport: []string{"tcp", "pipe"}[r.Intn(2)], queue: []string{"linked", "channel"}[r.Intn(2)]}
		b.cl.Events.AddGeneric(bot.PacketHandler{F: func(p pk.Packet) error {
			b.got = append(b.got, pk.Packet{ID: p.ID, Data: append([]byte(nil), p.Data...)})
			return nil
		}})
		bots[i] = b
	}
	base := map[string]any{"threshold": threshold, "online_mode": online, "bots": K, "packets_server_to_client_each": gp.nS2C, "packets_client_to_server_each": gp.nC2S, "server_instance": k}
	const bound = 30 * time.Second // bounds a wait only

	// one join and play of bot b under the name it has been given; returns when HandleGame has returned
	play := func(b *sharedBot) {
		b.got, b.joinErr, b.hgErr, b.sendErr, b.panicked = nil, nil, nil, nil, false
		b.cl.Auth = bot.Auth{Name: b.name, AsTk: "token"}
		if online {
			b.cl.Auth.UUID = b.sessID.String()
		}
		opts := bot.JoinOptions{}
		if b.queue == "channel" {
			opts.QueueRead = queue.NewChannelQueue[pk.Packet](4096)
			opts.QueueWrite = queue.NewChannelQueue[pk.Packet](4096)
		}
		addr := ln.Addr().String()
		if b.transport == "pipe" {
			opts.MCDialer = pipeDialer{srv}
		}
		if c.Guard("shared/join", func() any { return base }, func() { b.joinErr = b.cl.JoinServerWithOptions(addr, opts) }) {
			b.panicked = true
			return
		}
		if b.joinErr != nil {
			return
		}
		done := make(chan struct{})
		go func() {
			defer close(done)
			if c.Guard("shared/handlegame", func() any { return base }, func() { b.hgErr = b.cl.HandleGame() }) {
				b.panicked = true
			}
		}()
		for i := 0; i < gp.nC2S; i++ {
			if err := b.cl.Conn.WritePacket(sharedPacket(b.name, 'C', i, threshold)); err != nil {
				b.sendErr = err
				break
			}
		}
		<-done // the server hangs up when it has sent and received everything (or the watchdog of the run speaks)
		b.cl.Close()
	}
	// the checks of one round; names[i] is the name bot i joined under
	check := func(round string) bool {
		w := map[string]any{"round": round}
		for kk, v := range base {
			w[kk] = v
		}
		var names []string
		for _, b := range bots {
			names = append(names, fmt.Sprintf("%q via %s/%s", b.name, b.transport, b.queue))
		}
		w["bots_joined_as"] = names
		gp.mu.Lock()
		arr := append([]*sharedArrival{}, gp.arrivals...)
		gp.arrivals = nil
		gp.mu.Unlock()
		byName := map[string]*sharedArrival{}
		for _, a := range arr {
			if byName[a.name] != nil {
				c.Violation("shared-server/player-handed-over-twice", fmt.Sprintf("%s: AcceptPlayer ran twice for %q", round, a.name), w)
				return false
			}
			byName[a.name] = a
		}
		for _, b := range bots {
			if b.panicked {
				return false
			}
			if b.joinErr != nil {
				c.Violation("shared-server/join-failed/"+round+"/"+vm.NormErr(b.joinErr.Error()), fmt.Sprintf("%s: bot %q could not join a server that is serving other connections too: %v", round, b.name, b.joinErr), w)
				return false
			}
			a := byName[b.name]
			if a == nil {
				c.Violation("shared-server/identity/name", fmt.Sprintf("%s: bot %q joined, but AcceptPlayer never ran for that name (it ran for %d players)", round, b.name, len(arr)), w)
				return false
			}
			if b.cl.Name != b.name {
				c.Violation("shared-server/identity/name", fmt.Sprintf("%s: the bot configured as %q believes its name is %q", round, b.name, b.cl.Name), w)
				return false
			}
			wantID := refOfflineUUID(b.name)
			if online {
				wantID = b.sessID
			}
			chk.mu.Lock()
			cid, cprot := chk.seen[b.name], chk.prot[b.name]
			chk.mu.Unlock()
			if a.id != wantID || b.cl.UUID != wantID || cid != wantID {
				c.Violation("shared-server/identity/uuid", fmt.Sprintf("%s: player %q: the game got UUID %v, the login checker %v, the bot holds %v; expected %v (online mode: %v)", round, b.name, a.id, cid, b.cl.UUID, wantID, online), w)
				return false
			}
			if a.protocol != bot.ProtocolVersion || cprot != bot.ProtocolVersion {
				c.Violation("shared-server/identity/protocol", fmt.Sprintf("%s: player %q: the game got protocol %d, the checker %d, the bot speaks %d", round, b.name, a.protocol, cprot, bot.ProtocolVersion), w)
				return false
			}
			if b.sendErr != nil {
				c.Violation("shared-server/client-send-error", fmt.Sprintf("%s: bot %q could not send: %v", round, b.name, b.sendErr), w)
				return false
			}
			if len(a.gotC2S) != gp.nC2S {
				c.Violation("shared-server/c2s-lost", fmt.Sprintf("%s: the server received %d of %d packets from %q (error %v)", round, len(a.gotC2S), gp.nC2S, b.name, a.err), w)
				return false
			}
			for i, p := range a.gotC2S {
				if want := sharedPacket(b.name, 'C', i, threshold); !samePacket(p, want) {
					c.Violation("shared-server/c2s-altered-or-reordered", fmt.Sprintf("%s: packet %d from %q arrived as id %d with %d bytes, sent as id %d with %d bytes", round, i, b.name, p.ID, len(p.Data), want.ID, len(want.Data)), w)
					return false
				}
			}
			if len(b.got) != gp.nS2C {
				c.Violation("shared-server/s2c-lost-or-duplicated", fmt.Sprintf("%s: bot %q handled %d of %d packets (HandleGame returned %v)", round, b.name, len(b.got), gp.nS2C, b.hgErr), w)
				return false
			}
			for i, p := range b.got {
				if want := sharedPacket(b.name, 'S', i, threshold); !samePacket(p, want) {
					c.Violation("shared-server/s2c-altered-or-reordered", fmt.Sprintf("%s: packet %d to %q was handled as id %d with %d bytes, sent as id %d with %d bytes", round, i, b.name, p.ID, len(p.Data), want.ID, len(want.Data)), w)
					return false
				}
			}
		}
		if len(arr) != len(bots) {
			c.Violation("shared-server/extra-player", fmt.Sprintf("%s: %d bots joined, AcceptPlayer ran %d times", round, len(bots), len(arr)), w)
			return false
		}
		return true
	}
	rename := func(round int) {
		sess.mu.Lock()
		defer sess.mu.Unlock()
		for i, b := range bots {
			b.name = fmt.Sprintf("s%dr%db%d_%s", k%100, round, i, genNames(r))
			b.sessID = randUUID(r)
			sess.ids[b.name] = b.sessID
		}
	}
	waitAll := func(f func()) bool {
		done := make(chan struct{})
		go func() { f(); close(done) }()
		select {
		case <-done:
			return true
		case <-time.After(bound):
			c.Inconclusive(fmt.Sprintf("shared server: a round did not finish within %v", bound))
			return false
		}
	}
	c.Inflight(fmt.Sprintf("shared server %d %v", k, base))
	c.Eval(vm.HashStr("shared-server", fmt.Sprint(c.Shard, k)), true)

	// round 1: all at once
	rename(1)
	gp.all.Add(K)
	if !waitAll(func() {
		var wg sync.WaitGroup
		for _, b := range bots {
			wg.Add(1)
			go func(b *sharedBot) { defer wg.Done(); play(b) }(b)
		}
		wg.Wait()
		for _, b := range bots {
			if b.joinErr != nil || b.panicked {
				return // its AcceptPlayer may never run
			}
		}
		gp.all.Wait()
	}) {
		return
	}
	if !check("together") {
		return
	}
	c.Cover("shared-server.joins-at-the-same-time-ok")
	// round 2: the same clients again, one after the other; every other one under a new name
	old := make([]string, K)
	for i, b := range bots {
		old[i] = b.name
	}
	rename(2)
	for i, b := range bots {
		if i%2 == 0 {
			b.name = old[i]
			sess.mu.Lock()
			sess.ids[b.name] = b.sessID
			sess.mu.Unlock()
		}
	}
	gp.all.Add(K)
	if !waitAll(func() {
		for _, b := range bots {
			play(b)
			if b.joinErr != nil || b.panicked {
				return
			}
		}
		gp.all.Wait()
	}) {
		return
	}
	if !check("again-with-the-same-clients") {
		return
	}
	c.Cover("shared-server.clients-joining-a-second-time-ok")
	if online {
		c.Cover("shared-server.online")
	} else {
		c.Cover("shared-server.offline")
	}
	if gp.nS2C > 2 && gp.nC2S > 2 {
		c.Cover("shared-server.packets-without-payload-intact")
	}
	c.Cover(fmt.Sprintf("shared-server.threshold=%d", threshold))
	c.EvalN(int64(2*K*(gp.nS2C+gp.nC2S)), vm.HashStr("shared-packets", fmt.Sprint(c.Shard, k)), true)
}
