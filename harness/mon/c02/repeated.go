package main

// Carriers over documents in which a compound repeats a member name.  The binary form allows it (a compound is
// a sequence of named tags up to TAG_End), the library's readers accept it, and an opaque carrier promises the
// bytes it decoded: both occurrences, in their places, with their own values - at the root, in a struct field,
// behind a pointer, as a list element and as a map value.  The generator elsewhere keeps names distinct, so a
// carrier that files members under their names would pass everything else.

import (
	"bytes"
	"fmt"

	"github.com/Tnze/go-mc/nbt"
	"github.com/Tnze/go-mc/nbt/dynbt"

	"verif/gen/nbtgen"
	"verif/ref/refnbt"
	"verif/vm"
)

func compoundsOf(v *refnbt.Value, out *[]*refnbt.Value) {
	if v.Tag == refnbt.Compound && len(v.Comp) > 0 {
		*out = append(*out, v)
	}
	for _, e := range v.List {
		compoundsOf(e, out)
	}
	for _, e := range v.Comp {
		compoundsOf(e.V, out)
	}
}

// repeatName makes one compound of the tree carry one of its names twice (or three times) and says where.
func repeatName(r *vm.Rand, g *nbtgen.G, tree *refnbt.Value) (*refnbt.Value, string) {
	var cs []*refnbt.Value
	compoundsOf(tree, &cs)
	if len(cs) == 0 {
		tree = &refnbt.Value{Tag: refnbt.Compound, Comp: []refnbt.Entry{{Name: g.Key(), V: tree}}}
		cs = []*refnbt.Value{tree}
	}
	cv := cs[r.Intn(len(cs))]
	where := "nested-compound"
	if cv == tree {
		where = "root-compound"
	}
	times := 1
	if r.Intn(5) == 0 {
		times = 2
	}
	kind := ""
	for t := 0; t < times; t++ {
		j := r.Intn(len(cv.Comp))
		old := cv.Comp[j]
		var nv *refnbt.Value
		if r.Bool() {
			nv = g.Value(old.V.Tag, 2)
			kind = "same-tag"
		} else {
			tags := []byte{refnbt.Byte, refnbt.Short, refnbt.Int, refnbt.Long, refnbt.String, refnbt.List, refnbt.Compound, refnbt.IntArray}
			nv = g.Value(tags[r.Intn(len(tags))], 2)
			kind = "other-tag"
		}
		var at int
		switch r.Intn(4) {
		case 0:
			at, kind = j+1, kind+".adjacent"
		case 1:
			at, kind = len(cv.Comp), kind+".last"
		case 2:
			at, kind = 0, kind+".first"
		default:
			at, kind = r.Intn(len(cv.Comp)+1), kind+".anywhere"
		}
		comp := append([]refnbt.Entry{}, cv.Comp[:at]...)
		comp = append(comp, refnbt.Entry{Name: old.Name, V: nv})
		cv.Comp = append(comp, cv.Comp[at:]...)
	}
	if times == 2 {
		kind = "twice." + kind
	}
	return tree, where + "." + kind
}

func checkRepeatedNameCarriers(c *vm.Ctx, r *vm.Rand, g *nbtgen.G) {
	tree, cls := repeatName(r, g, g.Doc(0))
	network := r.Bool()
	name := ""
	if !network {
		name = []string{"", "root"}[r.Intn(2)]
	}
	doc := refnbt.Encode(tree, name, network)
	c.Eval(vm.Hash64(doc, []byte("repeated")), true)
	wrapDoc := refnbt.Encode(&refnbt.Value{Tag: refnbt.Compound, Comp: []refnbt.Entry{{Name: "a", V: refnbt.In(int32(r.Int64B()))}, {Name: "c", V: tree}, {Name: "z", V: refnbt.St("end")}}}, name, network)
	listDoc := refnbt.Encode(&refnbt.Value{Tag: refnbt.List, Elem: tree.Tag, List: []*refnbt.Value{tree, g.Value(tree.Tag, 2)}}, name, network)
	mapDoc := refnbt.Encode(&refnbt.Value{Tag: refnbt.Compound, Comp: []refnbt.Entry{{Name: "only", V: tree}}}, name, network)
	wit := func(pos string) func() any {
		return func() any {
			return map[string]any{"position": pos, "repeated": cls, "carried_doc_hex": vm.Hex(doc), "network": network, "tree": refnbt.Describe(tree)}
		}
	}
	try := func(sub, pos string, in []byte, target any, deref func() any) {
		n, ok := decodeBytes(c, sub, in, network, target, wit(pos))
		if !ok {
			return
		}
		b, ok := encodeBytes(c, sub, deref(), n, network, wit(pos))
		if !ok {
			return
		}
		if !bytes.Equal(b, in) {
			c.Violation(sub+"/repeated-name/not-byte-exact", fmt.Sprintf("carrier at %s over a compound that repeats a name re-encoded %d bytes, original %d bytes; got %s want %s", pos, len(b), len(in), vm.Hex(b), vm.Hex(in)), wit(pos)())
			return
		}
		c.Cover("repeated-name." + sub + ".byte-exact")
	}
	{
		var m nbt.RawMessage
		try("raw/root", "root", doc, &m, func() any { return m })
		var h rawHolder
		try("raw/field", "struct field", wrapDoc, &h, func() any { return h })
		var l []nbt.RawMessage
		try("raw/list", "list element", listDoc, &l, func() any { return l })
		var mm map[string]nbt.RawMessage
		try("raw/map", "map value", mapDoc, &mm, func() any { return mm })
	}
	{
		var m dynbt.Value
		try("dyn/root", "root", doc, &m, func() any { return &m })
		var h dynHolder
		try("dyn/field", "struct field", wrapDoc, &h, func() any { return &h })
		var hp dynPtrHolder
		try("dyn/ptrfield", "pointer struct field", wrapDoc, &hp, func() any { return hp })
		var l []*dynbt.Value
		try("dyn/list", "list element", listDoc, &l, func() any { return l })
		var mm map[string]*dynbt.Value
		try("dyn/map", "map value", mapDoc, &mm, func() any { return mm })
	}
	c.Cover("repeated-name." + cls)
}
