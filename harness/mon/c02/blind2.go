// Monitor C02, additions of the second blind-spot review.
//
//  1. long lists through the carriers: dynbt.Value writes list headers with a writer of its own (dynbt/encode.go), and
//     the carried documents had lists of at most 40 elements, so the count never had a non-zero second or third byte;
//  2. RawMessage behind pointers (*RawMessage fields, []*RawMessage, map[string]*RawMessage, &m at the root), carriers
//     as elements of fixed-size arrays and of nested lists, and "encoding does not modify v" for carriers (the same
//     bytes when encoded a second time);
//  3. root names other than "" and "n123" (in main.go, genLoop);
//  4. arrays whose elements are slices, arrays, structs and maps (in gen/gotypes, plus the forced types below);
//  5. eight goroutines round-tripping values and carriers of their own;
//  6. carriers followed by other bytes in the source, and several carriers decoded one after the other by one Decoder.
package main

import (
	"bytes"
	"fmt"
	"io"
	"reflect"
	"sync"

	"github.com/Tnze/go-mc/nbt"
	"github.com/Tnze/go-mc/nbt/dynbt"

	"verif/gen/gotypes"
	"verif/gen/nbtgen"
	"verif/inject"
	"verif/ref/refnbt"
	"verif/vm"
)

// ---- 1. long lists -------------------------------------------------------------------------------------------

func checkLongListCarriers(c *vm.Ctx, r *vm.Rand) {
	sizes := []int{255, 256, 257, 65535, 65536, 65537}
	if c.Thorough() {
		sizes = append(sizes, 70000, 131072)
	}
	if c.Div > 1 {
		sizes = []int{256, 65536}
	}
	for _, n := range sizes {
		for kind := 0; kind < 4; kind++ {
			if kind >= 2 && n > 300 && !(n == 65536 && kind == 2) {
				continue // lists of containers: around the second byte of the count, and once above the third
			}
			if c.Div > 1 && n > 300 && kind != 1 {
				continue // slow builds: one kind above the third byte
			}
			list := &refnbt.Value{Tag: refnbt.List}
			desc := ""
			switch kind {
			case 0:
				desc, list.Elem = "bytes", refnbt.Byte
				for i := 0; i < n; i++ {
					list.List = append(list.List, refnbt.B(int8(r.Uint64())))
				}
			case 1:
				desc, list.Elem = "shorts", refnbt.Short
				for i := 0; i < n; i++ {
					list.List = append(list.List, refnbt.Sh(int16(r.Uint64())))
				}
			case 2:
				desc, list.Elem = "compounds", refnbt.Compound
				for i := 0; i < n; i++ {
					list.List = append(list.List, &refnbt.Value{Tag: refnbt.Compound, Comp: []refnbt.Entry{{Name: "a", V: refnbt.B(int8(i))}}})
				}
			default:
				desc, list.Elem = "lists", refnbt.List
				for i := 0; i < n; i++ {
					list.List = append(list.List, &refnbt.Value{Tag: refnbt.List, Elem: refnbt.Byte, List: []*refnbt.Value{refnbt.B(int8(i))}})
				}
			}
			for _, member := range []bool{false, true} {
				tree := list
				if member {
					tree = &refnbt.Value{Tag: refnbt.Compound, Comp: []refnbt.Entry{{Name: "a", V: refnbt.In(int32(r.Uint64()))}, {Name: "c", V: list}, {Name: "z", V: refnbt.St("end")}}}
				}
				network := r.Bool()
				name := ""
				if !network {
					name = "L"
				}
				doc := refnbt.Encode(tree, name, network)
				what := fmt.Sprintf("a list of %d %s, member=%v, network=%v", n, desc, member, network)
				wit := func() any {
					return map[string]any{"carried": what, "doc_len": len(doc), "doc_head_hex": vm.Hex(doc[:min(len(doc), 64)])}
				}
				c.Eval(vm.HashStr("long-list-carrier", what), true)
				targets := []struct {
					sub string
					mk  func() any
				}{
					{"raw", func() any {
						if member {
							return new(rawHolder)
						}
						return new(nbt.RawMessage)
					}},
					{"dyn", func() any {
						if member {
							return new(dynHolder)
						}
						return new(dynbt.Value)
					}},
					{"dyn-elements", func() any {
						if member {
							return new(struct {
								A int32          `nbt:"a"`
								C []*dynbt.Value `nbt:"c"`
								Z string         `nbt:"z"`
							})
						}
						return new([]dynbt.Value)
					}},
					{"raw-elements", func() any {
						if member {
							return new(struct {
								A int32            `nbt:"a"`
								C []nbt.RawMessage `nbt:"c"`
								Z string           `nbt:"z"`
							})
						}
						return new([]nbt.RawMessage)
					}},
				}
				for _, tg := range targets {
					sub := "long-list-carrier/" + tg.sub
					target := tg.mk()
					gotName, ok := decodeBytes(c, sub, doc, network, target, wit)
					if !ok {
						continue
					}
					b, ok := encodeBytes(c, sub, target, gotName, network, wit)
					if !ok {
						continue
					}
					if !bytes.Equal(b, doc) {
						at := 0
						for at < len(b) && at < len(doc) && b[at] == doc[at] {
							at++
						}
						c.Violation(sub+"/not-byte-exact/"+desc, fmt.Sprintf("%s through %T: re-encoded %d bytes, original %d bytes; first difference at offset %d (%s vs %s)", what, target, len(b), len(doc), at, vm.Hex(b[at:min(len(b), at+8)]), vm.Hex(doc[at:min(len(doc), at+8)])), wit())
						continue
					}
					c.Cover("long-list-carrier." + tg.sub + ".byte-exact")
					if n >= 65536 {
						c.Cover("long-list-carrier." + tg.sub + ".65536-or-more")
					}
				}
			}
		}
	}
}

// ---- 2. RawMessage behind pointers, carriers in arrays and nested lists, encoding twice ----------------------------

type rawPtrHolder struct {
	A int32           `nbt:"a"`
	C *nbt.RawMessage `nbt:"c"`
	Z string          `nbt:"z"`
}

// checkCarrierPositions2 takes the documents of one checkCarriers call (tree at the root, as member c, as the first
// of two list elements, as map value k1).
func checkCarrierPositions2(c *vm.Ctx, r *vm.Rand, g *nbtgen.G) {
	tree := g.Doc(0)
	network := r.Bool()
	name := ""
	if !network {
		name = []string{"", "root"}[r.Intn(2)]
	}
	cls := carrierClass(tree)
	second := g.Value(tree.Tag, 3)
	third := g.Value(tree.Tag, 3)
	wrapTree := &refnbt.Value{Tag: refnbt.Compound, Comp: []refnbt.Entry{{Name: "a", V: refnbt.In(int32(r.Int64B()))}, {Name: "c", V: tree}, {Name: "z", V: refnbt.St("end")}}}
	listTree := &refnbt.Value{Tag: refnbt.List, Elem: tree.Tag, List: []*refnbt.Value{tree, second}}
	mapTree := &refnbt.Value{Tag: refnbt.Compound, Comp: []refnbt.Entry{{Name: "k1", V: tree}, {Name: "k2", V: second}}}
	nestedTree := &refnbt.Value{Tag: refnbt.List, Elem: refnbt.List, List: []*refnbt.Value{listTree, {Tag: refnbt.List, Elem: tree.Tag, List: []*refnbt.Value{third}}}} // no empty inner list: its element tag is the Go slice's business, not a carrier's
	mapOfListsTree := &refnbt.Value{Tag: refnbt.Compound, Comp: []refnbt.Entry{{Name: "k1", V: listTree}, {Name: "k2", V: &refnbt.Value{Tag: refnbt.List, Elem: tree.Tag, List: []*refnbt.Value{third}}}}}
	c.Eval(vm.Hash64(refnbt.Encode(tree, name, network), []byte("positions2")), true)
	type pos struct {
		sub  string
		tree *refnbt.Value
		mk   func() any
		// byValue: pass the receiver's pointee to Encode (the receiver itself otherwise)
		byValue bool
		anyOrd  bool // member order is free (a Go map at the root or inside)
	}
	positions := []pos{
		{"raw/root-by-pointer", tree, func() any { return new(nbt.RawMessage) }, false, false},
		{"raw/ptrfield", wrapTree, func() any { return new(rawPtrHolder) }, r.Bool(), false},
		{"raw/ptrlist", listTree, func() any { return new([]*nbt.RawMessage) }, r.Bool(), false},
		{"raw/ptrmap", mapTree, func() any { return new(map[string]*nbt.RawMessage) }, r.Bool(), true},
		{"raw/array", listTree, func() any { return new([2]nbt.RawMessage) }, r.Bool(), false},
		{"raw/nested-list", nestedTree, func() any { return new([][]nbt.RawMessage) }, r.Bool(), false},
		{"raw/map-of-lists", mapOfListsTree, func() any { return new(map[string][]nbt.RawMessage) }, r.Bool(), true},
		{"dyn/array", listTree, func() any { return new([2]dynbt.Value) }, r.Bool(), false},
		{"dyn/ptrarray", listTree, func() any { return new([2]*dynbt.Value) }, r.Bool(), false},
		{"dyn/nested-list", nestedTree, func() any { return new([][]*dynbt.Value) }, r.Bool(), false},
		{"dyn/nested-list-by-value", nestedTree, func() any { return new([][]dynbt.Value) }, r.Bool(), false},
		{"dyn/map-of-lists", mapOfListsTree, func() any { return new(map[string][]*dynbt.Value) }, r.Bool(), true},
		{"dyn/in-any-field", wrapTree, func() any {
			return &struct {
				A int32  `nbt:"a"`
				C any    `nbt:"c"`
				Z string `nbt:"z"`
			}{C: new(dynbt.Value)} // the caller put a carrier into the interface: decoded through, encoded through
		}, r.Bool(), false},
		{"raw/in-any-field", wrapTree, func() any {
			return &struct {
				A int32  `nbt:"a"`
				C any    `nbt:"c"`
				Z string `nbt:"z"`
			}{C: new(nbt.RawMessage)}
		}, r.Bool(), false},
	}
	for _, p := range positions {
		doc := refnbt.Encode(p.tree, name, network)
		wit := func() any {
			return map[string]any{"position": p.sub, "doc_hex": vm.Hex(doc), "network": network, "encode_receives_value_not_pointer": p.byValue, "tree": refnbt.Describe(p.tree)}
		}
		target := p.mk()
		n, ok := decodeBytes(c, p.sub, doc, network, target, wit)
		if !ok {
			continue
		}
		arg := target
		if p.byValue {
			arg = reflect.ValueOf(target).Elem().Interface()
		}
		b1, ok := encodeBytes(c, p.sub, arg, n, network, wit)
		if !ok {
			continue
		}
		b2, ok := encodeBytes(c, p.sub+"/second-encode", arg, n, network, wit)
		if !ok {
			continue
		}
		if p.anyOrd {
			good := true
			for i, b := range [][]byte{b1, b2} {
				got, gn, used, perr := refnbt.Parse(b, network)
				if perr != nil || used != len(b) || gn != n {
					c.Violation(p.sub+"/not-wellformed/"+cls, fmt.Sprintf("re-encoded carriers (encode call %d) are not one document: %v", i+1, perr), wit())
					good = false
				} else if d := refnbt.Equal(got, p.tree, refnbt.Opts{}); d != "" {
					c.Violation(p.sub+"/not-byte-exact/"+cls, fmt.Sprintf("carriers re-encoded differently (encode call %d): %s", i+1, d), wit())
					good = false
				}
				if !good {
					break
				}
			}
			if good {
				c.Cover(p.sub + ".byte-exact")
			}
			continue
		}
		if !bytes.Equal(b1, doc) {
			c.Violation(p.sub+"/not-byte-exact/"+cls, fmt.Sprintf("carrier at %s re-encoded %d bytes, original %d bytes; got %s want %s", p.sub, len(b1), len(doc), vm.Hex(b1), vm.Hex(doc)), wit())
			continue
		}
		if !bytes.Equal(b2, b1) {
			c.Violation(p.sub+"/second-encode-differs/"+cls, fmt.Sprintf("encoding the same carriers a second time gave %s, the first time %s: encoding modified them", vm.Hex(b2), vm.Hex(b1)), wit())
			continue
		}
		c.Cover(p.sub + ".byte-exact")
	}
}

// ---- 4. forced array-of-composite types ---------------------------------------------------------------------------

func checkArraysOfComposites(c *vm.Ctx, r *vm.Rand) {
	tg := gotypes.New(r)
	str := reflect.TypeOf("")
	for _, t := range forcedTypes[:12] { // the twelve scalar kinds
		types := []reflect.Type{
			reflect.ArrayOf(2, reflect.SliceOf(t)), reflect.ArrayOf(2, reflect.ArrayOf(3, t)), reflect.ArrayOf(3, reflect.MapOf(str, t)),
			reflect.ArrayOf(2, reflect.StructOf([]reflect.StructField{{Name: "V", Type: t, Tag: `nbt:"v"`}, {Name: "S", Type: reflect.SliceOf(t), Tag: `nbt:"s,omitempty"`}})),
			reflect.SliceOf(reflect.ArrayOf(2, reflect.SliceOf(t))), reflect.MapOf(str, reflect.ArrayOf(2, reflect.ArrayOf(2, t))),
			reflect.StructOf([]reflect.StructField{{Name: "A", Type: reflect.ArrayOf(2, reflect.ArrayOf(2, t)), Tag: `nbt:"a"`}, {Name: "P", Type: reflect.PointerTo(reflect.ArrayOf(1, reflect.SliceOf(t))), Tag: `nbt:"p"`}}),
		}
		for _, at := range types {
			for k := 0; k < 3; k++ {
				tg.Features = map[string]bool{}
				v := tg.GenValue(at)
				roundTrip(c, "gen", v, r.Bool(), r.Bool(), "", map[string]bool{"array.of-composites.forced": true})
			}
		}
	}
}

// ---- 5. goroutines --------------------------------------------------------------------------------------------------

func checkTogether(c *vm.Ctx, r *vm.Rand) {
	const G = 8
	const perG = 16
	type job struct {
		v       reflect.Value
		network bool
		byPtr   bool
		doc     []byte // a document for the carriers
		docNet  bool
	}
	type worker struct {
		jobs []job
		sig  string
		fail string
		wit  map[string]any
	}
	var fresh []reflect.Type
	for i := 0; i < 3; i++ {
		u := r.Uint64()
		inner := reflect.StructOf([]reflect.StructField{
			{Name: "X", Type: reflect.TypeOf(uint16(0)), Tag: reflect.StructTag(fmt.Sprintf(`nbt:"x%x"`, u))},
			{Name: "S", Type: reflect.TypeOf([]uint32(nil)), Tag: reflect.StructTag(fmt.Sprintf(`nbt:"s%x,omitempty"`, u>>8))},
		})
		fresh = append(fresh, reflect.StructOf([]reflect.StructField{
			{Name: "A", Type: reflect.TypeOf(""), Tag: reflect.StructTag(fmt.Sprintf(`nbt:"a%x"`, u>>16))},
			{Name: "E", Type: inner, Anonymous: true},
			{Name: "L", Type: reflect.SliceOf(inner), Tag: reflect.StructTag(fmt.Sprintf(`nbt:"l%x"`, u>>24))},
			{Name: "I", Type: reflect.TypeOf([]int64(nil)), Tag: reflect.StructTag(fmt.Sprintf(`nbt:"i%x,list"`, u>>32))},
			{Name: "P", Type: reflect.PointerTo(inner), Tag: reflect.StructTag(fmt.Sprintf(`nbt:"p%x"`, u>>40))},
			{Name: "M", Type: reflect.MapOf(reflect.TypeOf(""), inner), Tag: reflect.StructTag(fmt.Sprintf(`nbt:"m%x"`, u>>48))},
		}))
	}
	ws := make([]*worker, G)
	for g := range ws {
		w := &worker{}
		gr := r.Fork()
		cfg := nbtgen.Default()
		cfg.MaxNodes, cfg.MaxArray, cfg.LongString = 40, 300, false
		ng := nbtgen.New(gr, cfg)
		tg := gotypes.New(gr)
		for k := 0; k < perG; k++ {
			var j job
			for {
				if k < len(fresh) {
					j.v = tg.GenValue(fresh[(k+g)%len(fresh)])
				} else if gr.Bool() {
					j.v = tg.GenValue(tg.GenType(0))
				} else {
					j.v = tg.GenValue(tg.GenStruct(0))
				}
				if _, unsup := gotypes.Expect(j.v); unsup == "" {
					break
				}
			}
			j.network, j.byPtr, j.docNet = gr.Bool(), gr.Bool(), gr.Bool()
			j.doc = refnbt.Encode(ng.Doc(0), "", j.docNet)
			w.jobs = append(w.jobs, j)
		}
		ws[g] = w
	}
	const rounds = 3
	var wg, start sync.WaitGroup
	start.Add(1)
	for g := range ws {
		wg.Add(1)
		go func(w *worker) {
			defer wg.Done()
			var cur *job
			what := ""
			defer func() {
				if p := recover(); p != nil && w.fail == "" {
					w.sig, w.fail = "panic", fmt.Sprintf("panic while %s: %v", what, p)
					if cur != nil {
						w.wit = map[string]any{"doc_hex": vm.Hex(cur.doc), "go_type": short(cur.v.Type().String()), "go_value": short(fmt.Sprintf("%+v", cur.v.Interface()))}
					}
				}
			}()
			start.Wait()
			for round := 0; round < rounds; round++ {
				for k := range w.jobs {
					j := &w.jobs[k]
					cur = j
					what = "round-tripping a value"
					snap := gotypes.Clone(j.v)
					var buf bytes.Buffer
					enc := nbt.NewEncoder(&buf)
					enc.NetworkFormat(j.network)
					var err error
					if j.byPtr {
						err = enc.Encode(j.v.Addr().Interface(), "")
					} else {
						err = enc.Encode(j.v.Interface(), "")
					}
					vwit := func() map[string]any {
						return map[string]any{"go_type": short(j.v.Type().String()), "go_value": short(fmt.Sprintf("%+v", j.v.Interface())), "network": j.network, "by_pointer": j.byPtr, "bytes": vm.Hex(buf.Bytes()), "goroutines": G}
					}
					if d := gotypes.StrictSame(snap, j.v); d != "" {
						w.sig, w.fail, w.wit = "marshal-modified-v", "Marshal next to other goroutines' calls modified its argument: "+d, vwit()
						return
					}
					if err != nil {
						w.sig, w.fail, w.wit = "marshal-error", "Marshal next to other goroutines' calls failed: "+err.Error(), vwit()
						return
					}
					out := reflect.New(j.v.Type())
					dec := nbt.NewDecoder(bytes.NewReader(buf.Bytes()))
					dec.NetworkFormat(j.network)
					if _, err = dec.Decode(out.Interface()); err != nil {
						w.sig, w.fail, w.wit = "unmarshal-error", "decoding the encoding of v next to other goroutines' calls failed: "+err.Error(), vwit()
						return
					}
					if d := gotypes.EqualGo(j.v, out.Elem()); d != "" {
						w.sig, w.fail, w.wit = "roundtrip-mismatch", "Unmarshal(Marshal(v)) != v next to other goroutines' calls: "+short(d), vwit()
						return
					}
					what = "carrying a document"
					for ci, target := range []any{new(nbt.RawMessage), new(dynbt.Value)} {
						dec := nbt.NewDecoder(bytes.NewReader(j.doc))
						dec.NetworkFormat(j.docNet)
						_, err := dec.Decode(target)
						var b bytes.Buffer
						if err == nil {
							e := nbt.NewEncoder(&b)
							e.NetworkFormat(j.docNet)
							err = e.Encode(target, "")
						}
						if err != nil || !bytes.Equal(b.Bytes(), j.doc) {
							w.sig = []string{"raw", "dyn"}[ci] + "/not-byte-exact"
							w.fail = fmt.Sprintf("%T next to other goroutines' calls: error %v, re-encoded %s", target, err, vm.Hex(b.Bytes()))
							w.wit = map[string]any{"carried_doc_hex": vm.Hex(j.doc), "network": j.docNet, "goroutines": G}
							return
						}
					}
				}
			}
		}(ws[g])
	}
	start.Done()
	wg.Wait()
	c.EvalN(int64(G*perG*rounds*3), vm.HashStr("together", fmt.Sprint(c.Shard, r.Uint64())), true)
	for _, w := range ws {
		if w.fail != "" {
			c.Violation("together/"+w.sig, w.fail, w.wit)
			return
		}
	}
	c.Cover("together.8-goroutines-with-values-of-their-own")
}

// ---- 6. carriers followed by other bytes; several carriers behind one Decoder ------------------------------------------

func checkCarrierStreams(c *vm.Ctx, r *vm.Rand, g *nbtgen.G) {
	network := r.Bool()
	var docs [][]byte
	var trees []*refnbt.Value
	names := []string{"", "root", "Level"}
	var in []byte
	var ends []int
	var wantNames []string
	for i := 0; i < 3; i++ {
		t := g.Doc(0)
		name := ""
		if !network {
			name = names[r.Intn(3)]
		}
		d := refnbt.Encode(t, name, network)
		docs, trees, wantNames = append(docs, d), append(trees, t), append(wantNames, name)
		in = append(in, d...)
		ends = append(ends, len(in))
	}
	in = append(in, r.Bytes(r.Range(1, 9))...)
	srcKind := r.Intn(3)
	var rd io.Reader
	pos := func() int { return 0 }
	src := ""
	switch srcKind {
	case 0:
		br := bytes.NewReader(in)
		rd, src, pos = br, "bytes.Reader", func() int { return len(in) - br.Len() }
	case 1:
		pr := &inject.PlainReader{R: bytes.NewReader(in)}
		rd, src, pos = pr, "plain io.Reader", func() int { return int(pr.N) }
	default:
		cr := &inject.ChunkReader{B: in, Plan: []int{2, 1, 5, 3}}
		rd, src, pos = cr, "plain io.Reader with short reads", func() int { return cr.Pos }
	}
	// one variable per carrier kind is decoded into again and again, or a new one each time
	reuse := r.Bool()
	kinds := []string{"raw", "dyn", "snbt"}
	kindOf := func(k int) string { return kinds[(k+srcKind)%3] }
	var rm nbt.RawMessage
	var dv dynbt.Value
	k := 0
	wit := func() any {
		return map[string]any{"stream_hex": vm.Hex(in), "network": network, "source": src, "document_ends": ends, "failing_decode": k, "receiver": kindOf(k), "receivers_reused": reuse,
			"stream": "three documents and 1..8 other bytes; one Decoder; receivers RawMessage / dynbt.Value / StringifiedMessage in rotation"}
	}
	c.Eval(vm.Hash64(in, []byte("carrier-stream")), true)
	var dec *nbt.Decoder
	for ; k < 3; k++ {
		var target any
		switch kindOf(k) {
		case "raw":
			if reuse {
				target = &rm
			} else {
				target = new(nbt.RawMessage)
			}
		case "dyn":
			if reuse {
				target = &dv
			} else {
				target = new(dynbt.Value)
			}
		default:
			target = new(nbt.StringifiedMessage)
		}
		var name string
		var err error
		if c.Guard("carrier-stream/decode", wit, func() {
			if dec == nil {
				dec = nbt.NewDecoder(rd)
				dec.NetworkFormat(network)
			}
			name, err = dec.Decode(target)
		}) {
			return
		}
		if err != nil {
			c.Violation("carrier-stream/decode-error/"+kindOf(k), fmt.Sprintf("Decode number %d into %T from a stream of well-formed documents failed: %v", k, target, err), wit())
			return
		}
		if pos() != ends[k] || name != wantNames[k] {
			c.Violation("carrier-stream/consumed-or-name/"+kindOf(k), fmt.Sprintf("after Decode number %d into %T the source stands at %d (document ends at %d), root name %q (want %q)", k, target, pos(), ends[k], name, wantNames[k]), wit())
			return
		}
		if kindOf(k) == "snbt" {
			continue // what the text must be is C04's matter; here: it took exactly its document
		}
		b, ok := encodeBytes(c, "carrier-stream", target, name, network, wit)
		if !ok {
			return
		}
		if !bytes.Equal(b, docs[k]) {
			c.Violation("carrier-stream/not-byte-exact/"+kindOf(k)+"/"+carrierClass(trees[k]), fmt.Sprintf("%T decoded as number %d of a stream re-encodes %s, its document is %s", target, k, vm.Hex(b), vm.Hex(docs[k])), wit())
			return
		}
	}
	c.Cover("carrier-stream.byte-exact-and-exact-consumption")
	if reuse {
		c.Cover("carrier-stream.receivers-reused")
	}
}

// ---- the same embedded struct type reached along two paths -----------------------------------------------------------

// checkDiamond: D embeds B and C, both embed A. A's fields are reached twice at one depth, so by the embedding rules
// (the ones checkNameConflicts applies) nobody owns their names: they are not emitted and stay zero in a fresh
// variable - unless a shallower field of D, B or C offers the name. The conflict types above never contain one type
// twice, so the table of a type was never built from two instances of the same embedded type.
func checkDiamond(c *vm.Ctx, r *vm.Rand) {
	i32 := reflect.TypeOf(int32(0))
	for variant := 0; variant < 6; variant++ {
		taggedK := variant&1 == 1
		shallow := (variant >> 1) % 3 // 0: nobody else offers K; 1: D itself has a field K; 2: B has a field K (depth 1)
		// Not demanded: with one more level between (D{B{M{A}}; C{M{A}}}) the library emits A's fields once, through B -
		// exactly what encoding/json does (the count of instances is not carried down a level), and the embedding
		// rules are documented as encoding/json's. Observation only.
		const ptrMid = false
		kf := reflect.StructField{Name: "K", Type: reflect.TypeOf("")}
		if taggedK {
			kf = reflect.StructField{Name: "TK", Type: reflect.TypeOf(""), Tag: `nbt:"K"`}
		}
		a := reflect.StructOf([]reflect.StructField{kf, {Name: "UA", Type: i32, Tag: `nbt:"ua"`}})
		inner := a
		if ptrMid {
			// one more level between: A is then reached at depth 3 along both paths
			inner = reflect.StructOf([]reflect.StructField{{Name: "EA", Type: a, Anonymous: true}, {Name: "UM", Type: i32, Tag: `nbt:"um"`}})
		}
		bf := []reflect.StructField{{Name: "EI", Type: inner, Anonymous: true}, {Name: "UB", Type: i32, Tag: `nbt:"ub"`}}
		if shallow == 2 {
			bf = append(bf, reflect.StructField{Name: "BK", Type: reflect.TypeOf(""), Tag: `nbt:"K"`})
		}
		b := reflect.StructOf(bf)
		cc := reflect.StructOf([]reflect.StructField{{Name: "EI", Type: inner, Anonymous: true}, {Name: "UC", Type: i32, Tag: `nbt:"uc"`}})
		df := []reflect.StructField{{Name: "Own", Type: i32, Tag: `nbt:"own"`}, {Name: "EB", Type: b, Anonymous: true}, {Name: "EC", Type: cc, Anonymous: true}}
		if shallow == 1 {
			df = append(df, reflect.StructField{Name: "DK", Type: reflect.TypeOf(""), Tag: `nbt:"K"`})
		}
		d := reflect.StructOf(df)
		for _, network := range []bool{false, true} {
			for _, byPtr := range []bool{false, true} {
				v := reflect.New(d).Elem()
				// fill every leaf
				n := 0
				var fill func(x reflect.Value)
				fill = func(x reflect.Value) {
					for i := 0; i < x.NumField(); i++ {
						f := x.Field(i)
						switch f.Kind() {
						case reflect.Struct:
							fill(f)
						case reflect.String:
							n++
							f.SetString(fmt.Sprintf("s%d", n))
						default:
							f.SetInt(int64(r.Range(1, 1<<20)))
						}
					}
				}
				fill(v)
				wantK := ""
				switch shallow {
				case 1:
					wantK = v.FieldByName("DK").String()
				case 2:
					wantK = v.Field(1).FieldByName("BK").String()
				}
				desc := fmt.Sprintf("D{own; B{I; ub%s}; C{I; uc}%s}, I = %s{K %s; ua}", map[bool]string{true: "; K"}[shallow == 2], map[bool]string{true: "; K"}[shallow == 1], map[bool]string{false: "A", true: "M{um; A}, A = "}[ptrMid], map[bool]string{false: "untagged", true: "tagged"}[taggedK])
				wit := func() any {
					return map[string]any{"shape": desc, "go_type": short(d.String()), "go_value": short(fmt.Sprintf("%+v", v.Interface())), "network": network, "by_pointer": byPtr}
				}
				c.Eval(vm.HashStr("diamond", desc, fmt.Sprint(network, byPtr)), true)
				arg := v.Interface()
				if byPtr {
					arg = v.Addr().Interface()
				}
				enc, ok := encodeBytes(c, "diamond", arg, "", network, wit)
				if !ok {
					continue
				}
				tree, _, used, perr := refnbt.Parse(enc, network)
				if perr != nil || used != len(enc) {
					c.Violation("diamond/malformed", fmt.Sprintf("emitted document not well-formed: %v", perr), wit())
					continue
				}
				count := map[string]int{}
				for _, e := range tree.Comp {
					count[e.Name]++
				}
				wantCount := map[string]int{"own": 1, "ub": 1, "uc": 1}
				if wantK != "" {
					wantCount["K"] = 1
				}
				bad := ""
				for _, name := range []string{"own", "ub", "uc", "K", "ua", "um"} {
					if count[name] != wantCount[name] {
						bad += fmt.Sprintf(" %s emitted %d times, the embedding rules give it %d owner(s);", name, count[name], wantCount[name])
					}
				}
				if bad == "" && wantK != "" && (tree.Get("K").Tag != refnbt.String || tree.Get("K").S != wantK) {
					bad = fmt.Sprintf(" K carries %s, its owner holds %q", refnbt.Describe(tree.Get("K")), wantK)
				}
				if bad != "" {
					c.Violation("diamond/emitted-names", "a struct type embedded along two paths:"+bad, wit())
					continue
				}
				out := reflect.New(d)
				if _, ok := decodeBytes(c, "diamond", enc, network, out.Interface(), wit); !ok {
					continue
				}
				want := gotypes.Clone(v)
				var zero func(x reflect.Value, depth int)
				zero = func(x reflect.Value, depth int) {
					for i := 0; i < x.NumField(); i++ {
						sf := x.Type().Field(i)
						switch {
						case sf.Type.Kind() == reflect.Struct:
							zero(x.Field(i), depth+1)
						case sf.Name == "K" || sf.Name == "TK" || sf.Name == "UA" || sf.Name == "UM":
							x.Field(i).Set(reflect.Zero(sf.Type)) // reached along two paths: nobody's
						}
					}
				}
				zero(want, 0)
				if df := gotypes.EqualGo(want, out.Elem()); df != "" {
					c.Violation("diamond/roundtrip-mismatch", "round trip differs from what the embedding rules give: "+df, wit())
					continue
				}
				c.Cover("conflict.same-type-along-two-paths")
				if wantK != "" {
					c.Cover("conflict.same-type-along-two-paths.shallower-owner")
				}
			}
		}
	}
}

// ---- slices with spare capacity ----------------------------------------------------------------------------------

// checkSpareCapacity: "encoding does not modify v" includes the part of a slice's backing array beyond its length
// (a caller's buffer whose tail belongs to something else). Generated slices have no spare capacity, so an encoder
// that appended to one of them, or padded it in place, went unnoticed.
func checkSpareCapacity(c *vm.Ctx, r *vm.Rand) {
	type spare struct {
		B  []byte   `nbt:"b"`
		S  []int8   `nbt:"s"`
		I  []int32  `nbt:"i"`
		L  []int64  `nbt:"l,list"`
		H  []uint16 `nbt:"h"`
		St []string `nbt:"st"`
		NB gotypes.NamedBytes
		R  nbt.RawMessage `nbt:"r"`
		LL [][]byte       `nbt:"ll"`
		M  map[string][]byte
	}
	n := r.Range(0, 6)
	const extra = 8
	var v spare
	bb := r.Bytes(n + extra)
	sb := make([]int8, n+extra)
	ib := make([]int32, n+extra)
	lb := make([]int64, n+extra)
	hb := make([]uint16, n+extra)
	stb := make([]string, n+extra)
	nb := r.Bytes(n + extra)
	rb := append([]byte{0, 0, 0, byte(n)}, r.Bytes(n+extra)...)
	llb := make([][]byte, n+extra)
	mb := r.Bytes(n + extra)
	for i := 0; i < n+extra; i++ {
		x := r.Uint64()
		sb[i], ib[i], lb[i], hb[i], stb[i], llb[i] = int8(x), int32(x>>8), int64(x), uint16(x>>16), fmt.Sprint("s", x%1000), []byte{byte(x >> 24)}
	}
	v.B, v.S, v.I, v.L, v.H, v.St, v.NB, v.LL = bb[:n], sb[:n], ib[:n], lb[:n], hb[:n], stb[:n], gotypes.NamedBytes(nb[:n]), llb[:n]
	v.R = nbt.RawMessage{Type: nbt.TagByteArray, Data: rb[:4+n]}
	v.M = map[string][]byte{"k": mb[:n]}
	snapshot := func() string {
		return fmt.Sprint(bb[n:], sb[n:], ib[n:], lb[n:], hb[n:], stb[n:], nb[n:], rb[4+n:], llb[n:], mb[n:])
	}
	before := snapshot()
	rv := addr(v)
	for _, byPtr := range []bool{false, true} {
		network := r.Bool()
		wit := func() any {
			return map[string]any{"go_value": short(fmt.Sprintf("%+v", v)), "slice_len": n, "slice_cap": n + extra, "network": network, "by_pointer": byPtr}
		}
		arg := rv.Interface()
		if byPtr {
			arg = rv.Addr().Interface()
		}
		c.Eval(vm.HashStr("spare", before, fmt.Sprint(byPtr, network)), true)
		enc, ok := encodeBytes(c, "spare-capacity", arg, "", network, wit)
		if !ok {
			return
		}
		if after := snapshot(); after != before {
			c.Violation("spare-capacity/marshal-modified-backing-array", fmt.Sprintf("Marshal changed what lies between a slice's length and its capacity: before %s, after %s", short(before), short(after)), wit())
			return
		}
		out := reflect.New(rv.Type())
		if _, ok := decodeBytes(c, "spare-capacity", enc, network, out.Interface(), wit); !ok {
			return
		}
		if d := gotypes.EqualGo(rv, out.Elem()); d != "" {
			c.Violation("spare-capacity/roundtrip-mismatch", "Unmarshal(Marshal(v)) != v for slices with spare capacity: "+d, wit())
			return
		}
	}
	c.Cover("value.slices-with-spare-capacity")
}

// ---- a carrier decoded into again: a list after a list ----------------------------------------------------------------

// checkCarrierReuseLists: a carrier variable (and a carrier field of a struct variable) that held a list receives
// another list: an empty one with another element tag, a shorter one, one of another element tag. What it re-encodes
// is the list it decoded last, element tag included. checkCarrierReuse draws two random documents, which are
// almost never both lists at the root.
func checkCarrierReuseLists(c *vm.Ctx, r *vm.Rand) {
	mk := func(tag byte, n int) *refnbt.Value {
		l := &refnbt.Value{Tag: refnbt.List, Elem: tag}
		for i := 0; i < n; i++ {
			var e *refnbt.Value
			switch tag {
			case refnbt.Byte:
				e = refnbt.B(int8(r.Uint64()))
			case refnbt.Short:
				e = refnbt.Sh(int16(r.Uint64()))
			case refnbt.Int:
				e = refnbt.In(int32(r.Uint64()))
			case refnbt.Long:
				e = refnbt.Lo(int64(r.Uint64()))
			case refnbt.Float:
				e = refnbt.Fl(uint32(r.Uint64()))
			case refnbt.Double:
				e = refnbt.Do(r.Uint64())
			case refnbt.String:
				e = refnbt.St(fmt.Sprint("s", r.Intn(100)))
			case refnbt.ByteArray:
				e = &refnbt.Value{Tag: tag, Bytes: r.Bytes(r.Intn(4))}
			case refnbt.IntArray:
				e = &refnbt.Value{Tag: tag, Ints: []int32{int32(r.Uint64())}}
			case refnbt.LongArray:
				e = &refnbt.Value{Tag: tag, Longs: []int64{int64(r.Uint64())}}
			case refnbt.List:
				e = &refnbt.Value{Tag: tag, Elem: refnbt.Byte, List: []*refnbt.Value{refnbt.B(1)}}
			default:
				e = &refnbt.Value{Tag: refnbt.Compound, Comp: []refnbt.Entry{{Name: "k", V: refnbt.B(int8(i))}}}
			}
			l.List = append(l.List, e)
		}
		return l
	}
	for x := byte(0); x <= 12; x++ {
		for y := byte(0); y <= 12; y++ {
			nx, ny := r.Range(0, 3), []int{0, 0, 1, 3}[r.Intn(4)]
			if x == refnbt.End {
				nx = 0
			}
			if y == refnbt.End {
				ny = 0
			}
			first, second := mk(x, nx), mk(y, ny)
			for _, field := range []bool{false, true} {
				t1, t2 := first, second
				if field {
					t1 = &refnbt.Value{Tag: refnbt.Compound, Comp: []refnbt.Entry{{Name: "c", V: first}}}
					t2 = &refnbt.Value{Tag: refnbt.Compound, Comp: []refnbt.Entry{{Name: "c", V: second}}}
				}
				d1, d2 := refnbt.Encode(t1, "", true), refnbt.Encode(t2, "", true)
				wit := func() any {
					return map[string]any{"first_doc_hex": vm.Hex(d1), "second_doc_hex": vm.Hex(d2), "carrier_is_struct_field_c": field, "second_tree": refnbt.Describe(t2)}
				}
				c.Eval(vm.Hash64(d1, d2, []byte("reuse-lists")), true)
				var dh struct {
					C dynbt.Value `nbt:"c"`
				}
				var rh struct {
					C nbt.RawMessage `nbt:"c"`
				}
				targets := []struct {
					kind string
					v    any
				}{{"dynbt", new(dynbt.Value)}, {"raw", new(nbt.RawMessage)}}
				if field {
					targets[0].v, targets[1].v = &dh, &rh
				}
				good := true
				for _, tg := range targets {
					sub := "carrier-reuse-lists/" + tg.kind
					if _, ok := decodeBytes(c, sub, d1, true, tg.v, wit); !ok {
						good = false
						continue
					}
					if _, ok := decodeBytes(c, sub, d2, true, tg.v, wit); !ok {
						good = false
						continue
					}
					b, ok := encodeBytes(c, sub, tg.v, "", true, wit)
					if !ok {
						good = false
						continue
					}
					if !bytes.Equal(b, d2) {
						c.Violation(sub+"/second-decode-not-byte-exact", fmt.Sprintf("a %s carrier that held %s and then decoded %s re-encodes %s, the document it decoded last is %s", tg.kind, refnbt.Describe(first), refnbt.Describe(second), vm.Hex(b), vm.Hex(d2)), wit())
						good = false
					}
				}
				if good {
					c.Cover("carrier-reuse.list-after-list")
					if ny == 0 && y != x {
						c.Cover("carrier-reuse.empty-list-of-another-element-tag")
					}
				}
			}
		}
	}
}

// ---- deep documents through the carriers --------------------------------------------------------------------------------

// checkDeepCarriers: the generated documents nest at most 6 deep; the carriers count nesting on their own (dynbt) or
// through a decoder of their own (RawMessage, StringifiedMessage). Well-formed documents 7..500 deep must be carried
// byte for byte like any other.
func checkDeepCarriers(c *vm.Ctx, r *vm.Rand) {
	depths := []int{7, 8, 9, 16, 33, 64, 129, 256, 400, 500}
	if c.Div > 1 {
		depths = []int{7, 64, 500}
	}
	for _, depth := range depths {
		for form := 0; form < 3; form++ {
			// innermost value first
			var v *refnbt.Value = refnbt.Sh(int16(r.Uint64()))
			for l := depth; l > 0; l-- {
				asList := form == 0 || (form == 2 && l%2 == 0)
				if asList {
					v = &refnbt.Value{Tag: refnbt.List, Elem: v.Tag, List: []*refnbt.Value{v}}
				} else {
					v = &refnbt.Value{Tag: refnbt.Compound, Comp: []refnbt.Entry{{Name: "n", V: v}, {Name: "x", V: refnbt.B(int8(l))}}}
				}
			}
			formName := []string{"lists", "compounds", "alternating"}[form]
			for _, member := range []bool{false, true} {
				tree := v
				if member {
					tree = &refnbt.Value{Tag: refnbt.Compound, Comp: []refnbt.Entry{{Name: "a", V: refnbt.In(1)}, {Name: "c", V: v}, {Name: "z", V: refnbt.St("end")}}}
				}
				network := r.Bool()
				doc := refnbt.Encode(tree, "", network)
				what := fmt.Sprintf("%d nested %s around a short, member=%v, network=%v", depth, formName, member, network)
				wit := func() any { return map[string]any{"carried": what, "doc_hex": vm.Hex(doc)} }
				c.Eval(vm.HashStr("deep-carrier", what), true)
				targets := []struct {
					sub string
					mk  func() any
				}{
					{"raw", func() any {
						if member {
							return new(rawHolder)
						}
						return new(nbt.RawMessage)
					}},
					{"dyn", func() any {
						if member {
							return new(dynHolder)
						}
						return new(dynbt.Value)
					}},
					{"snbt", func() any {
						if member {
							return new(snbtHolder)
						}
						return new(nbt.StringifiedMessage)
					}},
				}
				for _, tg := range targets {
					sub := "deep-carrier/" + tg.sub
					target := tg.mk()
					if _, ok := decodeBytes(c, sub, doc, network, target, wit); !ok {
						continue
					}
					b, ok := encodeBytes(c, sub, target, "", network, wit)
					if !ok {
						continue
					}
					if !bytes.Equal(b, doc) {
						c.Violation(sub+"/not-byte-exact/"+formName, fmt.Sprintf("%s through %T: re-encoded %d bytes, original %d bytes", what, target, len(b), len(doc)), wit())
						continue
					}
					c.Cover("deep-carrier." + tg.sub + ".byte-exact")
					if depth >= 256 {
						c.Cover("deep-carrier." + tg.sub + ".256-or-deeper")
					}
				}
			}
		}
	}
}

// checkStringifiedReuse: a StringifiedMessage variable that is decoded into a second time holds the second
// document's text - the text a fresh variable gets for that document (what the text must be is C04's matter).
func checkStringifiedReuse(c *vm.Ctx, r *vm.Rand, g *nbtgen.G) {
	first, second := g.Doc(0), g.Doc(0)
	d1, d2 := refnbt.Encode(first, "", true), refnbt.Encode(second, "", true)
	wit := func() any {
		return map[string]any{"first_doc_hex": vm.Hex(d1), "second_doc_hex": vm.Hex(d2), "second_tree": refnbt.Describe(second)}
	}
	c.Eval(vm.Hash64(d1, d2, []byte("snbt-reuse")), true)
	var reused, fresh nbt.StringifiedMessage
	var hr, hf snbtHolder
	w1 := refnbt.Encode(&refnbt.Value{Tag: refnbt.Compound, Comp: []refnbt.Entry{{Name: "a", V: refnbt.In(1)}, {Name: "c", V: first}, {Name: "z", V: refnbt.St("one")}}}, "", true)
	w2 := refnbt.Encode(&refnbt.Value{Tag: refnbt.Compound, Comp: []refnbt.Entry{{Name: "a", V: refnbt.In(2)}, {Name: "c", V: second}, {Name: "z", V: refnbt.St("two")}}}, "", true)
	for _, step := range []struct {
		doc    []byte
		target any
	}{{d1, &reused}, {d2, &reused}, {d2, &fresh}, {w1, &hr}, {w2, &hr}, {w2, &hf}} {
		if _, ok := decodeBytes(c, "snbt-reuse", step.doc, true, step.target, wit); !ok {
			return
		}
	}
	if reused != fresh || hr != hf {
		c.Violation("snbt-reuse/second-decode-differs", fmt.Sprintf("a StringifiedMessage decoded twice holds %q (as struct field: %q), a fresh one decoding the second document holds %q (%q)", short(string(reused)), short(string(hr.C)), short(string(fresh)), short(string(hf.C))), wit())
		return
	}
	c.Cover("snbt.reused-receiver")
}

// checkHighestCountByte: one byte array of 2^24+3 bytes through the carriers and through Marshal/Unmarshal, so that
// the highest byte of a 4-byte count is not zero for once. Not in the slow builds.
func checkHighestCountByte(c *vm.Ctx, r *vm.Rand) {
	if c.Div > 1 {
		return
	}
	const n = 1<<24 + 3
	payload := make([]byte, n)
	for i := 0; i < n; i += 8 {
		x := r.Uint64()
		for k := 0; k < 8 && i+k < n; k++ {
			payload[i+k] = byte(x >> (8 * uint(k)))
		}
	}
	doc := refnbt.Encode(&refnbt.Value{Tag: refnbt.ByteArray, Bytes: payload}, "big", false)
	wit := func(what string) func() any {
		return func() any {
			return map[string]any{"case": what, "document": "a byte array of 2^24+3 bytes (stream 'highest-count-byte')"}
		}
	}
	ok := true
	for _, tg := range []struct {
		what   string
		target any
	}{{"RawMessage", new(nbt.RawMessage)}, {"dynbt.Value", new(dynbt.Value)}} {
		c.Eval(vm.HashStr("highest-count-byte", tg.what), true)
		name, good := decodeBytes(c, "highest-count-byte/"+tg.what, doc, false, tg.target, wit(tg.what))
		if !good {
			ok = false
			continue
		}
		b, good := encodeBytes(c, "highest-count-byte/"+tg.what, tg.target, name, false, wit(tg.what))
		if !good {
			ok = false
			continue
		}
		if !bytes.Equal(b, doc) {
			c.Violation("highest-count-byte/not-byte-exact/"+tg.what, fmt.Sprintf("re-encoded %d bytes, the document has %d; head %s vs %s", len(b), len(doc), vm.Hex(b[:min(len(b), 16)]), vm.Hex(doc[:16])), wit(tg.what)())
			ok = false
		}
	}
	type holder struct {
		B []byte `nbt:"b"`
		S []int8 `nbt:"s"`
		Z string `nbt:"z"`
	}
	v := holder{B: payload, S: make([]int8, n), Z: "after"}
	for i := range v.S {
		v.S[i] = int8(payload[n-1-i])
	}
	c.Eval(vm.HashStr("highest-count-byte", "marshal"), true)
	if b, good := encodeBytes(c, "highest-count-byte/marshal", v, "", true, wit("struct{b []byte; s []int8; z string}")); good {
		var back holder
		if _, good := decodeBytes(c, "highest-count-byte/unmarshal", b, true, &back, wit("struct{b []byte; s []int8; z string}")); good {
			same := bytes.Equal(back.B, v.B) && len(back.S) == n && back.Z == v.Z
			for i := 0; same && i < n; i++ {
				same = back.S[i] == v.S[i]
			}
			if !same {
				c.Violation("highest-count-byte/roundtrip-mismatch", fmt.Sprintf("Unmarshal(Marshal(v)) != v: b has %d bytes (equal: %v), s %d elements, z %q", len(back.B), bytes.Equal(back.B, v.B), len(back.S), back.Z), wit("struct{b []byte; s []int8; z string}")())
				ok = false
			}
		} else {
			ok = false
		}
	} else {
		ok = false
	}
	if ok {
		c.Cover("count.highest-byte-not-zero")
	}
}
