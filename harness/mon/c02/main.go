// Monitor C02: typed round trip Unmarshal(Marshal(v)) == v, no panic, v not
// modified; carriers (RawMessage, dynbt.Value) re-encode byte for byte.
package main

import (
	"bytes"
	"fmt"
	"io"
	"reflect"
	"strconv"
	"strings"

	"github.com/Tnze/go-mc/nbt"
	"github.com/Tnze/go-mc/nbt/dynbt"

	"verif/gen/gotypes"
	"verif/gen/nbtgen"
	"verif/inject"
	"verif/ref/refnbt"
	"verif/ref/refsnbt"
	"verif/vm"
)

func main() { vm.Main("C02", run) }

func short(s string) string {
	if len(s) > 1500 {
		return s[:1500] + "..."
	}
	return s
}

// typeClass is a coarse, stable description of the outermost shape (for signatures).
func typeClass(t reflect.Type) string {
	switch t.Kind() {
	case reflect.Slice, reflect.Array:
		return t.Kind().String() + "." + t.Elem().Kind().String()
	case reflect.Map:
		return "map." + t.Elem().Kind().String()
	case reflect.Pointer:
		return "ptr." + t.Elem().Kind().String()
	}
	return t.Kind().String()
}

// culprit walks a diff path like $.F3[2].F7 and returns the class of the type at that path.
func culprit(t reflect.Type, path string) string {
	cur := t
	i := 1 // skip $
	for i < len(path) && cur != nil {
		switch path[i] {
		case '.':
			j := i + 1
			for j < len(path) && path[j] != '.' && path[j] != '[' && path[j] != '*' && path[j] != ':' {
				j++
			}
			name := path[i+1 : j]
			for cur.Kind() == reflect.Pointer {
				cur = cur.Elem()
			}
			if cur.Kind() == reflect.Struct {
				if sf, ok := cur.FieldByName(name); ok {
					cur = sf.Type
				} else {
					return typeClass(cur)
				}
			} else if cur.Kind() == reflect.Map {
				cur = cur.Elem()
			} else {
				return typeClass(cur)
			}
			i = j
		case '[':
			j := i
			for j < len(path) && path[j] != ']' {
				j++
			}
			for cur.Kind() == reflect.Pointer {
				cur = cur.Elem()
			}
			if cur.Kind() == reflect.Slice || cur.Kind() == reflect.Array {
				return typeClass(cur) // report the container: the element kind is in its class
			}
			return typeClass(cur)
		case '*':
			if cur.Kind() == reflect.Pointer {
				cur = cur.Elem()
			}
			i++
		default:
			return typeClass(cur)
		}
	}
	if cur == nil {
		return "?"
	}
	return typeClass(cur)
}

func diffPath(d string) string {
	for i := 0; i < len(d); i++ {
		if d[i] == ':' && i+1 < len(d) && d[i+1] == ' ' {
			return d[:i]
		}
	}
	return d
}

// srcR decides how a round trip is carried out: through the Encoder / Decoder types or through the shortcuts
// nbt.Marshal / nbt.Unmarshal (file format, empty root name), and from which kind of source the bytes are read.
var srcR *vm.Rand

func roundTrip(c *vm.Ctx, sub string, v reflect.Value, network bool, byPtr bool, name string, feats map[string]bool) {
	t := v.Type()
	valStr := short(fmt.Sprintf("%+v", v.Interface()))
	if srcR == nil {
		srcR = c.Rand("sources")
	}
	wrapper := name == "" && !network && srcR.Bool()
	chunked := !wrapper && srcR.Intn(3) == 0
	via := "Encoder.Encode / Decoder.Decode from a bytes.Reader"
	if wrapper {
		via = "nbt.Marshal / nbt.Unmarshal"
	} else if chunked {
		via = "Encoder.Encode / Decoder.Decode from a plain io.Reader returning 1,2,3,7,... bytes per read"
	}
	wit := func() any {
		return map[string]any{"go_type": short(t.String()), "go_value": valStr, "network": network, "by_pointer": byPtr, "root_name": short(name), "root_name_len": len(name), "via": via}
	}
	unsup := ""
	if sub == "gen" {
		_, unsup = gotypes.Expect(v)
	}
	snap := gotypes.Clone(v)
	var buf bytes.Buffer
	var err error
	pan := c.Guard(sub+"/marshal", wit, func() {
		var arg any
		if byPtr {
			arg = v.Addr().Interface()
		} else {
			arg = v.Interface()
		}
		if wrapper {
			var b []byte
			b, err = nbt.Marshal(arg)
			buf.Write(b)
			return
		}
		enc := nbt.NewEncoder(&buf)
		enc.NetworkFormat(network)
		err = enc.Encode(arg, name)
	})
	c.Eval(vm.HashStr(sub, t.String(), valStr, fmt.Sprint(network, byPtr)), t.Kind() != reflect.String && t.Kind() != reflect.Bool)
	if d := gotypes.StrictSame(snap, v); d != "" {
		c.Violation(sub+"/marshal-modified-v/"+culprit(t, diffPath(d)), "Marshal modified its argument: "+d, wit())
		return
	}
	if pan {
		return
	}
	if unsup != "" {
		c.Cover("unsupported-by-mapping")
		return
	}
	if err != nil {
		c.Violation(sub+"/marshal-error/"+vm.NormErr(err.Error()), "Marshal returned an error for a value of the universe: "+err.Error(), wit())
		return
	}
	out := reflect.New(t)
	var gotName string
	pan = c.Guard(sub+"/unmarshal", func() any { w := wit().(map[string]any); w["bytes"] = vm.Hex(buf.Bytes()); return w }, func() {
		if wrapper {
			gotName, err = name, nbt.Unmarshal(buf.Bytes(), out.Interface())
			return
		}
		var rd io.Reader = bytes.NewReader(buf.Bytes())
		if chunked {
			rd = &inject.ChunkReader{B: buf.Bytes(), Plan: []int{1, 2, 3, 7}}
		}
		dec := nbt.NewDecoder(rd)
		dec.NetworkFormat(network)
		gotName, err = dec.Decode(out.Interface())
	})
	if pan {
		return
	}
	w2 := func() any { w := wit().(map[string]any); w["bytes"] = vm.Hex(buf.Bytes()); return w }
	if err != nil {
		c.Violation(sub+"/unmarshal-error/"+vm.NormErr(err.Error()), "decoding the encoding of v into a fresh variable of v's type failed: "+err.Error(), w2())
		return
	}
	if !network && gotName != name {
		c.Violation(sub+"/root-name", fmt.Sprintf("root name %q (%d bytes) came back as %q (%d bytes)", short(name), len(name), short(gotName), len(gotName)), w2())
		return
	}
	switch {
	case len(name) >= 32767:
		c.Cover("root-name.32767-bytes")
	case len(name) >= 256:
		c.Cover("root-name.256-bytes-or-more")
	case len(name) >= 128:
		c.Cover("root-name.128-to-255-bytes")
	}
	if d := gotypes.EqualGo(v, out.Elem()); d != "" {
		c.Violation(sub+"/roundtrip-mismatch/"+culprit(t, diffPath(d)), "Unmarshal(Marshal(v)) != v: "+d, w2())
		return
	}
	for f := range feats {
		c.Cover(f)
	}
	if network {
		c.Cover("format.network")
	} else {
		c.Cover("format.file")
	}
	if byPtr {
		c.Cover("pass.pointer")
	} else {
		c.Cover("pass.value")
	}
	switch {
	case wrapper:
		c.Cover("via.Marshal-Unmarshal")
	case chunked:
		c.Cover("src.short-reads")
	default:
		c.Cover("src.bytes-reader")
	}
}

func stripQuoted(s string) string {
	out := []byte{}
	in := false
	for i := 0; i < len(s); i++ {
		if s[i] == '"' {
			in = !in
			out = append(out, '"')
			continue
		}
		if !in {
			out = append(out, s[i])
		}
	}
	return string(out)
}

// ---- static zoo -----------------------------------------------------------

type NamedStr string
type NamedStrM string

func (NamedStrM) Describe() string {
	return "a named string type with a method that is not a TextMarshaler"
}

type NamedInt int32

func (n NamedInt) Double() NamedInt { return n * 2 }

type TextT struct{ A, B int }

func (t TextT) MarshalText() ([]byte, error) {
	return []byte(strconv.Itoa(t.A) + ":" + strconv.Itoa(t.B)), nil
}

func (t *TextT) UnmarshalText(b []byte) error {
	_, err := fmt.Sscanf(string(b), "%d:%d", &t.A, &t.B)
	return err
}

type Inner struct {
	I1 int16
	I2 string `nbt:"i2"`
}

type EmbPtr struct {
	*Inner
	X int32
}

type EmbVal struct {
	Inner
	Y []int64 `nbt:"y,omitempty"`
}

type NamedF32 float32
type NamedF64 float64
type NamedBool bool
type NamedU16 uint16
type NamedBytes []byte
type NamedInts []int32
type NamedKeyMap map[NamedStr]int32

// KeyStr is a string key type that also has a String method (a fmt.Stringer): as a map key it is still a string.
type KeyStr string

func (k KeyStr) String() string { return "KeyStr(" + string(k) + ")" }

type Zoo struct {
	SK   map[KeyStr]int32
	NF32 NamedF32
	NF64 NamedF64
	NB   NamedBool
	NU16 NamedU16
	NBy  NamedBytes
	NIs  NamedInts
	NKM  NamedKeyMap
	NS   NamedStr
	NSM  NamedStrM
	NI   NamedInt
	TT   TextT   `nbt:"tt"`
	TTs  []TextT `nbt:"tts"`
	EP   EmbPtr  `nbt:"ep"`
	EV   EmbVal  `nbt:"ev"`
	PI   *Inner  `nbt:"pi,omitempty"`
	M    map[string]Inner
	Arr  [2]Inner `nbt:"arr"`
	Skip int      `nbt:"-"`
}

func genZoo(r *vm.Rand) Zoo {
	s := func() string { return []string{"", "a", "hello world", "123", "§x", "q\"q"}[r.Intn(6)] }
	in := func() Inner { return Inner{I1: int16(r.Int64B()), I2: s()} }
	z := Zoo{NS: NamedStr(s()), NSM: NamedStrM(s()), NI: NamedInt(r.Int64B()), TT: TextT{r.Intn(100) - 50, r.Intn(100)}, EP: EmbPtr{X: int32(r.Int64B())}, EV: EmbVal{Inner: in()}}
	z.NF32, z.NF64, z.NB, z.NU16 = NamedF32(r.Intn(100))/4, NamedF64(r.Intn(1000))/8, NamedBool(r.Bool()), NamedU16(r.Int64B())
	if r.Bool() {
		z.NBy = NamedBytes(r.Bytes(r.Intn(5)))
		z.NIs = NamedInts{int32(r.Int64B()), 7}
		z.NKM = NamedKeyMap{NamedStr(s()): 5, "zz": int32(r.Int64B())}
		z.SK = map[KeyStr]int32{KeyStr(s()): 1, "k2": int32(r.Int64B())}
	}
	for i := r.Intn(3); i > 0; i-- {
		z.TTs = append(z.TTs, TextT{r.Intn(9), -r.Intn(9)})
	}
	if r.Bool() {
		i := in()
		z.EP.Inner = &i
	}
	if r.Bool() {
		z.EV.Y = []int64{r.Int64B(), r.Int64B()}
	}
	if r.Bool() {
		i := in()
		z.PI = &i
	}
	if r.Bool() {
		z.M = map[string]Inner{s(): in(), "k": in()}
	}
	z.Arr = [2]Inner{in(), in()}
	return z
}

// ---- carriers --------------------------------------------------------------

type rawHolder struct {
	A int32          `nbt:"a"`
	C nbt.RawMessage `nbt:"c"`
	Z string         `nbt:"z"`
}

type dynHolder struct {
	A int32       `nbt:"a"`
	C dynbt.Value `nbt:"c"`
	Z string      `nbt:"z"`
}

type dynPtrHolder struct {
	A int32        `nbt:"a"`
	C *dynbt.Value `nbt:"c"`
	Z string       `nbt:"z"`
}

type snbtHolder struct {
	A int32                  `nbt:"a"`
	C nbt.StringifiedMessage `nbt:"c"`
	Z string                 `nbt:"z"`
}

func decodeBytes(c *vm.Ctx, sub string, in []byte, network bool, target any, wit func() any) (name string, ok bool) {
	var err error
	if c.Guard(sub+"/decode", wit, func() {
		dec := nbt.NewDecoder(bytes.NewReader(in))
		dec.NetworkFormat(network)
		name, err = dec.Decode(target)
	}) {
		return "", false
	}
	if err != nil {
		c.Violation(sub+"/decode-error", "carrier failed to decode a well-formed document: "+err.Error(), wit())
		return "", false
	}
	return name, true
}

func encodeBytes(c *vm.Ctx, sub string, v any, name string, network bool, wit func() any) ([]byte, bool) {
	var buf bytes.Buffer
	var err error
	if c.Guard(sub+"/encode", wit, func() {
		enc := nbt.NewEncoder(&buf)
		enc.NetworkFormat(network)
		err = enc.Encode(v, name)
	}) {
		return nil, false
	}
	if err != nil {
		c.Violation(sub+"/encode-error", "carrier failed to re-encode: "+err.Error(), wit())
		return nil, false
	}
	return buf.Bytes(), true
}

func carrierClass(tree *refnbt.Value) string {
	// the feature of the carried value that matters for byte-exactness
	if hasNonEndEmptyList(tree) {
		return "has-empty-list-with-elem-type"
	}
	return "root." + refnbt.TagName(tree.Tag)
}

func hasNonEndEmptyList(v *refnbt.Value) bool {
	if v.Tag == refnbt.List && len(v.List) == 0 && v.Elem != refnbt.End {
		return true
	}
	for _, e := range v.List {
		if hasNonEndEmptyList(e) {
			return true
		}
	}
	for _, e := range v.Comp {
		if hasNonEndEmptyList(e.V) {
			return true
		}
	}
	return false
}

func checkCarriers(c *vm.Ctx, r *vm.Rand, g *nbtgen.G) {
	tree := g.Doc(0)
	network := r.Bool()
	name := ""
	if !network {
		name = []string{"", "root", "Level"}[r.Intn(3)]
	}
	doc := refnbt.Encode(tree, name, network)
	cls := carrierClass(tree)
	c.Eval(vm.Hash64(doc), true)
	wit := func(pos string) func() any {
		return func() any {
			return map[string]any{"position": pos, "carried_doc_hex": vm.Hex(doc), "network": network, "tree": refnbt.Describe(tree)}
		}
	}
	same := func(sub, pos string, got, want []byte) {
		if !bytes.Equal(got, want) {
			c.Violation(sub+"/not-byte-exact/"+cls, fmt.Sprintf("carrier at %s re-encoded %d bytes, original %d bytes; got %s want %s", pos, len(got), len(want), vm.Hex(got), vm.Hex(want)), wit(pos)())
		} else {
			c.Cover(sub + ".byte-exact")
		}
	}
	// wrappers
	wrapTree := &refnbt.Value{Tag: refnbt.Compound, Comp: []refnbt.Entry{{Name: "a", V: refnbt.In(int32(r.Int64B()))}, {Name: "c", V: tree}, {Name: "z", V: refnbt.St("end")}}}
	wrapDoc := refnbt.Encode(wrapTree, name, network)
	second := g.Value(tree.Tag, 3)
	listTree := &refnbt.Value{Tag: refnbt.List, Elem: tree.Tag, List: []*refnbt.Value{tree, second}}
	listDoc := refnbt.Encode(listTree, name, network)
	mapTree := &refnbt.Value{Tag: refnbt.Compound, Comp: []refnbt.Entry{{Name: "k1", V: tree}, {Name: "k2", V: second}}}
	mapDoc := refnbt.Encode(mapTree, name, network)

	// --- RawMessage
	{
		var m nbt.RawMessage
		if n, ok := decodeBytes(c, "raw/root", doc, network, &m, wit("root")); ok {
			if b, ok := encodeBytes(c, "raw/root", m, n, network, wit("root")); ok {
				same("raw/root", "root", b, doc)
			}
		}
		var h rawHolder
		if n, ok := decodeBytes(c, "raw/field", wrapDoc, network, &h, wit("struct field")); ok {
			if b, ok := encodeBytes(c, "raw/field", h, n, network, wit("struct field")); ok {
				same("raw/field", "struct field", b, wrapDoc)
			}
		}
		var l []nbt.RawMessage
		if n, ok := decodeBytes(c, "raw/list", listDoc, network, &l, wit("list element")); ok {
			if b, ok := encodeBytes(c, "raw/list", l, n, network, wit("list element")); ok {
				same("raw/list", "list element", b, listDoc)
			}
		}
		var mm map[string]nbt.RawMessage
		if n, ok := decodeBytes(c, "raw/map", mapDoc, network, &mm, wit("map value")); ok {
			if b, ok := encodeBytes(c, "raw/map", mm, n, network, wit("map value")); ok {
				// key order of a Go map is free: compare as trees, strictly (element tags of empty lists included)
				got, gn, used, perr := refnbt.Parse(b, network)
				if perr != nil || used != len(b) || gn != n {
					c.Violation("raw/map/not-wellformed/"+cls, fmt.Sprintf("re-encoded map of carriers is not a document: %v", perr), wit("map value")())
				} else if d := refnbt.Equal(got, mapTree, refnbt.Opts{}); d != "" {
					c.Violation("raw/map/not-byte-exact/"+cls, "carrier as map value re-encoded differently: "+d, wit("map value")())
				} else {
					c.Cover("raw/map.byte-exact")
				}
			}
		}
	}
	// --- dynbt.Value
	{
		var m dynbt.Value
		if n, ok := decodeBytes(c, "dyn/root", doc, network, &m, wit("root")); ok {
			if b, ok := encodeBytes(c, "dyn/root", &m, n, network, wit("root")); ok {
				same("dyn/root", "root", b, doc)
			}
		}
		var h dynHolder
		if n, ok := decodeBytes(c, "dyn/field", wrapDoc, network, &h, wit("struct field")); ok {
			if b, ok := encodeBytes(c, "dyn/field", &h, n, network, wit("struct field")); ok {
				same("dyn/field", "struct field", b, wrapDoc)
			}
		}
		var hp dynPtrHolder
		if n, ok := decodeBytes(c, "dyn/ptrfield", wrapDoc, network, &hp, wit("pointer struct field")); ok {
			if b, ok := encodeBytes(c, "dyn/ptrfield", hp, n, network, wit("pointer struct field")); ok {
				same("dyn/ptrfield", "pointer struct field", b, wrapDoc)
			}
		}
		var l []*dynbt.Value
		if n, ok := decodeBytes(c, "dyn/list", listDoc, network, &l, wit("list element")); ok {
			if b, ok := encodeBytes(c, "dyn/list", l, n, network, wit("list element")); ok {
				same("dyn/list", "list element", b, listDoc)
			}
		}
		var mm map[string]*dynbt.Value
		if n, ok := decodeBytes(c, "dyn/map", mapDoc, network, &mm, wit("map value")); ok {
			if b, ok := encodeBytes(c, "dyn/map", mm, n, network, wit("map value")); ok {
				got, gn, used, perr := refnbt.Parse(b, network)
				if perr != nil || used != len(b) || gn != n {
					c.Violation("dyn/map/not-wellformed/"+cls, fmt.Sprintf("re-encoded map of carriers is not a document: %v", perr), wit("map value")())
				} else if d := refnbt.Equal(got, mapTree, refnbt.Opts{}); d != "" {
					c.Violation("dyn/map/not-byte-exact/"+cls, "carrier as map value re-encoded differently: "+d, wit("map value")())
				} else {
					c.Cover("dyn/map.byte-exact")
				}
			}
		}
	}
	checkCarriersByValue(c, doc, wrapDoc, listDoc, mapDoc, mapTree, network, cls, wit, same)
	c.Cover("carrier." + cls)
}

// checkStringified: a StringifiedMessage obtained by decoding must survive Marshal -> Unmarshal unchanged
// (the universe's round-trip clause for this carrier type). The documents are restricted to what C04
// establishes as faithfully convertible.
// checkCarrierReuse: a carrier that decodes a second value holds the second value - when one variable is decoded
// into twice, and when a compound repeats a name so that the same struct field is decoded twice within one document.
func checkCarrierReuse(c *vm.Ctx, r *vm.Rand, g *nbtgen.G) {
	first, second := g.Doc(0), g.Doc(0)
	if r.Bool() { // the interesting case: two compounds with different members
		first, second = g.Doc(refnbt.Compound), g.Doc(refnbt.Compound)
	}
	d1, d2 := refnbt.Encode(first, "", true), refnbt.Encode(second, "", true)
	wit := func() any {
		return map[string]any{"first_doc_hex": vm.Hex(d1), "second_doc_hex": vm.Hex(d2), "second_tree": refnbt.Describe(second)}
	}
	c.Eval(vm.Hash64(d1, d2, []byte("carrier-reuse")), true)
	reenc := func(v any) []byte {
		var b bytes.Buffer
		e := nbt.NewEncoder(&b)
		e.NetworkFormat(true)
		if err := e.Encode(v, ""); err != nil {
			return []byte("encode error: " + err.Error())
		}
		return b.Bytes()
	}
	// (a) one variable, two Unmarshal calls
	var dv dynbt.Value
	var rm nbt.RawMessage
	ok := true
	c.Guard("carrier-reuse/decode", wit, func() {
		for _, d := range [][]byte{d1, d2} {
			dec := nbt.NewDecoder(bytes.NewReader(d))
			dec.NetworkFormat(true)
			if _, err := dec.Decode(&dv); err != nil {
				c.Violation("carrier-reuse/dynbt/decode-error", "dynbt.Value refuses a well-formed document: "+err.Error(), wit())
				ok = false
				return
			}
			dec = nbt.NewDecoder(bytes.NewReader(d))
			dec.NetworkFormat(true)
			if _, err := dec.Decode(&rm); err != nil {
				c.Violation("carrier-reuse/raw/decode-error", "RawMessage refuses a well-formed document: "+err.Error(), wit())
				ok = false
				return
			}
		}
	})
	if !ok {
		return
	}
	if got := reenc(&dv); !bytes.Equal(got, d2) {
		c.Violation("carrier-reuse/dynbt/second-decode-not-byte-exact/"+carrierClass(second), fmt.Sprintf("a dynbt.Value decoded twice re-encodes %s, the document it decoded last is %s", vm.Hex(got), vm.Hex(d2)), wit())
		return
	}
	if got := reenc(rm); !bytes.Equal(got, d2) {
		c.Violation("carrier-reuse/raw/second-decode-not-byte-exact/"+carrierClass(second), fmt.Sprintf("a RawMessage decoded twice re-encodes %s, the document it decoded last is %s", vm.Hex(got), vm.Hex(d2)), wit())
		return
	}
	// (b) one document naming the field twice: {a: first, a: second}
	dup := &refnbt.Value{Tag: refnbt.Compound, Comp: []refnbt.Entry{{Name: "a", V: first}, {Name: "a", V: second}}}
	dd := refnbt.Encode(dup, "", true)
	var hd struct {
		A dynbt.Value `nbt:"a"`
	}
	var hr struct {
		A nbt.RawMessage `nbt:"a"`
	}
	var e1, e2 error
	if c.Guard("carrier-reuse/repeated-name", wit, func() {
		dec := nbt.NewDecoder(bytes.NewReader(dd))
		dec.NetworkFormat(true)
		_, e1 = dec.Decode(&hd)
		dec = nbt.NewDecoder(bytes.NewReader(dd))
		dec.NetworkFormat(true)
		_, e2 = dec.Decode(&hr)
	}) {
		return
	}
	if e1 == nil {
		if got := reenc(&hd.A); !bytes.Equal(got, d2) {
			c.Violation("carrier-reuse/dynbt/repeated-name-not-byte-exact/"+carrierClass(second), fmt.Sprintf("a dynbt.Value field named twice in one compound re-encodes %s, the value it decoded last is %s", vm.Hex(got), vm.Hex(d2)), wit())
			return
		}
	}
	if e2 == nil {
		if got := reenc(hr.A); !bytes.Equal(got, d2) {
			c.Violation("carrier-reuse/raw/repeated-name-not-byte-exact/"+carrierClass(second), fmt.Sprintf("a RawMessage field named twice in one compound re-encodes %s, the value it decoded last is %s", vm.Hex(got), vm.Hex(d2)), wit())
			return
		}
	}
	c.Cover("carrier-reuse.byte-exact")
}

func checkStringified(c *vm.Ctx, r *vm.Rand, g *nbtgen.G) {
	tree := g.Doc(refnbt.Compound)
	wrapTree := &refnbt.Value{Tag: refnbt.Compound, Comp: []refnbt.Entry{{Name: "a", V: refnbt.In(5)}, {Name: "c", V: tree}, {Name: "z", V: refnbt.St("end")}}}
	doc := refnbt.Encode(wrapTree, "", false)
	wit := func() any { return map[string]any{"doc_hex": vm.Hex(doc), "tree": refnbt.Describe(tree)} }
	var h snbtHolder
	if _, ok := decodeBytes(c, "snbt/field", doc, false, &h, wit); !ok {
		return
	}
	// the text the carrier holds is judged by the independent SNBT reader, not only by the library's own way back:
	// a text that says something else than the document round-trips with itself just as well
	if ref := refsnbt.Parse([]byte(h.C)); ref.Status == refsnbt.Reject {
		c.Violation("snbt/field/text-not-snbt", fmt.Sprintf("the text decoded into a StringifiedMessage field is not SNBT by the independent reader (%s): %q", ref.Reason, short(string(h.C))), wit())
		return
	} else {
		got := ref.Tree
		if got == nil {
			got = ref.IfAccepted
		}
		if got != nil {
			if d := refnbt.Equal(got, tree, refnbt.Opts{EmptyListElemFree: true}); d != "" && (ref.IfAcceptedAlt == nil || refnbt.Equal(ref.IfAcceptedAlt, tree, refnbt.Opts{EmptyListElemFree: true}) != "") {
				c.Violation("snbt/field/text-denotes-other-value", fmt.Sprintf("the text decoded into a StringifiedMessage field denotes another value than the document: %s; text %q", d, short(string(h.C))), wit())
				return
			}
			c.Cover("snbt.field.text-read-independently")
		}
	}
	b, ok := encodeBytes(c, "snbt/field", h, "", false, wit)
	if !ok {
		return
	}
	var h2 snbtHolder
	if _, ok := decodeBytes(c, "snbt/field2", b, false, &h2, func() any { return map[string]any{"text": short(string(h.C)), "bytes": vm.Hex(b)} }); !ok {
		return
	}
	c.Eval(vm.Hash64(doc, []byte("snbt")), true)
	if h2 != h {
		c.Violation("snbt/field/roundtrip-mismatch", fmt.Sprintf("StringifiedMessage field changed over Marshal/Unmarshal: %q -> %q", short(string(h.C)), short(string(h2.C))), wit())
		return
	}
	c.Cover("snbt.field.roundtrip")
}

// --- same NBT name reachable through several embedded structs -------------------------------------------
//
// The generated universe keeps names globally distinct. Here a name is deliberately offered by two or
// three fields at chosen embedding depths, each either tagged `nbt:"K"` or an untagged Go field K. The Go
// embedding rules as adopted by encoding/json (and by this package: typeinfo.go says so) decide who owns
// the name: the shallowest field; among several at that depth the only tagged one; otherwise nobody.
// The owner must survive the round trip, the others stay zero in a fresh variable, and K is emitted at
// most once.
type carrier struct {
	depth  int
	tagged bool
}

func conflictType(cs []carrier, ft reflect.Type) (t reflect.Type, paths [][]int, ok bool) {
	var outer []reflect.StructField
	outer = append(outer, reflect.StructField{Name: "Own", Type: reflect.TypeOf(int32(0)), Tag: `nbt:"own"`})
	seenUntagged0 := false
	for i, cr := range cs {
		var leaf reflect.StructField
		if cr.tagged {
			leaf = reflect.StructField{Name: fmt.Sprintf("T%d", i), Type: ft, Tag: `nbt:"K"`}
		} else {
			leaf = reflect.StructField{Name: "K", Type: ft}
		}
		uniq := func(l int) reflect.StructField {
			return reflect.StructField{Name: fmt.Sprintf("U%d_%d", i, l), Type: reflect.TypeOf(int32(0)), Tag: reflect.StructTag(fmt.Sprintf(`nbt:"u%d_%d"`, i, l))}
		}
		switch cr.depth {
		case 0:
			if !cr.tagged {
				if seenUntagged0 {
					return nil, nil, false
				}
				seenUntagged0 = true
			}
			paths = append(paths, []int{len(outer)})
			outer = append(outer, leaf)
		case 1:
			e := reflect.StructOf([]reflect.StructField{uniq(1), leaf})
			paths = append(paths, []int{len(outer), 1})
			outer = append(outer, reflect.StructField{Name: fmt.Sprintf("E%d", i), Type: e, Anonymous: true})
		case 2:
			e2 := reflect.StructOf([]reflect.StructField{leaf, uniq(2)})
			e1 := reflect.StructOf([]reflect.StructField{uniq(1), {Name: fmt.Sprintf("D%d", i), Type: e2, Anonymous: true}})
			paths = append(paths, []int{len(outer), 1, 0})
			outer = append(outer, reflect.StructField{Name: fmt.Sprintf("E%d", i), Type: e1, Anonymous: true})
		}
	}
	return reflect.StructOf(outer), paths, true
}

// owner applies the embedding rules: index of the carrier owning the name, or -1.
func owner(cs []carrier) int {
	min := 99
	for _, cr := range cs {
		if cr.depth < min {
			min = cr.depth
		}
	}
	var at, tagged []int
	for i, cr := range cs {
		if cr.depth == min {
			at = append(at, i)
			if cr.tagged {
				tagged = append(tagged, i)
			}
		}
	}
	if len(at) == 1 {
		return at[0]
	}
	if len(tagged) == 1 {
		return tagged[0]
	}
	return -1
}

func checkNameConflicts(c *vm.Ctx, r *vm.Rand) {
	var all [][]carrier
	one := []carrier{{0, false}, {0, true}, {1, false}, {1, true}, {2, false}, {2, true}}
	for _, a := range one {
		for _, b := range one {
			all = append(all, []carrier{a, b})
			for _, d := range one {
				all = append(all, []carrier{a, b, d})
			}
		}
	}
	fts := []reflect.Type{reflect.TypeOf(int32(0)), reflect.TypeOf(""), reflect.TypeOf([]int64(nil))}
	setLeaf := func(v reflect.Value, k int) {
		switch v.Kind() {
		case reflect.Int32:
			v.SetInt(int64(1000 + k))
		case reflect.String:
			v.SetString(fmt.Sprintf("v%d", k))
		default:
			v.Set(reflect.ValueOf([]int64{int64(k + 1), 7}))
		}
	}
	for ci, cs := range all {
		ft := fts[ci%len(fts)]
		t, paths, ok := conflictType(cs, ft)
		if !ok {
			continue
		}
		own := owner(cs)
		for _, network := range []bool{false, true} {
			for _, byPtr := range []bool{false, true} {
				v := reflect.New(t).Elem()
				v.Field(0).SetInt(int64(r.Range(1, 1<<20)))
				for k, p := range paths {
					setLeaf(v.FieldByIndex(p), k)
				}
				// the unique members of the embedded structs
				var fillU func(x reflect.Value)
				fillU = func(x reflect.Value) {
					for i := 0; i < x.NumField(); i++ {
						sf := x.Type().Field(i)
						if sf.Anonymous {
							fillU(x.Field(i))
						} else if len(sf.Name) > 1 && sf.Name[0] == 'U' {
							x.Field(i).SetInt(int64(r.Range(1, 1<<20)))
						}
					}
				}
				fillU(v)
				desc := fmt.Sprintf("%v owner=%d", cs, own)
				wit := func() any {
					return map[string]any{"go_type": short(t.String()), "go_value": short(fmt.Sprintf("%+v", v.Interface())), "carriers_depth_tagged": fmt.Sprint(cs), "owner_by_embedding_rules": own, "network": network, "by_pointer": byPtr}
				}
				c.Eval(vm.HashStr("conflict", desc, ft.String(), fmt.Sprint(network, byPtr)), true)
				var buf bytes.Buffer
				var err error
				if c.Guard("conflict/marshal", wit, func() {
					enc := nbt.NewEncoder(&buf)
					enc.NetworkFormat(network)
					if byPtr {
						err = enc.Encode(v.Addr().Interface(), "")
					} else {
						err = enc.Encode(v.Interface(), "")
					}
				}) {
					continue
				}
				if err != nil {
					c.Violation("conflict/marshal-error/"+vm.NormErr(err.Error()), "Marshal failed on a struct whose embedded structs share a name: "+err.Error(), wit())
					continue
				}
				tree, _, used, perr := refnbt.Parse(buf.Bytes(), network)
				if perr != nil || used != buf.Len() {
					c.Violation("conflict/malformed", fmt.Sprintf("emitted document not well-formed: %v", perr), wit())
					continue
				}
				nK := 0
				for _, e := range tree.Comp {
					if e.Name == "K" {
						nK++
					}
				}
				wantK := 0
				if own >= 0 {
					wantK = 1
				}
				if nK != wantK {
					c.Violation(fmt.Sprintf("conflict/emitted-%d-want-%d", nK, wantK), fmt.Sprintf("name K emitted %d times, the embedding rules give it %d owner(s) (carriers %v)", nK, wantK, cs), wit())
					continue
				}
				out := reflect.New(t)
				if c.Guard("conflict/unmarshal", wit, func() {
					dec := nbt.NewDecoder(bytes.NewReader(buf.Bytes()))
					dec.NetworkFormat(network)
					_, err = dec.Decode(out.Interface())
				}) {
					continue
				}
				if err != nil {
					c.Violation("conflict/unmarshal-error/"+vm.NormErr(err.Error()), "decoding the encoding of v into a fresh variable of v's type failed: "+err.Error(), wit())
					continue
				}
				want := gotypes.Clone(v)
				for k, p := range paths {
					if k != own {
						f := want.FieldByIndex(p)
						f.Set(reflect.Zero(f.Type()))
					}
				}
				if d := gotypes.EqualGo(want, out.Elem()); d != "" {
					cls := "owner-lost"
					if own < 0 {
						cls = "ownerless-name-decoded"
					}
					c.Violation("conflict/roundtrip-mismatch/"+cls, fmt.Sprintf("carriers (depth,tagged) %v, owner %d: round trip differs: %s", cs, own, d), wit())
					continue
				}
				if own >= 0 {
					c.Cover(fmt.Sprintf("conflict.owner.depth%d.tagged-%v", cs[own].depth, cs[own].tagged))
				} else {
					c.Cover("conflict.no-owner")
				}
			}
		}
	}
}

// checkBigValues: slices around the sizes at which the decoder's step-by-step buffers change step.
func checkBigValues(c *vm.Ctx, r *vm.Rand) {
	type big struct {
		A []byte   `nbt:"a"`
		S []int8   `nbt:"s"`
		B []int32  `nbt:"b"`
		C []int64  `nbt:"c"`
		L []string `nbt:"l"`
		D []uint32 `nbt:"d"`
		E []uint64 `nbt:"e"`
		H []int16  `nbt:"h"`
		I []uint16 `nbt:"i"`
		X any      `nbt:"x"`
		Z string   `nbt:"z"`
	}
	for _, n := range []int{65535, 65536, 65537, 70000, 100000, 131073, 200000} {
		v := big{A: r.Bytes(n), S: make([]int8, n/2+1), Z: "after"}
		for i := range v.S {
			v.S[i] = int8(i)
		}
		v.X = r.Bytes(n + 3)
		rv := reflect.New(reflect.TypeOf(v)).Elem()
		rv.Set(reflect.ValueOf(v))
		roundTripQuiet(c, "big", rv, r.Bool(), r.Bool(), fmt.Sprintf("byte arrays of %d bytes", n))
	}
	for _, n := range []int{1023, 1024, 1025, 4095, 4096, 4097, 5000, 8193, 10000, 70000} {
		v := big{B: make([]int32, n), C: make([]int64, n+1), L: make([]string, n/4+1), X: int64(n), Z: "after"}
		for i := range v.B {
			v.B[i] = int32(r.Uint64())
		}
		for i := range v.C {
			v.C[i] = int64(r.Uint64())
		}
		for i := range v.L {
			v.L[i] = fmt.Sprint(i)
		}
		// the element loops exist once per element kind: unsigned and machine-sized ones too
		// (plain int / uint are not among the kinds the encoder takes)
		v.D, v.E, v.H, v.I = make([]uint32, n), make([]uint64, n), make([]int16, n), make([]uint16, n)
		for i := 0; i < n; i++ {
			x := r.Uint64()
			v.D[i], v.E[i], v.H[i], v.I[i] = uint32(x), x, int16(x), uint16(x)
		}
		rv := reflect.New(reflect.TypeOf(v)).Elem()
		rv.Set(reflect.ValueOf(v))
		roundTripQuiet(c, "big", rv, r.Bool(), r.Bool(), fmt.Sprintf("int/long arrays and lists of about %d elements", n))
	}
	// many sibling containers: no value nests deeper than 3, but there are more than 512 structs / lists in a row
	type elemA struct {
		A int32 `nbt:"a"`
	}
	type many struct {
		S []elemA   `nbt:"s"`
		L [][]int16 `nbt:"l"`
		M []map[string]int8
		Z string `nbt:"z"`
	}
	for _, n := range []int{600, 1500} {
		v := many{S: make([]elemA, n), L: make([][]int16, n), M: make([]map[string]int8, n), Z: "after"}
		for i := 0; i < n; i++ {
			v.S[i].A = int32(r.Uint64())
			v.L[i] = []int16{int16(i)}
			v.M[i] = map[string]int8{"k": int8(i)}
		}
		roundTripQuiet(c, "big", addr(v), r.Bool(), r.Bool(), fmt.Sprintf("slices of %d structs, lists and maps", n))
		roundTripQuiet(c, "big", addr(v.S), r.Bool(), r.Bool(), fmt.Sprintf("a slice of %d structs at the root", n))
		roundTripQuiet(c, "big", addr(v.L), r.Bool(), r.Bool(), fmt.Sprintf("a slice of %d lists at the root", n))
		c.Cover("big-values.many-siblings")
	}
	c.Cover("big-values.roundtrip")
}

// roundTripQuiet is roundTrip for values too large to print: the witness describes them instead.
func roundTripQuiet(c *vm.Ctx, sub string, v reflect.Value, network, byPtr bool, desc string) {
	wit := func() any {
		return map[string]any{"go_type": short(v.Type().String()), "go_value": desc, "network": network, "by_pointer": byPtr}
	}
	var buf bytes.Buffer
	var err error
	if c.Guard(sub+"/marshal", wit, func() {
		enc := nbt.NewEncoder(&buf)
		enc.NetworkFormat(network)
		if byPtr {
			err = enc.Encode(v.Addr().Interface(), "")
		} else {
			err = enc.Encode(v.Interface(), "")
		}
	}) {
		return
	}
	c.Eval(vm.HashStr(sub, desc, fmt.Sprint(network, byPtr)), true)
	if err != nil {
		c.Violation(sub+"/marshal-error/"+vm.NormErr(err.Error()), "Marshal returned an error: "+err.Error(), wit())
		return
	}
	out := reflect.New(v.Type())
	if c.Guard(sub+"/unmarshal", wit, func() {
		dec := nbt.NewDecoder(bytes.NewReader(buf.Bytes()))
		dec.NetworkFormat(network)
		_, err = dec.Decode(out.Interface())
	}) {
		return
	}
	if err != nil {
		c.Violation(sub+"/unmarshal-error/"+vm.NormErr(err.Error()), "decoding the encoding of v into a fresh variable of v's type failed: "+err.Error(), wit())
		return
	}
	if d := gotypes.EqualGo(v, out.Elem()); d != "" {
		c.Violation(sub+"/roundtrip-mismatch/"+culprit(v.Type(), diffPath(d)), "Unmarshal(Marshal(v)) != v: "+short(d), wit())
	}
}

func run(c *vm.Ctx) {
	if devSelected(c) {
		return
	}
	if c.Shard == 0 {
		checkNameConflicts(c, c.Rand("conflicts"))
		checkCaseVariantNames(c, c.Rand("casefold"))
		checkBigValues(c, c.Rand("big"))
	}
	if c.Shard == 1%c.NShards {
		checkBigCarriers(c, c.Rand("big-carriers"))
	}
	genLoop(c)
	rest(c)
	if c.Shard == 2%c.NShards {
		additions["long-lists"](c)
	}
	if c.Shard == 3%c.NShards {
		additions["arrays"](c)
		additions["diamond"](c)
	}
	if c.Shard == 4%c.NShards {
		additions["deep"](c)
	}
	if c.Shard == 5%c.NShards {
		additions["highest-count-byte"](c)
	}
	for _, name := range []string{"positions2", "streams", "together", "spare", "reuse-lists", "snbt-reuse", "repeated-names"} {
		additions[name](c)
	}
}

// genLoop: the generated type universe.
func genLoop(c *vm.Ctx) {
	r := c.Rand("types")
	tg := gotypes.New(r)
	nTypes := c.Scale(3000, 40000)
	perType := c.Pick(10, 20)
	for i := 0; i < nTypes; i++ {
		tg.Features = map[string]bool{}
		var t reflect.Type
		switch {
		case i < len(forcedTypes):
			t = forcedTypes[i]
		case r.Intn(3) == 0:
			t = tg.GenType(0)
		default:
			t = tg.GenStruct(0)
		}
		typeFeats := tg.Features
		for j := 0; j < perType; j++ {
			tg.Features = map[string]bool{}
			for k := range typeFeats {
				tg.Features[k] = true
			}
			v := tg.GenValue(t)
			network := r.Bool()
			name := ""
			if !network && r.Bool() {
				name = "n" + strconv.Itoa(r.Intn(1000))
				if r.Intn(4) == 0 {
					name = rootNames[r.Intn(len(rootNames))] // the root name is a length-prefixed field like any other
				}
			}
			roundTrip(c, "gen", v, network, r.Bool(), name, tg.Features)
			if i < 3 && j == 0 {
				c.Sample("generated-type", map[string]any{"go_type": short(t.String()), "go_value": short(fmt.Sprintf("%+v", v.Interface()))})
			}
		}
	}
}

func rest(c *vm.Ctx) {
	// static zoo
	zr := c.Rand("zoo")
	for i := 0; i < c.Scale(4000, 100000); i++ {
		z := genZoo(zr)
		v := reflect.New(reflect.TypeOf(z)).Elem()
		v.Set(reflect.ValueOf(z))
		roundTrip(c, "zoo", v, zr.Bool(), zr.Bool(), "", map[string]bool{"zoo": true})
	}
	z2 := c.Rand("zoo2")
	for i := 0; i < c.Scale(1500, 40000); i++ {
		checkZoo2(c, z2)
	}
	// carriers over documents
	cr := c.Rand("carriers")
	cfg := nbtgen.Default()
	cfg.MaxNodes = 60
	cfg.MaxArray = 200
	cfg.LongString = false
	g := nbtgen.New(cr, cfg)
	lcfg := cfg // every 16th carrier document may hold strings and member names of 255..32767 bytes
	lcfg.LongString = true
	lg := nbtgen.New(cr, lcfg)
	for i := 0; i < c.Scale(8000, 200000); i++ {
		if i%16 == 15 {
			checkCarriers(c, cr, lg)
			c.Cover("carriers.documents-with-long-names-and-strings")
			continue
		}
		checkCarriers(c, cr, g)
	}
	// and for certain: a member name of every length around one and two bytes of length prefix
	for _, n := range []int{255, 256, 257, 300, 4096, 32767} {
		long := strings.Repeat("k", n)
		tree := &refnbt.Value{Tag: refnbt.Compound, Comp: []refnbt.Entry{{Name: "a", V: refnbt.In(1)}, {Name: long, V: &refnbt.Value{Tag: refnbt.Compound, Comp: []refnbt.Entry{{Name: "x" + long[1:], V: refnbt.St("v")}}}}, {Name: "z", V: refnbt.St(long)}}}
		for _, network := range []bool{false, true} {
			doc := refnbt.Encode(tree, "", network)
			for _, mk := range []func() any{func() any { return new(nbt.RawMessage) }, func() any { return new(dynbt.Value) }} {
				target := mk()
				wit := func() any {
					return map[string]any{"member_name_bytes": n, "network": network, "carrier": fmt.Sprintf("%T", target)}
				}
				var out []byte
				var err error
				if c.Guard("carrier/long-name", wit, func() {
					d := nbt.NewDecoder(bytes.NewReader(doc))
					d.NetworkFormat(network)
					if _, err = d.Decode(target); err != nil {
						return
					}
					var b bytes.Buffer
					e := nbt.NewEncoder(&b)
					e.NetworkFormat(network)
					err = e.Encode(target, "")
					out = b.Bytes()
				}) {
					continue
				}
				c.Eval(vm.HashStr("carrier-long-name", fmt.Sprint(n, network, fmt.Sprintf("%T", target))), true)
				if err != nil || !bytes.Equal(out, doc) {
					c.Violation("carrier/long-name/not-byte-exact", fmt.Sprintf("a document with member names of %d bytes through %T: err=%v, %d bytes in, %d out, equal=%v", n, target, err, len(doc), len(out), bytes.Equal(out, doc)), wit())
					continue
				}
				c.Cover("carriers.member-name-256-bytes-or-more")
			}
		}
	}
	for i := 0; i < c.Scale(3000, 60000); i++ {
		checkCarrierReuse(c, cr, g)
	}
	sr := c.Rand("snbt")
	scfg := cfg
	scfg.FiniteOnly = true
	sg := nbtgen.New(sr, scfg)
	// every 16th text-carried document may hold strings and member names of 255..32767 bytes and arrays of up to 400 elements
	slcfg := scfg
	slcfg.LongString, slcfg.MaxArray = true, 400
	slg := nbtgen.New(sr, slcfg)
	for i := 0; i < c.Scale(2000, 40000); i++ {
		if i%16 == 15 {
			checkStringified(c, sr, slg)
			continue
		}
		checkStringified(c, sr, sg)
	}
	sp := c.Rand("snbt-positions")
	spg := nbtgen.New(sp, scfg)
	splg := nbtgen.New(sp, slcfg)
	for i := 0; i < c.Scale(2000, 40000); i++ {
		if i%16 == 15 {
			if checkStringifiedPositions(c, sp, splg) == 4 {
				c.Cover("snbt.documents-with-long-names-and-strings")
			}
			continue
		}
		checkStringifiedPositions(c, sp, spg)
	}
}

// rootNames: lengths on both sides of the high byte of the 16-bit prefix, the longest name the decoder reads, arbitrary
// bytes, and names that look like the start of a document.
var rootNames = []string{"a", strings.Repeat("n", 127), strings.Repeat("n", 128), strings.Repeat("k", 255), strings.Repeat("k", 256), strings.Repeat("k", 257), strings.Repeat("q", 300),
	strings.Repeat("w", 4096), strings.Repeat("m", 32767), "h\xc3\xa9llo \xe6\x97\xa5", "\x00", "\x0a\x00\x00\x00", "\xff\xfe\x80", "root name", strings.Repeat("\x00\x01", 200)}

// forcedTypes: every scalar kind, slices and arrays of every scalar kind, maps, deterministically first.
var forcedTypes = func() []reflect.Type {
	sc := []reflect.Type{
		reflect.TypeOf(false), reflect.TypeOf(int8(0)), reflect.TypeOf(int16(0)), reflect.TypeOf(int32(0)), reflect.TypeOf(int64(0)),
		reflect.TypeOf(uint8(0)), reflect.TypeOf(uint16(0)), reflect.TypeOf(uint32(0)), reflect.TypeOf(uint64(0)),
		reflect.TypeOf(float32(0)), reflect.TypeOf(float64(0)), reflect.TypeOf(""),
	}
	out := append([]reflect.Type{}, sc...)
	for l := 1; l <= 7; l++ {
		out = append(out, gotypes.DeepEmbedded(l, false), gotypes.DeepEmbedded(l, true))
	}
	for _, t := range sc {
		out = append(out, reflect.SliceOf(t), reflect.ArrayOf(3, t), reflect.ArrayOf(0, t), reflect.SliceOf(reflect.SliceOf(t)), reflect.MapOf(reflect.TypeOf(""), t),
			reflect.StructOf([]reflect.StructField{{Name: "S", Type: reflect.SliceOf(t), Tag: `nbt:"s"`}, {Name: "A", Type: reflect.ArrayOf(2, t), Tag: `nbt:"a"`}, {Name: "P", Type: reflect.PointerTo(t), Tag: `nbt:"p"`}, {Name: "V", Type: t}}))
	}
	return out
}()
