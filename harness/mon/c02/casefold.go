package main

// Structs in which two or three fields offer NBT names that differ in case only ("id", "Id", "ID").  The names
// are different names: the encoder emits each of them, and the decoder's case-insensitive fallback is for a
// document name that no field carries exactly - it must not take a tag away from the field that does.  The type
// generator elsewhere draws names from one alphabet, so no two of its names fold together; a lookup that folds
// first would pass everything else.  Field counts go through both sides of any small-struct shortcut.

import (
	"bytes"
	"fmt"
	"reflect"

	"github.com/Tnze/go-mc/nbt"

	"verif/gen/gotypes"
	"verif/ref/refnbt"
	"verif/vm"
)

func checkCaseVariantNames(c *vm.Ctx, r *vm.Rand) {
	groups := [][]string{{"id", "Id"}, {"Id", "id"}, {"id", "Id", "ID"}, {"ID", "iD", "id"}, {"owner", "Owner"}, {"POS", "pos"}, {"straße", "STRAßE"}, {"Kind", "kind", "KIND"}}
	kinds := []reflect.Type{reflect.TypeOf(int32(0)), reflect.TypeOf(""), reflect.TypeOf(int64(0)), reflect.TypeOf(int16(0))}
	for _, nf := range []int{2, 3, 4, 7, 8, 9, 12, 20} {
		for gi, g := range groups {
			if len(g) > nf {
				continue
			}
			for rep := 0; rep < 4; rep++ {
				// rep&1: the variants share one kind (a misfiled tag decodes silently) or not; rep&2: one variant is an untagged field named by Go
				sameKind := rep&1 == 0
				untagged := rep&2 != 0 && g[0][0] >= 'A' && g[0][0] <= 'Z'
				names := append([]string{}, g...)
				for i := len(names); i < nf; i++ {
					names = append(names, fmt.Sprintf("filler%d", i))
				}
				for i := len(names) - 1; i > 0; i-- {
					j := r.Intn(i + 1)
					names[i], names[j] = names[j], names[i]
				}
				k0 := kinds[r.Intn(len(kinds))]
				var sfs []reflect.StructField
				for i, n := range names {
					k := k0
					if !sameKind || len(n) >= 6 && n[:6] == "filler" {
						k = kinds[r.Intn(len(kinds))]
					}
					sf := reflect.StructField{Name: fmt.Sprintf("F%d", i), Type: k, Tag: reflect.StructTag(fmt.Sprintf(`nbt:"%s"`, n))}
					if untagged && n == g[0] {
						sf = reflect.StructField{Name: n, Type: k}
					}
					sfs = append(sfs, sf)
				}
				t := reflect.StructOf(sfs)
				v := reflect.New(t).Elem()
				for i := 0; i < v.NumField(); i++ {
					switch f := v.Field(i); f.Kind() {
					case reflect.String:
						f.SetString(fmt.Sprintf("s%d-%d", i, r.Intn(1<<20)))
					case reflect.Int16:
						f.SetInt(int64(r.Range(1, 1<<15-1)))
					default:
						f.SetInt(int64(r.Range(1, 1<<20)))
					}
				}
				for mode := 0; mode < 4; mode++ {
					network, byPtr := mode&1 != 0, mode&2 != 0
					wit := func() any {
						return map[string]any{"go_type": short(t.String()), "go_value": short(fmt.Sprintf("%+v", v.Interface())), "names_in_field_order": names, "network": network, "by_pointer": byPtr}
					}
					c.Eval(vm.HashStr("casefold", fmt.Sprint(nf, gi, rep, mode), t.String()), true)
					before := gotypes.Clone(v)
					var buf bytes.Buffer
					var err error
					if c.Guard("casefold/marshal", wit, func() {
						enc := nbt.NewEncoder(&buf)
						enc.NetworkFormat(network)
						if byPtr {
							err = enc.Encode(v.Addr().Interface(), "root")
						} else {
							err = enc.Encode(v.Interface(), "root")
						}
					}) {
						continue
					}
					if err != nil {
						c.Violation("casefold/marshal-error/"+vm.NormErr(err.Error()), "Marshal failed on a struct whose field names differ in case only: "+err.Error(), wit())
						continue
					}
					if d := gotypes.EqualGo(before, v); d != "" {
						c.Violation("casefold/marshal-modified-value", "encoding modified v: "+d, wit())
						continue
					}
					tree, _, used, perr := refnbt.Parse(buf.Bytes(), network)
					if perr != nil || used != buf.Len() {
						c.Violation("casefold/malformed", fmt.Sprintf("emitted document not well-formed: %v", perr), wit())
						continue
					}
					seen := map[string]int{}
					for _, e := range tree.Comp {
						seen[e.Name]++
					}
					bad := ""
					for _, n := range names {
						if seen[n] != 1 {
							bad = fmt.Sprintf("name %q emitted %d times", n, seen[n])
						}
					}
					if bad != "" || len(tree.Comp) != len(names) {
						c.Violation("casefold/emitted-names", fmt.Sprintf("%d members emitted for %d fields; %s", len(tree.Comp), len(names), bad), wit())
						continue
					}
					out := reflect.New(t)
					if c.Guard("casefold/unmarshal", wit, func() {
						dec := nbt.NewDecoder(bytes.NewReader(buf.Bytes()))
						dec.NetworkFormat(network)
						_, err = dec.Decode(out.Interface())
					}) {
						continue
					}
					if err != nil {
						c.Violation("casefold/unmarshal-error/"+vm.NormErr(err.Error()), "decoding the encoding of v into a fresh variable of v's type failed: "+err.Error(), wit())
						continue
					}
					if d := gotypes.EqualGo(v, out.Elem()); d != "" {
						c.Violation("casefold/roundtrip-mismatch", "fields whose names differ in case only: round trip differs: "+d, wit())
						continue
					}
					c.Cover("casefold.roundtrip")
					if nf <= 8 {
						c.Cover("casefold.fields<=8")
					} else {
						c.Cover("casefold.fields>8")
					}
					if len(g) == 3 {
						c.Cover("casefold.three-variants")
					}
					if untagged {
						c.Cover("casefold.untagged-variant")
					}
					if sameKind {
						c.Cover("casefold.variants-of-one-kind")
					} else {
						c.Cover("casefold.variants-of-any-kind")
					}
				}
			}
		}
	}
}
