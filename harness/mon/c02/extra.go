// Monitor C02, additions: struct shapes reflect.StructOf cannot build, text-marshalled types in every position,
// carriers beyond the 64 KiB buffer step, carriers by value in non-addressable positions, StringifiedMessage in
// every position.
package main

import (
	"bytes"
	"fmt"
	"io"
	"math"
	"reflect"
	"strconv"

	"github.com/Tnze/go-mc/nbt"
	"github.com/Tnze/go-mc/nbt/dynbt"

	"verif/gen/nbtgen"
	"verif/inject"
	"verif/ref/refnbt"
	"verif/vm"
)

// ---- second zoo ------------------------------------------------------------------------------------------

// TextPT is written as a string through a MarshalText with a POINTER receiver: a TextPT that is not addressable
// (map value, array element of an array passed by value, the root passed by value) must be copied first.
type TextPT struct{ A, B int32 }

func (t *TextPT) MarshalText() ([]byte, error) {
	return []byte(strconv.Itoa(int(t.A)) + "/" + strconv.Itoa(int(t.B))), nil
}

func (t *TextPT) UnmarshalText(b []byte) error {
	_, err := fmt.Sscanf(string(b), "%d/%d", &t.A, &t.B)
	return err
}

// unexported ordinary fields: not part of the encoding; they stay zero here so that equality is meaningful
type zUnexp struct {
	hidden     int32
	Shown      int32  `nbt:"shown"`
	alsoHidden string `nbt:"tagged"`
}

// an embedded struct of an unexported type: its exported fields are promoted
type zinner struct {
	X int32 `nbt:"x"`
	Y string
	z int8
}

type zEmbUnexp struct {
	zinner
	W int64 `nbt:"w"`
}

// an embedded struct with a tag of its own is an ordinary named member
type ZTagged struct {
	P int32 `nbt:"p"`
	R []int16
}

type zEmbTagged struct {
	ZTagged `nbt:"in"`
	Q       int32 `nbt:"q"`
}

// an embedded non-struct type is a member named after the type
type zEmbNonStruct struct {
	NamedInt
	Q int32 `nbt:"q"`
}

type Zoo2 struct {
	U   zUnexp        `nbt:"u"`
	EU  zEmbUnexp     `nbt:"eu"`
	ET  zEmbTagged    `nbt:"et"`
	EN  zEmbNonStruct `nbt:"en"`
	PT  *TextT        `nbt:"pt"`
	MT  map[string]TextT
	TP  TextPT  `nbt:"tp"`
	PTP *TextPT `nbt:"ptp"`
	TPs []TextPT
	ATP [2]TextPT
	MTP map[string]TextPT
	F32 NamedF32
	F64 NamedF64
	Fs  []NamedF32
}

func genZoo2(r *vm.Rand) Zoo2 {
	i32 := func() int32 { return int32(r.Int64B()) }
	s := func() string { return []string{"", "a", "hello world", "123", "§x", "q\"q"}[r.Intn(6)] }
	tt := func() TextT { return TextT{r.Intn(100) - 50, r.Intn(100)} }
	tp := func() TextPT { return TextPT{i32(), i32()} }
	f32 := func() NamedF32 { return NamedF32(math.Float32frombits(r.Float32Bits())) } // negative values, NaNs with payloads, -0
	z := Zoo2{U: zUnexp{Shown: i32()}, EU: zEmbUnexp{zinner: zinner{X: i32(), Y: s()}, W: r.Int64B()}, ET: zEmbTagged{ZTagged: ZTagged{P: i32()}, Q: i32()},
		EN: zEmbNonStruct{NamedInt: NamedInt(i32()), Q: i32()}, TP: tp(), ATP: [2]TextPT{tp(), tp()}, F32: f32(), F64: NamedF64(math.Float64frombits(r.Float64Bits()))}
	if r.Bool() {
		z.ET.R = []int16{int16(r.Int64B()), 3}
	}
	if r.Bool() {
		t := tt()
		z.PT = &t
	}
	if r.Bool() {
		z.MT = map[string]TextT{s(): tt(), "k": tt()}
	}
	if r.Bool() {
		t := tp()
		z.PTP = &t
	}
	for i := r.Intn(3); i > 0; i-- {
		z.TPs = append(z.TPs, tp())
		z.Fs = append(z.Fs, f32())
	}
	if r.Bool() {
		z.MTP = map[string]TextPT{s(): tp(), "k": tp()}
	}
	return z
}

func addr(x any) reflect.Value {
	v := reflect.New(reflect.TypeOf(x)).Elem()
	v.Set(reflect.ValueOf(x))
	return v
}

// checkZoo2 round-trips the second zoo and its members on their own (at the root, by value and by pointer).
func checkZoo2(c *vm.Ctx, r *vm.Rand) {
	z := genZoo2(r)
	roots := []struct {
		cls string
		v   reflect.Value
	}{
		{"zoo2", addr(z)},
		{"zoo2.unexported-fields", addr(z.U)},
		{"zoo2.embedded-unexported-struct", addr(z.EU)},
		{"zoo2.embedded-tagged-struct", addr(z.ET)},
		{"zoo2.embedded-non-struct", addr(z.EN)},
		{"zoo2.text.root", addr(TextT{r.Intn(100) - 50, r.Intn(100)})},
		{"zoo2.text.map-value", addr(map[string]TextT{"a": {1, r.Intn(9)}, "": {-r.Intn(9), 0}})},
		{"zoo2.text.pointer-slice", addr([]*TextT{{r.Intn(9), 2}, {3, -r.Intn(9)}})},
		{"zoo2.text-pointer-receiver.root", addr(z.TP)},
		{"zoo2.text-pointer-receiver.map-value", addr(map[string]TextPT{"a": z.ATP[0], "b": z.ATP[1]})},
		{"zoo2.text-pointer-receiver.array", addr(z.ATP)},
		{"zoo2.named-float32", addr(z.F32)},
		{"zoo2.named-float64", addr(z.F64)},
	}
	for _, rt := range roots {
		roundTrip(c, "zoo", rt.v, r.Bool(), r.Bool(), "", map[string]bool{rt.cls: true})
	}
}

// ---- carriers ---------------------------------------------------------------------------------------------

// checkCarriersByValue: dynbt.Value by VALUE where it cannot be addressed (map value, slice element of a slice
// held in an interface, a holder struct passed by value): the encoder has to copy it to reach its methods.
func checkCarriersByValue(c *vm.Ctx, doc, wrapDoc, listDoc, mapDoc []byte, mapTree *refnbt.Value, network bool, cls string, wit func(pos string) func() any, same func(sub, pos string, got, want []byte)) {
	var h dynHolder
	if n, ok := decodeBytes(c, "dyn/field-by-value", wrapDoc, network, &h, wit("struct field, holder passed by value")); ok {
		if b, ok := encodeBytes(c, "dyn/field-by-value", h, n, network, wit("struct field, holder passed by value")); ok {
			same("dyn/field-by-value", "struct field, holder passed by value", b, wrapDoc)
		}
	}
	var l []dynbt.Value
	if n, ok := decodeBytes(c, "dyn/list-by-value", listDoc, network, &l, wit("list element by value")); ok {
		if b, ok := encodeBytes(c, "dyn/list-by-value", l, n, network, wit("list element by value")); ok {
			same("dyn/list-by-value", "list element by value", b, listDoc)
		}
	}
	var mm map[string]dynbt.Value
	if n, ok := decodeBytes(c, "dyn/map-by-value", mapDoc, network, &mm, wit("map value by value")); ok {
		if b, ok := encodeBytes(c, "dyn/map-by-value", mm, n, network, wit("map value by value")); ok {
			got, gn, used, perr := refnbt.Parse(b, network)
			if perr != nil || used != len(b) || gn != n {
				c.Violation("dyn/map-by-value/not-wellformed/"+cls, fmt.Sprintf("re-encoded map of carriers is not a document: %v", perr), wit("map value by value")())
			} else if d := refnbt.Equal(got, mapTree, refnbt.Opts{}); d != "" {
				c.Violation("dyn/map-by-value/not-byte-exact/"+cls, "carrier as map value re-encoded differently: "+d, wit("map value by value")())
			} else {
				c.Cover("dyn/map-by-value.byte-exact")
			}
		}
	}
}

// checkBigCarriers: array payloads of 70000 and 200000 bytes (the carriers fill their buffers in steps of 64 KiB
// and doubling), at the root and as a member, from a bytes.Reader and from a source with short reads.
func checkBigCarriers(c *vm.Ctx, r *vm.Rand) {
	for _, tag := range []byte{refnbt.ByteArray, refnbt.IntArray, refnbt.LongArray} {
		for _, size := range []int{70000, 200000} {
			v := &refnbt.Value{Tag: tag}
			switch tag {
			case refnbt.ByteArray:
				v.Bytes = r.Bytes(size)
			case refnbt.IntArray:
				v.Ints = make([]int32, size/4)
				for i := range v.Ints {
					v.Ints[i] = int32(r.Uint64())
				}
			default:
				v.Longs = make([]int64, size/8)
				for i := range v.Longs {
					v.Longs[i] = int64(r.Uint64())
				}
			}
			for _, member := range []bool{false, true} {
				tree := v
				if member {
					tree = &refnbt.Value{Tag: refnbt.Compound, Comp: []refnbt.Entry{{Name: "a", V: refnbt.In(int32(r.Uint64()))}, {Name: "c", V: v}, {Name: "z", V: refnbt.St("end")}}}
				}
				network := r.Bool()
				name := ""
				if !network {
					name = "big"
				}
				doc := refnbt.Encode(tree, name, network)
				for _, chunked := range []bool{false, true} {
					desc := fmt.Sprintf("%s payload of %d bytes, member=%v, short reads=%v, network=%v, seed stream 'big-carriers'", refnbt.TagName(tag), size, member, chunked, network)
					wit := func() any {
						return map[string]any{"carried": desc, "doc_len": len(doc), "doc_head_hex": vm.Hex(doc[:64])}
					}
					c.Eval(vm.HashStr("big-carrier", desc), true)
					targets := []struct {
						sub string
						mk  func() any
					}{
						{"raw", func() any {
							if member {
								return new(rawHolder)
							}
							return new(nbt.RawMessage)
						}},
						{"dyn", func() any {
							if member {
								return new(dynHolder)
							}
							return new(dynbt.Value)
						}},
					}
					for _, tg := range targets {
						sub := "big-carrier/" + tg.sub
						target := tg.mk()
						var rd io.Reader = bytes.NewReader(doc)
						if chunked {
							rd = &inject.ChunkReader{B: doc, Plan: []int{4096, 1, 65536, 3, 100000}}
						}
						var gotName string
						var err error
						if c.Guard(sub+"/decode", wit, func() {
							dec := nbt.NewDecoder(rd)
							dec.NetworkFormat(network)
							gotName, err = dec.Decode(target)
						}) {
							continue
						}
						if err != nil {
							c.Violation(sub+"/decode-error", "carrier failed to decode a well-formed document: "+err.Error(), wit())
							continue
						}
						b, ok := encodeBytes(c, sub, target, gotName, network, wit)
						if !ok {
							continue
						}
						if !bytes.Equal(b, doc) {
							at := 0
							for at < len(b) && at < len(doc) && b[at] == doc[at] {
								at++
							}
							c.Violation(sub+"/not-byte-exact/"+refnbt.TagName(tag), fmt.Sprintf("carrier re-encoded %d bytes, original %d bytes; first difference at offset %d", len(b), len(doc), at), wit())
							continue
						}
						c.Cover("big-carrier." + tg.sub + ".byte-exact")
					}
				}
			}
		}
	}
}

// ---- StringifiedMessage in every position -----------------------------------------------------------------

// checkStringifiedPositions: a StringifiedMessage obtained by decoding (any tag, not only compounds) must survive
// Marshal -> Unmarshal unchanged at the root, as a struct field, as a list element and as a map value, in both formats.
func checkStringifiedPositions(c *vm.Ctx, r *vm.Rand, g *nbtgen.G) (passed int) {
	tree := g.Doc(0)
	second := g.Value(tree.Tag, 3)
	network := r.Bool()
	name := ""
	if !network {
		name = []string{"", "root"}[r.Intn(2)]
	}
	positions := []struct {
		pos  string
		tree *refnbt.Value
		mk   func() any
	}{
		{"root", tree, func() any { return new(nbt.StringifiedMessage) }},
		{"field", &refnbt.Value{Tag: refnbt.Compound, Comp: []refnbt.Entry{{Name: "a", V: refnbt.In(5)}, {Name: "c", V: tree}, {Name: "z", V: refnbt.St("end")}}}, func() any { return new(snbtHolder) }},
		{"list", &refnbt.Value{Tag: refnbt.List, Elem: tree.Tag, List: []*refnbt.Value{tree, second}}, func() any { return new([]nbt.StringifiedMessage) }},
		{"map", &refnbt.Value{Tag: refnbt.Compound, Comp: []refnbt.Entry{{Name: "k1", V: tree}, {Name: "k2", V: second}}}, func() any { return new(map[string]nbt.StringifiedMessage) }},
	}
	for _, p := range positions {
		doc := refnbt.Encode(p.tree, name, network)
		sub := "snbt/" + p.pos
		wit := func() any {
			return map[string]any{"position": p.pos, "doc_hex": vm.Hex(doc), "network": network, "tree": refnbt.Describe(p.tree)}
		}
		v1 := p.mk()
		n1, ok := decodeBytes(c, sub, doc, network, v1, wit)
		if !ok {
			continue
		}
		c.Eval(vm.Hash64(doc, []byte("snbt"+p.pos)), true)
		byPtr := r.Bool()
		arg := v1
		if !byPtr {
			arg = reflect.ValueOf(v1).Elem().Interface()
		}
		b, ok := encodeBytes(c, sub, arg, n1, network, wit)
		if !ok {
			continue
		}
		v2 := p.mk()
		wit2 := func() any {
			m := wit().(map[string]any)
			m["text"] = short(fmt.Sprintf("%q", reflect.ValueOf(v1).Elem().Interface()))
			m["bytes"] = vm.Hex(b)
			return m
		}
		n2, ok := decodeBytes(c, sub+"/second", b, network, v2, wit2)
		if !ok {
			continue
		}
		if n2 != n1 || n1 != name {
			c.Violation(sub+"/root-name", fmt.Sprintf("root name %q decoded as %q, after the round trip %q", name, n1, n2), wit2())
			continue
		}
		if !reflect.DeepEqual(v1, v2) {
			c.Violation(sub+"/roundtrip-mismatch/"+refnbt.TagName(tree.Tag), fmt.Sprintf("StringifiedMessage changed over Marshal/Unmarshal: %s -> %s", short(fmt.Sprintf("%q", reflect.ValueOf(v1).Elem().Interface())), short(fmt.Sprintf("%q", reflect.ValueOf(v2).Elem().Interface()))), wit2())
			continue
		}
		passed++
		c.Cover("snbt." + p.pos + ".roundtrip")
		c.Cover("snbt.carried." + refnbt.TagName(tree.Tag))
		if network {
			c.Cover("snbt.network")
		}
	}
	return passed
}
