package main

import (
	"os"
	"strings"

	"verif/gen/nbtgen"
	"verif/vm"
)

func carrierCfg() nbtgen.Cfg {
	cfg := nbtgen.Default()
	cfg.MaxNodes, cfg.MaxArray, cfg.LongString = 40, 200, false
	return cfg
}

// devSelected: with VERIF_C02_ONLY=name[,name...] a run executes only the named additions of the second blind-spot
// review, whatever the shard (a development aid; the driver never sets the variable).
func devSelected(c *vm.Ctx) bool {
	sel := os.Getenv("VERIF_C02_ONLY")
	if sel == "" {
		return false
	}
	for _, name := range strings.Split(sel, ",") {
		if f, ok := additions[name]; ok {
			f(c)
		} else {
			panic("VERIF_C02_ONLY: unknown addition " + name)
		}
	}
	return true
}

var additions = map[string]func(c *vm.Ctx){
	"gen":     func(c *vm.Ctx) { genLoop(c) },
	"diamond": func(c *vm.Ctx) { checkDiamond(c, c.Rand("diamond")) },
	"spare": func(c *vm.Ctx) {
		r := c.Rand("spare-capacity")
		for i := 0; i < c.Scale(1500, 30000); i++ {
			checkSpareCapacity(c, r)
		}
	},
	"reuse-lists": func(c *vm.Ctx) { checkCarrierReuseLists(c, c.Rand("reuse-lists")) },
	"deep":        func(c *vm.Ctx) { checkDeepCarriers(c, c.Rand("deep-carriers")) },
	"snbt-reuse": func(c *vm.Ctx) {
		r := c.Rand("snbt-reuse")
		cfg := carrierCfg()
		cfg.FiniteOnly = true
		g := nbtgen.New(r, cfg)
		for i := 0; i < c.Scale(2000, 40000); i++ {
			checkStringifiedReuse(c, r, g)
		}
	},
	"highest-count-byte": func(c *vm.Ctx) { checkHighestCountByte(c, c.Rand("highest-count-byte")) },
	"long-lists":         func(c *vm.Ctx) { checkLongListCarriers(c, c.Rand("long-lists")) },
	"arrays":             func(c *vm.Ctx) { checkArraysOfComposites(c, c.Rand("arrays-of-composites")) },
	"positions2": func(c *vm.Ctx) {
		r := c.Rand("positions2")
		g := nbtgen.New(r, carrierCfg())
		for i := 0; i < c.Scale(4000, 80000); i++ {
			checkCarrierPositions2(c, r, g)
		}
	},
	"streams": func(c *vm.Ctx) {
		r := c.Rand("carrier-streams")
		g := nbtgen.New(r, carrierCfg())
		for i := 0; i < c.Scale(3000, 60000); i++ {
			checkCarrierStreams(c, r, g)
		}
	},
	"repeated-names": func(c *vm.Ctx) {
		r := c.Rand("repeated-names")
		g := nbtgen.New(r, carrierCfg())
		for i := 0; i < c.Scale(2500, 50000); i++ {
			checkRepeatedNameCarriers(c, r, g)
		}
	},
	"together": func(c *vm.Ctx) {
		r := c.Rand("together")
		for i := 0; i < c.Scale(40, 800); i++ {
			checkTogether(c, r)
		}
	},
}
