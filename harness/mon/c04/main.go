// Monitor C04: SNBT <-> NBT conversion against refnbt and an independent
// reading of the SNBT grammar (refsnbt).
package main

import (
	"bytes"
	"fmt"
	"math"
	"math/big"
	"os"
	"regexp"
	"strings"

	"github.com/Tnze/go-mc/nbt"

	"verif/gen/nbtgen"
	"verif/ref/refnbt"
	"verif/ref/refsnbt"
	"verif/vm"
)

func main() { vm.Main("C04", run) }

func short(s string) string {
	if len(s) > 1200 {
		return s[:1200] + "..."
	}
	return s
}

var quotedCharRe = regexp.MustCompile(`'[^']*'|"[^"]*"`)

func reasonClass(r string) string {
	r = quotedCharRe.ReplaceAllString(r, "Q")
	if i := strings.Index(r, ":"); i > 0 {
		r = r[:i]
	}
	return vm.NormMsg(r)
}

// toBinary runs the library's text -> binary conversion: the announced tag type and the document.
func toBinary(c *vm.Ctx, sub string, text string, wit func() any) (doc []byte, tagType byte, err error, panicked bool) {
	panicked = c.Guard(sub, wit, func() {
		m := nbt.StringifiedMessage(text)
		tagType = m.TagType()
		var buf bytes.Buffer
		enc := nbt.NewEncoder(&buf)
		enc.NetworkFormat(true)
		err = enc.Encode(m, "")
		doc = buf.Bytes()
	})
	return
}

// featureOf names the aspect of a tree that a value mismatch most likely hinges on (for signatures).
func diffClass(d string) string {
	for _, k := range []string{"float bits", "double bits", "string", "tag ", "list element tag", "list len", "compound size", "key ", "byte arrays", "int array", "long array", "[", "vs"} {
		if strings.Contains(d, k) {
			return strings.TrimSpace(k)
		}
	}
	return "other"
}

// --- monitor 3: decimal literals at the rounding boundaries of float32 / float64

// floatEdges feeds literals whose exact decimal value sits on, a hair above and a hair below the midpoint of
// two adjacent floats. The independent reading (refsnbt.Literal: strconv at the suffix's own precision) says
// which neighbour such a literal denotes; a parser that rounds through another precision picks the wrong one.
func floatEdges(c *vm.Ctx, r *vm.Rand, n int) {
	eps := new(big.Float).SetPrec(600)
	eps.SetString("1e-90")
	for i := 0; i < n; i++ {
		is32 := i%3 != 2
		var lo, hi *big.Float
		if is32 {
			e := uint32(r.Range(127-40, 127+60))
			bits := e<<23 | uint32(r.Uint64())&0x7fffff
			if i%16 == 0 {
				bits = e<<23 | 0x7fffff // next float crosses a power of two
			}
			lo = new(big.Float).SetPrec(600).SetFloat64(float64(math.Float32frombits(bits)))
			hi = new(big.Float).SetPrec(600).SetFloat64(float64(math.Float32frombits(bits + 1)))
		} else {
			e := uint64(r.Range(1023-40, 1023+60))
			bits := e<<52 | r.Uint64()&(1<<52-1)
			lo = new(big.Float).SetPrec(600).SetFloat64(math.Float64frombits(bits))
			hi = new(big.Float).SetPrec(600).SetFloat64(math.Float64frombits(bits + 1))
		}
		mid := new(big.Float).SetPrec(600).Add(lo, hi)
		mid.Quo(mid, big.NewFloat(2))
		for k, v := range []*big.Float{mid, new(big.Float).SetPrec(600).Add(mid, eps), new(big.Float).SetPrec(600).Sub(mid, eps)} {
			lit := v.Text('f', 95)
			lit = strings.TrimRight(lit, "0")
			if strings.HasSuffix(lit, ".") {
				lit += "0"
			}
			switch r.Intn(8) {
			case 0, 1:
				lit = "-" + lit
			case 2:
				lit = "+" + lit
			}
			suf := map[bool][]string{true: {"f", "F"}, false: {"d", "D", ""}}[is32]
			lit += suf[r.Intn(len(suf))]
			want, ok := refsnbt.Literal(lit)
			if !ok {
				panic("oracle self-check failed: boundary literal outside the agreement grammar: " + lit)
			}
			text := lit
			switch r.Intn(3) {
			case 1:
				text = "{a:" + lit + "}"
				want = &refnbt.Value{Tag: refnbt.Compound, Comp: []refnbt.Entry{{Name: "a", V: want}}}
			case 2:
				text = "[" + lit + "]"
				want = &refnbt.Value{Tag: refnbt.List, Elem: want.Tag, List: []*refnbt.Value{want}}
			}
			c.Eval(vm.HashStr("edge", text), true)
			wit := func() any { return map[string]any{"text": text, "independent_reading": refnbt.Describe(want)} }
			doc, _, err, pan := toBinary(c, "t2b/float-boundary", text, wit)
			if pan {
				continue
			}
			if err != nil {
				c.Violation("t2b/float-boundary/rejected/"+vm.NormErr(err.Error()), "the parser rejects an in-range decimal literal: "+err.Error(), wit())
				continue
			}
			got, _, used, perr := refnbt.Parse(doc, true)
			if perr != nil || used != len(doc) {
				c.Violation("t2b/float-boundary/document-malformed", fmt.Sprintf("nil error but the document is not well-formed: %v", perr), wit())
				continue
			}
			if d := refnbt.Equal(got, want, refnbt.Opts{}); d != "" {
				c.Violation("t2b/float-boundary/value-disagrees/"+diffClass(d), "a decimal literal next to a rounding boundary is not converted to the nearest float of its own type: "+d, wit())
				continue
			}
			c.Cover(fmt.Sprintf("float-boundary.%s.%s", map[bool]string{true: "float", false: "double"}[is32], []string{"midpoint", "above", "below"}[k]))
		}
	}
}

// longStrings: quoted strings and keys at and beyond the 16-bit length field. The parser may refuse them; what it
// accepts must come out as one well-formed document holding that string (string lengths read unsigned here).
func longStrings(c *vm.Ctx) {
	for _, n := range []int{32767, 32768, 40000, 65535, 65536, 65537, 70000, 131072 + 5} {
		body := strings.Repeat("a", n)
		for _, form := range []string{"value", "key", "list-element", "member"} {
			var text string
			var want *refnbt.Value
			switch form {
			case "value":
				text, want = `"`+body+`"`, refnbt.St(body)
			case "key":
				text, want = `{"`+body+`":1b}`, &refnbt.Value{Tag: refnbt.Compound, Comp: []refnbt.Entry{{Name: body, V: refnbt.B(1)}}}
			case "list-element":
				text, want = `["x","`+body+`"]`, &refnbt.Value{Tag: refnbt.List, Elem: refnbt.String, List: []*refnbt.Value{refnbt.St("x"), refnbt.St(body)}}
			default:
				text, want = `{a:"`+body+`",b:2}`, &refnbt.Value{Tag: refnbt.Compound, Comp: []refnbt.Entry{{Name: "a", V: refnbt.St(body)}, {Name: "b", V: refnbt.In(2)}}}
			}
			wit := func() any { return map[string]any{"form": form, "string_bytes": n} }
			doc, _, err, pan := toBinary(c, "t2b/long-string", text, wit)
			if pan {
				continue
			}
			c.Eval(vm.HashStr("long", form, fmt.Sprint(n)), true)
			if err != nil {
				c.Cover("long-string.refused")
				continue
			}
			refnbt.UnsignedStringLengths = true
			got, _, used, perr := refnbt.Parse(doc, true)
			refnbt.UnsignedStringLengths = false
			if perr != nil || used != len(doc) {
				c.Violation("t2b/long-string/document-malformed/"+form, fmt.Sprintf("a %d-byte string as %s: nil error, but the document is not well-formed: %v (used %d of %d bytes)", n, form, perr, used, len(doc)), wit())
				continue
			}
			if d := refnbt.Equal(got, want, refnbt.Opts{}); d != "" {
				c.Violation("t2b/long-string/value-disagrees/"+form, "document content differs: "+short(d), wit())
				continue
			}
			c.Cover("long-string.accepted-well-formed")
		}
	}
}

// --- monitor 1: binary -> text -> binary
func b2t2b(c *vm.Ctx, r *vm.Rand, g *nbtgen.G, i int) {
	var root byte
	if i < 36 {
		root = byte(i%12) + 1
	}
	tree := g.Doc(root)
	network := r.Bool()
	name := ""
	if !network && r.Bool() {
		name = "nm"
	}
	doc := refnbt.Encode(tree, name, network)
	n, kinds := refnbt.Count(tree)
	c.Eval(vm.Hash64(doc, []byte("b2t2b")), n >= 3 && kinds&(kinds-1) != 0)
	feats := g.Features
	wit := func() any {
		return map[string]any{"doc_hex": vm.Hex(doc), "network": network, "tree": refnbt.Describe(tree)}
	}
	var texts []string
	var err error
	// via StringifiedMessage
	var sm nbt.StringifiedMessage
	if !c.Guard("b2t/stringified", wit, func() {
		dec := nbt.NewDecoder(bytes.NewReader(doc))
		dec.NetworkFormat(network)
		_, err = dec.Decode(&sm)
	}) {
		if err != nil {
			c.Violation("b2t/stringified/error/root."+refnbt.TagName(tree.Tag), "decoding a well-formed document into StringifiedMessage failed: "+err.Error(), wit())
		} else {
			texts = append(texts, string(sm))
		}
	}
	// via RawMessage.String
	var rm nbt.RawMessage
	var rs string
	if !c.Guard("b2t/rawstring", wit, func() {
		dec := nbt.NewDecoder(bytes.NewReader(doc))
		dec.NetworkFormat(network)
		_, err = dec.Decode(&rm)
		if err == nil {
			rs = rm.String()
		}
	}) {
		if err != nil {
			c.Violation("b2t/rawstring/error", "decoding a well-formed document into RawMessage failed: "+err.Error(), wit())
		} else if strings.HasPrefix(rs, "<Invalid:") {
			c.Violation("b2t/rawstring/invalid", "RawMessage.String() of a well-formed value: "+short(rs), wit())
		} else {
			if len(texts) == 1 && texts[0] != rs {
				c.Violation("b2t/two-writers-disagree", fmt.Sprintf("StringifiedMessage %q vs RawMessage.String %q", short(texts[0]), short(rs)), wit())
			}
			if len(texts) == 0 {
				texts = append(texts, rs)
			}
		}
	}
	for _, text := range texts {
		w2 := func() any {
			m := wit().(map[string]any)
			m["text"] = short(text)
			return m
		}
		// independent reading of the writer's text
		ref := refsnbt.Parse([]byte(text))
		switch ref.Status {
		case refsnbt.Reject:
			c.Violation("b2t/writer-text-malformed/"+reasonClass(ref.Reason), "the writer produced text the independent grammar rejects: "+ref.Reason, w2())
		case refsnbt.OK:
			if d := refnbt.Equal(ref.Tree, tree, refnbt.Opts{EmptyListElemFree: true}); d != "" {
				c.Violation("b2t/writer-text-denotes-other-value/"+diffClass(d), "independent reading of the writer's text differs from the value: "+d, w2())
			} else {
				c.Cover("b2t.text-independently-read-equal")
			}
		default:
			if ref.IfAccepted != nil {
				// the text uses constructs a reader may refuse (the writer's [I;5I]) but that have one reading: the
				// independent reading is still there to be compared
				d := refnbt.Equal(ref.IfAccepted, tree, refnbt.Opts{EmptyListElemFree: true})
				if d != "" && ref.IfAcceptedAlt != nil && refnbt.Equal(ref.IfAcceptedAlt, tree, refnbt.Opts{EmptyListElemFree: true}) == "" {
					d = ""
				}
				if d != "" {
					c.Violation("b2t/writer-text-denotes-other-value/"+diffClass(d), "independent reading of the writer's text ("+ref.Reason+") differs from the value: "+d, w2())
				} else {
					c.Cover("b2t.text-independently-read-equal.refusable-construct-with-one-reading")
				}
				break
			}
			c.Cover("b2t.text-lenient")
			c.CoverN("b2t.text-lenient:"+reasonClass(ref.Reason), 1)
		}
		// back to binary with the library's own parser
		doc2, tt, err, pan := toBinary(c, "t2b/own-text", text, w2)
		if pan {
			continue
		}
		if err != nil {
			c.Violation("b2t2b/own-text-rejected/"+vm.NormErr(err.Error()), "the parser rejects text produced by the library's own writer: "+err.Error(), w2())
			continue
		}
		back, _, used, perr := refnbt.Parse(doc2, true)
		if perr != nil || used != len(doc2) {
			c.Violation("b2t2b/document-malformed", fmt.Sprintf("re-parsed document is not well-formed: %v (used %d of %d): %s", perr, used, len(doc2), vm.Hex(doc2)), w2())
			continue
		}
		if d := refnbt.Equal(back, tree, refnbt.Opts{EmptyListElemFree: true}); d != "" {
			c.Violation("b2t2b/value-changed/"+diffClass(d)+"/"+leafFeature(d, tree), "binary -> text -> binary changed the value: "+d, w2())
			continue
		}
		if tt != tree.Tag {
			c.Violation("b2t2b/tagtype-announced", fmt.Sprintf("TagType() announced %s for a %s", refnbt.TagName(tt), refnbt.TagName(tree.Tag)), w2())
		}
		c.Cover("b2t2b.roundtrip")
		if text == string(sm) {
			streamOfTwo(c, i, doc, text, network, name, tree, wit)
			if rs == text {
				if i%4 == 0 && len(doc) <= 4000 {
					b2tNested(c, i, tree, text, network, wit)
				}
				if len(doc) <= 500 {
					poolAdd(&poolB2T, convPair{text: text, doc: doc, network: network, name: name}, i)
				}
			}
		}
		for f := range feats {
			c.Cover("doc." + f)
		}
		c.Cover("doc.root." + refnbt.TagName(tree.Tag))
	}
	if i < 2 && len(texts) > 0 {
		c.Sample("b2t2b", map[string]any{"doc_hex": vm.Hex(doc), "text": short(texts[0])})
	}
}

// leafFeature refines value-changed signatures.
func leafFeature(d string, tree *refnbt.Value) string {
	switch {
	case strings.Contains(d, "float bits"), strings.Contains(d, "double bits"):
		return "float"
	case strings.Contains(d, "string"):
		return "string"
	}
	return "-"
}

// --- monitor 2: text -> binary agreement
func t2b(c *vm.Ctx, r *vm.Rand, g *nbtgen.G, i int) {
	var root byte
	if i < 36 {
		root = byte(i%12) + 1
	}
	tree := g.Doc(root)
	lay := &refsnbt.Layout{R: r, Feats: map[string]bool{}}
	text := lay.Text(tree)
	// the generator's own text must be in the agreement grammar by the independent reader (self-check of the oracle)
	ref := refsnbt.Parse([]byte(text))
	// a text with a number-like key left bare is outside the agreement grammar (a reader may insist on quotes there)
	// but has one reading: refusing it is fine, accepting it with another meaning is not
	mayRefuse := lay.Feats["key.bare-number-like"]
	if mayRefuse {
		if ref.Status != refsnbt.Lenient || ref.IfAccepted == nil || refnbt.Equal(ref.IfAccepted, tree, refnbt.Opts{EmptyListElemFree: true}) != "" {
			panic(fmt.Sprintf("oracle self-check failed: generator text %q with a bare number-like key: %v %s", short(text), ref.Status, ref.Reason))
		}
	} else if ref.Status != refsnbt.OK || refnbt.Equal(ref.Tree, tree, refnbt.Opts{EmptyListElemFree: true}) != "" {
		panic(fmt.Sprintf("oracle self-check failed: generator text %q not read back by refsnbt: %v %s", short(text), ref.Status, ref.Reason))
	}
	c.Eval(vm.HashStr("t2b", text), len(text) > 6)
	wit := func() any { return map[string]any{"text": short(text), "tree": refnbt.Describe(tree)} }
	doc, tt, err, pan := toBinary(c, "t2b/generated", text, wit)
	if pan {
		return
	}
	if err != nil && mayRefuse {
		c.Cover("text.key.bare-number-like.refused")
		return
	}
	if err != nil {
		c.Violation("t2b/agreement-text-rejected/"+vm.NormErr(err.Error()), "the parser rejects a text of the agreement grammar: "+err.Error(), wit())
		return
	}
	got, _, used, perr := refnbt.Parse(doc, true)
	if perr != nil || used != len(doc) {
		c.Violation("t2b/document-malformed/"+perrClass(perr), fmt.Sprintf("nil error but the document is not well-formed: %v (used %d of %d): %s", perr, used, len(doc), vm.Hex(doc)), wit())
		return
	}
	if d := refnbt.Equal(got, tree, refnbt.Opts{EmptyListElemFree: true}); d != "" {
		c.Violation("t2b/value-disagrees/"+diffClass(d), "document content disagrees with the independent reading: "+d, wit())
		return
	}
	if tt != got.Tag {
		c.Violation("t2b/tagtype-announced", fmt.Sprintf("TagType() announced %s, document is %s", refnbt.TagName(tt), refnbt.TagName(got.Tag)), wit())
		return
	}
	for f := range lay.Feats {
		c.Cover("text." + f)
	}
	c.Cover("t2b.agree")
	if len(text) <= 500 {
		poolAdd(&poolT2B, convPair{text: text, doc: append([]byte{}, doc...)}, i)
	}
	// the same text inside an enclosing document and under a root name
	for _, form := range nestedForms {
		nestedOne(c, "t2b", form, text, tree, !mayRefuse, wit)
	}
	if i < 2 {
		c.Sample("t2b", map[string]any{"text": short(text), "doc_hex": vm.Hex(doc)})
	}
}

func perrClass(e *refnbt.ParseError) string {
	if e == nil {
		return "trailing-bytes"
	}
	return e.Class.String() + "@" + e.Kind
}

// --- monitor 3: totality on arbitrary / mutated / hand-picked texts
func total(c *vm.Ctx, text string, class string) {
	c.Inflight(text)
	c.Eval(vm.HashStr("total", text), true)
	wit := func() any { return map[string]any{"text": short(text), "text_hex": vm.Hex([]byte(text)), "class": class} }
	doc, tt, err, pan := toBinary(c, "total", text, wit)
	if pan {
		return
	}
	ref := refsnbt.Parse([]byte(text))
	c.Cover("total.ref." + ref.Status.String())
	outOfRange := ref.Status == refsnbt.Lenient && strings.HasPrefix(ref.Reason, "integer literal out of range")
	nested := vm.HashStr("total-nested-pick", text)%8 == 0 // one text in eight is also put inside enclosing documents
	if err != nil {
		if nested {
			nestedTotal(c, text, ref, err, nil, wit)
		}
		c.Cover("total.lib.error")
		if ref.Status == refsnbt.OK {
			c.Violation("total/agreement-text-rejected/"+vm.NormErr(err.Error()), "the parser rejects a text of the agreement grammar: "+err.Error(), wit())
		}
		if outOfRange {
			c.Cover("total.out-of-range-integer.refused-or-read-as-string")
		}
		return
	}
	c.Cover("total.lib.accepted")
	got, _, used, perr := refnbt.Parse(doc, true)
	if perr != nil || used != len(doc) {
		c.Violation("total/nil-error-malformed-document/"+perrClass(perr), fmt.Sprintf("nil error together with a document that is not well-formed: %v (used %d of %d): %s", perr, used, len(doc), vm.Hex(doc)), wit())
		return
	}
	if tt != got.Tag {
		c.Violation("total/tagtype-announced", fmt.Sprintf("TagType() announced %s, document is %s", refnbt.TagName(tt), refnbt.TagName(got.Tag)), wit())
	}
	if nested {
		nestedTotal(c, text, ref, nil, got, wit)
	}
	switch ref.Status {
	case refsnbt.Reject:
		c.Violation("total/malformed-text-accepted/"+reasonClass(ref.Reason), "nil error for a malformed text ("+ref.Reason+"); produced "+refnbt.Describe(got), wit())
	case refsnbt.OK:
		if d := refnbt.Equal(got, ref.Tree, refnbt.Opts{EmptyListElemFree: true}); d != "" {
			c.Violation("total/value-disagrees/"+diffClass(d), "document content disagrees with the independent reading: "+d, wit())
		}
	case refsnbt.Lenient:
		// constructs a parser may refuse - but this one accepted the text, and every reader that accepts them reads the same value
		if ref.IfAccepted != nil {
			d := refnbt.Equal(got, ref.IfAccepted, refnbt.Opts{EmptyListElemFree: true})
			if d != "" && ref.IfAcceptedAlt != nil && refnbt.Equal(got, ref.IfAcceptedAlt, refnbt.Opts{EmptyListElemFree: true}) == "" {
				d = ""
			}
			if d != "" {
				c.Violation("total/accepted-with-another-meaning/"+reasonClass(ref.Reason)+"/"+diffClass(d), "the text uses a construct a parser may refuse ("+ref.Reason+"); it was accepted, but not with the value its readers give it: "+d, wit())
			} else {
				c.Cover("total.lenient-construct-accepted-with-its-meaning")
				if outOfRange {
					c.Cover("total.out-of-range-integer.refused-or-read-as-string")
				}
			}
		}
	}
}

var handTexts = []string{
	"[[01d],[1f,01f]]", "[01,1b]", "[[01],[1b,01]]",
	"", " ", "[", "]", "{", "}", "[,]", "[;]", "[,1]", "[1,]", "[1,,2]", "{a:}", "{:1}", "{a}", "{a:1,}", "{,}", "{a:1 b:2}", `["b",{}]`, "{a:1}x", "1 2", "1,2",
	"[[1],[2]]", "[[],[1]]", "[[I;1],[L;1l]]", "[[1],[a]]", "[1,a]", "[1,2b]", "[{},[]]", "[{},1]", "[[],{}]", "[B;1]", "[I;1b]", "[L;1]", "[I;1I]", "[I;{}]", "[I;[1]]", "[B;1b,]", "[B;,1b]", "[X;1]", "[B", "[B;", "[I;1", "[I;1,",
	"0100L", "-010l", "+0777L", "09L", "08b", "007", "00", "-00s", "[L;010L,011L]", "{a:0100L,b:[010,011]}", "0x10", "0b1", "0o7", "1_000",
	".5", ".5d", ".5f", "-.5", "+.5", ".5e1", "5.", "5.f", "1e3f", "2E-2d", "-5e1F", "1.e3f", "[.5,1.5]", "{a:.5}", "[1e3f,2f]", `"a\nb"`, `"\t"`, `{"k\ny":1b}`, `'a\rb'`, `"a\bb\ff"`, `"a\/b"`, `"\u0041"`, `"\x41"`, `"\s"`,
	"1.5", "-1.5", "1.5f", "1.50", "0.1", "00.1", ".5", "5.", "1e5", "1.5e5", "1E-5f", "+1", "-0", "-0.0", "01", "1b", "128b", "-129b", "255B", "32768s", "2147483648", "9223372036854775808L", "1.0.0", "--1", "1-1", "1+1", "+", "-", ".", "-.", "1f", "1d", "1F", "1D", "1L", "1l", "1I", "1i", "1S", "1s",
	"true", "false", "True", "\"\"", "''", "\"", "'", "\"a", "'a", `"\"`, `"\\"`, `"\n"`, `"\x"`, `'\''`, `'\"'`, `"\'"`, `"a"b`, `"a""b"`, `a"b"`, "a b", "a\tb", "§", "a§", "\x00", "\xff", "日本", "\"日本\"",
	"{a:1}", "{ a : 1 }", "{\"a\":1}", "{'a':1}", "{a:1,b:2}", "{a:{b:{c:1}}}", "{a:[1,2,3]}", "{a:[B;1b],b:[I;1],c:[L;1l]}", "{1:2}", "{1.5:2}", "{-:1}", "{a.b:1}", "{\"\":1}", "{a:1,a:2}", "{a:\"x\"}}", "{{a:1}}", "[[[[[[[[[[", "]]]]]]]]]]", "[[[[[[[[[[1]]]]]]]]]]", "{a:[{b:[{c:[]}]}]}",
	"[B; ]", "[ B;1b]", "[B ;1b]", "[B;1b ,2b]", "[ ]", "{ }", " { } ", "[I;]", "[L;]", "[B;]", "[I;-1,0,1]", "[\"a\",\"b\"]", "['a',\"b\"]", "[a,b]", "[a,1]", "[1.5,2.5]", "[1.5,2]", "[1f,1d]",
	"-2147483649", "+2147483648", "-32769S", "+32768s", "-9223372036854775809l", "+128B", "-129B", "0128b", "-00129b", "99999999999", "{a:128b}", "{a:2147483648,b:1}", "[128b]", "[300b,400b]", "[2147483648,2147483649]", "[128b,1b]", "{128b:1b}",
	"+1.5", "+0.5f", "+2.0D", "+0.0", "[+1.5,+2.5]", "{a:+1.5f}", "+1.5e1", "+.5",
	"[B]", "[I]", "[L]", "[Bx,Ly]", "[I,L,B]", "[ B , I ]", "[B ,I]", "[B,1b]", "[Ba;1b]", "[B;1b,Bx]", "[B1,B2]", "[I1;1]", "{B:1,I:2,L:3}", "[L,[L;1l]]",
	"[I;1I]", "[I;1i,2I]", "[I;+1I,-1i]", "[I;01I]", "[I;2147483648I]", "[I;1I,2]", "[L;1L,2l]", "[B;1B]", "[I; 1I , 2i ]", "[I;1b]", "[L;1I]", "[B;1I]",
	"-0f", "-0d", "-0.0f", "-0.0d", "+0f", "-0F", "[-0f,0f]",
	"{a:1}\n", "\n{a:1}", "{a:1} ,", "{a:1}{b:2}", "[1][2]", "\"a\"\"b\"", "a:b", "a,b", "a;b", ";", ":", ",",
}

func mutateText(r *vm.Rand, s string) string {
	b := []byte(s)
	if len(b) == 0 {
		return string(r.Bytes(r.Range(1, 3)))
	}
	structural := []byte("{}[],:;\"'\\ \t\nBIL1.-")
	switch r.Intn(9) {
	case 0: // delete a byte
		i := r.Intn(len(b))
		return string(append(append([]byte{}, b[:i]...), b[i+1:]...))
	case 1: // duplicate a byte
		i := r.Intn(len(b))
		return string(append(append(append([]byte{}, b[:i+1]...), b[i]), b[i+1:]...))
	case 2: // truncate
		return string(b[:r.Intn(len(b))])
	case 3: // insert a structural byte
		i := r.Intn(len(b) + 1)
		ch := structural[r.Intn(len(structural))]
		return string(append(append(append([]byte{}, b[:i]...), ch), b[i:]...))
	case 4: // replace by a structural byte
		c2 := append([]byte{}, b...)
		c2[r.Intn(len(b))] = structural[r.Intn(len(structural))]
		return string(c2)
	case 5: // swap two bytes
		c2 := append([]byte{}, b...)
		i, j := r.Intn(len(b)), r.Intn(len(b))
		c2[i], c2[j] = c2[j], c2[i]
		return string(c2)
	case 6: // drop from a random position to a later one
		i := r.Intn(len(b))
		j := r.Range(i, len(b))
		return string(append(append([]byte{}, b[:i]...), b[j:]...))
	case 7: // append garbage
		return s + string(structural[r.Intn(len(structural))]) + string(structural[r.Intn(len(structural))])
	default: // random byte
		c2 := append([]byte{}, b...)
		c2[r.Intn(len(b))] = byte(r.Intn(256))
		return string(c2)
	}
}

func run(c *vm.Ctx) {
	c.EnableSpinWatch("total", 20)
	lap := func(string) {}
	if os.Getenv("VERIF_TIMING") != "" {
		last := vm.CPUSeconds()
		lap = func(what string) {
			now := vm.CPUSeconds()
			fmt.Fprintf(os.Stderr, "timing shard %d: %-28s %.2f cpu-s\n", c.Shard, what, now-last)
			last = now
		}
	}
	r := c.Rand("docs")
	cfg := nbtgen.Default()
	cfg.FiniteOnly = true
	cfg.MaxNodes = 80
	cfg.MaxArray = 300
	g := nbtgen.New(r, cfg)
	for i := 0; i < c.Scale(20000, 400000); i++ {
		c.Tick()
		b2t2b(c, r, g, i)
	}
	lap("binary->text->binary")
	tr := c.Rand("texts")
	tcfg := cfg
	tcfg.MaxNodes = 40
	tcfg.MaxArray = 12
	tcfg.LongString = false
	tg := nbtgen.New(tr, tcfg)
	bcfg := tcfg // now and then texts with quoted strings of 255..32767 bytes, long keys and arrays of a few hundred elements
	bcfg.MaxArray, bcfg.LongString = 400, true
	tgBig := nbtgen.New(tr, bcfg)
	for i := 0; i < c.Scale(30000, 600000); i++ {
		c.Tick()
		if i%40 == 39 {
			t2b(c, tr, tgBig, i)
			continue
		}
		t2b(c, tr, tg, i)
	}
	lap("text->binary")
	floatEdges(c, c.Rand("float-edges"), c.Scale(4000, 80000))
	lap("float edges")
	floatForms(c, c.Rand("float-forms"), c.Scale(2400, 48000))
	lap("float forms")
	bigCounts(c, c.Rand("big-counts"))
	if c.Shard == 0 {
		longStrings(c)
	}
	if c.Shard == 1%c.NShards {
		deepNesting(c)
	}
	// totality
	lap("big counts, long strings, deep nesting")
	mr := c.Rand("mutations")
	if c.Shard == 0 {
		for _, t := range handTexts {
			total(c, t, "hand")
		}
		// all byte strings of length <= 2 over a structural alphabet
		alpha := []byte("{}[],:;\"'\\ aB1.-+bLI")
		for _, a := range alpha {
			total(c, string([]byte{a}), "exhaustive1")
			for _, b := range alpha {
				total(c, string([]byte{a, b}), "exhaustive2")
				for _, d := range alpha {
					total(c, string([]byte{a, b, d}), "exhaustive3")
				}
			}
		}
	}
	mg := nbtgen.New(mr, tcfg)
	nMut := c.Scale(300000, 6000000)
	for i := 0; i < nMut; {
		tree := mg.Doc(0)
		lay := &refsnbt.Layout{R: mr}
		base := lay.Text(tree)
		for k := 0; k < 24 && i < nMut; k++ {
			t := base
			for m := mr.Range(1, 3); m > 0; m-- {
				t = mutateText(mr, t)
			}
			total(c, t, "mutated")
			i++
		}
		if len(base) < 80 {
			// truncation at every offset
			for k := 0; k < len(base) && i < nMut; k++ {
				total(c, base[:k], "truncated")
				i++
			}
		}
	}
	for i := 0; i < c.Scale(50000, 1000000); i++ {
		n := mr.Range(0, 24)
		b := make([]byte, n)
		alpha := []byte("{}[],:;\"'\\ aB1.-+bLIesfd0\t\n\xc2\xa7")
		for j := range b {
			if mr.Intn(8) == 0 {
				b[j] = byte(mr.Intn(256))
			} else {
				b[j] = alpha[mr.Intn(len(alpha))]
			}
		}
		total(c, string(b), "random")
	}
	lap("totality")
	concurrentConversions(c, c.Rand("concurrent"))
	lap("concurrent conversions")
}
