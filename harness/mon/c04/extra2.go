package main

import (
	"bytes"
	"fmt"
	"io"
	"math"
	"math/big"
	"runtime"
	"strings"
	"sync"

	"github.com/Tnze/go-mc/nbt"

	"verif/ref/refnbt"
	"verif/ref/refsnbt"
	"verif/vm"
)

var treeOpts = refnbt.Opts{EmptyListElemFree: true}

// ---------------------------------------------------------------------------------------------------
// binary -> text with the text receiver inside an enclosing receiver. At the root the decoder hands the converter
// the root tag; as a struct member, a list element or a map value the converter is called by the enclosing decoder
// with the member's tag (once per element), on a reader that has more data behind the value, and into a receiver
// that may hold an older text. The text of a value does not depend on where the value stands.

type b2tMember struct {
	A int32                   `nbt:"a"`
	C nbt.StringifiedMessage  `nbt:"c"`
	P *nbt.StringifiedMessage `nbt:"p"`
	Z string                  `nbt:"z"`
}

// textDenotes: does text denote tree? Decided by the independent reader where it can decide, otherwise by the
// library's own parser plus the reference document reader (as in the root flow).
func textDenotes(c *vm.Ctx, text string, tree *refnbt.Value, wit func() any) (bool, string) {
	ref := refsnbt.Parse([]byte(text))
	switch {
	case ref.Status == refsnbt.Reject:
		return false, "the independent grammar rejects it: " + ref.Reason
	case ref.Status == refsnbt.OK:
		if d := refnbt.Equal(ref.Tree, tree, treeOpts); d != "" {
			return false, d
		}
		return true, ""
	case ref.IfAccepted != nil:
		d := refnbt.Equal(ref.IfAccepted, tree, treeOpts)
		if d != "" && ref.IfAcceptedAlt != nil && refnbt.Equal(ref.IfAcceptedAlt, tree, treeOpts) == "" {
			d = ""
		}
		return d == "", d
	}
	doc, _, err, pan := toBinary(c, "b2t/nested/back", text, wit)
	if pan {
		return true, "" // reported by Guard
	}
	if err != nil {
		return false, "the library's parser rejects it: " + err.Error()
	}
	back, _, used, perr := refnbt.Parse(doc, true)
	if perr != nil || used != len(doc) {
		return false, fmt.Sprintf("converted back it is not a well-formed document: %v", perr)
	}
	if d := refnbt.Equal(back, tree, treeOpts); d != "" {
		return false, d
	}
	return true, ""
}

var nestedPrevTree *refnbt.Value
var nestedPrevText string

// b2tNested: tree (whose text at the root is rootText, already judged) decoded as member, pointer member, list
// element and map value, next to the previous document's tree.
func b2tNested(c *vm.Ctx, i int, tree *refnbt.Value, rootText string, network bool, wit func() any) {
	other, otherText := nestedPrevTree, nestedPrevText
	defer func() { nestedPrevTree, nestedPrevText = tree, rootText }()
	if other == nil {
		return
	}
	judge := func(form, got, want string, wantTree *refnbt.Value, w func() any) bool {
		if got == want {
			return true
		}
		if ok, why := textDenotes(c, got, wantTree, w); !ok {
			c.Violation("b2t/nested/"+form+"/text-denotes-other-value", fmt.Sprintf("a value converted as %s gives %q (alone: %q), which does not denote the value: %s", form, short(got), short(want), why), w())
			return false
		}
		return true
	}
	w := func(form string, doc []byte) func() any {
		return func() any {
			m, _ := wit().(map[string]any)
			out := map[string]any{"position": form, "enclosing_doc_hex": vm.Hex(doc), "receiver_held_before": short(otherText)}
			for k, x := range m {
				if k != "doc_hex" {
					out[k] = x
				}
			}
			return out
		}
	}
	name := ""
	if !network {
		name = "n"
	}
	// struct member and pointer member, the receivers holding the previous document's text
	{
		encl := &refnbt.Value{Tag: refnbt.Compound, Comp: []refnbt.Entry{{Name: "a", V: refnbt.In(7)}, {Name: "c", V: tree}, {Name: "p", V: other}, {Name: "z", V: refnbt.St("after")}}}
		doc := refnbt.Encode(encl, name, network)
		old := nbt.StringifiedMessage(otherText)
		v := b2tMember{C: nbt.StringifiedMessage(otherText), P: &old}
		if i%2 == 0 {
			v.P = nil
		}
		var err error
		if !c.Guard("b2t/nested/member", w("member", doc), func() {
			dec := nbt.NewDecoder(bytes.NewReader(doc))
			dec.NetworkFormat(network)
			_, err = dec.Decode(&v)
		}) {
			switch {
			case err != nil:
				c.Violation("b2t/nested/member/error", "a well-formed document with the values as struct members of text type is refused: "+err.Error(), w("member", doc)())
			case v.A != 7 || v.Z != "after" || v.P == nil:
				c.Violation("b2t/nested/member/neighbours", fmt.Sprintf("members around the text members: a=%d z=%q p=%v, want 7, \"after\", set", v.A, v.Z, v.P != nil), w("member", doc)())
			default:
				if judge("member", string(v.C), rootText, tree, w("member", doc)) && judge("pointer-member", string(*v.P), otherText, other, w("pointer-member", doc)) {
					c.Cover("b2t.nested.member")
					c.Cover("b2t.nested.pointer-member")
					c.Cover("b2t.nested.receiver-held-older-text")
				}
			}
		}
	}
	// list elements: the two values if they have one tag, else the value twice
	{
		second, secondText := other, otherText
		if other.Tag != tree.Tag {
			second, secondText = tree, rootText
		}
		encl := &refnbt.Value{Tag: refnbt.List, Elem: tree.Tag, List: []*refnbt.Value{tree, second, tree}}
		doc := refnbt.Encode(encl, name, network)
		l := []nbt.StringifiedMessage{nbt.StringifiedMessage(otherText)}
		var err error
		if !c.Guard("b2t/nested/list-element", w("list-element", doc), func() {
			dec := nbt.NewDecoder(bytes.NewReader(doc))
			dec.NetworkFormat(network)
			_, err = dec.Decode(&l)
		}) {
			switch {
			case err != nil:
				c.Violation("b2t/nested/list-element/error", "a well-formed list decoded into a slice of texts is refused: "+err.Error(), w("list-element", doc)())
			case len(l) != 3:
				c.Violation("b2t/nested/list-element/count", fmt.Sprintf("a list of 3 values gives %d texts", len(l)), w("list-element", doc)())
			default:
				if judge("list-element", string(l[0]), rootText, tree, w("list-element", doc)) && judge("list-element", string(l[1]), secondText, second, w("list-element", doc)) && judge("list-element", string(l[2]), rootText, tree, w("list-element", doc)) {
					c.Cover("b2t.nested.list-element")
				}
			}
		}
	}
	// map values
	{
		encl := &refnbt.Value{Tag: refnbt.Compound, Comp: []refnbt.Entry{{Name: "k", V: tree}, {Name: "other", V: other}}}
		doc := refnbt.Encode(encl, name, network)
		m := map[string]nbt.StringifiedMessage{"k": nbt.StringifiedMessage(otherText), "stays": "1b"}
		var err error
		if !c.Guard("b2t/nested/map-value", w("map-value", doc), func() {
			dec := nbt.NewDecoder(bytes.NewReader(doc))
			dec.NetworkFormat(network)
			_, err = dec.Decode(&m)
		}) {
			switch {
			case err != nil:
				c.Violation("b2t/nested/map-value/error", "a well-formed compound decoded into a map of texts is refused: "+err.Error(), w("map-value", doc)())
			default:
				if judge("map-value", string(m["k"]), rootText, tree, w("map-value", doc)) && judge("map-value", string(m["other"]), otherText, other, w("map-value", doc)) {
					c.Cover("b2t.nested.map-value")
				}
			}
		}
	}
}

// ---------------------------------------------------------------------------------------------------
// Decimal literals at rounding boundaries in the forms that take other paths through the literal parser than
// "digits.digits": whole numbers with a suffix ("1152921573326323713f"), a missing integer part (".5f"), an
// exponent with and without a point ("1.5e1f", "15e0f"). The last three may be refused; accepted, they are the
// number (refsnbt says which: strconv at the suffix's own precision).

func bigPow2(e int) *big.Float {
	return new(big.Float).SetPrec(600).SetMantExp(big.NewFloat(1), e)
}

// shiftPoint rewrites the plain decimal "[sign]ddd.ddd" as the same number with the point k places to the left and
// an exponent; withPoint=false removes the point altogether (all digits, negative exponent).
func shiftPoint(lit string, k int, withPoint bool, r *vm.Rand) string {
	sign := ""
	if lit[0] == '-' || lit[0] == '+' {
		sign, lit = lit[:1], lit[1:]
	}
	ip, fp, _ := strings.Cut(lit, ".")
	e := []string{"e", "E"}[r.Intn(2)]
	if !withPoint {
		digits := strings.TrimLeft(ip+fp, "0")
		if digits == "" {
			digits = "0"
		}
		return sign + digits + e + fmt.Sprintf("-%d", len(fp))
	}
	for len(ip) <= k {
		ip = "0" + ip
	}
	ni, nf := ip[:len(ip)-k], ip[len(ip)-k:]+fp
	ni = strings.TrimLeft(ni, "0")
	if ni == "" {
		ni = "0"
	}
	plus := []string{"", "+"}[r.Intn(2)]
	return sign + ni + "." + nf + e + plus + fmt.Sprint(k)
}

func floatForms(c *vm.Ctx, r *vm.Rand, n int) {
	eps := new(big.Float).SetPrec(600)
	eps.SetString("1e-90")
	one := new(big.Float).SetPrec(600).SetInt64(1)
	for i := 0; i < n; i++ {
		is32 := i%3 != 2
		form := []string{"integer-form", "leading-point", "exponent-with-point", "exponent-no-point"}[i%4]
		var lo, hi *big.Float
		delta := eps
		if form == "integer-form" {
			// neighbours far enough apart that midpoint-1 and midpoint+1 lie strictly between them; beyond 2^55 the
			// midpoint+-1 is not a float64 either, so a parser that goes through float64 first lands on the midpoint
			delta = one
			if is32 {
				e := uint32(r.Range(127+26, 127+62))
				bits := e<<23 | uint32(r.Uint64())&0x7fffff
				lo = new(big.Float).SetPrec(600).SetFloat64(float64(math.Float32frombits(bits)))
				hi = new(big.Float).SetPrec(600).SetFloat64(float64(math.Float32frombits(bits + 1)))
			} else {
				e := uint64(r.Range(1023+55, 1023+62))
				bits := e<<52 | r.Uint64()&(1<<52-1)
				lo = new(big.Float).SetPrec(600).SetFloat64(math.Float64frombits(bits))
				hi = new(big.Float).SetPrec(600).SetFloat64(math.Float64frombits(bits + 1))
			}
		} else if is32 {
			eb := r.Range(127-40, 127+60)
			if form == "leading-point" {
				eb = r.Range(127-40, 127-1) // below 1
			}
			bits := uint32(eb)<<23 | uint32(r.Uint64())&0x7fffff
			lo = new(big.Float).SetPrec(600).SetFloat64(float64(math.Float32frombits(bits)))
			hi = new(big.Float).SetPrec(600).SetFloat64(float64(math.Float32frombits(bits + 1)))
		} else {
			eb := r.Range(1023-40, 1023+60)
			if form == "leading-point" {
				eb = r.Range(1023-40, 1023-1)
			}
			bits := uint64(eb)<<52 | r.Uint64()&(1<<52-1)
			lo = new(big.Float).SetPrec(600).SetFloat64(math.Float64frombits(bits))
			hi = new(big.Float).SetPrec(600).SetFloat64(math.Float64frombits(bits + 1))
		}
		mid := new(big.Float).SetPrec(600).Add(lo, hi)
		mid.Quo(mid, big.NewFloat(2))
		for k, v := range []*big.Float{mid, new(big.Float).SetPrec(600).Add(mid, delta), new(big.Float).SetPrec(600).Sub(mid, delta)} {
			plain := strings.TrimRight(v.Text('f', 95), "0")
			if strings.HasSuffix(plain, ".") {
				plain += "0"
			}
			switch r.Intn(8) {
			case 0, 1:
				plain = "-" + plain
			case 2:
				plain = "+" + plain
			}
			suf := map[bool][]string{true: {"f", "F"}, false: {"d", "D"}}[is32]
			sfx := suf[r.Intn(2)]
			// what the number is: the plain form read at the suffix's precision (inside the agreement grammar)
			want, ok := refsnbt.Literal(plain + sfx)
			if !ok {
				panic("oracle self-check failed: boundary literal outside the agreement grammar: " + plain + sfx)
			}
			lit := plain
			mayRefuse := true
			switch form {
			case "integer-form":
				if !strings.HasSuffix(plain, ".0") {
					panic("oracle self-check failed: integer-form boundary literal is not a whole number: " + plain)
				}
				lit, mayRefuse = strings.TrimSuffix(plain, ".0")+sfx, false
			case "leading-point":
				lit = strings.Replace(plain, "0.", ".", 1)
				if !is32 && r.Bool() {
					sfx = "" // an unsuffixed decimal is a Double
				}
				lit += sfx
			case "exponent-with-point":
				if !is32 && r.Bool() {
					sfx = ""
				}
				lit = shiftPoint(plain, r.Range(0, 5), true, r) + sfx
			default:
				lit = shiftPoint(plain, 0, false, r) + sfx
			}
			// the independent reader must give the rewritten form the same value (self-check of the rewriting)
			ref := refsnbt.Parse([]byte(lit))
			var refV *refnbt.Value
			if mayRefuse {
				if ref.Status != refsnbt.Lenient || ref.IfAccepted == nil {
					panic(fmt.Sprintf("oracle self-check failed: %q should be a refusable decimal form with one reading, is %v %s", lit, ref.Status, ref.Reason))
				}
				refV = ref.IfAccepted
			} else {
				if ref.Status != refsnbt.OK {
					panic(fmt.Sprintf("oracle self-check failed: %q should be in the agreement grammar, is %v %s", lit, ref.Status, ref.Reason))
				}
				refV = ref.Tree
			}
			if d := refnbt.Equal(refV, want, refnbt.Opts{}); d != "" {
				panic(fmt.Sprintf("oracle self-check failed: %q and %q should be one number: %s", lit, plain+sfx, d))
			}
			text := lit
			switch r.Intn(3) {
			case 1:
				text = "{a:" + lit + "}"
				want = &refnbt.Value{Tag: refnbt.Compound, Comp: []refnbt.Entry{{Name: "a", V: want}}}
			case 2:
				text = "[" + lit + "]"
				want = &refnbt.Value{Tag: refnbt.List, Elem: want.Tag, List: []*refnbt.Value{want}}
			}
			c.Eval(vm.HashStr("edge-form", text), true)
			want2 := want
			wit := func() any {
				return map[string]any{"text": text, "form": form, "independent_reading": refnbt.Describe(want2)}
			}
			doc, _, err, pan := toBinary(c, "t2b/float-boundary/"+form, text, wit)
			if pan {
				continue
			}
			if err != nil {
				if mayRefuse {
					c.Cover("float-boundary.form." + form + ".refused")
				} else {
					c.Violation("t2b/float-boundary/"+form+"/rejected/"+vm.NormErr(err.Error()), "the parser rejects an in-range whole number with a float suffix: "+err.Error(), wit())
				}
				continue
			}
			got, _, used, perr := refnbt.Parse(doc, true)
			if perr != nil || used != len(doc) {
				c.Violation("t2b/float-boundary/"+form+"/document-malformed", fmt.Sprintf("nil error but the document is not well-formed: %v", perr), wit())
				continue
			}
			if d := refnbt.Equal(got, want, refnbt.Opts{}); d != "" {
				c.Violation("t2b/float-boundary/"+form+"/value-disagrees/"+diffClass(d), "a decimal literal next to a rounding boundary is not converted to the nearest float of its own type: "+d, wit())
				continue
			}
			c.Cover(fmt.Sprintf("float-boundary.form.%s.%s.%s", form, map[bool]string{true: "float", false: "double"}[is32], []string{"midpoint", "above", "below"}[k]))
		}
	}
}

// ---------------------------------------------------------------------------------------------------
// Element counts. The parser buffers the elements of a list or array to learn the count and then writes a 32-bit
// count in front; the writer loops over the count it reads. Generated documents stay below 400 elements (lists
// below 40): here the counts step over 2^7, 2^8, 2^12, 2^15 and 2^16, for every element kind, in both directions.

func bigCounts(c *vm.Ctx, r *vm.Rand) {
	kinds := []string{"list.int", "list.string", "list.compound", "list.list", "list.empty-list", "list.byte", "array.B", "array.I", "array.L"}
	pair := 0
	for _, n := range []int{127, 128, 255, 256, 257, 4096, 4097, 32767, 32768, 65535, 65536, 65537} {
		for ki, kind := range kinds {
			if n > 4097 && (ki+n)%3 != 0 && c.Tier != "thorough" {
				continue // the large counts take a third of the kinds each
			}
			if n > 4097 && (ki+n)%9 != 0 && c.Mode == "ia32" {
				continue
			}
			// the (count, kind) pairs are dealt out over the shards
			if pair++; pair%c.NShards != c.Shard {
				continue
			}
			var tree *refnbt.Value
			switch kind {
			case "array.B":
				tree = &refnbt.Value{Tag: refnbt.ByteArray, Bytes: r.Bytes(n)}
			case "array.I":
				tree = &refnbt.Value{Tag: refnbt.IntArray, Ints: make([]int32, n)}
				for k := range tree.Ints {
					tree.Ints[k] = int32(r.Int64B())
				}
			case "array.L":
				tree = &refnbt.Value{Tag: refnbt.LongArray, Longs: make([]int64, n)}
				for k := range tree.Longs {
					tree.Longs[k] = r.Int64B()
				}
			default:
				tree = &refnbt.Value{Tag: refnbt.List}
				for k := 0; k < n; k++ {
					var e *refnbt.Value
					switch kind {
					case "list.int":
						e = refnbt.In(int32(k))
					case "list.byte":
						e = refnbt.B(int8(k))
					case "list.string":
						e = refnbt.St([]string{"e", "", "x y", "B"}[k%4])
					case "list.compound":
						e = &refnbt.Value{Tag: refnbt.Compound}
						if k%2 == 0 {
							e.Comp = []refnbt.Entry{{Name: "a", V: refnbt.B(int8(k))}}
						}
					case "list.list":
						e = &refnbt.Value{Tag: refnbt.List, Elem: refnbt.Byte, List: []*refnbt.Value{refnbt.B(int8(k))}}
					default:
						e = &refnbt.Value{Tag: refnbt.List, Elem: refnbt.End}
					}
					tree.List = append(tree.List, e)
				}
				tree.Elem = tree.List[0].Tag
			}
			if r.Bool() { // half of the time as a member between two others
				tree = &refnbt.Value{Tag: refnbt.Compound, Comp: []refnbt.Entry{{Name: "a", V: refnbt.In(1)}, {Name: "big", V: tree}, {Name: "z", V: refnbt.St("after")}}}
			}
			wit := func() any { return map[string]any{"elements": n, "kind": kind, "root": refnbt.TagName(tree.Tag)} }
			c.Inflight(fmt.Sprintf("big counts %s n=%d", kind, n))
			c.Eval(vm.HashStr("big-count", kind, fmt.Sprint(n)), true)
			// text -> binary
			lay := &refsnbt.Layout{R: r}
			text := lay.Text(tree)
			if ref := refsnbt.Parse([]byte(text)); ref.Status != refsnbt.OK || refnbt.Equal(ref.Tree, tree, treeOpts) != "" {
				panic(fmt.Sprintf("oracle self-check failed: generated text for %s n=%d not read back by refsnbt: %v %s", kind, n, ref.Status, ref.Reason))
			}
			okT := false
			if doc, tt, err, pan := toBinary(c, "t2b/big-count", text, wit); !pan {
				switch got, _, used, perr := refnbt.Parse(doc, true); {
				case err != nil:
					c.Violation("t2b/big-count/rejected/"+kind, fmt.Sprintf("a text of the agreement grammar with %d elements (%s) is refused: %v", n, kind, err), wit())
				case perr != nil || used != len(doc):
					c.Violation("t2b/big-count/document-malformed/"+kind, fmt.Sprintf("%d elements (%s): nil error but the document is not well-formed: %v (used %d of %d)", n, kind, perr, used, len(doc)), wit())
				case refnbt.Equal(got, tree, treeOpts) != "":
					c.Violation("t2b/big-count/value-disagrees/"+kind, fmt.Sprintf("%d elements (%s): %s", n, kind, refnbt.Equal(got, tree, treeOpts)), wit())
				case tt != tree.Tag:
					c.Violation("t2b/big-count/tagtype-announced/"+kind, fmt.Sprintf("TagType() announced %s for a %s", refnbt.TagName(tt), refnbt.TagName(tree.Tag)), wit())
				default:
					okT = true
				}
			}
			// binary -> text -> binary
			doc := refnbt.Encode(tree, "", true)
			var sm nbt.StringifiedMessage
			var err error
			if c.Guard("b2t/big-count", wit, func() {
				dec := nbt.NewDecoder(bytes.NewReader(doc))
				dec.NetworkFormat(true)
				_, err = dec.Decode(&sm)
			}) {
				continue
			}
			if err != nil {
				c.Violation("b2t/big-count/error/"+kind, fmt.Sprintf("a well-formed document with %d elements (%s) is not converted to text: %v", n, kind, err), wit())
				continue
			}
			if ok, why := textDenotes(c, string(sm), tree, wit); !ok {
				c.Violation("b2t/big-count/text-denotes-other-value/"+kind, fmt.Sprintf("%d elements (%s): the writer's text does not denote the value: %s", n, kind, short(why)), wit())
				continue
			}
			back, _, err, pan := toBinary(c, "b2t2b/big-count", string(sm), wit)
			if pan {
				continue
			}
			if err != nil {
				c.Violation("b2t2b/big-count/own-text-rejected/"+kind, fmt.Sprintf("%d elements (%s): the parser rejects the writer's text: %v", n, kind, err), wit())
				continue
			}
			if got, _, used, perr := refnbt.Parse(back, true); perr != nil || used != len(back) || refnbt.Equal(got, tree, treeOpts) != "" {
				c.Violation("b2t2b/big-count/value-changed/"+kind, fmt.Sprintf("%d elements (%s): binary -> text -> binary gives another document (%v)", n, kind, perr), wit())
				continue
			}
			if okT {
				c.Cover("big-count." + kind)
				switch {
				case n >= 65536:
					c.Cover("big-count.at-or-above-65536")
				case n >= 32768:
					c.Cover("big-count.at-or-above-32768")
				case n >= 256:
					c.Cover("big-count.at-or-above-256")
				}
			}
		}
	}
}

// ---------------------------------------------------------------------------------------------------
// Malformed and refusable texts inside an enclosing document. nestedOne puts texts of the agreement grammar there;
// the totality texts stood at the root only. As member, list element or map value the enclosing encoder writes the
// header from TagType() and the text parser the payload, and the check for trailing input runs on the text alone.

func nestedTotal(c *vm.Ctx, text string, ref refsnbt.Result, rootErr error, rootGot *refnbt.Value, wit func() any) {
	want := rootGot
	switch {
	case want != nil:
	case ref.Status == refsnbt.OK:
		want = ref.Tree
	case ref.IfAccepted != nil:
		want = ref.IfAccepted
	}
	m := nbt.StringifiedMessage(text)
	for _, form := range []string{"member", "list-element", "map-value"} {
		var v any
		var expect, expectAlt *refnbt.Value
		wrap := func(x *refnbt.Value) *refnbt.Value {
			if x == nil {
				return nil
			}
			switch form {
			case "member":
				return &refnbt.Value{Tag: refnbt.Compound, Comp: []refnbt.Entry{{Name: "a", V: refnbt.In(7)}, {Name: "c", V: x}, {Name: "z", V: refnbt.St("after")}}}
			case "list-element":
				return &refnbt.Value{Tag: refnbt.List, Elem: x.Tag, List: []*refnbt.Value{x, x}}
			}
			return &refnbt.Value{Tag: refnbt.Compound, Comp: []refnbt.Entry{{Name: "k", V: x}}}
		}
		switch form {
		case "member":
			v = wrapMember{A: 7, C: m, Z: "after"}
		case "list-element":
			v = []nbt.StringifiedMessage{m, m}
		default:
			v = map[string]nbt.StringifiedMessage{"k": m}
		}
		expect = wrap(want)
		if rootGot == nil && ref.IfAcceptedAlt != nil {
			expectAlt = wrap(ref.IfAcceptedAlt)
		}
		w := func() any {
			mm, _ := wit().(map[string]any)
			out := map[string]any{"position": form, "alone": fmt.Sprint(rootErr)}
			for k, x := range mm {
				out[k] = x
			}
			return out
		}
		var doc []byte
		var err error
		if c.Guard("total/nested/"+form, w, func() {
			var buf bytes.Buffer
			enc := nbt.NewEncoder(&buf)
			enc.NetworkFormat(true)
			err = enc.Encode(v, "")
			doc = buf.Bytes()
		}) {
			continue
		}
		c.Eval(vm.HashStr("total-nested", form, text), true)
		if err != nil {
			c.Cover("total.nested." + form + ".refused")
			continue
		}
		got, _, used, perr := refnbt.Parse(doc, true)
		switch {
		case perr != nil || used != len(doc):
			c.Violation("total/nested/"+form+"/nil-error-malformed-document/"+perrClass(perr), fmt.Sprintf("the text as %s: nil error together with a document that is not well-formed: %v (used %d of %d): %s", form, perr, used, len(doc), vm.Hex(doc)), w())
		case ref.Status == refsnbt.Reject:
			c.Violation("total/nested/"+form+"/malformed-text-accepted/"+reasonClass(ref.Reason), "nil error for a malformed text ("+ref.Reason+") as "+form+"; produced "+refnbt.Describe(got), w())
		case expect != nil && hasDuplicateKeys(expect):
			// texts with repeated keys ({a:1,a:2}): the tree comparison cannot pair the members up; the library wrote
			// the members in the order of the text both times, so they are compared in that order
			if d := diffOrdered(got, expect, "$"); d != "" {
				c.Violation("total/nested/"+form+"/value-disagrees/repeated-keys", "the text as "+form+" does not give the value it has alone: "+d, w())
			} else {
				c.Cover("total.nested." + form + ".accepted-with-its-value")
			}
		case expect != nil:
			d := refnbt.Equal(got, expect, treeOpts)
			if d != "" && expectAlt != nil && refnbt.Equal(got, expectAlt, treeOpts) == "" {
				d = ""
			}
			if d != "" {
				c.Violation("total/nested/"+form+"/value-disagrees/"+diffClass(d), "the text as "+form+" does not give the value it has alone: "+d, w())
			} else {
				c.Cover("total.nested." + form + ".accepted-with-its-value")
			}
		default:
			c.Cover("total.nested." + form + ".accepted-well-formed")
		}
	}
}

// ---------------------------------------------------------------------------------------------------
// Conversions from several goroutines at once, each on texts and documents of its own choice. Both directions look
// like pure functions of their input; the results are compared with the ones the same inputs gave when they were
// converted alone (and were judged by the checks above). The writer the encoder is given and the reader the decoder
// is given yield the processor on every call, so that calls really interleave.

type convPair struct {
	text    string
	doc     []byte // network-format document of text (t2b), or the document text was written for (b2t)
	network bool
	name    string
}

var poolT2B, poolB2T []convPair

func poolAdd(pool *[]convPair, p convPair, seq int) {
	const size = 96
	if len(p.text) > 500 || len(p.doc) > 500 {
		return
	}
	if len(*pool) < size {
		*pool = append(*pool, p)
	} else if seq%7 == 0 {
		(*pool)[(seq/7)%size] = p
	}
}

type yieldWriter struct{ buf bytes.Buffer }

func (y *yieldWriter) Write(p []byte) (int, error) {
	runtime.Gosched()
	return y.buf.Write(p)
}

type yieldReader struct {
	b   []byte
	pos int
}

func (y *yieldReader) Read(p []byte) (int, error) {
	if len(p) == 0 {
		return 0, nil
	}
	if y.pos >= len(y.b) {
		return 0, io.EOF
	}
	n := copy(p, y.b[y.pos:min(len(y.b), y.pos+3)])
	y.pos += n
	runtime.Gosched()
	return n, nil
}

func concurrentConversions(c *vm.Ctx, r *vm.Rand) {
	if len(poolT2B) < 8 || len(poolB2T) < 8 {
		return
	}
	const workers = 8
	per := c.Scale(4800, 96000) / workers
	if per < 100 {
		per = 100
	}
	type bad struct {
		sig, what string
		wit       map[string]any
	}
	var mu sync.Mutex
	var bads []bad
	report := func(sig, what string, wit map[string]any) {
		mu.Lock()
		if len(bads) < 20 {
			wit["goroutines"] = workers
			bads = append(bads, bad{sig, what, wit})
		}
		mu.Unlock()
	}
	var done [workers]int64
	var wg sync.WaitGroup
	for w := 0; w < workers; w++ {
		rr := r.Fork()
		wg.Add(1)
		go func(w int) {
			defer wg.Done()
			for i := 0; i < per; i++ {
				if i%2 == 0 {
					p := poolT2B[rr.Intn(len(poolT2B))]
					var out yieldWriter
					var err error
					var tt byte
					if pv, site := vm.Try(func() {
						m := nbt.StringifiedMessage(p.text)
						tt = m.TagType()
						enc := nbt.NewEncoder(&out)
						enc.NetworkFormat(true)
						err = enc.Encode(m, "")
					}); pv != nil {
						report("concurrent/t2b/panic/"+site, fmt.Sprintf("panic converting a text while %d other goroutines convert texts and documents of their own: %v", workers-1, pv), map[string]any{"text": short(p.text)})
						continue
					}
					if err != nil || !bytes.Equal(out.buf.Bytes(), p.doc) || len(p.doc) == 0 || tt != p.doc[0] {
						report("concurrent/t2b/differs-from-conversion-alone", fmt.Sprintf("a text converted while %d other goroutines convert inputs of their own: error %v, TagType %d, document %s; alone it gave %s", workers-1, err, tt, short(vm.Hex(out.buf.Bytes())), short(vm.Hex(p.doc))), map[string]any{"text": short(p.text)})
						continue
					}
				} else {
					p := poolB2T[rr.Intn(len(poolB2T))]
					var sm nbt.StringifiedMessage
					var rm nbt.RawMessage
					var rs string
					var err, err2 error
					if pv, site := vm.Try(func() {
						dec := nbt.NewDecoder(&yieldReader{b: p.doc})
						dec.NetworkFormat(p.network)
						_, err = dec.Decode(&sm)
						dec2 := nbt.NewDecoder(bytes.NewReader(p.doc))
						dec2.NetworkFormat(p.network)
						if _, err2 = dec2.Decode(&rm); err2 == nil {
							rs = rm.String()
						}
					}); pv != nil {
						report("concurrent/b2t/panic/"+site, fmt.Sprintf("panic converting a document while %d other goroutines convert texts and documents of their own: %v", workers-1, pv), map[string]any{"doc_hex": vm.Hex(p.doc), "network": p.network})
						continue
					}
					if err != nil || err2 != nil || string(sm) != p.text || rs != p.text {
						report("concurrent/b2t/differs-from-conversion-alone", fmt.Sprintf("a document converted while %d other goroutines convert inputs of their own: StringifiedMessage %q (error %v), RawMessage.String %q (error %v); alone it gave %q", workers-1, short(string(sm)), err, short(rs), err2, short(p.text)), map[string]any{"doc_hex": vm.Hex(p.doc), "network": p.network})
						continue
					}
				}
				done[w]++
			}
		}(w)
	}
	wg.Wait()
	for _, b := range bads {
		c.Violation(b.sig, b.what, b.wit)
	}
	var n int64
	for _, d := range done {
		n += d
	}
	c.EvalN(n, vm.HashStr("concurrent", fmt.Sprint(c.Shard)), true)
	if len(bads) == 0 && n > 0 {
		c.CoverN("concurrent.conversions-agree-with-conversion-alone", n)
	}
}

func hasDuplicateKeys(v *refnbt.Value) bool {
	seen := map[string]bool{}
	for _, e := range v.Comp {
		if seen[e.Name] || hasDuplicateKeys(e.V) {
			return true
		}
		seen[e.Name] = true
	}
	for _, e := range v.List {
		if hasDuplicateKeys(e) {
			return true
		}
	}
	return false
}

// diffOrdered compares two trees member by member in document order (names included).
func diffOrdered(a, b *refnbt.Value, path string) string {
	if a.Tag != b.Tag {
		return fmt.Sprintf("%s: tag %s vs %s", path, refnbt.TagName(a.Tag), refnbt.TagName(b.Tag))
	}
	switch a.Tag {
	case refnbt.Compound:
		if len(a.Comp) != len(b.Comp) {
			return fmt.Sprintf("%s: compound size %d vs %d", path, len(a.Comp), len(b.Comp))
		}
		for i := range a.Comp {
			if a.Comp[i].Name != b.Comp[i].Name {
				return fmt.Sprintf("%s: member %d is named %q vs %q", path, i, a.Comp[i].Name, b.Comp[i].Name)
			}
			if d := diffOrdered(a.Comp[i].V, b.Comp[i].V, fmt.Sprintf("%s.%s#%d", path, a.Comp[i].Name, i)); d != "" {
				return d
			}
		}
		return ""
	case refnbt.List:
		if len(a.List) != len(b.List) {
			return fmt.Sprintf("%s: list len %d vs %d", path, len(a.List), len(b.List))
		}
		if len(a.List) > 0 && a.Elem != b.Elem {
			return fmt.Sprintf("%s: list element tag %s vs %s", path, refnbt.TagName(a.Elem), refnbt.TagName(b.Elem))
		}
		for i := range a.List {
			if d := diffOrdered(a.List[i], b.List[i], fmt.Sprintf("%s[%d]", path, i)); d != "" {
				return d
			}
		}
		return ""
	}
	return refnbt.Equal(a, b, treeOpts)
}
