package main

import (
	"bytes"
	"fmt"
	"io"
	"strings"

	"github.com/Tnze/go-mc/nbt"

	"verif/inject"
	"verif/ref/refnbt"
	"verif/vm"
)

// ---------------------------------------------------------------------------------------------------
// A text inside an enclosing document. At the root the encoder writes the tag id it gets from TagType() and then
// calls MarshalNBT; "the announced type matches the document" holds there by construction. As a struct member, a
// list element or a map value the header (member tag id, list element type) is written by the enclosing encoder
// from TagType() and the payload by the text parser running without a header of its own: a disagreement between
// the two gives a document that is malformed or holds another value.

type wrapMember struct {
	A int32                  `nbt:"a"`
	C nbt.StringifiedMessage `nbt:"c"`
	Z string                 `nbt:"z"`
}

// nestedForms lists the positions.
var nestedForms = []string{"member", "list-element", "map-value", "root-file-format"}

// nestedOne encodes text in the given position and compares the document with the one expected for value want
// (the value of the text alone, as the independent readers see it). mustAccept: the text is known to be accepted
// on its own and lies in the agreement grammar, so a refusal here is a violation as well.
func nestedOne(c *vm.Ctx, sub, form, text string, want *refnbt.Value, mustAccept bool, wit func() any) {
	m := nbt.StringifiedMessage(text)
	var v any
	var expect *refnbt.Value
	network, name := true, ""
	switch form {
	case "member":
		v = wrapMember{A: 7, C: m, Z: "after"}
		expect = &refnbt.Value{Tag: refnbt.Compound, Comp: []refnbt.Entry{{Name: "a", V: refnbt.In(7)}, {Name: "c", V: want}, {Name: "z", V: refnbt.St("after")}}}
	case "list-element":
		v = []nbt.StringifiedMessage{m, m}
		expect = &refnbt.Value{Tag: refnbt.List, Elem: want.Tag, List: []*refnbt.Value{want, want}}
	case "map-value":
		v = map[string]nbt.StringifiedMessage{"k": m}
		expect = &refnbt.Value{Tag: refnbt.Compound, Comp: []refnbt.Entry{{Name: "k", V: want}}}
	default: // at the root, but in the file format under a name
		v, expect, network, name = m, want, false, "root name"
	}
	w := func() any {
		mm, _ := wit().(map[string]any)
		out := map[string]any{"position": form}
		for k, x := range mm {
			out[k] = x
		}
		return out
	}
	var doc []byte
	var err error
	if c.Guard(sub+"/nested/"+form, w, func() {
		var buf bytes.Buffer
		enc := nbt.NewEncoder(&buf)
		enc.NetworkFormat(network)
		err = enc.Encode(v, name)
		doc = buf.Bytes()
	}) {
		return
	}
	c.Eval(vm.HashStr("nested", form, text), len(text) > 6)
	if err != nil {
		if mustAccept {
			c.Violation(sub+"/nested/"+form+"/rejected/"+vm.NormErr(err.Error()), "a text of the agreement grammar that is accepted on its own is refused as "+form+": "+err.Error(), w())
		} else {
			c.Cover("nested." + form + ".refused")
		}
		return
	}
	got, gotName, used, perr := refnbt.Parse(doc, network)
	if perr != nil || used != len(doc) {
		c.Violation(sub+"/nested/"+form+"/document-malformed/"+perrClass(perr), fmt.Sprintf("nil error, but with the text as %s the document is not well-formed: %v (used %d of %d): %s", form, perr, used, len(doc), vm.Hex(doc)), w())
		return
	}
	if gotName != name {
		c.Violation(sub+"/nested/"+form+"/root-name", fmt.Sprintf("root name %q, want %q", gotName, name), w())
		return
	}
	if d := refnbt.Equal(got, expect, refnbt.Opts{EmptyListElemFree: true}); d != "" {
		c.Violation(sub+"/nested/"+form+"/value-disagrees/"+diffClass(d), "with the text as "+form+" the document does not hold the value of the text: "+d, w())
		return
	}
	c.Cover("nested." + form + ".agree")
}

// ---------------------------------------------------------------------------------------------------
// Deep nesting. The text scanner allows 10000 levels, the binary reader 512; the emitters recurse once per level.
// What is asked: no panic, no process death, and whatever is accepted is the document the text denotes (a document
// deeper than 512 levels that comes out of a text is not held against the parser: the binary limit is the
// reader's). The expected documents are written down byte by byte here - no recursive reader is involved.

func deepText(form string, d int) string {
	switch form {
	case "lists-empty":
		return strings.Repeat("[", d) + strings.Repeat("]", d)
	case "lists-int":
		return strings.Repeat("[", d) + "1" + strings.Repeat("]", d)
	case "lists-spaced":
		return strings.Repeat("[ ", d) + "1b" + strings.Repeat(" ]", d)
	default: // compounds
		return strings.Repeat("{a:", d-1) + "{}" + strings.Repeat("}", d-1)
	}
}

// deepDoc is the network-format document of deepText(form, d); wild is the offset of the one byte that is not
// pinned down (the element type of an empty list), or -1.
func deepDoc(form string, d int) (doc []byte, wild int) {
	wild = -1
	switch form {
	case "lists-empty", "lists-int", "lists-spaced":
		doc = append(doc, refnbt.List)
		for i := 0; i < d-1; i++ {
			doc = append(doc, refnbt.List, 0, 0, 0, 1)
		}
		switch form {
		case "lists-empty":
			wild = len(doc)
			doc = append(doc, refnbt.End, 0, 0, 0, 0)
		case "lists-int":
			doc = append(doc, refnbt.Int, 0, 0, 0, 1, 0, 0, 0, 1)
		default:
			doc = append(doc, refnbt.Byte, 0, 0, 0, 1, 1)
		}
	default:
		doc = append(doc, refnbt.Compound)
		for i := 0; i < d-1; i++ {
			doc = append(doc, refnbt.Compound, 0, 1, 'a')
		}
		doc = append(doc, make([]byte, d)...)
	}
	return
}

func sameDoc(got, want []byte, wild int) bool {
	if len(got) != len(want) {
		return false
	}
	for i := range got {
		if got[i] != want[i] && !(i == wild && got[i] <= refnbt.LongArray) {
			return false
		}
	}
	return true
}

func firstDiff(a, b []byte) int {
	for i := 0; i < len(a) && i < len(b); i++ {
		if a[i] != b[i] {
			return i
		}
	}
	return min(len(a), len(b))
}

// deepMember: the deep text as a struct member (the parser then runs inside an enclosing document).
func deepMember(c *vm.Ctx, text string, alone []byte, wild int, form string, d int, wit func() any) {
	want := []byte{refnbt.Compound, refnbt.Int, 0, 1, 'a', 0, 0, 0, 7, alone[0], 0, 1, 'c'}
	if wild >= 0 {
		wild += len(want) - 1
	}
	want = append(want, alone[1:]...)
	want = append(want, refnbt.String, 0, 1, 'z', 0, 5, 'a', 'f', 't', 'e', 'r', 0)
	var doc []byte
	var err error
	if c.Guard("deep/nested/member", wit, func() {
		var buf bytes.Buffer
		enc := nbt.NewEncoder(&buf)
		enc.NetworkFormat(true)
		err = enc.Encode(wrapMember{A: 7, C: nbt.StringifiedMessage(text), Z: "after"}, "")
		doc = buf.Bytes()
	}) {
		return
	}
	switch {
	case err != nil:
		c.Violation("deep/nested/member/rejected/"+form, fmt.Sprintf("a text of %d nested levels that is accepted on its own is refused as a struct member: %v", d, err), wit())
	case !sameDoc(doc, want, wild):
		c.Violation("deep/nested/member/document-differs/"+form, fmt.Sprintf("a text of %d nested levels as a struct member: nil error, but the document (%d bytes) is not the expected one (%d bytes), first difference at offset %d", d, len(doc), len(want), firstDiff(doc, want)), wit())
	default:
		c.Cover("deep.nested.member.agree")
	}
}

func deepNesting(c *vm.Ctx) {
	forms := []string{"lists-empty", "lists-int", "lists-spaced", "compounds"}
	for _, d := range []int{100, 400, 500, 511, 512, 513, 600, 2000, 10000, 10001, 10002} {
		for _, form := range forms {
			text := deepText(form, d)
			want, wild := deepDoc(form, d)
			wantTag := want[0]
			wit := func() any {
				return map[string]any{"form": form, "nested_levels": d, "text_head": text[:min(len(text), 24)], "text_bytes": len(text)}
			}
			c.Inflight(fmt.Sprintf("deep text %s depth %d", form, d))
			if d <= 500 {
				// self-check of the expected bytes against the reference reader, which takes 512 levels
				if _, _, used, perr := refnbt.Parse(want, true); perr != nil || used != len(want) {
					panic(fmt.Sprintf("oracle self-check failed: expected document for %s depth %d: %v", form, d, perr))
				}
			}
			c.Eval(vm.HashStr("deep-text", form, fmt.Sprint(d)), true)
			doc, tt, err, pan := toBinary(c, "deep/t2b", text, wit)
			if pan {
				continue
			}
			if err != nil {
				if d <= 400 {
					// inside what every reader takes (the independent reader calls texts beyond 400 levels lenient)
					c.Violation("deep/t2b/rejected/"+form, fmt.Sprintf("a text of %d nested levels is refused: %v", d, err), wit())
				} else {
					c.Cover("deep.t2b.refused")
				}
				continue
			}
			if !sameDoc(doc, want, wild) {
				k := firstDiff(doc, want)
				c.Violation("deep/t2b/document-differs/"+form, fmt.Sprintf("nil error for a text of %d nested levels, but the document (%d bytes) is not the one the text denotes (%d bytes); first difference at offset %d: ...%s vs ...%s", d, len(doc), len(want), k, vm.Hex(doc[min(k, len(doc)):min(k+12, len(doc))]), vm.Hex(want[min(k, len(want)):min(k+12, len(want))])), wit())
				continue
			}
			if tt != wantTag {
				c.Violation("deep/t2b/tagtype-announced/"+form, fmt.Sprintf("TagType() announced %s for a %s", refnbt.TagName(tt), refnbt.TagName(wantTag)), wit())
				continue
			}
			if d > 512 {
				c.Cover("deep.t2b.accepted-beyond-binary-limit")
			} else {
				c.Cover("deep.t2b.accepted")
			}
			if d <= 600 && form != "lists-spaced" {
				deepMember(c, text, want, wild, form, d, wit)
			}
		}
	}
	// binary -> text -> binary near the binary reader's limit: up to 500 levels everything must work, above that
	// either stage may refuse (nesting deeper than 512 is the reader's to refuse), but what comes back is the document
	for _, d := range []int{100, 400, 500, 505, 511, 512, 513} {
		for _, form := range []string{"lists-int", "compounds", "lists-empty"} {
			doc, wild := deepDoc(form, d)
			wit := func() any { return map[string]any{"form": form, "nested_levels": d, "doc_bytes": len(doc)} }
			c.Inflight(fmt.Sprintf("deep doc %s depth %d", form, d))
			c.Eval(vm.HashStr("deep-doc", form, fmt.Sprint(d)), true)
			for _, via := range []string{"stringified", "rawstring"} {
				var text string
				var err error
				if c.Guard("deep/b2t/"+via, wit, func() {
					dec := nbt.NewDecoder(&inject.ChunkReader{B: doc, Plan: []int{1, 3}})
					dec.NetworkFormat(true)
					if via == "stringified" {
						var sm nbt.StringifiedMessage
						_, err = dec.Decode(&sm)
						text = string(sm)
					} else {
						var rm nbt.RawMessage
						if _, err = dec.Decode(&rm); err == nil {
							text = rm.String()
							if strings.HasPrefix(text, "<Invalid:") {
								err = fmt.Errorf("RawMessage.String: %s", text[:min(len(text), 80)])
							}
						}
					}
				}) {
					continue
				}
				if err != nil {
					if d <= 500 {
						c.Violation("deep/b2t/"+via+"/error/"+form, fmt.Sprintf("a well-formed document of %d nested levels is not converted to text: %v", d, err), wit())
					} else {
						c.Cover("deep.b2t.refused")
					}
					continue
				}
				back, _, err, pan := toBinary(c, "deep/b2t2b", text, wit)
				if pan {
					continue
				}
				if err != nil {
					if d <= 500 {
						c.Violation("deep/b2t2b/own-text-rejected/"+form, fmt.Sprintf("the text written for a document of %d nested levels is refused by the parser: %v", d, err), wit())
					} else {
						c.Cover("deep.b2t.refused")
					}
					continue
				}
				if !sameDoc(back, doc, wild) {
					c.Violation("deep/b2t2b/value-changed/"+form, fmt.Sprintf("binary -> text -> binary of %d nested levels: %d bytes became %d bytes, first difference at offset %d", d, len(doc), len(back), firstDiff(back, doc)), wit())
					continue
				}
				if d <= 500 {
					c.Cover("deep.b2t2b.roundtrip")
				} else {
					c.Cover("deep.b2t2b.roundtrip-above-500")
				}
			}
		}
	}
}

// ---------------------------------------------------------------------------------------------------
// Two documents one after the other in one stream, converted by one Decoder from a source that is not a
// bytes.Reader: the converter reads its input byte by byte through the decoder's reader, and a conversion that
// takes one byte too many or too few shows in the second text.

var prevTree *refnbt.Value
var prevText string

func streamOfTwo(c *vm.Ctx, i int, doc []byte, text string, network bool, name string, tree *refnbt.Value, wit func() any) {
	defer func() { prevTree, prevText = tree, text }()
	if prevTree == nil {
		return
	}
	second := refnbt.Encode(prevTree, name, network)
	stream := append(append(append([]byte{}, doc...), second...), 0xde, 0xad, 0xbe)
	var src io.Reader
	var consumed func() int
	kind := ""
	switch i % 4 {
	case 0:
		br := bytes.NewReader(stream)
		src, consumed, kind = br, func() int { return len(stream) - br.Len() }, "bytes-reader"
	case 1:
		pr := &inject.PlainReader{R: bytes.NewReader(stream)}
		src, consumed, kind = pr, func() int { return int(pr.N) }, "plain-reader"
	case 2:
		cr := &inject.ChunkReader{B: stream, Plan: []int{1, 3}}
		src, consumed, kind = cr, func() int { return cr.Pos }, "short-reads"
	default:
		cr := &inject.ChunkByteReader{ChunkReader: inject.ChunkReader{B: stream, Plan: []int{2, 1, 5}}}
		src, consumed, kind = cr, func() int { return cr.Pos }, "short-reads-bytereader"
	}
	w := func() any {
		m := wit().(map[string]any)
		m["source"] = kind
		m["followed_by_doc_hex"] = vm.Hex(second)
		return m
	}
	var t1, t2 nbt.StringifiedMessage
	var err1, err2 error
	if c.Guard("b2t/stream", w, func() {
		dec := nbt.NewDecoder(src)
		dec.NetworkFormat(network)
		_, err1 = dec.Decode(&t1)
		if err1 == nil {
			_, err2 = dec.Decode(&t2)
		}
	}) {
		return
	}
	switch {
	case err1 != nil || string(t1) != text:
		c.Violation("b2t/stream/first-document/"+kind, fmt.Sprintf("the document converted alone gives %q; as the first of two in a stream (source: %s): %q, error %v", short(text), kind, short(string(t1)), err1), w())
	case err2 != nil || string(t2) != prevText:
		c.Violation("b2t/stream/second-document/"+kind, fmt.Sprintf("the second document of the stream converted alone gives %q; after the first (source: %s, %d of %d+%d bytes consumed): %q, error %v", short(prevText), kind, consumed(), len(doc), len(second), short(string(t2)), err2), w())
	default:
		c.Cover("b2t.stream." + kind)
	}
}
