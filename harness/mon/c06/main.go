// Monitor C06: packet field codecs against the reference wire layout.
package main

import (
	"bytes"
	"encoding/binary"
	"fmt"
	"io"
	"math"
	"strings"

	"github.com/Tnze/go-mc/data/packetid"
	pk "github.com/Tnze/go-mc/net/packet"

	"verif/inject"
	"verif/ref/refwire"
	"verif/vm"
)

func main() { vm.Main("C06", run) }

// node is one generated field: the encoder holding the value, the reference
// wire bytes, and a factory for a decoder with some prior content plus a check
// that it ended up holding the value.
type node struct {
	kind string
	enc  pk.FieldEncoder
	ref  []byte
	dst  func(r *vm.Rand) (pk.FieldDecoder, func() string)
	tail bool // consumes the rest of the stream (PluginMessageData)
}

func be16(v uint16) []byte { b := make([]byte, 2); binary.BigEndian.PutUint16(b, v); return b }
func be32(v uint32) []byte { b := make([]byte, 4); binary.BigEndian.PutUint32(b, v); return b }
func be64(v uint64) []byte { b := make([]byte, 8); binary.BigEndian.PutUint64(b, v); return b }

func simple[T comparable, PT interface {
	*T
	pk.FieldDecoder
}](kind string, v T, enc pk.FieldEncoder, ref []byte, junk func(r *vm.Rand) T) node {
	return node{kind: kind, enc: enc, ref: ref, dst: func(r *vm.Rand) (pk.FieldDecoder, func() string) {
		d := new(T)
		*d = junk(r)
		return PT(d), func() string {
			if *d != v {
				return fmt.Sprintf("%s: got %v want %v", kind, *d, v)
			}
			return ""
		}
	}}
}

// priorSlice returns a destination slice in one of the prior states: nil, shorter, longer, same length other content, spare capacity.
func priorBytes(r *vm.Rand, n int) ([]byte, string) {
	if n > 60 && r.Intn(4) == 0 {
		// a destination used before for something small: its length and capacity have nothing to do with n
		b := make([]byte, r.Range(1, 40), r.Range(40, 50))
		for i := range b {
			b[i] = 0x99
		}
		return b, "small-unrelated"
	}
	switch r.Intn(6) {
	case 0:
		return nil, "nil"
	case 1:
		return bytes.Repeat([]byte{0x99}, max(0, n-1-r.Intn(3))), "shorter"
	case 2:
		return bytes.Repeat([]byte{0x99}, n+1+r.Intn(5)), "longer"
	case 3:
		return bytes.Repeat([]byte{0x99}, n), "samelen"
	case 4:
		b := make([]byte, r.Intn(n+1), n+r.Intn(8)+1)
		for i := range b {
			b[i] = 0x99
		}
		return b, "spare-capacity"
	default:
		b := make([]byte, 0, n+r.Intn(8))
		return b, "len0-with-capacity"
	}
}

var coverPrior func(string)

// coverMisc records an observation class under its own name (set by run).
var coverMisc = func(string) {}

// writeOnlyField / readOnlyField make a pk.Field out of one half: Opt's func() Field form must call the half that
// belongs to the direction, the other half panics (and the panic is reported with the case as witness).
type writeOnlyField struct{ pk.FieldEncoder }

func (writeOnlyField) ReadFrom(io.Reader) (int64, error) {
	panic("monitor: ReadFrom called on the field of an Opt that is being written")
}

type readOnlyField struct{ pk.FieldDecoder }

func (readOnlyField) WriteTo(io.Writer) (int64, error) {
	panic("monitor: WriteTo called on the field of an Opt that is being read")
}

func genPosition(r *vm.Rand) pk.Position {
	pick := func(bits uint) int {
		lo, hi := -(1 << (bits - 1)), (1<<(bits-1))-1
		switch r.Intn(6) {
		case 0:
			return lo
		case 1:
			return hi
		case 2:
			return lo + 1 + r.Intn(2)
		case 3:
			return hi - 1 - r.Intn(2)
		case 4:
			return r.Intn(5) - 2
		}
		return lo + r.Intn(hi-lo+1)
	}
	return pk.Position{X: pick(26), Y: pick(12), Z: pick(26)}
}

func refPosition(p pk.Position) []byte {
	v := (uint64(p.X)&0x3FFFFFF)<<38 | (uint64(p.Z)&0x3FFFFFF)<<12 | uint64(p.Y)&0xFFF
	return be64(v)
}

func genString(r *vm.Rand) string {
	switch r.Intn(8) {
	case 0:
		return ""
	case 1:
		return string(r.Bytes(r.Range(1, 20)))
	case 2:
		n := []int{127, 128, 300, 16383, 16384}[r.Intn(5)]
		return string(bytes.Repeat([]byte{'x'}, n))
	case 3:
		return "minecraft:stone"
	}
	b := make([]byte, r.Range(1, 12))
	for i := range b {
		b[i] = 'a' + byte(r.Intn(26))
	}
	return string(b)
}

// bigSizes are lengths around the places where a reader that grows its buffer as the bytes arrive (64 KiB, then
// doubling) changes step: just below, exactly on and just above each boundary, up to the largest field a 2 MiB packet
// can carry.
var bigSizes = []int{65535, 65536, 65537, 70000, 100000, 131072, 131073, 200000, 262144, 262145, 524289, 1<<21 - 10}

func coverBigSize(kind string, n int) {
	switch {
	case n == 131072 || n == 262144:
		coverPrior(kind + ".size-exactly-on-growth-step")
	case n > 262144:
		coverPrior(kind + ".size-above-256KiB")
	}
}

// NBT payload used for NBT fields.
type nbtPayload struct {
	A int32   `nbt:"a"`
	B string  `nbt:"b"`
	C []int64 `nbt:"c"`
	D struct {
		E int8    `nbt:"e"`
		F float32 `nbt:"f"`
	} `nbt:"d"`
}

func leaf(r *vm.Rand) node {
	switch r.Intn(22) {
	case 0:
		v := pk.Boolean(r.Bool())
		b := byte(0)
		if v {
			b = 1
		}
		return simple[pk.Boolean]("Boolean", v, v, []byte{b}, func(r *vm.Rand) pk.Boolean { return pk.Boolean(r.Bool()) })
	case 1:
		v := pk.Byte(r.Int64B())
		return simple[pk.Byte]("Byte", v, v, []byte{byte(v)}, func(r *vm.Rand) pk.Byte { return 0x55 })
	case 2:
		v := pk.UnsignedByte(r.Int64B())
		return simple[pk.UnsignedByte]("UnsignedByte", v, v, []byte{byte(v)}, func(r *vm.Rand) pk.UnsignedByte { return 0x55 })
	case 3:
		v := pk.Short(r.Int64B())
		return simple[pk.Short]("Short", v, v, be16(uint16(v)), func(r *vm.Rand) pk.Short { return 0x5555 })
	case 4:
		v := pk.UnsignedShort(r.Int64B())
		return simple[pk.UnsignedShort]("UnsignedShort", v, v, be16(uint16(v)), func(r *vm.Rand) pk.UnsignedShort { return 0x5555 })
	case 5:
		v := pk.Int(r.Int64B())
		return simple[pk.Int]("Int", v, v, be32(uint32(v)), func(r *vm.Rand) pk.Int { return 0x55555555 })
	case 6:
		v := pk.Long(r.Int64B())
		return simple[pk.Long]("Long", v, v, be64(uint64(v)), func(r *vm.Rand) pk.Long { return 0x5555555555555555 })
	case 7:
		bits := r.Float32Bits()
		v := pk.Float(math.Float32frombits(bits))
		return node{kind: "Float", enc: v, ref: be32(bits), dst: func(r *vm.Rand) (pk.FieldDecoder, func() string) {
			d := new(pk.Float)
			*d = 1.5
			return d, func() string {
				got := math.Float32bits(float32(*d))
				if got != bits { // bit for bit: a NaN has a payload, and a reader has no reason to change it
					return fmt.Sprintf("Float bits %08x want %08x", got, bits)
				}
				return ""
			}
		}}
	case 8:
		bits := r.Float64Bits()
		v := pk.Double(math.Float64frombits(bits))
		return node{kind: "Double", enc: v, ref: be64(bits), dst: func(r *vm.Rand) (pk.FieldDecoder, func() string) {
			d := new(pk.Double)
			*d = 1.5
			return d, func() string {
				if got := math.Float64bits(float64(*d)); got != bits {
					return fmt.Sprintf("Double bits %016x want %016x", got, bits)
				}
				return ""
			}
		}}
	case 9:
		s := genString(r)
		if r.Intn(400) == 0 {
			s = strings.Repeat("s", bigSizes[r.Intn(len(bigSizes))])
			coverPrior("String.above-64KiB")
			coverBigSize("String", len(s))
		}
		return stringNode(r, s)
	case 10:
		v := pk.VarInt(r.Int64B())
		return simple[pk.VarInt]("VarInt", v, v, refwire.EncVarInt(int32(v)), func(r *vm.Rand) pk.VarInt { return 0x5555 })
	case 11:
		v := pk.VarLong(r.Int64B())
		return simple[pk.VarLong]("VarLong", v, v, refwire.EncVarLong(int64(v)), func(r *vm.Rand) pk.VarLong { return 0x5555 })
	case 12:
		v := genPosition(r)
		return simple[pk.Position]("Position", v, v, refPosition(v), func(r *vm.Rand) pk.Position { return pk.Position{X: 1, Y: 2, Z: 3} })
	case 13:
		v := pk.Angle(r.Int64B())
		return simple[pk.Angle]("Angle", v, v, []byte{byte(v)}, func(r *vm.Rand) pk.Angle { return 0x55 })
	case 14:
		var v pk.UUID
		r.Fill(v[:])
		return simple[pk.UUID]("UUID", v, v, append([]byte{}, v[:]...), func(r *vm.Rand) pk.UUID { return pk.UUID{1, 2, 3} })
	case 15:
		n := []int{0, 1, 2, 5, 127, 128, 300}[r.Intn(7)]
		if r.Intn(400) == 0 {
			// around the sizes at which a reader that grows its buffer step by step changes step
			n = bigSizes[r.Intn(len(bigSizes))]
			coverPrior("ByteArray.above-64KiB")
			coverBigSize("ByteArray", n)
		}
		return byteArrayNode(r, n)
	case 16:
		n := []int{0, 1, 2, 3, 10}[r.Intn(5)]
		vals := make([]int64, n)
		ref := refwire.EncVarInt(int32(n))
		for i := range vals {
			vals[i] = r.Int64B()
			ref = append(ref, be64(uint64(vals[i]))...)
		}
		return node{kind: "BitSet", enc: pk.BitSet(vals), ref: ref, dst: func(r *vm.Rand) (pk.FieldDecoder, func() string) {
			var prior []int64
			st := "nil"
			switch r.Intn(4) {
			case 1:
				prior, st = make([]int64, n+3), "longer"
			case 2:
				prior, st = make([]int64, max(0, n-1)), "shorter"
			case 3:
				prior, st = make([]int64, 0, n+4), "len0-with-capacity"
			}
			for i := range prior {
				prior[i] = 0x99
			}
			coverPrior("BitSet." + st)
			d := pk.BitSet(prior)
			return &d, func() string {
				if len(d) != n {
					return fmt.Sprintf("BitSet (prior %s): len %d want %d", st, len(d), n)
				}
				for i := range vals {
					if d[i] != vals[i] {
						return fmt.Sprintf("BitSet[%d] (prior %s): %d want %d", i, st, d[i], vals[i])
					}
				}
				return ""
			}
		}}
	case 17:
		nbits := int64(r.Range(0, 70))
		v := pk.NewFixedBitSet(nbits)
		r.Fill(v)
		return node{kind: "FixedBitSet", enc: v, ref: append([]byte{}, v...), dst: func(r *vm.Rand) (pk.FieldDecoder, func() string) {
			d := pk.NewFixedBitSet(nbits)
			for i := range d {
				d[i] = 0x99
			}
			return d, func() string {
				if !bytes.Equal(d, v) {
					return fmt.Sprintf("FixedBitSet: %x want %x", []byte(d), []byte(v))
				}
				return ""
			}
		}}
	case 18, 19:
		// NBT field
		if r.Intn(5) == 0 {
			return chatNode(r)
		}
		return nbtNode(r)
	case 20:
		// nil NBT -> single TAG_End
		return nbtNilNode(r)
	default:
		data := r.Bytes(r.Range(0, 30))
		if r.Intn(8) == 0 {
			// around the first buffer of a reader that reads "until the end" (512 bytes) and well beyond it
			data = r.Bytes([]int{0, 511, 512, 513, 4096, 70000}[r.Intn(6)])
			if len(data) >= 512 {
				coverPrior("PluginMessageData.512-bytes-or-more")
			}
		}
		return node{kind: "PluginMessageData", tail: true, enc: pk.PluginMessageData(data), ref: data, dst: func(r *vm.Rand) (pk.FieldDecoder, func() string) {
			prior, st := priorBytes(r, len(data))
			coverPrior("PluginMessageData." + st)
			d := pk.PluginMessageData(prior)
			return &d, func() string {
				if !bytes.Equal(d, data) {
					return fmt.Sprintf("PluginMessageData (prior %s): %x want %x", st, trunc([]byte(d)), trunc(data))
				}
				return ""
			}
		}}
	}
}

func stringNode(r *vm.Rand, s string) node {
	v := pk.String(s)
	kind := "String"
	if r.Bool() {
		kind = "Identifier"
	}
	ref := append(refwire.EncVarInt(int32(len(s))), s...)
	return simple[pk.String](kind, v, pk.Identifier(v), ref, func(r *vm.Rand) pk.String { return "previous content" })
}

func byteArrayNode(r *vm.Rand, n int) node {
	data := r.Bytes(n)
	v := pk.ByteArray(data)
	ref := append(refwire.EncVarInt(int32(n)), data...)
	return node{kind: "ByteArray", enc: v, ref: ref, dst: func(r *vm.Rand) (pk.FieldDecoder, func() string) {
		prior, st := priorBytes(r, n)
		coverPrior("ByteArray." + st)
		if n > 65536 && st == "small-unrelated" {
			coverPrior("ByteArray.above-64KiB-into-small-destination")
		}
		d := pk.ByteArray(prior)
		return &d, func() string {
			if !bytes.Equal(d, data) {
				return fmt.Sprintf("ByteArray (prior %s): got len %d %x want len %d %x", st, len(d), trunc([]byte(d)), n, trunc(data))
			}
			return ""
		}
	}}
}

func trunc(b []byte) []byte {
	if len(b) > 24 {
		return b[:24]
	}
	return b
}

type lenType interface {
	pk.VarInt | pk.VarLong | pk.Byte | pk.UnsignedByte | pk.Short | pk.UnsignedShort | pk.Int | pk.Long
}

var lenNames = []string{"VarInt", "VarLong", "Byte", "UnsignedByte", "Short", "UnsignedShort", "Int", "Long"}

func encLen(which int, n int) ([]byte, bool) {
	switch which {
	case 0:
		return refwire.EncVarInt(int32(n)), true
	case 1:
		return refwire.EncVarLong(int64(n)), true
	case 2:
		return []byte{byte(n)}, n <= 127
	case 3:
		return []byte{byte(n)}, n <= 255
	case 4:
		return be16(uint16(n)), n <= 32767
	case 5:
		return be16(uint16(n)), n <= 65535
	case 6:
		return be32(uint32(n)), true
	default:
		return be64(uint64(n)), true
	}
}

// mkAry builds an Ary[LEN] node over elements of type T.
func mkAry[LEN lenType, T any, PT interface {
	*T
	pk.FieldDecoder
}](which int, elemKind string, vals []T, refs [][]byte, eq func(a, b T) bool, junk func() T) (node, bool) {
	lb, ok := encLen(which, len(vals))
	if !ok {
		return node{}, false
	}
	ref := lb
	for _, e := range refs {
		ref = append(ref, e...)
	}
	kind := "Ary[" + lenNames[which] + "]of" + elemKind
	enc := pk.Ary[LEN]{Ary: vals}
	byPtr := len(vals)%2 == 0
	if byPtr {
		enc = pk.Ary[LEN]{Ary: &vals}
	}
	n := len(vals)
	return node{kind: kind, enc: enc, ref: ref, dst: func(r *vm.Rand) (pk.FieldDecoder, func() string) {
		var prior []T
		st := "nil"
		switch r.Intn(6) {
		case 1:
			prior, st = make([]T, n+1+r.Intn(4)), "longer"
		case 2:
			prior, st = make([]T, max(0, n-1)), "shorter"
		case 3:
			prior, st = make([]T, n), "samelen"
		case 4:
			prior, st = make([]T, 0, n+2+r.Intn(4)), "len0-with-capacity"
		case 5:
			prior, st = make([]T, r.Intn(n+1), n+1+r.Intn(4)), "spare-capacity"
		}
		// also the elements between len and cap hold something: Ary.ReadFrom re-uses "the element (and its buffers)
		// already there" when it grows into spare capacity
		full := prior[:cap(prior)]
		for i := range full {
			full[i] = junk() // a fresh value per element: slices must not share backing arrays
		}
		coverPrior("Ary." + st)
		if cap(prior) > len(prior) && n > len(prior) {
			coverPrior("Ary.stale-elements-in-spare-capacity")
		}
		d := prior
		return pk.Ary[LEN]{Ary: &d}, func() string {
			if len(d) != n {
				return fmt.Sprintf("%s (prior %s): destination has len %d after reading %d elements", kind, st, len(d), n)
			}
			for i := range vals {
				if !eq(d[i], vals[i]) {
					return fmt.Sprintf("%s[%d] (prior %s): got %v want %v", kind, i, st, d[i], vals[i])
				}
			}
			return ""
		}
	}}, true
}

func aryOf[T any, PT interface {
	*T
	pk.FieldDecoder
}](r *vm.Rand, elemKind string, gen func() (T, []byte), eq func(a, b T) bool, junk func() T) (node, bool) {
	n := []int{0, 1, 2, 3, 7, 20, 127, 128, 255, 256}[r.Intn(10)]
	if r.Intn(3) != 0 {
		n = r.Range(0, 6)
	}
	which := r.Intn(8)
	if compositeElems[elemKind] {
		// elements that are fields of several parts each: few of them (the counts near the prefix types' limits are
		// covered with the leaf element types)
		if n > 20 {
			n = r.Range(7, 20)
		}
	} else if r.Intn(400) == 0 && which != 2 && which != 3 {
		// counts around the sign bit and the maximum of the 16-bit prefixes
		n = []int{32767, 32768, 40000, 65535}[r.Intn(4)]
		if which == 4 {
			n = 32767
		}
		coverPrior("Ary.count>=32767")
	}
	vals := make([]T, n)
	refs := make([][]byte, n)
	for i := range vals {
		vals[i], refs[i] = gen()
	}
	switch which {
	case 0:
		return mkAry[pk.VarInt, T, PT](which, elemKind, vals, refs, eq, junk)
	case 1:
		return mkAry[pk.VarLong, T, PT](which, elemKind, vals, refs, eq, junk)
	case 2:
		return mkAry[pk.Byte, T, PT](which, elemKind, vals, refs, eq, junk)
	case 3:
		return mkAry[pk.UnsignedByte, T, PT](which, elemKind, vals, refs, eq, junk)
	case 4:
		return mkAry[pk.Short, T, PT](which, elemKind, vals, refs, eq, junk)
	case 5:
		return mkAry[pk.UnsignedShort, T, PT](which, elemKind, vals, refs, eq, junk)
	case 6:
		return mkAry[pk.Int, T, PT](which, elemKind, vals, refs, eq, junk)
	default:
		return mkAry[pk.Long, T, PT](which, elemKind, vals, refs, eq, junk)
	}
}

var compositeElems = map[string]bool{"Record": true, "Option[String]": true}

func aryNode(r *vm.Rand) (node, bool) {
	switch r.Intn(8) {
	case 6:
		return aryOf[optStr](r, "Option[String]", func() (optStr, []byte) { return genOptStr(r) }, eqOptStr, func() optStr { return optStr{Has: pk.Boolean(r.Bool()), Val: "junk"} })
	case 7:
		return aryOf[record](r, "Record", func() (record, []byte) { return genRecord(r) }, eqRecord, func() record { return junkRecord(r) })
	case 0:
		return aryOf[pk.VarInt](r, "VarInt", func() (pk.VarInt, []byte) { v := pk.VarInt(r.Int64B()); return v, refwire.EncVarInt(int32(v)) }, func(a, b pk.VarInt) bool { return a == b }, func() pk.VarInt { return 0x99 })
	case 1:
		return aryOf[pk.Long](r, "Long", func() (pk.Long, []byte) { v := pk.Long(r.Int64B()); return v, be64(uint64(v)) }, func(a, b pk.Long) bool { return a == b }, func() pk.Long { return 0x99 })
	case 2:
		return aryOf[pk.String](r, "String", func() (pk.String, []byte) {
			s := genString(r)
			if len(s) > 64 {
				s = s[:64]
			}
			return pk.String(s), append(refwire.EncVarInt(int32(len(s))), s...)
		}, func(a, b pk.String) bool { return a == b }, func() pk.String { return "junk" })
	case 3:
		return aryOf[pk.UUID](r, "UUID", func() (pk.UUID, []byte) { var u pk.UUID; r.Fill(u[:]); return u, append([]byte{}, u[:]...) }, func(a, b pk.UUID) bool { return a == b }, func() pk.UUID { return pk.UUID{9} })
	case 4:
		return aryOf[pk.Position](r, "Position", func() (pk.Position, []byte) { p := genPosition(r); return p, refPosition(p) }, func(a, b pk.Position) bool { return a == b }, func() pk.Position { return pk.Position{X: 9} })
	default:
		return aryOf[pk.ByteArray](r, "ByteArray", func() (pk.ByteArray, []byte) {
			d := r.Bytes(r.Range(0, 10))
			return pk.ByteArray(d), append(refwire.EncVarInt(int32(len(d))), d...)
		}, func(a, b pk.ByteArray) bool { return bytes.Equal(a, b) }, func() pk.ByteArray {
			// a buffer from an earlier use: shorter or longer than what arrives, with or without room to spare
			v := r.Uint64()
			b := make([]byte, int(v%13), 12)
			if v&(1<<20) != 0 {
				b = b[:len(b):len(b)]
			}
			copy(b, "\t\t\t\t\t\t\t\t\t\t\t\t")
			return b
		})
	}
}

// optionNode: Option[T,P], OptionEncoder[T] + OptionDecoder[T,P].
func optionNode(r *vm.Rand) node {
	has := r.Bool()
	switch r.Intn(3) {
	case 0:
		v := pk.VarInt(r.Int64B())
		ref := []byte{0}
		if has {
			ref = append([]byte{1}, refwire.EncVarInt(int32(v))...)
		}
		var enc pk.FieldEncoder = pk.Option[pk.VarInt, *pk.VarInt]{Has: pk.Boolean(has), Val: v}
		kind := "Option[VarInt]"
		if r.Bool() {
			enc = pk.OptionEncoder[pk.VarInt]{Has: pk.Boolean(has), Val: v}
			kind = "OptionEncoder[VarInt]"
		}
		useDec := r.Bool()
		return node{kind: kind, enc: enc, ref: ref, dst: func(r *vm.Rand) (pk.FieldDecoder, func() string) {
			if useDec {
				d := &pk.OptionDecoder[pk.VarInt, *pk.VarInt]{Has: pk.Boolean(!has), Val: 77}
				return d, func() string {
					if bool(d.Has) != has || (has && d.Val != v) {
						return fmt.Sprintf("OptionDecoder: has=%v val=%d want has=%v val=%d", d.Has, d.Val, has, v)
					}
					return ""
				}
			}
			d := &pk.Option[pk.VarInt, *pk.VarInt]{Has: pk.Boolean(!has), Val: 77}
			return d, func() string {
				if bool(d.Has) != has || (has && d.Val != v) {
					return fmt.Sprintf("Option: has=%v val=%d want has=%v val=%d", d.Has, d.Val, has, v)
				}
				if p := d.Pointer(); (p != nil) != has {
					return "Option.Pointer() disagrees with Has"
				}
				return ""
			}
		}}
	case 1:
		s := pk.String(genString(r))
		if len(s) > 100 {
			s = s[:100]
		}
		ref := []byte{0}
		if has {
			ref = append([]byte{1}, append(refwire.EncVarInt(int32(len(s))), s...)...)
		}
		return node{kind: "Option[String]", enc: pk.Option[pk.String, *pk.String]{Has: pk.Boolean(has), Val: s}, ref: ref, dst: func(r *vm.Rand) (pk.FieldDecoder, func() string) {
			d := &pk.Option[pk.String, *pk.String]{Has: pk.Boolean(!has), Val: "old"}
			return d, func() string {
				if bool(d.Has) != has || (has && d.Val != s) {
					return fmt.Sprintf("Option[String]: has=%v val=%q want has=%v val=%q", d.Has, d.Val, has, s)
				}
				return ""
			}
		}}
	default:
		var u pk.UUID
		r.Fill(u[:])
		ref := []byte{0}
		if has {
			ref = append([]byte{1}, u[:]...)
		}
		return node{kind: "Option[UUID]", enc: pk.Option[pk.UUID, *pk.UUID]{Has: pk.Boolean(has), Val: u}, ref: ref, dst: func(r *vm.Rand) (pk.FieldDecoder, func() string) {
			d := &pk.Option[pk.UUID, *pk.UUID]{Has: pk.Boolean(!has)}
			return d, func() string {
				if bool(d.Has) != has || (has && d.Val != u) {
					return "Option[UUID] mismatch"
				}
				return ""
			}
		}}
	}
}

// optNode: Opt{Has, Field} around an inner node; Has is given by a preceding Boolean in a Tuple.
func optNode(r *vm.Rand, depth int) node {
	inner := gen(r, depth+1, false)
	has := r.Bool()
	ref := []byte{0}
	if has {
		ref = append([]byte{1}, inner.ref...)
	}
	hb := pk.Boolean(has)
	var encOpt pk.Opt
	encForm := r.Intn(4)
	switch encForm {
	case 0:
		encOpt = pk.Opt{Has: &hb, Field: inner.enc}
	case 1:
		encOpt = pk.Opt{Has: func() bool { return has }, Field: func() pk.FieldEncoder { return inner.enc }}
	case 3:
		// the fourth documented form: a func() Field. The Field it returns can only write: a ReadFrom call on it panics
		encOpt = pk.Opt{Has: &hb, Field: func() pk.Field { coverMisc("opt.write.func-field"); return writeOnlyField{inner.enc} }}
	default:
		b := has
		encOpt = pk.Opt{Has: &b, Field: inner.enc}
	}
	form := r.Intn(4)
	return node{kind: "Opt(" + inner.kind + ")", enc: pk.Tuple{hb, encOpt}, ref: ref, dst: func(r *vm.Rand) (pk.FieldDecoder, func() string) {
		var got pk.Boolean = pk.Boolean(!has)
		id, ichk := inner.dst(r)
		var o pk.Opt
		decCalls := 0
		switch form {
		case 0:
			o = pk.Opt{Has: &got, Field: id}
		case 1:
			o = pk.Opt{Has: func() bool { return bool(got) }, Field: func() pk.FieldDecoder { return id }}
		case 3:
			// func() Field whose Field can only read
			o = pk.Opt{Has: &got, Field: func() pk.Field { decCalls++; return readOnlyField{id} }}
		default:
			o = pk.Opt{Has: &got, Field: id}
		}
		return pk.Tuple{&got, o}, func() string {
			if bool(got) != has {
				return "Opt: Has flag mismatch"
			}
			if has {
				if s := ichk(); s != "" {
					return s
				}
				if form == 3 && decCalls > 0 {
					coverMisc("opt.read.func-field")
				}
			}
			return ""
		}
	}}
}

func tupleNode(r *vm.Rand, depth int) node {
	n := r.Range(0, 4)
	var encs pk.Tuple
	var ref []byte
	var kids []node
	kind := "Tuple("
	for i := 0; i < n; i++ {
		k := gen(r, depth+1, false)
		kids = append(kids, k)
		encs = append(encs, k.enc)
		ref = append(ref, k.ref...)
		kind += k.kind + ","
	}
	kind += ")"
	return node{kind: kind, enc: encs, ref: ref, dst: func(r *vm.Rand) (pk.FieldDecoder, func() string) {
		var ds pk.Tuple
		var chks []func() string
		for _, k := range kids {
			d, c := k.dst(r)
			ds = append(ds, d)
			chks = append(chks, c)
		}
		return ds, func() string {
			for i, c := range chks {
				if s := c(); s != "" {
					return fmt.Sprintf("tuple[%d]: %s", i, s)
				}
			}
			return ""
		}
	}}
}

// gen produces a node; allowTail permits PluginMessageData (only as last field).
func gen(r *vm.Rand, depth int, allowTail bool) node {
	for {
		var n node
		k := r.Intn(10)
		switch {
		case depth < 3 && k == 0:
			n = tupleNode(r, depth)
		case depth < 3 && k == 1:
			n = optNode(r, depth)
		case k == 2:
			if r.Intn(3) == 0 {
				n = compositeOptionNode(r)
			} else {
				n = optionNode(r)
			}
		case k == 3 || k == 4:
			var ok bool
			n, ok = aryNode(r)
			if !ok {
				continue
			}
		default:
			n = leaf(r)
		}
		if n.tail && !allowTail {
			continue
		}
		return n
	}
}

func kindClass(k string) string {
	// outermost constructor only (stable signature component)
	if len(k) > 4 && k[:4] == "Ary[" {
		return "Ary"
	}
	for i := 0; i < len(k); i++ {
		if k[i] == '(' {
			return k[:i]
		}
	}
	return k
}

type cw struct{ bytes.Buffer }

func checkNode(c *vm.Ctx, r *vm.Rand, n node) {
	kc := kindClass(n.kind)
	wit := func() any { return map[string]any{"field": n.kind, "reference_wire": vm.Hex(n.ref)} }
	// write
	var buf bytes.Buffer
	var wn int64
	var err error
	if c.Guard("write/"+kc, wit, func() { wn, err = n.enc.WriteTo(&buf) }) {
		return
	}
	c.Eval(vm.Hash64([]byte(n.kind), n.ref), len(n.ref) > 1)
	if err != nil {
		c.Violation("write/"+kc+"/error", "WriteTo failed: "+err.Error(), wit())
		return
	}
	if !bytes.Equal(buf.Bytes(), n.ref) {
		c.Violation("write/"+kc+"/wire-layout", fmt.Sprintf("wire bytes %s differ from the protocol layout %s", vm.Hex(buf.Bytes()), vm.Hex(n.ref)), wit())
		return
	}
	if wn != int64(buf.Len()) {
		c.Violation("write/"+kc+"/byte-count", fmt.Sprintf("WriteTo returned %d, %d bytes were produced", wn, buf.Len()), wit())
	}
	// read back from ref ++ trailer through both source kinds
	trailer := []byte{0xde, 0xad, 0xbe, 0xef, 0x01}
	if n.tail {
		trailer = nil
	}
	in := append(append([]byte{}, n.ref...), trailer...)
	for srcKind := 0; srcKind < 4; srcKind++ {
		if srcKind == 3 && len(trailer) > 0 && n.tail {
			continue
		}
		d, chk := n.dst(r)
		var rd io.Reader
		bs := &inject.ByteSrc{B: in}
		pr := &inject.PlainReader{R: bytes.NewReader(in)}
		var qr *inject.QuirkReader
		sname := "bytereader"
		switch srcKind {
		case 0:
			rd = bs
		case 1:
			rd = pr
			sname = "plainreader"
		case 2: // a plain reader some of whose reads make no progress (allowed by io.Reader)
			qr = &inject.QuirkReader{B: in, Stutter: true}
			rd, sname = qr, "plainreader.zero-progress-reads"
		default: // the field alone, its last byte delivered together with io.EOF
			qr = &inject.QuirkReader{B: n.ref, DataEOF: true}
			rd, sname = qr, "plainreader.data-with-eof"
		}
		var rn int64
		if c.Guard("read/"+kc, wit, func() { rn, err = d.ReadFrom(rd) }) {
			continue
		}
		if err != nil {
			c.Violation("read/"+kc+"/error", fmt.Sprintf("ReadFrom(%s) of the bytes just written failed: %v", sname, err), wit())
			continue
		}
		consumed := bs.Pos
		if srcKind == 1 {
			consumed = int(pr.N)
		} else if qr != nil {
			consumed = qr.Pos
		}
		if consumed != len(n.ref) {
			c.Violation("read/"+kc+"/consumed", fmt.Sprintf("ReadFrom(%s) consumed %d bytes of the stream, the field is %d bytes", sname, consumed, len(n.ref)), wit())
			continue
		}
		if rn != int64(len(n.ref)) {
			c.Violation("read/"+kc+"/byte-count", fmt.Sprintf("ReadFrom(%s) returned n=%d, consumed %d", sname, rn, consumed), wit())
		}
		if s := chk(); s != "" {
			c.Violation("read/"+kc+"/value", "read back a different value: "+s, wit())
			continue
		}
		c.Cover("roundtrip." + kc)
		if kc == "Ary" {
			c.Cover("roundtrip." + n.kind)
		}
		c.Cover("src." + sname)
	}
}

// checkCountsOnFailure: the counts WriteTo and ReadFrom return are the bytes actually produced and consumed also
// when the operation fails half-way (the io.WriterTo / io.ReaderFrom contract): the writer is cut off after
// every k bytes, the input after every k bytes.
func checkCountsOnFailure(c *vm.Ctx, r *vm.Rand, n node) {
	kc := kindClass(n.kind)
	wit := func(k int, dir string) func() any {
		return func() any {
			return map[string]any{"kind": n.kind, "reference_bytes": vm.Hex(n.ref), "direction": dir, "cut_after_bytes": k}
		}
	}
	// cut offsets: every one of the first 48 bytes, the last byte, and for fields above 64 KiB the places where a
	// reader that grows its buffer step by step starts a new step (each step boundary, shifted by the length prefix)
	lim := min(len(n.ref), 48)
	cuts := make([]int, 0, lim+24)
	for k := 0; k < lim; k++ {
		cuts = append(cuts, k)
	}
	if len(n.ref)-1 >= lim {
		cuts = append(cuts, len(n.ref)-1)
	}
	bigCuts := false
	for step := 65536; step < len(n.ref)-1; step *= 2 {
		// (a String or ByteArray of that size has a 3-byte length prefix: step+3 ends exactly on the boundary)
		for _, k := range []int{step + 3, step + 100} {
			if k < len(n.ref)-1 {
				cuts = append(cuts, k)
				bigCuts = true
			}
		}
	}
	for ci, k := range cuts {
		var err error
		if k < lim || k == len(n.ref)-1 { // writers have no growth steps
			fw := &inject.FaultWriter{K: k}
			var wn int64
			if c.Guard("count/write/"+kc, wit(k, "write"), func() { wn, err = n.enc.WriteTo(fw) }) {
				return
			}
			c.Eval(0, false)
			if err != nil && wn != int64(len(fw.Got)) {
				c.Violation("count/write/"+kc, fmt.Sprintf("WriteTo into a writer that accepts %d bytes returned n=%d with an error; %d bytes were produced", k, wn, len(fw.Got)), wit(k, "write")())
				return
			}
		}
		// the truncated input arrives through a source with ReadByte; at every fourth cut also through one of the two
		// plain readers (through all three for the cuts beyond the first 48 bytes)
		for src := 0; src < 3; src++ {
			if alt := (ci + len(n.ref)) % 8; src > 0 && k < lim && !(src == 1 && alt == 1 || src == 2 && alt == 5) {
				continue
			}
			d, _ := n.dst(r)
			var rd io.Reader
			var pos func() int
			sname := "bytereader"
			switch src {
			case 0:
				bs := &inject.ByteSrc{B: n.ref[:k]}
				rd, pos = bs, func() int { return bs.Pos }
			case 1:
				pr := &inject.PlainReader{R: bytes.NewReader(n.ref[:k])}
				rd, pos, sname = pr, func() int { return int(pr.N) }, "plainreader"
			default:
				qr := &inject.QuirkReader{B: n.ref[:k], Stutter: true}
				rd, pos, sname = qr, func() int { return qr.Pos }, "plainreader.zero-progress-reads"
			}
			w := func() any {
				m := wit(k, "read")().(map[string]any)
				m["source"] = sname
				return m
			}
			var rn int64
			if c.Guard("count/read/"+kc, w, func() { rn, err = d.ReadFrom(rd) }) {
				return
			}
			c.Eval(0, false)
			if err != nil && rn != int64(pos()) {
				sig := "count/read/" + kc
				if src > 0 {
					sig += "/" + sname
				}
				c.Violation(sig, fmt.Sprintf("ReadFrom of the first %d bytes (%s) returned n=%d with an error; %d bytes were consumed", k, sname, rn, pos()), w())
				return
			}
			if err != nil && k >= lim {
				c.Cover("count-on-failure.cut-beyond-48." + sname)
			}
			if err != nil && src > 0 {
				c.Cover("count-on-failure.src." + sname)
			}
		}
	}
	if bigCuts {
		c.Cover("count-on-failure.cut-at-growth-step")
	}
	c.Cover("count-on-failure." + kc)
}

func checkPacket(c *vm.Ctx, r *vm.Rand) {
	n := r.Range(0, 6)
	var nodes []node
	var encs []pk.FieldEncoder
	var want []byte
	for i := 0; i < n; i++ {
		k := gen(r, 1, i == n-1)
		nodes = append(nodes, k)
		encs = append(encs, k.enc)
		want = append(want, k.ref...)
	}
	id := int32(r.Int64B())
	wit := func() any {
		ks := []string{}
		for _, k := range nodes {
			ks = append(ks, k.kind)
		}
		return map[string]any{"fields": ks, "reference_data": vm.Hex(want)}
	}
	var p pk.Packet
	idForm := r.Intn(4)
	if c.Guard("packet/marshal", wit, func() {
		// Marshal[ID ~int32 | int]: every way an id can be typed
		switch idForm {
		case 0:
			p = pk.Marshal(id, encs...)
		case 1:
			p = pk.Marshal(int(id), encs...)
		case 2:
			p = pk.Marshal(packetid.ClientboundPacketID(id), encs...)
		default:
			p = pk.Marshal(packetid.ServerboundPacketID(id), encs...)
		}
	}) {
		return
	}
	c.Eval(vm.Hash64(want, []byte("packet")), n >= 2)
	if p.ID != id || !bytes.Equal(p.Data, want) {
		c.Violation("packet/marshal/composition", fmt.Sprintf("Marshal produced id %d data %s, want id %d data %s", p.ID, vm.Hex(p.Data), id, vm.Hex(want)), wit())
		return
	}
	var b pk.Builder
	if c.Guard("packet/builder", wit, func() {
		for _, e := range encs {
			b.WriteField(e)
		}
	}) {
		return
	}
	if bp := b.Packet(id); bp.ID != id || !bytes.Equal(bp.Data, want) {
		c.Violation("packet/builder/composition", "Builder produced other bytes than the concatenation of the field encodings", wit())
	}
	var ds []pk.FieldDecoder
	var chks []func() string
	for _, k := range nodes {
		d, ch := k.dst(r)
		ds = append(ds, d)
		chks = append(chks, ch)
	}
	var err error
	if c.Guard("packet/scan", wit, func() { err = p.Scan(ds...) }) {
		return
	}
	if err != nil {
		c.Violation("packet/scan/error", "Scan of a packet built by Marshal failed: "+err.Error(), wit())
		return
	}
	for i, ch := range chks {
		if s := ch(); s != "" {
			c.Violation("packet/scan/order-or-value", fmt.Sprintf("field %d (%s): %s", i, nodes[i].kind, s), wit())
			return
		}
	}
	c.Cover("packet.compose")
	c.Cover("packet.marshal.id-typed-" + []string{"int32", "int", "packetid.Clientbound", "packetid.Serverbound"}[idForm])
}

// checkBitSets: what the two bit-set types mean on the wire. A fixed bit set of n bits is ceil(n/8) bytes with bit i
// in byte i/8 under mask 1<<(i%8); a bit set is a VarInt count of big-endian longs with bit i in long i/64 under mask
// 1<<(i%64) (java.util.BitSet.toLongArray). The values are built through Set and judged on the bytes.
func checkBitSets(c *vm.Ctx, r *vm.Rand) {
	n := r.Range(0, 200)
	if r.Intn(4) == 0 {
		n = []int{0, 1, 7, 8, 9, 63, 64, 65, 127, 128, 129}[r.Intn(11)]
	}
	var bitsOn []int
	for i := 0; i < n; i++ {
		if r.Intn(3) == 0 {
			bitsOn = append(bitsOn, i)
		}
	}
	if n > 0 && r.Bool() {
		bitsOn = append(bitsOn, n-1)
	}
	wit := func() any { return map[string]any{"bits": n, "set": bitsOn} }
	c.Eval(vm.HashStr("bitsets", fmt.Sprint(n, bitsOn)), n > 8)
	c.Guard("bitsets", wit, func() {
		f := pk.NewFixedBitSet(int64(n))
		if len(f) != (n+7)/8 {
			c.Violation("bitset/fixed-length", fmt.Sprintf("NewFixedBitSet(%d) has %d bytes, the protocol's layout has %d", n, len(f), (n+7)/8), wit())
			return
		}
		want := make([]byte, (n+7)/8)
		longs := make([]uint64, (n+63)/64)
		b := make(pk.BitSet, (n+63)/64)
		for _, i := range bitsOn {
			f.Set(i, true)
			b.Set(i, true)
			want[i/8] |= 1 << uint(i%8)
			longs[i/64] |= 1 << uint(i%64)
		}
		// clear one again
		if len(bitsOn) > 1 {
			i := bitsOn[0]
			if i != bitsOn[len(bitsOn)-1] {
				f.Set(i, false)
				b.Set(i, false)
				want[i/8] &^= 1 << uint(i%8)
				longs[i/64] &^= 1 << uint(i%64)
			}
		}
		var buf bytes.Buffer
		if _, err := f.WriteTo(&buf); err != nil || !bytes.Equal(buf.Bytes(), want) {
			c.Violation("bitset/fixed-layout", fmt.Sprintf("fixed bit set written as %x, bit i belongs in byte i/8 under 1<<(i%%8): %x (err %v)", buf.Bytes(), want, err), wit())
			return
		}
		wantB := refwire.EncVarInt(int32(len(longs)))
		for _, l := range longs {
			wantB = binary.BigEndian.AppendUint64(wantB, l)
		}
		buf.Reset()
		if _, err := b.WriteTo(&buf); err != nil || !bytes.Equal(buf.Bytes(), wantB) {
			c.Violation("bitset/layout", fmt.Sprintf("bit set written as %x, expected %x (err %v)", buf.Bytes(), wantB, err), wit())
			return
		}
		// reading the reference bytes gives the same bits back through Get
		f2 := pk.NewFixedBitSet(int64(n))
		var b2 pk.BitSet
		if _, err := f2.ReadFrom(bytes.NewReader(want)); err != nil {
			c.Violation("bitset/fixed-read", err.Error(), wit())
			return
		}
		if _, err := b2.ReadFrom(bytes.NewReader(wantB)); err != nil {
			c.Violation("bitset/read", err.Error(), wit())
			return
		}
		for i := 0; i < n; i++ {
			on := want[i/8]&(1<<uint(i%8)) != 0
			if f2.Get(i) != on || b2.Get(i) != on {
				c.Violation("bitset/get", fmt.Sprintf("bit %d: fixed Get=%v, bit set Get=%v, the bytes say %v", i, f2.Get(i), b2.Get(i), on), wit())
				return
			}
		}
		c.Cover("bitset.addressing")
	})
}

func run(c *vm.Ctx) {
	coverPrior = func(s string) { c.Cover("prior." + s) }
	coverMisc = func(s string) { c.Cover(s) }
	// reference self-test
	if !bytes.Equal(refPosition(pk.Position{X: 18357644, Y: 831, Z: -20882616}), []byte{0x46, 0x07, 0x63, 0x2c, 0x15, 0xb4, 0x83, 0x3f}) {
		panic("reference position packing self-test failed (wiki.vg vector)")
	}
	r := c.Rand("fields")
	// forced: position cube corners +-1
	for _, x := range []int{-1 << 25, -1<<25 + 1, -1, 0, 1, 1<<25 - 2, 1<<25 - 1} {
		for _, y := range []int{-2048, -2047, -1, 0, 1, 2046, 2047} {
			for _, z := range []int{-1 << 25, -1<<25 + 1, -1, 0, 1, 1<<25 - 2, 1<<25 - 1} {
				v := pk.Position{X: x, Y: y, Z: z}
				checkNode(c, r, simple[pk.Position]("Position", v, v, refPosition(v), func(r *vm.Rand) pk.Position { return pk.Position{X: 5, Y: 5, Z: 5} }))
			}
		}
	}
	c.Cover("position.cube-corners")
	n := c.Scale(200000, 5000000)
	for i := 0; i < n; i++ {
		nd := gen(r, 0, true)
		checkNode(c, r, nd)
		checkCountsOnFailure(c, r, nd)
		if i < 3 {
			c.Sample("field", map[string]any{"field": nd.kind, "wire": vm.Hex(nd.ref)})
		}
	}
	if c.Shard == 2%c.NShards {
		// every size of the growth schedule once, whatever the seed drew above
		fr := c.Rand("forced-big-sizes")
		for _, sz := range bigSizes {
			coverBigSize("String", sz)
			coverBigSize("ByteArray", sz)
			for _, nd := range []node{stringNode(fr, strings.Repeat("s", sz)), byteArrayNode(fr, sz)} {
				checkNode(c, fr, nd)
				checkCountsOnFailure(c, fr, nd)
			}
		}
		c.Cover("forced.big-sizes")
	}
	pr := c.Rand("packets")
	for i := 0; i < c.Scale(30000, 600000); i++ {
		checkPacket(c, pr)
	}
	ur := c.Rand("nbt-unknown-members")
	for i := 0; i < c.Scale(4000, 80000); i++ {
		checkUnknownMembers(c, ur)
	}
	checkDynbtEnd(c) // once a finding (TAG_End written as two bytes; fixed, see known_findings.json)
	br := c.Rand("bitsets")
	for i := 0; i < c.Scale(3000, 60000); i++ {
		checkBitSets(c, br)
	}
	runBlind2(c)
}
