package main

import (
	"bytes"
	"fmt"
	"io"
	"reflect"

	"github.com/Tnze/go-mc/chat"
	"github.com/Tnze/go-mc/nbt"
	"github.com/Tnze/go-mc/nbt/dynbt"
	pk "github.com/Tnze/go-mc/net/packet"

	"verif/gen/gotypes"
	"verif/inject"
	"verif/ref/refnbt"
	"verif/vm"
)

// nbtSuper writes everything nbtPayload has plus members nbtPayload does not know: between known members, inside the
// nested compound and at the end; scalars, a typed array, a list and a compound.
type nbtSuper struct {
	A  int32   `nbt:"a"`
	X1 []int32 `nbt:"x1"`
	B  string  `nbt:"b"`
	X2 struct {
		Y string   `nbt:"y"`
		Z []string `nbt:"z"`
	} `nbt:"x2"`
	C []int64 `nbt:"c"`
	D struct {
		E int8    `nbt:"e"`
		G int64   `nbt:"g"`
		F float32 `nbt:"f"`
	} `nbt:"d"`
	X3 int16 `nbt:"x3"`
}

func genNBTPayload(r *vm.Rand) nbtPayload {
	var p nbtPayload
	p.A, p.B = int32(r.Int64B()), genString(r)
	if len(p.B) > 200 {
		p.B = p.B[:200]
	}
	for i := r.Intn(4); i > 0; i-- {
		p.C = append(p.C, r.Int64B())
	}
	p.D.E, p.D.F = int8(r.Int64B()), float32(r.Intn(1000))/8
	return p
}

func superOf(r *vm.Rand, p nbtPayload) nbtSuper {
	var s nbtSuper
	s.A, s.B, s.C = p.A, p.B, p.C
	s.D.E, s.D.F, s.D.G = p.D.E, p.D.F, r.Int64B()
	for i := r.Intn(3); i > 0; i-- {
		s.X1 = append(s.X1, int32(r.Int64B()))
	}
	s.X2.Y = genString(r)
	if len(s.X2.Y) > 30 {
		s.X2.Y = s.X2.Y[:30]
	}
	for i := r.Range(1, 3); i > 0; i-- { // never empty: the element type of an empty list is the encoder's choice
		s.X2.Z = append(s.X2.Z, "z")
	}
	s.X3 = int16(r.Int64B())
	return s
}

func mustTree(v any) *refnbt.Value {
	tree, unsup := gotypes.Expect(reflect.ValueOf(v))
	if unsup != "" {
		panic("monitor: reference mapping does not cover its own payload type: " + unsup)
	}
	return tree
}

// nbtNode: one NBT field. The writer is the payload struct (or a superset of it when the reader allows unknown
// members); the receiver is, in turn, the struct itself, a map, an empty interface, a RawMessage, a dynbt.Value.
func nbtNode(r *vm.Rand) node {
	p := genNBTPayload(r)
	tree := mustTree(p)
	ref := refnbt.Encode(tree, "", true)
	allow := r.Bool()
	var enc pk.FieldEncoder = pk.NBT(p)
	if allow {
		enc = pk.NBTField{V: &p, AllowUnknownFields: true}
	}
	recv := r.Intn(7)
	if recv == 5 {
		// a writer that knows more members than the reader, a reader that was told to allow that
		sup := superOf(r, p)
		return node{kind: "NBT", enc: pk.NBT(sup), ref: refnbt.Encode(mustTree(sup), "", true), dst: func(r *vm.Rand) (pk.FieldDecoder, func() string) {
			d := nbtPayload{A: 99, B: "old", C: []int64{9, 9, 9, 9, 9, 9}}
			return pk.NBTField{V: &d, AllowUnknownFields: true}, func() string {
				if diff := gotypes.EqualGo(reflect.ValueOf(d), reflect.ValueOf(p)); diff != "" {
					return "NBT field written with more members than the reader knows (AllowUnknownFields): " + diff
				}
				coverMisc("nbt.unknown-members.allowed")
				return ""
			}
		}}
	}
	field := func(v any) pk.FieldDecoder {
		if allow {
			return pk.NBTField{V: v, AllowUnknownFields: true}
		}
		return pk.NBT(v)
	}
	return node{kind: "NBT", enc: enc, ref: ref, dst: func(r *vm.Rand) (pk.FieldDecoder, func() string) {
		used := r.Bool() // the receiver was used before
		treeCheck := func(name string, x any) string {
			got, bad := gotypes.TreeFromAny(x)
			if bad != "" {
				return "NBT field into " + name + bad
			}
			if d := refnbt.Equal(got, tree, refnbt.Opts{EmptyListElemFree: true}); d != "" {
				return "NBT field into " + name + ": " + d
			}
			coverMisc("nbt.receiver." + name)
			return ""
		}
		switch recv {
		case 1:
			var m map[string]any
			if used {
				m = map[string]any{"a": int32(99), "b": "old"} // members the document has too (decoding merges into maps)
			}
			return field(&m), func() string { return treeCheck("map", m) }
		case 2:
			var a any
			if used {
				a = []any{"old", "content"}[r.Intn(2)]
			}
			return field(&a), func() string { return treeCheck("any", a) }
		case 3:
			var m nbt.RawMessage
			if used {
				m = nbt.RawMessage{Type: nbt.TagString, Data: bytes.Repeat([]byte{0x99}, r.Range(0, 2*len(ref)))}
			}
			return field(&m), func() string {
				if m.Type != refnbt.Compound || !bytes.Equal(m.Data, ref[1:]) {
					return fmt.Sprintf("NBT field into RawMessage: type %d data %x, the field is type 10 payload %x", m.Type, trunc(m.Data), trunc(ref[1:]))
				}
				coverMisc("nbt.receiver.RawMessage")
				return ""
			}
		case 4:
			var v dynbt.Value
			if used {
				_, _ = pk.NBT(&v).ReadFrom(bytes.NewReader([]byte{10, 8, 0, 1, 'q', 0, 3, 'o', 'l', 'd', 0})) // {q:"old"}
			}
			return field(&v), func() string {
				// the carrier is judged by what it writes: the reference bytes of the value it was given
				var out bytes.Buffer
				if _, err := pk.NBT(&v).WriteTo(&out); err != nil || !bytes.Equal(out.Bytes(), ref) {
					return fmt.Sprintf("NBT field into dynbt.Value: it writes %x (err %v), it was read from %x", trunc(out.Bytes()), err, trunc(ref))
				}
				coverMisc("nbt.receiver.dynbt")
				return ""
			}
		}
		d := nbtPayload{A: 99, B: "old", C: []int64{9, 9, 9, 9, 9, 9}}
		return field(&d), func() string {
			if diff := gotypes.EqualGo(reflect.ValueOf(d), reflect.ValueOf(p)); diff != "" {
				return "NBT field: " + diff
			}
			return ""
		}
	}}
}

// nbtNilNode: NBT(nil) is a single TAG_End ("no value"). Receivers that can say "no value" must say it afterwards,
// also when they held something before.
func nbtNilNode(r *vm.Rand) node {
	return node{kind: "NBT.nil", enc: pk.NBT(nil), ref: []byte{0}, dst: func(r *vm.Rand) (pk.FieldDecoder, func() string) {
		switch r.Intn(4) {
		case 1:
			m := nbt.RawMessage{Type: nbt.TagString, Data: []byte{0, 1, 'a'}}
			if r.Bool() {
				m = nbt.RawMessage{}
			}
			return pk.NBT(&m), func() string {
				if m.Type != nbt.TagEnd || len(m.Data) != 0 {
					return fmt.Sprintf("NBT(nil) into a RawMessage: type %d, %d data bytes afterwards", m.Type, len(m.Data))
				}
				coverMisc("nbt.nil.receiver.RawMessage")
				return ""
			}
		case 2:
			var v dynbt.Value
			if r.Bool() {
				_, _ = pk.NBT(&v).ReadFrom(bytes.NewReader([]byte{10, 8, 0, 1, 'q', 0, 3, 'o', 'l', 'd', 0}))
			}
			return pk.NBT(&v), func() string {
				if v.TagType() != nbt.TagEnd {
					return fmt.Sprintf("NBT(nil) into a dynbt.Value: tag type %d afterwards", v.TagType())
				}
				coverMisc("nbt.nil.receiver.dynbt")
				return ""
			}
		case 3:
			var a any
			return pk.NBT(&a), func() string {
				if a != nil {
					return fmt.Sprintf("NBT(nil) into an empty interface: holds %v afterwards", a)
				}
				coverMisc("nbt.nil.receiver.any")
				return ""
			}
		}
		var d nbtPayload
		return pk.NBT(&d), func() string {
			if d.A != 0 || d.B != "" {
				return "NBT(nil) decode modified the destination"
			}
			return ""
		}
	}}
}

// chatNode: a text component, the receiver real packets use for NBT fields. The reference document is written by
// the monitor (members in the order of the struct, absent when empty).
func chatNode(r *vm.Rand) node {
	word := func() string {
		s := genString(r)
		if len(s) > 24 {
			s = s[:24]
		}
		return s
	}
	var build func(depth int) (chat.Message, *refnbt.Value)
	build = func(depth int) (chat.Message, *refnbt.Value) {
		var m chat.Message
		t := &refnbt.Value{Tag: refnbt.Compound}
		add := func(k string, v *refnbt.Value) { t.Comp = append(t.Comp, refnbt.Entry{Name: k, V: v}) }
		m.Text = word()
		add("text", refnbt.St(m.Text))
		if r.Bool() {
			m.Bold = true
			add("bold", refnbt.B(1))
		}
		if r.Intn(4) == 0 {
			m.Italic = true
			add("italic", refnbt.B(1))
		}
		if r.Bool() {
			m.Color = []string{chat.Red, chat.DarkAqua, "#12abEF"}[r.Intn(3)]
			add("color", refnbt.St(m.Color))
		}
		if r.Intn(4) == 0 {
			m.Insertion = "ins" + word()
			add("insertion", refnbt.St(m.Insertion))
		}
		if depth < 2 && r.Intn(3) == 0 {
			l := &refnbt.Value{Tag: refnbt.List, Elem: refnbt.Compound}
			for i := r.Range(1, 3); i > 0; i-- {
				cm, ct := build(depth + 1)
				m.Extra = append(m.Extra, cm)
				l.List = append(l.List, ct)
			}
			add("extra", l)
		}
		return m, t
	}
	msg, tree := build(0)
	ref := refnbt.Encode(tree, "", true)
	var enc pk.FieldEncoder = msg
	if r.Bool() {
		enc = pk.NBT(msg)
	}
	return node{kind: "NBT.chat", enc: enc, ref: ref, dst: func(r *vm.Rand) (pk.FieldDecoder, func() string) {
		var d chat.Message
		if r.Bool() {
			// used before; only members every document carries, or a list the document replaces (members a document
			// does not mention keep their content, as with encoding/json)
			d.Text = "old"
			if len(msg.Extra) > 0 {
				d.Extra = []chat.Message{{Text: "stale"}, {Text: "stale"}, {Text: "stale"}, {Text: "stale"}}
			}
		}
		var f pk.FieldDecoder = &d
		if r.Bool() {
			f = pk.NBT(&d)
		}
		return f, func() string {
			if !reflect.DeepEqual(d, msg) {
				return fmt.Sprintf("text component read through an NBT field: got %+v want %+v", d, msg)
			}
			coverMisc("nbt.receiver.chat-message")
			return ""
		}
	}}
}

// checkUnknownMembers: a document with members the receiving struct does not have. With AllowUnknownFields the
// read succeeds, consumes exactly the field and fills the known members; whatever the default reader does with
// it, the count it returns is what it consumed.
func checkUnknownMembers(c *vm.Ctx, r *vm.Rand) {
	p := genNBTPayload(r)
	sup := superOf(r, p)
	ref := refnbt.Encode(mustTree(sup), "", true)
	in := append(append([]byte{}, ref...), 0xde, 0xad, 0xbe, 0xef)
	for src := 0; src < 3; src++ {
		for _, allow := range []bool{true, false} {
			var rd io.Reader
			var pos func() int
			sname := "bytereader"
			switch src {
			case 0:
				bs := &inject.ByteSrc{B: in}
				rd, pos = bs, func() int { return bs.Pos }
			case 1:
				pr := &inject.PlainReader{R: bytes.NewReader(in)}
				rd, pos, sname = pr, func() int { return int(pr.N) }, "plainreader"
			default:
				qr := &inject.QuirkReader{B: in, Stutter: true}
				rd, pos, sname = qr, func() int { return qr.Pos }, "plainreader.zero-progress-reads"
			}
			wit := func() any {
				return map[string]any{"document": vm.Hex(ref), "receiver": "struct{a int32; b string; c []int64; d struct{e int8; f float32}}", "allow_unknown_fields": allow, "source": sname}
			}
			d := nbtPayload{A: 99, B: "old", C: []int64{9, 9}}
			var f pk.FieldDecoder = pk.NBT(&d)
			if allow {
				f = pk.NBTField{V: &d, AllowUnknownFields: true}
			}
			var n int64
			var err error
			if c.Guard("nbt-unknown-members", wit, func() { n, err = f.ReadFrom(rd) }) {
				continue
			}
			c.Eval(vm.Hash64(ref, []byte("unknown-members")), true)
			if n != int64(pos()) {
				c.Violation("nbt-unknown-members/byte-count", fmt.Sprintf("ReadFrom returned n=%d (err %v), %d bytes were consumed", n, err, pos()), wit())
				continue
			}
			if !allow {
				if err != nil {
					c.Cover("nbt.unknown-members.refused-by-default")
				} else {
					// the statement of C06 does not say that the default reader refuses: recorded, not judged
					c.Cover("nbt.unknown-members.accepted-by-default")
				}
				continue
			}
			if err != nil {
				c.Violation("nbt-unknown-members/error", "NBTField{AllowUnknownFields: true}.ReadFrom failed on a document with additional members: "+err.Error(), wit())
				continue
			}
			if pos() != len(ref) {
				c.Violation("nbt-unknown-members/consumed", fmt.Sprintf("consumed %d bytes, the field is %d bytes", pos(), len(ref)), wit())
				continue
			}
			if diff := gotypes.EqualGo(reflect.ValueOf(d), reflect.ValueOf(p)); diff != "" {
				c.Violation("nbt-unknown-members/value", "known members differ: "+diff, wit())
				continue
			}
			c.Cover("nbt.unknown-members.skipped-exactly")
		}
	}
}

// checkDynbtEnd: a dynbt.Value that read "no value" (TAG_End) and is written again through an NBT field must write
// "no value": one TAG_End byte.
func checkDynbtEnd(c *vm.Ctx) {
	var v dynbt.Value
	wit := func() any {
		return map[string]any{"steps": "var v dynbt.Value; pk.NBT(&v).ReadFrom(00); pk.NBT(&v).WriteTo(w)"}
	}
	c.Guard("nbt-dynbt-end", wit, func() {
		if n, err := pk.NBT(&v).ReadFrom(bytes.NewReader([]byte{0})); err != nil || n != 1 {
			c.Violation("nbt-dynbt-end/read", fmt.Sprintf("reading TAG_End into a dynbt.Value: n=%d err=%v", n, err), wit())
			return
		}
		var out bytes.Buffer
		n, err := pk.NBT(&v).WriteTo(&out)
		if err != nil || n != int64(out.Len()) || !bytes.Equal(out.Bytes(), []byte{0}) {
			c.Violation("nbt-dynbt-end/wire-layout", fmt.Sprintf("a dynbt.Value that read TAG_End (00) writes %x (n=%d err=%v): a reader takes the first byte as the field and the rest as the next field", out.Bytes(), n, err), wit())
			return
		}
		c.Cover("nbt.dynbt.end-written-as-one-byte")
	})
}

