package main

// Second blind-spot review of C06. What the generated nodes keep fixed and these sub-checks vary:
//
//	checkArrayEntry     the exported constructor pk.Array (what the rest of the library calls; the nodes only build
//	                    Ary[LEN] literals), and the containers behind an Ary: named slice types, pointer to pointer,
//	                    nil slices, slices of pointers, of Tuples and of FieldEncoder interfaces
//	extraAryNode        element types the Ary nodes never had (one-byte elements, floats, bit sets)
//	checkPrefixSizes    bit sets of 127/128/129 and 16383/16384 longs, byte arrays and arrays on both sides of the
//	                    second prefix byte, strings whose byte length differs from their number of characters
//	checkNonCanonical   fields whose VarInt / VarLong prefix (or value) is written with more bytes than necessary:
//	                    the count returned is what was consumed, and an accepted field has its one meaning
//	checkConcurrent     eight goroutines encode and decode values of their own (a field codec has no business with
//	                    package-level state)
//	checkBuilderForms   Builder.WriteField with several fields per call, Packet() taken twice from one Builder, Opt
//	                    with Has false and no Field at all
import (
	"bytes"
	"fmt"
	"io"
	"math"
	"os"
	"strings"
	"sync"

	pk "github.com/Tnze/go-mc/net/packet"

	"verif/inject"
	"verif/ref/refwire"
	"verif/vm"
)

// varIntList is a named slice type, as packets declare them.
type varIntList []pk.VarInt

// ptrRecord can be written only through a pointer (the method has a pointer receiver): a slice of it cannot be an
// Ary, a slice of pointers to it can.
type ptrRecord struct {
	A pk.VarInt
	S pk.String
}

func (p *ptrRecord) WriteTo(w io.Writer) (int64, error) { return pk.Tuple{p.A, p.S}.WriteTo(w) }

func refVarInts(vals []pk.VarInt) []byte {
	ref := refwire.EncVarInt(int32(len(vals)))
	for _, v := range vals {
		ref = append(ref, refwire.EncVarInt(int32(v))...)
	}
	return ref
}

// writeAndCompare: WriteTo gives exactly ref and counts it.
func writeAndCompare(c *vm.Ctx, sig string, enc pk.FieldEncoder, ref []byte, wit func() any) bool {
	var buf bytes.Buffer
	var n int64
	var err error
	if c.Guard(sig, wit, func() { n, err = enc.WriteTo(&buf) }) {
		return false
	}
	c.Eval(vm.Hash64([]byte(sig), ref), len(ref) > 1)
	switch {
	case err != nil:
		c.Violation(sig+"/error", "WriteTo failed: "+err.Error(), wit())
	case !bytes.Equal(buf.Bytes(), ref):
		c.Violation(sig+"/wire-layout", fmt.Sprintf("wire bytes %s differ from the protocol layout %s", vm.Hex(trunc(buf.Bytes())), vm.Hex(trunc(ref))), wit())
	case n != int64(buf.Len()):
		c.Violation(sig+"/byte-count", fmt.Sprintf("WriteTo returned %d, %d bytes were produced", n, buf.Len()), wit())
	default:
		return true
	}
	return false
}

// readAndCount: ReadFrom of in (field ++ trailer) through source kind src; returns false after reporting.
func readAndCount(c *vm.Ctx, sig string, dec pk.FieldDecoder, field []byte, src int, wit func() any) bool {
	in := append(append([]byte{}, field...), 0xde, 0xad, 0xbe, 0xef, 0x01)
	var rd io.Reader
	var pos func() int
	switch src % 3 {
	case 0:
		bs := &inject.ByteSrc{B: in}
		rd, pos = bs, func() int { return bs.Pos }
	case 1:
		pr := &inject.PlainReader{R: bytes.NewReader(in)}
		rd, pos = pr, func() int { return int(pr.N) }
	default:
		qr := &inject.QuirkReader{B: in, Stutter: true}
		rd, pos = qr, func() int { return qr.Pos }
	}
	var n int64
	var err error
	if c.Guard(sig, wit, func() { n, err = dec.ReadFrom(rd) }) {
		return false
	}
	switch {
	case err != nil:
		c.Violation(sig+"/error", "ReadFrom of the reference bytes failed: "+err.Error(), wit())
	case pos() != len(field):
		c.Violation(sig+"/consumed", fmt.Sprintf("ReadFrom consumed %d bytes of the stream, the field is %d bytes", pos(), len(field)), wit())
	case n != int64(len(field)):
		c.Violation(sig+"/byte-count", fmt.Sprintf("ReadFrom returned n=%d, consumed %d", n, pos()), wit())
	default:
		return true
	}
	return false
}

func checkArrayEntry(c *vm.Ctx, r *vm.Rand) {
	n := []int{0, 1, 2, 3, 7, 127, 128, 300}[r.Intn(8)]
	vals := make([]pk.VarInt, n)
	for i := range vals {
		vals[i] = pk.VarInt(r.Int64B())
	}
	ref := refVarInts(vals)
	form := r.Intn(7)
	fname := []string{"Array(slice)", "Array(&slice)", "Array(named slice)", "Array(&named slice)", "Array(&&slice)", "Array(nil slice)", "Ary[Short]{&&named slice}"}[form]
	wit := func() any {
		return map[string]any{"form": fname, "elements": "VarInt", "count": n, "reference_wire": vm.Hex(trunc(ref))}
	}
	named := varIntList(append([]pk.VarInt{}, vals...))
	pvals, pnamed := &vals, &named
	var enc pk.FieldEncoder
	switch form {
	case 0:
		enc = pk.Array(vals)
	case 1:
		enc = pk.Array(&vals)
	case 2:
		enc = pk.Array(named)
	case 3:
		enc = pk.Array(&named)
	case 4:
		enc = pk.Array(&pvals)
	case 5:
		var none []pk.VarInt
		enc, ref, n, vals = pk.Array(none), []byte{0}, 0, nil
		if r.Bool() {
			var nn varIntList
			enc = pk.Array(&nn)
		}
	default:
		enc = pk.Ary[pk.Short]{Ary: &pnamed}
		ref = append(be16(uint16(n)), ref[len(refwire.EncVarInt(int32(n))):]...)
	}
	if !writeAndCompare(c, "array/write", enc, ref, wit) {
		return
	}
	// the destination: plain or named slice in one of the prior states, behind one or two pointers
	prior := make([]pk.VarInt, r.Intn(2*n+2), 2*n+2+r.Intn(3))
	if r.Intn(4) == 0 {
		prior = nil
	}
	for i := range prior[:cap(prior)] {
		prior[:cap(prior)][i] = 0x99
	}
	for src := 0; src < 3; src++ {
		plain := append([]pk.VarInt(nil), prior...)
		if cap(prior) > 0 {
			plain = append(make([]pk.VarInt, 0, cap(prior)), prior[:cap(prior)]...)[:len(prior)]
		}
		nd := varIntList(plain)
		pplain, pnd := &plain, &nd
		var got func() []pk.VarInt
		var ary any
		dform := r.Intn(4)
		switch dform {
		case 0:
			ary, got = &plain, func() []pk.VarInt { return plain }
		case 1:
			ary, got = &nd, func() []pk.VarInt { return nd }
		case 2:
			ary, got = &pplain, func() []pk.VarInt { return plain }
		default:
			ary, got = &pnd, func() []pk.VarInt { return nd }
		}
		var dec pk.FieldDecoder = pk.Array(ary)
		if form == 6 {
			dec = pk.Ary[pk.Short]{Ary: ary}
		}
		dname := []string{"&slice", "&named slice", "&&slice", "&&named slice"}[dform]
		w := func() any {
			m := wit().(map[string]any)
			m["destination"], m["destination_len_cap"], m["source_kind"] = dname, []int{len(prior), cap(prior)}, src
			return m
		}
		if !readAndCount(c, "array/read", dec, ref, src, w) {
			return
		}
		g := got()
		if len(g) != n {
			c.Violation("array/read/value", fmt.Sprintf("destination (%s, prior len %d cap %d) has len %d after reading %d elements", dname, len(prior), cap(prior), len(g), n), w())
			return
		}
		for i := range vals {
			if g[i] != vals[i] {
				c.Violation("array/read/value", fmt.Sprintf("element %d: got %d want %d (destination %s)", i, g[i], vals[i], dname), w())
				return
			}
		}
		c.Cover("array.read." + dname)
	}
	c.Cover("array.write." + fname)

	// write-only containers: pointers, tuples, interfaces as elements
	k := r.Range(0, 5)
	var ptrs []*ptrRecord
	var tuples []pk.Tuple
	var ifaces []pk.FieldEncoder
	body := []byte{}
	for i := 0; i < k; i++ {
		a, s := pk.VarInt(r.Int64B()), pk.String(genString(r))
		if len(s) > 40 {
			s = s[:40]
		}
		ptrs = append(ptrs, &ptrRecord{A: a, S: s})
		tuples = append(tuples, pk.Tuple{a, s})
		if i%2 == 0 {
			ifaces = append(ifaces, pk.Tuple{a, s})
		} else {
			ifaces = append(ifaces, &ptrRecord{A: a, S: s})
		}
		body = append(body, refwire.EncVarInt(int32(a))...)
		body = append(body, refwire.EncVarInt(int32(len(s)))...)
		body = append(body, s...)
	}
	wref := append(refwire.EncVarInt(int32(k)), body...)
	for i, e := range []pk.FieldEncoder{pk.Array(ptrs), pk.Array(tuples), pk.Array(&ifaces), pk.Ary[pk.UnsignedByte]{Ary: tuples}} {
		name := []string{"Array([]*T)", "Array([]Tuple)", "Array(&[]FieldEncoder)", "Ary[UnsignedByte]{[]Tuple}"}[i]
		w := func() any { return map[string]any{"form": name, "count": k, "reference_wire": vm.Hex(trunc(wref))} }
		if !writeAndCompare(c, "array/write", e, wref, w) {
			return
		}
		c.Cover("array.write." + name)
	}
}

// extraAryNode: Ary nodes over element types the main generator does not use.
func extraAryNode(r *vm.Rand) (node, bool) {
	switch r.Intn(8) {
	case 0:
		return aryOf[pk.Boolean](r, "Boolean", func() (pk.Boolean, []byte) {
			v := r.Bool()
			return pk.Boolean(v), []byte{map[bool]byte{false: 0, true: 1}[v]}
		}, func(a, b pk.Boolean) bool { return a == b }, func() pk.Boolean { return pk.Boolean(r.Bool()) })
	case 1:
		return aryOf[pk.UnsignedByte](r, "UnsignedByte", func() (pk.UnsignedByte, []byte) { v := pk.UnsignedByte(r.Int64B()); return v, []byte{byte(v)} },
			func(a, b pk.UnsignedByte) bool { return a == b }, func() pk.UnsignedByte { return 0x99 })
	case 2:
		return aryOf[pk.Short](r, "Short", func() (pk.Short, []byte) { v := pk.Short(r.Int64B()); return v, be16(uint16(v)) },
			func(a, b pk.Short) bool { return a == b }, func() pk.Short { return 0x999 })
	case 3:
		return aryOf[pk.Float](r, "Float", func() (pk.Float, []byte) {
			bits := r.Float32Bits()
			return pk.Float(math.Float32frombits(bits)), be32(bits)
		}, func(a, b pk.Float) bool { return math.Float32bits(float32(a)) == math.Float32bits(float32(b)) }, func() pk.Float { return 1.5 })
	case 4:
		return aryOf[pk.Double](r, "Double", func() (pk.Double, []byte) {
			bits := r.Float64Bits()
			return pk.Double(math.Float64frombits(bits)), be64(bits)
		}, func(a, b pk.Double) bool { return math.Float64bits(float64(a)) == math.Float64bits(float64(b)) }, func() pk.Double { return 1.5 })
	case 5:
		return aryOf[pk.Angle](r, "Angle", func() (pk.Angle, []byte) { v := pk.Angle(r.Int64B()); return v, []byte{byte(v)} },
			func(a, b pk.Angle) bool { return a == b }, func() pk.Angle { return 0x55 })
	case 6:
		return aryOf[pk.VarLong](r, "VarLong", func() (pk.VarLong, []byte) { v := pk.VarLong(r.Int64B()); return v, refwire.EncVarLong(int64(v)) },
			func(a, b pk.VarLong) bool { return a == b }, func() pk.VarLong { return 0x99 })
	default:
		return aryOf[pk.BitSet](r, "BitSet", func() (pk.BitSet, []byte) {
			k := r.Intn(4)
			v := make(pk.BitSet, k)
			ref := refwire.EncVarInt(int32(k))
			for i := range v {
				v[i] = r.Int64B()
				ref = append(ref, be64(uint64(v[i]))...)
			}
			return v, ref
		}, func(a, b pk.BitSet) bool {
			if len(a) != len(b) {
				return false
			}
			for i := range a {
				if a[i] != b[i] {
					return false
				}
			}
			return true
		}, func() pk.BitSet {
			// an element used before: longer or shorter than what arrives, with or without room to spare
			v := r.Uint64()
			b := make(pk.BitSet, int(v%6), 6)
			if v&(1<<20) != 0 {
				b = b[:len(b):len(b)]
			}
			for i := range b[:cap(b)] {
				b[:cap(b)][i] = 0x99
			}
			return b
		})
	}
}

func bitSetNode(n int, r *vm.Rand) node {
	vals := make([]int64, n)
	ref := refwire.EncVarInt(int32(n))
	for i := range vals {
		vals[i] = int64(r.Uint64())
		ref = append(ref, be64(uint64(vals[i]))...)
	}
	return node{kind: "BitSet", enc: pk.BitSet(vals), ref: ref, dst: func(r *vm.Rand) (pk.FieldDecoder, func() string) {
		var prior []int64
		st := "nil"
		switch r.Intn(4) {
		case 1:
			prior, st = make([]int64, n+3), "longer"
		case 2:
			prior, st = make([]int64, n/2), "shorter"
		case 3:
			prior, st = make([]int64, 3, n+4), "spare-capacity"
		}
		for i := range prior[:cap(prior)] {
			prior[:cap(prior)][i] = 0x99
		}
		d := pk.BitSet(prior)
		return &d, func() string {
			if len(d) != n {
				return fmt.Sprintf("BitSet of %d longs (prior %s): len %d afterwards", n, st, len(d))
			}
			for i := range vals {
				if d[i] != vals[i] {
					return fmt.Sprintf("BitSet[%d] of %d longs (prior %s): %d want %d", i, n, st, d[i], vals[i])
				}
			}
			return ""
		}
	}}
}

// checkPrefixSizes: every VarInt-prefixed field on both sides of the second byte of its prefix (the third for the
// bit set and the arrays: strings and byte arrays have that in the forced big sizes).
func checkPrefixSizes(c *vm.Ctx, r *vm.Rand) {
	for _, n := range []int{127, 128, 129, 300, 16383, 16384} {
		nd := bitSetNode(n, r)
		checkNode(c, r, nd)
		if n <= 300 {
			checkCountsOnFailure(c, r, nd)
		}
		c.Cover(fmt.Sprintf("prefix.BitSet.%d-longs", n))
	}
	for _, n := range []int{16383, 16384, 16385} {
		checkNode(c, r, byteArrayNode(r, n))
		checkNode(c, r, stringNode(r, strings.Repeat("q", n)))
		c.Cover(fmt.Sprintf("prefix.ByteArray.%d-bytes", n))
		// arrays of one-byte and two-byte elements under the two variable-length prefixes
		vals := make([]pk.UnsignedByte, n)
		refs := make([][]byte, n)
		for i := range vals {
			vals[i] = pk.UnsignedByte(r.Uint64())
			refs[i] = []byte{byte(vals[i])}
		}
		eq := func(a, b pk.UnsignedByte) bool { return a == b }
		junk := func() pk.UnsignedByte { return 0x99 }
		if nd, ok := mkAry[pk.VarInt, pk.UnsignedByte, *pk.UnsignedByte](0, "UnsignedByte", vals, refs, eq, junk); ok {
			checkNode(c, r, nd)
		}
		if nd, ok := mkAry[pk.VarLong, pk.UnsignedByte, *pk.UnsignedByte](1, "UnsignedByte", vals, refs, eq, junk); ok {
			checkNode(c, r, nd)
		}
		c.Cover(fmt.Sprintf("prefix.Ary.%d-elements", n))
	}
	// the prefix of a string counts bytes, not characters
	for _, s := range []string{"héllo", "日本語", "\U0001F600", strings.Repeat("é", 64), strings.Repeat("é", 127), strings.Repeat("€", 43), strings.Repeat("\U0001F600", 32) + "x", "a\x00b", strings.Repeat("é", 8192)} {
		nd := stringNode(r, s)
		checkNode(c, r, nd)
		checkCountsOnFailure(c, r, nd)
	}
	c.Cover("prefix.String.multi-byte-characters")
}

// padVar writes the LEB128 groups of a minimal encoding in exactly n bytes (at most maxLen).
func padVar(enc []byte, n, maxLen int) []byte {
	n = min(n, maxLen)
	if n <= len(enc) {
		return enc
	}
	out := append([]byte{}, enc...)
	out[len(out)-1] |= 0x80
	for len(out) < n-1 {
		out = append(out, 0x80)
	}
	return append(out, 0x00)
}

// checkNonCanonical: a VarInt or VarLong may be written with more bytes than needed (continuation bits on zero
// groups); proxies do that to length prefixes. Whatever a decoder does with such a field, the count it returns is
// what it consumed; and if it accepts the field, the field has one meaning.
func checkNonCanonical(c *vm.Ctx, r *vm.Rand) {
	padI := func(v int32) []byte {
		m := refwire.EncVarInt(v)
		if v < 0 {
			return m
		}
		return padVar(m, len(m)+r.Range(1, 4), 5)
	}
	padL := func(v int64) []byte {
		m := refwire.EncVarLong(v)
		if v < 0 {
			return m
		}
		return padVar(m, len(m)+r.Range(1, 9), 10)
	}
	small := func() int32 {
		return []int32{0, 1, 2, 5, 127, 128, 300}[r.Intn(7)]
	}
	var kind string
	var field []byte
	var dec pk.FieldDecoder
	var chk func() string
	switch r.Intn(8) {
	case 0:
		v := int32(r.Int64B())
		if v < 0 || v >= 1<<28 {
			v = int32(r.Intn(1 << 28))
		}
		kind, field = "VarInt", padI(v)
		d := pk.VarInt(0x5555)
		dec, chk = &d, func() string { return diffStr(int64(d), int64(v)) }
	case 1:
		v := r.Int64B()
		if v < 0 {
			v = int64(r.Uint64() >> uint(1+r.Intn(62)))
		}
		kind, field = "VarLong", padL(v)
		if len(field) == len(refwire.EncVarLong(v)) {
			return // already ten bytes
		}
		d := pk.VarLong(0x5555)
		dec, chk = &d, func() string { return diffStr(int64(d), v) }
	case 2:
		s := string(r.Bytes(int(small())))
		kind, field = "String", append(padI(int32(len(s))), s...)
		d := pk.String("previous content")
		dec, chk = &d, func() string {
			if string(d) != s {
				return fmt.Sprintf("got %q want %q", trunc([]byte(d)), trunc([]byte(s)))
			}
			return ""
		}
	case 3:
		data := r.Bytes(int(small()))
		kind, field = "ByteArray", append(padI(int32(len(data))), data...)
		prior, st := priorBytes(r, len(data))
		d := pk.ByteArray(prior)
		dec, chk = &d, func() string {
			if !bytes.Equal(d, data) {
				return fmt.Sprintf("(prior %s) got len %d %x want len %d %x", st, len(d), trunc(d), len(data), trunc(data))
			}
			return ""
		}
	case 4:
		n := r.Intn(4)
		vals := make([]int64, n)
		field = padI(int32(n))
		for i := range vals {
			vals[i] = r.Int64B()
			field = append(field, be64(uint64(vals[i]))...)
		}
		kind = "BitSet"
		d := pk.BitSet(make([]int64, r.Intn(6)))
		dec, chk = &d, func() string {
			if len(d) != n {
				return fmt.Sprintf("len %d want %d", len(d), n)
			}
			for i := range vals {
				if d[i] != vals[i] {
					return fmt.Sprintf("[%d] got %d want %d", i, d[i], vals[i])
				}
			}
			return ""
		}
	case 5, 6:
		// arrays: the count, and the elements too, may be padded
		n := r.Intn(5)
		vals := make([]pk.VarInt, n)
		which := "VarInt"
		if r.Bool() {
			which = "VarLong"
			field = padL(int64(n))
		} else {
			field = padI(int32(n))
		}
		for i := range vals {
			vals[i] = pk.VarInt(r.Intn(1 << 20))
			if r.Bool() {
				field = append(field, padI(int32(vals[i]))...)
			} else {
				field = append(field, refwire.EncVarInt(int32(vals[i]))...)
			}
		}
		kind = "Ary[" + which + "]ofVarInt"
		d := make([]pk.VarInt, r.Intn(7), 8)
		for i := range d[:cap(d)] {
			d[:cap(d)][i] = 0x99
		}
		switch {
		case which == "VarLong":
			dec = pk.Ary[pk.VarLong]{Ary: &d}
		case r.Bool():
			dec = pk.Array(&d)
		default:
			dec = pk.Ary[pk.VarInt]{Ary: &d}
		}
		chk = func() string {
			if len(d) != n {
				return fmt.Sprintf("len %d want %d", len(d), n)
			}
			for i := range vals {
				if d[i] != vals[i] {
					return fmt.Sprintf("[%d] got %d want %d", i, d[i], vals[i])
				}
			}
			return ""
		}
	default:
		// a record whose parts all carry padded numbers
		e, _ := genRecord(r)
		if e.ID < 0 {
			e.ID = -(e.ID + 1)
		}
		e.List = e.List[:0]
		field = padI(int32(e.ID))
		field = append(append(field, padI(int32(len(e.Name)))...), e.Name...)
		field = append(append(field, padI(int32(len(e.Data)))...), e.Data...)
		field = append(field, 0)
		e.Opt.Has = false
		field = append(field, padI(0)...)
		kind = "Record"
		d := junkRecord(r)
		dec, chk = &d, func() string {
			if !eqRecord(d, e) {
				return fmt.Sprintf("got %v want %v", d, e)
			}
			return ""
		}
	}
	src := r.Intn(3)
	in := append(append([]byte{}, field...), 0xde, 0xad, 0xbe, 0xef, 0x01)
	var rd io.Reader
	var pos func() int
	sname := "bytereader"
	switch src {
	case 0:
		bs := &inject.ByteSrc{B: in}
		rd, pos = bs, func() int { return bs.Pos }
	case 1:
		pr := &inject.PlainReader{R: bytes.NewReader(in)}
		rd, pos, sname = pr, func() int { return int(pr.N) }, "plainreader"
	default:
		qr := &inject.QuirkReader{B: in, Stutter: true}
		rd, pos, sname = qr, func() int { return qr.Pos }, "plainreader.zero-progress-reads"
	}
	wit := func() any {
		return map[string]any{"kind": kind, "field_bytes_with_padded_numbers": vm.Hex(field), "source": sname}
	}
	var n int64
	var err error
	if c.Guard("noncanonical/"+kindClass(kind), wit, func() { n, err = dec.ReadFrom(rd) }) {
		return
	}
	c.Eval(vm.Hash64([]byte(kind), field), true)
	if n != int64(pos()) {
		c.Violation("noncanonical/byte-count/"+kindClass(kind), fmt.Sprintf("ReadFrom returned n=%d (err %v), %d bytes were consumed", n, err, pos()), wit())
		return
	}
	if err != nil {
		// a decoder that insists on minimal encodings is not what the statement forbids
		c.Cover("noncanonical.refused")
		return
	}
	if pos() != len(field) {
		c.Violation("noncanonical/consumed/"+kindClass(kind), fmt.Sprintf("ReadFrom succeeded and consumed %d bytes, the field is %d bytes", pos(), len(field)), wit())
		return
	}
	if s := chk(); s != "" {
		c.Violation("noncanonical/value/"+kindClass(kind), "accepted with another meaning: "+s, wit())
		return
	}
	c.Cover("noncanonical.accepted." + kindClass(kind))
}

func diffStr(got, want int64) string {
	if got != want {
		return fmt.Sprintf("got %d want %d", got, want)
	}
	return ""
}

// checkConcurrent: goroutines that share nothing encode and decode values of their own at the same time; every one
// must see what it would see alone.
func checkConcurrent(c *vm.Ctx, workers, perWorker int) {
	var wg sync.WaitGroup
	start := make(chan struct{})
	for g := 0; g < workers; g++ {
		wg.Add(1)
		go func(g int) {
			defer wg.Done()
			r := c.Rand(fmt.Sprintf("concurrent-%d", g))
			<-start
			for i := 0; i < perWorker; i++ {
				var nd node
				for {
					if r.Intn(4) == 0 {
						nd = gen(r, 1, false)
					} else {
						nd = leaf(r)
					}
					// (the NBT nodes consult the monitor's own type mapping; they have their own checks in C20)
					if !strings.Contains(nd.kind, "NBT") && !nd.tail && len(nd.ref) < 4096 {
						break
					}
				}
				wit := func() any {
					return map[string]any{"field": nd.kind, "reference_wire": vm.Hex(nd.ref), "goroutines_at_work": workers, "goroutine": g, "iteration": i}
				}
				kc := kindClass(nd.kind)
				var buf bytes.Buffer
				var wn, rn int64
				var err error
				if c.Guard("concurrent/write/"+kc, wit, func() { wn, err = nd.enc.WriteTo(&buf) }) {
					return
				}
				c.Eval(0, false)
				if err != nil || wn != int64(buf.Len()) || !bytes.Equal(buf.Bytes(), nd.ref) {
					c.Violation("concurrent/write/"+kc, fmt.Sprintf("with %d goroutines at work on values of their own: WriteTo gave %s (n=%d, err %v), alone it gives %s", workers, vm.Hex(buf.Bytes()), wn, err, vm.Hex(nd.ref)), wit())
					return
				}
				d, chk := nd.dst(r)
				var rd io.Reader = &inject.ByteSrc{B: nd.ref}
				if i%2 == 1 {
					rd = &inject.PlainReader{R: bytes.NewReader(nd.ref)}
				}
				if c.Guard("concurrent/read/"+kc, wit, func() { rn, err = d.ReadFrom(rd) }) {
					return
				}
				if err != nil || rn != int64(len(nd.ref)) {
					c.Violation("concurrent/read/"+kc, fmt.Sprintf("with %d goroutines at work on values of their own: ReadFrom returned n=%d err %v for a field of %d bytes", workers, rn, err, len(nd.ref)), wit())
					return
				}
				if s := chk(); s != "" {
					c.Violation("concurrent/read/"+kc, fmt.Sprintf("with %d goroutines at work on values of their own: %s", workers, s), wit())
					return
				}
			}
			c.Cover("concurrent.worker-finished")
		}(g)
	}
	close(start)
	wg.Wait()
}

// plainBytes is the cheapest plain io.Reader (no ReadByte) over a few bytes.
type plainBytes struct {
	b   []byte
	pos int
}

func (p *plainBytes) Read(b []byte) (int, error) {
	if p.pos >= len(p.b) {
		return 0, io.EOF
	}
	n := copy(b, p.b[p.pos:])
	p.pos += n
	return n, nil
}

// checkConcurrentScalars: the fixed-size fields and the two variable-length numbers in tight loops, every goroutine
// with values of its own (derived from its number), so that the calls of different goroutines overlap as often as
// possible. A field written or read alone gives the reference bytes / the value; it must give them here too.
func checkConcurrentScalars(c *vm.Ctx, workers, rounds int) {
	var wg sync.WaitGroup
	start := make(chan struct{})
	for g := 0; g < workers; g++ {
		wg.Add(1)
		go func(g int) {
			defer wg.Done()
			k := uint64(g+1) * 0x0123456789abcdef
			b8, i64 := byte(k>>56)|1, int64(k)
			f32, f64 := math.Float32frombits(uint32(k>>20)&0x7f7fffff), math.Float64frombits(k&0x7fefffffffffffff)
			pos := pk.Position{X: int(int32(k>>7)) >> 6, Y: int(int16(k>>3)) >> 4, Z: int(int32(k>>29)) >> 6}
			var u pk.UUID
			for i := range u {
				u[i] = byte(k >> (uint(i%8) * 8))
			}
			type item struct {
				kind string
				enc  pk.FieldEncoder
				ref  []byte
				dec  func(io.Reader) (int64, error, bool)
			}
			var dBool pk.Boolean
			var dByte pk.Byte
			var dUB pk.UnsignedByte
			var dAng pk.Angle
			var dSh pk.Short
			var dUS pk.UnsignedShort
			var dInt pk.Int
			var dLong pk.Long
			var dF pk.Float
			var dD pk.Double
			var dVI pk.VarInt
			var dVL pk.VarLong
			var dPos pk.Position
			var dU pk.UUID
			items := []item{
				{"Boolean", pk.Boolean(g%2 == 0), []byte{byte(1 - g%2)}, func(r io.Reader) (int64, error, bool) {
					dBool = g%2 != 0
					n, err := dBool.ReadFrom(r)
					return n, err, dBool == (g%2 == 0)
				}},
				{"Byte", pk.Byte(b8), []byte{b8}, func(r io.Reader) (int64, error, bool) {
					dByte = 0
					n, err := dByte.ReadFrom(r)
					return n, err, dByte == pk.Byte(b8)
				}},
				{"UnsignedByte", pk.UnsignedByte(b8), []byte{b8}, func(r io.Reader) (int64, error, bool) {
					dUB = 0
					n, err := dUB.ReadFrom(r)
					return n, err, dUB == pk.UnsignedByte(b8)
				}},
				{"Angle", pk.Angle(b8), []byte{b8}, func(r io.Reader) (int64, error, bool) {
					dAng = 0
					n, err := dAng.ReadFrom(r)
					return n, err, dAng == pk.Angle(b8)
				}},
				{"Short", pk.Short(i64), be16(uint16(i64)), func(r io.Reader) (int64, error, bool) {
					dSh = 0
					n, err := dSh.ReadFrom(r)
					return n, err, dSh == pk.Short(i64)
				}},
				{"UnsignedShort", pk.UnsignedShort(i64), be16(uint16(i64)), func(r io.Reader) (int64, error, bool) {
					dUS = 0
					n, err := dUS.ReadFrom(r)
					return n, err, dUS == pk.UnsignedShort(i64)
				}},
				{"Int", pk.Int(i64), be32(uint32(i64)), func(r io.Reader) (int64, error, bool) {
					dInt = 0
					n, err := dInt.ReadFrom(r)
					return n, err, dInt == pk.Int(i64)
				}},
				{"Long", pk.Long(i64), be64(uint64(i64)), func(r io.Reader) (int64, error, bool) {
					dLong = 0
					n, err := dLong.ReadFrom(r)
					return n, err, dLong == pk.Long(i64)
				}},
				{"Float", pk.Float(f32), be32(math.Float32bits(f32)), func(r io.Reader) (int64, error, bool) {
					dF = 0
					n, err := dF.ReadFrom(r)
					return n, err, math.Float32bits(float32(dF)) == math.Float32bits(f32)
				}},
				{"Double", pk.Double(f64), be64(math.Float64bits(f64)), func(r io.Reader) (int64, error, bool) {
					dD = 0
					n, err := dD.ReadFrom(r)
					return n, err, math.Float64bits(float64(dD)) == math.Float64bits(f64)
				}},
				{"VarInt", pk.VarInt(i64), refwire.EncVarInt(int32(i64)), func(r io.Reader) (int64, error, bool) {
					dVI = 0
					n, err := dVI.ReadFrom(r)
					return n, err, dVI == pk.VarInt(i64)
				}},
				{"VarLong", pk.VarLong(i64), refwire.EncVarLong(i64), func(r io.Reader) (int64, error, bool) {
					dVL = 0
					n, err := dVL.ReadFrom(r)
					return n, err, dVL == pk.VarLong(i64)
				}},
				{"Position", pos, refPosition(pos), func(r io.Reader) (int64, error, bool) {
					dPos = pk.Position{}
					n, err := dPos.ReadFrom(r)
					return n, err, dPos == pos
				}},
				{"UUID", u, append([]byte{}, u[:]...), func(r io.Reader) (int64, error, bool) {
					dU = pk.UUID{}
					n, err := dU.ReadFrom(r)
					return n, err, dU == u
				}},
			}
			var buf bytes.Buffer
			pr := &plainBytes{}
			br := &inject.ByteSrc{}
			<-start
			for i := 0; i < rounds; i++ {
				for _, it := range items {
					wit := func() any {
						return map[string]any{"field": it.kind, "reference_wire": vm.Hex(it.ref), "goroutines_at_work": workers, "goroutine": g, "round": i, "other_goroutines": "the same fields with other values"}
					}
					buf.Reset()
					var wn, rn int64
					var err error
					var same bool
					if c.Guard("concurrent/write/"+it.kind, wit, func() { wn, err = it.enc.WriteTo(&buf) }) {
						return
					}
					if err != nil || wn != int64(len(it.ref)) || !bytes.Equal(buf.Bytes(), it.ref) {
						c.Violation("concurrent/write/"+it.kind, fmt.Sprintf("with %d goroutines writing values of their own: WriteTo gave %s (n=%d, err %v), alone it gives %s", workers, vm.Hex(buf.Bytes()), wn, err, vm.Hex(it.ref)), wit())
						return
					}
					var rd io.Reader
					if i%2 == 0 {
						pr.b, pr.pos = it.ref, 0
						rd = pr
					} else {
						br.B, br.Pos = it.ref, 0
						rd = br
					}
					if c.Guard("concurrent/read/"+it.kind, wit, func() { rn, err, same = it.dec(rd) }) {
						return
					}
					if err != nil || rn != int64(len(it.ref)) || !same {
						c.Violation("concurrent/read/"+it.kind, fmt.Sprintf("with %d goroutines reading values of their own: ReadFrom of %s returned n=%d err %v, value as written: %v", workers, vm.Hex(it.ref), rn, err, same), wit())
						return
					}
				}
			}
			c.EvalN(int64(rounds*len(items)), 0, false)
			c.Cover("concurrent.scalars.worker-finished")
		}(g)
	}
	close(start)
	wg.Wait()
}

// checkBuilderForms: a Builder fed several fields per call and asked for its packet twice; Opt fields that are
// switched off and have no Field.
func checkBuilderForms(c *vm.Ctx, r *vm.Rand) {
	n := r.Range(2, 7)
	var nodes []node
	var encs []pk.FieldEncoder
	var cum [][]byte // reference data after each field
	var want []byte
	off := false
	for i := 0; i < n; i++ {
		if r.Intn(4) == 0 {
			// an optional part that is absent: nothing on the wire, the Field is never looked at
			var o pk.Opt
			switch r.Intn(3) {
			case 0:
				o = pk.Opt{Has: func() bool { return false }, Field: nil}
			case 1:
				o = pk.Opt{Has: &off, Field: nil}
			default:
				hb := pk.Boolean(false)
				o = pk.Opt{Has: &hb}
			}
			nodes = append(nodes, node{kind: "Opt(absent, no Field)", enc: o, dst: func(*vm.Rand) (pk.FieldDecoder, func() string) { return o, func() string { return "" } }})
			c.Cover("opt.absent-without-field")
		} else {
			nodes = append(nodes, gen(r, 1, false))
		}
		k := nodes[len(nodes)-1]
		encs = append(encs, k.enc)
		want = append(want, k.ref...)
		cum = append(cum, append([]byte{}, want...))
	}
	wit := func() any {
		ks := []string{}
		for _, k := range nodes {
			ks = append(ks, k.kind)
		}
		return map[string]any{"fields": ks, "reference_data": vm.Hex(trunc(want))}
	}
	// cut the fields into calls: (0..i), (), (i..j), (j..n)
	i := r.Range(1, n-1)
	j := r.Range(i, n)
	var b pk.Builder
	var first, second pk.Packet
	var firstThen []byte
	if c.Guard("packet/builder", wit, func() {
		b.WriteField(encs[:i]...)
		first = b.Packet(7)
		firstThen = append([]byte{}, first.Data...)
		b.WriteField()
		b.WriteField(encs[i:j]...)
		b.WriteField(encs[j:]...)
		second = b.Packet(-3)
	}) {
		return
	}
	c.Eval(vm.Hash64(want, []byte("builder-forms")), true)
	switch {
	case first.ID != 7 || !bytes.Equal(firstThen, cum[i-1]):
		c.Violation("packet/builder/composition", fmt.Sprintf("WriteField with %d fields in one call, then Packet(7): id %d data %s, want %s", i, first.ID, vm.Hex(trunc(firstThen)), vm.Hex(trunc(cum[i-1]))), wit())
		return
	case second.ID != -3 || !bytes.Equal(second.Data, want):
		c.Violation("packet/builder/composition", fmt.Sprintf("WriteField calls of %d, 0, %d and %d fields, then Packet(-3): id %d data %s, want %s", i, j-i, n-j, second.ID, vm.Hex(trunc(second.Data)), vm.Hex(trunc(want))), wit())
		return
	}
	c.Cover("builder.several-fields-per-call")
	c.Cover("builder.packet-taken-twice")
	// Marshal with the same fields, scanned back (the absent Opts take part in the Scan)
	var p pk.Packet
	if c.Guard("packet/marshal", wit, func() { p = pk.Marshal(int32(5), encs...) }) {
		return
	}
	if !bytes.Equal(p.Data, want) {
		c.Violation("packet/marshal/composition", fmt.Sprintf("Marshal produced data %s, want %s", vm.Hex(trunc(p.Data)), vm.Hex(trunc(want))), wit())
		return
	}
	var ds []pk.FieldDecoder
	var chks []func() string
	for _, k := range nodes {
		d, ch := k.dst(r)
		ds = append(ds, d)
		chks = append(chks, ch)
	}
	var err error
	if c.Guard("packet/scan", wit, func() { err = p.Scan(ds...) }) {
		return
	}
	if err != nil {
		c.Violation("packet/scan/error", "Scan of a packet built by Marshal failed: "+err.Error(), wit())
		return
	}
	for i, ch := range chks {
		if s := ch(); s != "" {
			c.Violation("packet/scan/order-or-value", fmt.Sprintf("field %d (%s): %s", i, nodes[i].kind, s), wit())
			return
		}
	}
}

func init() { compositeElems["BitSet"] = true } // few of them per array, like the other elements that have parts

// runBlind2 is called from run.
func runBlind2(c *vm.Ctx) {
	t0 := vm.CPUSeconds()
	lap := func(what string) {
		if os.Getenv("VERIF_TIMING") != "" {
			fmt.Fprintf(os.Stderr, "C06 shard %d: %s %.2f CPU s\n", c.Shard, what, vm.CPUSeconds()-t0)
		}
		t0 = vm.CPUSeconds()
	}
	// per shard what a shard of the 8-shard plain run does (the 386 run has two shards in the quick tier)
	scale := func(q, t int) int {
		n := c.Scale(q, t)
		if c.Mode == "ia32" {
			n = (n + 3) / 4
		}
		return n
	}
	ar := c.Rand("array-entry")
	for i := 0; i < scale(24000, 400000); i++ {
		checkArrayEntry(c, ar)
	}
	lap("array-entry")
	xr := c.Rand("extra-ary-elements")
	for i := 0; i < scale(16000, 300000); i++ {
		if nd, ok := extraAryNode(xr); ok {
			checkNode(c, xr, nd)
			checkCountsOnFailure(c, xr, nd)
		}
	}
	lap("extra-ary-elements")
	if c.Shard == 3%c.NShards {
		checkPrefixSizes(c, c.Rand("prefix-sizes"))
	}
	lap("prefix-sizes")
	nr := c.Rand("noncanonical")
	for i := 0; i < scale(80000, 1500000); i++ {
		checkNonCanonical(c, nr)
	}
	lap("noncanonical")
	checkConcurrent(c, 8, scale(160000, 2400000))
	lap("concurrent")
	checkConcurrentScalars(c, 8, scale(400000, 6000000))
	lap("concurrent-scalars")
	br := c.Rand("builder-forms")
	for i := 0; i < scale(16000, 300000); i++ {
		checkBuilderForms(c, br)
	}
	lap("builder-forms")
}
