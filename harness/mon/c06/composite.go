package main

import (
	"bytes"
	"fmt"
	"io"

	pk "github.com/Tnze/go-mc/net/packet"

	"verif/ref/refwire"
	"verif/vm"
)

// optStr is an Option used as an array element.
type optStr = pk.Option[pk.String, *pk.String]

// record is a small composite element type of the kind real packets use under Ary and Option: a struct whose
// WriteTo/ReadFrom go through Tuple, holding a byte array (a buffer that may be reused), an Option and an inner Ary.
type record struct {
	ID   pk.VarInt
	Name pk.String
	Data pk.ByteArray
	Opt  pk.Option[pk.Long, *pk.Long]
	List []pk.VarInt
}

func (e record) WriteTo(w io.Writer) (int64, error) {
	return pk.Tuple{e.ID, e.Name, e.Data, e.Opt, pk.Ary[pk.VarInt]{Ary: e.List}}.WriteTo(w)
}

func (e *record) ReadFrom(r io.Reader) (int64, error) {
	return pk.Tuple{&e.ID, &e.Name, &e.Data, &e.Opt, pk.Ary[pk.VarInt]{Ary: &e.List}}.ReadFrom(r)
}

func genRecord(r *vm.Rand) (record, []byte) {
	var e record
	e.ID = pk.VarInt(r.Int64B())
	s := genString(r)
	if len(s) > 20 {
		s = s[:20]
	}
	e.Name = pk.String(s)
	e.Data = pk.ByteArray(r.Bytes(r.Range(0, 12)))
	e.Opt.Has = pk.Boolean(r.Bool())
	e.Opt.Val = pk.Long(r.Int64B())
	for i := r.Intn(4); i > 0; i-- {
		e.List = append(e.List, pk.VarInt(r.Int64B()))
	}
	ref := refwire.EncVarInt(int32(e.ID))
	ref = append(ref, refwire.EncVarInt(int32(len(e.Name)))...)
	ref = append(ref, e.Name...)
	ref = append(ref, refwire.EncVarInt(int32(len(e.Data)))...)
	ref = append(ref, e.Data...)
	if e.Opt.Has {
		ref = append(ref, 1)
		ref = append(ref, be64(uint64(e.Opt.Val))...)
	} else {
		ref = append(ref, 0)
	}
	ref = append(ref, refwire.EncVarInt(int32(len(e.List)))...)
	for _, v := range e.List {
		ref = append(ref, refwire.EncVarInt(int32(v))...)
	}
	return e, ref
}

// junkRecord is what a destination element may hold from an earlier use: every part set, buffers of unrelated sizes.
func junkRecord(r *vm.Rand) record {
	e := record{ID: 0x99, Name: "junk", Data: pk.ByteArray(bytes.Repeat([]byte{9}, r.Range(0, 12)))}
	e.Opt.Has, e.Opt.Val = pk.Boolean(r.Bool()), 0x99
	e.List = make([]pk.VarInt, r.Intn(6), 6)
	for i := range e.List[:cap(e.List)] {
		e.List[:cap(e.List)][i] = 0x99
	}
	return e
}

// eqRecord: the value of an Option that says "absent" is not part of what was written.
func eqRecord(a, b record) bool {
	if a.ID != b.ID || a.Name != b.Name || !bytes.Equal(a.Data, b.Data) || a.Opt.Has != b.Opt.Has || (bool(a.Opt.Has) && a.Opt.Val != b.Opt.Val) || len(a.List) != len(b.List) {
		return false
	}
	for i := range a.List {
		if a.List[i] != b.List[i] {
			return false
		}
	}
	return true
}

func (e record) String() string {
	return fmt.Sprintf("{id %d name %q data %x opt %v/%d list %v}", e.ID, string(e.Name), []byte(e.Data), bool(e.Opt.Has), e.Opt.Val, e.List)
}

func genOptStr(r *vm.Rand) (optStr, []byte) {
	var o optStr
	o.Has = pk.Boolean(r.Bool())
	s := genString(r)
	if len(s) > 40 {
		s = s[:40]
	}
	o.Val = pk.String(s)
	if !o.Has {
		return o, []byte{0}
	}
	return o, append([]byte{1}, append(refwire.EncVarInt(int32(len(s))), s...)...)
}

func eqOptStr(a, b optStr) bool { return a.Has == b.Has && (!bool(a.Has) || a.Val == b.Val) }

// compositeOptionNode: Option, OptionEncoder and OptionDecoder around things other than VarInt: a byte array (the
// destination's buffer has a history of its own), a record (Tuple-based ReadFrom) and an Ary.
func compositeOptionNode(r *vm.Rand) node {
	has := r.Bool()
	pre := func(ref []byte) []byte {
		if !has {
			return []byte{0}
		}
		return append([]byte{1}, ref...)
	}
	switch r.Intn(4) {
	case 0:
		data := r.Bytes([]int{0, 1, 5, 127, 128, 300}[r.Intn(6)])
		ref := pre(append(refwire.EncVarInt(int32(len(data))), data...))
		var enc pk.FieldEncoder = pk.Option[pk.ByteArray, *pk.ByteArray]{Has: pk.Boolean(has), Val: data}
		kind := "Option[ByteArray]"
		if r.Bool() {
			enc, kind = pk.OptionEncoder[pk.ByteArray]{Has: pk.Boolean(has), Val: data}, "OptionEncoder[ByteArray]"
		}
		useDec := r.Bool()
		return node{kind: kind, enc: enc, ref: ref, dst: func(r *vm.Rand) (pk.FieldDecoder, func() string) {
			prior, st := priorBytes(r, len(data))
			chk := func(gotHas pk.Boolean, got pk.ByteArray) string {
				if bool(gotHas) != has || (has && !bytes.Equal(got, data)) {
					return fmt.Sprintf("%s (prior value %s): has=%v val=%x want has=%v val=%x", kind, st, gotHas, trunc(got), has, trunc(data))
				}
				coverMisc("option.ByteArray")
				return ""
			}
			if useDec {
				d := &pk.OptionDecoder[pk.ByteArray, *pk.ByteArray]{Has: pk.Boolean(!has), Val: prior}
				return d, func() string { return chk(d.Has, d.Val) }
			}
			d := &pk.Option[pk.ByteArray, *pk.ByteArray]{Has: pk.Boolean(!has), Val: prior}
			return d, func() string { return chk(d.Has, d.Val) }
		}}
	case 1:
		v, vref := genRecord(r)
		ref := pre(vref)
		var enc pk.FieldEncoder = pk.Option[record, *record]{Has: pk.Boolean(has), Val: v}
		kind := "Option[Record]"
		if r.Bool() {
			enc, kind = pk.OptionEncoder[record]{Has: pk.Boolean(has), Val: v}, "OptionEncoder[Record]"
		}
		useDec := r.Bool()
		return node{kind: kind, enc: enc, ref: ref, dst: func(r *vm.Rand) (pk.FieldDecoder, func() string) {
			var prior record
			if r.Bool() {
				prior = junkRecord(r)
			}
			chk := func(gotHas pk.Boolean, got record) string {
				if bool(gotHas) != has || (has && !eqRecord(got, v)) {
					return fmt.Sprintf("%s: has=%v val=%v want has=%v val=%v", kind, gotHas, got, has, v)
				}
				coverMisc("option.Record")
				return ""
			}
			if useDec {
				d := &pk.OptionDecoder[record, *record]{Has: pk.Boolean(!has), Val: prior}
				return d, func() string { return chk(d.Has, d.Val) }
			}
			d := &pk.Option[record, *record]{Has: pk.Boolean(!has), Val: prior}
			return d, func() string { return chk(d.Has, d.Val) }
		}}
	case 2:
		// OptionDecoder / OptionEncoder around a String
		s := pk.String(genString(r))
		if len(s) > 100 {
			s = s[:100]
		}
		ref := pre(append(refwire.EncVarInt(int32(len(s))), s...))
		return node{kind: "OptionEncoder[String]", enc: pk.OptionEncoder[pk.String]{Has: pk.Boolean(has), Val: s}, ref: ref, dst: func(r *vm.Rand) (pk.FieldDecoder, func() string) {
			d := &pk.OptionDecoder[pk.String, *pk.String]{Has: pk.Boolean(!has), Val: "old"}
			return d, func() string {
				if bool(d.Has) != has || (has && d.Val != s) {
					return fmt.Sprintf("OptionDecoder[String]: has=%v val=%q want has=%v val=%q", d.Has, d.Val, has, s)
				}
				coverMisc("option.String.encoder-decoder")
				return ""
			}
		}}
	default:
		// Option around an Ary: the array behind the Ary is the destination
		n := r.Range(0, 5)
		vals := make([]pk.VarInt, n)
		aref := refwire.EncVarInt(int32(n))
		for i := range vals {
			vals[i] = pk.VarInt(r.Int64B())
			aref = append(aref, refwire.EncVarInt(int32(vals[i]))...)
		}
		ref := pre(aref)
		type optAry = pk.Option[pk.Ary[pk.VarInt], *pk.Ary[pk.VarInt]]
		return node{kind: "Option[Ary]", enc: optAry{Has: pk.Boolean(has), Val: pk.Ary[pk.VarInt]{Ary: vals}}, ref: ref, dst: func(r *vm.Rand) (pk.FieldDecoder, func() string) {
			prior := make([]pk.VarInt, r.Intn(8), 8)
			for i := range prior[:cap(prior)] {
				prior[:cap(prior)][i] = 0x99
			}
			before := len(prior)
			d := &optAry{Has: pk.Boolean(!has), Val: pk.Ary[pk.VarInt]{Ary: &prior}}
			return d, func() string {
				if bool(d.Has) != has {
					return fmt.Sprintf("Option[Ary]: has=%v want %v", d.Has, has)
				}
				if !has {
					if len(prior) != before {
						return "Option[Ary] without value changed the array behind it"
					}
					return ""
				}
				if len(prior) != n {
					return fmt.Sprintf("Option[Ary]: destination has len %d after reading %d elements", len(prior), n)
				}
				for i := range vals {
					if prior[i] != vals[i] {
						return fmt.Sprintf("Option[Ary][%d]: got %d want %d", i, prior[i], vals[i])
					}
				}
				coverMisc("option.Ary")
				return ""
			}
		}}
	}
}
