package main

import (
	"bytes"
	"fmt"
	"reflect"

	"github.com/Tnze/go-mc/nbt"

	"verif/ref/refnbt"
	"verif/vm"
)

// A compound decoded into a typed Go map: every member is a value of its own. Members that carry different subsets
// of an element struct's fields (one has x and p, the next only y) show whether anything of one member reaches another
// - a field left over, a shared pointer, slice or inner map.

type mapElem struct {
	X int32            `nbt:"x"`
	Y int32            `nbt:"y"`
	P *int32           `nbt:"p"`
	S []int8           `nbt:"s"`
	M map[string]int32 `nbt:"m"`
	L []int32          `nbt:"l"`
}

func (e mapElem) describe() string {
	p := "nil"
	if e.P != nil {
		p = fmt.Sprint(*e.P)
	}
	m := "nil"
	if e.M != nil {
		m = fmt.Sprint(e.M)
	}
	return fmt.Sprintf("{x:%d y:%d p:%s s:%v m:%s l:%v}", e.X, e.Y, p, e.S, m, e.L)
}

func checkMapElements(c *vm.Ctx, r *vm.Rand) {
	n := r.Range(2, 6)
	root := &refnbt.Value{Tag: refnbt.Compound}
	want := map[string]mapElem{}
	var order []string
	for i := 0; i < n; i++ {
		name := fmt.Sprintf("m%d", i)
		mem := &refnbt.Value{Tag: refnbt.Compound}
		var e mapElem
		if r.Bool() {
			e.X = int32(r.Uint64())
			mem.Comp = append(mem.Comp, refnbt.Entry{Name: "x", V: refnbt.In(e.X)})
		}
		if r.Bool() {
			e.Y = int32(r.Uint64())
			mem.Comp = append(mem.Comp, refnbt.Entry{Name: "y", V: refnbt.In(e.Y)})
		}
		if r.Bool() {
			v := int32(r.Uint64())
			e.P = &v
			mem.Comp = append(mem.Comp, refnbt.Entry{Name: "p", V: refnbt.In(v)})
		}
		if r.Bool() {
			b := r.Bytes(r.Range(0, 4))
			e.S = make([]int8, len(b))
			for k := range b {
				e.S[k] = int8(b[k])
			}
			mem.Comp = append(mem.Comp, refnbt.Entry{Name: "s", V: &refnbt.Value{Tag: refnbt.ByteArray, Bytes: b}})
		}
		if r.Bool() {
			e.M = map[string]int32{}
			inner := &refnbt.Value{Tag: refnbt.Compound}
			for k := r.Range(0, 3); k > 0; k-- {
				key := fmt.Sprintf("k%d", r.Intn(4))
				if _, dup := e.M[key]; dup {
					continue
				}
				v := int32(r.Uint64())
				e.M[key] = v
				inner.Comp = append(inner.Comp, refnbt.Entry{Name: key, V: refnbt.In(v)})
			}
			mem.Comp = append(mem.Comp, refnbt.Entry{Name: "m", V: inner})
		}
		if r.Bool() {
			e.L = make([]int32, r.Range(0, 3))
			lst := &refnbt.Value{Tag: refnbt.IntArray}
			for k := range e.L {
				e.L[k] = int32(r.Uint64())
				lst.Ints = append(lst.Ints, e.L[k])
			}
			mem.Comp = append(mem.Comp, refnbt.Entry{Name: "l", V: lst})
		}
		root.Comp = append(root.Comp, refnbt.Entry{Name: name, V: mem})
		want[name] = e
		order = append(order, name)
	}
	network := r.Bool()
	doc := refnbt.Encode(root, "", network)
	wit := func() any {
		return map[string]any{"doc_hex": vm.Hex(doc), "network": network, "document": refnbt.Describe(root)}
	}
	c.Eval(vm.Hash64(doc, []byte("map-elements")), true)
	same := func(got, w mapElem) bool {
		if got.X != w.X || got.Y != w.Y || (got.P == nil) != (w.P == nil) || (got.P != nil && *got.P != *w.P) {
			return false
		}
		if len(got.S) != len(w.S) || len(got.L) != len(w.L) || len(got.M) != len(w.M) || (w.M == nil) != (got.M == nil) && len(w.M) > 0 {
			return false
		}
		for i := range w.S {
			if got.S[i] != w.S[i] {
				return false
			}
		}
		for i := range w.L {
			if got.L[i] != w.L[i] {
				return false
			}
		}
		for k, v := range w.M {
			if gv, ok := got.M[k]; !ok || gv != v {
				return false
			}
		}
		// a member without s / l / m must not show one (nil or empty are both "none")
		return true
	}
	for _, kind := range []string{"map[string]struct", "map[string]*struct"} {
		byVal := map[string]mapElem{}
		byPtr := map[string]*mapElem{}
		var err error
		if c.Guard("dec/map-elements/"+kind, wit, func() {
			d := nbt.NewDecoder(bytes.NewReader(doc))
			d.NetworkFormat(network)
			if kind == "map[string]struct" {
				_, err = d.Decode(&byVal)
			} else {
				_, err = d.Decode(&byPtr)
			}
		}) {
			continue
		}
		if err != nil {
			c.Violation("dec/map-elements/error-on-wellformed/"+kind, "decoding a compound of compounds into "+kind+" failed: "+err.Error(), wit())
			continue
		}
		get := func(name string) (mapElem, bool) {
			if kind == "map[string]struct" {
				v, ok := byVal[name]
				return v, ok
			}
			p, ok := byPtr[name]
			if !ok || p == nil {
				return mapElem{}, false
			}
			return *p, true
		}
		ok := len(byVal)+len(byPtr) == n
		for _, name := range order {
			got, present := get(name)
			if !present || !same(got, want[name]) {
				c.Violation("dec/map-elements/member-differs/"+kind, fmt.Sprintf("member %s decoded into %s is %s, the document says %s", name, kind, got.describe(), want[name].describe()), wit())
				ok = false
				break
			}
		}
		if !ok {
			continue
		}
		// nothing shared between entries: writing through one entry's pointer / slice / inner map leaves the others alone
		if kind == "map[string]*struct" {
			seen := map[*mapElem]bool{}
			for _, p := range byPtr {
				if seen[p] {
					c.Violation("dec/map-elements/entries-share-one-element", "two entries of the decoded map point at one element", wit())
					ok = false
					break
				}
				seen[p] = true
			}
		}
		if ok {
			ptrs := map[uintptr]string{}
			for _, name := range order {
				got, _ := get(name)
				for what, rv := range map[string]reflect.Value{"p": reflect.ValueOf(got.P), "m": reflect.ValueOf(got.M)} {
					if rv.IsNil() {
						continue
					}
					if other, dup := ptrs[rv.Pointer()]; dup {
						c.Violation("dec/map-elements/entries-share-memory", fmt.Sprintf("field %s of member %s and of member %s are the same object", what, name, other), wit())
						ok = false
					}
					ptrs[rv.Pointer()] = name
				}
			}
		}
		if ok {
			c.Cover("dec.map-elements." + kind)
		}
	}
}

// randomMember returns a compound carrying a random subset of mapElem's fields and the element it denotes.
func randomMember(r *vm.Rand) (*refnbt.Value, mapElem) {
	mem := &refnbt.Value{Tag: refnbt.Compound}
	var e mapElem
	if r.Bool() {
		e.X = int32(r.Uint64())
		mem.Comp = append(mem.Comp, refnbt.Entry{Name: "x", V: refnbt.In(e.X)})
	}
	if r.Bool() {
		e.Y = int32(r.Uint64())
		mem.Comp = append(mem.Comp, refnbt.Entry{Name: "y", V: refnbt.In(e.Y)})
	}
	if r.Bool() {
		v := int32(r.Uint64())
		e.P = &v
		mem.Comp = append(mem.Comp, refnbt.Entry{Name: "p", V: refnbt.In(v)})
	}
	if r.Bool() {
		b := r.Bytes(r.Range(0, 4))
		e.S = make([]int8, len(b))
		for k := range b {
			e.S[k] = int8(b[k])
		}
		mem.Comp = append(mem.Comp, refnbt.Entry{Name: "s", V: &refnbt.Value{Tag: refnbt.ByteArray, Bytes: b}})
	}
	if r.Bool() {
		e.M = map[string]int32{}
		inner := &refnbt.Value{Tag: refnbt.Compound}
		for k := r.Range(0, 3); k > 0; k-- {
			key := fmt.Sprintf("k%d", r.Intn(4))
			if _, dup := e.M[key]; dup {
				continue
			}
			v := int32(r.Uint64())
			e.M[key] = v
			inner.Comp = append(inner.Comp, refnbt.Entry{Name: key, V: refnbt.In(v)})
		}
		mem.Comp = append(mem.Comp, refnbt.Entry{Name: "m", V: inner})
	}
	if r.Bool() {
		e.L = make([]int32, r.Range(0, 3))
		lst := &refnbt.Value{Tag: refnbt.IntArray}
		for k := range e.L {
			e.L[k] = int32(r.Uint64())
			lst.Ints = append(lst.Ints, e.L[k])
		}
		mem.Comp = append(mem.Comp, refnbt.Entry{Name: "l", V: lst})
	}
	return mem, e
}

func sameElem(got, w mapElem) bool {
	if got.X != w.X || got.Y != w.Y || (got.P == nil) != (w.P == nil) || (got.P != nil && *got.P != *w.P) {
		return false
	}
	if len(got.S) != len(w.S) || len(got.L) != len(w.L) || len(got.M) != len(w.M) {
		return false
	}
	for i := range w.S {
		if got.S[i] != w.S[i] {
			return false
		}
	}
	for i := range w.L {
		if got.L[i] != w.L[i] {
			return false
		}
	}
	for k, v := range w.M {
		if gv, ok := got.M[k]; !ok || gv != v {
			return false
		}
	}
	return true
}

type listHolder struct {
	A  int32      `nbt:"a"`
	Es []mapElem  `nbt:"es"`
	Ps []*mapElem `nbt:"ps"`
	Z  string     `nbt:"z"`
}

// checkListElements: the same for a LIST of compounds decoded into []T, []*T, [N]T and [N]*T (N two more than the
// list is long), at the root, as a struct member (the list twice: by value and by pointer) and as a map value. The
// generated receivers hold lists of compounds only as []any / []map[string]any. Every element is a value of its
// own: nothing of one element may show in the next, no two elements may share a pointer, slice or inner map, and
// what a fixed-size array has beyond the list stays zero.
func checkListElements(c *vm.Ctx, r *vm.Rand) {
	n := r.Range(2, 6)
	list := &refnbt.Value{Tag: refnbt.List, Elem: refnbt.Compound}
	var want []mapElem
	for i := 0; i < n; i++ {
		mem, e := randomMember(r)
		list.List = append(list.List, mem)
		want = append(want, e)
	}
	network := r.Bool()
	position := []string{"root", "member", "map-value"}[r.Intn(3)]
	root := list
	switch position {
	case "member":
		root = &refnbt.Value{Tag: refnbt.Compound, Comp: []refnbt.Entry{{Name: "a", V: refnbt.In(7)}, {Name: "es", V: list}, {Name: "ps", V: list}, {Name: "z", V: refnbt.St("after")}}}
	case "map-value":
		root = &refnbt.Value{Tag: refnbt.Compound, Comp: []refnbt.Entry{{Name: "k1", V: list}, {Name: "k2", V: list}}}
	}
	doc := refnbt.Encode(root, "", network)
	wit := func() any {
		return map[string]any{"doc_hex": vm.Hex(doc), "network": network, "position_of_the_list": position, "document": refnbt.Describe(root)}
	}
	c.Eval(vm.Hash64(doc, []byte("list-elements")), true)
	type receiver struct {
		kind string
		ptr  any                      // what Decode gets
		get  func() ([]*mapElem, int) // the elements as pointers (nil where a pointer element is nil), and the receiver's length
	}
	vals := func(s []mapElem) []*mapElem {
		out := make([]*mapElem, len(s))
		for i := range s {
			out[i] = &s[i]
		}
		return out
	}
	var recs []receiver
	switch position {
	case "root":
		var sv []mapElem
		var sp []*mapElem
		av := reflect.New(reflect.ArrayOf(n+2, reflect.TypeOf(mapElem{})))
		ap := reflect.New(reflect.ArrayOf(n+2, reflect.TypeOf(&mapElem{})))
		recs = []receiver{
			{"[]struct", &sv, func() ([]*mapElem, int) { return vals(sv), len(sv) }},
			{"[]*struct", &sp, func() ([]*mapElem, int) { return sp, len(sp) }},
			{"[N]struct", av.Interface(), func() ([]*mapElem, int) { return vals(av.Elem().Slice(0, n+2).Interface().([]mapElem)), n + 2 }},
			{"[N]*struct", ap.Interface(), func() ([]*mapElem, int) { return ap.Elem().Slice(0, n+2).Interface().([]*mapElem), n + 2 }},
		}
	case "member":
		var h listHolder
		recs = []receiver{
			{"[]struct", &h, func() ([]*mapElem, int) { return vals(h.Es), len(h.Es) }},
			{"[]*struct", &h, func() ([]*mapElem, int) { return h.Ps, len(h.Ps) }},
		}
	default:
		var mv map[string][]mapElem
		var mp map[string][]*mapElem
		recs = []receiver{
			{"[]struct", &mv, func() ([]*mapElem, int) {
				return append(vals(mv["k1"]), vals(mv["k2"])...), len(mv["k1"]) + len(mv["k2"])
			}},
			{"[]*struct", &mp, func() ([]*mapElem, int) {
				return append(append([]*mapElem{}, mp["k1"]...), mp["k2"]...), len(mp["k1"]) + len(mp["k2"])
			}},
		}
	}
	decoded := map[any]bool{}
	for _, rc := range recs {
		sub := "dec/list-elements"
		if !decoded[rc.ptr] {
			decoded[rc.ptr] = true
			var err error
			br := bytes.NewReader(doc)
			if c.Guard(sub+"/"+rc.kind, wit, func() {
				d := nbt.NewDecoder(br)
				d.NetworkFormat(network)
				_, err = d.Decode(rc.ptr)
			}) {
				continue
			}
			if err != nil || br.Len() != 0 {
				c.Violation(sub+"/error-on-wellformed/"+rc.kind, fmt.Sprintf("decoding a list of compounds (%s) into %T: error %v, %d bytes left unread", position, rc.ptr, err, br.Len()), wit())
				continue
			}
		}
		got, length := rc.get()
		wantN, twice := n, 1
		if position == "map-value" {
			wantN, twice = 2*n, 2
		}
		ok := true
		if (rc.kind[1] == ']' && length != wantN) || len(got) < wantN {
			c.Violation(sub+"/length/"+rc.kind, fmt.Sprintf("a list of %d compounds decoded into %s (%s) has %d elements", n, rc.kind, position, length), wit())
			continue
		}
		for i := 0; i < n*twice; i++ {
			if got[i] == nil || !sameElem(*got[i], want[i%n]) {
				g := "nil"
				if got[i] != nil {
					g = got[i].describe()
				}
				c.Violation(sub+"/element-differs/"+rc.kind, fmt.Sprintf("element %d of the list decoded into %s (%s) is %s, the document says %s", i%n, rc.kind, position, g, want[i%n].describe()), wit())
				ok = false
				break
			}
		}
		for i := n * twice; ok && i < len(got); i++ { // the tail of a fixed-size array
			if got[i] != nil && !reflect.DeepEqual(*got[i], mapElem{}) {
				c.Violation(sub+"/array-tail-not-zero/"+rc.kind, fmt.Sprintf("element %d of a fresh %s, beyond the %d elements of the list, is %s", i, rc.kind, n, got[i].describe()), wit())
				ok = false
			}
		}
		if !ok {
			continue
		}
		ptrs := map[uintptr]int{}
		for i := 0; i < n*twice && ok; i++ {
			for what, rv := range map[string]reflect.Value{"element": reflect.ValueOf(got[i]), "p": reflect.ValueOf(got[i].P), "m": reflect.ValueOf(got[i].M), "s": reflect.ValueOf(got[i].S), "l": reflect.ValueOf(got[i].L)} {
				if rv.IsNil() || (rv.Kind() == reflect.Slice && rv.Cap() == 0) {
					continue
				}
				if other, dup := ptrs[rv.Pointer()]; dup && other != i {
					c.Violation(sub+"/elements-share-memory/"+rc.kind, fmt.Sprintf("%s of element %d and something of element %d are the same object (%s, %s)", what, i, other, rc.kind, position), wit())
					ok = false
					break
				}
				ptrs[rv.Pointer()] = i
			}
		}
		if ok {
			c.Cover("dec.list-elements." + rc.kind + "." + position)
		}
	}
}
