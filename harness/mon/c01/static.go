// Monitor C01: statically declared struct receivers. reflect.StructOf builds only exported, non-embedded-unexported
// fields, so these shapes never occur among the generated receivers: Go field names as keys, keys that match a
// field only under case folding, `nbt:"-"` next to a key equal to the Go field name, unexported fields, embedded
// unexported structs with exported fields, embedded structs with a tag of their own, embedded non-struct types.
package main

import (
	"bytes"
	"fmt"
	"reflect"

	"github.com/Tnze/go-mc/nbt"

	"verif/gen/gotypes"
	"verif/ref/refnbt"
	"verif/vm"
)

type sUntagged struct {
	Name   string
	Count  int32
	Data   []byte
	Nested struct{ X int16 }
}

type sFold struct {
	Alpha int32  `nbt:"alpha"`
	Beta  string `nbt:"BETA"`
	Gamma int16
	Exact int64 `nbt:"exact"`
}

type sExactBeatsFold struct {
	A string `nbt:"name"`
	B string `nbt:"NAME"`
	C string `nbt:"Name"`
}

type sDash struct {
	Internal string `nbt:"-"`
	Keep     int32  `nbt:"keep"`
	Dash     int16  `nbtkey:"-"`
}

type sUnexp struct {
	hidden     int32
	Shown      int32  `nbt:"shown"`
	alsoHidden string `nbt:"tagged"`
}

type lowerInt int32

type sUnexpEmbNonStruct struct {
	lowerInt
	Q int32 `nbt:"q"`
}

type inner struct {
	X int32 `nbt:"x"`
	Y string
	z int8
}

type sEmbUnexported struct {
	inner
	W int64 `nbt:"w"`
}

type Inner2 struct {
	P int32 `nbt:"p"`
}

type sEmbTagged struct {
	Inner2 `nbt:"in"`
	Q      int32 `nbt:"q"`
}

type sEmbPtr struct {
	*Inner2
	Q int32 `nbt:"q"`
}

type Inner3 struct {
	P int32   `nbt:"p"`
	R string  `nbt:"r"`
	S []int16 `nbt:"s"`
}

// an embedded pointer struct several of whose fields are in the document: the struct is allocated once, at its
// first key, and the later keys go into the same one
type sEmbPtr3 struct {
	*Inner3
	Q int32 `nbt:"q"`
}

type UpperInt int32

type sEmbNonStruct struct {
	UpperInt
	Q int32 `nbt:"q"`
}

func comp(es ...refnbt.Entry) *refnbt.Value { return &refnbt.Value{Tag: refnbt.Compound, Comp: es} }

func ent(name string, v *refnbt.Value) refnbt.Entry { return refnbt.Entry{Name: name, V: v} }

type staticCase struct {
	name  string
	tree  *refnbt.Value
	t     reflect.Type
	want  any                            // the receiver must be deeply equal to this ...
	check func(got reflect.Value) string // ... or, where the statement leaves room, pass this
}

func staticCases(c *vm.Ctx, r *vm.Rand) []staticCase {
	i32 := func() int32 { return int32(r.Int64B()) }
	i16 := func() int16 { return int16(r.Int64B()) }
	str := func() string { return []string{"", "a", "hello world", "§x", "q\"q", "1b"}[r.Intn(6)] }
	var out []staticCase
	{
		n, k, b, x := str(), i32(), r.Bytes(1+r.Intn(4)), i16()
		w := sUntagged{Name: n, Count: k, Data: b}
		w.Nested.X = x
		out = append(out, staticCase{name: "untagged-field-names", t: reflect.TypeOf(w), want: w,
			tree: comp(ent("Name", refnbt.St(n)), ent("Count", refnbt.In(k)), ent("Data", &refnbt.Value{Tag: refnbt.ByteArray, Bytes: b}), ent("Nested", comp(ent("X", refnbt.Sh(x)), ent("y", refnbt.Lo(1)))), ent("other", refnbt.Lo(r.Int64B())))})
	}
	{
		// keys that match a field only under case folding: whether such a key is taken is not something the
		// statement says; if it is taken, the field holds the document's value; all the rest is exact
		a, b, g, e := i32(), str(), i16(), r.Int64B()
		out = append(out, staticCase{name: "keys-matching-only-under-case-folding", t: reflect.TypeOf(sFold{}),
			tree: comp(ent("ALPHA", refnbt.In(a)), ent("beta", refnbt.St(b)), ent("gAMMA", refnbt.Sh(g)), ent("exact", refnbt.Lo(e)), ent("unrelated", refnbt.St("u"))),
			check: func(got reflect.Value) string {
				v := got.Interface().(sFold)
				if v.Exact != e {
					return fmt.Sprintf("Exact = %d, want %d", v.Exact, e)
				}
				hit := 0
				if v.Alpha == a && v.Beta == b && v.Gamma == g {
					hit = 3
				}
				if (v.Alpha != a && v.Alpha != 0) || (v.Beta != b && v.Beta != "") || (v.Gamma != g && v.Gamma != 0) {
					return fmt.Sprintf("a field holds neither its zero value nor the value of the key that matches it under case folding: %+v", v)
				}
				if hit == 3 {
					c.Cover("static.case-folded-keys.taken")
				} else {
					c.Cover("static.case-folded-keys.not-all-taken")
				}
				return ""
			}})
	}
	{
		a, b, cc := "a"+str(), "b"+str(), "c"+str()
		out = append(out, staticCase{name: "exact-key-beats-case-folded-match", t: reflect.TypeOf(sExactBeatsFold{}), want: sExactBeatsFold{A: a, B: b, C: cc},
			tree: comp(ent("NAME", refnbt.St(b)), ent("Name", refnbt.St(cc)), ent("name", refnbt.St(a)))})
	}
	{
		k, dsh, in := i32(), i16(), "x"+str()
		out = append(out, staticCase{name: "dash-field-next-to-key-of-its-go-name", t: reflect.TypeOf(sDash{}),
			tree: comp(ent("Internal", refnbt.St(in)), ent("keep", refnbt.In(k)), ent("-", refnbt.Sh(dsh))),
			check: func(got reflect.Value) string {
				v := got.Interface().(sDash)
				if v.Keep != k || v.Dash != dsh {
					return fmt.Sprintf("got %+v, want Keep %d Dash %d", v, k, dsh)
				}
				// the documentation speaks about the encoder only; a decoder that leaves the field alone is what is expected,
				// one that fills it from the key "Internal" is not ruled out by the statement
				if v.Internal != "" && v.Internal != in {
					return fmt.Sprintf("Internal = %q", v.Internal)
				}
				return ""
			}})
	}
	{
		s := i32()
		out = append(out, staticCase{name: "unexported-fields", t: reflect.TypeOf(sUnexp{}), want: sUnexp{Shown: s},
			tree: comp(ent("hidden", refnbt.In(i32())), ent("shown", refnbt.In(s)), ent("tagged", refnbt.St("t")), ent("alsoHidden", refnbt.St("u")))})
	}
	{
		q := i32()
		out = append(out, staticCase{name: "embedded-unexported-non-struct", t: reflect.TypeOf(sUnexpEmbNonStruct{}), want: sUnexpEmbNonStruct{Q: q},
			tree: comp(ent("lowerInt", refnbt.In(i32())), ent("q", refnbt.In(q)))})
	}
	{
		x, y, w := i32(), str(), r.Int64B()
		out = append(out, staticCase{name: "embedded-unexported-struct-with-exported-fields", t: reflect.TypeOf(sEmbUnexported{}), want: sEmbUnexported{inner: inner{X: x, Y: y}, W: w},
			tree: comp(ent("x", refnbt.In(x)), ent("Y", refnbt.St(y)), ent("z", refnbt.B(3)), ent("w", refnbt.Lo(w)), ent("inner", comp(ent("x", refnbt.In(-1)))))})
	}
	{
		p, q := i32(), i32()
		out = append(out, staticCase{name: "embedded-struct-with-its-own-tag", t: reflect.TypeOf(sEmbTagged{}), want: sEmbTagged{Inner2: Inner2{P: p}, Q: q},
			tree: comp(ent("in", comp(ent("p", refnbt.In(p)), ent("extra", refnbt.St("e")))), ent("q", refnbt.In(q)))})
	}
	{
		p, q := i32(), i32()
		if r.Bool() {
			out = append(out, staticCase{name: "embedded-pointer-struct", t: reflect.TypeOf(sEmbPtr{}), want: sEmbPtr{Inner2: &Inner2{P: p}, Q: q},
				tree: comp(ent("p", refnbt.In(p)), ent("q", refnbt.In(q)))})
		} else {
			out = append(out, staticCase{name: "embedded-pointer-struct-absent", t: reflect.TypeOf(sEmbPtr{}), want: sEmbPtr{Q: q},
				tree: comp(ent("q", refnbt.In(q)), ent("other", refnbt.In(p)))})
		}
	}
	{
		p, q, rr, sh := i32(), i32(), "r"+str(), i16()
		out = append(out, staticCase{name: "embedded-pointer-struct-several-fields", t: reflect.TypeOf(sEmbPtr3{}), want: sEmbPtr3{Inner3: &Inner3{P: p, R: rr, S: []int16{sh, 7}}, Q: q},
			tree: comp(ent("p", refnbt.In(p)), ent("q", refnbt.In(q)), ent("r", refnbt.St(rr)), ent("s", &refnbt.Value{Tag: refnbt.List, Elem: refnbt.Short, List: []*refnbt.Value{refnbt.Sh(sh), refnbt.Sh(7)}}), ent("other", refnbt.B(1)))})
	}
	{
		u, q := i32(), i32()
		out = append(out, staticCase{name: "embedded-non-struct", t: reflect.TypeOf(sEmbNonStruct{}), want: sEmbNonStruct{UpperInt: UpperInt(u), Q: q},
			tree: comp(ent("UpperInt", refnbt.In(u)), ent("q", refnbt.In(q)), ent("upperint2", refnbt.In(1)))})
	}
	return out
}

func checkStatic(c *vm.Ctx, r *vm.Rand) {
	for _, sc := range staticCases(c, r) {
		// members in a random order
		for i := len(sc.tree.Comp) - 1; i > 0; i-- {
			j := r.Intn(i + 1)
			sc.tree.Comp[i], sc.tree.Comp[j] = sc.tree.Comp[j], sc.tree.Comp[i]
		}
		d := &decodeCase{tree: sc.tree, network: r.Bool()}
		if !d.network {
			d.name = []string{"", "root"}[r.Intn(2)]
		}
		if r.Bool() {
			d.trailer = refnbt.Encode(refnbt.In(7), "t", false)
		}
		d.doc = refnbt.Encode(sc.tree, d.name, d.network)
		sub := "dec/static"
		c.Eval(vm.Hash64(d.doc, []byte(sc.name)), true)
		rv, ok := decodeOne(c, d, sc.t, r.Bool(), sub)
		if !ok {
			continue
		}
		diff := ""
		if sc.check != nil {
			diff = sc.check(rv)
		} else if !reflect.DeepEqual(rv.Interface(), sc.want) {
			diff = fmt.Sprintf("got %+v, want %+v", rv.Interface(), sc.want)
		}
		if diff != "" {
			c.Violation(sub+"/value-mismatch/"+sc.name, "statically declared receiver differs from the document: "+diff, d.witness(sc.t.String(), "-"))
			continue
		}
		c.Cover("static.decode." + sc.name)
		// the other direction: the value just decoded, encoded by the library and read by the independent reader,
		// is the tree the documented mapping assigns to it
		want, unsup := gotypes.Expect(rv)
		if unsup != "" {
			continue
		}
		network := r.Bool()
		byPtr := r.Bool()
		wit := func() any {
			return map[string]any{"go_type": sc.t.String(), "go_value": fmt.Sprintf("%+v", rv.Interface()), "network": network, "by_pointer": byPtr}
		}
		var buf bytes.Buffer
		var err error
		if c.Guard("enc/static", wit, func() {
			enc := nbt.NewEncoder(&buf)
			enc.NetworkFormat(network)
			if byPtr {
				err = enc.Encode(rv.Addr().Interface(), "")
			} else {
				err = enc.Encode(rv.Interface(), "")
			}
		}) {
			continue
		}
		c.Eval(0, false)
		if err != nil {
			c.Violation("enc/static/error/"+sc.name, fmt.Sprintf("Encode returned an error for a struct of the documented universe: %v", err), wit())
			continue
		}
		tree, _, n, perr := refnbt.Parse(buf.Bytes(), network)
		if perr != nil || n != buf.Len() {
			c.Violation("enc/static/not-wellformed/"+sc.name, fmt.Sprintf("encoder output is not one well-formed document: %v; bytes %s", perr, vm.Hex(buf.Bytes())), wit())
			continue
		}
		if df := refnbt.Equal(tree, want, refnbt.Opts{EmptyListElemFree: true}); df != "" {
			c.Violation("enc/static/tree-mismatch/"+sc.name, fmt.Sprintf("independent reader sees a different tree than the documented mapping assigns: %s; bytes %s", df, vm.Hex(buf.Bytes())), wit())
			continue
		}
		c.Cover("static.encode." + sc.name)
	}
}
