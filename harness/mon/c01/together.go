// Monitor C01, additions of the second blind-spot review (6): several goroutines, each with documents, values and
// receivers of its own. Every entry point of the package looks like a function of its arguments; if it keeps
// something at package level (a scratch buffer, a table per type filled on first use), calls on unrelated values
// disturb one another - which the sequential workload cannot show. The verdict is the same as for a call made
// alone: the independent reader / the reference tree. (In the race build every report is a violation as well.)
package main

import (
	"bytes"
	"fmt"
	"reflect"
	"sync"

	"github.com/Tnze/go-mc/nbt"

	"verif/gen/gotypes"
	"verif/gen/nbtgen"
	"verif/ref/refnbt"
	"verif/vm"
)

func checkTogether(c *vm.Ctx, r *vm.Rand) {
	const G = 8
	const perG = 24
	type job struct {
		// decode direction
		d     *decodeCase
		typed reflect.Type
		// encode direction
		v       reflect.Value
		want    *refnbt.Value
		network bool
		byPtr   bool
	}
	type worker struct {
		jobs []job
		fail string
		sig  string
		wit  map[string]any
	}
	// struct types no call has seen yet, first used by all goroutines at once
	var fresh []reflect.Type
	for i := 0; i < 3; i++ {
		u := r.Uint64()
		inner := reflect.StructOf([]reflect.StructField{
			{Name: "X", Type: reflect.TypeOf(int32(0)), Tag: reflect.StructTag(fmt.Sprintf(`nbt:"x%x"`, u))},
			{Name: "S", Type: reflect.TypeOf([]int8(nil)), Tag: reflect.StructTag(fmt.Sprintf(`nbt:"s%x,omitempty"`, u>>8))},
		})
		fresh = append(fresh, reflect.StructOf([]reflect.StructField{
			{Name: "A", Type: reflect.TypeOf(""), Tag: reflect.StructTag(fmt.Sprintf(`nbt:"a%x"`, u>>16))},
			{Name: "E", Type: inner, Anonymous: true},
			{Name: "L", Type: reflect.SliceOf(inner), Tag: reflect.StructTag(fmt.Sprintf(`nbt:"l%x"`, u>>24))},
			{Name: "I", Type: reflect.TypeOf([]int64(nil)), Tag: reflect.StructTag(fmt.Sprintf(`nbt:"i%x,list"`, u>>32))},
			{Name: "P", Type: reflect.PointerTo(inner), Tag: reflect.StructTag(fmt.Sprintf(`nbt:"p%x"`, u>>40))},
		}))
	}
	ws := make([]*worker, G)
	for g := range ws {
		w := &worker{}
		gr := r.Fork()
		cfg := nbtgen.Default()
		cfg.FoldKeys, cfg.MaxNodes, cfg.MaxArray, cfg.LongString = true, 40, 300, false
		ng := nbtgen.New(gr, cfg)
		tg := gotypes.New(gr)
		tg.Avoid["slice.bool"], tg.Avoid["array.bool"], tg.WideAny = true, true, true
		for k := 0; k < perG; k++ {
			var j job
			if k < len(fresh) {
				j.v = tg.GenValue(fresh[(k+g)%len(fresh)])
			} else {
				var t reflect.Type
				if gr.Bool() {
					t = tg.GenType(0)
				} else {
					t = tg.GenStruct(0)
				}
				j.v = tg.GenValue(t)
			}
			want, unsup := gotypes.Expect(j.v)
			if unsup != "" {
				j.v = reflect.ValueOf(&[]int32{int32(k), int32(g)}).Elem()
				want, _ = gotypes.Expect(j.v)
			}
			j.want, j.network, j.byPtr = want, gr.Bool(), gr.Bool()
			for {
				tree := ng.Doc(0)
				if !foldDistinct(tree) {
					continue
				}
				j.d = &decodeCase{tree: tree, network: gr.Bool(), trailer: gr.Bytes(gr.Intn(5))}
				if k < len(fresh) {
					// the value's own reference encoding, into the fresh type
					j.d.tree, j.typed = want, j.v.Type()
				} else {
					j.typed = gotypes.TargetFor(gr, tree, 0, map[string]bool{})
				}
				j.d.doc = refnbt.Encode(j.d.tree, "", j.d.network)
				break
			}
			w.jobs = append(w.jobs, j)
		}
		ws[g] = w
	}
	const rounds = 3
	var wg, start sync.WaitGroup
	start.Add(1)
	for g := range ws {
		wg.Add(1)
		go func(w *worker) {
			defer wg.Done()
			var cur *job
			what := ""
			defer func() {
				if p := recover(); p != nil && w.fail == "" {
					w.sig, w.fail = "panic", fmt.Sprintf("panic while %s: %v", what, p)
					if cur != nil {
						w.wit = map[string]any{"doc_hex": vm.Hex(cur.d.doc), "go_type": short(cur.v.Type().String())}
					}
				}
			}()
			start.Wait()
			for round := 0; round < rounds; round++ {
				for k := range w.jobs {
					j := &w.jobs[k]
					cur = j
					// encode
					what = "encoding"
					var buf bytes.Buffer
					enc := nbt.NewEncoder(&buf)
					enc.NetworkFormat(j.network)
					var err error
					if j.byPtr {
						err = enc.Encode(j.v.Addr().Interface(), "")
					} else {
						err = enc.Encode(j.v.Interface(), "")
					}
					ewit := func() map[string]any {
						return map[string]any{"go_type": short(j.v.Type().String()), "go_value": short(fmt.Sprintf("%+v", j.v.Interface())), "network": j.network, "by_pointer": j.byPtr, "output_hex": vm.Hex(buf.Bytes()), "goroutines": G}
					}
					if err != nil {
						w.sig, w.fail, w.wit = "enc/error", "Encode next to other goroutines' calls failed: "+err.Error(), ewit()
						return
					}
					tree, _, n, perr := refnbt.Parse(buf.Bytes(), j.network)
					if perr != nil || n != buf.Len() {
						w.sig, w.fail, w.wit = "enc/not-wellformed", fmt.Sprintf("Encode next to other goroutines' calls wrote something that is not one well-formed document: %v", perr), ewit()
						return
					}
					if d := refnbt.Equal(tree, j.want, refnbt.Opts{EmptyListElemFree: true, FloatNaNAny: true}); d != "" {
						w.sig, w.fail, w.wit = "enc/tree-mismatch", "Encode next to other goroutines' calls wrote another tree than the mapping assigns: "+short(d), ewit()
						return
					}
					// decode
					what = "decoding"
					in := append(append([]byte{}, j.d.doc...), j.d.trailer...)
					for _, t := range []reflect.Type{reflect.TypeOf((*any)(nil)).Elem(), j.typed} {
						br := bytes.NewReader(in)
						ptr := reflect.New(t)
						dec := nbt.NewDecoder(br)
						dec.NetworkFormat(j.d.network)
						_, err := dec.Decode(ptr.Interface())
						dwit := func() map[string]any {
							m := j.d.witness(t.String(), "bytes.Reader")
							m["goroutines"] = G
							return m
						}
						if err != nil {
							w.sig, w.fail, w.wit = "dec/error", "Decode next to other goroutines' calls rejected a well-formed document: "+err.Error(), dwit()
							return
						}
						if got := len(in) - br.Len(); got != len(j.d.doc) {
							w.sig, w.fail, w.wit = "dec/consumed", fmt.Sprintf("Decode next to other goroutines' calls consumed %d bytes, the document has %d", got, len(j.d.doc)), dwit()
							return
						}
						diff := ""
						if t == j.typed && k < len(fresh) {
							// the reference encoding of the value's own tree: it comes back as the value (nil == empty)
							diff = gotypes.EqualGo(j.v, ptr.Elem())
						} else {
							diff = gotypes.MatchGoFresh(ptr.Elem(), j.d.tree, "$")
						}
						if diff != "" {
							w.sig, w.fail, w.wit = "dec/value-mismatch", "Decode next to other goroutines' calls: value differs from the document: "+short(diff), dwit()
							return
						}
					}
				}
			}
		}(ws[g])
	}
	start.Done()
	wg.Wait()
	c.EvalN(int64(G*perG*rounds*3), vm.HashStr("together", fmt.Sprint(c.Shard, r.Uint64())), true)
	for _, w := range ws {
		if w.fail != "" {
			c.Violation("together/"+w.sig, w.fail, w.wit)
			return
		}
	}
	c.Cover("together.8-goroutines-with-values-of-their-own")
	c.Cover("together.struct-types-first-used-by-all-at-once")
}
