// Monitor C01: NBT binary codec against an independent NBT implementation.
package main

import (
	"bytes"
	"fmt"
	"io"
	"reflect"
	"strings"

	"github.com/Tnze/go-mc/nbt"

	"verif/gen/gotypes"
	"verif/gen/nbtgen"
	"verif/inject"
	"verif/ref/refnbt"
	"verif/vm"
)

func main() { vm.Main("C01", run) }

type decodeCase struct {
	tree    *refnbt.Value
	name    string
	network bool
	doc     []byte
	trailer []byte
}

func (d *decodeCase) witness(target string, src string) map[string]any {
	return map[string]any{"doc_hex": vm.Hex(d.doc), "network": d.network, "root_name": d.name, "trailer_len": len(d.trailer), "target": target, "source": src, "tree": refnbt.Describe(d.tree)}
}

// decodeInto runs the real decoder on doc++trailer into a fresh value of type t and
// returns (value, root name, bytes consumed, error).
var quirkR *vm.Rand

// otherDoc is the document of the previous checkDecode call (an unrelated shape).
var otherDoc *decodeCase

func decodeInto(c *vm.Ctx, d *decodeCase, t reflect.Type, plain bool, sub string) (rv reflect.Value, name string, consumed int, err error, panicked bool) {
	in := append(append([]byte{}, d.doc...), d.trailer...)
	ptr := reflect.New(t)
	var rd io.Reader
	br := bytes.NewReader(in)
	pr := &inject.PlainReader{R: bytes.NewReader(in)}
	var qr *inject.QuirkReader
	var cr *inject.ChunkReader
	src := "bytes.Reader"
	if quirkR == nil {
		quirkR = c.Rand("quirk")
	}
	wrapper := false
	if plain {
		rd = pr
		src = "plain io.Reader"
		// some plain sources use the liberties of the io.Reader contract: reads that make no progress, the last
		// byte delivered together with io.EOF, and reads that return fewer bytes than asked for
		switch quirkR.Intn(8) {
		case 0:
			qr = &inject.QuirkReader{B: in, Stutter: true}
			rd, src = qr, "plain io.Reader with zero-progress reads"
			c.Cover("src.plainreader.zero-progress-reads")
		case 1:
			qr = &inject.QuirkReader{B: in, DataEOF: true}
			rd, src = qr, "plain io.Reader delivering data with EOF"
			c.Cover("src.plainreader.data-with-eof")
		case 2, 3:
			cr = &inject.ChunkReader{B: in, Plan: []int{1, 2, 3, 7}}
			rd, src = cr, "plain io.Reader returning 1,2,3,7,... bytes per read (short reads)"
		}
	} else {
		rd = br
		// the documented shortcut nbt.Unmarshal(data, v): file format only; it reports neither the root name nor
		// how much it read, so only the error and the value are observed
		wrapper = !d.network && quirkR.Intn(4) == 0
		if wrapper {
			src = "nbt.Unmarshal"
		}
	}
	panicked = c.Guard(sub, func() any { return d.witness(t.String(), src) }, func() {
		if wrapper {
			name, err = d.name, nbt.Unmarshal(in, ptr.Interface())
			return
		}
		dec := nbt.NewDecoder(rd)
		dec.NetworkFormat(d.network)
		name, err = dec.Decode(ptr.Interface())
	})
	switch {
	case wrapper:
		consumed = len(d.doc)
		if err == nil && !panicked {
			c.Cover("decode.via-Unmarshal")
		}
	case qr != nil:
		consumed = qr.Pos
	case cr != nil:
		consumed = cr.Pos
		if err == nil && !panicked && consumed == len(d.doc) {
			c.Cover("src.plainreader.short-reads")
		}
	case plain:
		consumed = int(pr.N)
	default:
		consumed = len(in) - br.Len()
	}
	return ptr.Elem(), name, consumed, err, panicked
}

func tagClass(v *refnbt.Value) string { return refnbt.TagName(v.Tag) }

func checkDecode(c *vm.Ctx, r *vm.Rand, d *decodeCase, feats map[string]bool) {
	fmtName := "file"
	if d.network {
		fmtName = "network"
	}
	targets := []struct {
		name string
		t    reflect.Type
	}{{"any", reflect.TypeOf((*any)(nil)).Elem()}}
	if d.tree.Tag == refnbt.Compound {
		targets = append(targets, struct {
			name string
			t    reflect.Type
		}{"map", reflect.TypeOf(map[string]any(nil))})
	}
	tf := map[string]bool{}
	targets = append(targets, struct {
		name string
		t    reflect.Type
	}{"typed", gotypes.TargetFor(r, d.tree, 0, tf)})
	for k := range tf {
		c.Cover(k)
	}
	for ti, tg := range targets {
		plain := r.Bool()
		if ti == 0 {
			plain = false
		}
		srcName := "bytes.Reader"
		if plain {
			srcName = "plain io.Reader"
			c.Cover("src.plainreader")
		} else {
			c.Cover("src.bytereader")
		}
		sub := "dec/" + tg.name
		rv, name, consumed, err, pan := decodeInto(c, d, tg.t, plain, sub)
		if pan {
			continue
		}
		w := func() any { return d.witness(tg.t.String(), srcName) }
		if err != nil {
			c.Violation(sub+"/error-on-wellformed/root."+tagClass(d.tree), fmt.Sprintf("well-formed %s-format document rejected: %v", fmtName, err), w())
			continue
		}
		if consumed != len(d.doc) {
			kind := "over-read"
			if consumed < len(d.doc) {
				kind = "under-read"
			}
			c.Violation(sub+"/"+kind+"/"+srcName, fmt.Sprintf("decoder consumed %d bytes of the stream, document is %d bytes (trailer %d)", consumed, len(d.doc), len(d.trailer)), w())
			continue
		}
		if !d.network && name != d.name {
			c.Violation(sub+"/root-name", fmt.Sprintf("root name %q, want %q", name, d.name), w())
		}
		if d.network && name != "" {
			c.Violation(sub+"/root-name-network", fmt.Sprintf("network format returned root name %q", name), w())
		}
		if diff := gotypes.MatchGoFresh(rv, d.tree, "$"); diff != "" {
			c.Violation(sub+"/value-mismatch/"+firstFeature(diff), "decoded value differs from the document: "+diff, w())
		}
		c.Cover("decode." + tg.name + "." + fmtName)
		// the same receiver again: a same-shaped document with shorter arrays, lists and strings, then the
		// first document once more. Every key of the first document is present in the second, so after each
		// step the receiver must hold exactly the document just decoded (no element left over from before).
		{
			d2 := &decodeCase{tree: nbtgen.Shrink(r, d.tree), name: d.name, network: d.network, trailer: d.trailer}
			d2.doc = refnbt.Encode(d2.tree, d2.name, d2.network)
			steps := []*decodeCase{d2, d}
			if !gotypes.Fits(tg.t, d2.tree) {
				// the receiver has a fixed-size array somewhere and the shorter document's byte / int / long array
				// has another length: it cannot hold that document (the first document once more it can)
				steps = []*decodeCase{d}
				c.Cover("decode.reused-receiver.shorter-document-does-not-fit-array")
			}
			for step, dc := range steps {
				in := append(append([]byte{}, dc.doc...), dc.trailer...)
				br := bytes.NewReader(in)
				var err2 error
				w2 := func() any {
					m := dc.witness(tg.t.String(), "bytes.Reader")
					m["receiver_previously_decoded_hex"] = vm.Hex(map[bool][]byte{true: d.doc, false: d2.doc}[step == 0 || len(steps) == 1])
					return m
				}
				if c.Guard(sub+"/reused-receiver", w2, func() {
					dec := nbt.NewDecoder(br)
					dec.NetworkFormat(dc.network)
					_, err2 = dec.Decode(rv.Addr().Interface())
				}) {
					break
				}
				c.Eval(0, false)
				if err2 != nil {
					c.Violation(sub+"/reused-receiver/error/"+vm.NormErr(err2.Error()), fmt.Sprintf("well-formed document rejected when decoded into a receiver that already held a same-shaped document: %v", err2), w2())
					break
				}
				if got := len(in) - br.Len(); got != len(dc.doc) {
					c.Violation(sub+"/reused-receiver/consumed", fmt.Sprintf("decoder consumed %d bytes, document is %d bytes", got, len(dc.doc)), w2())
					break
				}
				if diff := gotypes.MatchGo(rv, dc.tree, "$"); diff != "" {
					c.Violation(sub+"/reused-receiver/value-mismatch/"+firstFeature(diff), "receiver that already held a same-shaped document differs from the document just decoded: "+diff, w2())
					break
				}
				c.Cover("decode.reused-receiver." + tg.name)
			}
		}
	}
	// one `var v any` receiving two unrelated documents in a row (a loop that declares v outside): what the
	// first decode left in v must not constrain the second
	if otherDoc != nil {
		var v any
		var err1, err2 error
		w := func() any {
			m := d.witness("any", "bytes.Reader")
			m["decoded_first_hex"] = vm.Hex(otherDoc.doc)
			return m
		}
		if !c.Guard("dec/any/reused-for-another-document", w, func() {
			d1 := nbt.NewDecoder(bytes.NewReader(otherDoc.doc))
			d1.NetworkFormat(otherDoc.network)
			_, err1 = d1.Decode(&v)
			d2 := nbt.NewDecoder(bytes.NewReader(d.doc))
			d2.NetworkFormat(d.network)
			_, err2 = d2.Decode(&v)
		}) {
			c.Eval(0, false)
			switch {
			case err1 != nil:
			case err2 != nil:
				c.Violation("dec/any/reused-for-another-document/error/"+vm.NormErr(err2.Error()), fmt.Sprintf("a well-formed document is rejected when the any receiver still holds the previous document's value: %v", err2), w())
			default:
				if diff := gotypes.MatchGo(reflect.ValueOf(&v).Elem(), d.tree, "$"); diff != "" {
					c.Violation("dec/any/reused-for-another-document/value-mismatch/"+firstFeature(diff), "an any receiver that held another document's value differs from the document just decoded: "+diff, w())
				} else {
					c.Cover("decode.any-reused-for-another-document")
				}
			}
		}
	}
	otherDoc = d
	c.Cover("root." + tagClass(d.tree))
	if len(d.trailer) > 0 {
		c.Cover("trailer.nonempty")
	} else {
		c.Cover("trailer.empty")
	}
	for f := range feats {
		c.Cover("doc." + f)
	}
}

// firstFeature derives a short stable class from a diff text (kind of mismatch).
func firstFeature(diff string) string {
	for _, k := range []string{"nil pointer", "nil interface", "heterogeneous", "unexpected dynamic type", "list element tag", "tag ", "array len", "len ", "key ", "keys", "field without", "float32", "float64", "double bits", "float bits", "string", "bool", "uint", "int", "byte arrays", "compound size"} {
		if bytes.Contains([]byte(diff), []byte(k)) {
			return k
		}
	}
	return "other"
}

// checkBigArrays: arrays and lists around the sizes at which a decoder that grows its buffers step by step changes
// step (the generated documents stay far below them): the values, the byte count and what follows must be exact.
func checkBigArrays(c *vm.Ctx, r *vm.Rand) {
	type bigCase struct {
		tag   byte
		sizes []int
	}
	cases := []bigCase{
		{refnbt.ByteArray, []int{65535, 65536, 65537, 70000, 100000, 131072, 131073, 200000, 300001}},
		{refnbt.IntArray, []int{4095, 4096, 4097, 5000, 8192, 8193, 10000, 70000}},
		{refnbt.LongArray, []int{4095, 4096, 4097, 5000, 8192, 8193, 10000, 70000}},
		{refnbt.List, []int{1023, 1024, 1025, 3000, 5000}},
	}
	for _, bc := range cases {
		for _, n := range bc.sizes {
			v := &refnbt.Value{Tag: bc.tag}
			switch bc.tag {
			case refnbt.ByteArray:
				v.Bytes = r.Bytes(n)
			case refnbt.IntArray:
				v.Ints = make([]int32, n)
				for i := range v.Ints {
					v.Ints[i] = int32(r.Uint64())
				}
			case refnbt.LongArray:
				v.Longs = make([]int64, n)
				for i := range v.Longs {
					v.Longs[i] = int64(r.Uint64())
				}
			default:
				v.Elem = refnbt.Short
				for i := 0; i < n; i++ {
					v.List = append(v.List, refnbt.Sh(int16(r.Uint64())))
				}
			}
			for _, wrapped := range []bool{false, true} {
				tree := v
				if wrapped {
					tree = &refnbt.Value{Tag: refnbt.Compound, Comp: []refnbt.Entry{{Name: "a", V: refnbt.In(1)}, {Name: "big", V: v}, {Name: "z", V: refnbt.St("after")}}}
				}
				d := &decodeCase{tree: tree, network: r.Bool(), trailer: []byte{1, 2, 3, 4, 5, 6, 7, 8, 9}}
				if !d.network {
					d.name = "r"
				}
				d.doc = refnbt.Encode(tree, d.name, d.network)
				c.Eval(vm.HashStr("big", refnbt.TagName(bc.tag), fmt.Sprint(n, wrapped)), true)
				checkDecode(c, r, d, map[string]bool{})
			}
			c.Cover("big-array." + refnbt.TagName(bc.tag))
		}
	}
}

// checkAwkward: values the documented mapping does not describe - lists whose interface-typed elements have
// different kinds, strings / keys / root names at and beyond the 16-bit length field. The mapping oracle has
// nothing to say about them, but the statement still does: whatever the encoder ACCEPTS must come out as one
// well-formed document (here under the specification's unsigned reading of string lengths). An error is fine.
func checkAwkward(c *vm.Ctx, r *vm.Rand) {
	long := func() string {
		n := []int{32767, 32768, 40000, 65535, 65536, 65537, 70000, 131072 + 5}[r.Intn(8)]
		return strings.Repeat("a", n)
	}
	het := func() []any {
		pool := []any{int8(1), int16(2), int32(3), int64(4), float32(1.5), float64(2.5), "s", []byte{1}, []int32{1}, []int64{1}, map[string]any{"k": int32(1)}, []any{int32(1)}, struct{ A int32 }{7}}
		n := r.Range(2, 5)
		out := make([]any, n)
		for i := range out {
			out[i] = pool[r.Intn(len(pool))]
		}
		switch r.Intn(6) {
		case 0:
			out[r.Intn(n)] = nil // a nil element
		case 1: // one kind only, of those that have a typed-array form
			k := []any{int8(-3), uint8(200), true, int32(7), int64(9), uint32(5)}[r.Intn(6)]
			for i := range out {
				out[i] = k
			}
		}
		return out
	}
	var v any
	kind := ""
	name := ""
	switch r.Intn(9) {
	case 8:
		v, kind = map[int32]string{1: "a", 2: "b", int32(r.Intn(100) + 3): "c"}, "map-with-integer-keys"
	case 0:
		v, kind = het(), "heterogeneous-list"
	case 1:
		v, kind = map[string]any{"l": het()}, "heterogeneous-list-in-map"
	case 2:
		v, kind = struct {
			L []any `nbt:"l"`
		}{het()}, "heterogeneous-list-in-struct"
	case 3:
		v, kind = [][]any{het(), het()}, "heterogeneous-list-nested"
	case 4:
		v, kind = long(), "long-string"
	case 5:
		v, kind = map[string]any{long(): int32(1), "b": int32(2)}, "long-key"
	case 6:
		v, kind = []string{"a", long(), "c"}, "long-string-in-list"
	default:
		v, name, kind = int32(5), long(), "long-root-name"
	}
	network := name == "" && r.Bool()
	desc := fmt.Sprintf("%T", v)
	if s, ok := v.(string); ok {
		desc = fmt.Sprintf("string of %d bytes", len(s))
	} else if kind[:4] != "long" {
		desc = fmt.Sprintf("%#v", v)
	}
	wit := func() any {
		return map[string]any{"kind": kind, "go_value": desc, "network": network, "root_name_len": len(name)}
	}
	var buf bytes.Buffer
	var err error
	if c.Guard("enc/awkward", wit, func() {
		enc := nbt.NewEncoder(&buf)
		enc.NetworkFormat(network)
		err = enc.Encode(v, name)
	}) {
		return
	}
	c.Eval(vm.HashStr("awkward", kind, desc, fmt.Sprint(network, len(name))), true)
	if err != nil {
		c.Cover("awkward." + kind + ".refused")
		return
	}
	refnbt.UnsignedStringLengths = true
	_, _, used, perr := refnbt.Parse(buf.Bytes(), network)
	refnbt.UnsignedStringLengths = false
	if perr != nil || used != buf.Len() {
		w := wit().(map[string]any)
		w["output_len"] = buf.Len()
		w["output_head_hex"] = vm.Hex(buf.Bytes()[:min(buf.Len(), 96)])
		c.Violation("enc/accepted-but-malformed/"+kind, fmt.Sprintf("the encoder reported success but its output is not one well-formed document: %v (used %d of %d bytes)", perr, used, buf.Len()), w)
		return
	}
	if kind == "map-with-integer-keys" {
		// only string-keyed maps are compounds; if such a map is accepted at all, its members must stay apart
		tree, _, _, _ := refnbt.Parse(buf.Bytes(), network)
		names := map[string]bool{}
		for _, e := range tree.Comp {
			names[e.Name] = true
		}
		if tree.Tag != refnbt.Compound || len(names) != 3 {
			c.Violation("enc/accepted-but-members-collapse/"+kind, fmt.Sprintf("a map with 3 integer keys was accepted and written as %s", refnbt.Describe(tree)), wit())
			return
		}
	}
	c.Cover("awkward." + kind + ".well-formed")
}

func checkEncode(c *vm.Ctx, g *gotypes.Gen) {
	r := g.R
	g.Features = map[string]bool{}
	var t reflect.Type
	switch k := r.Intn(40); {
	case k < 7:
		t = gotypes.DeepEmbedded(k+1, false) // embedding chains of 1..7 levels
		g.Features["embedded.depth>=3"] = k+1 >= 3
	case k < 18:
		t = g.GenType(0)
	default:
		t = g.GenStruct(0)
	}
	v := g.GenValue(t)
	want, unsup := gotypes.Expect(v)
	network := r.Bool()
	name := ""
	if !network && r.Bool() {
		name = "root" + fmt.Sprint(r.Intn(100))
	}
	valStr := fmt.Sprintf("%+v", v.Interface()) // rendered BEFORE encoding (the encoder must not modify v)
	if len(valStr) > 1500 {
		valStr = valStr[:1500] + "..."
	}
	wit := func() any {
		return map[string]any{"go_type": t.String(), "go_value": valStr, "network": network, "root_name": name}
	}
	var buf bytes.Buffer
	var err error
	byPtr := r.Bool()
	// the documented shortcut nbt.Marshal(v): file format with an empty root name
	wrapper := !network && name == "" && r.Bool()
	pan := c.Guard("enc", wit, func() {
		var arg any
		if byPtr {
			arg = v.Addr().Interface()
		} else {
			arg = v.Interface()
		}
		if wrapper {
			var b []byte
			b, err = nbt.Marshal(arg)
			buf.Write(b)
			return
		}
		enc := nbt.NewEncoder(&buf)
		enc.NetworkFormat(network)
		err = enc.Encode(arg, name)
	})
	key := vm.HashStr("enc", t.String(), valStr)
	c.Eval(key, t.Kind() == reflect.Struct || t.Kind() == reflect.Slice || t.Kind() == reflect.Map)
	if pan {
		return
	}
	if unsup != "" {
		// the mapping says nothing about this value (a nil pointer in a list, a slice of pointers to ints, ...):
		// the encoder may refuse it; what it ACCEPTS must still come out as one well-formed document
		if err == nil {
			_, _, used, perr := refnbt.Parse(buf.Bytes(), network)
			if perr != nil || used != buf.Len() {
				w := wit().(map[string]any)
				w["not_described_by_mapping"] = unsup
				c.Violation("enc/accepted-but-malformed/unsupported-by-mapping", fmt.Sprintf("the encoder reported success but its output is not one well-formed document: %v (used %d of %d bytes); bytes %s", perr, used, buf.Len(), vm.Hex(buf.Bytes())), w)
				return
			}
			c.Cover("enc.unsupported-by-mapping.accepted-well-formed")
		} else {
			c.Cover("enc.unsupported-by-mapping.refused")
		}
		c.Cover("enc.unsupported-by-mapping")
		return
	}
	if err != nil {
		c.Violation("enc/error-on-accepted-kind/"+vm.NormErr(err.Error()), fmt.Sprintf("Encode returned error for a value of the documented universe: %v", err), wit())
		return
	}
	tree, gotName, n, perr := refnbt.Parse(buf.Bytes(), network)
	if perr != nil {
		c.Violation("enc/not-wellformed/"+perr.Class.String()+"@"+perr.Kind, fmt.Sprintf("encoder output is not a well-formed document: %v; bytes %s", perr, vm.Hex(buf.Bytes())), wit())
		return
	}
	if n != buf.Len() {
		c.Violation("enc/trailing-bytes", fmt.Sprintf("encoder emitted %d bytes, document ends after %d", buf.Len(), n), wit())
		return
	}
	if gotName != name {
		c.Violation("enc/root-name", fmt.Sprintf("root name %q, want %q", gotName, name), wit())
	}
	if d := refnbt.Equal(tree, want, refnbt.Opts{EmptyListElemFree: true, FloatNaNAny: true}); d != "" {
		c.Violation("enc/tree-mismatch/"+firstFeature(d), fmt.Sprintf("independent reader sees a different tree than the documented mapping assigns: %s; bytes %s", d, vm.Hex(buf.Bytes())), wit())
		return
	}
	for f := range g.Features {
		c.Cover("enc." + f)
	}
	c.Cover("enc.root." + refnbt.TagName(tree.Tag))
	if wrapper {
		c.Cover("enc.via-Marshal")
	}
	c.Sample("encode", map[string]any{"go_type": t.String(), "bytes": vm.Hex(buf.Bytes())})
}

func stripQuoted(s string) string {
	out := []byte{}
	in := false
	for i := 0; i < len(s); i++ {
		if s[i] == '"' {
			in = !in
			out = append(out, '"')
			continue
		}
		if !in {
			out = append(out, s[i])
		}
	}
	return string(out)
}

func run(c *vm.Ctx) {
	selfTest()
	gotypes.MoreTargets = true
	if devSelected(c) {
		return
	}
	r := c.Rand("docs")
	cfg := nbtgen.Default()
	cfg.FoldKeys = true
	g := nbtgen.New(r, cfg)
	nDocs := c.Scale(20000, 400000)
	sr := c.Rand("streams")
	for i := 0; i < nDocs; i++ {
		var root byte
		if i < 48 {
			root = byte(i%12) + 1 // every root tag, deterministically
		}
		tree := g.Doc(root)
		// keys must be distinct under EqualFold for struct targets
		if !foldDistinct(tree) {
			continue
		}
		for _, network := range []bool{false, true} {
			d := &decodeCase{tree: tree, network: network}
			if !network {
				switch r.Intn(4) {
				case 0:
					d.name = ""
				case 1:
					d.name = g.Str()
					if len(d.name) > 300 {
						d.name = d.name[:300]
					}
				default:
					d.name = "root"
				}
			}
			d.doc = refnbt.Encode(tree, d.name, network)
			switch r.Intn(3) {
			case 0:
			case 1:
				d.trailer = r.Bytes(r.Range(1, 64))
			default:
				// a trailer that looks like more NBT
				d.trailer = refnbt.Encode(refnbt.In(7), "t", false)
			}
			n, kinds := refnbt.Count(tree)
			c.Eval(vm.Hash64(d.doc), n >= 3 && popcount(kinds) >= 2)
			checkDecode(c, r, d, g.Features)
			switch sr.Intn(16) {
			case 0, 1:
				checkStream(c, sr, d, false)
			case 2:
				checkStream(c, sr, d, true)
			}
			if i < 2 {
				c.Sample("decode", map[string]any{"doc_hex": vm.Hex(d.doc), "network": network, "tree": refnbt.Describe(tree)})
			}
		}
	}
	// encode direction
	tg := gotypes.New(c.Rand("types"))
	tg.Avoid["slice.bool"] = true // documentation silent on []bool: tag selection not demanded
	tg.Avoid["array.bool"] = true
	tg.WideAny = true // an `any` may hold a value of any generated type (the mapping looks through interfaces)
	nEnc := c.Scale(30000, 600000)
	for i := 0; i < nEnc; i++ {
		checkEncode(c, tg)
	}
	if c.Shard == 0 {
		checkBigArrays(c, c.Rand("big-arrays"))
	}
	if c.Shard == 1%c.NShards {
		checkManySiblings(c, c.Rand("siblings"))
	}
	if c.Shard == 2%c.NShards {
		checkEncodeSizes(c, c.Rand("enc-sizes"))
	}
	if c.Shard == 3%c.NShards {
		checkRootNames(c, c.Rand("root-names"))
	}
	if c.Shard == 4%c.NShards {
		checkBigSkipped(c, c.Rand("big-skipped"))
	}
	if c.Shard == 5%c.NShards {
		checkBigReceivers(c, c.Rand("big-receivers"))
	}
	if c.Shard == 6%c.NShards {
		checkNameOwnership(c, c.Rand("name-ownership"))
	}
	if c.Shard == 7%c.NShards {
		checkHighestCountByte(c, c.Rand("highest-count-byte"))
	}
	str := c.Rand("static")
	for i := 0; i < c.Scale(400, 8000); i++ {
		checkStatic(c, str)
	}
	mer := c.Rand("map-elements")
	for i := 0; i < c.Scale(2000, 40000); i++ {
		checkMapElements(c, mer)
	}
	additions["list-elements"](c)
	additions["templates"](c)
	additions["handles"](c)
	additions["user-marshalers"](c)
	additions["together"](c)
	ar := c.Rand("awkward")
	for i := 0; i < c.Scale(2000, 20000); i++ {
		checkAwkward(c, ar)
	}
}

func popcount(x uint16) int {
	n := 0
	for ; x != 0; x &= x - 1 {
		n++
	}
	return n
}

func foldDistinct(v *refnbt.Value) bool {
	if v.Tag == refnbt.Compound {
		seen := map[string]bool{}
		for _, e := range v.Comp {
			f := gotypes.FoldKey(e.Name)
			if seen[f] {
				return false
			}
			seen[f] = true
			if !foldDistinct(e.V) {
				return false
			}
		}
	}
	for _, e := range v.List {
		if !foldDistinct(e) {
			return false
		}
	}
	return true
}

// selfTest validates the reference against hand-made vectors (hello world, from the NBT specification).
func selfTest() {
	hello := []byte{0x0a, 0x00, 0x0b, 'h', 'e', 'l', 'l', 'o', ' ', 'w', 'o', 'r', 'l', 'd', 0x08, 0x00, 0x04, 'n', 'a', 'm', 'e', 0x00, 0x09, 'B', 'a', 'n', 'a', 'n', 'r', 'a', 'm', 'a', 0x00}
	v, name, n, err := refnbt.Parse(hello, false)
	if err != nil || name != "hello world" || n != len(hello) || v.Get("name").S != "Bananrama" {
		panic("refnbt self-test failed")
	}
	if !bytes.Equal(refnbt.Encode(v, name, false), hello) {
		panic("refnbt writer self-test failed")
	}
}
