package main

import (
	"os"
	"strings"

	"verif/gen/gotypes"
	"verif/gen/nbtgen"
	"verif/ref/refnbt"
	"verif/vm"
)

// devSelected: with VERIF_C01_ONLY=name[,name...] a run executes only the named additions of the second blind-spot
// review, whatever the shard (a development aid: `mon/c01 -out /tmp/x` then runs in a second or two; the driver
// never sets the variable).
func devSelected(c *vm.Ctx) bool {
	sel := os.Getenv("VERIF_C01_ONLY")
	if sel == "" {
		return false
	}
	for _, name := range strings.Split(sel, ",") {
		if f, ok := additions[name]; ok {
			f(c)
		} else {
			panic("VERIF_C01_ONLY: unknown addition " + name)
		}
	}
	return true
}

var additions = map[string]func(c *vm.Ctx){
	"sizes": func(c *vm.Ctx) { checkEncodeSizes(c, c.Rand("enc-sizes")) },
	"list-elements": func(c *vm.Ctx) {
		r := c.Rand("list-elements")
		for i := 0; i < c.Scale(3000, 60000); i++ {
			checkListElements(c, r)
		}
	},
	"templates": func(c *vm.Ctx) {
		r := c.Rand("templates")
		cfg := nbtgen.Default()
		cfg.FoldKeys = true
		cfg.MaxNodes = 60
		g := nbtgen.New(r, cfg)
		for i := 0; i < c.Scale(6000, 120000); i++ {
			tree := g.Doc(byte(i%24) % 13) // every root tag now and then, compounds mostly
			if !foldDistinct(tree) {
				continue
			}
			d := &decodeCase{tree: tree, network: r.Bool()}
			if !d.network {
				d.name = []string{"", "root"}[r.Intn(2)]
			}
			if r.Bool() {
				d.trailer = r.Bytes(r.Range(1, 9))
			}
			d.doc = refnbt.Encode(tree, d.name, d.network)
			checkTemplates(c, r, d)
		}
	},
	"handles": func(c *vm.Ctx) {
		r := c.Rand("handles")
		cfg := nbtgen.Default()
		cfg.FoldKeys = true
		cfg.MaxNodes = 60
		g := nbtgen.New(r, cfg)
		for i := 0; i < c.Scale(4000, 80000); i++ {
			root := byte(i/3%24) % 13
			if i%3 == 0 {
				root = refnbt.Compound
			}
			tree := g.Doc(root)
			if !foldDistinct(tree) {
				continue
			}
			d := &decodeCase{tree: tree, network: r.Bool()}
			if !d.network {
				d.name = []string{"", "root"}[r.Intn(2)]
			}
			if r.Bool() {
				d.trailer = r.Bytes(r.Range(1, 9))
			}
			d.doc = refnbt.Encode(tree, d.name, d.network)
			switch i % 3 {
			case 0:
				checkDisallowKnown(c, r, d)
			case 1:
				checkDecoderFormatSwitch(c, r, d)
			default:
				checkTwoStage(c, r, d)
			}
		}
		checkDiamondEncode(c, r)
		tg := gotypes.New(c.Rand("handles-types"))
		tg.Avoid["slice.bool"] = true
		tg.Avoid["array.bool"] = true
		for i := 0; i < c.Scale(3000, 60000); i++ {
			checkEncoderReuse(c, tg)
		}
	},
	"user-marshalers": func(c *vm.Ctx) {
		r := c.Rand("user-marshalers")
		cfg := nbtgen.Default()
		cfg.MaxNodes, cfg.MaxArray, cfg.LongString = 12, 20, false
		g := nbtgen.New(r, cfg)
		for i := 0; i < c.Scale(1500, 30000); i++ {
			checkUserMarshalers(c, r, g)
			checkUserUnmarshalers(c, r, g)
		}
	},
	"wide-any": func(c *vm.Ctx) {
		tg := gotypes.New(c.Rand("types"))
		tg.Avoid["slice.bool"], tg.Avoid["array.bool"], tg.WideAny = true, true, true
		for i := 0; i < c.Scale(30000, 600000); i++ {
			checkEncode(c, tg)
		}
	},
	"together": func(c *vm.Ctx) {
		r := c.Rand("together")
		for i := 0; i < c.Scale(40, 800); i++ {
			checkTogether(c, r)
		}
	},
	"big-skipped":        func(c *vm.Ctx) { checkBigSkipped(c, c.Rand("big-skipped")) },
	"big-receivers":      func(c *vm.Ctx) { checkBigReceivers(c, c.Rand("big-receivers")) },
	"name-ownership":     func(c *vm.Ctx) { checkNameOwnership(c, c.Rand("name-ownership")) },
	"highest-count-byte": func(c *vm.Ctx) { checkHighestCountByte(c, c.Rand("highest-count-byte")) },
	"root-names":         func(c *vm.Ctx) { checkRootNames(c, c.Rand("root-names")) },
}
