// Monitor C01, additions of the second blind-spot review (5): values that write themselves. The only types with a
// MarshalNBT method the monitors knew were the library's own carriers (checked against the library's own decoder
// in C02). "Every Go value the encoder accepts" includes a caller's type that implements nbt.Marshaler, with value
// or pointer receivers, wherever a value can stand: root, struct field, behind a pointer, inside an interface, as
// list element, map value and array element - addressable or not. What such a value writes is its own business;
// where the encoder puts it, under which tag, and that a slice of them is a list whatever tag they announce, is the
// encoder's. Half of the values call back into the package (Marshal and Unmarshal of unrelated values) from inside
// MarshalNBT: nothing of the outer call may be disturbed by that.
package main

import (
	"bytes"
	"fmt"
	"io"
	"reflect"

	"github.com/Tnze/go-mc/nbt"

	"verif/gen/nbtgen"
	"verif/inject"
	"verif/ref/refnbt"
	"verif/vm"
)

type userMV struct { // value receivers
	Tag     byte
	Payload []byte
	Reenter bool
}

type userMP struct { // pointer receivers
	Tag     byte
	Payload []byte
	Reenter bool
}

func reenter() {
	b, err := nbt.Marshal(map[string]any{"x": int32(1), "s": "abcdefgh", "l": []int64{1, 2, 3}, "n": struct {
		F float32 `nbt:"f"`
	}{1.5}})
	if err != nil {
		panic("monitor: inner Marshal failed: " + err.Error())
	}
	var back map[string]any
	if err := nbt.Unmarshal(b, &back); err != nil || back["s"] != "abcdefgh" {
		panic(fmt.Sprintf("monitor: inner Unmarshal failed: %v %v", err, back))
	}
}

func (u userMV) TagType() byte { return u.Tag }
func (u userMV) MarshalNBT(w io.Writer) error {
	if u.Reenter {
		reenter()
	}
	_, err := w.Write(u.Payload)
	return err
}
func (u *userMP) TagType() byte { return u.Tag }
func (u *userMP) MarshalNBT(w io.Writer) error {
	if u.Reenter {
		reenter()
	}
	_, err := w.Write(u.Payload)
	return err
}

type userHolder struct {
	A  int32             `nbt:"a"`
	V  userMV            `nbt:"v"`
	P  userMP            `nbt:"p"`
	PV *userMV           `nbt:"pv"`
	PP *userMP           `nbt:"pp"`
	I  any               `nbt:"i"`
	L  []userMV          `nbt:"l"`
	LP []*userMP         `nbt:"lp"`
	LV []userMP          `nbt:"lv"`
	M  map[string]userMP `nbt:"m"`
	MV map[string]userMV `nbt:"mv"`
	AR [2]userMP         `nbt:"ar"`
	N  [][]userMV        `nbt:"n"`
	Z  string            `nbt:"z"`
}

func checkUserMarshalers(c *vm.Ctx, r *vm.Rand, g *nbtgen.G) {
	mv := func(t *refnbt.Value) userMV {
		return userMV{Tag: t.Tag, Payload: refnbt.EncodePayload(t), Reenter: r.Bool()}
	}
	mp := func(t *refnbt.Value) userMP { return userMP(mv(t)) }
	val := func(tag byte) *refnbt.Value {
		g.Doc(refnbt.Compound) // resets the node budget
		if tag == 0 {
			tag = byte(r.Range(1, 12))
		}
		return g.Value(tag, 3)
	}
	listOf := func(n int) (byte, []*refnbt.Value) {
		tag := byte(r.Range(1, 12))
		var out []*refnbt.Value
		for i := 0; i < n; i++ {
			out = append(out, val(tag))
		}
		return tag, out
	}
	lst := func(tag byte, vs []*refnbt.Value) *refnbt.Value {
		return &refnbt.Value{Tag: refnbt.List, Elem: tag, List: vs}
	}
	var h userHolder
	want := comp()
	add := func(name string, v *refnbt.Value) { want.Comp = append(want.Comp, ent(name, v)) }
	h.A = int32(r.Uint64())
	add("a", refnbt.In(h.A))
	t := val(0)
	h.V = mv(t)
	add("v", t)
	t = val(0)
	h.P = mp(t)
	add("p", t)
	if r.Bool() {
		t = val(0)
		x := mv(t)
		h.PV = &x
		add("pv", t)
	}
	if r.Bool() {
		t = val(0)
		x := mp(t)
		h.PP = &x
		add("pp", t)
	}
	t = val(0)
	switch r.Intn(4) {
	case 0:
		h.I = mv(t)
	case 1:
		h.I = mp(t) // a value with pointer methods inside an interface: not addressable
	case 2:
		x := mp(t)
		h.I = &x
	default:
		x := mv(t)
		h.I = &x
	}
	add("i", t)
	tag, vs := listOf(r.Range(0, 4))
	for _, e := range vs {
		h.L = append(h.L, mv(e))
	}
	add("l", lst(tag, vs))
	tag, vs = listOf(r.Range(0, 4))
	for _, e := range vs {
		x := mp(e)
		h.LP = append(h.LP, &x)
	}
	add("lp", lst(tag, vs))
	tag, vs = listOf(r.Range(0, 4))
	for _, e := range vs {
		h.LV = append(h.LV, mp(e))
	}
	add("lv", lst(tag, vs))
	h.M, h.MV = map[string]userMP{}, map[string]userMV{}
	m1, m2 := comp(), comp()
	for i := r.Range(0, 3); i > 0; i-- {
		t = val(0)
		k := fmt.Sprintf("k%d", i)
		h.M[k], h.MV[k+"v"] = mp(t), mv(t)
		m1.Comp, m2.Comp = append(m1.Comp, ent(k, t)), append(m2.Comp, ent(k+"v", t))
	}
	add("m", m1)
	add("mv", m2)
	tag, vs = listOf(2)
	h.AR = [2]userMP{mp(vs[0]), mp(vs[1])}
	add("ar", lst(tag, vs))
	outer := lst(refnbt.List, nil)
	for i := r.Range(0, 3); i > 0; i-- {
		tag, vs = listOf(r.Range(1, 3))
		var row []userMV
		for _, e := range vs {
			row = append(row, mv(e))
		}
		h.N = append(h.N, row)
		outer.List = append(outer.List, lst(tag, vs))
	}
	add("n", outer)
	h.Z = "after"
	add("z", refnbt.St("after"))

	// the holder, and single members of it at the root
	type root struct {
		pos  string
		v    any
		want *refnbt.Value
	}
	roots := []root{{"holder", h, want}, {"holder-by-pointer", &h, want}, {"root.value-receiver", h.V, want.Get("v")}, {"root.pointer-receiver-by-value", h.P, want.Get("p")},
		{"root.pointer-receiver-by-pointer", &h.P, want.Get("p")}, {"root.slice", h.LV, want.Get("lv")}, {"root.slice-of-pointers", h.LP, want.Get("lp")},
		{"root.map", h.M, want.Get("m")}, {"root.array-by-value", h.AR, want.Get("ar")}, {"root.array-by-pointer", &h.AR, want.Get("ar")}, {"root.in-interface-slice", []any{h.P, h.P}, lst(h.P.Tag, []*refnbt.Value{want.Get("p"), want.Get("p")})}}
	for _, rt := range roots {
		network := r.Bool()
		name := ""
		if !network {
			name = []string{"", "root"}[r.Intn(2)]
		}
		wit := func() any {
			return map[string]any{"position": rt.pos, "go_type": fmt.Sprintf("%T", rt.v), "expected_tree": short(refnbt.Describe(rt.want)), "network": network, "root_name": name,
				"note": "userMV / userMP write Payload under Tag (value / pointer receivers); with Reenter they call nbt.Marshal and nbt.Unmarshal on other values first"}
		}
		var buf bytes.Buffer
		var err error
		if c.Guard("enc/user-marshaler", wit, func() {
			enc := nbt.NewEncoder(&buf)
			enc.NetworkFormat(network)
			err = enc.Encode(rt.v, name)
		}) {
			continue
		}
		c.Eval(vm.Hash64(buf.Bytes(), []byte(rt.pos)), true)
		if err != nil {
			c.Violation("enc/user-marshaler/error/"+rt.pos, fmt.Sprintf("Encode returned an error for a value holding nbt.Marshaler implementations: %v", err), wit())
			continue
		}
		tree, gotName, n, perr := refnbt.Parse(buf.Bytes(), network)
		if perr != nil || n != buf.Len() || gotName != name {
			w := wit().(map[string]any)
			w["output_hex"] = vm.Hex(buf.Bytes())
			c.Violation("enc/user-marshaler/not-wellformed/"+rt.pos, fmt.Sprintf("encoder output is not one well-formed document named %q: %v (reader used %d of %d bytes, name %q)", name, perr, n, buf.Len(), gotName), w)
			continue
		}
		if d := refnbt.Equal(tree, rt.want, refnbt.Opts{EmptyListElemFree: true}); d != "" {
			w := wit().(map[string]any)
			w["output_hex"] = vm.Hex(buf.Bytes())
			c.Violation("enc/user-marshaler/tree-mismatch/"+rt.pos, "independent reader sees another tree than the values wrote at their positions: "+short(d), w)
			continue
		}
		c.Cover("enc.user-marshaler." + rt.pos)
	}
	_ = reflect.TypeOf
}

// ---- the other direction: receivers that read for themselves ------------------------------------------------------

// recText takes a TAG_String through encoding.TextUnmarshaler; recU takes any value through nbt.Unmarshaler: it is
// handed the tag and the source, standing at the first payload byte, and has to read exactly the payload. The monitor
// knows the payload sizes in document order (unQueue); recU reads that many bytes - half of the time byte by byte - and
// keeps them. Where the decoder hands over a wrong tag, a source at a wrong position, or goes on at a wrong position
// afterwards, the recorded bytes or the members that follow differ from the reference writer's.
type recText struct {
	Got   string
	Calls int
}

func (t *recText) UnmarshalText(b []byte) error {
	t.Got, t.Calls = string(b), t.Calls+1
	return nil
}

var unQueue []int
var unByteWise, unReenter bool

type recU struct {
	Tag     byte
	Payload []byte
	Calls   int
}

func (u *recU) UnmarshalNBT(tagType byte, r nbt.DecoderReader) error {
	if len(unQueue) == 0 {
		return fmt.Errorf("monitor: UnmarshalNBT called more often than the document has values for such receivers")
	}
	n := unQueue[0]
	unQueue = unQueue[1:]
	if unReenter {
		reenter()
	}
	buf := make([]byte, n)
	if unByteWise {
		for i := range buf {
			b, err := r.ReadByte()
			if err != nil {
				return err
			}
			buf[i] = b
		}
	} else if _, err := io.ReadFull(r, buf); err != nil {
		return err
	}
	u.Tag, u.Payload, u.Calls = tagType, buf, u.Calls+1
	return nil
}

type unHolder struct {
	A   int32               `nbt:"a"`
	T   recText             `nbt:"t"`
	U   recU                `nbt:"u"`
	PT  *recText            `nbt:"pt"`
	PU  *recU               `nbt:"pu"`
	LT  []recText           `nbt:"lt"`
	LU  []recU              `nbt:"lu"`
	LPU []*recU             `nbt:"lpu"`
	MU  map[string]recU     `nbt:"mu"`
	MT  map[string]*recText `nbt:"mt"`
	AU  [2]recU             `nbt:"au"`
	I   any                 `nbt:"i"`
	Z   string              `nbt:"z"`
}

func checkUserUnmarshalers(c *vm.Ctx, r *vm.Rand, g *nbtgen.G) {
	val := func(tag byte) *refnbt.Value {
		g.Doc(refnbt.Compound)
		if tag == 0 {
			tag = byte(r.Range(1, 12))
		}
		return g.Value(tag, 3)
	}
	listOf := func(n int, tag byte) *refnbt.Value {
		if tag == 0 {
			tag = byte(r.Range(1, 12))
		}
		l := &refnbt.Value{Tag: refnbt.List, Elem: tag}
		for i := 0; i < n; i++ {
			l.List = append(l.List, val(tag))
		}
		return l
	}
	root := comp(ent("a", refnbt.In(int32(r.Uint64()))), ent("t", refnbt.St(g.Str())), ent("u", val(0)), ent("pt", refnbt.St(g.Str())), ent("pu", val(0)),
		ent("lt", listOf(r.Range(0, 3), refnbt.String)), ent("lu", listOf(r.Range(1, 3), 0)), ent("lpu", listOf(r.Range(1, 3), 0)),
		ent("mu", comp(ent("k1", val(0)), ent("k2", val(0)))), ent("mt", comp(ent("k1", refnbt.St(g.Str())), ent("", refnbt.St(g.Str())))),
		ent("au", listOf(2, 0)), ent("i", val(0)), ent("z", refnbt.St("after")), ent("unknown", val(0)))
	for i := len(root.Comp) - 1; i > 0; i-- {
		j := r.Intn(i + 1)
		root.Comp[i], root.Comp[j] = root.Comp[j], root.Comp[i]
	}
	// payload sizes of the values that go to recU receivers, in document order
	unQueue = unQueue[:0]
	for _, e := range root.Comp {
		switch e.Name {
		case "u", "pu", "i":
			unQueue = append(unQueue, len(refnbt.EncodePayload(e.V)))
		case "lu", "lpu", "au":
			for _, x := range e.V.List {
				unQueue = append(unQueue, len(refnbt.EncodePayload(x)))
			}
		case "mu":
			for _, x := range e.V.Comp {
				unQueue = append(unQueue, len(refnbt.EncodePayload(x.V)))
			}
		}
	}
	unByteWise, unReenter = r.Bool(), r.Bool()
	d := &decodeCase{tree: root, network: r.Bool(), trailer: r.Bytes(r.Intn(6))}
	if !d.network {
		d.name = "r"
	}
	d.doc = refnbt.Encode(root, d.name, d.network)
	h := &unHolder{I: new(recU)}
	plain := r.Bool()
	in := append(append([]byte{}, d.doc...), d.trailer...)
	br := bytes.NewReader(in)
	pr := &inject.PlainReader{R: bytes.NewReader(in)}
	wit := func() any {
		w := d.witness("main.unHolder (recText: encoding.TextUnmarshaler, recU: nbt.Unmarshaler reading the reference payload size)", map[bool]string{false: "bytes.Reader", true: "plain io.Reader"}[plain])
		w["unmarshaler_reads_bytewise"], w["unmarshaler_calls_back_into_package"] = unByteWise, unReenter
		return w
	}
	var err error
	if c.Guard("dec/user-unmarshaler", wit, func() {
		var dec *nbt.Decoder
		if plain {
			dec = nbt.NewDecoder(pr)
		} else {
			dec = nbt.NewDecoder(br)
		}
		dec.NetworkFormat(d.network)
		_, err = dec.Decode(h)
	}) {
		return
	}
	c.Eval(vm.Hash64(d.doc, []byte("user-unmarshaler")), true)
	if err != nil {
		c.Violation("dec/user-unmarshaler/error", "a well-formed document into a struct whose members read for themselves is rejected: "+err.Error(), wit())
		return
	}
	consumed := len(in) - br.Len()
	if plain {
		consumed = int(pr.N)
	}
	if consumed != len(d.doc) {
		c.Violation("dec/user-unmarshaler/consumed", fmt.Sprintf("decoder consumed %d bytes, document is %d bytes (trailer %d)", consumed, len(d.doc), len(d.trailer)), wit())
		return
	}
	bad := ""
	okU := func(where string, u *recU, want *refnbt.Value) {
		if bad != "" {
			return
		}
		switch {
		case u == nil:
			bad = where + ": nil"
		case u.Calls != 1:
			bad = fmt.Sprintf("%s: UnmarshalNBT called %d times", where, u.Calls)
		case u.Tag != want.Tag:
			bad = fmt.Sprintf("%s: handed tag %d, the value has tag %d", where, u.Tag, want.Tag)
		case !bytes.Equal(u.Payload, refnbt.EncodePayload(want)):
			bad = fmt.Sprintf("%s: read %s from the source it was handed, the value's payload is %s", where, vm.Hex(u.Payload), vm.Hex(refnbt.EncodePayload(want)))
		}
	}
	okT := func(where string, t *recText, want *refnbt.Value) {
		if bad != "" {
			return
		}
		switch {
		case t == nil:
			bad = where + ": nil"
		case t.Calls != 1 || t.Got != want.S:
			bad = fmt.Sprintf("%s: UnmarshalText called %d times, last with %q; the string is %q", where, t.Calls, t.Got, want.S)
		}
	}
	get := root.Get
	if int64(h.A) != get("a").I || h.Z != "after" {
		bad = fmt.Sprintf("ordinary members: a=%d z=%q", h.A, h.Z)
	}
	okT("t", &h.T, get("t"))
	okU("u", &h.U, get("u"))
	okT("pt", h.PT, get("pt"))
	okU("pu", h.PU, get("pu"))
	if bad == "" && (len(h.LT) != len(get("lt").List) || len(h.LU) != len(get("lu").List) || len(h.LPU) != len(get("lpu").List) || len(h.MU) != 2 || len(h.MT) != 2) {
		bad = fmt.Sprintf("lengths: lt %d lu %d lpu %d mu %d mt %d", len(h.LT), len(h.LU), len(h.LPU), len(h.MU), len(h.MT))
	}
	for i := 0; bad == "" && i < len(h.LT); i++ {
		okT(fmt.Sprintf("lt[%d]", i), &h.LT[i], get("lt").List[i])
	}
	for i := 0; bad == "" && i < len(h.LU); i++ {
		okU(fmt.Sprintf("lu[%d]", i), &h.LU[i], get("lu").List[i])
	}
	for i := 0; bad == "" && i < len(h.LPU); i++ {
		okU(fmt.Sprintf("lpu[%d]", i), h.LPU[i], get("lpu").List[i])
	}
	for _, e := range get("mu").Comp {
		x, present := h.MU[e.Name]
		if !present {
			x = recU{}
		}
		okU("mu."+e.Name, &x, e.V)
	}
	for _, e := range get("mt").Comp {
		okT("mt."+e.Name, h.MT[e.Name], e.V)
	}
	for i := 0; i < 2; i++ {
		okU(fmt.Sprintf("au[%d]", i), &h.AU[i], get("au").List[i])
	}
	if iu, isU := h.I.(*recU); !isU {
		if bad == "" {
			bad = fmt.Sprintf("i: the any field held a *recU, now a %T", h.I)
		}
	} else {
		okU("i", iu, get("i"))
	}
	if bad == "" && len(unQueue) != 0 {
		bad = fmt.Sprintf("%d values for self-reading receivers were never handed over", len(unQueue))
	}
	if bad != "" {
		c.Violation("dec/user-unmarshaler/value-mismatch", "a receiver that reads for itself was not handed its value: "+short(bad), wit())
		return
	}
	c.Cover("dec.user-unmarshaler")
	if unReenter {
		c.Cover("dec.user-unmarshaler.calls-back-into-package")
	}
	if unByteWise {
		c.Cover("dec.user-unmarshaler.reads-bytewise")
	}
}
