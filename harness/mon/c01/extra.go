// Monitor C01, additions: many sibling containers, several documents behind one Decoder, statically declared
// struct receivers (shapes reflect.StructOf cannot build).
package main

import (
	"bytes"
	"fmt"
	"io"
	"reflect"

	"github.com/Tnze/go-mc/nbt"

	"verif/gen/gotypes"
	"verif/inject"
	"verif/ref/refnbt"
	"verif/vm"
)

// decodeOne decodes d into a fresh value of type t and compares error, bytes consumed, root name and value with
// the document (what the loop of checkDecode does for one receiver). It returns the decoded value.
func decodeOne(c *vm.Ctx, d *decodeCase, t reflect.Type, plain bool, sub string) (reflect.Value, bool) {
	rv, name, consumed, err, pan := decodeInto(c, d, t, plain, sub)
	if pan {
		return rv, false
	}
	c.Eval(0, false)
	src := map[bool]string{false: "bytes.Reader", true: "plain io.Reader"}[plain]
	w := func() any { return d.witness(t.String(), src) }
	if err != nil {
		c.Violation(sub+"/error-on-wellformed/root."+tagClass(d.tree), fmt.Sprintf("well-formed document rejected: %v", err), w())
		return rv, false
	}
	if consumed != len(d.doc) {
		c.Violation(sub+"/consumed", fmt.Sprintf("decoder consumed %d bytes of the stream, document is %d bytes (trailer %d)", consumed, len(d.doc), len(d.trailer)), w())
		return rv, false
	}
	if name != d.name {
		c.Violation(sub+"/root-name", fmt.Sprintf("root name %q, want %q", name, d.name), w())
		return rv, false
	}
	return rv, true
}

// checkManySiblings: a list of 600 / 1500 compounds or lists. No value nests deeper than 3, but a decoder that
// counts the containers it enters and forgets to count one it leaves refuses such a list (the limit is 512).
func checkManySiblings(c *vm.Ctx, r *vm.Rand) {
	type skipper struct {
		A int32  `nbt:"a"`
		Z string `nbt:"z"`
	}
	type elemA struct {
		A int16 `nbt:"a"`
	}
	for _, n := range []int{600, 1500} {
		for kind := 0; kind < 4; kind++ {
			list := &refnbt.Value{Tag: refnbt.List}
			var elemTypes []reflect.Type
			desc := ""
			switch kind {
			case 0:
				desc = "empty compounds"
				list.Elem = refnbt.Compound
				for i := 0; i < n; i++ {
					list.List = append(list.List, &refnbt.Value{Tag: refnbt.Compound})
				}
				elemTypes = []reflect.Type{reflect.TypeOf(struct{}{}), reflect.TypeOf(map[string]int16(nil)), reflect.TypeOf(elemA{})}
			case 1:
				desc = "compounds with one member"
				list.Elem = refnbt.Compound
				for i := 0; i < n; i++ {
					list.List = append(list.List, &refnbt.Value{Tag: refnbt.Compound, Comp: []refnbt.Entry{{Name: "a", V: refnbt.Sh(int16(r.Uint64()))}}})
				}
				elemTypes = []reflect.Type{reflect.TypeOf(struct{}{}), reflect.TypeOf(map[string]int16(nil)), reflect.TypeOf(elemA{})}
			case 2:
				desc = "empty lists"
				list.Elem = refnbt.List
				for i := 0; i < n; i++ {
					list.List = append(list.List, &refnbt.Value{Tag: refnbt.List, Elem: []byte{refnbt.End, refnbt.Short}[i%2]})
				}
				elemTypes = []reflect.Type{reflect.TypeOf([]int16(nil)), reflect.TypeOf([]any(nil)), reflect.TypeOf([0]int16{})}
			default:
				desc = "lists of one short"
				list.Elem = refnbt.List
				for i := 0; i < n; i++ {
					list.List = append(list.List, &refnbt.Value{Tag: refnbt.List, Elem: refnbt.Short, List: []*refnbt.Value{refnbt.Sh(int16(r.Uint64()))}})
				}
				elemTypes = []reflect.Type{reflect.TypeOf([]int16(nil)), reflect.TypeOf([]any(nil)), reflect.TypeOf([2]uint16{})}
			}
			for _, wrapped := range []bool{false, true} {
				tree := list
				if wrapped {
					tree = &refnbt.Value{Tag: refnbt.Compound, Comp: []refnbt.Entry{{Name: "a", V: refnbt.In(int32(r.Uint64()))}, {Name: "big", V: list}, {Name: "z", V: refnbt.St("after")}}}
				}
				d := &decodeCase{tree: tree, network: r.Bool(), trailer: []byte{10, 0, 0, 9, 9}}
				if !d.network {
					d.name = "r"
				}
				d.doc = refnbt.Encode(tree, d.name, d.network)
				c.Eval(vm.HashStr("siblings", desc, fmt.Sprint(n, wrapped)), true)
				checkDecode(c, r, d, map[string]bool{}) // any, map (wrapped), a generated typed receiver
				var types []reflect.Type
				for _, et := range elemTypes {
					st := reflect.SliceOf(et)
					if wrapped {
						st = reflect.StructOf([]reflect.StructField{{Name: "Big", Type: st, Tag: `nbt:"big"`}, {Name: "Z", Type: reflect.TypeOf(""), Tag: `nbt:"z"`}})
					}
					types = append(types, st)
				}
				if wrapped {
					types = append(types, reflect.TypeOf(skipper{})) // the list is unknown to the receiver: skipped
				} else {
					types = append(types, reflect.ArrayOf(n, elemTypes[0]))
				}
				ok := true
				for _, t := range types {
					sub := "dec/siblings"
					rv, good := decodeOne(c, d, t, r.Bool(), sub)
					if !good {
						ok = false
						continue
					}
					if diff := gotypes.MatchGoFresh(rv, d.tree, "$"); diff != "" {
						c.Violation(sub+"/value-mismatch/"+firstFeature(diff), fmt.Sprintf("a list of %d %s decoded into %s differs from the document: %s", n, desc, t, diff), d.witness(t.String(), "-"))
						ok = false
					}
				}
				if ok {
					c.Cover("siblings." + map[bool]string{false: "root", true: "member-and-skipped"}[wrapped])
				}
			}
		}
	}
}

func containers(v *refnbt.Value) int {
	n := 0
	if v.Tag == refnbt.List || v.Tag == refnbt.Compound {
		n = 1
	}
	for _, e := range v.List {
		n += containers(e)
	}
	for _, e := range v.Comp {
		n += containers(e.V)
	}
	return n
}

// checkStream: one Decoder, several documents one after the other in its source (the way a file of concatenated
// documents or a connection is read). Every Decode must yield the document at which the source stands and stop at
// its end. With long = true the document is repeated until its lists and compounds add up to more than 600.
func checkStream(c *vm.Ctx, r *vm.Rand, d *decodeCase, long bool) {
	reps := 3
	if long {
		k := containers(d.tree)
		if k == 0 {
			return
		}
		reps = 600/k + 2
		if reps*len(d.doc) > 1<<17 {
			return
		}
	}
	last := refnbt.Encode(refnbt.In(7), "t", d.network)
	var in []byte
	for i := 0; i < reps; i++ {
		in = append(in, d.doc...)
	}
	in = append(append(in, last...), 0xEE, 0xEE)
	typed := gotypes.TargetFor(r, d.tree, 0, map[string]bool{})
	var rd io.Reader
	pos := func() int { return 0 }
	src := ""
	switch r.Intn(3) {
	case 0:
		br := bytes.NewReader(in)
		rd, src, pos = br, "bytes.Reader", func() int { return len(in) - br.Len() }
	case 1:
		pr := &inject.PlainReader{R: bytes.NewReader(in)}
		rd, src, pos = pr, "plain io.Reader", func() int { return int(pr.N) }
	default:
		cr := &inject.ChunkReader{B: in, Plan: []int{3, 1, 5, 2}}
		rd, src, pos = cr, "plain io.Reader with short reads", func() int { return cr.Pos }
	}
	wit := func(k int, t reflect.Type) func() any {
		return func() any {
			m := d.witness(t.String(), src)
			m["stream"] = fmt.Sprintf("the document %d times, then an Int document named t, then EE EE; one Decoder; failing Decode call: number %d (from 0)", reps, k)
			return m
		}
	}
	var dec *nbt.Decoder
	c.Eval(vm.Hash64(d.doc, []byte{byte(reps)}, []byte("stream")), true)
	for k := 0; k <= reps; k++ {
		t := reflect.TypeOf((*any)(nil)).Elem()
		if k%2 == 1 {
			t = typed
		}
		doc, tree, wantName := d.doc, d.tree, d.name
		if k == reps {
			doc, tree, wantName, t = last, refnbt.In(7), "t", reflect.TypeOf(int32(0))
			if d.network {
				wantName = ""
			}
		}
		ptr := reflect.New(t)
		var name string
		var err error
		if c.Guard("dec/stream", wit(k, t), func() {
			if dec == nil {
				dec = nbt.NewDecoder(rd)
				dec.NetworkFormat(d.network)
			}
			name, err = dec.Decode(ptr.Interface())
		}) {
			return
		}
		c.Eval(0, false)
		if err != nil {
			c.Violation("dec/stream/error/root."+tagClass(tree), fmt.Sprintf("Decode number %d on one Decoder whose source holds well-formed documents one after the other failed: %v", k, err), wit(k, t)())
			return
		}
		if pos() != k*len(d.doc)+len(doc) {
			c.Violation("dec/stream/consumed", fmt.Sprintf("after Decode number %d the source stands at byte %d, the document ends at %d", k, pos(), k*len(d.doc)+len(doc)), wit(k, t)())
			return
		}
		if name != wantName {
			c.Violation("dec/stream/root-name", fmt.Sprintf("Decode number %d returned root name %q, want %q", k, name, wantName), wit(k, t)())
			return
		}
		if diff := gotypes.MatchGoFresh(ptr.Elem(), tree, "$"); diff != "" {
			c.Violation("dec/stream/value-mismatch/"+firstFeature(diff), fmt.Sprintf("Decode number %d: value differs from the document: %s", k, diff), wit(k, t)())
			return
		}
	}
	if long {
		c.Cover("stream.one-decoder.over-600-containers")
	} else {
		c.Cover("stream.one-decoder.three-documents")
	}
}
