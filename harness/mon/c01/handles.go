// Monitor C01, additions of the second blind-spot review (4): handles used more than once and settings that were
// never set. One Encoder for several values with NetworkFormat switched between the calls (the workload made a new
// Encoder per value), one Decoder over documents of alternating formats (a stream kept one format), the
// DisallowUnknownFields setting on receivers that know every key (it must change nothing then), and decoding in two
// stages through RawMessage (capture, then RawMessage.Unmarshal / UnmarshalDisallowUnknownField), whose first stage
// has an independent expectation too: Type and Data are the reference writer's tag and payload bytes.
package main

import (
	"bytes"
	"fmt"
	"reflect"
	"strconv"

	"github.com/Tnze/go-mc/nbt"

	"verif/gen/gotypes"
	"verif/inject"
	"verif/ref/refnbt"
	"verif/vm"
)

// checkEncoderReuse: 2..5 values through ONE Encoder into one buffer; the format (and the root name) changes from
// call to call. The buffer must be the documents one after the other, nothing between them.
func checkEncoderReuse(c *vm.Ctx, g *gotypes.Gen) {
	r := g.R
	type item struct {
		v       reflect.Value
		want    *refnbt.Value
		network bool
		name    string
		byPtr   bool
		desc    string
		end     int
	}
	var items []item
	for k := r.Range(2, 5); k > 0; k-- {
		g.Features = map[string]bool{}
		var t reflect.Type
		if r.Bool() {
			t = g.GenType(1)
		} else {
			t = g.GenStruct(1)
		}
		v := g.GenValue(t)
		want, unsup := gotypes.Expect(v)
		if unsup != "" {
			continue
		}
		it := item{v: v, want: want, network: r.Bool(), byPtr: r.Bool(), desc: short(fmt.Sprintf("%s %+v", t, v.Interface()))}
		// a name is handed over in network format too, now and then: the root has no name there, whatever the caller passes
		if !it.network || r.Intn(3) == 0 {
			it.name = []string{"", "n", "root name"}[r.Intn(3)]
		}
		items = append(items, it)
	}
	if len(items) < 2 {
		return
	}
	var buf bytes.Buffer
	var err error
	failed := -1
	wit := func() any {
		var calls []string
		for _, it := range items {
			calls = append(calls, fmt.Sprintf("NetworkFormat(%v); Encode(%s, %q) by pointer: %v", it.network, it.desc, it.name, it.byPtr))
		}
		return map[string]any{"calls_on_one_encoder": calls, "failing_call": failed, "output_hex": vm.Hex(buf.Bytes())}
	}
	if c.Guard("enc/reused-encoder", wit, func() {
		enc := nbt.NewEncoder(&buf)
		for i := range items {
			it := &items[i]
			enc.NetworkFormat(it.network)
			if it.byPtr {
				err = enc.Encode(it.v.Addr().Interface(), it.name)
			} else {
				err = enc.Encode(it.v.Interface(), it.name)
			}
			it.end = buf.Len()
			if err != nil {
				failed = i
				return
			}
		}
	}) {
		return
	}
	c.Eval(vm.Hash64(buf.Bytes(), []byte("reused-encoder")), true)
	if err != nil {
		c.Violation("enc/reused-encoder/error/"+vm.NormErr(err.Error()), fmt.Sprintf("call %d on an Encoder that had encoded other values before failed: %v", failed, err), wit())
		return
	}
	pos := 0
	for i, it := range items {
		failed = i
		tree, name, n, perr := refnbt.Parse(buf.Bytes()[pos:], it.network)
		if perr != nil {
			c.Violation("enc/reused-encoder/not-wellformed", fmt.Sprintf("what call %d wrote (from offset %d) is not a well-formed document in the format set before the call: %v", i, pos, perr), wit())
			return
		}
		if pos+n != it.end {
			c.Violation("enc/reused-encoder/boundaries", fmt.Sprintf("call %d returned with %d bytes in the buffer, its document ends at %d", i, it.end, pos+n), wit())
			return
		}
		if wantName := map[bool]string{false: it.name, true: ""}[it.network]; name != wantName {
			c.Violation("enc/reused-encoder/root-name", fmt.Sprintf("call %d: root name %q, want %q", i, name, wantName), wit())
			return
		}
		if it.network && it.name != "" {
			c.Cover("enc.network-format.name-handed-over-and-ignored")
		}
		if d := refnbt.Equal(tree, it.want, refnbt.Opts{EmptyListElemFree: true, FloatNaNAny: true}); d != "" {
			c.Violation("enc/reused-encoder/tree-mismatch/"+firstFeature(d), fmt.Sprintf("call %d: independent reader sees a different tree than the documented mapping assigns: %s", i, d), wit())
			return
		}
		pos += n
	}
	c.Cover("enc.reused-encoder")
	for i := 1; i < len(items); i++ {
		if items[i].network != items[i-1].network {
			c.Cover("enc.reused-encoder.format-switched")
		}
	}
}

// fullTarget builds a receiver for a compound that knows EVERY key at every struct level (nested compounds
// become nested structs or maps), so that DisallowUnknownFields has nothing to object to. ok is false when a key
// cannot be a struct tag (the empty name).
func fullTarget(r *vm.Rand, v *refnbt.Value) (t reflect.Type, ok bool) {
	if v.Tag != refnbt.Compound {
		if v.Tag == refnbt.List && (v.Elem == refnbt.Compound || v.Elem == refnbt.List) {
			return reflect.TypeOf([]any(nil)), true // no struct inside: nothing can be unknown
		}
		return gotypes.TargetFor(r, v, 1, map[string]bool{}), true
	}
	if r.Intn(5) == 0 {
		return reflect.TypeOf(map[string]any(nil)), true
	}
	var fields []reflect.StructField
	for i, e := range v.Comp {
		if e.Name == "" {
			return nil, false
		}
		ft, ok := fullTarget(r, e.V)
		if !ok {
			return nil, false
		}
		fields = append(fields, reflect.StructField{Name: fmt.Sprintf("F%d", i), Type: ft, Tag: reflect.StructTag(`nbtkey:` + strconv.Quote(e.Name))})
	}
	return reflect.StructOf(fields), true
}

// checkDisallowKnown: DisallowUnknownFields on a receiver that knows every key of the document.
func checkDisallowKnown(c *vm.Ctx, r *vm.Rand, d *decodeCase) {
	if d.tree.Tag != refnbt.Compound {
		return
	}
	t, ok := fullTarget(r, d.tree)
	if !ok || t.Kind() != reflect.Struct {
		return
	}
	in := append(append([]byte{}, d.doc...), d.trailer...)
	src := &inject.ByteSrc{B: in}
	ptr := reflect.New(t)
	wit := func() any {
		m := d.witness(t.String(), "io.ByteReader")
		m["setting"] = "DisallowUnknownFields; the receiver has a field for every key at every level"
		return m
	}
	var err error
	var name string
	if c.Guard("dec/disallow-unknown", wit, func() {
		dec := nbt.NewDecoder(src)
		if r.Bool() {
			dec.DisallowUnknownFields()
			dec.NetworkFormat(d.network)
		} else {
			dec.NetworkFormat(d.network)
			dec.DisallowUnknownFields()
		}
		name, err = dec.Decode(ptr.Interface())
	}) {
		return
	}
	c.Eval(vm.Hash64(d.doc, []byte("disallow"), []byte(t.String())), true)
	if err != nil {
		c.Violation("dec/disallow-unknown/error-on-known-keys", fmt.Sprintf("with DisallowUnknownFields a document all of whose keys the receiver knows is rejected: %v", err), wit())
		return
	}
	if src.Pos != len(d.doc) || name != d.name {
		c.Violation("dec/disallow-unknown/consumed-or-name", fmt.Sprintf("consumed %d bytes (document %d), root name %q (want %q)", src.Pos, len(d.doc), name, d.name), wit())
		return
	}
	if diff := gotypes.MatchGoFresh(ptr.Elem(), d.tree, "$"); diff != "" {
		c.Violation("dec/disallow-unknown/value-mismatch/"+firstFeature(diff), "decoded value differs from the document: "+diff, wit())
		return
	}
	c.Cover("decode.disallow-unknown-fields.all-keys-known")
}

// checkDecoderFormatSwitch: one Decoder, documents of alternating formats in its source, NetworkFormat called
// before each Decode.
func checkDecoderFormatSwitch(c *vm.Ctx, r *vm.Rand, d *decodeCase) {
	other := refnbt.Encode(d.tree, "", !d.network)
	in := append(append(append(append([]byte{}, d.doc...), other...), d.doc...), 0xEE)
	src := &inject.ByteSrc{B: in}
	var rd interface {
		Read([]byte) (int, error)
	} = src
	pr := &inject.PlainReader{R: bytes.NewReader(in)}
	plain := r.Bool()
	if plain {
		rd = pr
	}
	pos := func() int {
		if plain {
			return int(pr.N)
		}
		return src.Pos
	}
	typed := gotypes.TargetFor(r, d.tree, 0, map[string]bool{})
	steps := []struct {
		network bool
		name    string
		end     int
	}{{d.network, d.name, len(d.doc)}, {!d.network, "", len(d.doc) + len(other)}, {d.network, d.name, 2*len(d.doc) + len(other)}}
	k := 0
	wit := func() any {
		m := d.witness(typed.String(), map[bool]string{false: "io.ByteReader", true: "plain io.Reader"}[plain])
		m["stream"] = fmt.Sprintf("the document in its format, the same tree in the other format (empty name), the document again, then EE; one Decoder, NetworkFormat set before every Decode; failing Decode: number %d", k)
		return m
	}
	var dec *nbt.Decoder
	c.Eval(vm.Hash64(d.doc, []byte("format-switch")), true)
	for ; k < len(steps); k++ {
		t := reflect.TypeOf((*any)(nil)).Elem()
		if k == 1 {
			t = typed
		}
		ptr := reflect.New(t)
		var name string
		var err error
		if c.Guard("dec/format-switch", wit, func() {
			if dec == nil {
				dec = nbt.NewDecoder(rd)
			}
			dec.NetworkFormat(steps[k].network)
			name, err = dec.Decode(ptr.Interface())
		}) {
			return
		}
		if err != nil {
			c.Violation("dec/format-switch/error/root."+tagClass(d.tree), fmt.Sprintf("Decode number %d on one Decoder whose format is switched between well-formed documents failed: %v", k, err), wit())
			return
		}
		if pos() != steps[k].end || name != steps[k].name {
			c.Violation("dec/format-switch/consumed-or-name", fmt.Sprintf("after Decode number %d the source stands at %d (document ends at %d), root name %q (want %q)", k, pos(), steps[k].end, name, steps[k].name), wit())
			return
		}
		if diff := gotypes.MatchGoFresh(ptr.Elem(), d.tree, "$"); diff != "" {
			c.Violation("dec/format-switch/value-mismatch/"+firstFeature(diff), fmt.Sprintf("Decode number %d: value differs from the document: %s", k, diff), wit())
			return
		}
	}
	c.Cover("stream.one-decoder.format-switched")
}

type rawMember struct {
	A int16          `nbt:"a"`
	C nbt.RawMessage `nbt:"c"`
	Z string         `nbt:"z"`
}

// checkTwoStage: the document captured by a RawMessage receiver (at the root with a trailer behind it, or as the
// member of a struct with other members around it), then decoded from there.
func checkTwoStage(c *vm.Ctx, r *vm.Rand, d *decodeCase) {
	member := r.Bool()
	tree, doc := d.tree, d.doc
	var m *nbt.RawMessage
	var recv any
	if member {
		tree = comp(ent("a", refnbt.Sh(int16(r.Uint64()))), ent("c", d.tree), ent("z", refnbt.St("after")))
		doc = refnbt.Encode(tree, d.name, d.network)
		h := &rawMember{}
		recv, m = h, &h.C
	} else {
		m = &nbt.RawMessage{}
		recv = m
	}
	in := append(append([]byte{}, doc...), d.trailer...)
	plain := r.Bool()
	br := bytes.NewReader(in)
	pr := &inject.PlainReader{R: bytes.NewReader(in)}
	wit := func() any {
		w := d.witness("nbt.RawMessage", map[bool]string{false: "bytes.Reader", true: "plain io.Reader"}[plain])
		w["raw_message_position"] = map[bool]string{false: "root", true: "struct member c between a and z"}[member]
		w["doc_hex"] = vm.Hex(doc)
		return w
	}
	var err error
	var name string
	if c.Guard("dec/raw-capture", wit, func() {
		var dec *nbt.Decoder
		if plain {
			dec = nbt.NewDecoder(pr)
		} else {
			dec = nbt.NewDecoder(br)
		}
		dec.NetworkFormat(d.network)
		name, err = dec.Decode(recv)
	}) {
		return
	}
	c.Eval(vm.Hash64(doc, []byte("two-stage")), true)
	if err != nil {
		c.Violation("dec/raw-capture/error-on-wellformed/root."+tagClass(d.tree), fmt.Sprintf("a RawMessage receiver rejects a well-formed document: %v", err), wit())
		return
	}
	consumed := len(in) - br.Len()
	if plain {
		consumed = int(pr.N)
	}
	if consumed != len(doc) || name != d.name {
		c.Violation("dec/raw-capture/consumed-or-name", fmt.Sprintf("consumed %d bytes (document %d, trailer %d), root name %q (want %q)", consumed, len(doc), len(d.trailer), name, d.name), wit())
		return
	}
	if payload := refnbt.EncodePayload(d.tree); m.Type != d.tree.Tag || !bytes.Equal(m.Data, payload) {
		c.Violation("dec/raw-capture/content", fmt.Sprintf("RawMessage holds Type %d and %d bytes of Data, the document's value has tag %d and a payload of %d bytes (equal: %v)", m.Type, len(m.Data), d.tree.Tag, len(payload), bytes.Equal(m.Data, payload)), wit())
		return
	}
	if h, ok := recv.(*rawMember); ok && (int64(h.A) != tree.Get("a").I || h.Z != "after") {
		c.Violation("dec/raw-capture/neighbours", fmt.Sprintf("members around the RawMessage: a=%d z=%q", h.A, h.Z), wit())
		return
	}
	c.Cover("decode.raw-capture." + map[bool]string{false: "root", true: "member"}[member])
	// second stage
	targets := []struct {
		name   string
		t      reflect.Type
		strict bool
	}{{"any", reflect.TypeOf((*any)(nil)).Elem(), false}, {"typed", gotypes.TargetFor(r, d.tree, 0, map[string]bool{}), false}}
	if ft, ok := fullTarget(r, d.tree); ok {
		targets = append(targets, struct {
			name   string
			t      reflect.Type
			strict bool
		}{"typed-all-keys-known", ft, true})
	}
	for _, tg := range targets {
		ptr := reflect.New(tg.t)
		w2 := func() any {
			w := wit().(map[string]any)
			w["second_stage_receiver"] = tg.t.String()
			w["second_stage_call"] = map[bool]string{false: "RawMessage.Unmarshal", true: "RawMessage.UnmarshalDisallowUnknownField"}[tg.strict]
			return w
		}
		if c.Guard("dec/raw-second-stage", w2, func() {
			if tg.strict {
				err = m.UnmarshalDisallowUnknownField(ptr.Interface())
			} else {
				err = m.Unmarshal(ptr.Interface())
			}
		}) {
			return
		}
		c.Eval(0, false)
		if err != nil {
			c.Violation("dec/raw-second-stage/error/"+tg.name, fmt.Sprintf("decoding out of a RawMessage that captured a well-formed value failed: %v", err), w2())
			return
		}
		if diff := gotypes.MatchGoFresh(ptr.Elem(), d.tree, "$"); diff != "" {
			c.Violation("dec/raw-second-stage/value-mismatch/"+firstFeature(diff), "value decoded out of a RawMessage differs from the document: "+diff, w2())
			return
		}
		c.Cover("decode.raw-second-stage." + tg.name)
	}
}

// checkDiamondEncode: D embeds B and C, both embed the same struct type A (two levels). By the embedding rules A's
// names belong to nobody - unless D or B offers the name at a shallower depth - so they are not emitted; everything
// else is. The generated types keep all names distinct and never hold one embedded type twice.
func checkDiamondEncode(c *vm.Ctx, r *vm.Rand) {
	i32, str := reflect.TypeOf(int32(0)), reflect.TypeOf("")
	for variant := 0; variant < 6; variant++ {
		taggedK := variant&1 == 1
		shallow := (variant >> 1) % 3
		kf := reflect.StructField{Name: "K", Type: str}
		if taggedK {
			kf = reflect.StructField{Name: "TK", Type: str, Tag: `nbt:"K"`}
		}
		a := reflect.StructOf([]reflect.StructField{kf, {Name: "UA", Type: i32, Tag: `nbt:"ua"`}})
		bf := []reflect.StructField{{Name: "EI", Type: a, Anonymous: true}, {Name: "UB", Type: i32, Tag: `nbt:"ub"`}}
		if shallow == 2 {
			bf = append(bf, reflect.StructField{Name: "BK", Type: str, Tag: `nbt:"K"`})
		}
		b := reflect.StructOf(bf)
		cc := reflect.StructOf([]reflect.StructField{{Name: "EI", Type: a, Anonymous: true}, {Name: "UC", Type: i32, Tag: `nbt:"uc"`}})
		df := []reflect.StructField{{Name: "Own", Type: i32, Tag: `nbt:"own"`}, {Name: "EB", Type: b, Anonymous: true}, {Name: "EC", Type: cc, Anonymous: true}}
		if shallow == 1 {
			df = append(df, reflect.StructField{Name: "DK", Type: str, Tag: `nbt:"K"`})
		}
		d := reflect.StructOf(df)
		v := reflect.New(d).Elem()
		own, ub, uc := int32(r.Uint64()), int32(r.Uint64()), int32(r.Uint64())
		v.Field(0).SetInt(int64(own))
		v.Field(1).Field(0).Field(0).SetString("through B")
		v.Field(1).Field(0).Field(1).SetInt(11)
		v.Field(1).Field(1).SetInt(int64(ub))
		v.Field(2).Field(0).Field(0).SetString("through C")
		v.Field(2).Field(0).Field(1).SetInt(22)
		v.Field(2).Field(1).SetInt(int64(uc))
		want := comp(ent("own", refnbt.In(own)), ent("ub", refnbt.In(ub)), ent("uc", refnbt.In(uc)))
		switch shallow {
		case 1:
			v.Field(3).SetString("owner in D")
			want.Comp = append(want.Comp, ent("K", refnbt.St("owner in D")))
		case 2:
			v.Field(1).Field(2).SetString("owner in B")
			want.Comp = append(want.Comp, ent("K", refnbt.St("owner in B")))
		}
		for _, byPtr := range []bool{false, true} {
			network := r.Bool()
			wit := func() any {
				return map[string]any{"go_type": short(d.String()), "go_value": short(fmt.Sprintf("%+v", v.Interface())), "network": network, "by_pointer": byPtr, "expected_tree": refnbt.Describe(want)}
			}
			var buf bytes.Buffer
			var err error
			if c.Guard("enc/diamond", wit, func() {
				enc := nbt.NewEncoder(&buf)
				enc.NetworkFormat(network)
				if byPtr {
					err = enc.Encode(v.Addr().Interface(), "")
				} else {
					err = enc.Encode(v.Interface(), "")
				}
			}) {
				continue
			}
			c.Eval(vm.HashStr("diamond", fmt.Sprint(variant, byPtr, network)), true)
			if err != nil {
				c.Violation("enc/diamond/error", "Encode failed on a struct that embeds one struct type along two paths: "+err.Error(), wit())
				continue
			}
			tree, _, n, perr := refnbt.Parse(buf.Bytes(), network)
			if perr != nil || n != buf.Len() {
				c.Violation("enc/diamond/not-wellformed", fmt.Sprintf("encoder output is not one well-formed document: %v; bytes %s", perr, vm.Hex(buf.Bytes())), wit())
				continue
			}
			if len(tree.Comp) != len(want.Comp) {
				c.Violation("enc/diamond/members", fmt.Sprintf("%d members emitted (%s), the embedding rules give %d", len(tree.Comp), refnbt.Describe(tree), len(want.Comp)), wit())
				continue
			}
			if df := refnbt.Equal(tree, want, refnbt.Opts{}); df != "" {
				c.Violation("enc/diamond/tree-mismatch", "independent reader sees another tree than the embedding rules give: "+df, wit())
				continue
			}
			c.Cover("enc.embedded.same-type-along-two-paths")
		}
	}
}

// checkNameOwnership: one name offered by two or three fields at embedding depths 0..2, each tagged `nbt:"K"` or an
// untagged Go field K (the generated types keep names distinct; C02 checks the round trip of such types). The
// encoder's side of "embedded-field rules as documented": the shallowest field owns the name; among several at that
// depth the only tagged one; otherwise nobody. K is emitted at most once and carries its owner's value.
func checkNameOwnership(c *vm.Ctx, r *vm.Rand) {
	type offer struct {
		depth  int
		tagged bool
	}
	one := []offer{{0, false}, {0, true}, {1, false}, {1, true}, {2, false}, {2, true}}
	var all [][]offer
	for _, a := range one {
		for _, b := range one {
			all = append(all, []offer{a, b})
			for _, d := range one {
				all = append(all, []offer{a, b, d})
			}
		}
	}
	i32 := reflect.TypeOf(int32(0))
	for _, cs := range all {
		outer := []reflect.StructField{{Name: "Own", Type: i32, Tag: `nbt:"own"`}}
		var paths [][]int
		untagged0, ok := false, true
		for i, o := range cs {
			leaf := reflect.StructField{Name: "K", Type: i32}
			if o.tagged {
				leaf = reflect.StructField{Name: fmt.Sprintf("T%d", i), Type: i32, Tag: `nbt:"K"`}
			}
			uniq := func(l int) reflect.StructField {
				return reflect.StructField{Name: fmt.Sprintf("U%d_%d", i, l), Type: i32, Tag: reflect.StructTag(fmt.Sprintf(`nbt:"u%d_%d"`, i, l))}
			}
			switch o.depth {
			case 0:
				if !o.tagged {
					if untagged0 {
						ok = false // two Go fields named K in one struct
					}
					untagged0 = true
				}
				paths = append(paths, []int{len(outer)})
				outer = append(outer, leaf)
			case 1:
				paths = append(paths, []int{len(outer), 1})
				outer = append(outer, reflect.StructField{Name: fmt.Sprintf("E%d", i), Type: reflect.StructOf([]reflect.StructField{uniq(1), leaf}), Anonymous: true})
			default:
				e2 := reflect.StructOf([]reflect.StructField{leaf, uniq(2)})
				paths = append(paths, []int{len(outer), 1, 0})
				outer = append(outer, reflect.StructField{Name: fmt.Sprintf("E%d", i), Type: reflect.StructOf([]reflect.StructField{uniq(1), {Name: fmt.Sprintf("D%d", i), Type: e2, Anonymous: true}}), Anonymous: true})
			}
		}
		if !ok {
			continue
		}
		// the owner by the embedding rules
		minDepth, own := 99, -1
		for _, o := range cs {
			minDepth = min(minDepth, o.depth)
		}
		var at, tagged []int
		for i, o := range cs {
			if o.depth == minDepth {
				at = append(at, i)
				if o.tagged {
					tagged = append(tagged, i)
				}
			}
		}
		if len(at) == 1 {
			own = at[0]
		} else if len(tagged) == 1 {
			own = tagged[0]
		}
		t := reflect.StructOf(outer)
		v := reflect.New(t).Elem()
		v.Field(0).SetInt(int64(r.Range(1, 1<<20)))
		for k, p := range paths {
			v.FieldByIndex(p).SetInt(int64(1000 + k))
		}
		for _, byPtr := range []bool{false, true} {
			network := r.Bool()
			wit := func() any {
				return map[string]any{"go_type": short(t.String()), "go_value": short(fmt.Sprintf("%+v", v.Interface())), "offers_depth_tagged": fmt.Sprint(cs), "owner_by_embedding_rules": own, "network": network, "by_pointer": byPtr}
			}
			var buf bytes.Buffer
			var err error
			if c.Guard("enc/name-ownership", wit, func() {
				enc := nbt.NewEncoder(&buf)
				enc.NetworkFormat(network)
				if byPtr {
					err = enc.Encode(v.Addr().Interface(), "")
				} else {
					err = enc.Encode(v.Interface(), "")
				}
			}) {
				continue
			}
			c.Eval(vm.HashStr("name-ownership", fmt.Sprint(cs, byPtr, network)), true)
			if err != nil {
				c.Violation("enc/name-ownership/error", "Encode failed on a struct whose embedded structs offer one name: "+err.Error(), wit())
				continue
			}
			tree, _, n, perr := refnbt.Parse(buf.Bytes(), network)
			if perr != nil || n != buf.Len() {
				c.Violation("enc/name-ownership/not-wellformed", fmt.Sprintf("encoder output is not one well-formed document: %v; bytes %s", perr, vm.Hex(buf.Bytes())), wit())
				continue
			}
			nK := 0
			var kv *refnbt.Value
			for _, e := range tree.Comp {
				if e.Name == "K" {
					nK++
					kv = e.V
				}
			}
			wantK := 0
			if own >= 0 {
				wantK = 1
			}
			if nK != wantK {
				c.Violation(fmt.Sprintf("enc/name-ownership/emitted-%d-want-%d", nK, wantK), fmt.Sprintf("name K emitted %d times, the embedding rules give it %d owner(s) (offers (depth, tagged): %v)", nK, wantK, cs), wit())
				continue
			}
			if own >= 0 && (kv.Tag != refnbt.Int || kv.I != int64(1000+own)) {
				c.Violation("enc/name-ownership/wrong-owner", fmt.Sprintf("K carries %s, its owner (offer %d of %v) holds %d", refnbt.Describe(kv), own, cs, 1000+own), wit())
				continue
			}
			if own >= 0 {
				c.Cover(fmt.Sprintf("enc.name-ownership.owner.depth%d.tagged-%v", cs[own].depth, cs[own].tagged))
			} else {
				c.Cover("enc.name-ownership.no-owner")
			}
		}
	}
}
