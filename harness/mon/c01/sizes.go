// Monitor C01, additions of the second blind-spot review (1): the encoder's own length fields. The generated Go
// values have slices of 1..5 elements and root names "rootNN", so on the ENCODE side no 4-byte count ever had a
// non-zero byte above the lowest one and no root name a length above 6 (the decode side has both, through the
// reference writer). Here every typed-array kind, lists, list-tagged arrays and fixed-size arrays (by value and by
// pointer: the copying and the in-place paths) are encoded with 255..70000 elements, and documents are encoded and
// decoded under root names of 0..32767 bytes; the emitted bytes are read by the independent reader.
package main

import (
	"bytes"
	"fmt"
	"reflect"
	"strconv"
	"strings"

	"github.com/Tnze/go-mc/nbt"

	"verif/gen/gotypes"
	"verif/ref/refnbt"
	"verif/vm"
)

// encodeAndCompare encodes v (by value or through a pointer) and compares the independent reader's tree with the
// tree the mapping oracle assigns. desc stands for the value in witnesses (the values are too large to print).
func encodeAndCompare(c *vm.Ctx, sub string, v reflect.Value, name string, network, byPtr bool, desc string) bool {
	want, unsup := gotypes.Expect(v)
	if unsup != "" {
		panic("monitor bug: " + sub + " built a value outside the mapping: " + unsup)
	}
	wit := func() any {
		return map[string]any{"go_type": short(v.Type().String()), "go_value": desc, "network": network, "by_pointer": byPtr, "root_name_len": len(name), "root_name_head_hex": vm.Hex([]byte(name[:min(len(name), 24)]))}
	}
	var buf bytes.Buffer
	var err error
	if c.Guard(sub, wit, func() {
		enc := nbt.NewEncoder(&buf)
		enc.NetworkFormat(network)
		if byPtr {
			err = enc.Encode(v.Addr().Interface(), name)
		} else {
			err = enc.Encode(v.Interface(), name)
		}
	}) {
		return false
	}
	c.Eval(vm.HashStr(sub, v.Type().String(), desc, fmt.Sprint(network, byPtr, len(name))), true)
	if err != nil {
		c.Violation(sub+"/error/"+vm.NormErr(err.Error()), fmt.Sprintf("Encode returned an error for a value of the documented universe: %v", err), wit())
		return false
	}
	tree, gotName, n, perr := refnbt.Parse(buf.Bytes(), network)
	if perr != nil || n != buf.Len() {
		w := wit().(map[string]any)
		w["output_len"] = buf.Len()
		w["output_head_hex"] = vm.Hex(buf.Bytes()[:min(buf.Len(), 96)])
		c.Violation(sub+"/not-wellformed", fmt.Sprintf("encoder output is not one well-formed document: %v (reader used %d of %d bytes)", perr, n, buf.Len()), w)
		return false
	}
	if !network && gotName != name {
		c.Violation(sub+"/root-name", fmt.Sprintf("root name of %d bytes came out as a name of %d bytes (%q...)", len(name), len(gotName), gotName[:min(len(gotName), 24)]), wit())
		return false
	}
	if d := refnbt.Equal(tree, want, refnbt.Opts{EmptyListElemFree: true, FloatNaNAny: true}); d != "" {
		c.Violation(sub+"/tree-mismatch/"+firstFeature(d), "independent reader sees a different tree than the documented mapping assigns: "+short(d), wit())
		return false
	}
	return true
}

func short(s string) string {
	if len(s) > 600 {
		return s[:600] + "..."
	}
	return s
}

type sizedHolder struct {
	A  int32  `nbt:"a"`
	B  []byte `nbt:"b"`
	S  []int8 `nbt:"s"`
	NU []gotypes.NamedU8
	I  []int32  `nbt:"i"`
	UI []uint32 `nbt:"ui"`
	L  []int64  `nbt:"l"`
	UL []uint64 `nbt:"ul"`
	H  []int16  `nbt:"h"` // a list
	F  []float32
	IL []int32 `nbt:"il,list"` // forced to a list
	BL []byte  `nbt:"bl,list"`
	LL []int64 `nbt_type:"list"`
	Z  string  `nbt:"z"`
}

// checkEncodeSizes: counts on both sides of the second and third byte of the 4-byte count fields.
func checkEncodeSizes(c *vm.Ctx, r *vm.Rand) {
	sizes := []int{255, 256, 257, 65535, 65536, 65537}
	if c.Thorough() {
		sizes = append(sizes, 70000, 131072, 200000)
	}
	if c.Div > 1 { // slow builds (race detector, 386): one count on each side of the third byte
		sizes = []int{256, 65536}
	}
	for _, n := range sizes {
		h := sizedHolder{A: int32(r.Uint64()), Z: "after"}
		h.B = r.Bytes(n)
		h.S = make([]int8, n)
		h.NU = make([]gotypes.NamedU8, n)
		h.I, h.UI, h.IL = make([]int32, n), make([]uint32, n), make([]int32, n)
		h.L, h.UL, h.LL = make([]int64, n), make([]uint64, n), make([]int64, n)
		h.H, h.F, h.BL = make([]int16, n), make([]float32, n), r.Bytes(n)
		for i := 0; i < n; i++ {
			x := r.Uint64()
			h.S[i], h.NU[i], h.I[i], h.UI[i], h.IL[i] = int8(x), gotypes.NamedU8(x>>8), int32(x>>16), uint32(x>>24), int32(x>>3)
			h.L[i], h.UL[i], h.LL[i], h.H[i], h.F[i] = int64(x), x^0x8000000000000000, int64(x>>1), int16(x>>5), float32(int32(x>>7))
		}
		desc := fmt.Sprintf("a struct of 12 slices of %d elements each (stream 'enc-sizes')", n)
		ok := encodeAndCompare(c, "enc/sizes", addrOf(h), "", r.Bool(), r.Bool(), desc)
		lite := c.Div > 1 && n > 300 // slow builds: above the third byte only the holder and two arrays
		// every slice alone at the root as well
		hv := reflect.ValueOf(h)
		for i := 1; i < hv.NumField()-1; i++ {
			if lite {
				break
			}
			if i >= 10 {
				continue // the list option is a struct-tag matter
			}
			ok = encodeAndCompare(c, "enc/sizes", addrOf(hv.Field(i).Interface()), "", r.Bool(), r.Bool(), fmt.Sprintf("%s of %d elements at the root", hv.Field(i).Type(), n)) && ok
		}
		// fixed-size arrays: passed by value they are copied element by element, through a pointer they are not
		for _, et := range []reflect.Type{reflect.TypeOf(byte(0)), reflect.TypeOf(int8(0)), reflect.TypeOf(int32(0)), reflect.TypeOf(uint64(0)), reflect.TypeOf(int16(0))} {
			for _, byPtr := range []bool{false, true} {
				if lite && (et.Kind() != reflect.Int8 || byPtr) && (et.Kind() != reflect.Uint64 || !byPtr) {
					continue
				}
				av := reflect.New(reflect.ArrayOf(n, et)).Elem()
				for i := 0; i < n; i++ {
					x := r.Uint64()
					if et.Kind() == reflect.Uint8 || et.Kind() == reflect.Uint64 {
						av.Index(i).SetUint(x >> (64 - uint(et.Bits())))
					} else {
						av.Index(i).SetInt(int64(x) >> (64 - uint(et.Bits())))
					}
				}
				ok = encodeAndCompare(c, "enc/sizes", av, "", r.Bool(), byPtr, fmt.Sprintf("[%d]%s at the root", n, et)) && ok
				// and as a struct member between two others
				st := reflect.StructOf([]reflect.StructField{{Name: "A", Type: reflect.TypeOf(int8(0)), Tag: `nbt:"a"`}, {Name: "Arr", Type: av.Type(), Tag: `nbt:"arr"`}, {Name: "Z", Type: reflect.TypeOf(""), Tag: `nbt:"z"`}})
				sv := reflect.New(st).Elem()
				sv.Field(0).SetInt(7)
				sv.Field(1).Set(av)
				sv.Field(2).SetString("after")
				ok = encodeAndCompare(c, "enc/sizes", sv, "", r.Bool(), byPtr, fmt.Sprintf("struct{a int8; arr [%d]%s; z string}", n, et)) && ok
			}
		}
		// a list of n strings / n compounds / n lists; a map with n members has no count but many name fields
		strs := make([]string, n)
		maps := make([]map[string]int8, min(n, 4097))
		for i := range strs {
			strs[i] = fmt.Sprint(i)
		}
		for i := range maps {
			maps[i] = map[string]int8{"k": int8(i)}
		}
		if !lite {
			// lists whose elements are structs, pointers to structs and lists: every element is its own
			type el struct {
				A int32  `nbt:"a"`
				S string `nbt:"s,omitempty"`
			}
			m := min(n, 4097)
			els, pels, lls := make([]el, m), make([]*el, m), make([][]int16, m)
			for i := range els {
				els[i] = el{int32(r.Uint64()), []string{"", "x", fmt.Sprint(i)}[i%3]}
				pels[i] = &el{int32(r.Uint64()), []string{"y", "", fmt.Sprint(i)}[i%3]}
				lls[i] = []int16{int16(i), int16(r.Uint64())}[:1+i%2]
			}
			ok = encodeAndCompare(c, "enc/sizes", addrOf(els), "", r.Bool(), r.Bool(), fmt.Sprintf("[]struct{a int32; s string,omitempty} of %d elements", m)) && ok
			ok = encodeAndCompare(c, "enc/sizes", addrOf(pels), "", r.Bool(), r.Bool(), fmt.Sprintf("[]*struct{a int32; s string,omitempty} of %d elements", m)) && ok
			ok = encodeAndCompare(c, "enc/sizes", addrOf(lls), "", r.Bool(), r.Bool(), fmt.Sprintf("[][]int16 of %d elements", m)) && ok
			ok = encodeAndCompare(c, "enc/sizes", addrOf(strs), "", r.Bool(), r.Bool(), fmt.Sprintf("[]string of %d elements", n)) && ok
			ok = encodeAndCompare(c, "enc/sizes", addrOf(maps), "", r.Bool(), r.Bool(), fmt.Sprintf("[]map[string]int8 of %d elements", len(maps))) && ok
		}
		if ok {
			c.Cover(fmt.Sprintf("enc.sizes.%d", min(n, 70000)))
		}
	}
}

func addrOf(x any) reflect.Value {
	v := reflect.New(reflect.TypeOf(x)).Elem()
	v.Set(reflect.ValueOf(x))
	return v
}

// checkRootNames: the root name is a length-prefixed field of its own. Both directions, names on both sides of the
// high byte of the prefix, arbitrary bytes, and a name that looks like a document.
func checkRootNames(c *vm.Ctx, r *vm.Rand) {
	names := []string{"", "a", strings.Repeat("n", 127), strings.Repeat("n", 128), strings.Repeat("k", 255), strings.Repeat("k", 256), strings.Repeat("k", 257),
		strings.Repeat("q", 300), strings.Repeat("w", 4096), strings.Repeat("m", 32767), string(r.Bytes(r.Range(1, 40))), "h\xc3\xa9llo \xe6\x97\xa5", "\x00", "\x0a\x00\x00\x00", string(r.Bytes(256)), string(r.Bytes(r.Range(258, 2000)))}
	type small struct {
		A int32  `nbt:"a"`
		S string `nbt:"s"`
	}
	for _, name := range names {
		vals := []reflect.Value{addrOf(small{int32(r.Uint64()), "x"}), addrOf(int16(r.Uint64())), addrOf([]int64{int64(r.Uint64())}), addrOf("str"), addrOf(map[string]any{"k": int8(1)})}
		ok := true
		for _, v := range vals {
			ok = encodeAndCompare(c, "enc/root-name", v, name, false, r.Bool(), fmt.Sprintf("%+v", v.Interface())) && ok
		}
		// the other direction: a reference-written document under that name, into any and into a struct
		tree := comp(ent("a", refnbt.In(int32(r.Uint64()))), ent("s", refnbt.St("x")))
		d := &decodeCase{tree: tree, name: name, trailer: []byte{0x0a, 0, 1, 'x'}}
		d.doc = refnbt.Encode(tree, name, false)
		for _, t := range []reflect.Type{reflect.TypeOf((*any)(nil)).Elem(), reflect.TypeOf(small{}), reflect.TypeOf(map[string]any(nil))} {
			c.Eval(vm.Hash64(d.doc, []byte(t.String())), true)
			rv, good := decodeOne(c, d, t, r.Bool(), "dec/root-name")
			if !good {
				ok = false
				continue
			}
			if diff := gotypes.MatchGoFresh(rv, tree, "$"); diff != "" {
				c.Violation("dec/root-name/value-mismatch", "value under a root name of "+fmt.Sprint(len(name))+" bytes differs from the document: "+diff, d.witness(t.String(), "-"))
				ok = false
			}
		}
		if ok {
			switch {
			case len(name) >= 32767:
				c.Cover("root-name.32767-bytes")
			case len(name) >= 256:
				c.Cover("root-name.256-bytes-or-more")
			case len(name) >= 128:
				c.Cover("root-name.128-to-255-bytes")
			default:
				c.Cover("root-name.short")
			}
		}
	}
}

// checkBigSkipped: big arrays and lists in positions where the decoder only has to step over them (a member the
// receiver does not know, at the top and inside the elements of a list), and captured by a RawMessage member. The
// big arrays of checkBigArrays reach a skipping receiver only when the receiver generator happens to leave the
// member out, and the counts that matter to a skipper (2^15, 2^16) were not among the sizes.
func checkBigSkipped(c *vm.Ctx, r *vm.Rand) {
	type skipper struct {
		A int32  `nbt:"a"`
		Z string `nbt:"z"`
	}
	type inList struct {
		L []skipper `nbt:"l"`
		Z string    `nbt:"z"`
	}
	type captured struct {
		A   int32          `nbt:"a"`
		Big nbt.RawMessage `nbt:"big"`
		Z   string         `nbt:"z"`
	}
	sizes := []int{32767, 32768, 65535, 65536, 70000}
	if c.Div > 1 {
		sizes = []int{32768, 65536}
	}
	for _, tag := range []byte{refnbt.ByteArray, refnbt.IntArray, refnbt.LongArray, refnbt.List} {
		for _, n := range sizes {
			v := &refnbt.Value{Tag: tag}
			switch tag {
			case refnbt.ByteArray:
				v.Bytes = r.Bytes(n)
			case refnbt.IntArray:
				v.Ints = make([]int32, n)
				for i := range v.Ints {
					v.Ints[i] = int32(r.Uint64())
				}
			case refnbt.LongArray:
				v.Longs = make([]int64, n)
				for i := range v.Longs {
					v.Longs[i] = int64(r.Uint64())
				}
			default:
				v.Elem = refnbt.Byte
				for i := 0; i < n; i++ {
					v.List = append(v.List, refnbt.B(int8(i)))
				}
			}
			a := int32(r.Uint64())
			top := comp(ent("a", refnbt.In(a)), ent("big", v), ent("z", refnbt.St("after")))
			nested := comp(ent("l", &refnbt.Value{Tag: refnbt.List, Elem: refnbt.Compound, List: []*refnbt.Value{comp(ent("big", v), ent("a", refnbt.In(a)), ent("z", refnbt.St("e0"))), comp(ent("a", refnbt.In(a+1)), ent("z", refnbt.St("e1")))}}), ent("z", refnbt.St("after")))
			ok := true
			for _, cs := range []struct {
				tree *refnbt.Value
				t    reflect.Type
				want any
			}{
				{top, reflect.TypeOf(skipper{}), skipper{a, "after"}},
				{nested, reflect.TypeOf(inList{}), inList{[]skipper{{a, "e0"}, {a + 1, "e1"}}, "after"}},
				{top, reflect.TypeOf(captured{}), captured{a, nbt.RawMessage{Type: tag, Data: refnbt.EncodePayload(v)}, "after"}},
			} {
				for _, plain := range []bool{false, true} {
					d := &decodeCase{tree: cs.tree, network: r.Bool(), trailer: []byte{9, 8, 7}}
					if !d.network {
						d.name = "r"
					}
					d.doc = refnbt.Encode(cs.tree, d.name, d.network)
					c.Eval(vm.HashStr("big-skipped", refnbt.TagName(tag), fmt.Sprint(n, plain), cs.t.String()), true)
					w := func() any {
						return map[string]any{"document": fmt.Sprintf("%s of %d elements as member 'big' (%s); stream 'big-skipped'", refnbt.TagName(tag), n, cs.t), "doc_len": len(d.doc), "network": d.network, "plain_reader": plain}
					}
					rv, name, consumed, err, pan := decodeInto(c, d, cs.t, plain, "dec/big-skipped")
					if pan {
						ok = false
						continue
					}
					if err != nil || consumed != len(d.doc) || name != d.name {
						c.Violation("dec/big-skipped/error-or-consumed/"+refnbt.TagName(tag), fmt.Sprintf("error %v; consumed %d bytes of a document of %d; root name %q", err, consumed, len(d.doc), name), w())
						ok = false
						continue
					}
					if !reflect.DeepEqual(rv.Interface(), cs.want) {
						got := fmt.Sprintf("%+v", rv.Interface())
						c.Violation("dec/big-skipped/value-mismatch/"+refnbt.TagName(tag), "members around a big value that is stepped over (or captured) differ from the document: got "+short(got), w())
						ok = false
					}
				}
			}
			if ok {
				c.Cover("big-skipped." + refnbt.TagName(tag))
			}
		}
	}
}

// checkBigReceivers: arrays and lists beyond the decoder's growth steps into EVERY kind of receiver that can hold
// them (checkBigArrays leaves the receiver to the generator, which picks one per document): signed and unsigned,
// machine-sized, named, fixed-size, and `any`. Half of the values are negative, so that a sign mishandled in one
// element loop shows.
func checkBigReceivers(c *vm.Ctx, r *vm.Rand) {
	sizes := map[byte][]int{refnbt.ByteArray: {65537, 140000}, refnbt.IntArray: {4097, 9000}, refnbt.LongArray: {4097, 9000}, refnbt.List: {1025, 5000}}
	int64bit := strconv.IntSize == 64
	for _, tag := range []byte{refnbt.ByteArray, refnbt.IntArray, refnbt.LongArray, refnbt.List} {
		if c.Div > 1 {
			sizes[tag] = sizes[tag][:1] // slow builds: one size
		}
		for _, n := range sizes[tag] {
			v := &refnbt.Value{Tag: tag}
			var ets []reflect.Type
			switch tag {
			case refnbt.ByteArray:
				v.Bytes = r.Bytes(n)
				ets = typesOfC01(byte(0), int8(0), false, gotypes.NamedU8(0))
			case refnbt.IntArray:
				v.Ints = make([]int32, n)
				for i := range v.Ints {
					v.Ints[i] = int32(r.Uint64())
				}
				ets = typesOfC01(int32(0), uint32(0), int(0), gotypes.NamedU32(0))
			case refnbt.LongArray:
				v.Longs = make([]int64, n)
				for i := range v.Longs {
					v.Longs[i] = int64(r.Uint64())
				}
				ets = typesOfC01(int64(0), uint64(0), gotypes.NamedI64(0))
				if int64bit {
					ets = append(ets, reflect.TypeOf(int(0)), reflect.TypeOf(uint(0)))
				}
			default:
				v.Elem = refnbt.Short
				for i := 0; i < n; i++ {
					v.List = append(v.List, refnbt.Sh(int16(r.Uint64())))
				}
				ets = typesOfC01(int16(0), uint16(0), int32(0), int64(0), int(0), gotypes.NamedI16(0))
			}
			var types []reflect.Type
			for _, et := range ets {
				types = append(types, reflect.SliceOf(et), reflect.ArrayOf(n, et))
			}
			switch tag {
			case refnbt.ByteArray:
				types = append(types, reflect.TypeOf(gotypes.NamedBytes(nil)), reflect.TypeOf(gotypes.NamedInt8s(nil)))
			case refnbt.IntArray:
				types = append(types, reflect.TypeOf(gotypes.NamedInts(nil)))
			case refnbt.LongArray:
				types = append(types, reflect.TypeOf(gotypes.NamedLongs(nil)))
			default:
				types = append(types, reflect.TypeOf(gotypes.NamedShorts(nil)), reflect.ArrayOf(n+3, ets[0]), reflect.TypeOf([]any(nil)))
			}
			types = append(types, reflect.TypeOf((*any)(nil)).Elem())
			ok := true
			for _, t := range types {
				for _, member := range []bool{false, true} {
					tree, rt := v, t
					if member {
						tree = comp(ent("a", refnbt.In(1)), ent("big", v), ent("z", refnbt.St("after")))
						rt = reflect.StructOf([]reflect.StructField{{Name: "A", Type: reflect.TypeOf(int32(0)), Tag: `nbt:"a"`}, {Name: "Big", Type: t, Tag: `nbt:"big"`}, {Name: "Z", Type: reflect.TypeOf(""), Tag: `nbt:"z"`}})
					}
					d := &decodeCase{tree: tree, network: r.Bool(), trailer: []byte{1, 2, 3}}
					if !d.network {
						d.name = "r"
					}
					d.doc = refnbt.Encode(tree, d.name, d.network)
					c.Eval(vm.HashStr("big-receivers", refnbt.TagName(tag), fmt.Sprint(n, member), t.String()), true)
					rv, good := decodeOne(c, d, rt, r.Bool(), "dec/big-receivers")
					if !good {
						ok = false
						continue
					}
					if diff := gotypes.MatchGoFresh(rv, tree, "$"); diff != "" {
						c.Violation("dec/big-receivers/value-mismatch/"+firstFeature(diff), fmt.Sprintf("%s of %d elements decoded into %s differs from the document: %s", refnbt.TagName(tag), n, short(rt.String()), diff),
							map[string]any{"document": fmt.Sprintf("%s of %d random elements (stream 'big-receivers'), member=%v", refnbt.TagName(tag), n, member), "receiver": short(rt.String()), "network": d.network})
						ok = false
					}
				}
			}
			if ok {
				c.Cover("big-receivers." + refnbt.TagName(tag))
			}
		}
	}
}

func typesOfC01(vs ...any) []reflect.Type {
	out := make([]reflect.Type, len(vs))
	for i, v := range vs {
		out[i] = reflect.TypeOf(v)
	}
	return out
}

// checkHighestCountByte: one byte array of 2^24+3 bytes, so that the highest byte of a 4-byte count is not zero for
// once (both directions, the plain receivers, a skipping receiver and a capturing one). Compared as bytes with the
// reference writer's document; not in the slow builds.
func checkHighestCountByte(c *vm.Ctx, r *vm.Rand) {
	if c.Div > 1 {
		return
	}
	const n = 1<<24 + 3
	payload := make([]byte, n)
	for i := 0; i < n; i += 8 {
		x := r.Uint64()
		for k := 0; k < 8 && i+k < n; k++ {
			payload[i+k] = byte(x >> (8 * uint(k)))
		}
	}
	v := &refnbt.Value{Tag: refnbt.ByteArray, Bytes: payload}
	root := refnbt.Encode(v, "big", false)
	member := refnbt.Encode(comp(ent("a", refnbt.In(5)), ent("big", v), ent("z", refnbt.St("after"))), "", true)
	wit := func(what string) func() any {
		return func() any {
			return map[string]any{"case": what, "document": "a byte array of 2^24+3 bytes (stream 'highest-count-byte')"}
		}
	}
	ok := true
	fail := func(sig, what, msg string) {
		c.Violation("highest-count-byte/"+sig, what+": "+msg, wit(what)())
		ok = false
	}
	// decode
	type holder struct {
		A   int32  `nbt:"a"`
		Big []byte `nbt:"big"`
		Z   string `nbt:"z"`
	}
	type skipper struct {
		A int32  `nbt:"a"`
		Z string `nbt:"z"`
	}
	type captured struct {
		A   int32          `nbt:"a"`
		Big nbt.RawMessage `nbt:"big"`
		Z   string         `nbt:"z"`
	}
	var av any
	var bs []byte
	var s8 []int8
	var h holder
	var sk skipper
	var cp captured
	for _, cs := range []struct {
		what    string
		doc     []byte
		network bool
		target  any
		check   func() string
	}{
		{"root into any", root, false, &av, func() string {
			if b, isB := av.([]byte); !isB || !bytes.Equal(b, payload) {
				return fmt.Sprintf("got %T", av)
			}
			return ""
		}},
		{"root into []byte", root, false, &bs, func() string {
			if !bytes.Equal(bs, payload) {
				return fmt.Sprintf("%d bytes, equal: false", len(bs))
			}
			return ""
		}},
		{"root into []int8", root, false, &s8, func() string {
			if len(s8) != n {
				return fmt.Sprintf("%d elements", len(s8))
			}
			for i := range s8 {
				if byte(s8[i]) != payload[i] {
					return fmt.Sprintf("element %d", i)
				}
			}
			return ""
		}},
		{"member into a struct field", member, true, &h, func() string {
			if h.A != 5 || h.Z != "after" || !bytes.Equal(h.Big, payload) {
				return fmt.Sprintf("a=%d z=%q, %d bytes", h.A, h.Z, len(h.Big))
			}
			return ""
		}},
		{"member stepped over", member, true, &sk, func() string {
			if sk.A != 5 || sk.Z != "after" {
				return fmt.Sprintf("a=%d z=%q", sk.A, sk.Z)
			}
			return ""
		}},
		{"member captured by a RawMessage", member, true, &cp, func() string {
			if cp.A != 5 || cp.Z != "after" || cp.Big.Type != refnbt.ByteArray || len(cp.Big.Data) != 4+n || !bytes.Equal(cp.Big.Data[4:], payload) || !bytes.Equal(cp.Big.Data[:4], []byte{1, 0, 0, 3}) {
				return fmt.Sprintf("a=%d z=%q type %d, %d bytes of data", cp.A, cp.Z, cp.Big.Type, len(cp.Big.Data))
			}
			return ""
		}},
	} {
		in := append(append([]byte{}, cs.doc...), 7, 7)
		br := bytes.NewReader(in)
		var err error
		if c.Guard("highest-count-byte/decode", wit(cs.what), func() {
			d := nbt.NewDecoder(br)
			d.NetworkFormat(cs.network)
			_, err = d.Decode(cs.target)
		}) {
			ok = false
			continue
		}
		c.Eval(vm.HashStr("highest-count-byte", cs.what), true)
		if err != nil || br.Len() != 2 {
			fail("decode-error-or-consumed", cs.what, fmt.Sprintf("error %v, %d bytes left of 2", err, br.Len()))
			continue
		}
		if msg := cs.check(); msg != "" {
			fail("decode-value", cs.what, msg)
		}
	}
	// encode
	i8 := make([]int8, n)
	for i := range i8 {
		i8[i] = int8(payload[i])
	}
	for _, cs := range []struct {
		what    string
		v       any
		name    string
		network bool
		want    []byte
	}{{"[]byte at the root", payload, "big", false, root}, {"[]int8 at the root", i8, "big", false, root}, {"struct with a []byte member", holder{5, payload, "after"}, "", true, member}} {
		var buf bytes.Buffer
		var err error
		if c.Guard("highest-count-byte/encode", wit(cs.what), func() {
			e := nbt.NewEncoder(&buf)
			e.NetworkFormat(cs.network)
			err = e.Encode(cs.v, cs.name)
		}) {
			ok = false
			continue
		}
		c.Eval(vm.HashStr("highest-count-byte", cs.what), true)
		if err != nil || !bytes.Equal(buf.Bytes(), cs.want) {
			fail("encode", cs.what, fmt.Sprintf("error %v; %d bytes written, the reference writer's document has %d; head %s vs %s", err, buf.Len(), len(cs.want), vm.Hex(buf.Bytes()[:min(buf.Len(), 16)]), vm.Hex(cs.want[:16])))
		}
	}
	if ok {
		c.Cover("count.highest-byte-not-zero")
	}
}
