// Monitor C01, additions of the second blind-spot review (3): `any` receivers that are not empty. The decoder
// (like encoding/json) looks into a non-nil interface: a pointer held there is decoded THROUGH, a typed value held
// there says which type to decode into and is replaced by the result (decode.go, indirect: "Load value from
// interface"). The generated workload only ever handed over nil interfaces or interfaces still holding what an
// earlier Decode had produced, so that branch and its deferred assignment never ran. The statement does not say
// whether the template's type must be kept; it does say that a well-formed document is decoded, that exactly its
// bytes are consumed and that what the receiver holds afterwards are the document's values - in the template's type
// if it was kept, in the decoder's own types if it was not.
package main

import (
	"bytes"
	"fmt"
	"io"
	"reflect"

	"github.com/Tnze/go-mc/nbt"

	"verif/gen/gotypes"
	"verif/inject"
	"verif/ref/refnbt"
	"verif/vm"
)

type templHolder struct {
	A int8   `nbt:"a"`
	V any    `nbt:"v"`
	Z string `nbt:"z"`
}

func checkTemplates(c *vm.Ctx, r *vm.Rand, d *decodeCase) {
	t := gotypes.TargetFor(r, d.tree, 0, map[string]bool{})
	if t.Kind() == reflect.Interface {
		return
	}
	mode := []string{"pointer-in-any", "value-in-any", "pointer-to-pointer-in-any", "pointer-in-any-field", "value-in-any-field", "pointer-in-map-value", "nil-pointer-variable", "allocated-pointer-variable"}[r.Intn(8)]
	if mode == "nil-pointer-variable" || mode == "allocated-pointer-variable" {
		checkPointerVariable(c, r, d, t, mode)
		return
	}
	template := func() any {
		switch mode {
		case "pointer-in-any", "pointer-in-any-field", "pointer-in-map-value":
			return reflect.New(t).Interface()
		case "pointer-to-pointer-in-any":
			return reflect.New(reflect.PointerTo(t)).Interface()
		}
		return reflect.Zero(t).Interface()
	}()
	tree, doc := d.tree, d.doc
	var recv any  // what Decode gets
	var held *any // the interface that held the template
	switch mode {
	case "pointer-in-any-field", "value-in-any-field":
		tree = comp(ent("a", refnbt.B(int8(r.Uint64()))), ent("v", d.tree), ent("z", refnbt.St("after")))
		doc = refnbt.Encode(tree, d.name, d.network)
		h := &templHolder{V: template}
		recv, held = h, &h.V
	case "pointer-in-map-value":
		// decoding merges into a map that is not nil; what the entry held is not looked at by the library (a map
		// value cannot be addressed), so this mode only demands the document's values in the decoder's own types
		tree = comp(ent("v", d.tree))
		doc = refnbt.Encode(tree, d.name, d.network)
		m := map[string]any{"v": template}
		recv = &m
	default:
		v := template
		recv, held = &v, &v
	}
	in := append(append([]byte{}, doc...), d.trailer...)
	plain := r.Bool()
	var rd io.Reader
	br := bytes.NewReader(in)
	pr := &inject.PlainReader{R: bytes.NewReader(in)}
	rd = br
	if plain {
		rd = pr
	}
	wit := func() any {
		return map[string]any{"doc_hex": vm.Hex(doc), "network": d.network, "root_name": d.name, "trailer_len": len(d.trailer), "receiver": mode, "template_type": fmt.Sprintf("%T", template), "plain_reader": plain, "tree": refnbt.Describe(tree)}
	}
	var err error
	var name string
	sub := "dec/template"
	if c.Guard(sub, wit, func() {
		dec := nbt.NewDecoder(rd)
		dec.NetworkFormat(d.network)
		name, err = dec.Decode(recv)
	}) {
		return
	}
	c.Eval(vm.Hash64(doc, []byte(mode), []byte(t.String())), true)
	if err != nil {
		c.Violation(sub+"/error-on-wellformed/"+mode, fmt.Sprintf("a well-formed document is rejected when the any receiver holds a %T: %v", template, err), wit())
		return
	}
	consumed := len(in) - br.Len()
	if plain {
		consumed = int(pr.N)
	}
	if consumed != len(doc) || name != d.name {
		c.Violation(sub+"/consumed-or-name/"+mode, fmt.Sprintf("decoder consumed %d bytes (document: %d), root name %q (want %q)", consumed, len(doc), name, d.name), wit())
		return
	}
	if held == nil {
		if diff := gotypes.MatchGo(reflect.ValueOf(recv).Elem(), tree, "$"); diff != "" {
			c.Violation(sub+"/value-mismatch/"+mode, "the map differs from the document: "+diff, wit())
			return
		}
		c.Cover("decode.template." + mode)
		return
	}
	kept := *held != nil && reflect.TypeOf(*held) == reflect.TypeOf(template)
	if kept {
		if diff := gotypes.MatchGoFresh(reflect.ValueOf(*held), d.tree, "$"); diff != "" {
			c.Violation(sub+"/value-mismatch/"+mode, fmt.Sprintf("the %T held by the any receiver differs from the document: %s", *held, diff), wit())
			return
		}
		switch mode {
		case "pointer-in-any", "pointer-in-any-field", "pointer-to-pointer-in-any":
			// decoded THROUGH the pointer: it is still the caller's pointer
			if reflect.ValueOf(*held).Pointer() != reflect.ValueOf(template).Pointer() {
				c.Cover("decode.template.pointer-replaced")
			}
		}
		c.Cover("decode.template.type-kept")
	} else {
		if diff := gotypes.MatchGo(reflect.ValueOf(held).Elem(), d.tree, "$"); diff != "" {
			c.Violation(sub+"/value-mismatch/"+mode, fmt.Sprintf("the any receiver (it held a %T, now a %T) differs from the document: %s", template, *held, diff), wit())
			return
		}
		c.Cover("decode.template.type-replaced")
	}
	if h, ok := recv.(*templHolder); ok {
		if diff := gotypes.MatchGo(reflect.ValueOf(h).Elem().Field(0), tree.Get("a"), "$.a"); diff != "" || h.Z != "after" {
			c.Violation(sub+"/neighbours/"+mode, fmt.Sprintf("members next to the any field: a=%d z=%q %s", h.A, h.Z, diff), wit())
			return
		}
	}
	c.Cover("decode.template." + mode)
}

// checkPointerVariable: `var p *T; Decode(&p)` (the decoder allocates) and `p := new(T); Decode(&p)` (it decodes
// into what p points to); two levels of pointers now and then.
func checkPointerVariable(c *vm.Ctx, r *vm.Rand, d *decodeCase, t reflect.Type, mode string) {
	levels := 1 + r.Intn(2)
	pt := t
	for i := 0; i < levels; i++ {
		pt = reflect.PointerTo(pt)
	}
	recv := reflect.New(pt) // *(*T) or *(**T), pointing at a nil pointer
	var callers uintptr
	if mode == "allocated-pointer-variable" {
		x := reflect.New(t)
		callers = x.Pointer()
		for i := 1; i < levels; i++ {
			y := reflect.New(x.Type())
			y.Elem().Set(x)
			x = y
		}
		recv.Elem().Set(x)
	}
	in := append(append([]byte{}, d.doc...), d.trailer...)
	br := bytes.NewReader(in)
	wit := func() any {
		m := d.witness(recv.Type().String(), "bytes.Reader")
		m["receiver"] = mode
		return m
	}
	var err error
	var name string
	sub := "dec/pointer-variable"
	if c.Guard(sub, wit, func() {
		dec := nbt.NewDecoder(br)
		dec.NetworkFormat(d.network)
		name, err = dec.Decode(recv.Interface())
	}) {
		return
	}
	c.Eval(vm.Hash64(d.doc, []byte(mode), []byte(pt.String())), true)
	if err != nil {
		c.Violation(sub+"/error-on-wellformed/"+mode, fmt.Sprintf("a well-formed document is rejected when the receiver is the address of a %s: %v", pt, err), wit())
		return
	}
	if got := len(in) - br.Len(); got != len(d.doc) || name != d.name {
		c.Violation(sub+"/consumed-or-name/"+mode, fmt.Sprintf("decoder consumed %d bytes (document: %d), root name %q (want %q)", got, len(d.doc), name, d.name), wit())
		return
	}
	if diff := gotypes.MatchGoFresh(recv.Elem(), d.tree, "$"); diff != "" {
		c.Violation(sub+"/value-mismatch/"+mode, "what the pointer variable points to differs from the document: "+diff, wit())
		return
	}
	if callers != 0 {
		p := recv.Elem()
		for p.Kind() == reflect.Pointer && p.Elem().Kind() == reflect.Pointer {
			p = p.Elem()
		}
		if p.Pointer() == callers {
			c.Cover("decode.template.allocated-pointer-kept")
		}
	}
	c.Cover("decode.template." + mode)
}
