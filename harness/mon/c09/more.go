// C09, second table of operations: wire fields that read a single byte or up to the end of the stream, the optional and
// counted combinators, NBT values that marshal themselves (the encoder's Marshaler branch), the RCON client/server calls
// above ReadPacket/WritePacket, frames through a Conn with a cipher installed and into a receiver that was used before.
package main

import (
	"bytes"
	"crypto/aes"
	"encoding/binary"
	"fmt"
	"io"
	"strings"

	"github.com/Tnze/go-mc/chat"
	"github.com/Tnze/go-mc/nbt"
	"github.com/Tnze/go-mc/nbt/dynbt"
	mcnet "github.com/Tnze/go-mc/net"
	"github.com/Tnze/go-mc/net/CFB8"
	pk "github.com/Tnze/go-mc/net/packet"

	"verif/gen/nbtgen"
	"verif/ref/refnbt"
	"verif/vm"
)

func aryCase[L pk.VarInt | pk.VarLong | pk.Byte | pk.UnsignedByte | pk.Short | pk.UnsignedShort | pk.Int | pk.Long](prefix string, elems []pk.Short) *rcase {
	return &rcase{op: rop{name: "Ary[" + prefix + "]ofShort", run: func(rd io.Reader) (string, int64, error) {
		var v []pk.Short
		n, err := pk.Ary[L]{Ary: &v}.ReadFrom(rd)
		return fmt.Sprint(v), n, err
	}}, input: enc(pk.Ary[L]{Ary: elems})}
}

func rconFrame(id, ty int32, payload []byte) []byte {
	frame := binary.LittleEndian.AppendUint32(nil, uint32(10+len(payload)))
	frame = binary.LittleEndian.AppendUint32(frame, uint32(id))
	frame = binary.LittleEndian.AppendUint32(frame, uint32(ty))
	return append(append(frame, payload...), 0, 0)
}

func moreCases(c *vm.Ctx, r *vm.Rand, g *nbtgen.G, round int) ([]*rcase, []*wcase) {
	var rcs []*rcase
	var wcs []*wcase

	// ---- wire fields of one byte, the field that takes the rest of the stream, optional and counted combinators
	pmd := fieldOp[pk.PluginMessageData]("PluginMessageData")
	pmd.toEOF = true
	rcs = append(rcs,
		&rcase{op: fieldOp[pk.Byte]("Byte"), input: enc(pk.Byte(r.Intn(256)))},
		&rcase{op: fieldOp[pk.UnsignedByte]("UnsignedByte"), input: enc(pk.UnsignedByte(r.Intn(256)))},
		&rcase{op: fieldOp[pk.Angle]("Angle"), input: enc(pk.Angle(r.Intn(256)))},
		&rcase{op: fieldOp[pk.Boolean]("Boolean"), input: enc(pk.Boolean(r.Bool()))},
		&rcase{op: pmd, input: r.Bytes(r.Intn(40))},
	)
	optStr := pk.String(strings.Repeat("o", r.Intn(20)))
	optIn := enc(pk.Tuple{pk.Boolean(true), optStr})
	optName := "OptionDecoder(present)"
	if r.Intn(4) == 0 {
		optIn, optName = enc(pk.Boolean(false)), "OptionDecoder(absent)"
	}
	rcs = append(rcs, &rcase{op: rop{name: optName, run: func(rd io.Reader) (string, int64, error) {
		var o pk.OptionDecoder[pk.String, *pk.String]
		n, err := o.ReadFrom(rd)
		return fmt.Sprint(o.Has, o.Val), n, err
	}}, input: optIn})
	optShape := r.Intn(3)
	rcs = append(rcs, &rcase{op: rop{name: "Opt(ByteArray)", run: func(rd io.Reader) (string, int64, error) {
		has := true
		var v pk.ByteArray
		var o pk.Opt
		switch optShape {
		case 0:
			o = pk.Opt{Has: &has, Field: &v}
		case 1:
			o = pk.Opt{Has: func() bool { return true }, Field: func() pk.FieldDecoder { return &v }}
		default:
			o = pk.Opt{Has: &has, Field: func() pk.Field { return &v }}
		}
		n, err := o.ReadFrom(rd)
		return fmt.Sprintf("%x", []byte(v)), n, err
	}}, input: enc(pk.ByteArray(r.Bytes(r.Intn(12))))})
	elems := make([]pk.Short, r.Intn(5))
	for i := range elems {
		elems[i] = pk.Short(r.Int64B())
	}
	switch r.Intn(7) {
	case 0:
		rcs = append(rcs, aryCase[pk.Byte]("Byte", elems))
	case 1:
		rcs = append(rcs, aryCase[pk.UnsignedByte]("UnsignedByte", elems))
	case 2:
		rcs = append(rcs, aryCase[pk.Short]("Short", elems))
	case 3:
		rcs = append(rcs, aryCase[pk.UnsignedShort]("UnsignedShort", elems))
	case 4:
		rcs = append(rcs, aryCase[pk.Int]("Int", elems))
	case 5:
		rcs = append(rcs, aryCase[pk.Long]("Long", elems))
	default:
		rcs = append(rcs, aryCase[pk.VarLong]("VarLong", elems))
	}

	// ---- NBT values that write themselves: RawMessage, dynbt.Value, StringifiedMessage (its own text-to-binary writer),
	// chat.Message; and the kinds of Go values the reflective writer treats apart
	network := r.Bool()
	tree := g.Doc(0)
	doc := refnbt.Encode(tree, "nm", network)
	decodeInto := func(v any) bool {
		d := nbt.NewDecoder(bytes.NewReader(doc))
		d.NetworkFormat(network)
		_, err := d.Decode(v)
		return err == nil
	}
	encodeCase := func(name string, lenient bool, v any) {
		wcs = append(wcs, &wcase{name: "nbt.Encoder.Encode(" + name + ")", lenient: lenient, run: func(w io.Writer) error {
			e := nbt.NewEncoder(w)
			e.NetworkFormat(network)
			return e.Encode(v, "nm")
		}})
	}
	var dv dynbt.Value
	var raw nbt.RawMessage
	var snbt nbt.StringifiedMessage
	okD, okR, okS := decodeInto(&dv), decodeInto(&raw), decodeInto(&snbt)
	if okD {
		encodeCase("dynbt.Value", false, &dv)
	}
	if okR {
		encodeCase("RawMessage", false, raw)
	}
	if okS {
		// what the text form of a generated document encodes back to is C04's business: a document whose text is refused
		// on a healthy writer is left out here
		encodeCase("StringifiedMessage", true, snbt)
	}
	if okD && okR && okS && tree.Tag == refnbt.Compound {
		type carriers struct {
			R nbt.RawMessage         `nbt:"r"`
			D *dynbt.Value           `nbt:"d"`
			S nbt.StringifiedMessage `nbt:"s"`
			L []nbt.RawMessage       `nbt:"l"`
		}
		encodeCase("struct of carriers", true, carriers{R: raw, D: &dv, S: snbt, L: []nbt.RawMessage{raw, raw}})
	}
	type elem struct {
		A int32  `nbt:"a"`
		B string `nbt:"b"`
	}
	list := make([]elem, r.Intn(4))
	for i := range list {
		list[i] = elem{A: int32(r.Int64B()), B: strings.Repeat("e", r.Intn(4))}
	}
	encodeCase("[]struct", false, list)
	type kinds struct {
		B  bool                        `nbt:"b"`
		U  uint8                       `nbt:"u"`
		I8 int8                        `nbt:"i8"`
		S  []int8                      `nbt:"s"`
		Bs []bool                      `nbt:"bs"`
		A  [3]byte                     `nbt:"a"`
		A8 [2]int8                     `nbt:"a8"`
		U4 []uint32                    `nbt:"u4"`
		U8 []uint64                    `nbt:"u8"`
		M  map[string]map[string]int32 `nbt:"m"`
		LL [][]int32                   `nbt:"ll"`
		LS []elem                      `nbt:"ls"`
		AL []int32                     `nbt:"al,list"`
	}
	kv := kinds{B: r.Bool(), U: uint8(r.Intn(256)), I8: int8(r.Intn(256)), S: make([]int8, r.Intn(4)), Bs: make([]bool, r.Intn(4)), A: [3]byte{1, 2, 3}, A8: [2]int8{-1, 1},
		U4: make([]uint32, r.Intn(3)), U8: make([]uint64, r.Intn(3)), M: map[string]map[string]int32{"outer": {"inner": int32(r.Int64B())}}, LL: [][]int32{{1}, {}, {2, 3}}[:r.Intn(4)], LS: list, AL: make([]int32, r.Intn(3))}
	encodeCase("struct{bool,uint8,[]int8,[]bool,[3]byte,nested map,list of lists,list of compounds}", false, kv)
	encodeCase("*struct (arrays addressable)", false, &kv)
	msg := chat.Message{Text: g.Key(), Bold: r.Bool(), Color: "red", Extra: []chat.Message{{Text: "x", Italic: true}}[:r.Intn(2)]}
	if r.Bool() {
		msg = chat.Message{Translate: "chat.type.text", With: chat.TranslateArgs{chat.Text("a"), "plain"}[:r.Range(1, 2)]}
	}
	encodeCase("chat.Message", false, msg)

	// ---- RCON: the calls a client and a server make, on the same kind of frame
	size := r.Intn(60)
	if round%8 == 3 {
		size = []int{4085, 4086}[r.Intn(2)] // the largest payloads ReadPacket accepts (length 4095, 4096)
	}
	payload := r.Bytes(size)
	for i := range payload { // a command or its output: text without NUL
		payload[i] = payload[i]%94 + 33
	}
	reqID := int32(r.Uint32() >> 1)
	if r.Intn(4) == 0 {
		reqID = 0 // what a failed ReadPacket leaves in its results: a caller that drops the error must not find a match there
	}
	rconOn := func(rd io.Reader, w io.Writer) *mcnet.RCONConn {
		return &mcnet.RCONConn{Conn: &rconConn{r: rd, w: w}, ReqID: reqID}
	}
	sum := func(s string) string {
		if len(s) > 100 {
			return fmt.Sprintf("%d bytes, fnv %016x", len(s), vm.HashStr(s))
		}
		return fmt.Sprintf("%q", s)
	}
	tag := ""
	if size > 4000 {
		tag = ", largest payload"
	}
	rcs = append(rcs,
		&rcase{op: rop{name: "RCONConn.Resp" + tag, run: func(rd io.Reader) (string, int64, error) {
			s, err := rconOn(rd, io.Discard).Resp()
			return sum(s), -1, err
		}}, input: rconFrame(reqID, 0, payload)},
		&rcase{op: rop{name: "RCONConn.AcceptCmd" + tag, run: func(rd io.Reader) (string, int64, error) {
			conn := rconOn(rd, io.Discard)
			conn.ReqID = -5
			s, err := conn.AcceptCmd()
			return fmt.Sprint(sum(s), conn.ReqID), -1, err
		}}, input: rconFrame(reqID, 2, payload)},
		&rcase{op: rop{name: "RCONConn.AcceptLogin" + tag, run: func(rd io.Reader) (string, int64, error) {
			conn := rconOn(rd, io.Discard)
			conn.ReqID = -5
			err := conn.AcceptLogin(string(payload))
			return fmt.Sprint(conn.ReqID), -1, err
		}}, input: rconFrame(reqID, 3, payload)},
	)
	if size > 4000 {
		rcs = append(rcs, &rcase{op: rop{name: "RCONConn.ReadPacket" + tag, run: func(rd io.Reader) (string, int64, error) {
			id, ty, p, err := rconOn(rd, io.Discard).ReadPacket()
			return fmt.Sprint(id, ty, sum(p)), -1, err
		}}, input: rconFrame(reqID, 2, payload)})
	}
	if size > 4000 {
		for _, rc := range rcs[len(rcs)-4:] {
			rc.light = true // 4100-byte frames one byte at a time at every offset: a sample of offsets and plans
		}
	}
	loginFrame := rconFrame(reqID, 3, []byte("pw"))
	wcs = append(wcs,
		&wcase{name: "RCONConn.Cmd" + tag, run: func(w io.Writer) error { return rconOn(bytes.NewReader(nil), w).Cmd(string(payload)) }},
		&wcase{name: "RCONConn.RespCmd" + tag, run: func(w io.Writer) error { return rconOn(bytes.NewReader(nil), w).RespCmd(string(payload)) }},
		// the server's answer to a login with the right password: the request is read from a healthy stream, the answer goes to the failing writer
		&wcase{name: "RCONConn.AcceptLogin(answer)", run: func(w io.Writer) error { return rconOn(bytes.NewReader(loginFrame), w).AcceptLogin("pw") }},
	)

	// ---- frames: through a Conn with a cipher installed (both directions), and into a Packet that was used before
	th := []int{-1, 0, 64}[r.Intn(3)]
	fsize := []int{0, 1, 5, 63, 64, 65, 300}[r.Intn(7)]
	p := pk.Packet{ID: int32(r.Intn(300)), Data: r.Bytes(fsize)}
	if r.Bool() {
		for i := range p.Data {
			p.Data[i] = byte(i % 3)
		}
	}
	var fb bytes.Buffer
	p.Pack(&fb, th)
	secret := r.Bytes(16)
	cipherConn := func(rd io.Reader, w io.Writer, cipherFirst bool) *mcnet.Conn {
		conn := mcnet.WrapConn(&rconConn{r: rd, w: w})
		b1, _ := aes.NewCipher(secret)
		b2, _ := aes.NewCipher(secret)
		if cipherFirst {
			conn.SetCipher(CFB8.NewCFB8Encrypt(b1, secret), CFB8.NewCFB8Decrypt(b2, secret))
			conn.SetThreshold(th)
		} else {
			conn.SetThreshold(th)
			conn.SetCipher(CFB8.NewCFB8Encrypt(b1, secret), CFB8.NewCFB8Decrypt(b2, secret))
		}
		return conn
	}
	cipherFirst := r.Bool()
	b0, _ := aes.NewCipher(secret)
	ct := make([]byte, fb.Len())
	CFB8.NewCFB8Encrypt(b0, secret).XORKeyStream(ct, fb.Bytes())
	rcs = append(rcs, &rcase{op: rop{name: fmt.Sprintf("Conn.ReadPacket(cipher, threshold=%d)", th), run: func(rd io.Reader) (string, int64, error) {
		var q pk.Packet
		err := cipherConn(rd, io.Discard, cipherFirst).ReadPacket(&q)
		if err != nil {
			return "", -1, err
		}
		return fmt.Sprintf("%d:%x", q.ID, q.Data), -1, nil
	}}, input: ct})
	pp := p
	wcs = append(wcs, &wcase{name: fmt.Sprintf("Conn.WritePacket(cipher, threshold=%d)", th), run: func(w io.Writer) error {
		return cipherConn(bytes.NewReader(nil), w, cipherFirst).WritePacket(pp)
	}})
	// a receiver that holds an older, different packet: with room for the new data (the buffer is reused) or without
	oldLen := []int{1, fsize / 2, fsize, fsize + 7, 2*fsize + 40}[r.Intn(5)]
	old := r.Bytes(max(1, oldLen))
	rcs = append(rcs, &rcase{op: rop{name: fmt.Sprintf("Packet.UnPack(used receiver, threshold=%d)", th), run: func(rd io.Reader) (string, int64, error) {
		q := pk.Packet{ID: 0x7fffffff, Data: append([]byte{}, old...)}
		err := q.UnPack(rd, th)
		if err != nil {
			return "", -1, err
		}
		return fmt.Sprintf("%d:%x", q.ID, q.Data), -1, nil
	}}, input: fb.Bytes()})
	return rcs, wcs
}

// bigCases2: more receivers for items larger than the steps in which the readers grow their buffers, and sizes past the
// third step. Counted arrays of Ints and Longs past the 4096 elements and a list past the 1024 elements the typed decoder
// allocates up front; byte arrays of 140001 and 262145 bytes (64 KiB, 64 KiB, then a full 128 KiB step) into the dynamic,
// raw and text receivers. Each is marked light (see rcase).
func bigCases2(r *vm.Rand) []*rcase {
	var rcs []*rcase
	sum := func(b []byte) string { return fmt.Sprintf("%d bytes, fnv %016x", len(b), vm.Hash64(b)) }
	viaEncoder := func(v any) string {
		var b bytes.Buffer
		if err := nbt.NewEncoder(&b).Encode(v, ""); err != nil {
			return "encode: " + err.Error()
		}
		return sum(b.Bytes())
	}
	dynOp := func(name string) rop {
		return nbtDecodeOp("nbt.Decode(dynbt.Value, "+name+")", true, func() any { return new(dynbt.Value) }, func(v any) string { return viaEncoder(v.(*dynbt.Value)) })
	}
	rawOp := func(name string) rop {
		return nbtDecodeOp("nbt.Decode(RawMessage, "+name+")", true, func() any { return new(nbt.RawMessage) }, func(v any) string { m := v.(*nbt.RawMessage); return fmt.Sprint(m.Type, sum(m.Data)) })
	}
	textOp := func(name string) rop {
		return nbtDecodeOp("nbt.Decode(StringifiedMessage, "+name+")", true, func() any { return new(nbt.StringifiedMessage) }, func(v any) string { return sum([]byte(*(v.(*nbt.StringifiedMessage)))) })
	}
	// byte arrays
	for _, n := range []int{140001, 262145} {
		payload := r.Bytes(n)
		type holder struct {
			A int32  `nbt:"a"`
			D []byte `nbt:"d"`
			Z string `nbt:"z"`
		}
		tree := &refnbt.Value{Tag: refnbt.Compound, Comp: []refnbt.Entry{{Name: "a", V: refnbt.In(7)}, {Name: "d", V: &refnbt.Value{Tag: refnbt.ByteArray, Bytes: payload}}, {Name: "z", V: refnbt.St("after")}}}
		doc := refnbt.Encode(tree, "", true)
		name := fmt.Sprintf("%d-byte array", n)
		rcs = append(rcs, &rcase{op: dynOp(name), input: doc, light: true}, &rcase{op: rawOp(name), input: doc, light: true})
		if n == 140001 {
			rcs = append(rcs, &rcase{op: textOp(name), input: doc, light: true})
		} else {
			rcs = append(rcs,
				&rcase{op: nbtDecodeOp("nbt.Decode(struct, "+name+")", true, func() any { return new(holder) }, func(v any) string { h := v.(*holder); return fmt.Sprint(h.A, sum(h.D), h.Z) }), input: doc, light: true},
				&rcase{op: nbtDecodeOp("nbt.Decode(any, "+name+")", true, func() any { return new(any) }, func(v any) string {
					m, _ := (*(v.(*any))).(map[string]any)
					d, _ := m["d"].([]byte)
					return fmt.Sprint(m["a"], sum(d), m["z"])
				}), input: doc, light: true},
				&rcase{op: rop{name: fmt.Sprintf("ByteArray(%d)", n), run: func(rd io.Reader) (string, int64, error) {
					var v pk.ByteArray
					k, err := v.ReadFrom(rd)
					return sum(v), k, err
				}}, input: enc(pk.ByteArray(payload)), light: true},
			)
		}
	}
	// counted arrays and a long list
	nInts, nLongs := 9000, 5000
	if r.Bool() {
		nInts, nLongs = 5000, 9000
	}
	ints := make([]int32, nInts)
	for i := range ints {
		ints[i] = int32(r.Uint32())
	}
	longs := make([]int64, nLongs)
	for i := range longs {
		longs[i] = int64(r.Uint64())
	}
	shorts := make([]*refnbt.Value, 3000)
	for i := range shorts {
		shorts[i] = refnbt.Sh(int16(r.Uint32()))
	}
	type arrays struct {
		A  int32   `nbt:"a"`
		I  []int32 `nbt:"i"`
		L  []int64 `nbt:"l"`
		Li []int16 `nbt:"li"`
		Z  string  `nbt:"z"`
	}
	tree := &refnbt.Value{Tag: refnbt.Compound, Comp: []refnbt.Entry{{Name: "a", V: refnbt.In(7)}, {Name: "i", V: &refnbt.Value{Tag: refnbt.IntArray, Ints: ints}},
		{Name: "l", V: &refnbt.Value{Tag: refnbt.LongArray, Longs: longs}}, {Name: "li", V: &refnbt.Value{Tag: refnbt.List, Elem: refnbt.Short, List: shorts}}, {Name: "z", V: refnbt.St("after")}}}
	doc := refnbt.Encode(tree, "", true)
	name := "5000/9000-element Int and Long arrays, list of 3000" // which of the two is the longer one depends on the seed: not part of the class name
	rcs = append(rcs,
		&rcase{op: nbtDecodeOp("nbt.Decode(struct, "+name+")", true, func() any { return new(arrays) }, func(v any) string { return viaEncoder(*(v.(*arrays))) }), input: doc, light: true},
		&rcase{op: nbtDecodeOp("nbt.Decode(any, "+name+")", true, func() any { return new(any) }, func(v any) string {
			m, _ := (*(v.(*any))).(map[string]any)
			i, _ := m["i"].([]int32)
			l, _ := m["l"].([]int64)
			li, _ := m["li"].([]any)
			return fmt.Sprint(m["a"], viaEncoder(i), viaEncoder(l), len(li), viaEncoder(li), m["z"])
		}), input: doc, light: true},
		&rcase{op: dynOp(name), input: doc, light: true},
		&rcase{op: rawOp(name), input: doc, light: true},
		&rcase{op: textOp(name), input: doc, light: true},
	)
	return rcs
}
