// C09, third table of operations (second blind-spot review):
//   - documents whose ROOT is an array, a list, a string or a number, read into receivers of a matching Go type (signed
//     and unsigned slices, fixed-size arrays, typed maps, used receivers). Inside a compound a lost element is always
//     followed by the read of the closing TAG_End, which fails on a stream that has ended; at the root the last
//     element is the last read;
//   - typed receivers that do not know most members of the document (the decoder skips them on the caller's reader),
//     also through pk.NBTField{AllowUnknownFields: true};
//   - the chat-signature wire structs (sign.PackedSignature has a fixed-size read of its own);
//   - a ByteArray read into a receiver that holds an older value with room to spare;
//   - Packet.Scan over data that ends at every offset.
package main

import (
	"bytes"
	"fmt"
	"io"
	"reflect"
	"strings"

	"github.com/Tnze/go-mc/chat/sign"
	pk "github.com/Tnze/go-mc/net/packet"

	"verif/gen/nbtgen"
	"verif/ref/refnbt"
	"verif/vm"
)

type rootElem struct {
	A int32  `nbt:"a"`
	B string `nbt:"b"`
}

// renderTyped prints what a typed receiver holds (maps print in key order; pointer elements are followed).
func renderTyped(v any) string {
	e := reflect.ValueOf(v).Elem()
	if e.Kind() == reflect.Map && e.Type().Elem().Kind() == reflect.Pointer {
		var sb strings.Builder
		keys := e.MapKeys()
		names := make([]string, len(keys))
		for i, k := range keys {
			names[i] = k.String()
		}
		for i := 1; i < len(names); i++ { // insertion sort: a handful of keys
			for j := i; j > 0 && names[j] < names[j-1]; j-- {
				names[j], names[j-1] = names[j-1], names[j]
			}
		}
		for _, k := range names {
			p := e.MapIndex(reflect.ValueOf(k))
			if p.IsNil() {
				fmt.Fprintf(&sb, "%s:nil ", k)
			} else {
				fmt.Fprintf(&sb, "%s:%+v ", k, p.Elem().Interface())
			}
		}
		return sb.String()
	}
	return fmt.Sprintf("%T %+v", e.Interface(), e.Interface())
}

// typedRootCases returns `pick` of the root-level documents with their typed receivers.
func typedRootCases(r *vm.Rand, g *nbtgen.G, pick int) []*rcase {
	n := r.Range(1, 5)
	longs := make([]int64, n)
	ints := make([]int32, n)
	for i := range longs {
		longs[i], ints[i] = int64(r.Uint64()), int32(r.Uint32())
	}
	bs := r.Bytes(n)
	longArr := func(v []int64) *refnbt.Value { return &refnbt.Value{Tag: refnbt.LongArray, Longs: v} }
	intArr := func(v []int32) *refnbt.Value { return &refnbt.Value{Tag: refnbt.IntArray, Ints: v} }
	byteArr := func(v []byte) *refnbt.Value { return &refnbt.Value{Tag: refnbt.ByteArray, Bytes: v} }
	list := func(elem byte, vs ...*refnbt.Value) *refnbt.Value { return &refnbt.Value{Tag: refnbt.List, Elem: elem, List: vs} }
	comp := func(es ...refnbt.Entry) *refnbt.Value { return &refnbt.Value{Tag: refnbt.Compound, Comp: es} }
	elem := func() *refnbt.Value {
		return comp(refnbt.Entry{Name: "a", V: refnbt.In(int32(r.Uint32()))}, refnbt.Entry{Name: "b", V: refnbt.St(strings.Repeat("e", r.Intn(4)))})
	}
	var shorts, strs, elems, intLists []*refnbt.Value
	for i := 0; i < n; i++ {
		shorts = append(shorts, refnbt.Sh(int16(r.Uint32())))
		strs = append(strs, refnbt.St(strings.Repeat("s", r.Intn(5))))
		elems = append(elems, elem())
		intLists = append(intLists, intArr(ints[:r.Intn(n+1)]))
	}
	// used: the receiver holds an older, longer value of the same type
	used := r.Bool()
	sl := func(fresh, old any) func() any { // both are pointers to slices/maps/scalars; a copy of old is handed out each time
		return func() any {
			if !used {
				return reflect.New(reflect.TypeOf(fresh).Elem()).Interface()
			}
			o := reflect.ValueOf(old).Elem()
			p := reflect.New(o.Type())
			switch o.Kind() {
			case reflect.Slice:
				cp := reflect.MakeSlice(o.Type(), o.Len(), o.Len()+3)
				reflect.Copy(cp, o)
				p.Elem().Set(cp)
			case reflect.Map:
				cp := reflect.MakeMap(o.Type())
				for _, k := range o.MapKeys() {
					cp.SetMapIndex(k, o.MapIndex(k))
				}
				p.Elem().Set(cp)
			default:
				p.Elem().Set(o)
			}
			return p.Interface()
		}
	}
	type tc struct {
		into string
		tree *refnbt.Value
		mk   func() any
	}
	table := []tc{
		{"[]uint64", longArr(longs), sl(new([]uint64), &[]uint64{9, 9, 9, 9, 9, 9, 9})},
		{"[]int64", longArr(longs), sl(new([]int64), &[]int64{9, 9, 9, 9, 9, 9, 9})},
		{"[3]int64", longArr([]int64{longs[0], 2, int64(r.Uint64())}), sl(new([3]int64), &[3]int64{9, 9, 9})},
		{"[3]uint64", longArr([]int64{longs[0], -2, int64(r.Uint64())}), sl(new([3]uint64), &[3]uint64{9, 9, 9})},
		{"[]uint32", intArr(ints), sl(new([]uint32), &[]uint32{9, 9, 9, 9, 9, 9, 9})},
		{"[]int32", intArr(ints), sl(new([]int32), &[]int32{9, 9, 9, 9, 9, 9, 9})},
		{"[2]int32", intArr([]int32{ints[0], -7}), sl(new([2]int32), &[2]int32{9, 9})},
		{"[]byte", byteArr(bs), sl(new([]byte), &[]byte{9, 9, 9, 9, 9, 9, 9})},
		{"[]int8", byteArr(bs), sl(new([]int8), &[]int8{9, 9, 9, 9, 9, 9, 9})},
		{"[]bool", byteArr(bs), sl(new([]bool), &[]bool{true, true, true, true, true, true, true})},
		{"[4]byte", byteArr([]byte{bs[0], 2, 3, byte(r.Intn(256))}), sl(new([4]byte), &[4]byte{9, 9, 9, 9})},
		{"string", refnbt.St(strings.Repeat("r", r.Range(1, 40))), sl(new(string), ptr("older text, longer than most"))},
		{"[]int16", list(refnbt.Short, shorts...), sl(new([]int16), &[]int16{9, 9, 9, 9, 9, 9, 9})},
		{"[]string", list(refnbt.String, strs...), sl(new([]string), &[]string{"o", "l", "d", "e", "r", "x", "y"})},
		{"[]struct", list(refnbt.Compound, elems...), sl(new([]rootElem), &[]rootElem{{9, "old"}, {9, "old"}, {9, "old"}, {9, "old"}, {9, "old"}, {9, "old"}})},
		{"[][]int32", list(refnbt.IntArray, intLists...), sl(new([][]int32), &[][]int32{{9}, {9, 9}, {9}, {9}, {9}, {9}})},
		{"[6]int64(list)", list(refnbt.Long, refnbt.Lo(longs[0]), refnbt.Lo(-1)), sl(new([6]int64), &[6]int64{9, 9, 9, 9, 9, 9})},
		{"int32", refnbt.In(ints[0]), sl(new(int32), ptr(int32(9)))},
		{"uint32", refnbt.In(ints[0]), sl(new(uint32), ptr(uint32(9)))},
		{"int64(from Int)", refnbt.In(ints[0]), sl(new(int64), ptr(int64(9)))},
		{"uint64", refnbt.Lo(longs[0]), sl(new(uint64), ptr(uint64(9)))},
		{"uint16", refnbt.Sh(int16(ints[0])), sl(new(uint16), ptr(uint16(9)))},
		{"float64", refnbt.Do(uint64(r.Intn(1000)) << 52), sl(new(float64), ptr(9.5))},
		{"float32", refnbt.Fl(uint32(r.Intn(250)) << 23), sl(new(float32), ptr(float32(9.5)))},
		{"bool", refnbt.B(int8(r.Intn(2))), sl(new(bool), ptr(true))},
		{"uint8", refnbt.B(int8(ints[0])), sl(new(uint8), ptr(uint8(9)))},
		{"map[string]int32", comp(refnbt.Entry{Name: g.Key(), V: refnbt.In(ints[0])}, refnbt.Entry{Name: "zz", V: refnbt.In(-1)}), sl(new(map[string]int32), &map[string]int32{"old": 9})},
		{"map[string][]uint64", comp(refnbt.Entry{Name: "p", V: longArr(longs)}, refnbt.Entry{Name: "q", V: longArr(longs[:n/2])}), sl(new(map[string][]uint64), &map[string][]uint64{"old": {9}})},
		{"map[string]struct", comp(refnbt.Entry{Name: "p", V: elem()}, refnbt.Entry{Name: "q", V: elem()}), sl(new(map[string]rootElem), &map[string]rootElem{"old": {9, "old"}})},
		{"map[string]*struct", comp(refnbt.Entry{Name: "p", V: elem()}, refnbt.Entry{Name: "q", V: elem()}), sl(new(map[string]*rootElem), &map[string]*rootElem{"old": {9, "old"}})},
	}
	var rcs []*rcase
	first := r.Intn(len(table))
	for i := 0; i < pick; i++ {
		t := table[(first+i*7)%len(table)] // 7 and len(table) are coprime: every entry comes up
		network := r.Bool()
		note := "fresh receiver"
		if used {
			note = "the receiver holds an older value of its type"
		}
		rcs = append(rcs, &rcase{op: nbtDecodeOp("nbt.Decode(root "+refnbt.TagName(t.tree.Tag)+" into "+t.into+")", network, t.mk, renderTyped),
			input: refnbt.Encode(t.tree, "root", network), note: note})
	}
	return rcs
}

func ptr[T any](v T) *T { return &v }

// unknownMemberCases: a compound with members the receiver knows at both ends and a generated subtree (every tag kind,
// nested) under a name it does not know. The decoder skips it with rawRead on the caller's reader.
func unknownMemberCases(r *vm.Rand, g *nbtgen.G) []*rcase {
	type known struct {
		Keep int32  `nbt:"keep"`
		Tail string `nbt:"tail"`
	}
	sub := g.Doc(0)
	es := []refnbt.Entry{{Name: "keep", V: refnbt.In(int32(r.Uint32()))}, {Name: "stranger", V: sub}}
	if sub.Tag == refnbt.Compound { // its members as further strangers at the top level
		for i, e := range sub.Comp {
			if i < 6 && e.Name != "keep" && e.Name != "tail" && !strings.EqualFold(e.Name, "keep") && !strings.EqualFold(e.Name, "tail") && e.Name != "stranger" {
				es = append(es, refnbt.Entry{Name: e.Name, V: e.V})
			}
		}
	}
	// names are unique in a compound: drop repeats (the generator may repeat a key inside sub)
	seen := map[string]bool{}
	var uniq []refnbt.Entry
	for _, e := range es {
		if !seen[e.Name] {
			seen[e.Name] = true
			uniq = append(uniq, e)
		}
	}
	uniq = append(uniq, refnbt.Entry{Name: "tail", V: refnbt.St("after-" + g.Key())})
	tree := &refnbt.Value{Tag: refnbt.Compound, Comp: uniq}
	network := r.Bool()
	return []*rcase{
		{op: nbtDecodeOp("nbt.Decode(struct, unknown members skipped)", network, func() any { return new(known) }, func(v any) string { return fmt.Sprintf("%+v", *(v.(*known))) }),
			input: refnbt.Encode(tree, "doc", network)},
		{op: rop{name: "NBTField(struct, AllowUnknownFields)", run: func(rd io.Reader) (string, int64, error) {
			var k known
			n, err := pk.NBTField{V: &k, AllowUnknownFields: true}.ReadFrom(rd)
			if err != nil {
				return "", n, err
			}
			return fmt.Sprintf("%+v", k), n, nil
		}}, input: refnbt.Encode(tree, "", true)},
	}
}

// signCases: the wire structs of signed chat. PackedSignature reads its 256 bytes with a read of its own; its
// ReadFrom has a value receiver, so the result is observable only through a Signature the receiver already points to.
func signCases(r *vm.Rand) []*rcase {
	var sig sign.Signature
	r.Fill(sig[:])
	var u pk.UUID
	r.Fill(u[:])
	fbs := pk.NewFixedBitSet(20)
	r.Fill(fbs)
	mask := pk.BitSet{int64(r.Uint64()), int64(r.Uint64())}[:r.Range(0, 2)]
	hmSig := r.Bytes(r.Intn(40))
	msg := strings.Repeat("m", r.Intn(30))
	lastSeen := r.Intn(3)
	var body bytes.Buffer // PackedMessageBody as its ReadFrom takes it: text, time, salt, count, then per entry an id (0 or more) or -1 and 256 bytes
	pk.Tuple{pk.String(msg), pk.Long(r.Int63() >> 20), pk.Long(r.Uint64()), pk.VarInt(lastSeen)}.WriteTo(&body)
	for i := 0; i < lastSeen; i++ {
		if r.Bool() {
			pk.VarInt(r.Intn(300)).WriteTo(&body)
		} else {
			pk.VarInt(-1).WriteTo(&body)
			body.Write(sig[:])
		}
	}
	return []*rcase{
		{op: rop{name: "sign.PackedSignature(full)", run: func(rd io.Reader) (string, int64, error) {
			p := sign.PackedSignature{Signature: new(sign.Signature)}
			n, err := p.ReadFrom(rd)
			if err != nil {
				return "", n, err
			}
			return fmt.Sprintf("%x", p.Signature[:]), n, nil
		}}, input: append(enc(pk.VarInt(-1)), sig[:]...)},
		{op: rop{name: "sign.HistoryMessage", run: func(rd io.Reader) (string, int64, error) {
			var h sign.HistoryMessage
			n, err := h.ReadFrom(rd)
			if err != nil {
				return "", n, err
			}
			return fmt.Sprintf("%x %x", h.Sender[:], h.Signature), n, nil
		}}, input: enc(pk.Tuple{u, pk.ByteArray(hmSig)})},
		{op: rop{name: "sign.FilterMask(partially filtered)", run: func(rd io.Reader) (string, int64, error) {
			var f sign.FilterMask
			n, err := f.ReadFrom(rd)
			if err != nil {
				return "", n, err
			}
			return fmt.Sprint(f.Type, []int64(f.Mask)), n, nil
		}}, input: enc(pk.Tuple{pk.VarInt(2), mask})},
		{op: rop{name: "sign.HistoryUpdate", run: func(rd io.Reader) (string, int64, error) {
			h := sign.HistoryUpdate{Acknowledged: pk.NewFixedBitSet(20)}
			n, err := h.ReadFrom(rd)
			if err != nil {
				return "", n, err
			}
			return fmt.Sprintf("%d %x", h.Offset, []byte(h.Acknowledged)), n, nil
		}}, input: enc(pk.Tuple{pk.VarInt(r.Uint32() >> uint(r.Intn(32))), fbs})},
		{op: rop{name: "sign.PackedMessageBody", run: func(rd io.Reader) (string, int64, error) {
			var m sign.PackedMessageBody
			n, err := m.ReadFrom(rd)
			if err != nil {
				return "", n, err
			}
			return fmt.Sprint(m.PlainMsg, m.Timestamp.UnixMilli(), m.Salt, len(m.LastSeen)), n, nil
		}}, input: body.Bytes()},
	}
}

// usedByteArrayCase: ByteArray.ReadFrom reads into the buffer the receiver already has when it is large enough.
func usedByteArrayCase(r *vm.Rand) *rcase {
	n := r.Intn(60)
	oldLen := []int{1, n / 2, n, n + 9}[r.Intn(4)]
	oldCap := oldLen + []int{0, 3, n, 2*n + 5}[r.Intn(4)]
	return &rcase{op: rop{name: "ByteArray(used receiver)", run: func(rd io.Reader) (string, int64, error) {
		v := pk.ByteArray(bytes.Repeat([]byte{0xEE}, oldCap)[:oldLen])
		k, err := v.ReadFrom(rd)
		if err != nil {
			return "", k, err
		}
		return fmt.Sprintf("%x", []byte(v)), k, nil
	}}, input: enc(pk.ByteArray(r.Bytes(n))), note: fmt.Sprintf("the receiver holds %d bytes in a buffer of %d", oldLen, oldCap)}
}

// checkScan: Packet.Scan reads the fields from the packet's data. Data that ends at any offset before the last field
// is complete must make Scan fail; the complete data must decode to what was written.
func checkScan(c *vm.Ctx, r *vm.Rand) {
	type fld struct {
		name string
		enc  pk.FieldEncoder
		dec  func() pk.FieldDecoder
	}
	var u pk.UUID
	r.Fill(u[:])
	var sg sign.Signature
	r.Fill(sg[:])
	fbsLen := int64(8 * r.Range(1, 4))
	fbs := pk.NewFixedBitSet(fbsLen)
	r.Fill(fbs)
	str := strings.Repeat("s", r.Intn(8))
	menu := []fld{
		{"Boolean", pk.Boolean(r.Bool()), func() pk.FieldDecoder { return new(pk.Boolean) }},
		{"Byte", pk.Byte(r.Intn(256)), func() pk.FieldDecoder { return new(pk.Byte) }},
		{"UnsignedByte", pk.UnsignedByte(r.Intn(256)), func() pk.FieldDecoder { return new(pk.UnsignedByte) }},
		{"Short", pk.Short(r.Uint32()), func() pk.FieldDecoder { return new(pk.Short) }},
		{"UnsignedShort", pk.UnsignedShort(r.Uint32()), func() pk.FieldDecoder { return new(pk.UnsignedShort) }},
		{"Int", pk.Int(r.Uint32()), func() pk.FieldDecoder { return new(pk.Int) }},
		{"Long", pk.Long(r.Uint64()), func() pk.FieldDecoder { return new(pk.Long) }},
		{"Float", pk.Float(float32(r.Intn(1000)) / 8), func() pk.FieldDecoder { return new(pk.Float) }},
		{"Double", pk.Double(float64(r.Intn(1000)) / 8), func() pk.FieldDecoder { return new(pk.Double) }},
		{"VarInt", pk.VarInt(r.Uint32() >> uint(r.Intn(32))), func() pk.FieldDecoder { return new(pk.VarInt) }},
		{"VarLong", pk.VarLong(r.Uint64() >> uint(r.Intn(64))), func() pk.FieldDecoder { return new(pk.VarLong) }},
		{"String", pk.String(str), func() pk.FieldDecoder { return new(pk.String) }},
		{"ByteArray", pk.ByteArray(r.Bytes(r.Intn(8))), func() pk.FieldDecoder { return new(pk.ByteArray) }},
		{"UUID", u, func() pk.FieldDecoder { return new(pk.UUID) }},
		{"Position", pk.Position{X: r.Intn(1000) - 500, Y: r.Intn(300) - 64, Z: r.Intn(1000) - 500}, func() pk.FieldDecoder { return new(pk.Position) }},
		{"Angle", pk.Angle(r.Intn(256)), func() pk.FieldDecoder { return new(pk.Angle) }},
		{"BitSet", pk.BitSet{int64(r.Uint64()), 5}[:r.Intn(3)], func() pk.FieldDecoder { return new(pk.BitSet) }},
		{"FixedBitSet", fbs, func() pk.FieldDecoder { return pk.NewFixedBitSet(fbsLen) }},
		{"Ary[VarInt]ofShort", pk.Array([]pk.Short{1, pk.Short(r.Uint32()), 3}[:r.Intn(4)]), func() pk.FieldDecoder { return pk.Array(new([]pk.Short)) }},
		{"Option[String]", pk.Option[pk.String, *pk.String]{Has: pk.Boolean(r.Bool()), Val: "opt"}, func() pk.FieldDecoder { return new(pk.Option[pk.String, *pk.String]) }},
		{"NBT", pk.NBT(map[string]any{"k": int32(r.Uint32())}), func() pk.FieldDecoder { return pk.NBT(new(map[string]any)) }},
		{"sign.Signature", sg, func() pk.FieldDecoder { return new(sign.Signature) }},
	}
	k := r.Range(1, 5)
	var names []string
	var encs []pk.FieldEncoder
	var mks []func() pk.FieldDecoder
	for i := 0; i < k; i++ {
		f := menu[r.Intn(len(menu))]
		names, encs, mks = append(names, f.name), append(encs, f.enc), append(mks, f.dec)
	}
	full := pk.Marshal(0x2a, encs...)
	wit := func(extra map[string]any) any {
		m := map[string]any{"fields": names, "data_hex": vm.Hex(full.Data), "data_len": len(full.Data)}
		for k, v := range extra {
			m[k] = v
		}
		return m
	}
	c.Eval(vm.Hash64([]byte("scan"), []byte(fmt.Sprint(names)), full.Data), len(full.Data) > 1)
	for cut := 0; cut <= len(full.Data); cut++ {
		decs := make([]pk.FieldDecoder, len(mks))
		for i, mk := range mks {
			decs[i] = mk()
		}
		p := pk.Packet{ID: full.ID, Data: append([]byte{}, full.Data[:cut]...)}
		var err error
		ex := map[string]any{"data_ends_after_bytes": cut}
		if c.Guard("scan", func() any { return wit(ex) }, func() { err = p.Scan(decs...) }) {
			return
		}
		if cut < len(full.Data) {
			if err == nil {
				c.Violation("scan/success-on-data-that-ends-early", fmt.Sprintf("the packet's data ends after %d of %d bytes and Scan reports success", cut, len(full.Data)), wit(ex))
				return
			}
			continue
		}
		if err != nil {
			c.Violation("scan/error-on-complete-data", "Scan of the complete data failed: "+err.Error(), wit(ex))
			return
		}
		// what was decoded, written again, is the data
		var again bytes.Buffer
		ok := true
		for i, d := range decs {
			var e pk.FieldEncoder
			switch v := d.(type) {
			case pk.FieldEncoder:
				e = v
			default:
				// pointer receivers of value-encoder types: *T decodes, T encodes
				rv := reflect.ValueOf(d)
				if rv.Kind() == reflect.Pointer {
					if fe, isEnc := rv.Elem().Interface().(pk.FieldEncoder); isEnc {
						e = fe
					}
				}
			}
			if e == nil {
				ok = false
				c.Inconclusive(fmt.Sprintf("C09 scan: field %s cannot be written back", names[i]))
				break
			}
			e.WriteTo(&again)
		}
		if ok && !bytes.Equal(again.Bytes(), full.Data) {
			c.Violation("scan/values-differ", "the fields Scan filled from the complete data encode to other bytes than the data", wit(map[string]any{"re_encoded_hex": vm.Hex(again.Bytes())}))
			return
		}
	}
	c.Cover("scan.data-ends-at-every-offset")
}
