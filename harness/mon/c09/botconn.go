// C09, the bot's queued connection: WritePacket hands the frame to a writer goroutine. When the socket's Write
// starts failing, that failure has to come back to the caller - at the latest from the calls made after it
// happened. A connection that keeps answering nil while nothing reaches the wire any more has swallowed it.
package main

import (
	"context"
	"fmt"
	"io"
	"net"
	"runtime"
	"sync/atomic"
	"time"

	"github.com/Tnze/go-mc/bot"
	"github.com/Tnze/go-mc/data/packetid"
	mcnet "github.com/Tnze/go-mc/net"
	pk "github.com/Tnze/go-mc/net/packet"
	"github.com/Tnze/go-mc/net/queue"

	"verif/inject"
	"verif/vm"
)

type failingConn struct {
	net.Conn
	armed  atomic.Bool
	failed atomic.Int32 // number of Write calls that failed
}

func (f *failingConn) Write(p []byte) (int, error) {
	if f.armed.Load() {
		f.failed.Add(1)
		return 0, inject.ErrInjected
	}
	return f.Conn.Write(p)
}

type failDialer struct {
	serve func(net.Conn)
	fc    *failingConn
}

func (d *failDialer) DialMCContext(ctx context.Context, addr string) (*mcnet.Conn, error) {
	a, b := net.Pipe()
	go d.serve(b)
	d.fc = &failingConn{Conn: a}
	return mcnet.WrapConn(d.fc), nil
}

func botConnWriteFailure(c *vm.Ctx, r *vm.Rand) {
	channelQueue := r.Bool()
	before := r.Intn(4) // packets written successfully before the socket starts failing
	serve := func(raw net.Conn) {
		defer raw.Close()
		conn := mcnet.WrapConn(raw)
		var p pk.Packet
		if conn.ReadPacket(&p) != nil || conn.ReadPacket(&p) != nil {
			return
		}
		conn.WritePacket(pk.Marshal(packetid.ClientboundLoginGameProfile, pk.UUID{1}, pk.String("bot"), pk.VarInt(0), pk.Boolean(true)))
		if conn.ReadPacket(&p) != nil {
			return
		}
		conn.WritePacket(pk.Marshal(packetid.ClientboundConfigFinishConfiguration))
		io.Copy(io.Discard, raw)
	}
	d := &failDialer{serve: serve}
	cl := bot.NewClient()
	opts := bot.JoinOptions{MCDialer: d}
	if channelQueue {
		opts.QueueRead = queue.NewChannelQueue[pk.Packet](64)
		opts.QueueWrite = queue.NewChannelQueue[pk.Packet](4096)
	}
	wit := func() any { return map[string]any{"channel_queue": channelQueue, "packets_before_failure": before} }
	var joinErr error
	if c.Guard("botconn/join", wit, func() { joinErr = cl.JoinServerWithOptions("fail.test:25565", opts) }) {
		return
	}
	c.Eval(vm.HashStr("botconn", fmt.Sprint(channelQueue, before, r.Uint64())), true)
	if joinErr != nil {
		c.Violation("botconn/join-failed", "join over a healthy in-memory connection failed: "+joinErr.Error(), wit())
		return
	}
	defer cl.Close()
	keepAlive := pk.Marshal(packetid.ServerboundKeepAlive, pk.Long(7))
	for i := 0; i < before; i++ {
		if err := cl.Conn.WritePacket(keepAlive); err != nil {
			c.Violation("botconn/error-on-healthy-socket", "WritePacket failed before any failure was injected: "+err.Error(), wit())
			return
		}
	}
	time.Sleep(2 * time.Millisecond) // let the writer goroutine drain what was queued while the socket is healthy
	d.fc.armed.Store(true)
	// from now on every socket write fails. Keep writing: once a write has failed, later calls must say so.
	nilAfterFailure, sawError := 0, false
	for i := 0; i < 400 && !sawError; i++ {
		failedBefore := d.fc.failed.Load()
		err := cl.Conn.WritePacket(keepAlive)
		switch {
		case err != nil:
			sawError = true
		case failedBefore > 0:
			nilAfterFailure++
		}
		runtime.Gosched()
		if i%8 == 7 {
			time.Sleep(200 * time.Microsecond)
		}
	}
	if !sawError {
		c.Violation("botconn/write-failure-swallowed", fmt.Sprintf("the socket's Write failed %d time(s); %d WritePacket calls made after the first failure all returned nil", d.fc.failed.Load(), nilAfterFailure), wit())
		return
	}
	c.Cover("botconn.write-failure-surfaces")
}
