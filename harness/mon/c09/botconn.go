// C09, the bot's queued connection: WritePacket hands the frame to a writer goroutine. When the socket's Write
// starts failing, that failure has to come back to the caller - at the latest from the calls made after it
// happened. A connection that keeps answering nil while nothing reaches the wire any more has swallowed it.
package main

import (
	"bytes"
	"context"
	"fmt"
	"io"
	"net"
	"runtime"
	"sync/atomic"
	"time"

	"github.com/Tnze/go-mc/bot"
	"github.com/Tnze/go-mc/data/packetid"
	mcnet "github.com/Tnze/go-mc/net"
	pk "github.com/Tnze/go-mc/net/packet"
	"github.com/Tnze/go-mc/net/queue"

	"verif/inject"
	"verif/vm"
)

type failingConn struct {
	net.Conn
	armed  atomic.Bool
	failed atomic.Int32 // number of Write calls that failed
}

func (f *failingConn) Write(p []byte) (int, error) {
	if f.armed.Load() {
		f.failed.Add(1)
		return 0, inject.ErrInjected
	}
	return f.Conn.Write(p)
}

type failDialer struct {
	serve func(net.Conn)
	fc    *failingConn
}

func (d *failDialer) DialMCContext(ctx context.Context, addr string) (*mcnet.Conn, error) {
	a, b := net.Pipe()
	go d.serve(b)
	d.fc = &failingConn{Conn: a}
	return mcnet.WrapConn(d.fc), nil
}

func botConnWriteFailure(c *vm.Ctx, r *vm.Rand) {
	channelQueue := r.Bool()
	before := r.Intn(4) // packets written successfully before the socket starts failing
	serve := func(raw net.Conn) {
		defer raw.Close()
		conn := mcnet.WrapConn(raw)
		var p pk.Packet
		if conn.ReadPacket(&p) != nil || conn.ReadPacket(&p) != nil {
			return
		}
		conn.WritePacket(pk.Marshal(packetid.ClientboundLoginGameProfile, pk.UUID{1}, pk.String("bot"), pk.VarInt(0), pk.Boolean(true)))
		if conn.ReadPacket(&p) != nil {
			return
		}
		conn.WritePacket(pk.Marshal(packetid.ClientboundConfigFinishConfiguration))
		io.Copy(io.Discard, raw)
	}
	d := &failDialer{serve: serve}
	cl := bot.NewClient()
	opts := bot.JoinOptions{MCDialer: d}
	if channelQueue {
		opts.QueueRead = queue.NewChannelQueue[pk.Packet](64)
		opts.QueueWrite = queue.NewChannelQueue[pk.Packet](4096)
	}
	wit := func() any { return map[string]any{"channel_queue": channelQueue, "packets_before_failure": before} }
	var joinErr error
	if c.Guard("botconn/join", wit, func() { joinErr = cl.JoinServerWithOptions("fail.test:25565", opts) }) {
		return
	}
	c.Eval(vm.HashStr("botconn", fmt.Sprint(channelQueue, before, r.Uint64())), true)
	if joinErr != nil {
		c.Violation("botconn/join-failed", "join over a healthy in-memory connection failed: "+joinErr.Error(), wit())
		return
	}
	defer cl.Close()
	keepAlive := pk.Marshal(packetid.ServerboundKeepAlive, pk.Long(7))
	for i := 0; i < before; i++ {
		if err := cl.Conn.WritePacket(keepAlive); err != nil {
			c.Violation("botconn/error-on-healthy-socket", "WritePacket failed before any failure was injected: "+err.Error(), wit())
			return
		}
	}
	time.Sleep(2 * time.Millisecond) // let the writer goroutine drain what was queued while the socket is healthy
	d.fc.armed.Store(true)
	// from now on every socket write fails. Keep writing: once a write has failed, later calls must say so.
	nilAfterFailure, sawError := 0, false
	for i := 0; i < 400 && !sawError; i++ {
		failedBefore := d.fc.failed.Load()
		err := cl.Conn.WritePacket(keepAlive)
		switch {
		case err != nil:
			sawError = true
		case failedBefore > 0:
			nilAfterFailure++
		}
		runtime.Gosched()
		if i%8 == 7 {
			time.Sleep(200 * time.Microsecond)
		}
	}
	if !sawError {
		c.Violation("botconn/write-failure-swallowed", fmt.Sprintf("the socket's Write failed %d time(s); %d WritePacket calls made after the first failure all returned nil", d.fc.failed.Load(), nilAfterFailure), wit())
		return
	}
	c.Cover("botconn.write-failure-surfaces")
}

// ---- the reading side: ReadPacket takes the frame from a queue that a reader goroutine fills. When the socket ends or
// fails in the middle of a frame (or between two frames), every frame that arrived whole before that must come out
// intact and the call after the last of them must report an error: nil there hands the caller a packet that never
// arrived.

// cutConn lets a connection's reads through until budget bytes (counted from the moment arm is called) have been
// delivered; the Read that would cross the budget hands out the bytes up to it, and every later Read fails.
type cutConn struct {
	net.Conn
	armed  atomic.Bool
	budget atomic.Int64
}

func (f *cutConn) arm(budget int) {
	f.budget.Store(int64(budget))
	f.armed.Store(true)
}

func (f *cutConn) Read(p []byte) (int, error) {
	if f.armed.Load() && f.budget.Load() <= 0 {
		return 0, inject.ErrInjected
	}
	n, err := f.Conn.Read(p)
	if f.armed.Load() {
		left := f.budget.Load()
		if int64(n) > left {
			n = int(left)
		}
		f.budget.Store(left - int64(n))
	}
	return n, err
}

type cutDialer struct {
	serve func(net.Conn)
	cc    *cutConn
}

func (d *cutDialer) DialMCContext(ctx context.Context, addr string) (*mcnet.Conn, error) {
	a, b := net.Pipe()
	go d.serve(b)
	d.cc = &cutConn{Conn: a}
	return mcnet.WrapConn(d.cc), nil
}

func botConnReadFailure(c *vm.Ctx, r *vm.Rand) {
	channelQueue := r.Bool()
	whole := r.Intn(5) // frames that arrive completely
	ends := r.Bool()   // the stream ends (the peer closes) / the socket's Read fails
	type frame struct {
		id   int32
		data []byte
	}
	frames := make([]frame, whole+1)
	var wire [][]byte
	for i := range frames {
		frames[i] = frame{int32(r.Intn(200)), r.Bytes([]int{0, 1, 8, 100, 300}[r.Intn(5)])}
		var b bytes.Buffer
		p := pk.Packet{ID: frames[i].id, Data: frames[i].data}
		p.Pack(&b, -1)
		wire = append(wire, b.Bytes())
	}
	last := wire[whole]
	cutAt := r.Intn(len(last)) // bytes of the frame after the whole ones that still arrive: 0 (between two frames) .. all but one
	switch r.Intn(4) {
	case 0:
		cutAt = 0
	case 1:
		cutAt = len(last) - 1
	}
	start := make(chan struct{})
	serve := func(raw net.Conn) {
		defer raw.Close()
		conn := mcnet.WrapConn(raw)
		var p pk.Packet
		if conn.ReadPacket(&p) != nil || conn.ReadPacket(&p) != nil {
			return
		}
		conn.WritePacket(pk.Marshal(packetid.ClientboundLoginGameProfile, pk.UUID{1}, pk.String("bot"), pk.VarInt(0), pk.Boolean(true)))
		if conn.ReadPacket(&p) != nil {
			return
		}
		conn.WritePacket(pk.Marshal(packetid.ClientboundConfigFinishConfiguration))
		go io.Copy(io.Discard, raw) // whatever the bot still says (the pipe is synchronous: unread bytes would block it)
		<-start
		for i := 0; i < whole; i++ {
			if _, err := raw.Write(wire[i]); err != nil {
				return
			}
		}
		if ends {
			raw.Write(last[:cutAt]) // and the connection is closed
			return
		}
		raw.Write(last) // the client's socket fails cutAt bytes into it; the rest is never taken
	}
	d := &cutDialer{serve: serve}
	cl := bot.NewClient()
	opts := bot.JoinOptions{MCDialer: d}
	if channelQueue {
		opts.QueueRead = queue.NewChannelQueue[pk.Packet](64)
		opts.QueueWrite = queue.NewChannelQueue[pk.Packet](4096)
	}
	sizes := make([]int, len(frames))
	for i, f := range frames {
		sizes[i] = len(f.data)
	}
	how := "the socket's Read fails"
	if ends {
		how = "the peer closes the connection"
	}
	wit := func() any {
		return map[string]any{"channel_queue": channelQueue, "whole_frames_before": whole, "frame_data_sizes": sizes, "bytes_of_the_next_frame_that_arrive": cutAt, "its_length_on_the_wire": len(last), "failure": how}
	}
	var joinErr error
	if c.Guard("botconn-read/join", wit, func() { joinErr = cl.JoinServerWithOptions("cut.test:25565", opts) }) {
		close(start)
		return
	}
	c.Eval(vm.HashStr("botconn-read", fmt.Sprint(channelQueue, whole, ends, cutAt, sizes)), true)
	if joinErr != nil {
		close(start)
		c.Violation("botconn-read/join-failed", "join over a healthy in-memory connection failed: "+joinErr.Error(), wit())
		return
	}
	defer cl.Close()
	if !ends {
		total := cutAt
		for i := 0; i < whole; i++ {
			total += len(wire[i])
		}
		d.cc.arm(total)
	}
	close(start)
	type outcome struct {
		got  []frame
		errs []error
	}
	done := make(chan outcome, 1)
	go func() {
		var o outcome
		c.Guard("botconn-read/read", wit, func() {
			for i := 0; i <= whole; i++ {
				var p pk.Packet
				err := cl.Conn.ReadPacket(&p)
				o.errs = append(o.errs, err)
				o.got = append(o.got, frame{p.ID, append([]byte{}, p.Data...)})
				if err != nil {
					break
				}
			}
		})
		done <- o
	}()
	var o outcome
	select {
	case o = <-done:
	case <-time.After(30 * time.Second):
		c.Inconclusive("C09 botconn-read: ReadPacket did not return within 30 s after the connection had failed")
		return
	}
	for i := 0; i < whole; i++ {
		if i >= len(o.errs) {
			return // a panic was reported by Guard
		}
		if o.errs[i] != nil {
			c.Violation("botconn-read/whole-frame-lost", fmt.Sprintf("frame %d of %d arrived completely before the connection failed, ReadPacket returned: %v", i, whole, o.errs[i]), wit())
			return
		}
		if o.got[i].id != frames[i].id || !bytes.Equal(o.got[i].data, frames[i].data) {
			c.Violation("botconn-read/whole-frame-altered", fmt.Sprintf("frame %d arrived as id %d / %d bytes, sent id %d / %d bytes", i, o.got[i].id, len(o.got[i].data), frames[i].id, len(frames[i].data)), wit())
			return
		}
	}
	if len(o.errs) <= whole {
		return
	}
	if o.errs[whole] == nil {
		c.Violation("botconn-read/read-failure-swallowed", fmt.Sprintf("%s %d bytes into a frame of %d; ReadPacket returned nil with id %d / %d bytes of data", how, cutAt, len(last), o.got[whole].id, len(o.got[whole].data)), wit())
		return
	}
	if ends {
		c.Cover("botconn.read-failure-surfaces.stream-ends")
	} else {
		c.Cover("botconn.read-failure-surfaces.read-error")
	}
	if cutAt == 0 {
		c.Cover("botconn.read-failure-surfaces.between-frames")
	}
}
