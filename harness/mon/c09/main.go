// Monitor C09: fragmentation invariance of stream reads and propagation of I/O failures.
package main

import (
	"bytes"
	"encoding/binary"
	"errors"
	"fmt"
	"io"
	"net"
	"runtime/debug"
	"strings"
	"time"

	"github.com/Tnze/go-mc/chat/sign"
	"github.com/Tnze/go-mc/nbt"
	"github.com/Tnze/go-mc/nbt/dynbt"
	mcnet "github.com/Tnze/go-mc/net"
	pk "github.com/Tnze/go-mc/net/packet"

	"verif/gen/nbtgen"
	"verif/inject"
	"verif/ref/refnbt"
	"verif/vm"
)

func main() { vm.Main("C09", run) }

// rop is a reader-side operation: it reads one item from r and returns a rendering of the value, the reported byte count (-1 if the API reports none) and the error.
type rop struct {
	name string
	run  func(r io.Reader) (repr string, n int64, err error)
	// toEOF: the item has no end of its own, the operation reads until the stream ends (PluginMessageData). A stream
	// that ends early is then a shorter item, not a failure; a stream that FAILS is still a failure.
	toEOF bool
}

type rcase struct {
	op    rop
	input []byte // exactly the item's bytes
	// light: an expensive item (tens of thousands of elements decoded by reflection or rendered as text): fewer
	// fragmentation plans and failure offsets are run on it
	light bool
	// note: something about the receiver or the item that the operation's name does not say (goes into the witness)
	note string
}

var trailer = []byte{0x5a, 0x5a, 0x5a, 0x5a, 0x5a}

type countingPlain struct {
	r io.Reader
	n int
}

func (c *countingPlain) Read(p []byte) (int, error) {
	n, err := c.r.Read(p)
	c.n += n
	return n, err
}

var errSentinel = errors.New("verif: injected read failure")

func (rc *rcase) wit(extra map[string]any) any {
	m := map[string]any{"operation": rc.op.name, "input_hex": vm.Hex(rc.input), "input_len": len(rc.input)}
	if rc.note != "" {
		m["note"] = rc.note
	}
	for k, v := range extra {
		m[k] = v
	}
	return m
}

func plansFor(r *vm.Rand, n int) [][]int {
	var plans [][]int
	total := n + len(trailer)
	if total <= 12 {
		// every composition of the stream into reads of >= 1 byte
		for mask := 0; mask < 1<<(total-1); mask++ {
			var p []int
			run := 1
			for b := 0; b < total-1; b++ {
				if mask>>b&1 == 1 {
					p = append(p, run)
					run = 1
				} else {
					run++
				}
			}
			p = append(p, run)
			plans = append(plans, p)
		}
		return plans
	}
	plans = append(plans, []int{1})
	// one split at every offset (or 64 sampled offsets for long inputs)
	if n <= 200 {
		for k := 1; k < n; k++ {
			plans = append(plans, []int{k, 1 << 30})
		}
	} else {
		for i := 0; i < 64; i++ {
			plans = append(plans, []int{r.Range(1, n-1), 1 << 30})
		}
	}
	for i := 0; i < 64; i++ {
		p := make([]int, r.Range(1, 6))
		for j := range p {
			switch r.Intn(3) {
			case 0:
				p[j] = 1
			case 1:
				p[j] = r.Range(1, 8)
			default:
				p[j] = r.Range(1, max(2, n))
			}
		}
		plans = append(plans, p)
	}
	return plans
}

func checkRead(c *vm.Ctx, r *vm.Rand, rc *rcase) {
	in := append(append([]byte{}, rc.input...), trailer...)
	// contiguous reference run
	base := &inject.PlainReader{R: bytes.NewReader(in)}
	var bRepr string
	var bN int64
	var bErr error
	if c.Guard("read/"+rc.op.name, func() any { return rc.wit(nil) }, func() { bRepr, bN, bErr = rc.op.run(base) }) {
		return
	}
	if bErr != nil {
		c.Violation("read/"+rc.op.name+"/contiguous-error", "reading a valid item from a contiguous stream failed: "+bErr.Error(), rc.wit(nil))
		return
	}
	bConsumed := int(base.N)
	c.Eval(vm.Hash64([]byte(rc.op.name), rc.input), len(rc.input) > 1)
	nplans := 0
	plans := plansFor(r, len(rc.input))
	if rc.light && len(plans) > 40 {
		// one byte at a time, 12 single splits, 12 random plans
		plans = append(append(append([][]int{}, plans[0]), plans[1:13]...), plans[len(plans)-12:]...)
	}
	for _, plan := range plans {
		src := &inject.ChunkReader{B: in, Plan: plan}
		cnt := &countingPlain{r: src}
		var repr string
		var n int64
		var err error
		ex := map[string]any{"read_plan": plan}
		if c.Guard("read/"+rc.op.name, func() any { return rc.wit(ex) }, func() { repr, n, err = rc.op.run(cnt) }) {
			return
		}
		nplans++
		switch {
		case err != nil:
			c.Violation("frag/"+rc.op.name+"/error-under-fragmentation", fmt.Sprintf("the same stream delivered in reads of %v bytes fails: %v", plan, err), rc.wit(ex))
			return
		case repr != bRepr:
			c.Violation("frag/"+rc.op.name+"/value-depends-on-fragmentation", fmt.Sprintf("delivered in reads of %v the value is %s, contiguous it is %s", plan, short(repr), short(bRepr)), rc.wit(ex))
			return
		case n != bN:
			c.Violation("frag/"+rc.op.name+"/count-depends-on-fragmentation", fmt.Sprintf("delivered in reads of %v the reported count is %d, contiguous %d", plan, n, bN), rc.wit(ex))
			return
		case cnt.n != bConsumed:
			c.Violation("frag/"+rc.op.name+"/residual-depends-on-fragmentation", fmt.Sprintf("delivered in reads of %v the operation consumed %d bytes of the stream, contiguous %d", plan, cnt.n, bConsumed), rc.wit(ex))
			return
		}
	}
	// the same stream from a source that is an io.ByteReader as well (a bytes.Reader inside Packet.Scan, a bufio.Reader
	// around a socket): the single-byte reads then go through ReadByte, the others through Read
	for _, plan := range [][]int{plans[0], plans[len(plans)-1]} {
		src := &inject.ChunkByteReader{ChunkReader: inject.ChunkReader{B: in, Plan: plan}}
		var repr string
		var n int64
		var err error
		ex := map[string]any{"read_plan": plan, "source": "io.Reader + io.ByteReader"}
		if c.Guard("read/"+rc.op.name, func() any { return rc.wit(ex) }, func() { repr, n, err = rc.op.run(src) }) {
			return
		}
		switch {
		case err != nil:
			c.Violation("frag/"+rc.op.name+"/error-from-byte-reader", fmt.Sprintf("the same stream from an io.ByteReader source (reads of %v bytes) fails: %v", plan, err), rc.wit(ex))
			return
		case repr != bRepr:
			c.Violation("frag/"+rc.op.name+"/value-depends-on-byte-reader", fmt.Sprintf("from an io.ByteReader source the value is %s, from a plain reader %s", short(repr), short(bRepr)), rc.wit(ex))
			return
		case n != bN:
			c.Violation("frag/"+rc.op.name+"/count-depends-on-byte-reader", fmt.Sprintf("from an io.ByteReader source the reported count is %d, from a plain reader %d", n, bN), rc.wit(ex))
			return
		case src.Pos != bConsumed:
			c.Violation("frag/"+rc.op.name+"/residual-depends-on-byte-reader", fmt.Sprintf("from an io.ByteReader source the operation consumed %d bytes of the stream, from a plain reader %d", src.Pos, bConsumed), rc.wit(ex))
			return
		}
		c.Cover("frag.byte-reader-source")
	}
	// the item as the LAST thing in the stream, its final bytes handed out together with io.EOF (a Read may return n > 0
	// and the end of the stream at once: a socket whose peer has closed, a cipher or zlib reader at its end). Everything
	// the item needs has arrived, so the result is the one of the contiguous run; taking the EOF for a failure would lose
	// the last packet of every connection
	if !rc.op.toEOF && bConsumed == len(rc.input) && len(rc.input) > 0 {
		small := []int{1}
		if len(rc.input) > 20000 {
			small = []int{4096}
		}
		for _, plan := range [][]int{{1 << 30}, small, plans[len(plans)-1]} {
			src := &tailErrReader{B: rc.input, Plan: plan, Err: io.EOF}
			var repr string
			var n int64
			var err error
			ex := map[string]any{"read_plan": plan, "source": "no trailer; the Read that hands out the item's last byte returns io.EOF with it"}
			if c.Guard("read/"+rc.op.name, func() any { return rc.wit(ex) }, func() { repr, n, err = rc.op.run(src) }) {
				return
			}
			switch {
			case err != nil:
				c.Violation("frag/"+rc.op.name+"/error-when-eof-comes-with-the-last-byte", fmt.Sprintf("the complete item, its last bytes delivered together with io.EOF (reads of %v), fails: %v", plan, err), rc.wit(ex))
				return
			case repr != bRepr:
				c.Violation("frag/"+rc.op.name+"/value-depends-on-eof-with-the-last-byte", fmt.Sprintf("with io.EOF delivered together with the last bytes the value is %s, otherwise %s", short(repr), short(bRepr)), rc.wit(ex))
				return
			case n != bN:
				c.Violation("frag/"+rc.op.name+"/count-depends-on-eof-with-the-last-byte", fmt.Sprintf("with io.EOF delivered together with the last bytes the reported count is %d, otherwise %d", n, bN), rc.wit(ex))
				return
			case src.Pos != bConsumed:
				c.Violation("frag/"+rc.op.name+"/residual-depends-on-eof-with-the-last-byte", fmt.Sprintf("consumed %d bytes, contiguous %d", src.Pos, bConsumed), rc.wit(ex))
				return
			}
		}
		c.Cover("frag.eof-with-last-byte")
		c.Cover("frag.eof-with-last-byte." + rc.op.name)
	}
	c.CoverN("frag.plans-run", int64(nplans))
	c.Cover("frag." + rc.op.name)
	// failures at every offset before the item is complete
	offs := faultOffsets(r, bConsumed)
	if rc.light && len(offs) > 200 {
		offs = append(append(append([]int{}, offs[:16]...), offs[112:128]...), offs[len(offs)-32:]...) // first 8, last 8, 16 more at either end, 32 random
	}
	nByteReader, nWithData := 0, 0
	guardSub := "fault/" + rc.op.name
	for _, k := range offs {
		for _, e := range []error{io.EOF, errSentinel} {
			if e == io.EOF && rc.op.toEOF {
				continue
			}
			// how the k bytes and the failure are delivered: by a plain reader in one piece and one byte at a time; by a
			// source that is an io.ByteReader too; and with the failure returned by the very Read that hands out the last
			// byte (n > 0 together with the error, as a socket or a cipher/zlib reader may do)
			small := []int{1}
			if len(rc.input) > 20000 {
				small = []int{4096} // one byte at a time would take minutes here
			}
			deliveries := []faultDelivery{{"", []int{1 << 30}}, {"", small}}
			if len(rc.input) > 20000 {
				deliveries = append(deliveries, faultDelivery{"", []int{65536, 1000}})
			}
			// (the added deliveries cost one pass over the k bytes each: the one-byte plan above is quadratic in the item's length already)
			if k%2 == 0 {
				deliveries = append(deliveries, faultDelivery{"byte-reader", []int{1 << 30}})
			} else {
				deliveries = append(deliveries, faultDelivery{"byte-reader", []int{7}})
			}
			if k > 0 {
				// all k bytes and the failure from one Read; k-1 bytes, then the last byte and the failure
				deliveries = append(deliveries, faultDelivery{"error-with-last-data", []int{1 << 30}}, faultDelivery{"error-with-last-data", []int{max(1, k-1), 1}})
			}
			for _, d := range deliveries {
				src := d.source(in[:k], e)
				var err error
				wit := func() any { // built only when something is reported: this loop runs millions of times
					ex := map[string]any{"stream_fails_after_bytes": k, "failure": e.Error(), "read_plan": d.plan}
					if d.how != "" {
						ex["delivery"] = d.how
					}
					return rc.wit(ex)
				}
				if c.Guard(guardSub, wit, func() { _, _, err = rc.op.run(src) }) {
					return
				}
				if err == nil {
					sig := "fault/" + rc.op.name + "/read-failure-swallowed"
					if d.how != "" {
						sig += "/" + d.how
					}
					c.Violation(sig, fmt.Sprintf("the stream ends/fails after %d of the item's %d bytes (%v) and the operation reports success", k, bConsumed, e), wit())
					return
				}
				switch d.how {
				case "byte-reader":
					nByteReader++
				case "error-with-last-data":
					nWithData++
				}
			}
		}
	}
	c.CoverN("fault.read-offsets-run", int64(len(offs)))
	c.CoverN("fault.read.from-byte-reader", int64(nByteReader))
	c.CoverN("fault.read.error-with-last-data", int64(nWithData))
	c.Cover("fault.read." + rc.op.name)
}

type faultDelivery struct {
	how  string // "" (a plain io.Reader that returns the failure after the data), "byte-reader", "error-with-last-data"
	plan []int
}

func (d faultDelivery) source(b []byte, e error) io.Reader {
	switch d.how {
	case "byte-reader":
		return &inject.ChunkByteReader{ChunkReader: inject.ChunkReader{B: b, Plan: d.plan, Err: e}}
	case "error-with-last-data":
		return &tailErrReader{B: b, Plan: d.plan, Err: e}
	}
	return &inject.ChunkReader{B: b, Plan: d.plan, Err: e}
}

// tailErrReader delivers B in reads of the sizes in Plan (cycled). The Read that hands out the last byte returns Err
// together with it (n > 0 and a non-nil error from one call, which io.Reader allows); every later Read returns (0, Err).
type tailErrReader struct {
	B    []byte
	Pos  int
	Plan []int
	i    int
	Err  error
}

func (t *tailErrReader) Read(p []byte) (int, error) {
	if len(p) == 0 {
		return 0, nil
	}
	if t.Pos >= len(t.B) {
		return 0, t.Err
	}
	k := 1
	if len(t.Plan) > 0 {
		k = max(1, t.Plan[t.i%len(t.Plan)])
		t.i++
	}
	k = min(k, len(p))
	n := copy(p[:k], t.B[t.Pos:])
	t.Pos += n
	if t.Pos == len(t.B) {
		return n, t.Err
	}
	return n, nil
}

func faultOffsets(r *vm.Rand, n int) []int {
	var offs []int
	if n <= 400 {
		for k := 0; k < n; k++ {
			offs = append(offs, k)
		}
		return offs
	}
	for k := 0; k < 64; k++ {
		offs = append(offs, k, n-1-k)
	}
	for i := 0; i < 150; i++ {
		offs = append(offs, r.Intn(n))
	}
	return offs
}

func short(s string) string {
	if len(s) > 200 {
		return s[:200] + "..."
	}
	return s
}

// ---- writer side

type wcase struct {
	name string
	note string
	run  func(w io.Writer) error
	// lenient: whether this value can be written at all is another property's question (the text form of a generated
	// document): when the healthy writer already gets an error the case is left out
	lenient bool
}

func checkWrite(c *vm.Ctx, r *vm.Rand, wc *wcase) {
	var full bytes.Buffer
	var err error
	wit := func(extra map[string]any) any {
		m := map[string]any{"operation": wc.name, "total_bytes": full.Len(), "healthy_output": vm.Hex(full.Bytes()[:min(full.Len(), 200)])}
		if wc.note != "" {
			m["fields"] = wc.note
		}
		for k, v := range extra {
			m[k] = v
		}
		return m
	}
	if c.Guard("write/"+wc.name, func() any { return wit(nil) }, func() { err = wc.run(&full) }) {
		return
	}
	if err != nil {
		if wc.lenient {
			c.Cover("write.left-out-not-encodable." + wc.name)
			return
		}
		c.Violation("write/"+wc.name+"/error-on-healthy-writer", err.Error(), wit(nil))
		return
	}
	c.Eval(vm.Hash64([]byte(wc.name), full.Bytes()[:min(full.Len(), 64)], []byte(fmt.Sprint(full.Len()))), full.Len() > 1)
	offs := faultOffsets(r, full.Len())
	for _, k := range offs {
		fw := &inject.FaultWriter{K: k}
		ex := map[string]any{"writer_fails_after_bytes": k}
		if c.Guard("write/"+wc.name, func() any { return wit(ex) }, func() { err = wc.run(fw) }) {
			return
		}
		if err == nil {
			c.Violation("fault/"+wc.name+"/write-failure-swallowed", fmt.Sprintf("the writer failed after accepting %d of %d bytes and the operation reports success", k, full.Len()), wit(ex))
			return
		}
		if !bytes.Equal(fw.Got, full.Bytes()[:len(fw.Got)]) {
			c.Violation("fault/"+wc.name+"/different-bytes-before-failure", "the bytes written before the failure differ from the healthy run", wit(ex))
			return
		}
	}
	c.CoverN("fault.write-offsets-run", int64(len(offs)))
	c.Cover("fault.write." + wc.name)
}

// ---- operations

type rconConn struct {
	r io.Reader
	w io.Writer
}

func (m *rconConn) Read(p []byte) (int, error)       { return m.r.Read(p) }
func (m *rconConn) Write(p []byte) (int, error)      { return m.w.Write(p) }
func (m *rconConn) Close() error                     { return nil }
func (m *rconConn) LocalAddr() net.Addr              { return nil }
func (m *rconConn) RemoteAddr() net.Addr             { return nil }
func (m *rconConn) SetDeadline(time.Time) error      { return nil }
func (m *rconConn) SetReadDeadline(time.Time) error  { return nil }
func (m *rconConn) SetWriteDeadline(time.Time) error { return nil }

func fieldOp[T any, PT interface {
	*T
	pk.FieldDecoder
}](name string) rop {
	return rop{name: name, run: func(r io.Reader) (string, int64, error) {
		v := new(T)
		n, err := PT(v).ReadFrom(r)
		if err != nil {
			return "", n, err // the value is compared on success only: no need to render it (256-byte signatures at every failure offset)
		}
		return fmt.Sprintf("%v", *v), n, nil
	}}
}

func enc(f pk.FieldEncoder) []byte {
	var b bytes.Buffer
	f.WriteTo(&b)
	return b.Bytes()
}

type nbtTyped struct {
	A int32    `nbt:"a"`
	B string   `nbt:"b"`
	C []int64  `nbt:"c"`
	D []byte   `nbt:"d"`
	E []string `nbt:"e"`
	F struct {
		G float64 `nbt:"g"`
		H int16   `nbt:"h"`
	} `nbt:"f"`
}

func nbtDecodeOp(name string, network bool, mk func() any, render func(any) string) rop {
	return rop{name: name, run: func(r io.Reader) (string, int64, error) {
		d := nbt.NewDecoder(r)
		d.NetworkFormat(network)
		v := mk()
		_, err := d.Decode(v)
		if err != nil {
			return "", -1, err
		}
		return render(v), -1, nil
	}}
}

func genCases(c *vm.Ctx, r *vm.Rand, g *nbtgen.G) ([]*rcase, []*wcase) {
	var rcs []*rcase
	var wcs []*wcase
	// frames
	for _, th := range []int{-1, 0, 64} {
		th := th
		size := []int{0, 1, 5, 63, 64, 65, 300}[r.Intn(7)]
		p := pk.Packet{ID: int32(r.Intn(300)), Data: r.Bytes(size)}
		if r.Bool() {
			for i := range p.Data {
				p.Data[i] = byte(i % 3)
			}
		}
		var b bytes.Buffer
		p.Pack(&b, th)
		rcs = append(rcs, &rcase{op: rop{name: fmt.Sprintf("Packet.UnPack(threshold=%d)", th), run: func(rd io.Reader) (string, int64, error) {
			var q pk.Packet
			err := q.UnPack(rd, th)
			return fmt.Sprintf("%d:%x", q.ID, q.Data), -1, err
		}}, input: b.Bytes()})
		rcs = append(rcs, &rcase{op: rop{name: fmt.Sprintf("Conn.ReadPacket(threshold=%d)", th), run: func(rd io.Reader) (string, int64, error) {
			conn := mcnet.WrapConn(&rconConn{r: rd, w: io.Discard})
			conn.SetThreshold(th)
			var q pk.Packet
			err := conn.ReadPacket(&q)
			return fmt.Sprintf("%d:%x", q.ID, q.Data), -1, err
		}}, input: b.Bytes()})
		pp := p
		wcs = append(wcs, &wcase{name: fmt.Sprintf("Packet.Pack(threshold=%d)", th), run: func(w io.Writer) error { q := pp; return q.Pack(w, th) }})
	}
	// NBT documents into every kind of target
	tree := g.Doc(0)
	network := r.Bool()
	doc := refnbt.Encode(tree, "nm", network)
	anyRender := func(v any) string { return fmt.Sprintf("%#v", *(v.(*any))) }
	rcs = append(rcs,
		&rcase{op: nbtDecodeOp("nbt.Decode(any)", network, func() any { return new(any) }, anyRender), input: doc},
		&rcase{op: nbtDecodeOp("nbt.Decode(RawMessage)", network, func() any { return new(nbt.RawMessage) }, func(v any) string { m := v.(*nbt.RawMessage); return fmt.Sprintf("%d:%x", m.Type, m.Data) }), input: doc},
		&rcase{op: nbtDecodeOp("nbt.Decode(StringifiedMessage)", network, func() any { return new(nbt.StringifiedMessage) }, func(v any) string { return string(*(v.(*nbt.StringifiedMessage))) }), input: doc},
		&rcase{op: nbtDecodeOp("nbt.Decode(dynbt.Value)", network, func() any { return new(dynbt.Value) }, func(v any) string {
			var b bytes.Buffer
			nbt.NewEncoder(&b).Encode(v.(*dynbt.Value), "")
			return fmt.Sprintf("%x", b.Bytes())
		}), input: doc},
	)
	// typed struct document (all tags incl. arrays and nested compound)
	tv := nbtTyped{A: int32(r.Int64B()), B: g.Str(), C: []int64{r.Int64B(), 2}, D: r.Bytes(r.Intn(6)), E: []string{"x", g.Str()}}
	if len(tv.B) > 300 {
		tv.B = tv.B[:300]
	}
	tv.F.G, tv.F.H = float64(r.Intn(1000))/8, int16(r.Int64B())
	var tb bytes.Buffer
	te := nbt.NewEncoder(&tb)
	te.NetworkFormat(network)
	te.Encode(tv, "t")
	rcs = append(rcs, &rcase{op: nbtDecodeOp("nbt.Decode(struct)", network, func() any { return new(nbtTyped) }, func(v any) string { return fmt.Sprintf("%+v", *(v.(*nbtTyped))) }), input: tb.Bytes()})
	wcs = append(wcs, &wcase{name: "nbt.Encoder.Encode(struct)", run: func(w io.Writer) error { e := nbt.NewEncoder(w); e.NetworkFormat(network); return e.Encode(tv, "t") }})
	// a map-free any value for the encoder (all tag kinds)
	av := []any{map[string]any{"b": int8(1), "s": int16(2), "i": int32(3), "l": int64(4), "f": float32(1.5), "d": 2.5, "str": "x", "ba": []byte{1, 2}, "ia": []int32{1}, "la": []int64{2}, "li": []any{"a", "b"}}}[0]
	wcs = append(wcs, &wcase{name: "nbt.Encoder.Encode(single-key maps)", run: func(w io.Writer) error {
		for _, k := range []string{"b", "s", "i", "l", "f", "d", "str", "ba", "ia", "la", "li"} { // fixed order
			v := av.(map[string]any)[k]
			if err := nbt.NewEncoder(w).Encode(map[string]any{k: v}, ""); err != nil {
				return err
			}
		}
		return nil
	}})
	// fixed-size and variable wire fields
	var u pk.UUID
	r.Fill(u[:])
	var sg sign.Signature
	r.Fill(sg[:])
	fbs := pk.NewFixedBitSet(int64(r.Range(1, 70)))
	r.Fill(fbs)
	nbits := int64(len(fbs) * 8)
	str := pk.String(g.Str())
	if len(str) > 300 {
		str = str[:300]
	}
	rcs = append(rcs,
		&rcase{op: fieldOp[pk.Short]("Short"), input: enc(pk.Short(r.Int64B()))},
		&rcase{op: fieldOp[pk.UnsignedShort]("UnsignedShort"), input: enc(pk.UnsignedShort(r.Int64B()))},
		&rcase{op: fieldOp[pk.Int]("Int"), input: enc(pk.Int(r.Int64B()))},
		&rcase{op: fieldOp[pk.Long]("Long"), input: enc(pk.Long(r.Int64B()))},
		&rcase{op: fieldOp[pk.Float]("Float"), input: enc(pk.Float(float32(r.Intn(1000)) / 8))},
		&rcase{op: fieldOp[pk.Double]("Double"), input: enc(pk.Double(float64(r.Intn(1000)) / 8))},
		&rcase{op: fieldOp[pk.UUID]("UUID"), input: enc(u)},
		&rcase{op: fieldOp[pk.Position]("Position"), input: enc(pk.Position{X: r.Intn(1000) - 500, Y: r.Intn(300) - 64, Z: r.Intn(1000) - 500})},
		&rcase{op: fieldOp[sign.Signature]("sign.Signature"), input: enc(sg)},
		&rcase{op: fieldOp[pk.VarInt]("VarInt"), input: enc(pk.VarInt(r.Int64B()))},
		&rcase{op: fieldOp[pk.VarLong]("VarLong"), input: enc(pk.VarLong(r.Int64B()))},
		&rcase{op: fieldOp[pk.String]("String"), input: enc(str)},
		&rcase{op: fieldOp[pk.ByteArray]("ByteArray"), input: enc(pk.ByteArray(r.Bytes(r.Intn(40))))},
		&rcase{op: fieldOp[pk.BitSet]("BitSet"), input: enc(pk.BitSet{r.Int64B(), r.Int64B()})},
		&rcase{op: rop{name: "FixedBitSet", run: func(rd io.Reader) (string, int64, error) {
			f := pk.NewFixedBitSet(nbits)
			n, err := f.ReadFrom(rd)
			return fmt.Sprintf("%x", []byte(f)), n, err
		}}, input: enc(fbs)},
		&rcase{op: rop{name: "Ary[VarInt]ofLong", run: func(rd io.Reader) (string, int64, error) {
			var v []pk.Long
			n, err := pk.Array(&v).ReadFrom(rd)
			return fmt.Sprint(v), n, err
		}}, input: enc(pk.Array([]pk.Long{1, pk.Long(r.Int64B()), 3}))},
		&rcase{op: rop{name: "Tuple(Boolean,Option[String],NBT)", run: func(rd io.Reader) (string, int64, error) {
			var b pk.Boolean
			var o pk.Option[pk.String, *pk.String]
			var m map[string]any
			n, err := pk.Tuple{&b, &o, pk.NBT(&m)}.ReadFrom(rd)
			return fmt.Sprint(b, o, m), n, err
		}}, input: enc(pk.Tuple{pk.Boolean(true), pk.Option[pk.String, *pk.String]{Has: true, Val: "opt"}, pk.NBT(map[string]any{"k": int32(7)})})},
	)
	wcs = append(wcs,
		&wcase{name: "Tuple.WriteTo", run: func(w io.Writer) error {
			_, err := pk.Tuple{pk.Long(1), pk.String("abcdef"), pk.Array([]pk.VarInt{1, 2, 300}), pk.ByteArray{1, 2, 3}, u, pk.BitSet{1, 2}, pk.NBT(tv)}.WriteTo(w)
			return err
		}},
	)
	// every field encoder on its own and in a random tuple, with empty values likely: an encoder that writes a
	// length prefix and then an empty payload must still report the failure of the prefix write
	small := func() int {
		if r.Intn(3) == 0 {
			return 0
		}
		return r.Intn(6)
	}
	menu := []struct {
		name string
		f    pk.FieldEncoder
	}{
		{"Boolean", pk.Boolean(r.Bool())}, {"Byte", pk.Byte(r.Intn(256))}, {"UnsignedShort", pk.UnsignedShort(r.Intn(65536))}, {"Int", pk.Int(r.Uint32())},
		{"Float", pk.Float(1.5)}, {"Double", pk.Double(-2.25)}, {"Angle", pk.Angle(r.Intn(256))}, {"Position", pk.Position{X: r.Intn(100), Y: r.Intn(100), Z: -r.Intn(100)}},
		{"VarInt", pk.VarInt(r.Uint32() >> uint(r.Intn(32)))}, {"VarLong", pk.VarLong(r.Uint64() >> uint(r.Intn(64)))},
		{"String", pk.String(strings.Repeat("s", small()))}, {"Identifier", pk.Identifier(strings.Repeat("i", small()))},
		{"ByteArray", pk.ByteArray(r.Bytes(small()))}, {"PluginMessageData", pk.PluginMessageData(r.Bytes(1 + small()))},
		{"BitSet", pk.BitSet(make([]int64, small()))}, {"FixedBitSet", pk.NewFixedBitSet(int64(8 * (1 + small())))},
		{"UUID", pk.UUID{1, 2, 3}}, {"Ary[VarInt]", pk.Array(make([]pk.VarInt, small()))}, {"Ary[ByteArray]", pk.Array(make([]pk.ByteArray, small()))},
		{"Option.absent", pk.Option[pk.ByteArray, *pk.ByteArray]{Has: false}}, {"Option.present", pk.Option[pk.ByteArray, *pk.ByteArray]{Has: true, Val: r.Bytes(small())}},
		{"OptionEncoder", pk.OptionEncoder[pk.String]{Has: true, Val: pk.String(strings.Repeat("o", small()))}},
		{"Opt", pk.Opt{Has: func() bool { return true }, Field: pk.ByteArray(r.Bytes(small()))}},
		{"NBT", pk.NBT(map[string]any{})}, {"NBTField", pk.NBTField{V: tv}},
	}
	for _, m := range menu {
		m := m
		wcs = append(wcs, &wcase{name: "field." + m.name + ".WriteTo", run: func(w io.Writer) error { _, err := m.f.WriteTo(w); return err }})
	}
	var tup pk.Tuple
	tupName := ""
	for k := r.Range(2, 6); k > 0; k-- {
		m := menu[r.Intn(len(menu))]
		tup = append(tup, m.f)
		tupName += m.name + ","
	}
	wcs = append(wcs, &wcase{name: "Tuple.WriteTo", note: tupName, run: func(w io.Writer) error { _, err := tup.WriteTo(w); return err }})
	// RCON
	payload := r.Bytes(r.Intn(60))
	frame := binary.LittleEndian.AppendUint32(nil, uint32(10+len(payload)))
	frame = binary.LittleEndian.AppendUint32(frame, 7)
	frame = binary.LittleEndian.AppendUint32(frame, 2)
	frame = append(append(frame, payload...), 0, 0)
	rcs = append(rcs, &rcase{op: rop{name: "RCONConn.ReadPacket", run: func(rd io.Reader) (string, int64, error) {
		conn := &mcnet.RCONConn{Conn: &rconConn{r: rd, w: io.Discard}}
		id, ty, p, err := conn.ReadPacket()
		return fmt.Sprintf("%d/%d/%x", id, ty, p), -1, err
	}}, input: frame})
	wcs = append(wcs, &wcase{name: "RCONConn.WritePacket", run: func(w io.Writer) error {
		conn := &mcnet.RCONConn{Conn: &rconConn{r: bytes.NewReader(nil), w: w}}
		return conn.WritePacket(7, 2, string(payload))
	}})
	return rcs, wcs
}

// bigCases: items whose payload is larger than the first step of the readers that grow their buffers as data
// arrives (64 KiB): the later steps must treat short reads and early ends like the first one does.
func bigCases(r *vm.Rand) []*rcase {
	var rcs []*rcase
	for _, n := range []int{65537, 70000, 140001} {
		payload := r.Bytes(n)
		type holder struct {
			A int32  `nbt:"a"`
			D []byte `nbt:"d"`
			S []int8 `nbt:"s"`
			Z string `nbt:"z"`
		}
		tree := &refnbt.Value{Tag: refnbt.Compound, Comp: []refnbt.Entry{{Name: "a", V: refnbt.In(7)}, {Name: "d", V: &refnbt.Value{Tag: refnbt.ByteArray, Bytes: payload}},
			{Name: "s", V: &refnbt.Value{Tag: refnbt.ByteArray, Bytes: payload[:n/2+1]}}, {Name: "z", V: refnbt.St("after")}}}
		doc := refnbt.Encode(tree, "", true)
		sum := func(b []byte) string { return fmt.Sprintf("%d bytes, fnv %016x", len(b), vm.Hash64(b)) }
		rcs = append(rcs,
			&rcase{op: nbtDecodeOp(fmt.Sprintf("nbt.Decode(struct with %d-byte arrays)", n), true, func() any { return new(holder) }, func(v any) string {
				h := v.(*holder)
				s8 := make([]byte, len(h.S))
				for i, x := range h.S {
					s8[i] = byte(x)
				}
				return fmt.Sprint(h.A, sum(h.D), sum(s8), h.Z)
			}), input: doc},
			&rcase{op: nbtDecodeOp(fmt.Sprintf("nbt.Decode(any, %d-byte arrays)", n), true, func() any { return new(any) }, func(v any) string {
				m, _ := (*(v.(*any))).(map[string]any)
				d, _ := m["d"].([]byte)
				return fmt.Sprint(m["a"], sum(d), m["z"])
			}), input: doc},
			&rcase{op: rop{name: fmt.Sprintf("ByteArray(%d)", n), run: func(rd io.Reader) (string, int64, error) {
				var v pk.ByteArray
				k, err := v.ReadFrom(rd)
				return sum(v), k, err
			}}, input: enc(pk.ByteArray(payload))},
			&rcase{op: rop{name: fmt.Sprintf("String(%d)", n), run: func(rd io.Reader) (string, int64, error) {
				var v pk.String
				k, err := v.ReadFrom(rd)
				return sum([]byte(v)), k, err
			}}, input: enc(pk.String(strings.Repeat("s", n)))},
		)
	}
	// frames whose length prefix takes three bytes, plain and through the compression layer (incompressible and
	// compressible content), by Packet.UnPack and by a Conn
	for _, fc := range []struct {
		n, th int
		fill  bool
	}{{70000, -1, false}, {70000, 256, false}, {150000, 256, true}, {20000, 0, true}} {
		fc := fc
		p := pk.Packet{ID: int32(r.Intn(300)), Data: r.Bytes(fc.n)}
		if fc.fill {
			for i := range p.Data {
				p.Data[i] = byte(i % 5)
			}
		}
		var b bytes.Buffer
		p.Pack(&b, fc.th)
		in := append(b.Bytes(), 0x05, 0x01, 0x02) // something follows the frame
		sum := func(q pk.Packet) string {
			return fmt.Sprintf("%d: %d bytes, fnv %016x", q.ID, len(q.Data), vm.Hash64(q.Data))
		}
		rcs = append(rcs,
			&rcase{op: rop{name: fmt.Sprintf("Packet.UnPack(%d bytes, threshold=%d)", fc.n, fc.th), run: func(rd io.Reader) (string, int64, error) {
				var q pk.Packet
				err := q.UnPack(rd, fc.th)
				return sum(q), -1, err
			}}, input: in},
			&rcase{op: rop{name: fmt.Sprintf("Conn.ReadPacket(%d bytes, threshold=%d)", fc.n, fc.th), run: func(rd io.Reader) (string, int64, error) {
				conn := mcnet.WrapConn(&rconConn{r: rd, w: io.Discard})
				conn.SetThreshold(fc.th)
				var q pk.Packet
				err := conn.ReadPacket(&q)
				return sum(q), -1, err
			}}, input: in},
		)
	}
	return rcs
}

// endsEarly: the failure clause for items that announce more than any generated item holds. A stream that ends
// (or fails) while an announced array, list or string is still outstanding is an early end like any other, however
// large the announcement - 2^28..2^31-1 elements cannot be produced by cutting a generated document short. Every NBT
// target and the packet fields that carry a length get the announcement followed by 0..100 bytes, in one piece and
// one byte at a time; the only acceptable outcome is an error.
func endsEarly(c *vm.Ctx, r *vm.Rand) {
	type tgt struct {
		name string
		run  func(rd io.Reader, network bool) error
	}
	nbtInto := func(mk func() any) func(io.Reader, bool) error {
		return func(rd io.Reader, network bool) error {
			d := nbt.NewDecoder(rd)
			d.NetworkFormat(network)
			_, err := d.Decode(mk())
			return err
		}
	}
	type holder struct {
		V any `nbt:"v"`
	}
	type typedL struct {
		V []int64 `nbt:"v"`
	}
	type typedU struct {
		V []uint64 `nbt:"v"`
	}
	type typedI struct {
		V []int32 `nbt:"v"`
	}
	type typedB struct {
		V []byte `nbt:"v"`
	}
	type skip struct {
		Other int32 `nbt:"other"`
	}
	targets := []tgt{
		{"any", nbtInto(func() any { return new(any) })},
		{"struct{any}", nbtInto(func() any { return new(holder) })},
		{"struct{[]int64}", nbtInto(func() any { return new(typedL) })},
		{"struct{[]uint64}", nbtInto(func() any { return new(typedU) })},
		{"struct{[]int32}", nbtInto(func() any { return new(typedI) })},
		{"struct{[]byte}", nbtInto(func() any { return new(typedB) })},
		{"struct(unknown field skipped)", nbtInto(func() any { return new(skip) })},
		{"RawMessage", nbtInto(func() any { return new(nbt.RawMessage) })},
		{"StringifiedMessage", nbtInto(func() any { return new(nbt.StringifiedMessage) })},
		{"dynbt.Value", nbtInto(func() any { return new(dynbt.Value) })},
		{"pk.NBT(dynbt.Value)", func(rd io.Reader, _ bool) error { var v dynbt.Value; _, err := pk.NBT(&v).ReadFrom(rd); return err }},
	}
	be := func(n uint32) []byte { return []byte{byte(n >> 24), byte(n >> 16), byte(n >> 8), byte(n)} }
	for _, count := range []uint32{1 << 27, 1 << 28, 1 << 29, 1<<29 + 1, 1 << 30, 1<<30 + 3, 1<<31 - 1} {
		for _, tag := range []byte{refnbt.ByteArray, refnbt.IntArray, refnbt.LongArray} {
			for _, extra := range []int{0, 1, 7, 8, 12, 16, 24, 100} {
				for _, shape := range []string{"root", "member", "nested-member"} {
					nested := shape == "nested-member"
					for _, tg := range targets {
						network := tg.name == "pk.NBT(dynbt.Value)" || r.Bool()
						// the array itself as the document, or {v: array}, or {w: {v: array}}; the stream holds `extra` bytes of
						// the payload and then, for the member shapes, the TAG_End bytes that would close the compounds - a reader
						// that gets the payload size wrong finds a complete document there
						var doc []byte
						if shape == "root" {
							doc = append(doc, tag)
							if !network {
								doc = append(doc, 0, 0)
							}
						} else {
							doc = append(doc, refnbt.Compound)
							if !network {
								doc = append(doc, 0, 0)
							}
							if nested {
								doc = append(doc, refnbt.Compound, 0, 1, 'w')
							}
							doc = append(doc, tag, 0, 1, 'v')
						}
						doc = append(doc, be(count)...)
						doc = append(doc, r.Bytes(extra)...)
						switch shape {
						case "member":
							doc = append(doc, 0)
						case "nested-member":
							doc = append(doc, 0, 0)
						}
						typedTarget := strings.HasPrefix(tg.name, "struct{")
						if typedTarget && shape != "member" {
							continue // the typed receivers expect v at the top of a compound
						}
						if tg.name == "struct(unknown field skipped)" && shape == "root" {
							continue
						}
						for _, how := range []string{"contiguous", "byte-at-a-time", "ends-with-error"} {
							wit := func() any {
								return map[string]any{"target": tg.name, "array_tag": refnbt.TagName(tag), "announced_elements": count, "payload_bytes_present": extra, "shape": shape, "network": network, "delivery": how, "stream_hex": vm.Hex(doc)}
							}
							var rd io.Reader = bytes.NewReader(doc)
							switch how {
							case "byte-at-a-time":
								rd = &inject.ChunkReader{B: doc, Plan: []int{1}}
							case "ends-with-error":
								rd = io.MultiReader(bytes.NewReader(doc), errReader{})
							}
							var err error
							if c.Guard("ends-early/"+tg.name, wit, func() { err = tg.run(rd, network) }) {
								continue
							}
							c.Eval(vm.HashStr("ends-early", tg.name, how, fmt.Sprint(count, tag, extra, shape, network)), true)
							if err == nil {
								c.Violation("ends-early/success/"+tg.name+"/"+refnbt.TagName(tag), fmt.Sprintf("%s: the stream ended %d bytes into an array announcing %d elements and the decode reported success", tg.name, extra, count), wit())
								continue
							}
							c.Cover("ends-early.error." + tg.name)
						}
					}
				}
			}
		}
	}
}

type errReader struct{}

func (errReader) Read([]byte) (int, error) { return 0, errors.New("injected read failure") }

func run(c *vm.Ctx) {
	if c.Shard == 2%c.NShards {
		endsEarly(c, c.Rand("ends-early"))
	}
	if c.Shard == 1%c.NShards {
		for _, rc := range bigCases(c.Rand("big")) {
			checkRead(c, c.Rand("big-plans"), rc)
		}
	}
	for i, rc := range bigCases2(c.Rand("big2")) {
		if c.Shard == (3+i)%c.NShards { // one or two per shard
			checkRead(c, c.Rand("big-plans"), rc)
		}
	}
	if c.Shard == 0 {
		br := c.Rand("botconn")
		for i := 0; i < c.Scale(40, 400); i++ {
			botConnWriteFailure(c, br)
		}
	}
	if c.Shard == 4%c.NShards {
		br := c.Rand("botconn-read")
		for i := 0; i < c.Scale(160, 1600); i++ {
			botConnReadFailure(c, br)
		}
	}
	// from here on: millions of short runs that each allocate a little and keep nothing - collect less often
	debug.SetGCPercent(400)
	r := c.Rand("cases")
	cfg := nbtgen.Default()
	cfg.MaxNodes = 25
	cfg.MaxArray = 12
	cfg.LongString = false
	g := nbtgen.New(r, cfg)
	for i := 0; i < c.Scale(800, 12000); i++ {
		rcs, wcs := genCases(c, r, g)
		rcs2, wcs2 := moreCases(c, r, g, i)
		rcs, wcs = append(rcs, rcs2...), append(wcs, wcs2...)
		rcs = append(rcs, typedRootCases(r, g, 3)...)
		rcs = append(rcs, unknownMemberCases(r, g)...)
		if i%2 == 0 {
			rcs = append(rcs, signCases(r)...)
		}
		rcs = append(rcs, usedByteArrayCase(r))
		checkScan(c, r)
		for _, rc := range rcs {
			checkRead(c, r, rc)
		}
		for _, wc := range wcs {
			checkWrite(c, r, wc)
		}
		if i == 0 {
			c.Sample("case", map[string]any{"operation": rcs[0].op.name, "input_hex": vm.Hex(rcs[0].input)})
		}
	}
}
