// Monitor C12, second part: wire forms that are legal but not the smallest (other declared widths, palettes with unused or
// repeated entries, VarInts in longer forms), sources of other kinds, receivers whose last read failed, containers advanced
// in turns, from inside Write/Read of another container's call, and from several goroutines.
package main

import (
	"bytes"
	"encoding/binary"
	"fmt"
	"io"
	"sync"

	"verif/inject"
	"verif/ref/refwire"
	"verif/vm"
)

// makeSource wraps wire (followed by `trailer` bytes that do not belong to it) into one of the readers a caller may hold.
func makeSource(r *vm.Rand, wire []byte) (rd io.Reader, left func() int, trailer int, kind string) {
	withTrailer := append(append([]byte{}, wire...), 0xde, 0xad, 0x00)
	plan := func() []int {
		p := make([]int, r.Range(1, 6))
		for i := range p {
			p[i] = r.Range(1, 13)
		}
		return p
	}
	switch r.Intn(12) {
	case 0:
		s := &inject.ChunkReader{B: withTrailer, Plan: []int{1}}
		return s, func() int { return len(s.Rest()) }, 3, "reader-without-ReadByte.one-byte-per-Read"
	case 1:
		s := &inject.ChunkReader{B: withTrailer, Plan: plan()}
		return s, func() int { return len(s.Rest()) }, 3, "reader-without-ReadByte.short-reads"
	case 2:
		s := &inject.ChunkByteReader{ChunkReader: inject.ChunkReader{B: withTrailer, Plan: plan()}}
		return s, func() int { return len(s.Rest()) }, 3, "reader-with-ReadByte.short-reads"
	case 3:
		s := &inject.QuirkReader{B: withTrailer, Stutter: true}
		return s, func() int { return len(s.B) - s.Pos }, 3, "reader-returning-0-nil-every-other-call"
	case 4:
		s := &inject.QuirkReader{B: append([]byte{}, wire...), DataEOF: true}
		return s, func() int { return len(s.B) - s.Pos }, 0, "reader-delivering-the-end-with-EOF"
	}
	s := bytes.NewReader(withTrailer)
	return s, s.Len, 3, "bytes.Reader"
}

// encVI encodes a VarInt; with pad, now and then in a longer than minimal form (continuation bit on the last byte, then
// 0x80.. 0x00), which the protocol's readers accept.
func encVI(r *vm.Rand, v int, pad bool, padded *int) []byte {
	enc := refwire.EncVarInt(int32(v))
	if pad && len(enc) < 5 && r.Intn(3) == 0 {
		extra := r.Range(1, 5-len(enc))
		enc[len(enc)-1] |= 0x80
		for i := 1; i < extra; i++ {
			enc = append(enc, 0x80)
		}
		enc = append(enc, 0x00)
		*padded++
	}
	return enc
}

// unusual describes one legal wire form of a container that is not the smallest one.
type unusual struct {
	declared   int
	width      int
	form       string
	palette    []int
	unused     int // palette entries no position refers to
	duplicates int // palette entries repeating an earlier one
	padded     int // VarInts written in a longer form
	classes    []string
}

// encUnusual encodes vals in a form the game's reader accepts but no writer needs to choose: a declared width the reader
// maps to another one (blocks 1..3 -> 4 bits; anything above the indirect range -> registry-wide direct ids), an indirect
// palette wider than the number of values needs (also for one value), palette entries in any order with unused and repeated
// ones among them, and VarInts in longer forms.
func encUnusual(r *vm.Rand, vals []int, k *kind) ([]byte, *unusual) {
	var pal []int
	seen := map[int]bool{}
	for _, v := range vals {
		if !seen[v] {
			seen[v] = true
			pal = append(pal, v)
		}
	}
	u := &unusual{}
	maxIndirect := 3
	if k.pk.Blocks {
		maxIndirect = 8
	}
	direct := func() {
		if k.pk.Blocks {
			u.declared = []int{9, 10, 14, 15, 16, 31, 32, 64, 255}[r.Intn(9)]
		} else {
			u.declared = []int{4, 5, 6, 7, 8, 15, 64, 255}[r.Intn(8)]
		}
	}
	need := 0
	for 1<<uint(need) < len(pal) {
		need++
	}
	switch {
	case need > maxIndirect || r.Intn(4) == 0:
		direct()
	default:
		// any declared width of the indirect range whose storage width can index the palette
		var ok []int
		for d := 1; d <= maxIndirect; d++ {
			if w, _ := k.pk.StorageBits(d); 1<<uint(w) >= len(pal) {
				ok = append(ok, d)
			}
		}
		u.declared = ok[r.Intn(len(ok))]
	}
	u.width, u.form = k.pk.StorageBits(u.declared)
	pad := r.Intn(3) == 0
	out := []byte{byte(u.declared)}
	idx := make([]int, len(vals))
	if u.form == "direct" {
		copy(idx, vals)
		if u.declared != u.width {
			u.classes = append(u.classes, "direct-with-another-declared-width")
		} else {
			u.classes = append(u.classes, "direct-with-the-registry-width")
		}
	} else {
		// palette: the values in random order, unused and repeated entries in between while the width has room
		room := 1<<uint(u.width) - len(pal)
		entries := append([]int{}, pal...)
		for i := len(entries) - 1; i > 0; i-- {
			j := r.Intn(i + 1)
			entries[i], entries[j] = entries[j], entries[i]
		}
		if room > 0 && r.Bool() {
			for n := r.Range(1, min(room, 5)); n > 0; n-- {
				var e int
				if r.Bool() {
					e = pal[r.Intn(len(pal))]
					u.duplicates++
				} else {
					for e = r.Intn(k.pk.RegistrySize); seen[e]; e = r.Intn(k.pk.RegistrySize) {
					}
					seen[e] = true
					u.unused++
				}
				at := r.Intn(len(entries) + 1)
				entries = append(entries[:at], append([]int{e}, entries[at:]...)...)
			}
		}
		where := map[int][]int{}
		for i, e := range entries {
			where[e] = append(where[e], i)
		}
		for i, v := range vals {
			w := where[v]
			idx[i] = w[r.Intn(len(w))]
		}
		u.palette = entries
		out = append(out, encVI(r, len(entries), pad, &u.padded)...)
		for _, e := range entries {
			out = append(out, encVI(r, e, pad, &u.padded)...)
		}
		if k.pk.Blocks && u.declared < 4 {
			u.classes = append(u.classes, "declared-width-below-4")
		}
		if u.width > max(need, map[bool]int{true: 4, false: 1}[k.pk.Blocks]) {
			u.classes = append(u.classes, "indirect-wider-than-needed")
		}
		if len(pal) == 1 {
			u.classes = append(u.classes, "indirect-with-one-value")
		}
		if u.unused > 0 {
			u.classes = append(u.classes, "palette-with-unused-entries")
		}
		if u.duplicates > 0 {
			u.classes = append(u.classes, "palette-with-repeated-entries")
		}
	}
	data := refwire.PackLongs(idx, u.width)
	out = append(out, encVI(r, len(data), pad, &u.padded)...)
	for _, d := range data {
		var t [8]byte
		binary.BigEndian.PutUint64(t[:], d)
		out = append(out, t[:]...)
	}
	if u.padded > 0 {
		u.classes = append(u.classes, "varints-in-longer-forms")
	}
	return out, u
}

// interopUnusual: a container in a legal but unusual wire form is read like any other, and the container that read it
// goes on as an array: new values (across the next representation change), a wire round trip judged by the reference reader.
func interopUnusual(c *vm.Ctx, r *vm.Rand, k *kind) {
	nvals := []int{1, 1, 2, 3, 4, 5, 8, 9, 15, 16, 17, 32, 33, 100, 255, 256, 257, 400}[r.Intn(18)]
	nvals = min(nvals, k.pk.RegistrySize, k.length)
	pool := distinctValues(r, k, nvals)
	model := make([]int, k.length)
	for i := range model {
		model[i] = pool[r.Intn(len(pool))]
	}
	copy(model, pool)
	wire, u := encUnusual(r, model, k)
	h := &hist{k: k}
	h.op(fmt.Sprintf("independently encoded container: declared bits %d (%s, %d-bit data), %d distinct values, palette of %d entries (%d unused, %d repeated), %d VarInts in a longer form; first bytes %s",
		u.declared, u.form, u.width, nvals, len(u.palette), u.unused, u.duplicates, u.padded, vm.Hex(wire[:min(24, len(wire))])))
	if len(u.palette) > 0 && len(u.palette) <= 24 {
		h.op(fmt.Sprintf("palette=%v", u.palette))
	}
	// the encoder above is judged by the reference reader first
	if vals, used, _, err := refwire.ReadPaletted(wire, k.length, k.pk); err != nil || used != len(wire) || !equalInts(vals, model) {
		c.Inconclusive(fmt.Sprintf("C12 interopUnusual: the reference reader does not read the monitor's own encoding (%v)", err))
		return
	}
	c.Eval(vm.Hash64(wire[:min(len(wire), 96)], []byte(k.name), []byte("unusual")), true)
	dst, dstDesc := k.fresh(r.Intn(k.pk.RegistrySize)), "fresh"
	if r.Bool() {
		dst, dstDesc = usedReceiver(c, r, k)
	}
	rd, left, trailer, rkind := makeSource(r, wire)
	h.op("ReadFrom into " + dstDesc + " from " + rkind)
	var n int64
	var err error
	if c.Guard("interop/read/"+k.name, h.wit, func() { n, err = dst.ReadFrom(rd) }) {
		return
	}
	if err != nil || n != int64(len(wire)) || left() != trailer {
		c.Violation("interop/read-unusual-form/"+k.name+"/"+u.form, fmt.Sprintf("reading an independently encoded container (declared bits %d): n=%d (want %d) remaining=%d (want %d) err=%v", u.declared, n, len(wire), left(), trailer, err), h.wit())
		return
	}
	ok := false
	if c.Guard("interop/compare/"+k.name, h.wit, func() { ok = fullCompare(c, dst, model, h, "interop-unusual-form") }) || !ok {
		return
	}
	// the container goes on as an array
	values := append([]int{}, pool...)
	have := map[int]bool{}
	for _, v := range pool {
		have[v] = true
	}
	for _, e := range u.palette {
		have[e] = true // an unused entry is set again below as an "existing" value of the palette
	}
	if c.Guard("interop/history/"+k.name, h.wit, func() {
		for j := 0; j < 40; j++ {
			i := r.Intn(k.length)
			var v int
			switch {
			case j%4 == 3 && len(u.palette) > 0:
				v = u.palette[r.Intn(len(u.palette))]
			case j%2 == 0 && len(have) < k.pk.RegistrySize:
				for v = r.Intn(k.pk.RegistrySize); have[v]; v = r.Intn(k.pk.RegistrySize) {
				}
				have[v] = true
				values = append(values, v)
			default:
				v = values[r.Intn(len(values))]
			}
			h.op(fmt.Sprintf("Set(%d,%d)", i, v))
			dst.Set(i, v)
			model[i] = v
			i2 := r.Intn(k.length)
			if g := dst.Get(i2); g != model[i2] {
				c.Violation("model/get-differs/"+k.name+"/after-unusual-form", fmt.Sprintf("%s: Get(%d)=%d, model %d", k.name, i2, g, model[i2]), h.wit())
				ok = false
				return
			}
		}
		ok = fullCompare(c, dst, model, h, "history-after-unusual-form")
	}) || !ok {
		return
	}
	into, d := k.fresh(r.Intn(k.pk.RegistrySize)), "fresh"
	if r.Bool() {
		into, d = usedReceiver(c, r, k)
	}
	if _, ok := wireRoundTrip(c, r, dst, model, h, into, d); !ok {
		return
	}
	for _, cl := range u.classes {
		c.Cover("interop." + k.name + "." + cl)
	}
	c.Cover("interop." + k.name + ".history-after-unusual-form")
	c.Cover("interop-reader." + rkind)
}

func equalInts(a, b []int) bool {
	if len(a) != len(b) {
		return false
	}
	for i := range a {
		if a[i] != b[i] {
			return false
		}
	}
	return true
}

// failedReadReceiver: a container (fresh or used) whose last ReadFrom ended in an error because the stream was cut - in
// the declared width, inside the palette, or inside the data array. What it holds then is nobody's business; what it
// reads next is.
func failedReadReceiver(c *vm.Ctx, r *vm.Rand, k *kind) (cont, string, bool) {
	o := k.fresh(r.Intn(k.pk.RegistrySize))
	for j := r.Intn(30); j > 0; j-- {
		o.Set(r.Intn(k.length), r.Intn(k.pk.RegistrySize))
	}
	nv := min([]int{1, 2, 5, 20, 300}[r.Intn(5)], k.pk.RegistrySize)
	pool := distinctValues(r, k, nv)
	other := make([]int, k.length)
	for i := range other {
		other[i] = pool[r.Intn(len(pool))]
	}
	wire := refwire.WritePaletted(other, k.pk)
	cut := r.Intn(len(wire))
	switch r.Intn(3) {
	case 0:
		cut = min(len(wire)-1, 1+r.Intn(4)) // inside the palette
	case 1:
		cut = len(wire) - 1 - r.Intn(min(len(wire)-1, 16)) // inside the last longs
	}
	var err error
	if v, _ := vm.Try(func() { _, err = o.ReadFrom(bytes.NewReader(wire[:cut])) }); v != nil || err == nil {
		return nil, "", false // a crash on a cut stream is C08's subject
	}
	return o, "container-whose-last-read-failed", true
}

// job is one container with its model, advanced a few operations at a time by whoever holds it.
type job struct {
	k      *kind
	r      *vm.Rand
	ct     cont
	spare  cont
	model  []int
	values []int
	have   map[int]bool
	h      *hist
	steps  int
	trips  int
	fail   string
	sig    string
}

func (j *job) set(i, v int) {
	if len(j.h.ops) > 400 {
		j.h.ops = append([]string{"...(earlier operations dropped)"}, j.h.ops[200:]...)
	}
	j.h.op(fmt.Sprintf("Set(%d,%d)", i, v))
	j.ct.Set(i, v)
	j.model[i] = v
}

func (j *job) newValue() int {
	for {
		v := j.r.Intn(j.k.pk.RegistrySize)
		if !j.have[v] {
			j.have[v] = true
			j.values = append(j.values, v)
			return v
		}
	}
}

// newJob starts a container and brings it to `start` distinct values (just below one of the representation changes).
func newJob(k *kind, r *vm.Rand, start int) *job {
	def := r.Intn(k.pk.RegistrySize)
	j := &job{k: k, r: r, ct: k.fresh(def), model: make([]int, k.length), values: []int{def}, have: map[int]bool{def: true}, h: &hist{k: k}}
	for i := range j.model {
		j.model[i] = def
	}
	j.h.op(fmt.Sprintf("new(default=%d)", def))
	for len(j.values) < min(start, k.pk.RegistrySize, k.length) {
		j.set(len(j.values), j.newValue())
	}
	return j
}

func (j *job) compare(ct cont, where string) bool {
	for i, want := range j.model {
		if g := ct.Get(i); g != want {
			j.fail = fmt.Sprintf("%s: Get(%d)=%d, model has %d (%s, %d values in use)", j.k.name, i, g, want, where, len(j.values))
			j.sig = "get-differs"
			return false
		}
	}
	return true
}

// step: eight Sets (every other one a value the container has not seen, while there are any), a Get, the whole array
// compared; every third step a wire round trip judged by the reference reader into the container this job used before.
func (j *job) step() {
	if j.fail != "" {
		return
	}
	defer func() {
		if p := recover(); p != nil && j.fail == "" {
			j.fail, j.sig = fmt.Sprint("panic: ", p), "panic"
		}
	}()
	j.steps++
	for q := 0; q < 8; q++ {
		v := j.values[j.r.Intn(len(j.values))]
		if q%2 == 0 && len(j.values) < min(j.k.pk.RegistrySize, 330) {
			v = j.newValue()
		}
		j.set(j.r.Intn(j.k.length), v)
		i := j.r.Intn(j.k.length)
		if g := j.ct.Get(i); g != j.model[i] {
			j.fail, j.sig = fmt.Sprintf("%s: Get(%d)=%d, model has %d (%d values in use)", j.k.name, i, g, j.model[i], len(j.values)), "get-differs"
			return
		}
	}
	if !j.compare(j.ct, "after a step") || j.steps%3 != 0 {
		return
	}
	var buf bytes.Buffer
	j.h.op("WriteTo")
	wn, err := j.ct.WriteTo(&buf)
	if err != nil || wn != int64(buf.Len()) {
		j.fail, j.sig = fmt.Sprintf("WriteTo returned n=%d err=%v, %d bytes produced", wn, err, buf.Len()), "write"
		return
	}
	vals, used, info, rerr := refwire.ReadPaletted(buf.Bytes(), j.k.length, j.k.pk)
	if rerr != nil || used != buf.Len() || !equalInts(vals, j.model) {
		j.fail, j.sig = fmt.Sprintf("the independent reader does not find the model in the wire form (declared bits %d, %s, consumed %d of %d, err=%v)", info.Declared, info.Form, used, buf.Len(), rerr), "wire-form"
		return
	}
	into := j.spare
	if into == nil {
		into = j.k.fresh(j.r.Intn(j.k.pk.RegistrySize))
	}
	j.h.op("ReadFrom into the container this job used before")
	rd := bytes.NewReader(append(buf.Bytes(), 9))
	rn, err := into.ReadFrom(rd)
	if err != nil || rn != int64(buf.Len()) || rd.Len() != 1 {
		j.fail, j.sig = fmt.Sprintf("ReadFrom returned n=%d err=%v and left %d bytes; the container is %d bytes followed by 1", rn, err, rd.Len(), buf.Len()), "read"
		return
	}
	if !j.compare(into, "after a wire round trip") {
		return
	}
	j.spare, j.ct = j.ct, into
	j.trips++
}

func (j *job) wit(scenario string) any {
	m := j.h.wit().(map[string]any)
	m["scenario"] = scenario
	m["steps_of_this_container"] = j.steps
	return m
}

// busyWriter / busyReader run a step of another container's job from inside every 16th Write / Read call.
type busyWriter struct {
	side    *job
	out     []byte
	calls   int
	changed bool
}

func (w *busyWriter) Write(p []byte) (int, error) {
	keep := append([]byte{}, p...)
	if w.calls%16 == 0 {
		w.side.step()
	}
	w.calls++
	if !bytes.Equal(keep, p) {
		w.changed = true
	}
	w.out = append(w.out, keep...)
	return len(p), nil
}

type busyReader struct {
	side  *job
	src   inject.ChunkReader
	calls int
}

func (b *busyReader) Read(p []byte) (int, error) {
	if b.calls%16 == 0 {
		b.side.step()
	}
	b.calls++
	return b.src.Read(p)
}

var startCounts = map[bool][]int{true: {1, 15, 31, 63, 127, 255, 16, 2}, false: {1, 2, 3, 4, 7, 8, 1, 6}}

// sideBySide: containers are values of their own. (1) Eight of them are advanced in turns by one goroutine, (2) one is
// written into a writer and read from a reader whose Write/Read methods advance another one, (3) eight goroutines advance
// one each at the same time. Every container must behave as it does alone.
func sideBySide(c *vm.Ctx, r *vm.Rand, kinds []*kind) {
	mk := func(n int) []*job {
		jobs := make([]*job, n)
		for g := range jobs {
			k := kinds[g%len(kinds)]
			jobs[g] = newJob(k, r.Fork(), startCounts[k.pk.Blocks][r.Intn(8)])
		}
		return jobs
	}
	report := func(jobs []*job, scenario, cover string) bool {
		for _, j := range jobs {
			if j.fail != "" {
				c.Violation("side-by-side/"+cover+"/"+j.k.name+"/"+j.sig, j.fail+" - "+scenario, j.wit(scenario))
				return false
			}
		}
		return true
	}
	// (1) in turns
	rounds := c.Pick(12, 60)
	jobs := mk(8)
	for k := 0; k < rounds; k++ {
		for _, j := range jobs {
			j.step()
		}
	}
	c.EvalN(int64(8*rounds), vm.HashStr("in-turns", fmt.Sprint(c.Shard, c.Seed)), true)
	if !report(jobs, "eight containers advanced in turns by one goroutine", "in-turns") {
		return
	}
	c.Cover("side-by-side.in-turns")
	// (2) from inside Write and Read
	for k := 0; k < c.Pick(6, 30); k++ {
		pair := mk(2)
		a, side := pair[0], pair[1]
		for q := r.Intn(4); q >= 0; q-- {
			a.step()
		}
		scenario := "WriteTo into a writer / ReadFrom from a reader whose Write/Read method advances another container (8 Sets, comparisons, every third time a wire round trip) on every 16th call"
		var what string
		if c.Guard("side-by-side/nested/"+a.k.name, func() any { return a.wit(scenario) }, func() {
			w := &busyWriter{side: side}
			a.h.op("WriteTo (the writer advances another container meanwhile)")
			wn, err := a.ct.WriteTo(w)
			vals, used, info, rerr := refwire.ReadPaletted(w.out, a.k.length, a.k.pk)
			switch {
			case w.changed:
				what = "the bytes handed to Write changed while Write was in progress"
			case err != nil || wn != int64(len(w.out)):
				what = fmt.Sprintf("WriteTo returned n=%d err=%v, %d bytes produced", wn, err, len(w.out))
			case rerr != nil || used != len(w.out) || !equalInts(vals, a.model):
				what = fmt.Sprintf("the independent reader does not find the model in what the writer received (declared bits %d, %s, consumed %d of %d, err=%v)", info.Declared, info.Form, used, len(w.out), rerr)
			}
			if what != "" {
				return
			}
			into, _ := usedReceiver(c, r, a.k)
			rd := &busyReader{side: side, src: inject.ChunkReader{B: append(append([]byte{}, w.out...), 5), Plan: []int{1, 8, 2, 64}}}
			a.h.op("ReadFrom (the reader advances another container meanwhile)")
			rn, err := into.ReadFrom(rd)
			if err != nil || rn != int64(len(w.out)) || len(rd.src.Rest()) != 1 {
				what = fmt.Sprintf("ReadFrom returned n=%d err=%v and left %d bytes; the container is %d bytes followed by 1", rn, err, len(rd.src.Rest()), len(w.out))
				return
			}
			if a.compare(into, "read from a reader that advances another container") && a.compare(a.ct, "the written container afterwards") {
				a.ct = into
				a.step()
			}
		}) {
			return
		}
		c.Eval(vm.HashStr("nested", fmt.Sprint(c.Shard, c.Seed, k)), true)
		if what != "" {
			a.fail, a.sig = what, "wire"
		}
		if !report(pair, scenario, "nested") {
			return
		}
		if side.steps < 2 {
			c.Inconclusive("C12 nested: the Write/Read methods were hardly called")
			return
		}
	}
	c.Cover("side-by-side.inside-Write-and-Read")
	// (3) at the same time
	jobs = mk(8)
	rounds = c.Pick(24, 120)
	var wg, start sync.WaitGroup
	start.Add(1)
	for _, j := range jobs {
		wg.Add(1)
		go func(j *job) {
			defer wg.Done()
			start.Wait()
			for k := 0; k < rounds; k++ {
				j.step()
			}
		}(j)
	}
	start.Done()
	wg.Wait()
	c.EvalN(int64(8*rounds), vm.HashStr("goroutines", fmt.Sprint(c.Shard, c.Seed)), true)
	if !report(jobs, "eight goroutines, each advancing a container of its own", "goroutines") {
		return
	}
	c.Cover("side-by-side.8-goroutines-with-containers-of-their-own")
}
