// Monitor C12: level.PaletteContainer against an array model and an independent paletted-container reader.
package main

import (
	"bytes"
	"fmt"
	"io"

	"github.com/Tnze/go-mc/level"
	"github.com/Tnze/go-mc/level/biome"
	"github.com/Tnze/go-mc/level/block"

	"verif/ref/refwire"
	"verif/vm"
)

func main() { vm.Main("C12", run) }

// cont abstracts the two instantiations.
type cont interface {
	Get(i int) int
	Set(i, v int)
	io.WriterTo
	io.ReaderFrom
}

type blocksC struct {
	*level.PaletteContainer[level.BlocksState]
}

func (b blocksC) Get(i int) int { return int(b.PaletteContainer.Get(i)) }
func (b blocksC) Set(i, v int)  { b.PaletteContainer.Set(i, level.BlocksState(v)) }

type biomesC struct {
	*level.PaletteContainer[level.BiomesState]
}

func (b biomesC) Get(i int) int { return int(b.PaletteContainer.Get(i)) }
func (b biomesC) Set(i, v int)  { b.PaletteContainer.Set(i, level.BiomesState(v)) }

type kind struct {
	name     string
	length   int
	pk       refwire.PalKind
	fresh    func(def int) cont
	withData func(data []uint64, pal []int) cont
	targets  []int // distinct-value counts to sweep through
}

type hist struct {
	k   *kind
	ops []string
}

func (h *hist) op(s string) {
	h.ops = append(h.ops, s)
}

func (h *hist) wit() any {
	ops := h.ops
	if len(ops) > 80 {
		ops = append([]string{fmt.Sprintf("...(%d earlier ops)", len(ops)-80)}, ops[len(ops)-80:]...)
	}
	return map[string]any{"config": h.k.name, "length": h.k.length, "ops": ops}
}

func fullCompare(c *vm.Ctx, ct cont, model []int, h *hist, where string) bool {
	for i := range model {
		if g := ct.Get(i); g != model[i] {
			c.Violation("model/get-differs/"+h.k.name+"/"+where, fmt.Sprintf("%s: Get(%d)=%d, model has %d (%s)", h.k.name, i, g, model[i], where), h.wit())
			return false
		}
	}
	return true
}

func distinct(model []int) int {
	m := map[int]bool{}
	for _, v := range model {
		m[v] = true
	}
	return len(m)
}

// wireRoundTrip writes ct, judges the bytes with the independent reader, reads them into `into` and returns it.
func wireRoundTrip(c *vm.Ctx, r *vm.Rand, ct cont, model []int, h *hist, into cont, intoDesc string) (cont, bool) {
	var buf bytes.Buffer
	var wn int64
	var err error
	h.op("WriteTo")
	if c.Guard("wire/write/"+h.k.name, h.wit, func() { wn, err = ct.WriteTo(&buf) }) {
		return nil, false
	}
	if err != nil || wn != int64(buf.Len()) {
		c.Violation("wire/write-count/"+h.k.name, fmt.Sprintf("WriteTo returned n=%d err=%v, %d bytes produced", wn, err, buf.Len()), h.wit())
		return nil, false
	}
	vals, used, info, rerr := refwire.ReadPaletted(buf.Bytes(), h.k.length, h.k.pk)
	if rerr != nil {
		c.Violation("wire/not-a-paletted-container/"+h.k.name+"/"+vm.NormMsg(rerr.Error()), fmt.Sprintf("independent reader rejects the wire form (declared bits %d, %d distinct values): %v", info.Declared, distinct(model), rerr), h.wit())
		return nil, false
	}
	if used != buf.Len() {
		c.Violation("wire/length/"+h.k.name, fmt.Sprintf("independent reader consumed %d of %d bytes", used, buf.Len()), h.wit())
		return nil, false
	}
	for i := range model {
		if vals[i] != model[i] {
			c.Violation("wire/content/"+h.k.name+"/"+info.Form, fmt.Sprintf("independent reader sees %d at position %d, model has %d (declared bits %d, width %d, %s)", vals[i], i, model[i], info.Declared, info.Width, info.Form), h.wit())
			return nil, false
		}
	}
	c.Cover(fmt.Sprintf("wire.%s.%s.width%d", h.k.name, info.Form, info.Width))
	// read into another container
	in := append(append([]byte{}, buf.Bytes()...), 0xde, 0xad, 0x00)
	rd := bytes.NewReader(in)
	var rn int64
	h.op("ReadFrom into " + intoDesc)
	if c.Guard("wire/read/"+h.k.name, h.wit, func() { rn, err = into.ReadFrom(rd) }) {
		return nil, false
	}
	if err != nil {
		c.Violation("wire/read-error/"+h.k.name, "reading the container's own wire form failed: "+err.Error(), h.wit())
		return nil, false
	}
	if rn != int64(buf.Len()) || rd.Len() != 3 {
		c.Violation("wire/read-count/"+h.k.name, fmt.Sprintf("ReadFrom returned n=%d, left %d bytes; the container is %d bytes followed by 3", rn, rd.Len(), buf.Len()), h.wit())
		return nil, false
	}
	ok := false
	c.Guard("model/after-read/"+h.k.name, h.wit, func() { ok = fullCompare(c, into, model, h, "after-wire-roundtrip-into-"+intoDesc) })
	if ok {
		c.Cover("reload." + intoDesc)
	}
	return into, ok
}

func runHistory(c *vm.Ctx, r *vm.Rand, k *kind, hi int) {
	h := &hist{k: k}
	def := r.Intn(k.pk.RegistrySize)
	if hi%3 == 0 {
		def = 0
	}
	ct := k.fresh(def)
	model := make([]int, k.length)
	for i := range model {
		model[i] = def
	}
	h.op(fmt.Sprintf("new(default=%d)", def))
	values := []int{def}
	have := map[int]bool{def: true}
	newValue := func() int {
		for {
			var v int
			switch r.Intn(4) {
			case 0:
				v = k.pk.RegistrySize - 1 - r.Intn(3)
			case 1:
				v = r.Intn(8)
			default:
				v = r.Intn(k.pk.RegistrySize)
			}
			if !have[v] {
				have[v] = true
				values = append(values, v)
				return v
			}
		}
	}
	c.Eval(vm.HashStr("hist", k.name, fmt.Sprint(hi, c.Shard, c.Seed)), true)
	usedOther := func() (cont, string) {
		// a container that was used before with other data of a different width
		o := k.fresh(r.Intn(k.pk.RegistrySize))
		w := []int{0, 1, 3, 20, 40, 300}[r.Intn(6)]
		if w >= k.pk.RegistrySize {
			w = k.pk.RegistrySize / 2
		}
		for j := 0; j < w; j++ {
			o.Set(r.Intn(k.length), r.Intn(k.pk.RegistrySize))
		}
		return o, fmt.Sprintf("used(%d-values)", w)
	}
	ok := true
	pan := c.Guard("ops/"+k.name, h.wit, func() {
		for _, target := range k.targets {
			if target > k.pk.RegistrySize {
				break
			}
			// round trip just before crossing the boundary
			if r.Intn(3) == 0 {
				var nc cont
				if r.Bool() {
					o, d := usedOther()
					nc, ok = wireRoundTrip(c, r, ct, model, h, o, d)
				} else {
					nc, ok = wireRoundTrip(c, r, ct, model, h, k.fresh(r.Intn(k.pk.RegistrySize)), "fresh")
				}
				if !ok {
					return
				}
				ct = nc
			}
			for len(values) < target {
				v := newValue()
				i := r.Intn(k.length)
				h.op(fmt.Sprintf("Set(%d,%d) [new value #%d]", i, v, len(values)))
				ct.Set(i, v)
				model[i] = v
				// a few sets of existing values and gets in between
				for j := r.Intn(3); j > 0; j-- {
					i2, v2 := r.Intn(k.length), values[r.Intn(len(values))]
					h.op(fmt.Sprintf("Set(%d,%d)", i2, v2))
					ct.Set(i2, v2)
					model[i2] = v2
				}
				i3 := r.Intn(k.length)
				if g := ct.Get(i3); g != model[i3] {
					c.Violation("model/get-differs/"+k.name+"/step", fmt.Sprintf("%s: Get(%d)=%d, model %d with %d values in use", k.name, i3, g, model[i3], len(values)), h.wit())
					ok = false
					return
				}
			}
			c.Cover(fmt.Sprintf("sweep.%s.values=%d", k.name, target))
			if !fullCompare(c, ct, model, h, fmt.Sprintf("values=%d", target)) {
				ok = false
				return
			}
			// round trip right after the boundary, then keep mutating the reloaded container
			o, d := usedOther()
			if r.Bool() {
				o, d = k.fresh(r.Intn(k.pk.RegistrySize)), "fresh"
			}
			var nc cont
			nc, ok = wireRoundTrip(c, r, ct, model, h, o, d)
			if !ok {
				return
			}
			ct = nc
			for j := r.Intn(6); j > 0; j-- {
				i2, v2 := r.Intn(k.length), values[r.Intn(len(values))]
				h.op(fmt.Sprintf("Set(%d,%d)", i2, v2))
				ct.Set(i2, v2)
				model[i2] = v2
			}
			if !fullCompare(c, ct, model, h, "continued-after-reload") {
				ok = false
				return
			}
		}
	})
	if pan || !ok {
		return
	}
	c.Cover("history." + k.name + ".complete")
	if hi < 1 {
		c.Sample("history-"+k.name, h.wit())
	}
}

// interop: a reference-encoded container must be read by the library with the same content.
func interopRead(c *vm.Ctx, r *vm.Rand, k *kind) {
	nvals := []int{1, 2, 3, 4, 5, 8, 9, 16, 17, 32, 33, 64, 200, 256, 257, 400}[r.Intn(16)]
	if nvals > k.pk.RegistrySize {
		nvals = k.pk.RegistrySize
	}
	pool := make([]int, nvals)
	seen := map[int]bool{}
	for i := range pool {
		for {
			v := r.Intn(k.pk.RegistrySize)
			if !seen[v] {
				seen[v] = true
				pool[i] = v
				break
			}
		}
	}
	model := make([]int, k.length)
	for i := range model {
		model[i] = pool[r.Intn(len(pool))]
	}
	for i, v := range pool { // make sure every value occurs
		if i < len(model) {
			model[i] = v
		}
	}
	wire := refwire.WritePaletted(model, k.pk)
	h := &hist{k: k, ops: []string{fmt.Sprintf("reference-encoded container with %d distinct values, header %s", distinct(model), vm.Hex(wire[:min(8, len(wire))]))}}
	c.Eval(vm.Hash64(wire[:min(len(wire), 96)], []byte(k.name)), true)
	dst := k.fresh(r.Intn(k.pk.RegistrySize))
	if r.Bool() {
		for j := 0; j < 30; j++ {
			dst.Set(r.Intn(k.length), r.Intn(k.pk.RegistrySize))
		}
	}
	rd := bytes.NewReader(append(append([]byte{}, wire...), 1, 2))
	var n int64
	var err error
	if c.Guard("interop/read/"+k.name, h.wit, func() { n, err = dst.ReadFrom(rd) }) {
		return
	}
	if err != nil || n != int64(len(wire)) || rd.Len() != 2 {
		c.Violation("interop/read/"+k.name, fmt.Sprintf("reading a reference-encoded container: n=%d (want %d) remaining=%d err=%v", n, len(wire), rd.Len(), err), h.wit())
		return
	}
	c.Guard("interop/compare/"+k.name, h.wit, func() {
		if fullCompare(c, dst, model, h, "interop") {
			c.Cover("interop." + k.name)
		}
	})
}

// withData: containers built from a saved (palette, data) pair must agree with the reference reading.
func checkWithData(c *vm.Ctx, r *vm.Rand, k *kind) {
	var sizes []int
	if k.pk.Blocks {
		// a saved section always carries its palette, whatever its size (the network form switches to direct ids above 256)
		sizes = []int{1, 2, 3, 15, 16, 17, 31, 32, 33, 64, 65, 128, 129, 255, 256, 257, 300, 512, 513, 1000, 2048, 2049, 4096}
	} else {
		sizes = []int{1, 2, 3, 4, 5, 6, 7, 8, 9, 12, 16, 17, 40}
	}
	np := sizes[r.Intn(len(sizes))]
	if r.Intn(8) == 0 {
		// the library's own save form for direct containers: no palette, registry-wide width
		width := 15
		if !k.pk.Blocks {
			width = 6
		}
		model := make([]int, k.length)
		for i := range model {
			model[i] = r.Intn(k.pk.RegistrySize)
		}
		data := refwire.PackLongs(model, width)
		h := &hist{k: k, ops: []string{fmt.Sprintf("WithData(no palette, %d-bit direct ids, %d longs)", width, len(data))}}
		c.Eval(vm.HashStr("withdata-direct", k.name, fmt.Sprint(r.Uint64())), true)
		var ct cont
		if c.Guard("withdata/ctor/"+k.name, h.wit, func() { ct = k.withData(data, nil) }) {
			return
		}
		c.Guard("withdata/compare/"+k.name, h.wit, func() {
			for i := range model {
				if g := ct.Get(i); g != model[i] {
					c.Violation(fmt.Sprintf("withdata/value/%s/direct", k.name), fmt.Sprintf("%s built from saved direct ids: Get(%d)=%d, the saved data says %d", k.name, i, g, model[i]), h.wit())
					return
				}
			}
			c.Cover("withdata." + k.name + ".direct")
		})
		return
	}
	pal := make([]int, 0, np)
	seen := map[int]bool{}
	for len(pal) < np {
		v := r.Intn(k.pk.RegistrySize)
		if !seen[v] {
			seen[v] = true
			pal = append(pal, v)
		}
	}
	width := 0
	if np > 1 {
		width = 1
		for 1<<uint(width) < np {
			width++
		}
		if k.pk.Blocks && width < 4 {
			width = 4
		}
	}
	idx := make([]int, k.length)
	model := make([]int, k.length)
	for i := range idx {
		idx[i] = r.Intn(np)
		model[i] = pal[idx[i]]
	}
	data := refwire.PackLongs(idx, width)
	h := &hist{k: k, ops: []string{fmt.Sprintf("WithData(palette of %d entries, %d-bit indices, %d longs)", np, width, len(data))}}
	c.Eval(vm.HashStr("withdata", k.name, fmt.Sprint(np, r.Uint64())), true)
	var ct cont
	palArg := pal
	spare := r.Intn(3) == 0
	if spare {
		// the caller's slice has room behind it, and the caller keeps using it afterwards
		palArg = append(make([]int, 0, len(pal)+r.Range(1, 600)), pal...)
		h.ops = append(h.ops, fmt.Sprintf("palette slice has capacity %d", cap(palArg)))
	}
	if c.Guard("withdata/ctor/"+k.name, h.wit, func() { ct = k.withData(data, palArg) }) {
		return
	}
	defer func() {
		// the container keeps working as an array: new values at random positions, compared with the model
		c.Guard("withdata/history/"+k.name, h.wit, func() {
			for j := 0; j < 60; j++ {
				i, v := r.Intn(k.length), r.Intn(k.pk.RegistrySize)
				h.ops = append(h.ops, fmt.Sprintf("Set(%d,%d)", i, v))
				ct.Set(i, v)
				model[i] = v
			}
			for i := range model {
				if g := ct.Get(i); g != model[i] {
					c.Violation(fmt.Sprintf("withdata/history/%s", k.name), fmt.Sprintf("%s built from a saved palette of %d entries, after %d Set calls: Get(%d)=%d, model %d", k.name, np, 60, i, g, model[i]), h.wit())
					return
				}
			}
			c.Cover("withdata." + k.name + ".history-after-construction")
			if spare {
				c.Cover("withdata." + k.name + ".palette-slice-with-spare-capacity")
			}
		})
	}()
	c.Guard("withdata/compare/"+k.name, h.wit, func() {
		for i := range model {
			if g := ct.Get(i); g != model[i] {
				c.Violation(fmt.Sprintf("withdata/value/%s/palette-bits=%d", k.name, width), fmt.Sprintf("%s built from saved palette (%d entries, %d-bit indices): Get(%d)=%d, the saved data says %d", k.name, np, width, i, g, model[i]), h.wit())
				return
			}
		}
		c.Cover(fmt.Sprintf("withdata.%s.width%d", k.name, width))
	})
}

func run(c *vm.Ctx) {
	nStates := len(block.StateList)
	nBiomes := 0
	for biome.Type(nBiomes).String() != "<invalid biome type>" {
		nBiomes++
	}
	if nStates < 1000 || nBiomes < 10 {
		c.Inconclusive("registries look wrong")
		return
	}
	c.Note("registry_sizes", map[string]int{"block_states": nStates, "biomes": nBiomes})
	blocks := &kind{name: "blocks", length: 4096, pk: refwire.PalKind{Blocks: true, RegistrySize: nStates},
		fresh: func(def int) cont { return blocksC{level.NewStatesPaletteContainer(4096, level.BlocksState(def))} },
		withData: func(data []uint64, pal []int) cont {
			p := make([]level.BlocksState, len(pal))
			for i, v := range pal {
				p[i] = level.BlocksState(v)
			}
			return blocksC{level.NewStatesPaletteContainerWithData(4096, data, p)}
		},
		targets: []int{1, 2, 16, 17, 32, 33, 64, 65, 128, 129, 256, 257, 300}}
	biomes := &kind{name: "biomes", length: 64, pk: refwire.PalKind{Blocks: false, RegistrySize: nBiomes},
		fresh: func(def int) cont { return biomesC{level.NewBiomesPaletteContainer(64, level.BiomesState(def))} },
		withData: func(data []uint64, pal []int) cont {
			p := make([]level.BiomesState, len(pal))
			for i, v := range pal {
				p[i] = level.BiomesState(v)
			}
			return biomesC{level.NewBiomesPaletteContainerWithData(64, data, p)}
		},
		targets: []int{1, 2, 3, 4, 5, 8, 9, 20, 40}}
	r := c.Rand("hist")
	for i := 0; i < c.Scale(1500, 12000); i++ {
		runHistory(c, r, blocks, i)
		runHistory(c, r, biomes, i)
		runHistory(c, r, biomes, i+1)
	}
	ir := c.Rand("interop")
	for i := 0; i < c.Scale(4000, 40000); i++ {
		interopRead(c, ir, blocks)
		interopRead(c, ir, biomes)
	}
	wr := c.Rand("withdata")
	for i := 0; i < c.Scale(4000, 40000); i++ {
		checkWithData(c, wr, blocks)
		checkWithData(c, wr, biomes)
	}
}
