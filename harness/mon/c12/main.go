// Monitor C12: level.PaletteContainer against an array model and an independent paletted-container reader.
package main

import (
	"bytes"
	"fmt"
	"io"

	"github.com/Tnze/go-mc/level"
	"github.com/Tnze/go-mc/level/biome"
	"github.com/Tnze/go-mc/level/block"

	"verif/ref/refwire"
	"verif/vm"
)

func main() { vm.Main("C12", run) }

// cont abstracts the two instantiations.
type cont interface {
	Get(i int) int
	Set(i, v int)
	io.WriterTo
	io.ReaderFrom
}

type blocksC struct {
	*level.PaletteContainer[level.BlocksState]
}

func (b blocksC) Get(i int) int { return int(b.PaletteContainer.Get(i)) }
func (b blocksC) Set(i, v int)  { b.PaletteContainer.Set(i, level.BlocksState(v)) }

type biomesC struct {
	*level.PaletteContainer[level.BiomesState]
}

func (b biomesC) Get(i int) int { return int(b.PaletteContainer.Get(i)) }
func (b biomesC) Set(i, v int)  { b.PaletteContainer.Set(i, level.BiomesState(v)) }

type kind struct {
	name   string
	length int
	pk     refwire.PalKind
	fresh  func(def int) cont
	// withData builds a container from a saved pair. The palette is handed over as a typed slice of the given capacity
	// (>= len(pal)); the returned function is the caller going on with its own slices: it overwrites the palette slice up
	// to its capacity and the data slice.
	withData func(data []uint64, pal []int, capacity int) (cont, func(r *vm.Rand))
	targets  []int // distinct-value counts to sweep through
}

type hist struct {
	k   *kind
	ops []string
}

func (h *hist) op(s string) {
	h.ops = append(h.ops, s)
}

func (h *hist) wit() any {
	ops := h.ops
	if len(ops) > 80 {
		ops = append([]string{fmt.Sprintf("...(%d earlier ops)", len(ops)-80)}, ops[len(ops)-80:]...)
	}
	return map[string]any{"config": h.k.name, "length": h.k.length, "ops": ops}
}

func fullCompare(c *vm.Ctx, ct cont, model []int, h *hist, where string) bool {
	for i := range model {
		if g := ct.Get(i); g != model[i] {
			c.Violation("model/get-differs/"+h.k.name+"/"+where, fmt.Sprintf("%s: Get(%d)=%d, model has %d (%s)", h.k.name, i, g, model[i], where), h.wit())
			return false
		}
	}
	return true
}

func distinct(model []int) int {
	m := map[int]bool{}
	for _, v := range model {
		m[v] = true
	}
	return len(m)
}

// wireRoundTrip writes ct, judges the bytes with the independent reader, reads them into `into` and returns it.
func wireRoundTrip(c *vm.Ctx, r *vm.Rand, ct cont, model []int, h *hist, into cont, intoDesc string) (cont, bool) {
	var buf bytes.Buffer
	var wn int64
	var err error
	h.op("WriteTo")
	if c.Guard("wire/write/"+h.k.name, h.wit, func() { wn, err = ct.WriteTo(&buf) }) {
		return nil, false
	}
	if err != nil || wn != int64(buf.Len()) {
		c.Violation("wire/write-count/"+h.k.name, fmt.Sprintf("WriteTo returned n=%d err=%v, %d bytes produced", wn, err, buf.Len()), h.wit())
		return nil, false
	}
	vals, used, info, rerr := refwire.ReadPaletted(buf.Bytes(), h.k.length, h.k.pk)
	if rerr != nil {
		c.Violation("wire/not-a-paletted-container/"+h.k.name+"/"+vm.NormMsg(rerr.Error()), fmt.Sprintf("independent reader rejects the wire form (declared bits %d, %d distinct values): %v", info.Declared, distinct(model), rerr), h.wit())
		return nil, false
	}
	if used != buf.Len() {
		c.Violation("wire/length/"+h.k.name, fmt.Sprintf("independent reader consumed %d of %d bytes", used, buf.Len()), h.wit())
		return nil, false
	}
	for i := range model {
		if vals[i] != model[i] {
			c.Violation("wire/content/"+h.k.name+"/"+info.Form, fmt.Sprintf("independent reader sees %d at position %d, model has %d (declared bits %d, width %d, %s)", vals[i], i, model[i], info.Declared, info.Width, info.Form), h.wit())
			return nil, false
		}
	}
	c.Cover(fmt.Sprintf("wire.%s.%s.width%d", h.k.name, info.Form, info.Width))
	// read into another container
	// the source is whatever io.Reader the caller has: with or without ReadByte, short reads, (0, nil) now and then, or the
	// last bytes together with io.EOF (then nothing follows the container)
	rd, left, trailer, rkind := makeSource(r, buf.Bytes())
	var rn int64
	if rkind == "bytes.Reader" {
		h.op("ReadFrom into " + intoDesc)
	} else {
		h.op("ReadFrom into " + intoDesc + " from a " + rkind)
	}
	if c.Guard("wire/read/"+h.k.name, h.wit, func() { rn, err = into.ReadFrom(rd) }) {
		return nil, false
	}
	if err != nil {
		c.Violation("wire/read-error/"+h.k.name, "reading the container's own wire form failed: "+err.Error(), h.wit())
		return nil, false
	}
	if rn != int64(buf.Len()) || left() != trailer {
		c.Violation("wire/read-count/"+h.k.name, fmt.Sprintf("ReadFrom returned n=%d, left %d bytes; the container is %d bytes followed by %d", rn, left(), buf.Len(), trailer), h.wit())
		return nil, false
	}
	ok := false
	c.Guard("model/after-read/"+h.k.name, h.wit, func() { ok = fullCompare(c, into, model, h, "after-wire-roundtrip-into-"+intoDesc) })
	if ok {
		c.Cover("reload." + intoDesc)
		c.Cover("reload-from." + rkind)
	}
	return into, ok
}

func runHistory(c *vm.Ctx, r *vm.Rand, k *kind, hi int) {
	h := &hist{k: k}
	def := r.Intn(k.pk.RegistrySize)
	if hi%3 == 0 {
		def = 0
	}
	ct := k.fresh(def)
	model := make([]int, k.length)
	for i := range model {
		model[i] = def
	}
	h.op(fmt.Sprintf("new(default=%d)", def))
	values := []int{def}
	have := map[int]bool{def: true}
	newValue := func() int {
		for {
			var v int
			switch r.Intn(4) {
			case 0:
				v = k.pk.RegistrySize - 1 - r.Intn(3)
			case 1:
				v = r.Intn(8)
			default:
				v = r.Intn(k.pk.RegistrySize)
			}
			if !have[v] {
				have[v] = true
				values = append(values, v)
				return v
			}
		}
	}
	c.Eval(vm.HashStr("hist", k.name, fmt.Sprint(hi, c.Shard, c.Seed)), true)
	// receivers of the round trips: a fresh container, one with a past of its own, or the container this very history
	// wrote from one round trip earlier (a client-side container that receives one chunk update after another)
	var prev cont
	prevRead, ctRead := false, false
	receiver := func() (cont, string) {
		switch r.Intn(3) {
		case 0:
			return k.fresh(r.Intn(k.pk.RegistrySize)), "fresh"
		case 1:
			if prev != nil {
				o, d := prev, "earlier-container-of-this-history"
				if prevRead {
					d += "(has-read-before)"
				}
				prev = nil
				return o, d
			}
		}
		return usedReceiver(c, r, k)
	}
	edges := [2]int{k.length - 1, 0}
	ok := true
	pan := c.Guard("ops/"+k.name, h.wit, func() {
		for ti, target := range k.targets {
			if target > k.pk.RegistrySize {
				break
			}
			// round trip just before crossing the boundary
			if r.Intn(3) == 0 {
				var nc cont
				o, d := receiver()
				nc, ok = wireRoundTrip(c, r, ct, model, h, o, d)
				if !ok {
					return
				}
				prev, prevRead, ct, ctRead = ct, ctRead, nc, true
			}
			for fresh := 0; len(values) < target; fresh++ {
				v := newValue()
				i := r.Intn(k.length)
				// the first new value of a target (where the representation changes) goes to the last position or to
				// position 0, the second one to the other end
				if fresh < 2 {
					i = edges[(hi+ti+fresh)%2]
					c.Cover(fmt.Sprintf("sweep.%s.new-value-at-position-%s", k.name, map[bool]string{true: "0", false: "last"}[i == 0]))
				}
				h.op(fmt.Sprintf("Set(%d,%d) [new value #%d]", i, v, len(values)))
				ct.Set(i, v)
				model[i] = v
				// a few sets of existing values and gets in between
				for j := r.Intn(3); j > 0; j-- {
					i2, v2 := r.Intn(k.length), values[r.Intn(len(values))]
					h.op(fmt.Sprintf("Set(%d,%d)", i2, v2))
					ct.Set(i2, v2)
					model[i2] = v2
				}
				i3 := r.Intn(k.length)
				if g := ct.Get(i3); g != model[i3] {
					c.Violation("model/get-differs/"+k.name+"/step", fmt.Sprintf("%s: Get(%d)=%d, model %d with %d values in use", k.name, i3, g, model[i3], len(values)), h.wit())
					ok = false
					return
				}
			}
			c.Cover(fmt.Sprintf("sweep.%s.values=%d", k.name, target))
			if !fullCompare(c, ct, model, h, fmt.Sprintf("values=%d", target)) {
				ok = false
				return
			}
			// round trip right after the boundary, then keep mutating the reloaded container
			o, d := receiver()
			var nc cont
			nc, ok = wireRoundTrip(c, r, ct, model, h, o, d)
			if !ok {
				return
			}
			prev, prevRead, ct, ctRead = ct, ctRead, nc, true
			for j := r.Intn(6); j > 0; j-- {
				i2, v2 := r.Intn(k.length), values[r.Intn(len(values))]
				h.op(fmt.Sprintf("Set(%d,%d)", i2, v2))
				ct.Set(i2, v2)
				model[i2] = v2
			}
			if !fullCompare(c, ct, model, h, "continued-after-reload") {
				ok = false
				return
			}
		}
	})
	if pan || !ok {
		return
	}
	c.Cover("history." + k.name + ".complete")
	if hi < 1 {
		c.Sample("history-"+k.name, h.wit())
	}
}

// interop: a reference-encoded container must be read by the library with the same content.
func interopRead(c *vm.Ctx, r *vm.Rand, k *kind) {
	nvals := []int{1, 2, 3, 4, 5, 8, 9, 16, 17, 32, 33, 64, 200, 256, 257, 400}[r.Intn(16)]
	if nvals > k.pk.RegistrySize {
		nvals = k.pk.RegistrySize
	}
	pool := make([]int, nvals)
	seen := map[int]bool{}
	for i := range pool {
		for {
			v := r.Intn(k.pk.RegistrySize)
			if !seen[v] {
				seen[v] = true
				pool[i] = v
				break
			}
		}
	}
	model := make([]int, k.length)
	for i := range model {
		model[i] = pool[r.Intn(len(pool))]
	}
	for i, v := range pool { // make sure every value occurs
		if i < len(model) {
			model[i] = v
		}
	}
	wire := refwire.WritePaletted(model, k.pk)
	h := &hist{k: k, ops: []string{fmt.Sprintf("reference-encoded container with %d distinct values, header %s", distinct(model), vm.Hex(wire[:min(8, len(wire))]))}}
	c.Eval(vm.Hash64(wire[:min(len(wire), 96)], []byte(k.name)), true)
	dst, dstDesc := k.fresh(r.Intn(k.pk.RegistrySize)), "fresh"
	if r.Bool() {
		dst, dstDesc = usedReceiver(c, r, k)
	}
	rd, left, trailer, rkind := makeSource(r, wire)
	h.op("ReadFrom into " + dstDesc + " from a " + rkind)
	var n int64
	var err error
	if c.Guard("interop/read/"+k.name, h.wit, func() { n, err = dst.ReadFrom(rd) }) {
		return
	}
	if err != nil || n != int64(len(wire)) || left() != trailer {
		c.Violation("interop/read/"+k.name, fmt.Sprintf("reading a reference-encoded container: n=%d (want %d) remaining=%d (want %d) err=%v", n, len(wire), left(), trailer, err), h.wit())
		return
	}
	c.Guard("interop/compare/"+k.name, h.wit, func() {
		if fullCompare(c, dst, model, h, "interop") {
			c.Cover("interop." + k.name)
			c.Cover("interop-into." + dstDesc)
		}
	})
}

// minimalWidth is the index width the game uses in the save form for a palette of np entries.
func minimalWidth(k *kind, np int) int {
	if np <= 1 {
		return 0
	}
	w := 1
	for 1<<uint(w) < np {
		w++
	}
	if k.pk.Blocks && w < 4 {
		w = 4
	}
	return w
}

func longsFor(width, length int) int {
	if width == 0 {
		return 0
	}
	per := 64 / width
	return (length + per - 1) / per
}

// widerWidths lists index widths above the minimal one (up to 10 bits) whose number of longs belongs to no other width
// that could index np entries: a data array of that many longs has one reading only.
func widerWidths(k *kind, np int) []int {
	var out []int
	for w := minimalWidth(k, np) + 1; w <= 10; w++ {
		unique := true
		for o := 1; o <= 32; o++ {
			if o != w && 1<<uint(o) >= np && longsFor(o, k.length) == longsFor(w, k.length) {
				unique = false
			}
		}
		if unique {
			out = append(out, w)
		}
	}
	return out
}

func distinctValues(r *vm.Rand, k *kind, np int) []int {
	pal := make([]int, 0, np)
	seen := map[int]bool{}
	for len(pal) < np {
		v := r.Intn(k.pk.RegistrySize)
		if !seen[v] {
			seen[v] = true
			pal = append(pal, v)
		}
	}
	return pal
}

// usedReceiver builds a container with a past of its own: values set into a fresh one, or one built from a saved
// (palette, data) pair (a section loaded from disk that now receives a chunk update).
func usedReceiver(c *vm.Ctx, r *vm.Rand, k *kind) (cont, string) {
	if r.Intn(6) == 0 {
		if o, d, ok := failedReadReceiver(c, r, k); ok {
			return o, d
		}
	}
	if r.Intn(3) == 0 {
		nps := []int{1, 2, 16, 17, 200, 300}
		if !k.pk.Blocks {
			nps = []int{1, 2, 3, 5, 9}
		}
		np := nps[r.Intn(len(nps))]
		pal := distinctValues(r, k, np)
		idx := make([]int, k.length)
		for i := range idx {
			idx[i] = r.Intn(np)
		}
		var o cont
		w := func() any {
			return map[string]any{"config": k.name, "receiver": fmt.Sprintf("WithData(palette of %d entries, %d-bit indices)", np, minimalWidth(k, np))}
		}
		if !c.Guard("withdata/ctor/"+k.name, w, func() { o, _ = k.withData(refwire.PackLongs(idx, minimalWidth(k, np)), pal, np) }) {
			return o, fmt.Sprintf("withdata(%d-entries)", np)
		}
	}
	// a container that was used before with other data of a different width
	o := k.fresh(r.Intn(k.pk.RegistrySize))
	w := []int{0, 1, 3, 20, 40, 300}[r.Intn(6)]
	if w >= k.pk.RegistrySize {
		w = k.pk.RegistrySize / 2
	}
	for j := 0; j < w; j++ {
		o.Set(r.Intn(k.length), r.Intn(k.pk.RegistrySize))
	}
	return o, fmt.Sprintf("used(%d-values)", w)
}

// withData: containers built from a saved (palette, data) pair must agree with the reference reading, go to the wire like
// any other container and keep working as arrays.
func checkWithData(c *vm.Ctx, r *vm.Rand, k *kind) {
	var sizes []int
	if k.pk.Blocks {
		// a saved section always carries its palette, whatever its size (the network form switches to direct ids above 256)
		sizes = []int{1, 2, 3, 15, 16, 17, 31, 32, 33, 64, 65, 128, 129, 255, 256, 257, 300, 512, 513, 1000, 2048, 2049, 4096}
	} else {
		sizes = []int{1, 2, 3, 4, 5, 6, 7, 8, 9, 12, 16, 17, 40}
	}
	np := sizes[r.Intn(len(sizes))]
	var (
		pal     []int
		data    []uint64
		width   int
		variant = "minimal"
		valSig  string
		what    string

		emptyData bool
	)
	model := make([]int, k.length)
	h := &hist{k: k}
	if r.Intn(8) == 0 {
		// the library's own save form for direct containers: no palette, registry-wide width
		variant = "direct"
		width = 15
		if !k.pk.Blocks {
			width = 6
		}
		for i := range model {
			model[i] = r.Intn(k.pk.RegistrySize)
		}
		data = refwire.PackLongs(model, width)
		h.op(fmt.Sprintf("WithData(no palette, %d-bit direct ids, %d longs)", width, len(data)))
		c.Eval(vm.HashStr("withdata-direct", k.name, fmt.Sprint(r.Uint64())), true)
		valSig = fmt.Sprintf("withdata/value/%s/direct", k.name)
		what = "saved direct ids"
	} else {
		pal = distinctValues(r, k, np)
		width = minimalWidth(k, np)
		switch {
		case np == 1 && r.Bool():
			// a lone palette entry with an index array all the same (older saves and other writers keep one): every index is 0
			variant = "single-entry-palette-with-data"
			if k.pk.Blocks {
				width = r.Range(4, 8)
			} else {
				width = r.Range(1, 3)
			}
		case np > 1 && r.Intn(6) == 0:
			if ws := widerWidths(k, np); len(ws) > 0 {
				variant = "wider-than-needed"
				width = ws[r.Intn(len(ws))]
			}
		}
		idx := make([]int, k.length)
		for i := range idx {
			idx[i] = r.Intn(np)
			model[i] = pal[idx[i]]
		}
		data = refwire.PackLongs(idx, width)
		if emptyData = data == nil && r.Bool(); emptyData {
			// no index array: to one caller that is a nil slice, to another an empty one
			data = []uint64{}
			h.op("data is an empty slice that is not nil")
		}
		h.op(fmt.Sprintf("WithData(palette of %d entries, %d-bit indices, %d longs; %s)", np, width, len(data), variant))
		if np <= 16 {
			h.op(fmt.Sprintf("palette=%v", pal))
		}
		c.Eval(vm.HashStr("withdata", k.name, fmt.Sprint(np, r.Uint64())), true)
		valSig = fmt.Sprintf("withdata/value/%s/palette-bits=%d", k.name, width)
		if variant != "minimal" {
			valSig += "/" + variant
		}
		what = fmt.Sprintf("saved palette (%d entries, %d-bit indices)", np, width)
	}
	capacity := len(pal)
	spare := pal != nil && r.Intn(3) == 0
	if spare {
		// the caller's slice has room behind it
		capacity += r.Range(1, 600)
		h.op(fmt.Sprintf("palette slice has capacity %d", capacity))
	}
	var ct cont
	var callerGoesOn func(r *vm.Rand)
	if variant == "wider-than-needed" {
		// the game would refuse such a pair (it derives the width from the palette); reading it at the only width the
		// array length allows, or refusing it, both agree with "that same reading"
		if v, _ := vm.Try(func() { ct, callerGoesOn = k.withData(data, pal, capacity) }); v != nil {
			c.Cover("withdata." + k.name + ".wider-than-needed.refused")
			return
		}
	} else if c.Guard("withdata/ctor/"+k.name, h.wit, func() { ct, callerGoesOn = k.withData(data, pal, capacity) }) {
		return
	}
	overwritten := r.Bool()
	if overwritten {
		// ... and the caller keeps using its slices afterwards
		h.op("the caller overwrites the palette slice (up to its capacity) and the data slice it passed")
		callerGoesOn(r)
	}
	compare := func(sig, when string) bool {
		ok := false
		c.Guard("withdata/compare/"+k.name, h.wit, func() {
			for i := range model {
				if g := ct.Get(i); g != model[i] {
					c.Violation(sig, fmt.Sprintf("%s built from %s%s: Get(%d)=%d, expected %d", k.name, what, when, i, g, model[i]), h.wit())
					return
				}
			}
			ok = true
		})
		return ok
	}
	if !compare(valSig, "") {
		return
	}
	switch variant {
	case "minimal":
		c.Cover(fmt.Sprintf("withdata.%s.width%d", k.name, width))
	case "direct":
		c.Cover("withdata." + k.name + ".direct")
	default:
		c.Cover("withdata." + k.name + "." + variant)
	}
	if overwritten {
		c.Cover("withdata." + k.name + ".caller-overwrote-its-slices")
	}
	if emptyData {
		c.Cover("withdata." + k.name + ".empty-data-slice-that-is-not-nil")
	}
	toWire := func(cover string) bool {
		var into cont
		var d string
		if r.Bool() {
			into, d = k.fresh(r.Intn(k.pk.RegistrySize)), "fresh"
		} else {
			into, d = usedReceiver(c, r, k)
		}
		if _, ok := wireRoundTrip(c, r, ct, model, h, into, d); !ok {
			return false
		}
		c.Cover("withdata." + k.name + "." + cover)
		return true
	}
	// the disk-to-network path: the container is written as it came from the constructor
	if !toWire("written-to-the-wire") {
		return
	}
	// the container keeps working as an array: values of its palette and new ones at random positions
	if c.Guard("withdata/history/"+k.name, h.wit, func() {
		for j := 0; j < 60; j++ {
			i, v := r.Intn(k.length), r.Intn(k.pk.RegistrySize)
			if j%2 == 1 {
				v = model[r.Intn(k.length)] // a value the container already holds
				if pal != nil {
					v = pal[r.Intn(len(pal))] // a value of the saved palette, present or not
				}
			}
			h.op(fmt.Sprintf("Set(%d,%d)", i, v))
			ct.Set(i, v)
			model[i] = v
		}
	}) {
		return
	}
	if !compare(fmt.Sprintf("withdata/history/%s", k.name), ", after 60 Set calls") {
		return
	}
	c.Cover("withdata." + k.name + ".history-after-construction")
	if spare {
		c.Cover("withdata." + k.name + ".palette-slice-with-spare-capacity")
	}
	toWire("written-to-the-wire-after-sets")
}

func run(c *vm.Ctx) {
	nStates := len(block.StateList)
	nBiomes := 0
	for biome.Type(nBiomes).String() != "<invalid biome type>" {
		nBiomes++
	}
	if nStates < 1000 || nBiomes < 10 {
		c.Inconclusive("registries look wrong")
		return
	}
	c.Note("registry_sizes", map[string]int{"block_states": nStates, "biomes": nBiomes})
	blocks := &kind{name: "blocks", length: 4096, pk: refwire.PalKind{Blocks: true, RegistrySize: nStates},
		fresh: func(def int) cont { return blocksC{level.NewStatesPaletteContainer(4096, level.BlocksState(def))} },
		withData: func(data []uint64, pal []int, capacity int) (cont, func(r *vm.Rand)) {
			p := make([]level.BlocksState, len(pal), max(capacity, len(pal)))
			for i, v := range pal {
				p[i] = level.BlocksState(v)
			}
			ct := blocksC{level.NewStatesPaletteContainerWithData(4096, data, p)}
			return ct, func(r *vm.Rand) {
				p = p[:cap(p)]
				for i := range p {
					p[i] = level.BlocksState(r.Intn(nStates))
				}
				for i := range data {
					data[i] = r.Uint64()
				}
			}
		},
		targets: []int{1, 2, 16, 17, 32, 33, 64, 65, 128, 129, 256, 257, 300}}
	biomes := &kind{name: "biomes", length: 64, pk: refwire.PalKind{Blocks: false, RegistrySize: nBiomes},
		fresh: func(def int) cont { return biomesC{level.NewBiomesPaletteContainer(64, level.BiomesState(def))} },
		withData: func(data []uint64, pal []int, capacity int) (cont, func(r *vm.Rand)) {
			p := make([]level.BiomesState, len(pal), max(capacity, len(pal)))
			for i, v := range pal {
				p[i] = level.BiomesState(v)
			}
			ct := biomesC{level.NewBiomesPaletteContainerWithData(64, data, p)}
			return ct, func(r *vm.Rand) {
				p = p[:cap(p)]
				for i := range p {
					p[i] = level.BiomesState(r.Intn(nBiomes))
				}
				for i := range data {
					data[i] = r.Uint64()
				}
			}
		},
		targets: []int{1, 2, 3, 4, 5, 8, 9, 20, 40}}
	r := c.Rand("hist")
	for i := 0; i < c.Scale(1500, 12000); i++ {
		runHistory(c, r, blocks, i)
		runHistory(c, r, biomes, i)
		runHistory(c, r, biomes, i+1)
	}
	ir := c.Rand("interop")
	for i := 0; i < c.Scale(4000, 40000); i++ {
		interopRead(c, ir, blocks)
		interopRead(c, ir, biomes)
	}
	ur := c.Rand("unusual")
	for i := 0; i < c.Scale(2000, 20000); i++ {
		interopUnusual(c, ur, blocks)
		interopUnusual(c, ur, biomes)
	}
	if c.Shard == 1%c.NShards {
		sideBySide(c, c.Rand("side-by-side"), []*kind{blocks, biomes})
	}
	wr := c.Rand("withdata")
	for i := 0; i < c.Scale(4000, 40000); i++ {
		checkWithData(c, wr, blocks)
		checkWithData(c, wr, biomes)
	}
}
