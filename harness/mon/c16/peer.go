package main

import (
	"encoding/binary"
	"errors"
	"fmt"
	"io"
	"net"
	"os"
	"strings"
	"time"

	mcnet "github.com/Tnze/go-mc/net"

	"verif/vm"
)

// A peer that is not the library: frames are built by refFrame and read by readRaw below, and the packet types are
// the Source RCON ones written down here (3 = login, 2 = login answer and command, 0 = command response, id -1 =
// login refused). The library's client and server are each run against it, so that a deviation the library's two
// sides share still shows.

type rawPkt struct {
	id, typ int32
	payload string
}

func readRaw(rd io.Reader) (rawPkt, error) {
	var hdr [4]byte
	if _, err := io.ReadFull(rd, hdr[:]); err != nil {
		return rawPkt{}, err
	}
	n := int32(binary.LittleEndian.Uint32(hdr[:]))
	if n < 10 || n > 4110 {
		return rawPkt{}, fmt.Errorf("declared length %d", n)
	}
	body := make([]byte, n)
	if _, err := io.ReadFull(rd, body); err != nil {
		return rawPkt{}, err
	}
	if body[n-1] != 0 || body[n-2] != 0 {
		return rawPkt{}, fmt.Errorf("frame does not end in two zero bytes")
	}
	return rawPkt{int32(binary.LittleEndian.Uint32(body)), int32(binary.LittleEndian.Uint32(body[4:])), string(body[8 : n-2])}, nil
}

func textPayload(r *vm.Rand) string {
	b := genPayload(r)
	for i := range b {
		if b[i] == 0 {
			b[i] = 'z'
		}
	}
	if len(b) > 1000 {
		b = b[:1000]
	}
	return string(b)
}

// libraryClientAgainstPeer: DialRCON / Cmd / Resp against a hand-written server.
func libraryClientAgainstPeer(c *vm.Ctx, r *vm.Rand) {
	ln, err := net.Listen("tcp", "127.0.0.1:0")
	if err != nil {
		c.Inconclusive("listen: " + err.Error())
		return
	}
	defer ln.Close()
	serverPW, cmd, resp := textPayload(r), textPayload(r), textPayload(r)
	clientPW := serverPW
	match := r.Intn(3) != 0
	if !match {
		clientPW = serverPW + "x"
	}
	wit := func() any { return map[string]any{"peer": "hand-written server", "passwords_equal": match, "command": cmd} }
	type seen struct {
		login, command rawPkt
		err            error
	}
	ch := make(chan seen, 1)
	go func() {
		var s seen
		defer func() { ch <- s }()
		raw, err := ln.Accept()
		if err != nil {
			s.err = err
			return
		}
		defer raw.Close()
		raw.SetDeadline(time.Now().Add(20 * time.Second))
		if s.login, s.err = readRaw(raw); s.err != nil {
			return
		}
		if s.login.payload != serverPW {
			raw.Write(refFrame(-1, 2, nil))
			return
		}
		raw.Write(refFrame(s.login.id, 2, nil))
		if s.command, s.err = readRaw(raw); s.err != nil {
			return
		}
		raw.Write(refFrame(s.command.id, 0, []byte(resp)))
	}()
	var cli mcnet.RCONClientConn
	var derr, cerr error
	var got string
	pan := c.Guard("peer/client", wit, func() {
		cli, derr = mcnet.DialRCON(ln.Addr().String(), clientPW)
		if derr != nil {
			return
		}
		if cerr = cli.Cmd(cmd); cerr != nil {
			return
		}
		got, cerr = cli.Resp()
	})
	if cli != nil {
		cli.Close()
	}
	s := <-ch
	c.Eval(vm.HashStr("peer-server", serverPW, cmd, fmt.Sprint(match)), true)
	if pan {
		return
	}
	for _, e := range []error{s.err, derr, cerr} {
		if e != nil && (errors.Is(e, os.ErrDeadlineExceeded) || strings.Contains(e.Error(), "i/o timeout")) {
			c.Inconclusive("hand-written server session hit its 20 s watchdog")
			return
		}
	}
	if s.login.typ != 3 || s.login.payload != clientPW {
		c.Violation("peer/client-login-packet", fmt.Sprintf("the client's login packet has type %d and %d payload bytes; the protocol's login is type 3 carrying the password (err %v)", s.login.typ, len(s.login.payload), s.err), wit())
		return
	}
	if !match {
		if derr == nil {
			c.Violation("peer/client-ignores-refusal", "DialRCON reported success although the server answered with id -1", wit())
			return
		}
		c.Cover("peer.client-refused")
		return
	}
	if derr != nil || cerr != nil {
		c.Violation("peer/client-fails-against-conformant-server", fmt.Sprintf("login %v, command/response %v", derr, cerr), wit())
		return
	}
	if s.command.typ != 2 || s.command.payload != cmd {
		c.Violation("peer/client-command-packet", fmt.Sprintf("the client's command packet has type %d (protocol: 2) and payload equal=%v", s.command.typ, s.command.payload == cmd), wit())
		return
	}
	if got != resp {
		c.Violation("peer/client-response-altered", "the response of the hand-written server did not reach the caller verbatim", wit())
		return
	}
	c.Cover("peer.client-ok")
}

// libraryServerAgainstPeer: AcceptLogin / AcceptCmd / RespCmd against a hand-written client.
func libraryServerAgainstPeer(c *vm.Ctx, r *vm.Rand) {
	a, b := net.Pipe()
	defer a.Close()
	defer b.Close()
	a.SetDeadline(time.Now().Add(20 * time.Second))
	b.SetDeadline(time.Now().Add(20 * time.Second))
	serverPW, cmd, resp := textPayload(r), textPayload(r), textPayload(r)
	clientPW := serverPW
	match := r.Intn(3) != 0
	if !match {
		clientPW = "x" + serverPW
	}
	// any request id, -1 included: on the wire -1 is how a refusal looks, but whether the server lets the client in is
	// decided by the password alone
	loginID, cmdID := genI32(r), genI32(r)
	if r.Intn(6) == 0 {
		loginID = -1
	}
	wit := func() any {
		return map[string]any{"peer": "hand-written client", "passwords_equal": match, "login_id": loginID, "command_id": cmdID}
	}
	type res struct {
		loginErr, cmdErr error
		cmd              string
		panicked         any
	}
	ch := make(chan res, 1)
	go func() {
		var s res
		defer func() {
			s.panicked = recover()
			b.Close() // a server that gave up answers nothing: the client's read ends instead of waiting
			ch <- s
		}()
		srv := &mcnet.RCONConn{Conn: b}
		if s.loginErr = srv.AcceptLogin(serverPW); s.loginErr != nil {
			return
		}
		if s.cmd, s.cmdErr = srv.AcceptCmd(); s.cmdErr != nil {
			return
		}
		s.cmdErr = srv.RespCmd(resp)
	}()
	var ans, rp rawPkt
	var e1, e2 error
	a.Write(refFrame(loginID, 3, []byte(clientPW)))
	ans, e1 = readRaw(a)
	if e1 == nil && match {
		a.Write(refFrame(cmdID, 2, []byte(cmd)))
		rp, e2 = readRaw(a)
	}
	a.Close()
	s := <-ch
	c.Eval(vm.HashStr("peer-client", serverPW, cmd, fmt.Sprint(match, loginID, cmdID)), true)
	for _, e := range []error{e1, e2, s.loginErr, s.cmdErr} {
		if e != nil && errors.Is(e, os.ErrDeadlineExceeded) {
			c.Inconclusive("hand-written client session hit its 20 s watchdog")
			return
		}
	}
	if s.panicked != nil {
		c.Violation("peer/server-panic", fmt.Sprint("server side panicked: ", s.panicked), wit())
		return
	}
	if e1 != nil {
		c.Violation("peer/server-login-answer-unreadable", "the server's answer to a login is not a frame: "+e1.Error(), wit())
		return
	}
	if !match {
		if ans.id != -1 || s.loginErr == nil {
			c.Violation("peer/server-refusal", fmt.Sprintf("wrong password: the answer has id %d (protocol: -1), AcceptLogin returned %v", ans.id, s.loginErr), wit())
			return
		}
		c.Cover("peer.server-refuses")
		if loginID == -1 {
			c.Cover("peer.server-refuses.login-id-minus-one")
		}
		return
	}
	if ans.id != loginID || ans.typ != 2 || s.loginErr != nil {
		c.Violation("peer/server-login-answer", fmt.Sprintf("right password: the answer has id %d type %d (protocol: the login's id %d, type 2), AcceptLogin returned %v", ans.id, ans.typ, loginID, s.loginErr), wit())
		return
	}
	if e2 != nil || s.cmdErr != nil {
		c.Violation("peer/server-fails-against-conformant-client", fmt.Sprintf("reading the response: %v; server side: %v", e2, s.cmdErr), wit())
		return
	}
	if s.cmd != cmd {
		c.Violation("peer/server-command-altered", "the command of the hand-written client did not reach AcceptCmd verbatim", wit())
		return
	}
	if rp.id != cmdID || rp.typ != 0 || rp.payload != resp {
		c.Violation("peer/server-response-packet", fmt.Sprintf("the response has id %d type %d (protocol: the command's id %d, type 0), payload equal=%v", rp.id, rp.typ, cmdID, rp.payload == resp), wit())
		return
	}
	c.Cover("peer.server-ok")
}
