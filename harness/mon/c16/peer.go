package main

import (
	"encoding/binary"
	"errors"
	"fmt"
	"io"
	"net"
	"os"
	"strings"
	"time"

	mcnet "github.com/Tnze/go-mc/net"

	"verif/vm"
)

// A peer that is not the library: frames are built by refFrame and read by readRaw below, and the packet types are
// the Source RCON ones written down here (3 = login, 2 = login answer and command, 0 = command response, id -1 =
// login refused). The library's client and server are each run against it, so that a deviation the library's two
// sides share still shows.

type rawPkt struct {
	id, typ int32
	payload string
}

func readRaw(rd io.Reader) (rawPkt, error) {
	var hdr [4]byte
	if _, err := io.ReadFull(rd, hdr[:]); err != nil {
		return rawPkt{}, err
	}
	n := int32(binary.LittleEndian.Uint32(hdr[:]))
	if n < 10 || n > 4110 {
		return rawPkt{}, fmt.Errorf("declared length %d", n)
	}
	body := make([]byte, n)
	if _, err := io.ReadFull(rd, body); err != nil {
		return rawPkt{}, err
	}
	if body[n-1] != 0 || body[n-2] != 0 {
		return rawPkt{}, fmt.Errorf("frame does not end in two zero bytes")
	}
	return rawPkt{int32(binary.LittleEndian.Uint32(body)), int32(binary.LittleEndian.Uint32(body[4:])), string(body[8 : n-2])}, nil
}

// textPayload: in two thirds of the sessions (raw == false) a text of at most 1000 bytes without 0x00; in the others
// whatever genPayload gives, up to the maximal payload and with 0x00 bytes.
func textPayload(r *vm.Rand, raw bool) string {
	b := genPayload(r)
	if raw {
		return string(b)
	}
	for i := range b {
		if b[i] == 0 {
			b[i] = 'z'
		}
	}
	if len(b) > 1000 {
		b = b[:1000]
	}
	return string(b)
}

// libraryClientAgainstPeer: DialRCON / Cmd / Resp against a hand-written server.
func libraryClientAgainstPeer(c *vm.Ctx, r *vm.Rand) {
	ln, err := net.Listen("tcp", "127.0.0.1:0")
	if err != nil {
		c.Inconclusive("listen: " + err.Error())
		return
	}
	defer ln.Close()
	raw := r.Intn(3) == 0
	serverPW, cmd, resp := textPayload(r, raw), textPayload(r, raw), textPayload(r, raw)
	clientPW := serverPW
	match := r.Intn(3) != 0
	if !match {
		if len(serverPW) < maxPayload {
			clientPW = serverPW + "x"
		} else {
			clientPW = serverPW[1:]
		}
	}
	wit := func() any {
		return map[string]any{"peer": "hand-written server", "passwords_equal": match, "server_password": serverPW, "command": cmd, "response_bytes": len(resp)}
	}
	type seen struct {
		login, command rawPkt
		err            error
	}
	ch := make(chan seen, 1)
	go func() {
		var s seen
		defer func() { ch <- s }()
		raw, err := ln.Accept()
		if err != nil {
			s.err = err
			return
		}
		defer raw.Close()
		raw.SetDeadline(time.Now().Add(20 * time.Second))
		if s.login, s.err = readRaw(raw); s.err != nil {
			return
		}
		if s.login.payload != serverPW {
			raw.Write(refFrame(-1, 2, nil))
			return
		}
		raw.Write(refFrame(s.login.id, 2, nil))
		if s.command, s.err = readRaw(raw); s.err != nil {
			return
		}
		raw.Write(refFrame(s.command.id, 0, []byte(resp)))
	}()
	var cli mcnet.RCONClientConn
	var derr, cerr error
	var got string
	pan := c.Guard("peer/client", wit, func() {
		cli, derr = mcnet.DialRCON(ln.Addr().String(), clientPW)
		if derr != nil {
			return
		}
		if cerr = cli.Cmd(cmd); cerr != nil {
			return
		}
		got, cerr = cli.Resp()
	})
	if cli != nil {
		cli.Close()
	}
	s := <-ch
	c.Eval(vm.HashStr("peer-server", serverPW, cmd, fmt.Sprint(match)), true)
	if pan {
		return
	}
	for _, e := range []error{s.err, derr, cerr} {
		if e != nil && (errors.Is(e, os.ErrDeadlineExceeded) || strings.Contains(e.Error(), "i/o timeout")) {
			c.Inconclusive("hand-written server session hit its 20 s watchdog")
			return
		}
	}
	if s.login.typ != 3 || s.login.payload != clientPW {
		c.Violation("peer/client-login-packet", fmt.Sprintf("the client's login packet has type %d and %d payload bytes; the protocol's login is type 3 carrying the password (err %v)", s.login.typ, len(s.login.payload), s.err), wit())
		return
	}
	if !match {
		if derr == nil {
			c.Violation("peer/client-ignores-refusal", "DialRCON reported success although the server answered with id -1", wit())
			return
		}
		c.Cover("peer.client-refused")
		return
	}
	if derr != nil || cerr != nil {
		c.Violation("peer/client-fails-against-conformant-server", fmt.Sprintf("login %v, command/response %v", derr, cerr), wit())
		return
	}
	if s.command.typ != 2 || s.command.payload != cmd {
		c.Violation("peer/client-command-packet", fmt.Sprintf("the client's command packet has type %d (protocol: 2) and payload equal=%v", s.command.typ, s.command.payload == cmd), wit())
		return
	}
	if got != resp {
		c.Violation("peer/client-response-altered", "the response of the hand-written server did not reach the caller verbatim", wit())
		return
	}
	c.Cover("peer.client-ok")
	if strings.IndexByte(cmd, 0) >= 0 && strings.IndexByte(resp, 0) >= 0 {
		c.Cover("peer.client-ok.payloads-with-nul")
	}
	if len(cmd) == maxPayload || len(resp) == maxPayload || len(serverPW) == maxPayload {
		c.Cover("peer.client-ok.max-payload")
	}
}

// libraryServerAgainstPeer: AcceptLogin / AcceptCmd / RespCmd against a hand-written client.
func libraryServerAgainstPeer(c *vm.Ctx, r *vm.Rand) {
	a, b := net.Pipe()
	defer a.Close()
	defer b.Close()
	a.SetDeadline(time.Now().Add(20 * time.Second))
	b.SetDeadline(time.Now().Add(20 * time.Second))
	raw := r.Intn(3) == 0
	serverPW, cmd, resp := textPayload(r, raw), textPayload(r, raw), textPayload(r, raw)
	clientPW := serverPW
	match := r.Intn(3) != 0
	if !match {
		if len(serverPW) < maxPayload {
			clientPW = "x" + serverPW
		} else {
			clientPW = serverPW[1:]
		}
	}
	// the packet types the client uses: 3 for the login and 2 for the command, or - in some sessions with the right
	// password - another type for one of the two: such a first frame is not a login and such a second frame is not a
	// command, whatever they carry
	loginType, cmdType := int32(3), int32(2)
	if match {
		switch r.Intn(8) {
		case 0:
			loginType = []int32{2, 0, 1, -1, 3 | 1<<8, 3 | -1<<31}[r.Intn(6)]
		case 1:
			cmdType = []int32{3, 0, 1, -1, 2 | 1<<8, 2 | -1<<31}[r.Intn(6)]
		}
	}
	// any request id, -1 included: on the wire -1 is how a refusal looks, but whether the server lets the client in is
	// decided by the password alone
	loginID, cmdID := genI32(r), genI32(r)
	if r.Intn(6) == 0 {
		loginID = -1
	}
	wit := func() any {
		return map[string]any{"peer": "hand-written client", "passwords_equal": match, "server_password": serverPW, "login_id": loginID, "login_type": loginType,
			"command_id": cmdID, "command_type": cmdType, "command": cmd, "response_bytes": len(resp)}
	}
	type res struct {
		loginErr, cmdErr error
		cmd              string
		cmdAccepted      bool // AcceptCmd returned without error
		panicked         any
	}
	ch := make(chan res, 1)
	go func() {
		var s res
		defer func() {
			s.panicked = recover()
			b.Close() // a server that gave up answers nothing: the client's read ends instead of waiting
			ch <- s
		}()
		srv := &mcnet.RCONConn{Conn: b}
		if s.loginErr = srv.AcceptLogin(serverPW); s.loginErr != nil {
			return
		}
		if s.cmd, s.cmdErr = srv.AcceptCmd(); s.cmdErr != nil {
			return
		}
		s.cmdAccepted = true
		s.cmdErr = srv.RespCmd(resp)
	}()
	var ans, rp rawPkt
	var e1, e2 error
	a.Write(refFrame(loginID, loginType, []byte(clientPW)))
	ans, e1 = readRaw(a)
	if e1 == nil && match && loginType == 3 {
		a.Write(refFrame(cmdID, cmdType, []byte(cmd)))
		rp, e2 = readRaw(a)
	}
	a.Close()
	s := <-ch
	c.Eval(vm.HashStr("peer-client", serverPW, cmd, fmt.Sprint(match, loginID, cmdID)), true)
	for _, e := range []error{e1, e2, s.loginErr, s.cmdErr} {
		if e != nil && errors.Is(e, os.ErrDeadlineExceeded) {
			c.Inconclusive("hand-written client session hit its 20 s watchdog")
			return
		}
	}
	if s.panicked != nil {
		c.Violation("peer/server-panic", fmt.Sprint("server side panicked: ", s.panicked), wit())
		return
	}
	if loginType != 3 {
		// the right password in a frame that is not a login: nobody logged in. The server must report that, and whatever
		// it answers (the library answers nothing) must not be the acceptance, i.e. the frame's id echoed.
		if s.loginErr == nil {
			c.Violation("peer/server-login-wrong-type-accepted", fmt.Sprintf("AcceptLogin returned nil for a first frame of type %d (a login has type 3) carrying the password", loginType), wit())
			return
		}
		if e1 == nil && ans.id == loginID && loginID != -1 {
			c.Violation("peer/server-login-wrong-type-answered", fmt.Sprintf("a first frame of type %d (a login has type 3) was answered with its own id %d, which is how an acceptance looks", loginType, loginID), wit())
			return
		}
		c.Cover("peer.server-rejects-login-type")
		return
	}
	if e1 != nil {
		c.Violation("peer/server-login-answer-unreadable", "the server's answer to a login is not a frame: "+e1.Error(), wit())
		return
	}
	if !match {
		if ans.id != -1 || s.loginErr == nil {
			c.Violation("peer/server-refusal", fmt.Sprintf("wrong password: the answer has id %d (protocol: -1), AcceptLogin returned %v", ans.id, s.loginErr), wit())
			return
		}
		if ans.typ != 2 || ans.payload != "" {
			c.Violation("peer/server-refusal-frame", fmt.Sprintf("wrong password: the answer has type %d and %d payload bytes; the protocol's refusal is the frame %s", ans.typ, len(ans.payload), vm.Hex(refFrame(-1, 2, nil))), wit())
			return
		}
		c.Cover("peer.server-refusal-frame-exact")
		c.Cover("peer.server-refuses")
		if loginID == -1 {
			c.Cover("peer.server-refuses.login-id-minus-one")
		}
		return
	}
	if ans.id != loginID || ans.typ != 2 || s.loginErr != nil {
		c.Violation("peer/server-login-answer", fmt.Sprintf("right password: the answer has id %d type %d (protocol: the login's id %d, type 2), AcceptLogin returned %v", ans.id, ans.typ, loginID, s.loginErr), wit())
		return
	}
	if ans.payload != "" {
		c.Violation("peer/server-login-answer-payload", fmt.Sprintf("right password: the answer carries %d payload bytes; the protocol's acceptance is the frame %s", len(ans.payload), vm.Hex(refFrame(loginID, 2, nil))), wit())
		return
	}
	c.Cover("peer.server-acceptance-frame-exact")
	if cmdType != 2 {
		// logged in, then a frame that is not a command
		if s.cmdAccepted {
			c.Violation("peer/server-command-wrong-type-accepted", fmt.Sprintf("AcceptCmd returned nil for a frame of type %d (a command has type 2)", cmdType), wit())
			return
		}
		c.Cover("peer.server-rejects-command-type")
		return
	}
	if e2 != nil || s.cmdErr != nil {
		c.Violation("peer/server-fails-against-conformant-client", fmt.Sprintf("reading the response: %v; server side: %v", e2, s.cmdErr), wit())
		return
	}
	if s.cmd != cmd {
		c.Violation("peer/server-command-altered", "the command of the hand-written client did not reach AcceptCmd verbatim", wit())
		return
	}
	if rp.id != cmdID || rp.typ != 0 || rp.payload != resp {
		c.Violation("peer/server-response-packet", fmt.Sprintf("the response has id %d type %d (protocol: the command's id %d, type 0), payload equal=%v", rp.id, rp.typ, cmdID, rp.payload == resp), wit())
		return
	}
	c.Cover("peer.server-ok")
	if strings.IndexByte(cmd, 0) >= 0 && strings.IndexByte(resp, 0) >= 0 {
		c.Cover("peer.server-ok.payloads-with-nul")
	}
	if len(cmd) == maxPayload || len(resp) == maxPayload || len(serverPW) == maxPayload {
		c.Cover("peer.server-ok.max-payload")
	}
}
