package main

import (
	"bytes"
	"fmt"

	mcnet "github.com/Tnze/go-mc/net"

	"verif/vm"
)

// directIDs: Cmd / Resp on a client whose id in use is chosen here instead of drawn by DialRCON (which only draws
// non-negative ids), so that -1, 0 and the int32 extremes are ids in use too. The connection is in memory; the other
// side is the reference framer. A history of 1..6 commands: each command must leave as the frame (id in use, type 2,
// command), each answer is one reference frame and must be accepted exactly when it carries the id in use and type 0.
// An answer that was refused has been consumed as a whole frame, so the history goes on after it.
func directIDs(c *vm.Ctx, r *vm.Rand) {
	x := genI32(r)
	if r.Intn(5) == 0 {
		x = -1
	}
	in := new(bytes.Buffer)
	mc := &memConn{r: in}
	cli := &mcnet.RCONConn{Conn: mc, ReqID: x}
	steps := r.Range(1, 6)
	var log []string
	wit := func() any { return map[string]any{"id_in_use": x, "history": log} }
	for i := 0; i < steps; i++ {
		cmd := shortPayload(r)
		resp := shortPayload(r)
		// the id the answer carries
		y, typ, kind := x, int32(0), "id-in-use"
		switch r.Intn(12) {
		case 0:
			y, kind = x^(1<<24), "high-byte-differs"
		case 1:
			y, kind = -x, "negated"
		case 2:
			y, kind = x-1, "predecessor"
		case 3:
			y, kind = 0, "zero"
		case 4:
			y, kind = x^(-1<<31), "sign-differs"
		case 5:
			y, kind = ^x, "complement"
		case 6:
			y, kind = -1, "minus-one"
		case 7:
			y, kind = x^(1<<uint(r.Intn(32))), "one-bit-differs"
		case 8:
			typ, kind = []int32{2, 3, 1, -1, 1 << 8, -1 << 31}[r.Intn(6)], "type-not-0"
		}
		if typ == 0 && y == x {
			kind = "id-in-use" // x = 0 negated, x = -1 under "minus-one", ...
		}
		log = append(log, fmt.Sprintf("command %d bytes; answer under id %d type %d (%s) with %d bytes", len(cmd), y, typ, kind, len(resp)))
		mc.w.Reset()
		var err error
		if c.Guard("direct/cmd", wit, func() { err = cli.Cmd(string(cmd)) }) {
			return
		}
		if err != nil {
			c.Violation("direct/cmd-error", "Cmd failed on an in-memory connection: "+err.Error(), wit())
			return
		}
		if want := refFrame(x, 2, cmd); !bytes.Equal(mc.w.Bytes(), want) {
			c.Violation("direct/command-frame", fmt.Sprintf("step %d: Cmd wrote %s; the command under the id in use is %s", i, vm.Hex(mc.w.Bytes()[:min(mc.w.Len(), 40)]), vm.Hex(want[:min(len(want), 40)])), wit())
			return
		}
		in.Write(refFrame(y, typ, resp))
		var got string
		if c.Guard("direct/resp", wit, func() { got, err = cli.Resp() }) {
			return
		}
		c.Eval(vm.HashStr("direct", fmt.Sprint(x, y, typ, i), string(cmd), string(resp)), true)
		if in.Len() != 0 {
			c.Violation("direct/answer-not-consumed", fmt.Sprintf("step %d: %d bytes of the answer frame were left unread", i, in.Len()), wit())
			return
		}
		if kind == "id-in-use" {
			if err != nil || got != string(resp) {
				c.Violation("direct/right-id-rejected", fmt.Sprintf("step %d: an answer under the id in use (%d) with type 0 was rejected or altered: err=%v, payload equal=%v", i, x, err, got == string(resp)), wit())
				return
			}
			c.Cover("direct.accepted")
			switch {
			case x == -1:
				c.Cover("direct.accepted.id-minus-one")
			case x == 0:
				c.Cover("direct.accepted.id-zero")
			case x < 0:
				c.Cover("direct.accepted.id-negative")
			}
			continue
		}
		if err == nil {
			c.Violation("direct/accepted-"+kind, fmt.Sprintf("step %d: Resp accepted an answer under id %d type %d while the id in use is %d", i, y, typ, x), wit())
			return
		}
		c.Cover("direct.rejected." + kind)
	}
}

// shortPayload: mostly short, sometimes any legal length; bytes of any value.
func shortPayload(r *vm.Rand) []byte {
	if r.Intn(16) == 0 {
		return genPayload(r)
	}
	return r.Bytes(r.Intn(24))
}
