package main

import (
	"bytes"
	"fmt"
	"os"
	"strings"
	"sync"

	mcnet "github.com/Tnze/go-mc/net"

	"verif/inject"
	"verif/vm"
)

// Second blind-spot review. Everything here runs over in-memory connections (memConn) and is judged by the reference
// framer alone: the dimensions added are (1) several connections used at the same time by goroutines of their own,
// (2) one handle for many frames with reads and writes interleaved and any id in use, (3) the password comparison of
// AcceptLogin over many more kinds of near-miss pairs and over several attempts on one connection, (4) a server
// handling a history of commands whose ids change, with none or several responses per command, (5) a client issuing
// commands and collecting answers in other orders than command-answer-command-answer.

// ---- (1) independent connections at the same time

type connJob struct {
	frames []frame
	plan   []int
	reqID  int32
	wrote  []byte
	diff   string // first deviation seen by the goroutine
}

func concurrentConns(c *vm.Ctx, r *vm.Rand) {
	const workers = 8
	jobs := make([]*connJob, workers)
	for i := range jobs {
		j := &connJob{reqID: genI32(r), plan: []int{r.Range(1, 9), r.Range(1, 4), r.Range(1, 5000)}}
		for k := r.Range(3, 12); k > 0; k-- {
			j.frames = append(j.frames, frame{genI32(r), genI32(r), genPayload(r)})
		}
		jobs[i] = j
	}
	wit := func() any {
		var d []string
		for i, j := range jobs {
			d = append(d, fmt.Sprintf("goroutine %d: %d frames, first payload %d bytes", i, len(j.frames), len(j.frames[0].payload)))
		}
		return map[string]any{"goroutines": workers, "jobs": d}
	}
	var wg sync.WaitGroup
	start := make(chan struct{})
	for _, j := range jobs {
		wg.Add(1)
		go func(j *connJob) {
			defer wg.Done()
			<-start
			c.Guard("concurrent", wit, func() {
				mc := &memConn{r: bytes.NewReader(nil)}
				conn := &mcnet.RCONConn{Conn: mc, ReqID: j.reqID}
				for i, f := range j.frames {
					before := mc.w.Len()
					if err := conn.WritePacket(f.id, f.typ, string(f.payload)); err != nil {
						j.diff = fmt.Sprintf("WritePacket of frame %d failed: %v", i, err)
						return
					}
					if got, want := mc.w.Bytes()[before:], refFrame(f.id, f.typ, f.payload); !bytes.Equal(got, want) {
						j.diff = fmt.Sprintf("frame %d (id=%d type=%d payload=%d bytes): wrote %s, the layout is %s", i, f.id, f.typ, len(f.payload), vm.Hex(got[:min(len(got), 40)]), vm.Hex(want[:min(len(want), 40)]))
						return
					}
				}
				j.wrote = append([]byte{}, mc.w.Bytes()...)
				src := &inject.ChunkReader{B: j.wrote, Plan: j.plan}
				rd := &mcnet.RCONConn{Conn: &memConn{r: src}, ReqID: j.reqID}
				for i, f := range j.frames {
					id, typ, p, err := rd.ReadPacket()
					if err != nil || id != f.id || typ != f.typ || p != string(f.payload) {
						j.diff = fmt.Sprintf("frame %d read back as id=%d type=%d payload=%d bytes err=%v; written id=%d type=%d payload=%d bytes", i, id, typ, len(p), err, f.id, f.typ, len(f.payload))
						return
					}
				}
				if n := len(src.Rest()); n != 0 {
					j.diff = fmt.Sprintf("%d bytes left after reading all frames", n)
				}
			})
		}(j)
	}
	close(start)
	wg.Wait()
	c.Eval(vm.HashStr("concurrent", fmt.Sprint(r.Uint64())), true)
	for i, j := range jobs {
		if j.diff != "" {
			c.Violation("concurrent/frames-of-unrelated-connections", fmt.Sprintf("with %d connections in use at once, goroutine %d: %s", workers, i, j.diff), wit())
			return
		}
	}
	c.Cover("concurrent.unrelated-connections-ok")
}

// ---- (2) one handle, many frames, reads and writes interleaved, any id in use

func oneHandle(c *vm.Ctx, r *vm.Rand) {
	nIn, nOut := r.Range(1, 10), r.Range(2, 10)
	ins, outs := make([]frame, nIn), make([]frame, nOut)
	var stream, wantOut []byte
	for i := range ins {
		ins[i] = frame{genI32(r), genI32(r), genPayload(r)}
		stream = append(stream, refFrame(ins[i].id, ins[i].typ, ins[i].payload)...)
	}
	for i := range outs {
		outs[i] = frame{genI32(r), genI32(r), genPayload(r)}
		if i > 0 && r.Intn(3) == 0 { // a short frame right after a long one
			outs[i].payload = r.Bytes(r.Intn(3))
		}
		wantOut = append(wantOut, refFrame(outs[i].id, outs[i].typ, outs[i].payload)...)
	}
	reqID := genI32(r)
	var order []byte // 'r' / 'w'
	wit := func() any {
		var di, do []string
		for _, f := range ins {
			di = append(di, fmt.Sprintf("id=%d type=%d payload=%d bytes", f.id, f.typ, len(f.payload)))
		}
		for _, f := range outs {
			do = append(do, fmt.Sprintf("id=%d type=%d payload=%d bytes", f.id, f.typ, len(f.payload)))
		}
		return map[string]any{"ReqID_of_the_handle": reqID, "incoming_frames": di, "written_frames": do, "order_of_calls": string(order)}
	}
	src := &inject.ChunkReader{B: stream, Plan: []int{r.Range(1, 7), r.Range(1, 4000)}}
	mc := &memConn{r: src}
	conn := &mcnet.RCONConn{Conn: mc, ReqID: reqID}
	ri, wi := 0, 0
	for ri < nIn || wi < nOut {
		read := ri < nIn && (wi >= nOut || r.Bool())
		if read {
			order = append(order, 'r')
			var id, typ int32
			var p string
			var err error
			if c.Guard("handle/read", wit, func() { id, typ, p, err = conn.ReadPacket() }) {
				return
			}
			f := ins[ri]
			if err != nil || id != f.id || typ != f.typ || p != string(f.payload) {
				c.Violation("handle/roundtrip", fmt.Sprintf("incoming frame %d read as id=%d type=%d payload=%d bytes err=%v after calls %s", ri, id, typ, len(p), err, order), wit())
				return
			}
			ri++
			continue
		}
		order = append(order, 'w')
		var err error
		f := outs[wi]
		if c.Guard("handle/write", wit, func() { err = conn.WritePacket(f.id, f.typ, string(f.payload)) }) {
			return
		}
		if err != nil {
			c.Violation("handle/write-error", "WritePacket failed: "+err.Error(), wit())
			return
		}
		wi++
	}
	c.Eval(vm.Hash64(wantOut[:min(len(wantOut), 64)], []byte(order)), true)
	if !bytes.Equal(mc.w.Bytes(), wantOut) {
		c.Violation("handle/written-stream", fmt.Sprintf("%d frames written through one handle give %d bytes; the concatenation of their layouts has %d (first difference at byte %d)", nOut, mc.w.Len(), len(wantOut), firstDiff(mc.w.Bytes(), wantOut)), wit())
		return
	}
	if len(src.Rest()) != 0 {
		c.Violation("handle/self-delimiting", fmt.Sprintf("%d bytes left after reading all %d incoming frames", len(src.Rest()), nIn), wit())
		return
	}
	c.Cover("handle.many-frames-interleaved")
	if reqID == -1 || reqID < 0 {
		c.Cover("handle.negative-id-in-use")
	}
}

func firstDiff(a, b []byte) int {
	for i := 0; i < len(a) && i < len(b); i++ {
		if a[i] != b[i] {
			return i
		}
	}
	return min(len(a), len(b))
}

// ---- (3) AcceptLogin: near-miss password pairs, several attempts on one connection

// nearMiss returns a password different from pw (kind names the difference) or, for kind "equal", pw itself.
func nearMiss(r *vm.Rand, pw string) (string, string) {
	kinds := []string{"equal", "equal", "equal", "trailing-space", "leading-space", "trailing-newline", "trailing-crlf", "trailing-tab", "last-byte-differs",
		"first-byte-differs", "middle-byte-differs", "non-ascii-case", "decomposed-accent", "leading-nul", "doubled", "one-bit-in-last-byte", "case-of-every-letter", "last-byte-dropped"}
	kind := kinds[r.Intn(len(kinds))]
	flip := func(i int, x byte) string {
		b := []byte(pw)
		b[i] ^= x
		return string(b)
	}
	switch kind {
	case "trailing-space":
		return pw + " ", kind
	case "leading-space":
		return " " + pw, kind
	case "trailing-newline":
		return pw + "\n", kind
	case "trailing-crlf":
		return pw + "\r\n", kind
	case "trailing-tab":
		return pw + "\t", kind
	case "leading-nul":
		return "\x00" + pw, kind
	case "doubled":
		if pw != "" {
			return pw + pw, kind
		}
	case "last-byte-differs":
		if pw != "" {
			return flip(len(pw)-1, 0x55), kind
		}
	case "one-bit-in-last-byte":
		if pw != "" {
			return flip(len(pw)-1, 1<<uint(r.Intn(8))), kind
		}
	case "first-byte-differs":
		if pw != "" {
			return flip(0, 0x2a), kind
		}
	case "middle-byte-differs":
		if len(pw) >= 3 {
			return flip(len(pw)/2, 0x11), kind
		}
	case "last-byte-dropped":
		if pw != "" {
			return pw[:len(pw)-1], kind
		}
	case "non-ascii-case":
		if strings.Contains(pw, "\u00e4") {
			return strings.Replace(pw, "\u00e4", "\u00c4", 1), kind
		}
	case "decomposed-accent":
		if strings.Contains(pw, "\u00e4") {
			return strings.Replace(pw, "\u00e4", "a\u0308", 1), kind // the same letter as a + combining diaeresis
		}
	case "case-of-every-letter":
		if s := strings.ToUpper(pw); s != pw {
			return s, kind
		}
	}
	return pw, "equal"
}

func loginDirect(c *vm.Ctx, r *vm.Rand) {
	attempts := r.Range(1, 4)
	type att struct {
		id             int32
		server, client string
		kind           string
	}
	var as []att
	var in []byte
	base := []string{"hunter2", "p\u00e4ssw\u00f6rd", "Tr0ub4dor&3", "a", "p w", "correct horse battery staple", "x\x00y", ""}[r.Intn(8)]
	switch r.Intn(6) {
	case 0: // long passwords: the length field's second byte is in use, up to the largest payload
		n := []int{245, 246, 247, 255, 256, 1000, maxPayload - 2, maxPayload - 1}[r.Intn(8)]
		b := r.Bytes(n)
		for i := range b {
			b[i] = '!' + b[i]%90
		}
		base = string(b)
	}
	for i := 0; i < attempts; i++ {
		a := att{id: genI32(r), server: base}
		if r.Intn(5) == 0 {
			a.id = -1
		}
		a.client, a.kind = nearMiss(r, base)
		if r.Bool() && a.kind != "equal" { // the near miss on the server's side
			a.server, a.client = a.client, a.server
		}
		if len(a.client) > maxPayload {
			a.client, a.kind = a.server, "equal"
		}
		as = append(as, a)
		in = append(in, refFrame(a.id, 3, []byte(a.client))...)
	}
	var log []string
	wit := func() any { return map[string]any{"attempts_on_one_connection": log} }
	mc := &memConn{r: bytes.NewReader(in)}
	srv := &mcnet.RCONConn{Conn: mc}
	prevAccepted, prevRefused := false, false
	for i, a := range as {
		log = append(log, fmt.Sprintf("login id=%d: server password %q, client password %q (%s)", a.id, trunc(a.server), trunc(a.client), a.kind))
		mc.w.Reset()
		var err error
		if c.Guard("login-direct", wit, func() { err = srv.AcceptLogin(a.server) }) {
			return
		}
		c.Eval(vm.HashStr("login-direct", a.server, a.client, fmt.Sprint(a.id, i)), true)
		equal := a.server == a.client
		if equal && err != nil {
			c.Violation("login-direct/equal-passwords-rejected", fmt.Sprintf("attempt %d: AcceptLogin returned %v although the passwords are equal", i, err), wit())
			return
		}
		if !equal && err == nil {
			c.Violation("login-direct/wrong-password-accepted/"+a.kind, fmt.Sprintf("attempt %d: AcceptLogin returned nil although the passwords differ (%s)", i, a.kind), wit())
			return
		}
		want := refFrame(-1, 2, nil)
		if equal {
			want = refFrame(a.id, 2, nil)
		}
		if !bytes.Equal(mc.w.Bytes(), want) {
			c.Violation("login-direct/answer-frame", fmt.Sprintf("attempt %d (passwords equal: %v): the answer is %s; the protocol's answer is %s", i, equal, vm.Hex(mc.w.Bytes()[:min(mc.w.Len(), 40)]), vm.Hex(want)), wit())
			return
		}
		if equal {
			c.Cover("login-direct.accepted")
			if len(a.server) >= 246 {
				c.Cover("login-direct.accepted.long-password")
			}
			if prevRefused {
				c.Cover("login-direct.accepted-after-a-refusal-on-the-same-connection")
			}
			prevAccepted = true
		} else {
			c.Cover("login-direct.rejected." + a.kind)
			if len(a.server) >= 246 {
				c.Cover("login-direct.rejected.long-password")
			}
			if prevAccepted {
				c.Cover("login-direct.rejected-after-an-acceptance-on-the-same-connection")
			}
			prevRefused = true
		}
	}
}

func trunc(s string) string {
	if len(s) > 48 {
		return fmt.Sprintf("%s...(%d bytes)...%s", s[:20], len(s), s[len(s)-8:])
	}
	return s
}

// ---- (4) a server's history: ids that change from command to command, none or several responses per command

func serverHistory(c *vm.Ctx, r *vm.Rand) {
	pw := []string{"pw", "", "a b", "x\x00"}[r.Intn(4)]
	loginID := genI32(r)
	in := refFrame(loginID, 3, []byte(pw))
	want := refFrame(loginID, 2, nil)
	n := r.Range(2, 8)
	type step struct {
		id, typ int32
		cmd     string
		resps   []string
	}
	steps := make([]step, n)
	prev := loginID
	for i := range steps {
		s := step{typ: 2, cmd: string(shortPayload(r))}
		switch r.Intn(8) {
		case 0:
			s.id = prev // the same id again
		case 1:
			s.id = -1
		case 2:
			s.id = 0
		case 3:
			s.id = prev + 1
		case 4:
			s.id = loginID
		default:
			s.id = genI32(r)
		}
		if r.Intn(10) == 0 {
			s.typ = []int32{3, 0, 1, -1, 2 | 1<<8}[r.Intn(5)] // not a command
		}
		prev = s.id
		in = append(in, refFrame(s.id, s.typ, []byte(s.cmd))...)
		if s.typ == 2 {
			for k := []int{1, 1, 1, 0, 2, 3}[r.Intn(6)]; k > 0; k-- {
				rp := string(shortPayload(r))
				s.resps = append(s.resps, rp)
				want = append(want, refFrame(s.id, 0, []byte(rp))...)
			}
		}
		steps[i] = s
	}
	var log []string
	wit := func() any {
		return map[string]any{"password": pw, "login_id": loginID, "history": log}
	}
	mc := &memConn{r: &inject.ChunkReader{B: in, Plan: []int{r.Range(1, 30), r.Range(1, 5000)}}}
	srv := &mcnet.RCONConn{Conn: mc}
	var err error
	if c.Guard("server-history/login", wit, func() { err = srv.AcceptLogin(pw) }) {
		return
	}
	if err != nil {
		c.Violation("server-history/login", "AcceptLogin with the right password failed: "+err.Error(), wit())
		return
	}
	idsChanged, several, none, afterWrong := false, false, false, false
	wrongBefore := false
	for i, s := range steps {
		log = append(log, fmt.Sprintf("frame id=%d type=%d %d bytes, answered %d times", s.id, s.typ, len(s.cmd), len(s.resps)))
		var got string
		if c.Guard("server-history/accept", wit, func() { got, err = srv.AcceptCmd() }) {
			return
		}
		if s.typ != 2 {
			if err == nil {
				c.Violation("server-history/wrong-type-accepted", fmt.Sprintf("step %d: AcceptCmd returned nil for a frame of type %d (a command has type 2)", i, s.typ), wit())
				return
			}
			wrongBefore = true
			continue
		}
		if err != nil {
			c.Violation("server-history/command-rejected", fmt.Sprintf("step %d: AcceptCmd failed on a command frame: %v", i, err), wit())
			return
		}
		if got != s.cmd {
			c.Violation("server-history/command-altered", fmt.Sprintf("step %d: the command did not reach AcceptCmd verbatim (%d bytes for %d)", i, len(got), len(s.cmd)), wit())
			return
		}
		if wrongBefore {
			afterWrong = true
		}
		if i > 0 && steps[i-1].id != s.id {
			idsChanged = true
		}
		for _, rp := range s.resps {
			if c.Guard("server-history/resp", wit, func() { err = srv.RespCmd(rp) }) {
				return
			}
			if err != nil {
				c.Violation("server-history/resp-error", "RespCmd failed on an in-memory connection: "+err.Error(), wit())
				return
			}
		}
		several = several || len(s.resps) > 1
		none = none || len(s.resps) == 0
	}
	c.Eval(vm.Hash64(in[:min(len(in), 96)], []byte(fmt.Sprint(len(in)))), true)
	if !bytes.Equal(mc.w.Bytes(), want) {
		k := firstDiff(mc.w.Bytes(), want)
		c.Violation("server-history/answers", fmt.Sprintf("the server wrote %d bytes; the acceptance and every response under the id of its command (type 0) are %d bytes, first difference at byte %d: %s vs %s", mc.w.Len(), len(want), k,
			vm.Hex(mc.w.Bytes()[min(k, mc.w.Len()):min(k+16, mc.w.Len())]), vm.Hex(want[min(k, len(want)):min(k+16, len(want))])), wit())
		return
	}
	c.Cover("server-history.ok")
	if idsChanged {
		c.Cover("server-history.ids-change-between-commands")
	}
	if several {
		c.Cover("server-history.several-responses-to-one-command")
	}
	if none {
		c.Cover("server-history.command-without-response")
	}
	if afterWrong {
		c.Cover("server-history.command-after-a-frame-of-another-type")
	}
}

// ---- (5) a client's history in other orders: commands sent ahead, several answers to one command, answers
// collected before any command

func clientHistory(c *vm.Ctx, r *vm.Rand) {
	x := genI32(r)
	if r.Intn(5) == 0 {
		x = -1
	}
	in := new(bytes.Buffer)
	mc := &memConn{r: in}
	cli := &mcnet.RCONConn{Conn: mc, ReqID: x}
	var log []string
	var wantOut []byte
	wit := func() any { return map[string]any{"id_in_use": x, "history": log} }
	ops := r.Range(2, 10)
	cmds, answers, run := 0, 0, 0 // run: answers since the last command
	ahead, multi, early := false, false, false
	for i := 0; i < ops; i++ {
		if r.Intn(5) < 2 {
			cmd := shortPayload(r)
			log = append(log, fmt.Sprintf("Cmd(%d bytes)", len(cmd)))
			var err error
			if c.Guard("client-history/cmd", wit, func() { err = cli.Cmd(string(cmd)) }) {
				return
			}
			if err != nil {
				c.Violation("client-history/cmd-error", "Cmd failed on an in-memory connection: "+err.Error(), wit())
				return
			}
			wantOut = append(wantOut, refFrame(x, 2, cmd)...)
			if cmds > answers {
				ahead = true
			}
			cmds++
			run = 0
			continue
		}
		resp := shortPayload(r)
		y, typ, right := x, int32(0), true
		switch r.Intn(6) {
		case 0:
			y = x ^ (1 << uint(r.Intn(32)))
		case 1:
			y = []int32{-1, 0, ^x, -x, x + 1}[r.Intn(5)]
		case 2:
			typ = []int32{2, 3, 1, -1, 1 << 8}[r.Intn(5)]
		}
		right = y == x && typ == 0
		log = append(log, fmt.Sprintf("Resp() of a frame id=%d type=%d %d bytes", y, typ, len(resp)))
		in.Write(refFrame(y, typ, resp))
		var got string
		var err error
		if c.Guard("client-history/resp", wit, func() { got, err = cli.Resp() }) {
			return
		}
		if in.Len() != 0 {
			c.Violation("client-history/answer-not-consumed", fmt.Sprintf("op %d: %d bytes of the answer frame were left unread", i, in.Len()), wit())
			return
		}
		// an answer under the id in use is demanded to be accepted once a command has been sent; before any command
		// only the refusal of foreign answers is judged
		if right && cmds > 0 && (err != nil || got != string(resp)) {
			c.Violation("client-history/right-id-rejected", fmt.Sprintf("op %d: an answer under the id in use (%d) with type 0 was rejected or altered: err=%v, payload equal=%v", i, x, err, got == string(resp)), wit())
			return
		}
		if !right && err == nil {
			c.Violation("client-history/foreign-answer-accepted", fmt.Sprintf("op %d: Resp accepted an answer under id %d type %d while the id in use is %d", i, y, typ, x), wit())
			return
		}
		if right {
			answers++
			run++
			if run > 1 {
				multi = true
			}
			if cmds == 0 {
				early = true
			}
		}
	}
	c.Eval(vm.HashStr("client-history", fmt.Sprint(x), strings.Join(log, ";")), true)
	if !bytes.Equal(mc.w.Bytes(), wantOut) {
		c.Violation("client-history/command-frames", fmt.Sprintf("the client wrote %d bytes for %d commands; the command frames under the id in use are %d bytes (first difference at byte %d)", mc.w.Len(), cmds, len(wantOut), firstDiff(mc.w.Bytes(), wantOut)), wit())
		return
	}
	c.Cover("client-history.ok")
	if ahead {
		c.Cover("client-history.commands-sent-ahead")
	}
	if multi {
		c.Cover("client-history.several-answers-to-one-command")
	}
	if early {
		c.Cover("client-history.answer-before-any-command")
	}
}

// section prints, with VERIF_TIMING set, the CPU seconds used since the previous call (diagnostics only).
var sectionCPU float64

func section(name string) {
	if os.Getenv("VERIF_TIMING") == "" {
		return
	}
	now := vm.CPUSeconds()
	fmt.Fprintf(os.Stderr, "TIMING %-24s %.2f s CPU\n", name, now-sectionCPU)
	sectionCPU = now
}

func runMore(c *vm.Ctx) {
	r := c.Rand("more")
	section("before runMore")
	for i := 0; i < c.Scale(160, 3200); i++ {
		concurrentConns(c, r)
	}
	section("concurrentConns")
	for i := 0; i < c.Scale(2000, 40000); i++ {
		oneHandle(c, r)
	}
	section("oneHandle")
	for i := 0; i < c.Scale(8000, 160000); i++ {
		loginDirect(c, r)
	}
	section("loginDirect")
	for i := 0; i < c.Scale(4000, 80000); i++ {
		serverHistory(c, r)
	}
	section("serverHistory")
	for i := 0; i < c.Scale(4000, 80000); i++ {
		clientHistory(c, r)
	}
	section("clientHistory")
}
