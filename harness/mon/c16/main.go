// Monitor C16: RCON frames and login/command sessions.
package main

import (
	"bytes"
	"encoding/binary"
	"fmt"
	"io"
	"net"
	"sync"
	"time"

	mcnet "github.com/Tnze/go-mc/net"

	"verif/inject"
	"verif/vm"
)

func main() { vm.Main("C16", run) }

// refFrame is the protocol layout: LE int32 length (= 10 + len), LE id, LE type, payload, two zero bytes.
func refFrame(id, typ int32, payload []byte) []byte {
	b := make([]byte, 0, 14+len(payload))
	b = binary.LittleEndian.AppendUint32(b, uint32(10+len(payload)))
	b = binary.LittleEndian.AppendUint32(b, uint32(id))
	b = binary.LittleEndian.AppendUint32(b, uint32(typ))
	b = append(b, payload...)
	return append(b, 0, 0)
}

// rawFrame lets the declared length differ from the body.
func rawFrame(declared int32, body []byte) []byte {
	b := binary.LittleEndian.AppendUint32(nil, uint32(declared))
	return append(b, body...)
}

// memConn is a net.Conn over in-memory buffers: writes are collected, reads come from a reader.
type memConn struct {
	r io.Reader
	w bytes.Buffer
}

func (m *memConn) Read(p []byte) (int, error)       { return m.r.Read(p) }
func (m *memConn) Write(p []byte) (int, error)      { return m.w.Write(p) }
func (m *memConn) Close() error                     { return nil }
func (m *memConn) LocalAddr() net.Addr              { return nil }
func (m *memConn) RemoteAddr() net.Addr             { return nil }
func (m *memConn) SetDeadline(time.Time) error      { return nil }
func (m *memConn) SetReadDeadline(time.Time) error  { return nil }
func (m *memConn) SetWriteDeadline(time.Time) error { return nil }

const maxPayload = mcnet.MaxRCONPackageSize - 10

func genPayload(r *vm.Rand) []byte {
	var n int
	switch r.Intn(8) {
	case 0:
		n = 0
	case 1:
		n = 1
	case 2:
		n = maxPayload
	case 3:
		n = maxPayload - 1
	case 4: // any legal length: the short lengths below leave 300..4084 out
		n = r.Intn(maxPayload + 1)
	default:
		n = r.Intn(300)
	}
	b := r.Bytes(n)
	switch r.Intn(4) {
	case 0: // printable command
		for i := range b {
			b[i] = ' ' + b[i]%90
		}
	case 1: // embedded zero bytes
		for i := 0; i < len(b); i += 3 {
			b[i] = 0
		}
	}
	return b
}

func genI32(r *vm.Rand) int32 {
	switch r.Intn(4) {
	case 0:
		return []int32{0, 1, -1, 2, 3, 1<<31 - 1, -1 << 31, 256, 65536}[r.Intn(9)]
	}
	return int32(r.Uint32())
}

type frame struct {
	id, typ int32
	payload []byte
}

func checkFrames(c *vm.Ctx, r *vm.Rand) {
	k := r.Range(1, 20)
	frames := make([]frame, k)
	var stream []byte
	wit := func() any {
		var d []string
		for _, f := range frames {
			d = append(d, fmt.Sprintf("id=%d type=%d payload=%d bytes", f.id, f.typ, len(f.payload)))
		}
		return map[string]any{"frames": d}
	}
	for i := range frames {
		frames[i] = frame{genI32(r), genI32(r), genPayload(r)}
		mc := &memConn{r: bytes.NewReader(nil)}
		conn := &mcnet.RCONConn{Conn: mc}
		var err error
		if c.Guard("frame/write", wit, func() { err = conn.WritePacket(frames[i].id, frames[i].typ, string(frames[i].payload)) }) {
			return
		}
		if err != nil {
			c.Violation("frame/write-error", "WritePacket failed: "+err.Error(), wit())
			return
		}
		want := refFrame(frames[i].id, frames[i].typ, frames[i].payload)
		if !bytes.Equal(mc.w.Bytes(), want) {
			c.Violation("frame/layout", fmt.Sprintf("frame %d: bytes %s differ from the protocol layout %s", i, vm.Hex(mc.w.Bytes()[:min(mc.w.Len(), 40)]), vm.Hex(want[:min(len(want), 40)])), wit())
			return
		}
		stream = append(stream, want...)
		c.Eval(vm.Hash64(want[:min(len(want), 64)], []byte(fmt.Sprint(len(want)))), len(frames[i].payload) > 0)
		if len(frames[i].payload) == maxPayload {
			c.Cover("frame.max-payload")
		}
		if bytes.IndexByte(frames[i].payload, 0) >= 0 {
			c.Cover("frame.payload-with-nul")
		}
		if n := len(frames[i].payload); n >= 300 && n < maxPayload-1 {
			c.Cover("frame.payload-300..4084")
		}
	}
	// read the concatenation back under a random delivery plan
	plan := []int{r.Range(1, 7), r.Range(1, 3), r.Range(1, 5000)}
	if r.Intn(3) == 0 {
		plan = []int{1}
		c.Cover("delivery.byte-at-a-time")
	}
	src := &inject.ChunkReader{B: stream, Plan: plan}
	conn := &mcnet.RCONConn{Conn: &memConn{r: src}}
	for i := range frames {
		var id, typ int32
		var p string
		var err error
		if c.Guard("frame/read", wit, func() { id, typ, p, err = conn.ReadPacket() }) {
			return
		}
		if err != nil || id != frames[i].id || typ != frames[i].typ || p != string(frames[i].payload) {
			c.Violation("frame/roundtrip", fmt.Sprintf("frame %d of %d read back as id=%d type=%d payload=%d bytes err=%v", i, k, id, typ, len(p), err), wit())
			return
		}
	}
	if len(src.Rest()) != 0 {
		c.Violation("frame/self-delimiting", fmt.Sprintf("%d bytes left after reading all %d frames", len(src.Rest()), k), wit())
		return
	}
	c.Cover("frames.concatenation")
}

func checkBounds(c *vm.Ctx, r *vm.Rand) {
	for _, declared := range []int32{-1, -1 << 31, 0, 1, 9, 10, 11, 4095, 4096, 4097, 5000, 1<<31 - 1,
		// illegal as a whole, legal in the low 8, 12 or 16 bits, or legal in absolute value
		2, 3, 4, 5, 6, 7, 8, 256 + 4096, 65536 + 10, 1<<16 | 4096, 1<<24 | 100, -1<<31 | 100, -10, -100, -4096} {
		// a body of exactly `declared` bytes where that is feasible, else a short plausible body
		bodyLen := int(declared)
		if declared < 0 || declared > 6000 {
			bodyLen = 64
		}
		body := make([]byte, bodyLen)
		r.Fill(body)
		if bodyLen >= 2 {
			body[bodyLen-1], body[bodyLen-2] = 0, 0
		}
		in := append(rawFrame(declared, body), 0x33, 0x33, 0x33, 0x33)
		wit := func() any { return map[string]any{"declared_length": declared, "body_bytes": bodyLen} }
		conn := &mcnet.RCONConn{Conn: &memConn{r: bytes.NewReader(in)}}
		var err error
		if c.Guard("bounds", wit, func() { _, _, _, err = conn.ReadPacket() }) {
			continue
		}
		c.Eval(vm.HashStr("bounds", fmt.Sprint(declared)), true)
		legal := declared >= 10 && declared <= 4096
		if legal && err != nil {
			c.Violation("bounds/legal-rejected", fmt.Sprintf("a frame of declared length %d was rejected: %v", declared, err), wit())
		} else if !legal && err == nil {
			c.Violation("bounds/illegal-accepted", fmt.Sprintf("a frame of declared length %d was accepted (minimum 10, limit 4096)", declared), wit())
		} else if legal {
			c.Cover("bounds.accepted")
		} else {
			c.Cover("bounds.rejected")
			switch {
			case declared >= 2 && declared <= 8:
				c.Cover("bounds.rejected.2..8")
			case declared < 0 && declared >= -4096:
				c.Cover("bounds.rejected.small-negative")
			case declared > 4096 && declared&0xffff >= 10 && declared&0xffff <= 4096:
				c.Cover("bounds.rejected.low-bits-legal")
			}
		}
	}
}

type pwPair struct {
	name   string
	server string
	client string
}

func genPasswords(r *vm.Rand) pwPair {
	base := []string{"hunter2", "", "pässwörd", "a\x00b", "correct horse battery staple", string(r.Bytes(8))}[r.Intn(6)]
	switch r.Intn(9) {
	case 7:
		return pwPair{"trailing-nul", base, base + "\x00"}
	case 8:
		return pwPair{"trailing-nul", base + "\x00", base}
	case 0:
		return pwPair{"equal", base, base}
	case 1:
		return pwPair{"equal", base, base}
	case 2:
		return pwPair{"prefix", base + "x", base}
	case 3:
		return pwPair{"extension", base, base + "x"}
	case 4:
		if base == "" {
			return pwPair{"empty-vs-nonempty", "", "x"}
		}
		return pwPair{"case-differing", base, swapCase(base)}
	case 5:
		return pwPair{"empty-vs-nonempty", base + "p", ""}
	default:
		return pwPair{"both-empty", "", ""}
	}
}

func swapCase(s string) string {
	b := []byte(s)
	for i, ch := range b {
		if ch >= 'a' && ch <= 'z' {
			b[i] = ch - 32
			return string(b)
		}
		if ch >= 'A' && ch <= 'Z' {
			b[i] = ch + 32
			return string(b)
		}
	}
	return s + "X"
}

// session runs the real ListenRCON/DialRCON pair over loopback TCP.
func session(c *vm.Ctx, r *vm.Rand, l *mcnet.RCONListener) {
	pw := genPasswords(r)
	ncmd := r.Range(1, 20)
	cmds := make([]string, ncmd)
	resps := make([]string, ncmd)
	for i := range cmds {
		cmds[i] = string(genPayload(r))
		resps[i] = string(genPayload(r))
	}
	wit := func() any {
		return map[string]any{"password_pair": pw.name, "server_password": pw.server, "client_password": pw.client, "commands": ncmd}
	}
	match := pw.server == pw.client
	type srvResult struct {
		loginErr error
		got      []string
		err      error
		panicked any
	}
	resCh := make(chan srvResult, 1)
	go func() {
		var sr srvResult
		defer func() {
			if p := recover(); p != nil {
				sr.panicked = p
			}
			resCh <- sr
		}()
		conn, err := l.Accept()
		if err != nil {
			sr.err = err
			return
		}
		defer conn.Close()
		sr.loginErr = conn.AcceptLogin(pw.server)
		if sr.loginErr != nil {
			return
		}
		for i := 0; i < ncmd; i++ {
			cmd, err := conn.AcceptCmd()
			if err != nil {
				sr.err = err
				return
			}
			sr.got = append(sr.got, cmd)
			if err := conn.RespCmd(resps[i]); err != nil {
				sr.err = err
				return
			}
		}
	}()
	var cli mcnet.RCONClientConn
	var derr error
	var gotResps []string
	var cerr error
	pan := c.Guard("session/client", wit, func() {
		cli, derr = mcnet.DialRCON(l.Addr().String(), pw.client)
		if derr != nil {
			return
		}
		for i := 0; i < ncmd; i++ {
			if cerr = cli.Cmd(cmds[i]); cerr != nil {
				return
			}
			var rs string
			rs, cerr = cli.Resp()
			if cerr != nil {
				return
			}
			gotResps = append(gotResps, rs)
		}
	})
	if cli != nil {
		cli.Close()
	}
	sr := <-resCh
	c.Eval(vm.HashStr("session", pw.name, pw.server, pw.client, fmt.Sprint(ncmd, r.Uint64())), true)
	if pan {
		return
	}
	if sr.panicked != nil {
		c.Violation("session/server-panic", fmt.Sprint("server side panicked: ", sr.panicked), wit())
		return
	}
	if match {
		if derr != nil {
			c.Violation("login/equal-passwords-rejected", "client login failed although the passwords are equal: "+derr.Error(), wit())
			return
		}
		if sr.loginErr != nil {
			c.Violation("login/server-reports-rejection-on-match", "AcceptLogin returned an error although the passwords are equal: "+sr.loginErr.Error(), wit())
			return
		}
		if cerr != nil || sr.err != nil {
			c.Violation("session/error", fmt.Sprintf("command/response exchange failed: client %v, server %v", cerr, sr.err), wit())
			return
		}
		for i := range cmds {
			if i >= len(sr.got) || sr.got[i] != cmds[i] {
				c.Violation("session/command-altered", fmt.Sprintf("command %d did not reach the server verbatim", i), wit())
				return
			}
			if i >= len(gotResps) || gotResps[i] != resps[i] {
				c.Violation("session/response-altered", fmt.Sprintf("response %d did not reach the client verbatim", i), wit())
				return
			}
		}
		c.Cover("login.success." + pw.name)
	} else {
		if derr == nil {
			c.Violation("login/wrong-password-accepted/"+pw.name, fmt.Sprintf("client login succeeded with password %q against server password %q", pw.client, pw.server), wit())
			return
		}
		if sr.loginErr == nil {
			c.Violation("login/server-does-not-report-rejection/"+pw.name, "client got an error but AcceptLogin returned nil", wit())
			return
		}
		c.Cover("login.rejected." + pw.name)
	}
}

// scripted server: logs the client in, then answers commands under a wrong id / wrong type / correctly.
func scripted(c *vm.Ctx, r *vm.Rand) {
	ln, err := net.Listen("tcp", "127.0.0.1:0")
	if err != nil {
		c.Inconclusive("listen: " + err.Error())
		return
	}
	defer ln.Close()
	mode := []string{"wrong-id", "wrong-type", "correct", "id-minus-one", "login-wrong-id"}[r.Intn(5)]
	loginVariant := r.Intn(4)
	var loginID, loginAnswer int32 // written by the server goroutine, read after wg.Wait
	var wg sync.WaitGroup
	wg.Add(1)
	go func() {
		defer wg.Done()
		raw, err := ln.Accept()
		if err != nil {
			return
		}
		defer raw.Close()
		s := &mcnet.RCONConn{Conn: raw}
		id, _, _, err := s.ReadPacket()
		if err != nil {
			return
		}
		if mode == "login-wrong-id" {
			// neither the id in use nor -1: the third outcome of the handshake
			wrong := []int32{id + 1, 0, id ^ 0x01000000, -id}[loginVariant]
			if wrong == id || wrong == -1 {
				wrong = id ^ 0x00010000
			}
			loginID, loginAnswer = id, wrong
			s.WritePacket(wrong, 2, "")
			return
		}
		s.WritePacket(id, 2, "")
		cid, _, _, err := s.ReadPacket()
		if err != nil {
			return
		}
		switch mode {
		case "wrong-id":
			s.WritePacket(cid+1+int32(r.Intn(5)), 0, "resp")
		case "id-minus-one":
			s.WritePacket(-1, 0, "resp")
		case "wrong-type":
			s.WritePacket(cid, []int32{2, 3, 1, -1}[r.Intn(4)], "resp")
		default:
			s.WritePacket(cid, 0, "resp")
		}
	}()
	wit := func() any { return map[string]any{"scripted_server": mode} }
	var cli mcnet.RCONClientConn
	var derr, rerr error
	var resp string
	pan := c.Guard("scripted/client", wit, func() {
		cli, derr = mcnet.DialRCON(ln.Addr().String(), "pw")
		if derr != nil {
			return
		}
		if rerr = cli.Cmd("list"); rerr != nil {
			return
		}
		resp, rerr = cli.Resp()
	})
	if cli != nil {
		cli.Close()
	}
	wg.Wait()
	c.Eval(vm.HashStr("scripted", mode, fmt.Sprint(r.Uint64())), true)
	if mode == "login-wrong-id" {
		if pan {
			return
		}
		if derr == nil {
			c.Violation("login/accepted-under-foreign-id", fmt.Sprintf("DialRCON reported success although its login (id %d) was answered under id %d", loginID, loginAnswer),
				map[string]any{"scripted_server": mode, "login_id": loginID, "answer_id": loginAnswer, "answer_type": 2})
			return
		}
		c.Cover("login.rejected.foreign-id")
		return
	}
	if pan || derr != nil {
		if derr != nil {
			c.Violation("scripted/login", "login against the scripted server failed: "+derr.Error(), wit())
		}
		return
	}
	if mode == "correct" {
		if rerr != nil || resp != "resp" {
			c.Violation("resp/correct-rejected", fmt.Sprintf("a response under the right id with type 0 was rejected: %v", rerr), wit())
		} else {
			c.Cover("resp.correct-accepted")
		}
		return
	}
	if rerr == nil {
		c.Violation("resp/accepted-"+mode, "Resp accepted a response sent with "+mode, wit())
		return
	}
	c.Cover("resp.rejected." + mode)
}

func run(c *vm.Ctx) {
	r := c.Rand("frames")
	for i := 0; i < c.Scale(20000, 400000); i++ {
		checkFrames(c, r)
		if i < 2 {
			c.Sample("frame", map[string]any{"reference_bytes": vm.Hex(refFrame(7, 2, []byte("list")))})
		}
	}
	for i := 0; i < c.Scale(800, 16000); i++ {
		checkBounds(c, r)
	}
	l, err := mcnet.ListenRCON("127.0.0.1:0")
	if err != nil {
		c.Inconclusive("cannot listen on loopback: " + err.Error())
		return
	}
	defer l.Close()
	sr := c.Rand("sessions")
	for i := 0; i < c.Scale(500, 10000); i++ {
		session(c, sr, l)
	}
	for i := 0; i < c.Scale(200, 4000); i++ {
		scripted(c, sr)
	}
	dr := c.Rand("direct-ids")
	for i := 0; i < c.Scale(3000, 60000); i++ {
		directIDs(c, dr)
	}
	pr := c.Rand("peer")
	for i := 0; i < c.Scale(300, 6000); i++ {
		libraryClientAgainstPeer(c, pr)
		libraryServerAgainstPeer(c, pr)
	}
	runMore(c)
}
