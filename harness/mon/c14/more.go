package main

import (
	"bytes"
	"fmt"

	"github.com/Tnze/go-mc/save/region"

	"verif/gen/regiongen"
	"verif/inject"
	"verif/vm"
)

// shortReadFile is a RecFile whose Read hands out at most plan[i] bytes per call (cycled): what io.Reader permits and a
// file on a network mount or a pipe-backed store does.
type shortReadFile struct {
	*inject.RecFile
	plan []int
	i    int
}

var shortPlans = [][]int{{1}, {1, 2, 3, 5, 7}, {4095}, {4, 4092}, {3, 100000}, {511, 513}}

func (s *shortReadFile) Read(p []byte) (int, error) {
	if len(p) == 0 {
		return 0, nil
	}
	k := s.plan[s.i%len(s.plan)]
	s.i++
	if k < len(p) {
		p = p[:k]
	}
	return s.RecFile.Read(p)
}

// heldRead is a ReadSector result the history keeps hold of.
type heldRead struct {
	key  [2]int
	got  []byte // the slice the library returned
	want []byte // the model's bytes at that moment (model values are never modified, only replaced)
	at   int
}

// bystander is a second region with a backing store of its own that lives as long as the shard. In some histories
// every operation is followed by one on the bystander: two handles in one program, used in turn. Neither may notice.
type bystander struct {
	mem   *inject.RecFile
	reg   *region.Region
	model map[[2]int][]byte
	r     *vm.Rand
	h     *hist
	steps int
}

var theBystander = &bystander{}

func (b *bystander) step(c *vm.Ctx, main *hist) bool {
	if b.reg == nil {
		b.mem = &inject.RecFile{}
		b.model = map[[2]int][]byte{}
		b.r = c.Rand("bystander")
		b.h = &hist{kind: "the second region (mem)"}
		b.h.reg = func() *region.Region { return b.reg }
		reg, err := region.CreateWriter(b.mem)
		if err != nil {
			c.Violation("create/error", "creating a region failed: "+err.Error(), b.h.wit())
			return false
		}
		b.reg = reg
	}
	wit := func() any {
		return map[string]any{"second_region": b.h.wit(), "first_region": main.wit()}
	}
	ok := true
	if c.Guard("two-handles/ops", wit, func() {
		op := regiongen.Gen(b.r, 1, false)[0]
		op.X, op.Z = op.X%4, op.Z%4 // the file stays small
		key := [2]int{op.X, op.Z}
		b.steps++
		switch op.Kind {
		case "write":
			if op.Size > 12000 {
				op.Size = 1 + op.Size%12000
			}
			data := regiongen.Payload(op)
			b.h.add(fmt.Sprintf("WriteSector(%d,%d,%d bytes)", op.X, op.Z, op.Size))
			if err := b.reg.WriteSector(op.X, op.Z, data); err != nil {
				c.Violation("two-handles/write-error", fmt.Sprintf("second region: WriteSector(%d,%d,%d bytes) failed: %v", op.X, op.Z, op.Size, err), wit())
				ok = false
				return
			}
			b.model[key] = data
			sub := &hist{kind: b.h.kind + " used in turn with: " + main.kind, ops: b.h.ops, reg: b.h.reg}
			if !validate(c, b.mem.B, b.model, sub, true, key, "a write to the second region, used in turn with the first") {
				ok = false
			}
		case "read":
			got, err := b.reg.ReadSector(op.X, op.Z)
			want, present := b.model[key]
			b.h.add(fmt.Sprintf("ReadSector(%d,%d)", op.X, op.Z))
			if present && (err != nil || !bytes.Equal(got, want)) || !present && err == nil {
				c.Violation("two-handles/read", fmt.Sprintf("second region: ReadSector(%d,%d): err=%v, %d bytes; present in its model: %v (%d bytes)", op.X, op.Z, err, len(got), present, len(want)), wit())
				ok = false
			}
		case "reopen":
			b.mem.Seek(0, 0)
			reg2, err := region.Load(b.mem)
			b.h.add("reopen (Load)")
			if err != nil {
				c.Violation("two-handles/reopen-error", "second region: "+err.Error(), wit())
				ok = false
				return
			}
			if o1, o2 := offsetsOf(b.reg), offsetsOf(reg2); o1 != nil && o2 != nil && *o1 != *o2 || reg2.Timestamps != b.reg.Timestamps {
				c.Violation("two-handles/reopen-differs", "second region: offsets or timestamps of a fresh Load differ from those in memory", wit())
				ok = false
				return
			}
			b.reg = reg2
		}
		if len(b.h.ops) > 200 {
			b.h.ops = append([]string{"..."}, b.h.ops[len(b.h.ops)-100:]...)
		}
	}) {
		return false
	}
	return ok
}
