package main

import (
	"bytes"
	"encoding/binary"
	"fmt"
	"io"
	"sort"

	"github.com/Tnze/go-mc/save/region"

	"verif/vm"
)

// Region files that grew past 256 MiB: the header entry has 24 bits for the sector index, so chunks may legitimately
// live at sector 65536 and beyond. Building such a file through the API costs a few hundred megabytes of writes; here
// the backing store is sparse (only pages that hold non-zero bytes are kept) and is prepared as "a file that already
// holds k maximum-size chunks", so that the history under test starts just below, across or beyond the 16-bit mark.

type sparseFile struct {
	pages map[int64][]byte
	size  int64
	pos   int64
}

func (s *sparseFile) Seek(off int64, whence int) (int64, error) {
	switch whence {
	case io.SeekStart:
	case io.SeekCurrent:
		off += s.pos
	case io.SeekEnd:
		off += s.size
	}
	if off < 0 {
		return s.pos, fmt.Errorf("negative position")
	}
	s.pos = off
	return off, nil
}

func (s *sparseFile) ReadAt(p []byte, off int64) (int, error) {
	n := 0
	for n < len(p) {
		if off >= s.size {
			return n, io.EOF
		}
		pg, po := off/4096, off%4096
		k := int(min(int64(len(p)-n), 4096-po, s.size-off))
		if b, ok := s.pages[pg]; ok {
			copy(p[n:n+k], b[po:])
		} else {
			clear(p[n : n+k])
		}
		n += k
		off += int64(k)
	}
	return n, nil
}

func (s *sparseFile) Read(p []byte) (int, error) {
	n, err := s.ReadAt(p, s.pos)
	s.pos += int64(n)
	if n > 0 {
		err = nil
	}
	return n, err
}

var zeroPage [4096]byte

func (s *sparseFile) WriteAt(p []byte, off int64) (int, error) {
	n := 0
	for n < len(p) {
		pg, po := off/4096, off%4096
		k := int(min(int64(len(p)-n), 4096-po))
		b, ok := s.pages[pg]
		if !ok {
			if bytes.Equal(p[n:n+k], zeroPage[:k]) {
				n += k
				off += int64(k)
				continue
			}
			b = make([]byte, 4096)
			s.pages[pg] = b
		}
		copy(b[po:], p[n:n+k])
		n += k
		off += int64(k)
	}
	if off > s.size {
		s.size = off
	}
	return n, nil
}

func (s *sparseFile) Write(p []byte) (int, error) {
	n, err := s.WriteAt(p, s.pos)
	s.pos += int64(n)
	return n, err
}

// seekOnly hides WriteAt so that the library takes its Seek+Write path.
type seekOnly struct{ s *sparseFile }

func (o seekOnly) Read(p []byte) (int, error)                { return o.s.Read(p) }
func (o seekOnly) Write(p []byte) (int, error)               { return o.s.Write(p) }
func (o seekOnly) Seek(off int64, whence int) (int64, error) { return o.s.Seek(off, whence) }

type farEntry struct {
	sector, count, length int
	ts                    int32
	head                  []byte // first bytes of the data (whole data when small)
}

// parseSparse is the independent reader for sparse images: the same rules as refwire.ParseAnvil.
func parseSparse(s *sparseFile, wholeUpTo int) (map[[2]int]*farEntry, error) {
	if s.size < 8192 {
		return nil, fmt.Errorf("file of %d bytes has no complete header", s.size)
	}
	hdr := make([]byte, 8192)
	s.ReadAt(hdr, 0)
	out := map[[2]int]*farEntry{}
	type run struct{ x, z, sec, cnt int }
	var runs []run
	for z := 0; z < 32; z++ {
		for x := 0; x < 32; x++ {
			i := 4 * (z*32 + x)
			loc := binary.BigEndian.Uint32(hdr[i:])
			if loc == 0 {
				continue
			}
			e := &farEntry{sector: int(loc >> 8), count: int(loc & 0xff), ts: int32(binary.BigEndian.Uint32(hdr[4096+i:]))}
			if e.sector < 2 || e.count == 0 {
				return nil, fmt.Errorf("chunk (%d,%d): entry sector %d count %d", x, z, e.sector, e.count)
			}
			start := int64(e.sector) * 4096
			var lb [4]byte
			if n, _ := s.ReadAt(lb[:], start); n != 4 {
				return nil, fmt.Errorf("chunk (%d,%d): run starts at byte %d, file has %d bytes", x, z, start, s.size)
			}
			e.length = int(int32(binary.BigEndian.Uint32(lb[:])))
			if e.length <= 0 {
				return nil, fmt.Errorf("chunk (%d,%d) at sector %d: run does not begin with a positive length (%d)", x, z, e.sector, e.length)
			}
			if e.length+4 > e.count*4096 {
				return nil, fmt.Errorf("chunk (%d,%d): length %d+4 exceeds its %d sectors", x, z, e.length, e.count)
			}
			if start+4+int64(e.length) > s.size {
				return nil, fmt.Errorf("chunk (%d,%d): data ends at byte %d, file has %d bytes", x, z, start+4+int64(e.length), s.size)
			}
			e.head = make([]byte, min(e.length, wholeUpTo))
			s.ReadAt(e.head, start+4)
			out[[2]int{x, z}] = e
			runs = append(runs, run{x, z, e.sector, e.count})
		}
	}
	sort.Slice(runs, func(i, j int) bool { return runs[i].sec < runs[j].sec })
	for i := 1; i < len(runs); i++ {
		if runs[i-1].sec+runs[i-1].cnt > runs[i].sec {
			return nil, fmt.Errorf("sector runs of chunk (%d,%d) [%d,+%d) and chunk (%d,%d) [%d,+%d) overlap",
				runs[i-1].x, runs[i-1].z, runs[i-1].sec, runs[i-1].cnt, runs[i].x, runs[i].z, runs[i].sec, runs[i].cnt)
		}
	}
	return out, nil
}

const farWhole = 20000 // chunks written by the history are at most this long and compared whole

type prepared struct {
	tag uint64
	n   int
}

type farModel struct {
	small map[[2]int][]byte   // chunks written by the history
	big   map[[2]int]prepared // prepared chunks: tag in the first 8 bytes, zeros after
}

func (m *farModel) check(c *vm.Ctx, s *sparseFile, h *hist, after string) bool {
	got, err := parseSparse(s, farWhole)
	if err != nil {
		c.Violation("far/anvil/invalid/"+vm.NormMsg(err.Error()), fmt.Sprintf("after %s the file is not a valid Anvil region: %v", after, err), h.wit())
		return false
	}
	if len(got) != len(m.small)+len(m.big) {
		c.Violation("far/anvil/chunk-set", fmt.Sprintf("after %s the header lists %d chunks, the model holds %d", after, len(got), len(m.small)+len(m.big)), h.wit())
		return false
	}
	for k, want := range m.small {
		e := got[k]
		if e == nil || e.length != len(want) || !bytes.Equal(e.head, want) {
			c.Violation("far/anvil/stored-bytes-differ", fmt.Sprintf("after %s chunk (%d,%d) does not store the %d bytes last written (entry %+v)", after, k[0], k[1], len(want), e), h.wit())
			return false
		}
	}
	for k, p := range m.big {
		e := got[k]
		if e == nil || e.length != p.n || len(e.head) < 8 || binary.BigEndian.Uint64(e.head) != p.tag {
			c.Violation("far/anvil/prepared-chunk-damaged", fmt.Sprintf("after %s the prepared chunk (%d,%d) no longer begins with its tag", after, k[0], k[1]), h.wit())
			return false
		}
	}
	return true
}

func checkFarSectors(c *vm.Ctx, r *vm.Rand, hi int) {
	writerAt := hi%2 == 0
	h := &hist{kind: "sparse"}
	if writerAt {
		h.kind = "sparse+writerat"
	}
	s := &sparseFile{pages: map[int64][]byte{}}
	m := &farModel{small: map[[2]int][]byte{}, big: map[[2]int]prepared{}}
	// prepared file: k chunks of 255 sectors back to back from sector 2; k is chosen so that the first free sector
	// lies shortly before, across or after 65536 (k = 257 ends at sector 65537)
	k := []int{256, 257, 257, 258, 300}[hi%5]
	lead := 0 // a smaller first chunk shifts every later boundary
	if k == 256 {
		lead = 254 - r.Intn(20) // first free sector 65516..65536: the history itself crosses the mark
	} else if r.Intn(3) == 0 {
		lead = r.Intn(250)
	}
	hdr := make([]byte, 8192)
	sec := 2
	idx := 0
	place := func(cnt int) {
		length, tag := cnt*4096-4-r.Intn(3), r.Uint64()|1
		binary.BigEndian.PutUint32(hdr[4*idx:], uint32(sec)<<8|uint32(cnt))
		binary.BigEndian.PutUint32(hdr[4096+4*idx:], uint32(1_000_000+idx))
		var b [12]byte
		binary.BigEndian.PutUint32(b[:], uint32(length))
		binary.BigEndian.PutUint64(b[4:], tag)
		s.WriteAt(b[:], int64(sec)*4096)
		s.size = max(s.size, int64(sec)*4096+4+int64(length))
		m.big[[2]int{idx % 32, idx / 32}] = prepared{tag, length}
		sec += cnt
		idx++
	}
	if lead > 2 {
		place(lead)
	}
	for i := 0; i < k; i++ {
		place(255)
	}
	s.WriteAt(hdr, 0)
	firstFree := sec
	h.add(fmt.Sprintf("prepared file: %d-sector chunk + %d chunks of 255 sectors, first free sector %d", lead, k, firstFree))
	var f io.ReadWriteSeeker = s
	if !writerAt {
		f = seekOnly{s}
	}
	c.EvalN(40, vm.HashStr("far", fmt.Sprint(c.Shard, hi)), true)
	ok := true
	pan := c.Guard("far/ops", h.wit, func() {
		s.Seek(0, 0)
		reg, err := region.Load(f)
		if err != nil {
			c.Violation("far/load-error", "Load of the prepared file failed: "+err.Error(), h.wit())
			ok = false
			return
		}
		if !m.check(c, s, h, "Load") {
			ok = false
			return
		}
		free := idx // coordinates idx.. are unused
		var mine [][2]int
		beyond := false
		for j := 0; j < 40 && ok; j++ {
			switch op := r.Intn(10); {
			case op < 5 || len(mine) == 0:
				var key [2]int
				if len(mine) > 0 && r.Intn(2) == 0 {
					key = mine[r.Intn(len(mine))]
				} else if free < 1024 {
					key = [2]int{free % 32, free / 32}
					free++
					mine = append(mine, key)
				} else {
					continue
				}
				n := []int{1, 100, 4092, 4093, 8188, 9000, 12284, farWhole}[r.Intn(8)]
				data := r.Bytes(n)
				if data[0] == 0 {
					data[0] = 1
				}
				h.add(fmt.Sprintf("WriteSector(%d,%d,%d bytes)", key[0], key[1], n))
				if werr := reg.WriteSector(key[0], key[1], data); werr != nil {
					c.Violation("far/write-error", fmt.Sprintf("WriteSector(%d,%d,%d bytes) failed: %v", key[0], key[1], n, werr), h.wit())
					ok = false
					return
				}
				m.small[key] = data
				if !m.check(c, s, h, h.ops[len(h.ops)-1]) {
					ok = false
					return
				}
				// the handle's offsets against the header words (sector numbers here need more than 16 bits)
				hdr := make([]byte, 4096)
				s.ReadAt(hdr, 0)
				if !offsetsMatchHeader(c, reg, hdr, h, "far/anvil/", h.ops[len(h.ops)-1]) {
					ok = false
					return
				}
				if e, _ := parseSparse(s, 0); e != nil && e[key] != nil && e[key].sector >= 65536 {
					beyond = true
				}
			case op < 8:
				key := mine[r.Intn(len(mine))]
				h.add(fmt.Sprintf("ReadSector(%d,%d)", key[0], key[1]))
				got, rerr := reg.ReadSector(key[0], key[1])
				if rerr != nil || !bytes.Equal(got, m.small[key]) {
					c.Violation("far/read/written-chunk", fmt.Sprintf("ReadSector(%d,%d): err=%v, %d bytes; last written %d bytes", key[0], key[1], rerr, len(got), len(m.small[key])), h.wit())
					ok = false
					return
				}
			default:
				h.add("reopen (Load)")
				s.Seek(0, 0)
				reg2, lerr := region.Load(f)
				if lerr != nil {
					c.Violation("far/reopen-error", lerr.Error(), h.wit())
					ok = false
					return
				}
				if o1, o2 := offsetsOf(reg), offsetsOf(reg2); o1 != nil && o2 != nil && *o1 != *o2 {
					c.Violation("far/reopen/offsets-differ", "the offsets of a fresh Load differ from those in memory", h.wit())
					ok = false
					return
				}
				if reg2.Timestamps != reg.Timestamps {
					c.Violation("far/reopen/timestamps-differ", "the timestamps of a fresh Load differ from those in memory", h.wit())
					ok = false
					return
				}
				reg = reg2
			}
		}
		for _, key := range mine {
			got, rerr := reg.ReadSector(key[0], key[1])
			if rerr != nil || !bytes.Equal(got, m.small[key]) {
				c.Violation("far/read/written-chunk", fmt.Sprintf("final ReadSector(%d,%d): err=%v", key[0], key[1], rerr), h.wit())
				ok = false
				return
			}
		}
		if beyond {
			c.Cover("far.chunk-at-sector-65536-or-later")
		}
		if firstFree < 65536 && beyond {
			c.Cover("far.history-crosses-16-bit-mark")
		}
	})
	if pan || !ok {
		return
	}
	c.Cover("history.sparse")
}
