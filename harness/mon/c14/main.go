// Monitor C14: region file as a chunk store, judged by a map model and an independent Anvil parser.
package main

import (
	"bytes"
	"encoding/binary"
	"fmt"
	"io"
	"os"
	"path/filepath"
	"reflect"
	"time"
	"unsafe"

	"github.com/Tnze/go-mc/save/region"

	"verif/gen/regiongen"
	"verif/inject"
	"verif/ref/refwire"
	"verif/vm"
)

func main() { vm.Main("C14", run) }

type backing interface {
	io.ReadWriteSeeker
}

type store struct {
	kind string
	mem  *inject.RecFile // for the in-memory flavours
	path string          // for the real file
	f    *os.File
}

func (s *store) image() []byte {
	if s.mem != nil {
		return s.mem.B
	}
	b, _ := os.ReadFile(s.path)
	return b
}

type hist struct {
	kind string
	ops  []string
	reg  func() *region.Region // the handle in use, for comparing its tables with the file
}

func (h *hist) add(s string) { h.ops = append(h.ops, s) }

func (h *hist) wit() any {
	o := h.ops
	if len(o) > 70 {
		o = append([]string{fmt.Sprintf("...(%d earlier ops)", len(o)-70)}, o[len(o)-70:]...)
	}
	return map[string]any{"backing": h.kind, "ops": o}
}

func entryOf(img []byte, x, z int) (sec, cnt int) {
	if len(img) < 8192 {
		return 0, 0
	}
	v := binary.BigEndian.Uint32(img[4*(z*32+x):])
	return int(v >> 8), int(v & 0xff)
}

// slotOf reads the chunk's timestamp slot in the second header sector.
func slotOf(img []byte, x, z int) int32 {
	if len(img) < 8192 {
		return 0
	}
	return int32(binary.BigEndian.Uint32(img[4096+4*(z*32+x):]))
}

func fileSectors(img []byte) int { return (len(img) + 4095) / 4096 }

// offsetsOf gives read access to the handle's unexported offsets table ("sector number <<8 | sector count per chunk").
// The statement compares what a fresh Load returns with what the handle holds; a fresh Load returns the header words,
// so the table is compared with them word by word. nil when the field is not there in the expected shape.
func offsetsOf(reg *region.Region) *[32][32]int32 {
	if reg == nil {
		return nil
	}
	f := reflect.ValueOf(reg).Elem().FieldByName("offsets")
	if !f.IsValid() || !f.CanAddr() || f.Type() != reflect.TypeOf([32][32]int32{}) {
		return nil
	}
	return (*[32][32]int32)(unsafe.Pointer(f.UnsafeAddr()))
}

var offsetsUnreadable bool

// offsetsMatchHeader compares every entry of the handle's table with the location word in the first header sector.
func offsetsMatchHeader(c *vm.Ctx, reg *region.Region, hdr []byte, h *hist, sigPrefix, after string) bool {
	off := offsetsOf(reg)
	if off == nil {
		if reg != nil && !offsetsUnreadable {
			offsetsUnreadable = true
			c.Inconclusive("region.Region has no field offsets of type [32][32]int32: the handle's offsets cannot be compared with the header")
		}
		return true
	}
	if len(hdr) < 4096 {
		return true
	}
	for z := 0; z < 32; z++ {
		for x := 0; x < 32; x++ {
			if w := binary.BigEndian.Uint32(hdr[4*(z*32+x):]); w != uint32(off[z][x]) {
				hw := h.wit().(map[string]any)
				hw["chunk"], hw["header_word"], hw["handle_offset"] = [2]int{x, z}, w, uint32(off[z][x])
				c.Violation(sigPrefix+"offset-entry", fmt.Sprintf("after %s chunk (%d,%d): the file's header holds sector %d count %d, the handle holds sector %d count %d (a fresh Load would return the former)", after, x, z, w>>8, w&0xff, uint32(off[z][x])>>8, uint32(off[z][x])&0xff), hw)
				return false
			}
		}
	}
	c.Cover("offsets.handle-equals-header")
	return true
}

// validate checks the whole image against the model. full=false compares data of chunk `only` alone.
func validate(c *vm.Ctx, img []byte, model map[[2]int][]byte, h *hist, full bool, only [2]int, after string) bool {
	chunks, err := refwire.ParseAnvil(img)
	if err != nil {
		c.Violation("anvil/invalid/"+vm.NormMsg(err.Error()), fmt.Sprintf("after %s the file is not a valid Anvil region: %v", after, err), h.wit())
		return false
	}
	if h.reg != nil && !offsetsMatchHeader(c, h.reg(), img, h, "anvil/", after) {
		return false
	}
	if len(chunks) != len(model) {
		c.Violation("anvil/chunk-set", fmt.Sprintf("after %s the header lists %d chunks, the model holds %d", after, len(chunks), len(model)), h.wit())
		return false
	}
	for k, want := range model {
		e, ok := chunks[k]
		if !ok {
			c.Violation("anvil/chunk-missing", fmt.Sprintf("after %s chunk (%d,%d) is not in the header", after, k[0], k[1]), h.wit())
			return false
		}
		// the timestamp the independent parser finds in the chunk's slot of the second header sector is the one the
		// handle holds for that chunk
		if h.reg != nil {
			if reg := h.reg(); reg != nil && reg.Timestamps[k[1]][k[0]] != e.Timestamp {
				c.Violation("anvil/timestamp-slot", fmt.Sprintf("after %s chunk (%d,%d): the file's header holds timestamp %d in its slot, the handle holds %d", after, k[0], k[1], e.Timestamp, reg.Timestamps[k[1]][k[0]]), h.wit())
				return false
			}
		}
		if (full || k == only) && !bytes.Equal(e.Data, want) {
			c.Violation("anvil/stored-bytes-differ", fmt.Sprintf("after %s chunk (%d,%d) stores %d bytes that differ from the %d bytes last written", after, k[0], k[1], len(e.Data), len(want)), h.wit())
			return false
		}
	}
	return true
}

func runHistory(c *vm.Ctx, r *vm.Rand, hi int, nops int, flavour string, big bool) {
	h := &hist{kind: flavour}
	withBystander := hi%8 == 1
	if withBystander {
		h.kind += ", every operation followed by one on a second region with a file of its own"
	}
	st := &store{kind: flavour}
	var reg *region.Region
	var err error
	var foreignChunks map[[2]int][]byte
	var foreignFree []int
	staleStart := false
	open := func() (io.ReadWriteSeeker, error) { return nil, nil }
	switch flavour {
	case "mem":
		st.mem = &inject.RecFile{}
		if hi%4 == 3 {
			// the region is created over a store that already holds bytes (a file that was not truncated): they are no
			// part of the new region, whose header says that every sector after it is free
			st.mem.B = r.Bytes([]int{1, 5000, 8192, 8193, 40000}[r.Intn(5)])
			h.add(fmt.Sprintf("the store holds %d stale bytes when the region is created in it", len(st.mem.B)))
			staleStart = true
		}
		reg, err = region.CreateWriter(st.mem)
		open = func() (io.ReadWriteSeeker, error) { st.mem.Seek(0, 0); return st.mem, nil }
	case "mem+writerat":
		fa := &inject.RecFileAt{}
		st.mem = &fa.RecFile
		reg, err = region.CreateWriter(fa)
		open = func() (io.ReadWriteSeeker, error) { fa.Seek(0, 0); return fa, nil }
	case "mem+shortreads":
		// a backing store whose Read hands out a few bytes per call, as an io.Reader may
		st.mem = &inject.RecFile{}
		sf := &shortReadFile{RecFile: st.mem, plan: shortPlans[hi%len(shortPlans)]}
		reg, err = region.CreateWriter(sf)
		open = func() (io.ReadWriteSeeker, error) { st.mem.Seek(0, 0); return sf, nil }
	case "mem+foreign":
		// the history starts from a region file another program left behind (see regiongen.ForeignImage)
		img, chunks, free := regiongen.ForeignImage(r, r.Range(1, 14))
		st.mem = &inject.RecFile{B: img}
		foreignChunks, foreignFree = chunks, free
		h.add(fmt.Sprintf("prepared file of %d bytes holding %d chunks, %d free sectors inside; Load", len(img), len(chunks), len(free)))
		reg, err = region.Load(st.mem)
		open = func() (io.ReadWriteSeeker, error) { st.mem.Seek(0, 0); return st.mem, nil }
	case "osfile":
		st.path = filepath.Join(c.OutDir, fmt.Sprintf("r.%s.%d.%d.mca", c.Mode, c.Shard, hi))
		os.Remove(st.path)
		reg, err = region.Create(st.path)
		defer os.Remove(st.path)
	}
	if err != nil {
		c.Violation("create/error", "creating a region failed: "+err.Error(), h.wit())
		return
	}
	defer func() {
		if reg != nil {
			reg.Close()
		}
	}()
	h.reg = func() *region.Region { return reg }
	model := map[[2]int][]byte{}
	freed := map[int]bool{} // sectors that were used once and released (for event classification)
	spare := map[[2]int]bool{} // chunks of a prepared file whose run has more sectors than their data needs
	for k, v := range foreignChunks {
		model[k] = v
		if _, cnt := entryOf(st.mem.B, k[0], k[1]); cnt > (len(v)+4+4095)/4096 {
			spare[k] = true
		}
	}
	for _, s := range foreignFree {
		freed[s] = true
	}
	if foreignChunks != nil && !validate(c, st.mem.B, model, h, true, [2]int{-1, -1}, "Load of the prepared file") {
		return
	}
	var held []heldRead // what earlier ReadSector calls returned, looked at again after later operations
	ops := regiongen.Gen(r, nops, big)
	c.EvalN(int64(len(ops)), vm.HashStr("hist", flavour, fmt.Sprint(c.Shard, hi)), true)
	ok := true
	pan := c.Guard("ops", h.wit, func() {
		for _, op := range ops {
			key := [2]int{op.X, op.Z}
			// what ReadSector returned earlier belongs to the caller: later operations must not reach into it
			for _, hr := range held {
				if !bytes.Equal(hr.got, hr.want) {
					hw := h.wit().(map[string]any)
					hw["chunk"], hw["read_at_op"] = hr.key, hr.at
					c.Violation("read/returned-bytes-changed-later", fmt.Sprintf("the %d bytes ReadSector(%d,%d) returned at operation %d were right then and have changed since", len(hr.want), hr.key[0], hr.key[1], hr.at), hw)
					ok = false
					return
				}
			}
			if len(held) > 0 {
				c.Cover("read.earlier-results-still-intact")
			}
			if withBystander {
				if !theBystander.step(c, h) {
					ok = false
					return
				}
			}
			switch op.Kind {
			case "write":
				data := regiongen.Payload(op)
				imgBefore := st.image()
				osec, ocnt := entryOf(imgBefore, op.X, op.Z)
				endBefore := fileSectors(imgBefore)
				var snapshot []byte
				if op.Size > regiongen.MaxOK {
					snapshot = append([]byte{}, imgBefore...)
				}
				h.add(fmt.Sprintf("WriteSector(%d,%d,%d bytes)", op.X, op.Z, op.Size))
				tsBefore := slotOf(imgBefore, op.X, op.Z)
				// the library gets a slice of its own (with spare capacity behind it), which the caller overwrites as soon
				// as the call has returned: the region must not depend on it any longer
				given := append(make([]byte, 0, len(data)+64), data...)
				t0 := time.Now().Unix()
				werr := reg.WriteSector(op.X, op.Z, given)
				t1 := time.Now().Unix()
				for i := range given {
					given[i] = 0xa5
				}
				given = given[:cap(given)]
				for i := len(data); i < len(given); i++ {
					given[i] = 0x5a
				}
				img := st.image()
				if op.Size > regiongen.MaxOK {
					if werr == nil {
						c.Violation("limit/oversize-accepted", fmt.Sprintf("WriteSector accepted %d bytes (limit is %d)", op.Size, regiongen.MaxOK), h.wit())
						ok = false
						return
					}
					if !bytes.Equal(snapshot, img) {
						c.Violation("limit/refused-write-changed-file", "a refused over-limit write changed the file", h.wit())
						ok = false
						return
					}
					c.Cover("write.refused-over-limit")
					if !validate(c, img, model, h, true, key, "a refused write") {
						ok = false
						return
					}
					// "without changing anything" includes what the handle remembers. If the refusal released the
					// chunk's run in the handle's occupancy map, the file does not show it until an allocation lands
					// there: ask for one of exactly that size, for a chunk that does not exist yet
					if ocnt > 0 && len(model) < 1024 {
						pk := [2]int{31, 31}
						for i := 1023; i >= 0; i-- {
							if _, used := model[[2]int{i % 32, i / 32}]; !used {
								pk = [2]int{i % 32, i / 32}
								break
							}
						}
						pop := regiongen.Op{Kind: "write", X: pk[0], Z: pk[1], Size: ocnt*4096 - 4, Tag: op.Tag ^ 0x5a5a}
						pdata := regiongen.Payload(pop)
						h.add(fmt.Sprintf("WriteSector(%d,%d,%d bytes) (a new chunk as large as the run of the chunk whose write was refused: sector %d, %d sectors)", pop.X, pop.Z, pop.Size, osec, ocnt))
						if perr := reg.WriteSector(pop.X, pop.Z, pdata); perr != nil {
							c.Violation("write/error", fmt.Sprintf("WriteSector(%d,%d,%d bytes) failed: %v", pop.X, pop.Z, pop.Size, perr), h.wit())
							ok = false
							return
						}
						model[pk] = pdata
						pimg := st.image()
						if !validate(c, pimg, model, h, true, pk, "the first allocation after a refused write") {
							ok = false
							return
						}
						if psec, _ := entryOf(pimg, pop.X, pop.Z); psec > osec {
							// no earlier hole took it: first-fit went over the refused chunk's run and left it alone
							c.Cover("write.refused.next-allocation-passed-over-its-run")
						}
						c.Cover("write.refused.probed-by-allocation")
					}
					continue
				}
				if werr != nil {
					c.Violation("write/error", fmt.Sprintf("WriteSector(%d,%d,%d bytes) failed: %v", op.X, op.Z, op.Size, werr), h.wit())
					ok = false
					return
				}
				model[key] = data
				nsec, ncnt := entryOf(img, op.X, op.Z)
				switch {
				case osec == 0 && nsec >= endBefore:
					c.Cover("alloc.first-write-append")
				case osec == 0:
					c.Cover("alloc.first-write-into-hole")
				case nsec == osec && ncnt == ocnt:
					c.Cover("alloc.in-place")
				case ncnt > ocnt:
					c.Cover("alloc.grow-relocate")
				default:
					c.Cover("alloc.shrink-relocate")
				}
				if osec != 0 && !(nsec == osec && ncnt == ocnt) {
					reuse := false
					for s := nsec; s < nsec+ncnt; s++ {
						if freed[s] {
							reuse = true
						}
					}
					if reuse {
						c.Cover("alloc.reuse-of-freed-run")
					}
					for s := osec; s < osec+ocnt; s++ {
						freed[s] = true
					}
				} else if osec == 0 {
					for s := nsec; s < nsec+ncnt; s++ {
						if freed[s] {
							c.Cover("alloc.reuse-of-freed-run")
							break
						}
					}
				}
				if nsec > 2 && osec == 0 {
					// skipped over a hole?
					for s := 2; s < nsec; s++ {
						if freed[s] {
							c.Cover("alloc.first-fit-skips-small-hole")
							break
						}
					}
				}
				if op.Size == regiongen.MaxOK {
					c.Cover("write.maximum-size")
				}
				if spare[key] {
					// the first write to a chunk whose run in the prepared file was longer than its data needed
					delete(spare, key)
					if nsec == osec && ncnt == ocnt {
						c.Cover("foreign.chunk-with-spare-sectors.overwritten-in-place")
					} else {
						c.Cover("foreign.chunk-with-spare-sectors.relocated")
					}
				}
				// every chunk's stored bytes are compared after every write (the parse has walked the file anyway):
				// damage to another chunk must not be able to hide behind a later rewrite of that chunk
				if !validate(c, img, model, h, true, key, fmt.Sprintf("WriteSector(%d,%d,%d bytes)", op.X, op.Z, op.Size)) {
					ok = false
					return
				}
				// the timestamp slot: "last write time". A write that allocated (first write, grow, shrink) must
				// leave a clock value read during the call; one that overwrote in place may also keep the old value.
				// The two clock readings only bracket a value the library read itself; no deadline is involved.
				if t1 >= t0 {
					ts := int64(slotOf(img, op.X, op.Z))
					inPlace := osec != 0 && nsec == osec && ncnt == ocnt
					if !(ts >= t0 && ts <= t1) && !(inPlace && ts == int64(tsBefore)) {
						hw := h.wit().(map[string]any)
						hw["slot_before"], hw["slot_after"], hw["clock_before_call"], hw["clock_after_call"], hw["in_place"] = tsBefore, ts, t0, t1, inPlace
						c.Violation("timestamp/not-the-time-of-the-write", fmt.Sprintf("WriteSector(%d,%d,%d bytes) left timestamp %d in the chunk's slot (before: %d); the clock read %d before and %d after the call", op.X, op.Z, op.Size, ts, tsBefore, t0, t1), hw)
						ok = false
						return
					}
					if !inPlace {
						c.Cover("timestamp.allocating-write-within-clock-bracket")
					} else if ts != int64(tsBefore) {
						c.Cover("timestamp.in-place-write-refreshed")
					} else {
						c.Cover("timestamp.in-place-write-kept")
					}
				}
			case "read":
				h.add(fmt.Sprintf("ReadSector(%d,%d)", op.X, op.Z))
				got, rerr := reg.ReadSector(op.X, op.Z)
				want, present := model[key]
				if present {
					if rerr != nil || !bytes.Equal(got, want) {
						c.Violation("read/written-chunk", fmt.Sprintf("ReadSector(%d,%d): err=%v, %d bytes; last written %d bytes", op.X, op.Z, rerr, len(got), len(want)), h.wit())
						ok = false
						return
					}
					c.Cover("read.present")
					held = append(held, heldRead{key: key, got: got, want: want, at: len(h.ops)})
					if len(held) > 3 {
						held = held[1:]
					}
				} else {
					if rerr == nil {
						c.Violation("read/never-written-present", fmt.Sprintf("ReadSector(%d,%d) returned %d bytes for a chunk that was never written", op.X, op.Z, len(got)), h.wit())
						ok = false
						return
					}
					c.Cover("read.absent")
				}
			case "exist":
				h.add(fmt.Sprintf("ExistSector(%d,%d)", op.X, op.Z))
				_, present := model[key]
				if reg.ExistSector(op.X, op.Z) != present {
					c.Violation("exist/wrong", fmt.Sprintf("ExistSector(%d,%d)=%v, model says %v", op.X, op.Z, !present, present), h.wit())
					ok = false
					return
				}
			case "pad":
				h.add("PadToFullSector")
				if perr := reg.PadToFullSector(); perr != nil {
					c.Violation("pad/error", perr.Error(), h.wit())
					ok = false
					return
				}
				img := st.image()
				if len(img)%4096 != 0 {
					c.Violation("pad/not-multiple", fmt.Sprintf("file has %d bytes after PadToFullSector", len(img)), h.wit())
					ok = false
					return
				}
				if !validate(c, img, model, h, false, key, "PadToFullSector") {
					ok = false
					return
				}
				c.Cover("op.pad")
			case "reopen":
				h.add("reopen (Load)")
				var reg2 *region.Region
				var lerr error
				if flavour == "osfile" {
					reg.Close()
					reg2, lerr = region.Open(st.path)
					if lerr == nil {
						// the old handle is gone; compare with a second fresh handle below via the in-memory state kept here
					}
				} else {
					f, _ := open()
					reg2, lerr = region.Load(f)
				}
				if lerr != nil {
					c.Violation("reopen/error", "re-opening the region failed: "+lerr.Error(), h.wit())
					ok = false
					return
				}
				for z := 0; z < 32; z++ {
					for x := 0; x < 32; x++ {
						if reg2.ExistSector(x, z) != reg.ExistSector(x, z) {
							c.Violation("reopen/offsets-differ", fmt.Sprintf("chunk (%d,%d): presence differs between the old handle and a fresh Load", x, z), h.wit())
							ok = false
							return
						}
					}
				}
				if o1, o2 := offsetsOf(reg), offsetsOf(reg2); o1 != nil && o2 != nil {
					for z := 0; z < 32; z++ {
						for x := 0; x < 32; x++ {
							if o1[z][x] != o2[z][x] {
								c.Violation("reopen/offsets-differ/value", fmt.Sprintf("chunk (%d,%d): the old handle holds sector %d count %d, a fresh Load returns sector %d count %d", x, z, uint32(o1[z][x])>>8, o1[z][x]&0xff, uint32(o2[z][x])>>8, o2[z][x]&0xff), h.wit())
								ok = false
								return
							}
						}
					}
					c.Cover("offsets.old-handle-equals-fresh-load")
				}
				if reg2.Timestamps != reg.Timestamps {
					// find the first differing coordinate for the witness
					for a := 0; a < 32 && ok; a++ {
						for b := 0; b < 32; b++ {
							if reg2.Timestamps[a][b] != reg.Timestamps[a][b] {
								cls := "value"
								if reg.Timestamps[a][b] == reg2.Timestamps[b][a] {
									cls = "transposed"
								}
								c.Violation("reopen/timestamps-differ/"+cls, fmt.Sprintf("Timestamps[%d][%d]: in memory %d, fresh Load %d (in memory [%d][%d] = %d)", a, b, reg.Timestamps[a][b], reg2.Timestamps[a][b], b, a, reg.Timestamps[b][a]), h.wit())
								ok = false
								break
							}
						}
					}
					return
				}
				if flavour != "osfile" {
					// old handle is simply dropped
				}
				reg = reg2
				// "the file was written long ago": give every present chunk a distinct old timestamp in the backing
				// store and load it again, so that from here on any write that changes the in-memory timestamp but
				// not the header (or the reverse) shows at the next reopen without waiting for the clock to tick
				if flavour != "osfile" && op.Tag%2 == 0 && len(st.mem.B) >= 8192 {
					for z := 0; z < 32; z++ {
						for x := 0; x < 32; x++ {
							if reg.ExistSector(x, z) {
								binary.BigEndian.PutUint32(st.mem.B[4096+4*(z*32+x):], uint32(1_000_000+z*32+x))
							}
						}
					}
					f, _ := open()
					if reg3, e3 := region.Load(f); e3 != nil {
						c.Violation("reopen/error", "re-opening the region after ageing its timestamps failed: "+e3.Error(), h.wit())
						ok = false
						return
					} else {
						reg = reg3
					}
					h.add("header timestamps of present chunks set to 1000000+index in the backing store; Load")
					c.Cover("op.aged-timestamps")
				}
				c.Cover("op.reopen")
			}
		}
		// final: full comparison, through the API and through the independent parser
		img := st.image()
		if !validate(c, img, model, h, true, [2]int{-1, -1}, "the whole history") {
			ok = false
			return
		}
		for k, want := range model {
			got, rerr := reg.ReadSector(k[0], k[1])
			if rerr != nil || !bytes.Equal(got, want) {
				c.Violation("read/written-chunk", fmt.Sprintf("final ReadSector(%d,%d): err=%v", k[0], k[1], rerr), h.wit())
				ok = false
				return
			}
		}
	})
	if pan || !ok {
		return
	}
	if withBystander {
		c.Cover("two-handles.operations-alternate")
	}
	if staleStart {
		c.Cover("history.created-over-stale-content")
	}
	c.Cover("history." + flavour)
	if hi == 0 {
		c.Sample("history", h.wit())
	}
}

func run(c *vm.Ctx) {
	r := c.Rand("hist")
	n := c.Scale(2400, 24000)
	for i := 0; i < n; i++ {
		flavour := []string{"mem", "mem+writerat", "mem", "mem+writerat", "osfile"}[i%5]
		if flavour == "osfile" && !c.Thorough() && i%20 != 4 {
			flavour = "mem+shortreads"
		}
		if i%10 == 2 {
			flavour = "mem+foreign"
		}
		if i%10 == 7 {
			flavour = "mem+shortreads" // in both tiers (the replacement above only happens in the quick one)
		}
		nops := r.Range(1, 400)
		if i%3 == 0 {
			nops = r.Range(1, 40)
		}
		big := i%6 == 0
		if big {
			nops = min(nops, 60)
		}
		runHistory(c, r, i, nops, flavour, big)
	}
	fr := c.Rand("far")
	for i := 0; i < c.Scale(6, 40); i++ {
		checkFarSectors(c, fr, i)
	}
}
