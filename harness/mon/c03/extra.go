package main

import (
	"bytes"
	"errors"
	"fmt"
	"reflect"
	"strings"

	"github.com/Tnze/go-mc/nbt"

	"verif/gen/nbtgen"
	"verif/ref/refnbt"
	"verif/vm"
)

// ---------------------------------------------------------------------------------------------------
// RawMessage values

// rawFollowUp looks at what RawMessage.Unmarshal / UnmarshalDisallowUnknownField returned for a value the "raw"
// entry has just captured. By the time it is called the capture itself was reported as a success, so a cut-off or
// corrupted input has already been judged by check(); recorded here is whether the second stage was reached with
// either outcome, and whether it agrees with decoding the same input into `any` directly (not a verdict of this
// property - a carrier that captures other bytes than it was given is C02's subject - but a run in which the two
// never agreed has not exercised the path).
func rawFollowUp(c *vm.Ctx, in *input, cl refnbt.Class, anyErr error) {
	if rawUnmarshalErr == nil {
		c.Cover("raw.unmarshal.success")
	} else {
		c.Cover("raw.unmarshal.error")
	}
	if rawStrictErr == nil {
		c.Cover("raw.unmarshal-disallow-unknown.success")
	}
	switch {
	case anyErr == nil && rawUnmarshalErr == nil:
		c.Cover("raw.unmarshal.agrees-with-any")
	case anyErr == nil:
		c.Cover("raw.unmarshal.refuses-what-any-accepts")
	}
}

// handBuiltRaw: a RawMessage is a plain struct, so String and Unmarshal also meet values no decoder has validated:
// any tag id (0, 13 and above) with any payload. The statement names RawMessage.String as an entry point for every
// byte string. The input's first byte is taken as the type and the rest as the data - which is the network-format
// reading of the input, so the reference classifier says what must not come back as a success: for String that is
// any text other than "<Invalid: ...>" (the documented answer for data that is not valid NBT).
func handBuiltRaw(c *vm.Ctx, in *input, cl refnbt.Class, kind string) {
	if len(in.b) == 0 {
		return
	}
	if !in.network {
		_, _, _, perr := refnbt.Parse(in.b, true)
		cl, kind = refnbt.WellFormed, ""
		if perr != nil {
			cl, kind = perr.Class, perr.Kind
		}
	}
	m := nbt.RawMessage{Type: in.b[0], Data: in.b[1:]}
	var s string
	var v any
	var err, errStrict error
	strict := m.Type == nbt.TagCompound
	wit := func() any {
		return map[string]any{"raw_message_type": m.Type, "raw_message_data": vm.Hex(m.Data), "origin": in.origin, "entry": "RawMessage{Type, Data}.String / .Unmarshal"}
	}
	if c.Guard("rawmsg-handbuilt", wit, func() {
		s = m.String()
		err = m.Unmarshal(&v)
		if strict {
			var mm map[string]any
			errStrict = m.UnmarshalDisallowUnknownField(&mm)
		}
	}) {
		return
	}
	c.Eval(0, false)
	invalid := strings.HasPrefix(s, "<Invalid:")
	if mustFail(cl) {
		if !invalid && m.Type != nbt.TagEnd {
			c.Violation("rawmsg-handbuilt/String/success-on-"+cl.String()+"@"+kind, fmt.Sprintf("RawMessage{Type: %d, Data: %s}.String() returned a text (%q...) for data the reference classifies %s at %s", m.Type, vm.Hex(m.Data), s[:min(len(s), 40)], cl, kind), wit())
		}
		if err == nil {
			c.Violation("rawmsg-handbuilt/Unmarshal/success-on-"+cl.String()+"@"+kind, fmt.Sprintf("RawMessage{Type: %d, Data: %s}.Unmarshal(&any) returned nil for data the reference classifies %s at %s", m.Type, vm.Hex(m.Data), cl, kind), wit())
		}
		if strict && errStrict == nil {
			c.Violation("rawmsg-handbuilt/UnmarshalDisallowUnknownField/success-on-"+cl.String()+"@"+kind, fmt.Sprintf("RawMessage{Type: %d, Data: %s}.UnmarshalDisallowUnknownField(&map) returned nil for data the reference classifies %s at %s", m.Type, vm.Hex(m.Data), cl, kind), wit())
		}
	}
	if err == nil {
		if n := countAny(v); n > len(in.b)+8 {
			c.Violation("rawmsg-handbuilt/Unmarshal/amplification", fmt.Sprintf("returned %d elements from %d input bytes", n, len(in.b)), wit())
		}
		c.Cover("rawmsg-handbuilt.Unmarshal.success")
	} else {
		c.Cover("rawmsg-handbuilt.Unmarshal.error")
	}
	if invalid {
		c.Cover("rawmsg-handbuilt.String.invalid")
	} else {
		c.Cover("rawmsg-handbuilt.String.text")
	}
	if m.Type == 0 || m.Type > nbt.TagLongArray {
		c.Cover("rawmsg-handbuilt.type-0-or-above-12")
	}
}

// ---------------------------------------------------------------------------------------------------
// Receivers with a text hook, pointers to pointers, embedded pointers

// TextT decodes itself from text (encoding.TextUnmarshaler on the pointer); it refuses some texts.
type TextT struct{ S string }

func (t *TextT) UnmarshalText(b []byte) error {
	if len(b)%5 == 4 {
		return errors.New("TextT: refused")
	}
	t.S = string(b)
	return nil
}

type Inner struct {
	X int32  `nbt:"x"`
	Y string `nbt:"y"`
}

type inner struct {
	P int32  `nbt:"p"`
	Q []byte `nbt:"q"`
}

type hooked struct {
	T  TextT  `nbt:"t"`
	PT *TextT `nbt:"pt"`
	*Inner
	*inner
	PP  **int32           `nbt:"pp"`
	M   map[string]TextT  `nbt:"m"`
	MP  map[string]*TextT `nbt:"mp"`
	PS  *[]int64          `nbt:"ps"`
	PL  *[]string         `nbt:"pl"`
	In  *Inner            `nbt:"in"`
	LT  []TextT           `nbt:"lt"`
	LPT []*TextT          `nbt:"lpt"`
	PPS **Inner           `nbt:"pps"`
}

func init() {
	// one more entry for every input of the main workload: a receiver with a text hook, picked by the root tag
	entries = append(entries, entry{"text-hook", func(in *input, _ reflect.Type) (error, int) {
		root := byte(0)
		if len(in.b) > 0 {
			root = in.b[0]
		}
		alt := in.h>>7&1 == 1
		switch {
		case root == nbt.TagCompound && alt:
			var m map[string]*TextT
			_, err := dec(in).Decode(&m)
			return err, len(m)
		case root == nbt.TagCompound:
			var m map[string]TextT
			_, err := dec(in).Decode(&m)
			return err, len(m)
		case root == nbt.TagList && alt:
			var l []*TextT
			_, err := dec(in).Decode(&l)
			return err, len(l)
		case root == nbt.TagList:
			var l []TextT
			_, err := dec(in).Decode(&l)
			return err, len(l)
		case alt:
			var p **TextT
			_, err := dec(in).Decode(&p)
			return err, 0
		}
		var t TextT
		_, err := dec(in).Decode(&t)
		return err, 0
	}})
}

// hookedDocs: documents made for the struct above (its member names, with the fitting tag most of the time and any
// other tag otherwise), then every prefix, the length/tag mutation table and bit flips, decoded into the struct with
// and without DisallowUnknownFields, fresh and on top of an earlier decode.
func hookedDocs(c *vm.Ctx, r *vm.Rand) {
	cfg := nbtgen.Default()
	cfg.MaxNodes, cfg.MaxArray, cfg.LongString, cfg.MaxDepth = 12, 8, false, 3
	g := nbtgen.New(r, cfg)
	str := func() *refnbt.Value { return refnbt.St(g.Str()) }
	strComp := func() *refnbt.Value {
		v := &refnbt.Value{Tag: refnbt.Compound}
		for i, n := 0, r.Intn(4); i < n; i++ {
			v.Comp = append(v.Comp, refnbt.Entry{Name: fmt.Sprintf("k%d", i), V: str()})
		}
		return v
	}
	strList := func() *refnbt.Value {
		v := &refnbt.Value{Tag: refnbt.List, Elem: refnbt.String}
		for i, n := 0, r.Intn(4); i < n; i++ {
			v.List = append(v.List, str())
		}
		return v
	}
	innerV := func() *refnbt.Value {
		return &refnbt.Value{Tag: refnbt.Compound, Comp: []refnbt.Entry{{Name: "x", V: refnbt.In(int32(r.Uint64()))}, {Name: "y", V: str()}}}
	}
	fitting := map[string]func() *refnbt.Value{
		"t": str, "pt": str, "y": str, "m": strComp, "mp": strComp, "pl": strList, "lt": strList, "lpt": strList, "in": innerV, "pps": innerV,
		"x":  func() *refnbt.Value { return refnbt.In(int32(r.Uint64())) },
		"p":  func() *refnbt.Value { return refnbt.In(int32(r.Uint64())) },
		"pp": func() *refnbt.Value { return refnbt.In(int32(r.Uint64())) },
		"q":  func() *refnbt.Value { return &refnbt.Value{Tag: refnbt.ByteArray, Bytes: r.Bytes(r.Intn(6))} },
		"ps": func() *refnbt.Value {
			v := &refnbt.Value{Tag: refnbt.LongArray}
			for i, n := 0, r.Intn(4); i < n; i++ {
				v.Longs = append(v.Longs, int64(r.Uint64()))
			}
			return v
		},
	}
	keys := []string{"t", "pt", "x", "y", "pp", "m", "mp", "ps", "pl", "in", "lt", "lpt", "pps", "p", "q"}
	one := func(in *input, tree *refnbt.Value) {
		cl, kind, _ := classify(in)
		nt := byte(0)
		if in.network {
			nt = 1
		}
		in.h = vm.Hash64(in.b, []byte{nt})
		c.Inflight("hooked " + in.origin + " " + vm.Hex(in.b))
		for mode := 0; mode < 3; mode++ {
			name := [3]string{"hooks", "hooks-disallow-unknown", "hooks-reused"}[mode]
			var h hooked
			var err error
			if c.Guard(name, in.wit(name), func() {
				if mode == 2 && in.prior != nil {
					d := nbt.NewDecoder(bytes.NewReader(in.prior))
					d.NetworkFormat(in.network)
					_, _ = d.Decode(&h)
				}
				d := dec(in)
				if mode == 1 {
					d.DisallowUnknownFields()
				}
				_, err = d.Decode(&h)
			}) {
				continue
			}
			c.Eval(in.h+uint64(mode), len(in.b) > 2)
			if err != nil {
				c.Cover("hooks.error")
				if strings.Contains(err.Error(), "embedded pointer to unexported struct") {
					c.Cover("hooks.reached.embedded-pointer-to-unexported-struct-refused")
				}
				continue
			}
			if mustFail(cl) {
				c.Violation(name+"/success-on-"+cl.String()+"@"+kind, fmt.Sprintf("decoding into the struct with text hooks, pointer and embedded-pointer fields reported success on input the reference classifies %s at %s (origin %s): %s", cl, kind, in.origin, vm.Hex(in.b)), in.wit(name)())
				continue
			}
			c.Cover("hooks.success")
			if h.T.S != "" {
				c.Cover("hooks.reached.text-hook")
			}
			if h.PT != nil {
				c.Cover("hooks.reached.pointer-to-text-hook")
			}
			if h.Inner != nil {
				c.Cover("hooks.reached.embedded-pointer")
			}
			if h.PP != nil && *h.PP != nil {
				c.Cover("hooks.reached.pointer-to-pointer")
			}
			if len(h.M) > 0 {
				c.Cover("hooks.reached.map-of-text-hook")
			}
			if len(h.MP) > 0 {
				c.Cover("hooks.reached.map-of-pointer-to-text-hook")
			}
			if h.PS != nil || h.PL != nil {
				c.Cover("hooks.reached.pointer-to-slice")
			}
			if len(h.LT) > 0 || len(h.LPT) > 0 {
				c.Cover("hooks.reached.slice-of-text-hook")
			}
		}
	}
	for i, n := 0, c.Scale(160, 8000); i < n; i++ {
		tree := &refnbt.Value{Tag: refnbt.Compound}
		wrongTag := false
		for _, k := range keys {
			if (k == "p" || k == "q") && r.Intn(4) != 0 { // reaching these ends the decode with an error
				continue
			}
			if r.Intn(3) == 0 {
				continue
			}
			var v *refnbt.Value
			if r.Intn(4) == 0 {
				v = g.Doc(byte(r.Range(1, 12))) // any tag under the name of a field that wants another one
				wrongTag = true
			} else {
				v = fitting[k]()
			}
			name := k
			if r.Intn(8) == 0 {
				name = strings.ToUpper(k) // member names match without regard to case
			}
			tree.Comp = append(tree.Comp, refnbt.Entry{Name: name, V: v})
		}
		if r.Intn(4) == 0 {
			tree.Comp = append(tree.Comp, refnbt.Entry{Name: "unknown", V: g.Doc(0)})
		}
		r2 := r.Fork()
		for k := len(tree.Comp) - 1; k > 0; k-- {
			j := r2.Intn(k + 1)
			tree.Comp[k], tree.Comp[j] = tree.Comp[j], tree.Comp[k]
		}
		network := r.Bool()
		doc, fields := refnbt.EncodeWithLayout(tree, "", network)
		if wrongTag {
			c.Cover("hooks.doc.member-of-another-tag")
		}
		one(&input{b: doc, network: network, origin: "hooked-valid"}, tree)
		for k := 0; k < len(doc); k++ {
			one(&input{b: doc[:k], network: network, origin: "hooked-prefix", prior: doc}, tree)
		}
		for _, f := range fields {
			for _, m := range nbtgen.FieldMutations(doc, f) {
				one(&input{b: m.Bytes, network: network, origin: "hooked-" + m.Name, prior: doc}, tree)
			}
		}
		for k := 0; k < 16; k++ {
			b := append([]byte{}, doc...)
			b[r.Intn(len(b))] ^= 1 << uint(r.Intn(8))
			one(&input{b: b, network: network, origin: "hooked-bitflip", prior: doc}, tree)
		}
	}
}

// ---------------------------------------------------------------------------------------------------
// The nesting limit. Lists and compounds nested up to 500 levels are ordinary documents: the entry points that take
// any document (any, RawMessage with String and Unmarshal, StringifiedMessage, dynbt.Value) must decode them.
// Around 512 either outcome is accepted (the limit is the decoders' own, and they count a little differently), but
// nothing may panic, cut-off forms must fail, and each decoder's limit must be there in every one of its paths.

func nestedDoc(form string, d int, network bool) []byte {
	var doc []byte
	switch form {
	case "lists":
		doc = append(doc, refnbt.List)
		if !network {
			doc = append(doc, 0, 0)
		}
		for i := 0; i < d-1; i++ {
			doc = append(doc, refnbt.List, 0, 0, 0, 1)
		}
		doc = append(doc, refnbt.Int, 0, 0, 0, 1, 0, 0, 0, 7)
	case "compounds":
		doc = append(doc, refnbt.Compound)
		if !network {
			doc = append(doc, 0, 0)
		}
		for i := 0; i < d-1; i++ {
			doc = append(doc, refnbt.Compound, 0, 1, 'a')
		}
		doc = append(doc, make([]byte, d)...)
	default: // alternating: {a:[{a:[ ... ]}]}, built from the innermost container outwards
		var p []byte
		for level := d; level >= 1; level-- {
			if level%2 == 1 { // a compound: its one member is the list below it
				if level < d {
					p = append([]byte{refnbt.List, 0, 1, 'a'}, p...)
				}
				p = append(p, 0)
			} else if level < d { // a list holding the compound below it
				p = append([]byte{refnbt.Compound, 0, 0, 0, 1}, p...)
			} else {
				p = []byte{refnbt.End, 0, 0, 0, 0}
			}
		}
		doc = append(doc, refnbt.Compound)
		if !network {
			doc = append(doc, 0, 0)
		}
		doc = append(doc, p...)
	}
	return doc
}

func depthBoundary(c *vm.Ctx) {
	anyT := reflect.TypeOf((*any)(nil)).Elem()
	must := map[string]bool{"any": true, "raw": true, "stringified": true, "dynbt": true}
	for _, d := range []int{64, 300, 500, 505, 510, 511, 512, 513, 514, 520} {
		for _, form := range []string{"lists", "compounds", "alternating"} {
			for _, network := range []bool{true, false} {
				doc := nestedDoc(form, d, network)
				if d <= 500 {
					if _, _, used, perr := refnbt.Parse(doc, network); perr != nil || used != len(doc) {
						panic(fmt.Sprintf("oracle self-check failed: %s nested %d deep is not well-formed for the reference: %v", form, d, perr))
					}
				}
				in := &input{b: doc, network: network, origin: fmt.Sprintf("nested-%s-%d", form, d)}
				check(c, in, anyT) // totality, and "no success on what the reference refuses", for all entries
				if d <= 500 {
					for _, e := range entries {
						if !must[e.name] {
							continue
						}
						var err error
						if c.Guard(e.name, in.wit(e.name), func() { err, _ = e.run(in, anyT) }) {
							continue
						}
						if err != nil {
							c.Violation("nesting/refused-at-or-below-500/"+e.name+"/"+form, fmt.Sprintf("%s nested %d levels deep (a well-formed document, limit 512) is refused by entry point %s: %v", form, d, e.name, err), map[string]any{"form": form, "nested_levels": d, "network": network, "entry": e.name, "document_bytes": len(doc), "source": srcNames[in.srcKind()]})
						} else {
							c.Cover("nesting.accepted-at-or-below-500." + e.name)
						}
					}
					// the captured RawMessage's second stage as well
					var m nbt.RawMessage
					var s string
					var uerr error
					if !c.Guard("raw", in.wit("raw"), func() {
						if _, err := dec(in).Decode(&m); err == nil {
							s = m.String()
							var v any
							uerr = m.Unmarshal(&v)
						}
					}) {
						if strings.HasPrefix(s, "<Invalid:") || uerr != nil {
							c.Violation("nesting/refused-at-or-below-500/raw-second-stage/"+form, fmt.Sprintf("%s nested %d levels deep captured in a RawMessage: String() = %q, Unmarshal(&any) = %v", form, d, s[:min(len(s), 60)], uerr), map[string]any{"form": form, "nested_levels": d, "network": network, "document_bytes": len(doc)})
						} else {
							c.Cover("nesting.accepted-at-or-below-500.raw-second-stage")
						}
					}
				} else {
					c.Cover("nesting.around-512")
				}
				// cut off inside the innermost levels, and just before the end
				for _, cut := range []int{len(doc) - 1, len(doc) - d/2, len(doc) / 2, len(doc) - d - 3} {
					if cut > 3 && cut < len(doc) {
						check(c, &input{b: doc[:cut], network: network, origin: fmt.Sprintf("nested-%s-%d-cut", form, d), prior: doc}, anyT)
					}
				}
			}
		}
	}
}
