package main

import (
	"bytes"
	"fmt"
	"reflect"
	"strings"

	"github.com/Tnze/go-mc/nbt"
	"github.com/Tnze/go-mc/nbt/dynbt"

	"verif/gen/nbtgen"
	"verif/ref/refnbt"
	"verif/vm"
)

// ---------------------------------------------------------------------------------------------------
// Receivers that are not fresh. The entries of the main table decode into new variables, except "typed-reused"
// (generated struct types, which never contain a carrier). A program that reads documents in a loop hands the
// decoder the RawMessage, dynbt.Value, text or `any` it used last time - these keep and reuse their buffers - and an
// `any` may hold a value that says which type to decode into (a struct, a pointer, a carrier), which sends the
// decoder through the interface arm of its pointer walk. One of these receivers, picked by the hash of the input,
// meets every second input of the main workload: first the well-formed document the input was derived from goes into
// it, then the input.

type usedVariant struct {
	name string
	run  func(in *input, prior []byte) error
}

func decodeInto(b []byte, network bool, v any) error {
	d := nbt.NewDecoder(bytes.NewReader(b))
	d.NetworkFormat(network)
	_, err := d.Decode(v)
	return err
}

var usedVariants = []usedVariant{
	{"RawMessage holding an earlier capture", func(in *input, prior []byte) error {
		var m nbt.RawMessage
		_ = decodeInto(prior, in.network, &m)
		if _, err := dec(in).Decode(&m); err != nil {
			return err
		}
		_ = m.String()
		var v any
		_ = m.Unmarshal(&v)
		return nil
	}},
	{"dynbt.Value holding an earlier document", func(in *input, prior []byte) error {
		var v dynbt.Value
		_ = decodeInto(prior, in.network, &v)
		if _, err := dec(in).Decode(&v); err != nil {
			return err
		}
		walkDyn(&v)
		var buf bytes.Buffer
		_ = nbt.NewEncoder(&buf).Encode(&v, "")
		return nil
	}},
	{"StringifiedMessage holding an earlier text", func(in *input, prior []byte) error {
		var m nbt.StringifiedMessage
		_ = decodeInto(prior, in.network, &m)
		_, err := dec(in).Decode(&m)
		return err
	}},
	{"any holding an earlier value", func(in *input, prior []byte) error {
		var v any
		_ = decodeInto(prior, in.network, &v)
		_, err := dec(in).Decode(&v)
		return err
	}},
	{"map[string]any holding an earlier compound", func(in *input, prior []byte) error {
		v := map[string]any{"stays": int8(1)}
		_ = decodeInto(prior, in.network, &v)
		_, err := dec(in).Decode(&v)
		return err
	}},
	{"any holding a struct / a pointer to a struct", func(in *input, prior []byte) error {
		var v any = hooked{}
		if in.h>>16&1 == 1 {
			v = &contained{}
		}
		_ = decodeInto(prior, in.network, &v)
		_, err := dec(in).Decode(&v)
		return err
	}},
	{"any holding a nil pointer / a pointer to a pointer", func(in *input, prior []byte) error {
		var v any = (*Inner)(nil)
		if in.h>>16&1 == 1 {
			p := new(*Inner)
			v = p
		}
		_, err := dec(in).Decode(&v)
		return err
	}},
	{"any holding a carrier, a scalar, an array or itself", func(in *input, prior []byte) error {
		var v any
		switch in.h >> 16 & 7 {
		case 0:
			v = dynbt.Value{}
		case 1:
			v = &dynbt.Value{}
		case 2:
			v = nbt.RawMessage{Type: 3, Data: []byte{1, 2, 3, 4, 5, 6, 7, 8}}
		case 3:
			v = nbt.StringifiedMessage("{old:1b}")
		case 4:
			v = uint8(7)
		case 5:
			v = [2]int32{1, 2}
		case 6:
			v = TextT{S: "old"}
		default:
			v = &v // an interface pointing at itself
		}
		_, err := dec(in).Decode(&v)
		return err
	}},
}

func (in *input) usedVariant() int { return int(in.h>>12&0xfff) % len(usedVariants) }

var smallPrior = map[bool][]byte{
	true:  {refnbt.Compound, refnbt.Byte, 0, 1, 'a', 1, 0},
	false: {refnbt.Compound, 0, 0, refnbt.Byte, 0, 1, 'a', 1, 0},
}

// usedPrior: the document the receiver holds before the input arrives (the valid document the input was derived
// from, or a small compound for inputs that have none).
func (in *input) usedPrior() []byte {
	if in.prior != nil {
		return in.prior
	}
	return smallPrior[in.network]
}

func init() {
	entries = append(entries, entry{"used-receiver", func(in *input, _ reflect.Type) (error, int) {
		if in.h>>11&1 == 1 {
			return errSkipped, 0
		}
		k := in.usedVariant()
		err := usedVariants[k].run(in, in.usedPrior())
		if err == nil {
			usedOK[k]++
		} else {
			usedErr[k]++
		}
		return err, 0
	}})
}

// outcomes of the used-receiver entry per receiver (flushed into coverage classes at the end of the run)
var usedOK, usedErr [8]int64

var usedKeys = [8]string{"RawMessage", "dynbt", "StringifiedMessage", "any-earlier-value", "map-earlier-compound", "any-struct-or-pointer-template", "any-nil-pointer-or-pointer-to-pointer", "any-carrier-scalar-array-self"}

func flushUsed(c *vm.Ctx) {
	for k := range usedVariants {
		if usedOK[k] > 0 {
			c.CoverN("used-receiver.success."+usedKeys[k], usedOK[k])
		}
		if usedErr[k] > 0 {
			c.CoverN("used-receiver.error."+usedKeys[k], usedErr[k])
		}
	}
}

// ---------------------------------------------------------------------------------------------------
// Containers of structs, pointers, slices and carriers. The generated receiver types put `any` below every list of
// compounds or lists; the receiver with text hooks has slices and maps of hooks only. Here: slices, arrays and maps
// whose elements are structs, pointers to structs, slices, maps and the three carriers - the element loops of the
// list arm and the map arm with elements that are walked into, allocated, or decode themselves.

type contained struct {
	LS  []Inner                           `nbt:"ls"`
	LP  []*Inner                          `nbt:"lp"`
	AS  [2]Inner                          `nbt:"as"`
	AP  [3]*Inner                         `nbt:"ap"`
	MS  map[string]Inner                  `nbt:"ms"`
	MP  map[string]*Inner                 `nbt:"mp"`
	ML  map[string][]int32                `nbt:"ml"`
	MM  map[string]map[string]int8        `nbt:"mm"`
	LL  [][]int64                         `nbt:"ll"`
	LLS [][]string                        `nbt:"lls"`
	LM  []map[string]Inner                `nbt:"lm"`
	MR  map[string]nbt.RawMessage         `nbt:"mr"`
	MD  map[string]dynbt.Value            `nbt:"md"`
	MPD map[string]*dynbt.Value           `nbt:"mpd"`
	MSM map[string]nbt.StringifiedMessage `nbt:"msm"`
	LSM []nbt.StringifiedMessage          `nbt:"lsm"`
	LPR []*nbt.RawMessage                 `nbt:"lpr"`
	PR  *nbt.RawMessage                   `nbt:"pr"`
	PD  *dynbt.Value                      `nbt:"pd"`
	D   dynbt.Value                       `nbt:"d"`
	R   nbt.RawMessage                    `nbt:"r"`
	S   nbt.StringifiedMessage            `nbt:"s"`
	LA  []any                             `nbt:"la"`
	NS  struct {
		In Inner    `nbt:"in"`
		L  []*Inner `nbt:"l"`
	} `nbt:"ns"`
}

func containerDocs(c *vm.Ctx, r *vm.Rand) {
	cfg := nbtgen.Default()
	cfg.MaxNodes, cfg.MaxArray, cfg.LongString, cfg.MaxDepth = 10, 6, false, 3
	g := nbtgen.New(r, cfg)
	innerV := func() *refnbt.Value {
		v := &refnbt.Value{Tag: refnbt.Compound}
		if r.Intn(4) != 0 {
			v.Comp = append(v.Comp, refnbt.Entry{Name: "x", V: refnbt.In(int32(r.Uint64()))})
		}
		if r.Intn(4) != 0 {
			v.Comp = append(v.Comp, refnbt.Entry{Name: "y", V: refnbt.St(g.Str())})
		}
		if r.Intn(6) == 0 {
			v.Comp = append(v.Comp, refnbt.Entry{Name: "unknown", V: g.Doc(0)})
		}
		return v
	}
	listOf := func(elem byte, n int, mk func() *refnbt.Value) *refnbt.Value {
		v := &refnbt.Value{Tag: refnbt.List, Elem: elem}
		for i := 0; i < n; i++ {
			v.List = append(v.List, mk())
		}
		if n == 0 && r.Bool() {
			v.Elem = refnbt.End
		}
		return v
	}
	compOf := func(n int, mk func() *refnbt.Value) *refnbt.Value {
		v := &refnbt.Value{Tag: refnbt.Compound}
		for i := 0; i < n; i++ {
			v.Comp = append(v.Comp, refnbt.Entry{Name: fmt.Sprintf("k%d", i), V: mk()})
		}
		return v
	}
	ints := func() *refnbt.Value {
		v := &refnbt.Value{Tag: refnbt.IntArray}
		for i, n := 0, r.Intn(4); i < n; i++ {
			v.Ints = append(v.Ints, int32(r.Uint64()))
		}
		return v
	}
	longs := func() *refnbt.Value {
		v := &refnbt.Value{Tag: refnbt.LongArray}
		for i, n := 0, r.Intn(4); i < n; i++ {
			v.Longs = append(v.Longs, int64(r.Uint64()))
		}
		return v
	}
	anyV := func() *refnbt.Value { return g.Doc(byte(r.Range(1, 12))) }
	sameTagList := func() *refnbt.Value {
		t := byte(r.Range(1, 12))
		return listOf(t, r.Intn(4), func() *refnbt.Value { return g.Doc(t) })
	}
	fitting := map[string]func() *refnbt.Value{
		"ls":  func() *refnbt.Value { return listOf(refnbt.Compound, r.Intn(4), innerV) },
		"lp":  func() *refnbt.Value { return listOf(refnbt.Compound, r.Intn(4), innerV) },
		"as":  func() *refnbt.Value { return listOf(refnbt.Compound, []int{1, 2, 2, 3}[r.Intn(4)], innerV) }, // 3 elements do not fit
		"ap":  func() *refnbt.Value { return listOf(refnbt.Compound, r.Intn(4), innerV) },
		"ms":  func() *refnbt.Value { return compOf(r.Intn(4), innerV) },
		"mp":  func() *refnbt.Value { return compOf(r.Intn(4), innerV) },
		"ml":  func() *refnbt.Value { return compOf(r.Intn(4), ints) },
		"mm":  func() *refnbt.Value { return compOf(r.Intn(3), func() *refnbt.Value { return compOf(r.Intn(3), func() *refnbt.Value { return refnbt.B(int8(r.Uint64())) }) }) },
		"ll":  func() *refnbt.Value { return listOf(refnbt.LongArray, r.Intn(4), longs) },
		"lls": func() *refnbt.Value { return listOf(refnbt.List, r.Intn(3), func() *refnbt.Value { return listOf(refnbt.String, r.Intn(3), func() *refnbt.Value { return refnbt.St(g.Str()) }) }) },
		"lm":  func() *refnbt.Value { return listOf(refnbt.Compound, r.Intn(3), func() *refnbt.Value { return compOf(r.Intn(3), innerV) }) },
		"mr":  func() *refnbt.Value { return compOf(r.Intn(4), anyV) },
		"md":  func() *refnbt.Value { return compOf(r.Intn(4), anyV) },
		"mpd": func() *refnbt.Value { return compOf(r.Intn(4), anyV) },
		"msm": func() *refnbt.Value { return compOf(r.Intn(4), anyV) },
		"lsm": sameTagList, "lpr": sameTagList, "la": sameTagList,
		"pr": anyV, "pd": anyV, "d": anyV, "r": anyV, "s": anyV,
		"ns": func() *refnbt.Value {
			return &refnbt.Value{Tag: refnbt.Compound, Comp: []refnbt.Entry{{Name: "in", V: innerV()}, {Name: "l", V: listOf(refnbt.Compound, r.Intn(3), innerV)}}}
		},
	}
	keys := []string{"ls", "lp", "as", "ap", "ms", "mp", "ml", "mm", "ll", "lls", "lm", "mr", "md", "mpd", "msm", "lsm", "lpr", "pr", "pd", "d", "r", "s", "la", "ns"}
	one := func(in *input) {
		cl, kind, _ := classify(in)
		nt := byte(0)
		if in.network {
			nt = 1
		}
		in.h = vm.Hash64(in.b, []byte{nt})
		c.Inflight("containers " + in.origin + " " + vm.Hex(in.b))
		for mode := 0; mode < 3; mode++ {
			name := [3]string{"containers", "containers-disallow-unknown", "containers-reused"}[mode]
			var h contained
			var err error
			if c.Guard(name, in.wit(name), func() {
				if mode == 2 && in.prior != nil {
					_ = decodeInto(in.prior, in.network, &h)
				}
				d := dec(in)
				if mode == 1 {
					d.DisallowUnknownFields()
				}
				_, err = d.Decode(&h)
			}) {
				continue
			}
			c.Eval(in.h+uint64(mode)+7, len(in.b) > 2)
			if err != nil {
				c.Cover("containers.error")
				continue
			}
			if mustFail(cl) {
				c.Violation(name+"/success-on-"+cl.String()+"@"+kind, fmt.Sprintf("decoding into the struct with slices, arrays and maps of structs, pointers and carriers reported success on input the reference classifies %s at %s (origin %s): %s", cl, kind, in.origin, vm.Hex(in.b)), in.wit(name)())
				continue
			}
			c.Cover("containers.success")
			reached := map[string]bool{
				"slice-of-struct": len(h.LS) > 0, "slice-of-pointer-to-struct": len(h.LP) > 0 && h.LP[0] != nil, "array-of-struct": h.AS[0] != (Inner{}) || h.AS[1] != (Inner{}),
				"array-of-pointer-to-struct": h.AP[0] != nil, "map-of-struct": len(h.MS) > 0, "map-of-pointer-to-struct": len(h.MP) > 0, "map-of-slice": len(h.ML) > 0, "map-of-map": len(h.MM) > 0,
				"slice-of-slice": len(h.LL) > 0 || len(h.LLS) > 0, "slice-of-map-of-struct": len(h.LM) > 0, "map-of-RawMessage": len(h.MR) > 0, "map-of-dynbt": len(h.MD) > 0 || len(h.MPD) > 0,
				"map-of-text": len(h.MSM) > 0, "slice-of-text": len(h.LSM) > 0, "slice-of-pointer-to-RawMessage": len(h.LPR) > 0, "pointer-to-carrier": h.PR != nil || h.PD != nil,
				"carrier-members": h.R.Type != 0 || h.S != "" || h.D.TagType() != 0, "nested-struct": len(h.NS.L) > 0,
			}
			for k, ok := range reached {
				if ok {
					c.Cover("containers.reached." + k)
				}
			}
			// the carriers that were filled: their second stages must not fall over either
			if c.Guard(name+"/carriers-after-decode", in.wit(name), func() {
				for _, m := range h.MR {
					_ = m.String()
				}
				for _, m := range h.LPR {
					if m != nil {
						_ = m.String()
					}
				}
				if h.PR != nil {
					_ = h.PR.String()
				}
				_ = h.R.String()
				for _, d := range h.MD {
					d := d
					walkDyn(&d)
				}
				for _, d := range h.MPD {
					walkDyn(d)
				}
				walkDyn(h.PD)
				walkDyn(&h.D)
			}) {
				continue
			}
		}
	}
	for i, n := 0, c.Scale(120, 6000); i < n; i++ {
		tree := &refnbt.Value{Tag: refnbt.Compound}
		for _, k := range keys {
			if r.Intn(3) != 0 {
				continue
			}
			var v *refnbt.Value
			if r.Intn(5) == 0 {
				v = g.Doc(byte(r.Range(1, 12))) // any tag under the name of a field that wants another one
				c.Cover("containers.doc.member-of-another-tag")
			} else {
				v = fitting[k]()
			}
			name := k
			if r.Intn(8) == 0 {
				name = strings.ToUpper(k)
			}
			tree.Comp = append(tree.Comp, refnbt.Entry{Name: name, V: v})
		}
		r2 := r.Fork()
		for k := len(tree.Comp) - 1; k > 0; k-- {
			j := r2.Intn(k + 1)
			tree.Comp[k], tree.Comp[j] = tree.Comp[j], tree.Comp[k]
		}
		network := r.Bool()
		doc, fields := refnbt.EncodeWithLayout(tree, "", network)
		one(&input{b: doc, network: network, origin: "containers-valid"})
		for k := 0; k < len(doc); k++ {
			one(&input{b: doc[:k], network: network, origin: "containers-prefix", prior: doc})
		}
		for _, f := range fields {
			for _, m := range nbtgen.FieldMutations(doc, f) {
				one(&input{b: m.Bytes, network: network, origin: "containers-" + m.Name, prior: doc})
			}
		}
		for k := 0; k < 16; k++ {
			b := append([]byte{}, doc...)
			b[r.Intn(len(b))] ^= 1 << uint(r.Intn(8))
			one(&input{b: b, network: network, origin: "containers-bitflip", prior: doc})
		}
	}
}

// ---------------------------------------------------------------------------------------------------
// Long strings and long names. The generated documents of this monitor keep strings and member names below 13 bytes
// (every prefix of every document is run through fifteen entry points); the length mutations only declare long
// strings. Here strings, member names and the root name of 127..32767 bytes are really there, whole and cut inside:
// every string reader (typed, skipping, the carriers' own) sees a length whose high byte is not zero.

func longStringDocs(c *vm.Ctx, r *vm.Rand) {
	anyT := reflect.TypeOf((*any)(nil)).Elem()
	sizes := []int{127, 128, 255, 256, 257, 4096, 32766, 32767}
	for _, n := range sizes {
		body := make([]byte, n)
		for i := range body {
			body[i] = 'a' + byte(r.Intn(26))
		}
		s := string(body)
		for _, form := range []string{"root-string", "member-value", "member-name", "list-element", "root-name", "name-inside-list-of-compounds", "unknown-member-skipped"} {
			var tree *refnbt.Value
			network, rootName := r.Bool(), ""
			typed := anyT
			switch form {
			case "root-string":
				tree = refnbt.St(s)
				typed = reflect.TypeOf("")
			case "member-value":
				tree = &refnbt.Value{Tag: refnbt.Compound, Comp: []refnbt.Entry{{Name: "a", V: refnbt.In(1)}, {Name: "s", V: refnbt.St(s)}, {Name: "z", V: refnbt.St("after")}}}
				typed = reflect.TypeOf(struct {
					A int32  `nbt:"a"`
					S string `nbt:"s"`
					Z string `nbt:"z"`
				}{})
			case "member-name":
				tree = &refnbt.Value{Tag: refnbt.Compound, Comp: []refnbt.Entry{{Name: "a", V: refnbt.In(1)}, {Name: s, V: refnbt.B(5)}, {Name: "z", V: refnbt.St("after")}}}
				typed = reflect.StructOf([]reflect.StructField{
					{Name: "A", Type: reflect.TypeOf(int32(0)), Tag: `nbt:"a"`},
					{Name: "L", Type: reflect.TypeOf(int8(0)), Tag: reflect.StructTag(`nbt:"` + s + `"`)},
					{Name: "Z", Type: reflect.TypeOf(""), Tag: `nbt:"z"`},
				})
			case "list-element":
				tree = &refnbt.Value{Tag: refnbt.List, Elem: refnbt.String, List: []*refnbt.Value{refnbt.St("x"), refnbt.St(s), refnbt.St("y")}}
				typed = reflect.TypeOf([]string(nil))
			case "root-name":
				tree, network, rootName = &refnbt.Value{Tag: refnbt.Compound, Comp: []refnbt.Entry{{Name: "a", V: refnbt.In(1)}}}, false, s
			case "name-inside-list-of-compounds":
				e := func(v int8) *refnbt.Value {
					return &refnbt.Value{Tag: refnbt.Compound, Comp: []refnbt.Entry{{Name: s, V: refnbt.B(v)}}}
				}
				tree = &refnbt.Value{Tag: refnbt.List, Elem: refnbt.Compound, List: []*refnbt.Value{e(1), e(2)}}
			default:
				tree = &refnbt.Value{Tag: refnbt.Compound, Comp: []refnbt.Entry{{Name: "a", V: refnbt.In(1)}, {Name: s[:n/2], V: refnbt.St(s)}, {Name: "z", V: refnbt.St("after")}}}
				typed = reflect.TypeOf(struct {
					A int32  `nbt:"a"`
					Z string `nbt:"z"`
				}{})
			}
			doc := refnbt.Encode(tree, rootName, network)
			at := bytes.Index(doc, body[:min(n, 64)]) // where the long string (or name) starts
			if _, _, used, perr := refnbt.Parse(doc, network); perr != nil || used != len(doc) || at < 0 {
				panic(fmt.Sprintf("oracle self-check failed: document with a %d-byte string (%s) is not well-formed for the reference: %v", n, form, perr))
			}
			origin := fmt.Sprintf("long-string-%s-%d", form, n)
			whole := &input{b: doc, network: network, origin: origin}
			check(c, whole, typed)
			// the entry points that take any document: did the long string really go through?
			okAll := true
			for _, e := range entries {
				switch e.name {
				case "any", "raw", "stringified", "dynbt", "typed":
					var err error
					if c.Guard(e.name, whole.wit(e.name), func() { err, _ = e.run(whole, typed) }) || err != nil {
						okAll = false
					}
				}
			}
			if okAll {
				c.Cover("long-string.decoded." + form)
				if n >= 256 {
					c.Cover("long-string.decoded.256-bytes-or-more")
				}
				if n >= 32766 {
					c.Cover("long-string.decoded.32766-bytes-or-more")
				}
			}
			for _, cut := range []int{len(doc) - 1, at + n - 1, at + n, at + n/2, at + 1, at, at - 1, at + 255, at + 256} {
				if cut > 0 && cut < len(doc) {
					check(c, &input{b: doc[:cut], network: network, origin: origin + "-cut", prior: doc}, typed)
					c.Cover("long-string.cut")
				}
			}
		}
	}
}
