// Monitor C03: totality of every NBT decoding entry point on arbitrary bytes.
package main

import (
	"bytes"
	"errors"
	"fmt"
	"io"
	"os"
	"reflect"
	"strings"
	"time"

	"github.com/Tnze/go-mc/nbt"
	"github.com/Tnze/go-mc/nbt/dynbt"

	"verif/gen/gotypes"
	"verif/gen/nbtgen"
	"verif/inject"
	"verif/ref/refnbt"
	"verif/vm"
)

func main() { vm.Main("C03", run) }

type input struct {
	b       []byte
	network bool
	origin  string // how it was produced, e.g. "prefix", "len=-1@listlen"
	prior   []byte // a well-formed document the "typed-reused" entry decodes into the receiver first
	h       uint64 // hash of bytes and format flag (set by check); picks the kind of source the bytes are read from
}

// The decoders are handed io.Readers of seven kinds, chosen by the hash of the input (so every prefix, mutation and
// truncation of a document meets all of them over the run): a bytes.Reader (an io.ByteReader, used as it is), a
// plain io.Reader (the decoder wraps it to read single bytes), a plain reader that delivers 1 and 3 bytes at a
// time, one that delivers 2, 1 and 5 bytes at a time and ends in an I/O error instead of io.EOF, a reader that has
// ReadByte itself (so the decoder uses it as it is) but delivers 2, 1 and 5 bytes per Read - a buffered network
// connection -, a plain reader whose every other Read returns (0, nil), and one that hands over its last bytes
// together with io.EOF (both allowed by the io.Reader contract; a byte invented for "nothing yet" turns a strict
// prefix that ends in front of a zero byte into a complete document).
var srcNames = [7]string{"bytes-reader", "plain-reader", "short-reads", "short-reads-ending-in-io-error", "bytereader-with-short-reads", "zero-progress-reads", "data-together-with-eof"}

// ten inputs in sixteen come from the bytes.Reader (the other kinds cost the decoder an allocation per single byte)
func (in *input) srcKind() int {
	if k := int(in.h>>3) & 15; k < len(srcNames) {
		return k
	}
	return 0
}

func source(in *input) io.Reader {
	switch in.srcKind() {
	case 1:
		return &inject.PlainReader{R: bytes.NewReader(in.b)}
	case 2:
		return &inject.ChunkReader{B: in.b, Plan: []int{1, 3}}
	case 3:
		return &inject.ChunkReader{B: in.b, Plan: []int{2, 1, 5}, Err: inject.ErrInjected}
	case 4:
		return &inject.ChunkByteReader{ChunkReader: inject.ChunkReader{B: in.b, Plan: []int{2, 1, 5}}}
	case 5:
		return &inject.QuirkReader{B: in.b, Stutter: true}
	case 6:
		return &inject.QuirkReader{B: in.b, DataEOF: true}
	}
	return bytes.NewReader(in.b)
}

func (in *input) wit(entry string) func() any {
	return func() any {
		m := map[string]any{"bytes": vm.Hex(in.b), "network": in.network, "origin": in.origin, "entry": entry, "source": srcNames[in.srcKind()]}
		if entry == "typed-reused" || entry == "hooks-reused" || entry == "containers-reused" {
			m["receiver_previously_decoded"] = vm.Hex(in.prior)
		}
		if entry == "used-receiver" {
			m["receiver"] = usedVariants[in.usedVariant()].name
			m["receiver_previously_decoded"] = vm.Hex(in.usedPrior())
		}
		return m
	}
}

// classify returns the reference class of the input and, for well-formed input, the length of the document.
func classify(in *input) (refnbt.Class, string, int) {
	_, _, n, err := refnbt.Parse(in.b, in.network)
	if err == nil {
		return refnbt.WellFormed, "", n
	}
	return err.Class, err.Kind, 0
}

func mustFail(cl refnbt.Class) bool {
	switch cl {
	case refnbt.Truncated, refnbt.NegLen, refnbt.BadTag, refnbt.EndListPositive:
		return true
	}
	return false
}

func countAny(x any) int {
	switch t := x.(type) {
	case []any:
		n := 1
		for _, e := range t {
			n += countAny(e)
		}
		return n
	case map[string]any:
		n := 1
		for _, e := range t {
			n += countAny(e)
		}
		return n
	}
	return 1
}

// walkDyn calls the accessor matching every node's tag (they index into the raw data).
func walkDyn(v *dynbt.Value) int {
	if v == nil {
		return 0
	}
	n := 1
	switch v.TagType() {
	case nbt.TagByte:
		_ = v.Byte()
		_ = v.Boolean()
	case nbt.TagShort:
		_ = v.Short()
	case nbt.TagInt:
		_ = v.Int()
	case nbt.TagLong:
		_ = v.Long()
	case nbt.TagFloat:
		_ = v.Float()
	case nbt.TagDouble:
		_ = v.Double()
	case nbt.TagString:
		_ = v.String()
	case nbt.TagByteArray:
		_ = v.ByteArray()
	case nbt.TagIntArray:
		_ = v.IntArray()
	case nbt.TagLongArray:
		_ = v.LongArray()
	case nbt.TagList:
		for _, e := range v.List() {
			n += walkDyn(e)
		}
	case nbt.TagCompound:
		v.Compound().Visit(func(tag string, c *dynbt.Value) { n += walkDyn(c) })
	}
	return n
}

type entry struct {
	name string
	run  func(in *input, typed reflect.Type) (err error, nodes int)
}

func dec(in *input) *nbt.Decoder {
	d := nbt.NewDecoder(source(in))
	d.NetworkFormat(in.network)
	return d
}

var entries = []entry{
	{"any", func(in *input, _ reflect.Type) (error, int) {
		var v any
		_, err := dec(in).Decode(&v)
		if err != nil {
			return err, 0
		}
		return nil, countAny(v)
	}},
	{"map", func(in *input, _ reflect.Type) (error, int) {
		var v map[string]any
		if !in.network && in.srcKind() == 0 && in.h>>8&1 == 0 {
			// the shortcut for a document held in memory (file format)
			err := nbt.Unmarshal(in.b, &v)
			unmarshalShortcut++
			return err, 0
		}
		_, err := dec(in).Decode(&v)
		return err, 0
	}},
	{"typed", func(in *input, t reflect.Type) (error, int) {
		p := reflect.New(t)
		_, err := dec(in).Decode(p.Interface())
		return err, 0
	}},
	{"typed-disallow-unknown", func(in *input, t reflect.Type) (error, int) {
		p := reflect.New(t)
		d := dec(in)
		d.DisallowUnknownFields()
		_, err := d.Decode(p.Interface())
		return err, 0
	}},
	{"typed-reused", func(in *input, t reflect.Type) (error, int) {
		// a receiver that already holds a decoded document (a program reading documents in a loop)
		p := reflect.New(t)
		if in.prior != nil {
			d := nbt.NewDecoder(bytes.NewReader(in.prior))
			d.NetworkFormat(in.network)
			_, _ = d.Decode(p.Interface())
		}
		_, err := dec(in).Decode(p.Interface())
		return err, 0
	}},
	{"unmarshaler-elements", func(in *input, _ reflect.Type) (error, int) {
		// list elements / map values that decode themselves (their UnmarshalNBT is called once per declared element)
		var a []dynbt.Value
		_, err := dec(in).Decode(&a)
		n := len(a)
		var b []nbt.RawMessage
		_, errB := dec(in).Decode(&b)
		n = max(n, len(b))
		var m map[string][]*dynbt.Value
		_, errM := dec(in).Decode(&m)
		for _, l := range m {
			n = max(n, len(l))
		}
		if err == nil || errB == nil || errM == nil {
			return nil, n
		}
		return err, 0
	}},
	// a target whose interface type has methods cannot hold any decoded value: an error, not a reflect panic. The three
	// receivers are entries of their own: a wrong success of one of them on a cut-off document must not be hidden by
	// the errors of the other two.
	{"interface-with-methods", func(in *input, _ reflect.Type) (error, int) {
		var s struct {
			V fmt.Stringer
			E error
		}
		_, err := dec(in).Decode(&s)
		return err, 0
	}},
	{"interface-with-methods/map", func(in *input, _ reflect.Type) (error, int) {
		var m map[string]fmt.Stringer
		_, err := dec(in).Decode(&m)
		return err, len(m)
	}},
	{"interface-with-methods/slice", func(in *input, _ reflect.Type) (error, int) {
		var l []error
		_, err := dec(in).Decode(&l)
		return err, len(l)
	}},
	{"raw", func(in *input, _ reflect.Type) (error, int) {
		var m nbt.RawMessage
		_, err := dec(in).Decode(&m)
		if err != nil {
			return err, 0
		}
		_ = m.String()
		// the captured value decoded again: these run the typed decoder on bytes that only the skipping reader has
		// seen. What they return is looked at (rawFollowUp), not thrown away.
		var v any
		rawUnmarshalErr = m.Unmarshal(&v)
		var mm map[string]any
		rawStrictErr = m.UnmarshalDisallowUnknownField(&mm)
		return nil, countAny(v)
	}},
	{"stringified", func(in *input, _ reflect.Type) (error, int) {
		var m nbt.StringifiedMessage
		_, err := dec(in).Decode(&m)
		return err, 0
	}},
	{"dynbt", func(in *input, _ reflect.Type) (error, int) {
		var v dynbt.Value
		_, err := dec(in).Decode(&v)
		if err != nil {
			return err, 0
		}
		n := walkDyn(&v)
		var buf bytes.Buffer
		_ = nbt.NewEncoder(&buf).Encode(&v, "")
		return nil, n
	}},
}

// what the "raw" entry saw after a successful capture (valid until the next call of the entry)
var rawUnmarshalErr, rawStrictErr error

// how often the "map" entry went through nbt.Unmarshal
var unmarshalShortcut int64

// errSkipped: an entry that takes only part of the inputs did not run on this one
var errSkipped = errors.New("entry not run on this input")

func check(c *vm.Ctx, in *input, typed reflect.Type) {
	if refnbt.MaxDeclaredLen(in.b, in.network) > 1<<20 || refnbt.MaxDeclaredLen(in.b, !in.network) > 1<<20 {
		c.Cover("declared-length-above-2^20") // no longer skipped: decoders grow their buffers as data arrives
	}
	cl, kind, _ := classify(in)
	c.Cover("class." + cl.String())
	c.Inflight(in.origin + " " + vm.Hex(in.b))
	nt := byte(0)
	if in.network {
		nt = 1
	}
	in.h = vm.Hash64(in.b, []byte{nt})
	c.Eval(in.h, len(in.b) > 2) // one distinct hostile input
	c.Cover("src." + srcNames[in.srcKind()])
	var anyErr error
	for _, e := range entries {
		var err error
		var nodes int
		if c.Guard(e.name, in.wit(e.name), func() { err, nodes = e.run(in, typed) }) {
			continue
		}
		if err == errSkipped {
			continue
		}
		c.Eval(0, false)
		switch e.name {
		case "any":
			anyErr = err
		case "raw":
			if err == nil {
				rawFollowUp(c, in, cl, anyErr)
			}
		}
		if err == nil {
			if mustFail(cl) {
				c.Violation(e.name+"/success-on-"+cl.String()+"@"+kind, fmt.Sprintf("entry point %s reported success on input the reference classifies %s at %s (origin %s): %s", e.name, cl, kind, in.origin, vm.Hex(in.b)), in.wit(e.name)())
			} else {
				c.Cover("outcome.success." + e.name)
			}
			if nodes > len(in.b)+8 {
				c.Violation(e.name+"/amplification", fmt.Sprintf("returned %d elements from %d input bytes", nodes, len(in.b)), in.wit(e.name)())
			}
		} else {
			c.Cover("outcome.error." + e.name)
		}
	}
	if in.h>>9&1 == 0 || len(in.b) <= 2 { // every other input (they come in families: every prefix of a document, ...)
		handBuiltRaw(c, in, cl, kind)
	}
}

func originClass(o string) string {
	if i := strings.Index(o, "="); i > 0 {
		return o
	}
	return o
}

// ---------------------------------------------------------------------------------------------------
// Inputs that can take the whole process down. A runtime-fatal error ("out of memory", "stack overflow")
// is not a panic: no recover() sees it, the process is gone. Each of these inputs therefore runs in a
// process of its own (vm.RunIsolated), under the address-space limit the driver sets for this run mode
// (1 GiB, a small server): a few bytes that declare a huge array must come back as an error, not as an
// allocation the machine cannot satisfy; a megabyte of nested containers must come back as an error (or
// a value), not as a stack overflow.

type isoTarget struct {
	name string
	dec  func(doc []byte, network bool) error
}

func isoTargets() []isoTarget {
	mk := func(name string, target func() any) isoTarget {
		return isoTarget{name, func(doc []byte, network bool) error {
			d := nbt.NewDecoder(bytes.NewReader(doc))
			d.NetworkFormat(network)
			_, err := d.Decode(target())
			return err
		}}
	}
	type holder struct {
		A []int64  `nbt:"a"`
		B []int32  `nbt:"b"`
		C []byte   `nbt:"c"`
		D []string `nbt:"d"`
	}
	return []isoTarget{
		mk("any", func() any { return new(any) }),
		mk("[]int64", func() any { return new([]int64) }),
		mk("[]int32", func() any { return new([]int32) }),
		mk("[]byte", func() any { return new([]byte) }),
		mk("[]int8", func() any { return new([]int8) }),
		mk("struct", func() any { return new(holder) }),
		mk("map", func() any { return new(map[string]any) }),
		mk("RawMessage", func() any { return new(nbt.RawMessage) }),
		mk("StringifiedMessage", func() any { return new(nbt.StringifiedMessage) }),
		mk("dynbt.Value", func() any { return new(dynbt.Value) }),
		mk("struct-skipping-unknown", func() any { return new(struct{ Z int32 }) }),
		{"RawMessage.String", func(doc []byte, network bool) error {
			var m nbt.RawMessage
			d := nbt.NewDecoder(bytes.NewReader(doc))
			d.NetworkFormat(network)
			if _, err := d.Decode(&m); err != nil {
				return err
			}
			_ = m.String()
			return nil
		}},
	}
}

func be32(v uint32) []byte { return []byte{byte(v >> 24), byte(v >> 16), byte(v >> 8), byte(v)} }

func runIsolatedCases(c *vm.Ctx) {
	var cases []vm.IsoCase
	add := func(class, name string, doc []byte, network bool) {
		for _, t := range isoTargets() {
			t := t
			cases = append(cases, vm.IsoCase{Name: name + " into " + t.name, Class: class + "@" + t.name, Input: doc,
				Run: func() error { return t.dec(doc, network) }})
		}
	}
	// 1. a few bytes declaring a huge array / list
	for _, cnt := range []uint32{0x7fffffff, 0x40000000, 0x08000000} {
		for _, tag := range []byte{refnbt.ByteArray, refnbt.IntArray, refnbt.LongArray} {
			doc := append([]byte{tag}, be32(cnt)...)
			add("declared-length/"+refnbt.TagName(tag), fmt.Sprintf("%s declaring %d elements, no payload", refnbt.TagName(tag), cnt), doc, true)
			// the same inside a compound member (fields a, b, c of the struct target)
			key := map[byte]string{refnbt.ByteArray: "c", refnbt.IntArray: "b", refnbt.LongArray: "a"}[tag]
			doc2 := append([]byte{refnbt.Compound, tag, 0, 1, key[0]}, be32(cnt)...)
			add("declared-length/member."+refnbt.TagName(tag), fmt.Sprintf("compound member %s declaring %d elements", refnbt.TagName(tag), cnt), doc2, true)
			// and as the element type of a list with one element
			doc3 := append([]byte{refnbt.List, tag, 0, 0, 0, 1}, be32(cnt)...)
			add("declared-length/listelem."+refnbt.TagName(tag), fmt.Sprintf("list of %s, first element declaring %d", refnbt.TagName(tag), cnt), doc3, true)
		}
		for _, et := range []byte{refnbt.End, refnbt.Byte, refnbt.Long, refnbt.String, refnbt.Compound, refnbt.List, refnbt.LongArray} {
			doc := append([]byte{refnbt.List, et}, be32(cnt)...)
			add("declared-length/List."+refnbt.TagName(et), fmt.Sprintf("list of %s declaring %d elements, no payload", refnbt.TagName(et), cnt), doc, true)
		}
	}
	// 2. deep nesting (3 bytes per compound level, 5 per list level)
	for _, depth := range []int{20000, 300000, 1000000} {
		var comp, list []byte
		comp = append(comp, refnbt.Compound)
		for i := 0; i < depth; i++ {
			comp = append(comp, refnbt.Compound, 0, 0)
		}
		list = append(list, refnbt.List)
		for i := 0; i < depth; i++ {
			list = append(list, refnbt.List, 0, 0, 0, 1)
		}
		list = append(list, refnbt.End, 0, 0, 0, 0)
		// the compounds are left unterminated (a strict prefix) or closed
		add(fmt.Sprintf("deep-nesting/compounds.%d.unterminated", depth), fmt.Sprintf("%d nested compounds, cut off", depth), comp, true)
		closed := append(append([]byte{}, comp...), make([]byte, depth+1)...)
		add(fmt.Sprintf("deep-nesting/compounds.%d.closed", depth), fmt.Sprintf("%d nested compounds, all closed", depth), closed, true)
		add(fmt.Sprintf("deep-nesting/lists.%d", depth), fmt.Sprintf("%d nested single-element lists", depth), list, true)
	}
	c.RunIsolated("c03", cases, 8, 300*time.Second, func(i int, cs *vm.IsoCase, r vm.IsoResult) {
		c.Eval(vm.Hash64(cs.Input, []byte(cs.Class)), true)
		wit := map[string]any{"what": cs.Name, "input_len": len(cs.Input), "input_head_hex": vm.Hex(cs.Input[:min(len(cs.Input), 48)]), "address_space_limit": "1 GiB (ulimit -v)"}
		switch {
		case r.Died:
			c.Violation("isolated/process-died/"+cs.Class+"/"+vm.NormMsg(r.Fatal), fmt.Sprintf("the process running this one decode ended without a verdict: %s", r.Fatal), wit)
		case r.ErrMsg == "" && !strings.Contains(cs.Class, ".closed") && !strings.HasPrefix(cs.Class, "deep-nesting/lists"):
			c.Violation("isolated/success-on-truncated/"+cs.Class, "a document cut off inside a declared array / container decoded without error", wit)
		default:
			if strings.HasPrefix(cs.Class, "deep") {
				c.Cover("isolated.deep-nesting.survived")
			} else {
				c.Cover("isolated.declared-length.rejected")
			}
		}
	})
}

// bigElements: arrays and lists with more elements than the first step of the decoder's growing buffers (4096
// elements, 64 KiB), whole and cut off inside the payload, into every receiver kind a tag can be decoded into - the
// loops that copy elements are written once per element kind. Totality only: a value or an error.
func bigElements(c *vm.Ctx, r *vm.Rand) {
	recv := map[string][]reflect.Type{
		"b": {reflect.TypeOf([]byte(nil)), reflect.TypeOf([]int8(nil)), reflect.TypeOf([]uint8(nil)), reflect.TypeOf([]bool(nil)), reflect.TypeOf([9000]byte{}), reflect.TypeOf([]int(nil)), reflect.TypeOf((*any)(nil)).Elem(), reflect.TypeOf(nbt.RawMessage{}), reflect.TypeOf(dynbt.Value{})},
		"i": {reflect.TypeOf([]int32(nil)), reflect.TypeOf([]uint32(nil)), reflect.TypeOf([]int(nil)), reflect.TypeOf([]uint(nil)), reflect.TypeOf([]int64(nil)), reflect.TypeOf([9000]int32{}), reflect.TypeOf((*any)(nil)).Elem(), reflect.TypeOf(nbt.RawMessage{}), reflect.TypeOf(dynbt.Value{})},
		"l": {reflect.TypeOf([]int64(nil)), reflect.TypeOf([]uint64(nil)), reflect.TypeOf([]int(nil)), reflect.TypeOf([]uint(nil)), reflect.TypeOf([9000]int64{}), reflect.TypeOf([9000]uint64{}), reflect.TypeOf((*any)(nil)).Elem(), reflect.TypeOf(nbt.RawMessage{}), reflect.TypeOf(dynbt.Value{})},
		"s": {reflect.TypeOf([]int16(nil)), reflect.TypeOf([]uint16(nil)), reflect.TypeOf([]int(nil)), reflect.TypeOf([]any(nil)), reflect.TypeOf([9000]int16{}), reflect.TypeOf((*any)(nil)).Elem(), reflect.TypeOf(nbt.RawMessage{}), reflect.TypeOf(dynbt.Value{}), reflect.TypeOf([]dynbt.Value(nil))},
		"t": {reflect.TypeOf([]string(nil)), reflect.TypeOf([]any(nil)), reflect.TypeOf((*any)(nil)).Elem(), reflect.TypeOf([]nbt.RawMessage(nil)), reflect.TypeOf(nbt.RawMessage{}), reflect.TypeOf(dynbt.Value{})},
	}
	keys := []string{"b", "i", "l", "s", "t"}
	// one more "receiver" for every kind: a struct that does not know the member, so that the skipping reader meets it
	skipT := reflect.TypeOf(skippedMember{})
	for k := range recv {
		recv[k] = append(recv[k], skipT)
	}
	for _, n := range []int{4097, 5000, 8193, 20000} {
		mk := func(key string) *refnbt.Value {
			switch key {
			case "b":
				return &refnbt.Value{Tag: refnbt.ByteArray, Bytes: r.Bytes(n)}
			case "i":
				v := &refnbt.Value{Tag: refnbt.IntArray, Ints: make([]int32, n)}
				for k := range v.Ints {
					v.Ints[k] = int32(r.Uint64())
				}
				return v
			case "l":
				v := &refnbt.Value{Tag: refnbt.LongArray, Longs: make([]int64, n)}
				for k := range v.Longs {
					v.Longs[k] = int64(r.Uint64())
				}
				return v
			case "s":
				v := &refnbt.Value{Tag: refnbt.List, Elem: refnbt.Short}
				for k := 0; k < n; k++ {
					v.List = append(v.List, refnbt.Sh(int16(k)))
				}
				return v
			}
			v := &refnbt.Value{Tag: refnbt.List, Elem: refnbt.String}
			for k := 0; k < n; k++ {
				v.List = append(v.List, refnbt.St("e"))
			}
			return v
		}
		for _, key := range keys {
			tree := &refnbt.Value{Tag: refnbt.Compound, Comp: []refnbt.Entry{{Name: "a", V: refnbt.In(1)}, {Name: key, V: mk(key)}, {Name: "z", V: refnbt.St("after")}}}
			network := r.Bool()
			doc := refnbt.Encode(tree, "", network)
			// whole, and cut at a few places inside the big payload (past the first 4096 elements, one byte short)
			cuts := []int{len(doc), len(doc) - 12, len(doc) / 2, len(doc) - len(doc)/8, 4096*refElemSize(key) + 40}
			for _, rt := range recv[key] {
				st := reflect.StructOf([]reflect.StructField{
					{Name: "A", Type: reflect.TypeOf(int32(0)), Tag: `nbt:"a"`},
					{Name: "V", Type: rt, Tag: reflect.StructTag(`nbt:"` + key + `"`)},
					{Name: "Z", Type: reflect.TypeOf(""), Tag: `nbt:"z"`},
				})
				if rt == skipT {
					st = reflect.StructOf([]reflect.StructField{
						{Name: "A", Type: reflect.TypeOf(int32(0)), Tag: `nbt:"a"`},
						{Name: "Z", Type: reflect.TypeOf(""), Tag: `nbt:"z"`},
					})
				}
				for _, cut := range cuts {
					if cut <= 8 || cut > len(doc) {
						continue
					}
					in := &input{b: doc[:cut], network: network, origin: fmt.Sprintf("big-elements n=%d key=%s cut=%d/%d", n, key, cut, len(doc))}
					name := fmt.Sprintf("big/%s/%s", key, rt.String())
					wit := func() any {
						return map[string]any{"elements": n, "member": key, "receiver": rt.String(), "document_bytes": len(doc), "cut_at": cut, "network": network}
					}
					c.Inflight(in.origin + " into " + rt.String())
					var err error
					if c.Guard(name, wit, func() {
						p := reflect.New(st)
						d := nbt.NewDecoder(bytes.NewReader(in.b))
						d.NetworkFormat(network)
						_, err = d.Decode(p.Interface())
					}) {
						continue
					}
					c.Eval(vm.HashStr("big", key, rt.String(), fmt.Sprint(n, cut, network)), true)
					switch {
					case err == nil && cut < len(doc):
						c.Violation("big/success-on-truncated/"+key+"/"+rt.String(), fmt.Sprintf("a document cut %d bytes short inside a %d-element %s member decoded without error into %s", len(doc)-cut, n, key, rt), wit())
					case err == nil:
						c.Cover("big.success." + key)
						if rt == skipT {
							c.Cover("big.skipped-as-unknown-member." + key)
						}
					default:
						c.Cover("big.error")
					}
				}
			}
		}
	}
}

// skippedMember marks the bigElements receiver that has no field for the big member.
type skippedMember struct{}

// bigByteArrays: byte arrays longer than the first step of the growing read buffers (64 KiB for the typed decoder
// and for dynbt), whole and cut inside the second and later growth steps - the reads that follow the first one have
// error paths of their own, and an error ignored there turns a strict prefix into a success with a zero-filled tail.
func bigByteArrays(c *vm.Ctx, r *vm.Rand) {
	recv := []reflect.Type{reflect.TypeOf([]byte(nil)), reflect.TypeOf([]int8(nil)), reflect.TypeOf([]bool(nil)), reflect.TypeOf([70000]byte{}), reflect.TypeOf((*any)(nil)).Elem(),
		reflect.TypeOf(nbt.RawMessage{}), reflect.TypeOf(dynbt.Value{}), reflect.TypeOf(nbt.StringifiedMessage("")), reflect.TypeOf([]int(nil))}
	for _, n := range []int{70000, 200000} {
		arr := &refnbt.Value{Tag: refnbt.ByteArray, Bytes: r.Bytes(n)}
		// the array as a member between two others, as the whole document, and as the last element of a list: in the
		// last two forms nothing follows the array, so only the array's own reads can notice that the input has ended
		for _, form := range []string{"member", "root", "last-list-element"} {
			var tree *refnbt.Value
			switch form {
			case "member":
				tree = &refnbt.Value{Tag: refnbt.Compound, Comp: []refnbt.Entry{{Name: "a", V: refnbt.In(1)}, {Name: "b", V: arr}, {Name: "z", V: refnbt.St("after")}}}
			case "root":
				tree = arr
			default:
				tree = &refnbt.Value{Tag: refnbt.List, Elem: refnbt.ByteArray, List: []*refnbt.Value{{Tag: refnbt.ByteArray, Bytes: []byte{1, 2, 3}}, arr}}
			}
			for _, network := range []bool{true, false} {
				doc := refnbt.Encode(tree, "", network)
				start := len(doc) - n // first payload byte (root and list forms: the payload ends the document)
				if form == "member" {
					start = bytes.Index(doc, []byte{refnbt.ByteArray, 0, 1, 'b'}) + 8
				}
				cuts := []int{len(doc), len(doc) - 12, len(doc) - 1, start + 65535, start + 65536, start + 65536 + 10, start + 131072 - 1, start + 131072, start + 131072 + 10, start + n - 1}
				for _, rt := range recv {
					var target reflect.Type
					switch form {
					case "member":
						target = reflect.StructOf([]reflect.StructField{
							{Name: "A", Type: reflect.TypeOf(int32(0)), Tag: `nbt:"a"`},
							{Name: "V", Type: rt, Tag: `nbt:"b"`},
							{Name: "Z", Type: reflect.TypeOf(""), Tag: `nbt:"z"`},
						})
					case "root":
						target = rt
					default:
						target = reflect.SliceOf(rt)
						if rt.Kind() == reflect.Interface || rt == reflect.TypeOf(nbt.RawMessage{}) || rt == reflect.TypeOf(dynbt.Value{}) || rt == reflect.TypeOf(nbt.StringifiedMessage("")) {
							target = rt // these take the whole list
						}
					}
					done := map[int]bool{}
					for ci, cut := range cuts {
						if cut <= start || cut > len(doc) || (ci > 0 && cut == len(doc)) || done[cut] {
							continue
						}
						done[cut] = true
						for srcKind := 0; srcKind < 3; srcKind++ {
							in := &input{b: doc[:cut], network: network, origin: fmt.Sprintf("big-byte-array %s n=%d cut=%d/%d", form, n, cut, len(doc)), h: uint64(srcKind) << 3}
							name := "big/b/" + form + "/" + rt.String()
							wit := func() any {
								return map[string]any{"array_bytes": n, "array_is": form, "receiver": target.String(), "document_bytes": len(doc), "cut_at": cut, "payload_starts_at": start, "network": network, "source": srcNames[in.srcKind()],
									"document": "refnbt.Encode of the tree named by array_is, array content irrelevant"}
							}
							c.Inflight(in.origin + " into " + target.String())
							var err error
							if c.Guard(name, wit, func() {
								_, err = dec(in).Decode(reflect.New(target).Interface())
							}) {
								continue
							}
							c.Eval(vm.HashStr("bigb", form, rt.String(), fmt.Sprint(n, cut, network, srcKind)), true)
							switch {
							case err == nil && cut < len(doc):
								c.Violation("big/success-on-truncated/b/"+form+"/"+rt.String(), fmt.Sprintf("a document cut at byte %d of %d, inside a %d-byte array (%s) whose payload starts at %d, decoded without error into %s", cut, len(doc), n, form, start, target), wit())
							case err == nil:
								c.Cover("big.byte-array-above-64KiB.whole." + form)
							case cut < len(doc) && cut > start+65536:
								c.Cover("big.byte-array-above-64KiB.cut-in-a-later-growth-step." + form)
							default:
								c.Cover("big.error")
							}
						}
					}
				}
			}
		}
	}
}

func refElemSize(key string) int {
	switch key {
	case "b":
		return 1
	case "i":
		return 4
	case "l":
		return 8
	case "s":
		return 2
	}
	return 3
}

func run(c *vm.Ctx) {
	if c.Mode == "capped" {
		runIsolatedCases(c)
		return
	}
	c.EnableSpinWatch("spin", 15)
	lap := func(string) {}
	if os.Getenv("VERIF_TIMING") != "" {
		last := vm.CPUSeconds()
		lap = func(what string) {
			now := vm.CPUSeconds()
			fmt.Fprintf(os.Stderr, "timing shard %d: %-28s %.2f cpu-s\n", c.Shard, what, now-last)
			last = now
		}
	}
	r := c.Rand("docs")
	cfg := nbtgen.Default()
	cfg.MaxNodes = 40
	cfg.MaxArray = 16
	cfg.LongString = false
	cfg.FoldKeys = true
	g := nbtgen.New(r, cfg)
	nDocs := c.Scale(1000, 30000)
	anyT := reflect.TypeOf((*any)(nil)).Elem()
	for i := 0; i < nDocs; i++ {
		var root byte
		if i < 24 {
			root = byte(i%12) + 1
		}
		tree := g.Doc(root)
		network := r.Bool()
		name := ""
		if !network && r.Bool() {
			name = "r"
		}
		doc, fields := refnbt.EncodeWithLayout(tree, name, network)
		typed := anyT
		func() {
			defer func() { recover() }() // keys that are not fold-distinct may make StructOf panic; fall back to any
			typed = gotypes.TargetFor(r, tree, 0, map[string]bool{})
		}()
		n, kinds := refnbt.Count(tree)
		_, _ = n, kinds
		// the valid document itself
		check(c, &input{b: doc, network: network, origin: "valid"}, typed)
		// every strict prefix
		for k := 0; k < len(doc); k++ {
			check(c, &input{b: doc[:k], network: network, origin: "prefix", prior: doc}, typed)
			c.Cover("mut.prefix")
		}
		// every field: mutation table
		for _, f := range fields {
			for _, m := range nbtgen.FieldMutations(doc, f) {
				check(c, &input{b: m.Bytes, network: network, origin: m.Name, prior: doc}, typed)
				c.Cover("mut." + m.Name)
			}
		}
		// bit flips
		for k := 0; k < 64; k++ {
			b := append([]byte{}, doc...)
			b[r.Intn(len(b))] ^= 1 << uint(r.Intn(8))
			check(c, &input{b: b, network: network, origin: "bitflip", prior: doc}, typed)
			c.Cover("mut.bitflip")
		}
		// a same-shaped document with shorter arrays/lists/strings, decoded into a receiver holding the first;
		// and, for compounds, one document repeating every name with the shorter value (names are not required
		// to be unique by the wire format, so a decoder must not fall over on them)
		small := refnbt.Encode(nbtgen.Shrink(r, tree), name, network)
		check(c, &input{b: small, network: network, origin: "shrunk", prior: doc}, typed)
		check(c, &input{b: doc, network: network, origin: "regrown", prior: small}, typed)
		c.Cover("mut.shrunk")
		if tree.Tag == refnbt.Compound {
			hdr := 1
			if !network {
				hdr = 3 + len(name)
			}
			dup := append(append([]byte{}, doc[:len(doc)-1]...), small[hdr:]...)
			check(c, &input{b: dup, network: network, origin: "repeated-names", prior: doc}, typed)
			for k := len(doc) - 1; k < len(dup); k += 1 + (len(dup)-len(doc))/16 {
				check(c, &input{b: dup[:k], network: network, origin: "repeated-names-prefix", prior: doc}, typed)
			}
			c.Cover("mut.repeated-names")
		}
		// wrong format flag
		check(c, &input{b: doc, network: !network, origin: "wrong-format-flag"}, typed)
		if i < 2 {
			c.Sample("document", map[string]any{"doc_hex": vm.Hex(doc), "network": network, "fields": len(fields)})
		}
	}
	lap("documents and mutations")
	// huge declared list lengths (far beyond the input): must come back as errors promptly, whatever the element type.
	// (Arrays of bytes/ints/longs are left out: their allocation is proportional to the declared length by design, see DESIGN A.3.)
	if c.Shard == 0 {
		type big struct {
			A string
			B [40]int64
			C map[string]any
		}
		for _, cnt := range []uint32{0x7fffffff, 0x40000000, 0x10000000, 0x01000000} {
			for _, et := range []byte{refnbt.Compound, refnbt.String, refnbt.List, refnbt.Byte, refnbt.Long} {
				doc := []byte{refnbt.List, et, byte(cnt >> 24), byte(cnt >> 16), byte(cnt >> 8), byte(cnt)}
				doc = append(doc, 0, 0, 0, 0) // a few bytes of "content"
				for _, tgt := range []func() any{func() any { return new(any) }, func() any { return new([]big) }, func() any { return new([]string) }, func() any { return new([][]int64) }, func() any { return new([]map[string]any) }} {
					v := tgt()
					in := &input{b: doc, network: true, origin: fmt.Sprintf("list-count=%#x", cnt)}
					c.Inflight(in.origin + " " + vm.Hex(doc))
					var err error
					if c.Guard("huge-list", in.wit(fmt.Sprintf("%T", v)), func() {
						d := nbt.NewDecoder(bytes.NewReader(doc))
						d.NetworkFormat(true)
						_, err = d.Decode(v)
					}) {
						continue
					}
					c.Eval(vm.Hash64(doc, []byte(fmt.Sprintf("%T", v))), true)
					if err == nil {
						c.Violation("huge-list/success", fmt.Sprintf("a list declaring %d elements in a 10-byte document decoded without error into %T", cnt, v), in.wit(fmt.Sprintf("%T", v))())
					} else {
						c.Cover("huge-list-count.rejected")
					}
				}
			}
		}
	}
	if c.Shard == 1%c.NShards {
		bigElements(c, c.Rand("big"))
	}
	if c.Shard == 2%c.NShards {
		bigByteArrays(c, c.Rand("big-bytes"))
	}
	if c.Shard == 3%c.NShards {
		depthBoundary(c)
	}
	lap("one-off cases")
	if c.Shard == 4%c.NShards {
		longStringDocs(c, c.Rand("long-strings"))
	}
	lap("one-off cases (2)")
	hookedDocs(c, c.Rand("hooked"))
	lap("hooked documents")
	containerDocs(c, c.Rand("containers"))
	lap("container documents")
	// random byte strings; all strings of length <= 2 (shard 0)
	if c.Shard == 0 {
		for a := 0; a < 256; a++ {
			for _, nw := range []bool{false, true} {
				check(c, &input{b: []byte{byte(a)}, network: nw, origin: "exhaustive1"}, anyT)
			}
			for b := 0; b < 256; b++ {
				check(c, &input{b: []byte{byte(a), byte(b)}, network: a%2 == 0, origin: "exhaustive2"}, anyT)
			}
		}
		check(c, &input{b: nil, network: false, origin: "empty"}, anyT)
		check(c, &input{b: nil, network: true, origin: "empty"}, anyT)
	}
	rr := c.Rand("random")
	for i := 0; i < c.Scale(100000, 2000000); i++ {
		n := rr.Range(0, 64)
		b := rr.Bytes(n)
		if n > 0 && rr.Intn(2) == 0 {
			b[0] = byte(rr.Range(1, 12)) // a plausible root tag
		}
		// make small declared lengths likely: zero runs of bytes
		if rr.Intn(2) == 0 {
			for j := 1; j+2 < len(b); j += rr.Range(3, 6) {
				b[j], b[j+1] = 0, 0
			}
		}
		check(c, &input{b: b, network: rr.Bool(), origin: "random"}, anyT)
		c.Cover("mut.random")
	}
	lap("short and random inputs")
	if unmarshalShortcut > 0 {
		c.CoverN("entry.nbt-Unmarshal-shortcut", unmarshalShortcut)
	}
	flushUsed(c)
}
