// C20, bot part: the bot's reader goroutine, its handlers and its writer goroutine share packet buffers through
// a pool. A server sends a burst of keep-alive and ping packets with distinct payloads; every answer must carry
// the payload of the packet it answers, in order (bytes of one packet must not appear in another), and the
// race detector must stay silent.
package main

import (
	"context"
	"encoding/binary"
	"fmt"
	"net"
	"sync"
	"time"

	"github.com/Tnze/go-mc/bot"
	"github.com/Tnze/go-mc/bot/basic"
	"github.com/Tnze/go-mc/data/packetid"
	mcnet "github.com/Tnze/go-mc/net"
	pk "github.com/Tnze/go-mc/net/packet"
	"github.com/Tnze/go-mc/net/queue"

	"verif/vm"
)

type echoDialer struct{ serve func(net.Conn) }

func (d echoDialer) DialMCContext(ctx context.Context, addr string) (*mcnet.Conn, error) {
	a, b := net.Pipe()
	go d.serve(b)
	return mcnet.WrapConn(a), nil
}

func botEcho(c *vm.Ctx, r *vm.Rand) {
	botEchoSession(c, r.Uint64(), r.Range(200, 3000), []int{-1, 0, 64}[r.Intn(3)], r.Bool(), 1)
}

// botEchoThresholds: no compression; everything compressed (0, 3); only the keep-alives (8 data bytes) compressed and
// the pings (4 data bytes) not (6, 8); compression agreed but never used (9, 64, 256).
var botEchoThresholds = []int{-1, 0, 3, 6, 8, 9, 64, 256}

// botEchoParallel: k bots alive at the same time, each with a server, a connection, queues, reader and writer
// goroutines and a compression threshold of its own - they have the packet buffer pool and the zlib writer pool in
// common and nothing else. Every session is judged exactly as a lone one is: each answer carries the bytes of the
// packet it answers.
func botEchoParallel(c *vm.Ctx, r *vm.Rand) {
	k := r.Range(4, 8)
	first := r.Intn(len(botEchoThresholds))
	type params struct {
		seed          uint64
		n, threshold  int
		channelQueues bool
	}
	ps := make([]params, k)
	for i := range ps {
		ps[i] = params{r.Uint64(), r.Range(100, 600), botEchoThresholds[(first+i)%len(botEchoThresholds)], r.Bool()}
	}
	oks := make([]bool, k)
	var wg sync.WaitGroup
	for i := range ps {
		wg.Add(1)
		go func(i int) {
			defer wg.Done()
			oks[i] = botEchoSession(c, ps[i].seed, ps[i].n, ps[i].threshold, ps[i].channelQueues, k)
		}(i)
	}
	wg.Wait()
	for _, ok := range oks {
		if !ok {
			return
		}
	}
	c.Cover("bot-echo.parallel-sessions-exact")
}

// botEchoSession runs one bot against one scripted server; alongside is the number of sessions alive at the same
// time (this one included). It reports whether every answer was exact.
func botEchoSession(c *vm.Ctx, seed uint64, n, threshold int, channelQueues bool, alongside int) bool {
	r := vm.NewRand(seed)
	type sent struct {
		ping bool
		val  uint64
	}
	script := make([]sent, n)
	for i := range script {
		script[i] = sent{ping: r.Intn(4) == 0, val: r.Uint64()}
		if script[i].ping {
			script[i].val &= 0xffffffff
		}
	}
	var mu sync.Mutex
	var answers []sent
	serverDone := make(chan struct{})
	serve := func(raw net.Conn) {
		defer close(serverDone)
		defer raw.Close()
		conn := mcnet.WrapConn(raw)
		var p pk.Packet
		if conn.ReadPacket(&p) != nil || conn.ReadPacket(&p) != nil { // handshake, login start
			return
		}
		if threshold >= 0 {
			conn.WritePacket(pk.Marshal(packetid.ClientboundLoginLoginCompression, pk.VarInt(threshold)))
			conn.SetThreshold(threshold)
		}
		conn.WritePacket(pk.Marshal(packetid.ClientboundLoginGameProfile, pk.UUID{1}, pk.String("bot"), pk.VarInt(0), pk.Boolean(true)))
		if conn.ReadPacket(&p) != nil { // login acknowledged
			return
		}
		conn.WritePacket(pk.Marshal(packetid.ClientboundConfigFinishConfiguration))
		if conn.ReadPacket(&p) != nil { // configuration acknowledged
			return
		}
		// reader: collect the answers while the burst goes out (net.Pipe has no buffer)
		readerDone := make(chan struct{})
		go func() {
			defer close(readerDone)
			for {
				var q pk.Packet
				if conn.ReadPacket(&q) != nil {
					return
				}
				switch packetid.ServerboundPacketID(q.ID) {
				case packetid.ServerboundKeepAlive:
					if len(q.Data) == 8 {
						mu.Lock()
						answers = append(answers, sent{false, binary.BigEndian.Uint64(q.Data)})
						mu.Unlock()
					}
				case packetid.ServerboundPong:
					if len(q.Data) == 4 {
						mu.Lock()
						answers = append(answers, sent{true, uint64(binary.BigEndian.Uint32(q.Data))})
						mu.Unlock()
					}
				}
				mu.Lock()
				done := len(answers) >= n
				mu.Unlock()
				if done {
					return
				}
			}
		}()
		for _, s := range script {
			var err error
			if s.ping {
				err = conn.WritePacket(pk.Marshal(packetid.ClientboundPing, pk.Int(int32(uint32(s.val)))))
			} else {
				err = conn.WritePacket(pk.Marshal(packetid.ClientboundKeepAlive, pk.Long(int64(s.val))))
			}
			if err != nil {
				return
			}
		}
		select {
		case <-readerDone:
		case <-time.After(20 * time.Second):
		}
	}
	cl := bot.NewClient()
	basic.NewPlayer(cl, basic.DefaultSettings, basic.EventsListener{})
	opts := bot.JoinOptions{MCDialer: echoDialer{serve}}
	if channelQueues {
		opts.QueueRead = queue.NewChannelQueue[pk.Packet](8192)
		opts.QueueWrite = queue.NewChannelQueue[pk.Packet](8192)
	}
	wit := func() any {
		return map[string]any{"script_seed": seed, "packets": n, "threshold": threshold, "channel_queues": channelQueues, "sessions_alive_at_once": alongside}
	}
	c.Inflight(fmt.Sprintf("bot echo %v", wit()))
	var joinErr error
	gameDone := make(chan struct{})
	go func() {
		defer close(gameDone)
		c.Guard("bot-echo", wit, func() {
			if joinErr = cl.JoinServerWithOptions("echo.test:25565", opts); joinErr != nil {
				return
			}
			_ = cl.HandleGame()
		})
	}()
	select {
	case <-serverDone:
	case <-time.After(60 * time.Second):
		c.Inconclusive("bot echo session did not finish in 60 s")
		return false
	}
	cl.Close()
	<-gameDone
	c.EvalN(int64(n), vm.HashStr("bot-echo", fmt.Sprint(n, threshold, channelQueues, alongside, seed)), true)
	if joinErr != nil {
		c.Violation("bot-echo/join-failed", "the bot could not join the scripted server: "+joinErr.Error(), wit())
		return false
	}
	mu.Lock()
	defer mu.Unlock()
	if len(answers) != n {
		c.Violation("bot-echo/answer-count", fmt.Sprintf("%d keep-alive/ping packets were sent, %d answers came back", n, len(answers)), wit())
		return false
	}
	for i := range script {
		if answers[i] != script[i] {
			w := wit().(map[string]any)
			w["index"], w["sent"], w["answered"] = i, fmt.Sprintf("%+v", script[i]), fmt.Sprintf("%+v", answers[i])
			c.Violation("bot-echo/answer-carries-other-bytes", fmt.Sprintf("answer %d carries %#x (ping=%v), the packet it answers carried %#x (ping=%v)", i, answers[i].val, answers[i].ping, script[i].val, script[i].ping), w)
			return false
		}
	}
	c.Cover("bot-echo.answers-exact")
	if alongside > 1 {
		c.Cover(fmt.Sprintf("bot-echo.parallel.threshold=%d", threshold))
	}
	return true
}
