// C20, bot part: the bot's reader goroutine, its handlers and its writer goroutine share packet buffers through
// a pool. A server sends a burst of keep-alive and ping packets with distinct payloads; every answer must carry
// the payload of the packet it answers, in order (bytes of one packet must not appear in another), and the
// race detector must stay silent.
//
// Rich scripts (half of the sessions) add what a burst of 8- and 4-byte packets never does: runs of packets inside a
// bundle (the bot holds them, and their buffers, until the closing delimiter has arrived while its reader goes on
// taking buffers from the pool), cookies stored in the bot (1..5000 bytes, kept while thousands of packets pass) and
// asked for again later - the answer carries the key and the bytes last stored under it -, and packets nobody
// handles, of 0..20000 bytes, in between (so that the pool's buffers have all sizes).
package main

import (
	"context"
	"encoding/binary"
	"fmt"
	"net"
	"sync"
	"sync/atomic"
	"time"

	"github.com/Tnze/go-mc/bot"
	"github.com/Tnze/go-mc/bot/basic"
	"github.com/Tnze/go-mc/data/packetid"
	mcnet "github.com/Tnze/go-mc/net"
	pk "github.com/Tnze/go-mc/net/packet"
	"github.com/Tnze/go-mc/net/queue"

	"verif/ref/refwire"
	"verif/vm"
)

type echoDialer struct{ serve func(net.Conn) }

func (d echoDialer) DialMCContext(ctx context.Context, addr string) (*mcnet.Conn, error) {
	a, b := net.Pipe()
	go d.serve(b)
	return mcnet.WrapConn(a), nil
}

func botEcho(c *vm.Ctx, r *vm.Rand) {
	botEchoSession(c, r.Uint64(), r.Range(200, 3000), []int{-1, 0, 64}[r.Intn(3)], r.Bool(), 1, r.Bool())
}

// echoStep is one step of the scripted server.
type echoStep struct {
	kind    uint8
	val     uint64 // keep-alive, ping
	key     string // cookies
	payload []byte // store cookie, filler
}

const (
	ekKeepAlive     = iota
	ekPing          // answered with the same 4 bytes
	ekStoreCookie   // not answered; the bot keeps the payload under the key
	ekCookieRequest // answered with the key and what was stored under it last (or "nothing")
	ekFiller        // a packet nobody handles
	ekBundle        // bundle delimiter (opens or closes a bundle)
)

// echoAnswer is what the server reads back (payload as a string: the struct is comparable).
type echoAnswer struct {
	kind      uint8
	val       uint64
	key       string
	has       bool
	payload   string
	malformed bool
}

func (a echoAnswer) String() string {
	switch a.kind {
	case ekKeepAlive:
		return fmt.Sprintf("keep-alive %#x", a.val)
	case ekPing:
		return fmt.Sprintf("pong %#x", a.val)
	}
	return fmt.Sprintf("cookie response key=%q has=%v %d bytes hash=%x malformed=%v", a.key, a.has, len(a.payload), vm.Hash64([]byte(a.payload)), a.malformed)
}

// echoScript derives the steps from the seed, and the answers a bot must give in this order.
func echoScript(seed uint64, n int, rich bool) (script []echoStep, want []echoAnswer, bundledAnswers, cookieEchoes, fillers int) {
	r := vm.NewRand(seed)
	if !rich {
		for i := 0; i < n; i++ {
			st := echoStep{kind: ekKeepAlive, val: r.Uint64()}
			if r.Intn(4) == 0 {
				st.kind = ekPing
				st.val &= 0xffffffff
			}
			script = append(script, st)
			want = append(want, echoAnswer{kind: st.kind, val: st.val})
		}
		return
	}
	cookies := map[string][]byte{}
	inBundle, left, answersInBundle := false, 0, 0
	for i := 0; i < n; i++ {
		var st echoStep
		switch k := r.Intn(16); {
		case k == 0 || k == 1:
			st = echoStep{kind: ekStoreCookie, key: fmt.Sprintf("verif:cookie_%d", r.Intn(6)), payload: r.Bytes([]int{1, 8, 100, 127, 128, 129, 1000, 5000}[r.Intn(8)])}
			cookies[st.key] = st.payload
		case k == 2 || k == 3:
			st = echoStep{kind: ekCookieRequest, key: fmt.Sprintf("verif:cookie_%d", r.Intn(7))}
			stored, has := cookies[st.key]
			want = append(want, echoAnswer{kind: ekCookieRequest, key: st.key, has: has, payload: string(stored)})
			if has {
				cookieEchoes++
			}
		case k == 4:
			st = echoStep{kind: ekFiller, payload: r.Bytes([]int{0, 3, 8, 200, 3000, 20000}[r.Intn(6)])}
			fillers++
		case k == 5 && !inBundle:
			script = append(script, echoStep{kind: ekBundle})
			inBundle, left, answersInBundle = true, r.Range(1, 40), 0
			fallthrough
		default:
			st = echoStep{kind: ekKeepAlive, val: r.Uint64()}
			if r.Intn(4) == 0 {
				st.kind = ekPing
				st.val &= 0xffffffff
			}
			want = append(want, echoAnswer{kind: st.kind, val: st.val})
		}
		script = append(script, st)
		if inBundle {
			if st.kind != ekStoreCookie && st.kind != ekFiller {
				answersInBundle++
			}
			if left--; left <= 0 || i == n-1 {
				script = append(script, echoStep{kind: ekBundle})
				inBundle = false
				if answersInBundle >= 2 {
					bundledAnswers += answersInBundle
				}
			}
		}
	}
	if len(want) == 0 {
		script = append(script, echoStep{kind: ekKeepAlive, val: 1})
		want = append(want, echoAnswer{kind: ekKeepAlive, val: 1})
	}
	return
}

// parseCookieResponse reads identifier, presence flag and payload as the protocol lays them out.
func parseCookieResponse(d []byte) echoAnswer {
	bad := echoAnswer{kind: ekCookieRequest, malformed: true, payload: string(d)}
	kl, n, err := refwire.DecVarInt(d)
	if err != nil || kl < 0 || int(kl) > len(d)-n || len(d)-n-int(kl) < 1 {
		return bad
	}
	a := echoAnswer{kind: ekCookieRequest, key: string(d[n : n+int(kl)])}
	rest := d[n+int(kl):]
	switch {
	case rest[0] == 0 && len(rest) == 1:
		return a
	case rest[0] != 1:
		return bad
	}
	pl, m, err := refwire.DecVarInt(rest[1:])
	if err != nil || int(pl) != len(rest)-1-m {
		return bad
	}
	a.has, a.payload = true, string(rest[1+m:])
	return a
}

// botEchoThresholds: no compression; everything compressed (0, 3); only the keep-alives (8 data bytes) compressed and
// the pings (4 data bytes) not (6, 8); compression agreed but never used (9, 64, 256).
var botEchoThresholds = []int{-1, 0, 3, 6, 8, 9, 64, 256}

// botEchoParallel: k bots alive at the same time, each with a server, a connection, queues, reader and writer
// goroutines and a compression threshold of its own - they have the packet buffer pool and the zlib writer pool in
// common and nothing else. Every session is judged exactly as a lone one is: each answer carries the bytes of the
// packet it answers.
func botEchoParallel(c *vm.Ctx, r *vm.Rand) {
	k := r.Range(4, 8)
	first := r.Intn(len(botEchoThresholds))
	type params struct {
		seed          uint64
		n, threshold  int
		channelQueues bool
		rich          bool
	}
	ps := make([]params, k)
	for i := range ps {
		ps[i] = params{r.Uint64(), r.Range(100, 600), botEchoThresholds[(first+i)%len(botEchoThresholds)], r.Bool(), i%2 == 1}
	}
	oks := make([]bool, k)
	var wg sync.WaitGroup
	for i := range ps {
		wg.Add(1)
		go func(i int) {
			defer wg.Done()
			oks[i] = botEchoSession(c, ps[i].seed, ps[i].n, ps[i].threshold, ps[i].channelQueues, k, ps[i].rich)
		}(i)
	}
	wg.Wait()
	for _, ok := range oks {
		if !ok {
			return
		}
	}
	c.Cover("bot-echo.parallel-sessions-exact")
}

// botEchoSession runs one bot against one scripted server; alongside is the number of sessions alive at the same
// time (this one included); rich selects the script with bundles, cookies and fillers. It reports whether every
// answer was exact.
func botEchoSession(c *vm.Ctx, seed uint64, n, threshold int, channelQueues bool, alongside int, rich bool) bool {
	script, want, bundledAnswers, cookieEchoes, fillers := echoScript(seed, n, rich)
	var mu sync.Mutex
	var answers []echoAnswer
	serverDone := make(chan struct{})
	gameDone := make(chan struct{}) // closed when the bot's JoinServer/HandleGame has returned
	var waitedInVain atomic.Bool    // the 20 s bound on the wait for the last answers fired while the bot was still handling packets
	serve := func(raw net.Conn) {
		defer close(serverDone)
		defer raw.Close()
		conn := mcnet.WrapConn(raw)
		var p pk.Packet
		if conn.ReadPacket(&p) != nil || conn.ReadPacket(&p) != nil { // handshake, login start
			return
		}
		if threshold >= 0 {
			conn.WritePacket(pk.Marshal(packetid.ClientboundLoginLoginCompression, pk.VarInt(threshold)))
			conn.SetThreshold(threshold)
		}
		conn.WritePacket(pk.Marshal(packetid.ClientboundLoginGameProfile, pk.UUID{1}, pk.String("bot"), pk.VarInt(0), pk.Boolean(true)))
		if conn.ReadPacket(&p) != nil { // login acknowledged
			return
		}
		conn.WritePacket(pk.Marshal(packetid.ClientboundConfigFinishConfiguration))
		if conn.ReadPacket(&p) != nil { // configuration acknowledged
			return
		}
		// reader: collect the answers while the burst goes out (net.Pipe has no buffer)
		readerDone := make(chan struct{})
		go func() {
			defer close(readerDone)
			for {
				var q pk.Packet
				if conn.ReadPacket(&q) != nil {
					return
				}
				var a *echoAnswer
				switch packetid.ServerboundPacketID(q.ID) {
				case packetid.ServerboundKeepAlive:
					if len(q.Data) == 8 {
						a = &echoAnswer{kind: ekKeepAlive, val: binary.BigEndian.Uint64(q.Data)}
					}
				case packetid.ServerboundPong:
					if len(q.Data) == 4 {
						a = &echoAnswer{kind: ekPing, val: uint64(binary.BigEndian.Uint32(q.Data))}
					}
				case packetid.ServerboundCookieResponse:
					r := parseCookieResponse(q.Data)
					a = &r
				}
				mu.Lock()
				if a != nil {
					answers = append(answers, *a)
				}
				done := len(answers) >= len(want)
				mu.Unlock()
				if done {
					return
				}
			}
		}()
		for _, s := range script {
			var err error
			switch s.kind {
			case ekPing:
				err = conn.WritePacket(pk.Marshal(packetid.ClientboundPing, pk.Int(int32(uint32(s.val)))))
			case ekKeepAlive:
				err = conn.WritePacket(pk.Marshal(packetid.ClientboundKeepAlive, pk.Long(int64(s.val))))
			case ekStoreCookie:
				err = conn.WritePacket(pk.Marshal(packetid.ClientboundStoreCookie, pk.Identifier(s.key), pk.ByteArray(s.payload)))
			case ekCookieRequest:
				err = conn.WritePacket(pk.Marshal(packetid.ClientboundCookieRequest, pk.Identifier(s.key)))
			case ekFiller:
				err = conn.WritePacket(pk.Packet{ID: int32(packetid.ClientboundCustomPayload), Data: s.payload})
			case ekBundle:
				err = conn.WritePacket(pk.Packet{ID: int32(packetid.BundleDelimiter)})
			}
			if err != nil {
				return
			}
		}
		select {
		case <-readerDone:
		case <-time.After(20 * time.Second):
			// time only bounds the wait. A bot whose game loop has ended will never answer (what is missing is missing
			// for good); one that is still running may just be slow
			select {
			case <-gameDone:
			default:
				waitedInVain.Store(true)
			}
		}
	}
	cl := bot.NewClient()
	basic.NewPlayer(cl, basic.DefaultSettings, basic.EventsListener{})
	opts := bot.JoinOptions{MCDialer: echoDialer{serve}}
	if channelQueues {
		opts.QueueRead = queue.NewChannelQueue[pk.Packet](8192)
		opts.QueueWrite = queue.NewChannelQueue[pk.Packet](8192)
	}
	wit := func() any {
		return map[string]any{"script_seed": seed, "packets": n, "threshold": threshold, "channel_queues": channelQueues, "sessions_alive_at_once": alongside,
			"rich_script_with_bundles_cookies_fillers": rich, "steps": len(script), "answers_expected": len(want)}
	}
	c.Inflight(fmt.Sprintf("bot echo %v", wit()))
	var joinErr error
	go func() {
		defer close(gameDone)
		c.Guard("bot-echo", wit, func() {
			if joinErr = cl.JoinServerWithOptions("echo.test:25565", opts); joinErr != nil {
				return
			}
			_ = cl.HandleGame()
		})
	}()
	select {
	case <-serverDone:
	case <-time.After(60 * time.Second):
		c.Inconclusive("bot echo session did not finish in 60 s")
		return false
	}
	cl.Close()
	<-gameDone
	c.EvalN(int64(n), vm.HashStr("bot-echo", fmt.Sprint(n, threshold, channelQueues, alongside, seed)), true)
	if joinErr != nil {
		c.Violation("bot-echo/join-failed", "the bot could not join the scripted server: "+joinErr.Error(), wit())
		return false
	}
	mu.Lock()
	defer mu.Unlock()
	if len(answers) != len(want) && waitedInVain.Load() {
		c.Inconclusive(fmt.Sprintf("bot echo: %d of %d answers had arrived 20 s after the last packet went out and the bot was still running (%v)", len(answers), len(want), wit()))
		return false
	}
	if len(answers) != len(want) {
		c.Violation("bot-echo/answer-count", fmt.Sprintf("%d packets that ask for an answer were sent, %d answers came back", len(want), len(answers)), wit())
		return false
	}
	for i := range want {
		if answers[i] != want[i] {
			w := wit().(map[string]any)
			w["index"], w["expected"], w["answered"] = i, want[i].String(), answers[i].String()
			c.Violation("bot-echo/answer-carries-other-bytes", fmt.Sprintf("answer %d is [%v], the packet it answers asks for [%v]", i, answers[i], want[i]), w)
			return false
		}
	}
	if rich {
		c.Cover("bot-echo.rich.answers-exact")
		if bundledAnswers > 0 {
			c.Cover("bot-echo.rich.answers-to-bundled-packets-exact")
		}
		if cookieEchoes > 0 {
			c.Cover("bot-echo.rich.stored-cookies-came-back-exact")
		}
		if fillers > 0 {
			c.Cover("bot-echo.rich.unhandled-packets-of-other-sizes-between")
		}
	}
	c.Cover("bot-echo.answers-exact")
	if alongside > 1 {
		c.Cover(fmt.Sprintf("bot-echo.parallel.threshold=%d", threshold))
	}
	return true
}
