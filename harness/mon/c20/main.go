// Monitor C20: concurrent use - queue histories (linearizability), queue
// stress (exactly-once, order, quiescence/deadlock), pooled codecs isolation,
// player list capacity. Run under the race detector (mode "race") and as a
// plain build without any timer so that the Go runtime's deadlock detector
// can decide lost wake-ups (mode "plain").
package main

import (
	"bytes"
	"encoding/binary"
	"fmt"
	"os"
	"reflect"
	"runtime"
	"sort"
	"strings"
	"sync"
	"sync/atomic"
	"time"
	"unsafe"

	"github.com/anishathalye/porcupine"

	"github.com/Tnze/go-mc/nbt"
	pk "github.com/Tnze/go-mc/net/packet"
	"github.com/Tnze/go-mc/net/queue"

	"verif/vm"
)

func main() { vm.Main("C20", run) }

// ---------------------------------------------------------------------------
// 1. queue histories checked by porcupine

type qIn struct {
	Op string // push, pull, close
	V  uint32
}

type qOut struct {
	V  uint32
	OK bool
}

type qState struct {
	items  string // 4 bytes per queued value
	closed bool
}

func queueModel(capacity int) porcupine.Model {
	return porcupine.Model{
		Init: func() interface{} { return qState{} },
		Step: func(st, in, out interface{}) (bool, interface{}) {
			s := st.(qState)
			i := in.(qIn)
			o := out.(qOut)
			switch i.Op {
			case "push":
				if s.closed {
					return !o.OK, s // after Close a push must not be accepted (a refusal; whether it may panic instead is judged outside the model)
				}
				full := capacity > 0 && len(s.items)/4 >= capacity
				if o.OK {
					if full {
						return false, s
					}
					var b [4]byte
					binary.LittleEndian.PutUint32(b[:], i.V)
					return true, qState{items: s.items + string(b[:]), closed: s.closed}
				}
				return full, s // a refusal is legal only when the queue is full
			case "pull":
				if o.OK {
					if len(s.items) < 4 || binary.LittleEndian.Uint32([]byte(s.items[:4])) != o.V {
						return false, s
					}
					return true, qState{items: s.items[4:], closed: s.closed}
				}
				return len(s.items) == 0 && s.closed, s
			case "close":
				return true, qState{items: s.items, closed: true}
			}
			return false, s
		},
		DescribeOperation: func(in, out interface{}) string {
			return fmt.Sprintf("%s(%d) -> %v", in.(qIn).Op, in.(qIn).V, out)
		},
	}
}

type opRec struct {
	client int
	in     qIn
	out    qOut
	call   int64
	ret    int64
}

func perturb(r *vm.Rand) {
	switch r.Intn(6) {
	case 0:
		runtime.Gosched()
	case 1:
		for i := r.Intn(200); i > 0; i-- {
			_ = i
		}
	case 2:
		runtime.Gosched()
		runtime.Gosched()
	}
}

type queueKind struct {
	name string
	cap  int
	mk   func() queue.Queue[uint32]
}

var queueKinds = []queueKind{
	{"linked", 0, func() queue.Queue[uint32] { return queue.NewLinkedQueue[uint32]() }},
	{"channel(1)", 1, func() queue.Queue[uint32] { return queue.NewChannelQueue[uint32](1) }},
	{"channel(2)", 2, func() queue.Queue[uint32] { return queue.NewChannelQueue[uint32](2) }},
	{"channel(8)", 8, func() queue.Queue[uint32] { return queue.NewChannelQueue[uint32](8) }},
}

func history(c *vm.Ctx, r *vm.Rand, hi int, sigs map[uint64]bool) {
	qk := queueKinds[hi%len(queueKinds)]
	q := qk.mk()
	P, C := r.Range(1, 8), r.Range(1, 8)
	perProd := r.Range(1, max(1, 12/P)) // short histories: the check is exponential in the worst case
	if P*perProd+C > 16 {
		perProd = max(1, (16-C)/P)
	}
	procs := []int{1, 2, 4, 16}[r.Intn(4)]
	runtime.GOMAXPROCS(procs)
	base := time.Now()
	now := func() int64 { return int64(time.Since(base)) }
	recs := make([][]opRec, P+C+1)
	seeds := make([]uint64, P+C+1)
	for i := range seeds {
		seeds[i] = r.Uint64()
	}
	var start, prodWG, consWG sync.WaitGroup
	// only the mutex-based queue can be closed while producers push: ChannelQueue is a bare channel, and closing a
	// channel concurrently with sends is a data race by the language's own rules (its closer acts after the producers)
	racingCloser := (hi/len(queueKinds))%2 == 1 && qk.name == "linked"
	var latePanics int32
	start.Add(1)
	for p := 0; p < P; p++ {
		prodWG.Add(1)
		go func(p int) {
			defer prodWG.Done()
			lr := vm.NewRand(seeds[p])
			start.Wait()
			for s := 0; s < perProd; s++ {
				v := uint32(p)<<16 | uint32(s)
				perturb(lr)
				t0 := now()
				ok := false
				func() {
					// a push that comes after Close may be refused or, by the queues' original contract, panic: both count as
					// "not accepted" here; what must not happen is that the others are left blocked (park watch) or lose items
					defer func() {
						if recover() != nil {
							atomic.AddInt32(&latePanics, 1)
						}
					}()
					ok = q.Push(v)
				}()
				t1 := now()
				recs[p] = append(recs[p], opRec{client: p, in: qIn{"push", v}, out: qOut{OK: ok}, call: t0, ret: t1})
			}
		}(p)
	}
	for k := 0; k < C; k++ {
		consWG.Add(1)
		go func(k int) {
			defer consWG.Done()
			id := P + k
			lr := vm.NewRand(seeds[id])
			start.Wait()
			for {
				perturb(lr)
				t0 := now()
				v, ok := q.Pull()
				t1 := now()
				recs[id] = append(recs[id], opRec{client: id, in: qIn{Op: "pull"}, out: qOut{V: v, OK: ok}, call: t0, ret: t1})
				if !ok {
					return
				}
			}
		}(k)
	}
	start.Done()
	lr := vm.NewRand(seeds[P+C])
	if !racingCloser {
		prodWG.Wait() // the closer acts after the producers
	} else {
		for k := lr.Intn(6); k > 0; k-- { // the closer races with the producers
			perturb(lr)
		}
	}
	perturb(lr)
	t0 := now()
	q.Close()
	t1 := now()
	recs[P+C] = append(recs[P+C], opRec{client: P + C, in: qIn{Op: "close"}, out: qOut{}, call: t0, ret: t1})
	prodWG.Wait()
	consWG.Wait() // quiescence: every consumer must return once producers and closer have returned
	if racingCloser {
		c.Cover("history.closer-races-with-producers")
		if atomic.LoadInt32(&latePanics) > 0 {
			c.Cover("history.late-push-panicked")
		}
	}
	var ops []porcupine.Operation
	var all []opRec
	for _, rs := range recs {
		all = append(all, rs...)
	}
	for _, o := range all {
		ops = append(ops, porcupine.Operation{ClientId: o.client, Input: o.in, Call: o.call, Output: o.out, Return: o.ret})
	}
	runtime.GOMAXPROCS(16)
	res, _ := porcupine.CheckOperationsVerbose(queueModel(qk.cap), ops, 20*time.Second)
	c.Eval(vm.HashStr("hist", qk.name, fmt.Sprint(c.Shard, hi)), P+C >= 3)
	// interleaving signature: completion order of (client, op)
	sort.Slice(all, func(i, j int) bool { return all[i].ret < all[j].ret })
	var sb strings.Builder
	overlap := false
	for i, o := range all {
		fmt.Fprintf(&sb, "%d%c,", o.client, o.in.Op[1])
		if i > 0 && o.call < all[i-1].ret {
			overlap = true
		}
	}
	sigs[vm.HashStr(qk.name, sb.String())] = true
	if overlap {
		c.Cover("history.overlapping-operations")
	}
	wit := func() any {
		var h []string
		sort.Slice(all, func(i, j int) bool { return all[i].call < all[j].call })
		for _, o := range all {
			h = append(h, fmt.Sprintf("client %d: %s(%d) -> (%d,%v) [%d,%d]", o.client, o.in.Op, o.in.V, o.out.V, o.out.OK, o.call, o.ret))
		}
		return map[string]any{"queue": qk.name, "producers": P, "consumers": C, "gomaxprocs": procs, "closer_races_with_producers": racingCloser, "late_pushes_that_panicked": atomic.LoadInt32(&latePanics), "history": h}
	}
	switch res {
	case porcupine.Illegal:
		c.Violation("queue/not-linearizable/"+qk.name, "the recorded history is not a linearizable FIFO-with-close history", wit())
	case porcupine.Unknown:
		c.Inconclusive("porcupine timed out on a history of " + fmt.Sprint(len(ops)) + " operations")
	default:
		c.Cover("history.linearizable." + qk.name)
		if hi < 2 {
			c.Sample("history", wit())
		}
	}
}

// ---------------------------------------------------------------------------
// 2. queue stress with linear checkers; no timers anywhere (plain build: runtime deadlock detector)

type scenario struct {
	name string
	run  func(c *vm.Ctx, r *vm.Rand, qk queueKind)
}

func stress(c *vm.Ctx, r *vm.Rand, qk queueKind, P, C, perProd int, consumersFirst bool) {
	q := qk.mk()
	type got struct {
		v uint32
	}
	pulled := make([][]uint32, C)
	pulledT := make([][][2]int64, C) // call/return time of every successful pull
	acceptedT := make([][][2]int64, P)
	base := time.Now()
	now := func() int64 { return int64(time.Since(base)) } // monotonic clock reading; no timer involved
	accepted := make([][]uint32, P)
	refusedCnt := make([]int, P)
	afterFalse := int32(0)
	var prodWG, consWG sync.WaitGroup
	var parked int32
	for k := 0; k < C; k++ {
		consWG.Add(1)
		go func(k int) {
			defer consWG.Done()
			for {
				atomic.AddInt32(&parked, 1)
				t0 := now()
				v, ok := q.Pull()
				t1 := now()
				atomic.AddInt32(&parked, -1)
				if !ok {
					// nothing may be delivered after closure was reported
					return
				}
				pulled[k] = append(pulled[k], v)
				pulledT[k] = append(pulledT[k], [2]int64{t0, t1})
				c.Tick()
			}
		}(k)
	}
	if consumersFirst {
		// let the consumers reach Pull first (no timers: yield until they are all inside)
		for i := 0; i < 2000 && atomic.LoadInt32(&parked) < int32(C); i++ {
			runtime.Gosched()
		}
		c.Cover("stress.consumers-parked-first")
	}
	for p := 0; p < P; p++ {
		prodWG.Add(1)
		go func(p int) {
			defer prodWG.Done()
			for s := 0; s < perProd; s++ {
				v := uint32(p)<<24 | uint32(s)
				t0 := now()
				if q.Push(v) {
					accepted[p] = append(accepted[p], v)
					acceptedT[p] = append(acceptedT[p], [2]int64{t0, now()})
				} else {
					refusedCnt[p]++
					if qk.cap == 0 {
						return
					}
					runtime.Gosched()
					s-- // retry: a bounded queue refuses, it must not block
					if refusedCnt[p] > 50000000 {
						return
					}
				}
			}
		}(p)
	}
	prodWG.Wait()
	q.Close()
	consWG.Wait() // a lost wake-up leaves a consumer parked for ever: the runtime reports the deadlock (plain build)
	_ = afterFalse
	wit := func() any {
		return map[string]any{"queue": qk.name, "producers": P, "consumers": C, "items_per_producer": perProd, "consumers_first": consumersFirst}
	}
	// exactly-once
	seen := map[uint32]int{}
	total := 0
	for k := range pulled {
		for _, v := range pulled[k] {
			seen[v]++
			total++
		}
	}
	nacc := 0
	for p := range accepted {
		nacc += len(accepted[p])
		for _, v := range accepted[p] {
			if seen[v] != 1 {
				c.Violation("stress/exactly-once/"+qk.name, fmt.Sprintf("item %#x pushed once was delivered %d times", v, seen[v]), wit())
				return
			}
		}
	}
	if total != nacc {
		c.Violation("stress/conservation/"+qk.name, fmt.Sprintf("%d items accepted, %d delivered before closure was reported", nacc, total), wit())
		return
	}
	// FIFO order across all clients (the queue "bad pattern" with unique values): if Push(a) returned before
	// Push(b) was called, Pull->b must not have returned before Pull->a was called.
	type item struct{ enqCall, enqRet, deqCall, deqRet int64; v uint32 }
	byV := map[uint32]*item{}
	var items []*item
	for p := range accepted {
		for i, v := range accepted[p] {
			it := &item{enqCall: acceptedT[p][i][0], enqRet: acceptedT[p][i][1], v: v}
			byV[v] = it
			items = append(items, it)
		}
	}
	for k := range pulled {
		for i, v := range pulled[k] {
			if it := byV[v]; it != nil {
				it.deqCall, it.deqRet = pulledT[k][i][0], pulledT[k][i][1]
			}
		}
	}
	byCall := append([]*item{}, items...)
	sort.Slice(byCall, func(i, j int) bool { return byCall[i].enqCall < byCall[j].enqCall })
	byRet := append([]*item{}, items...)
	sort.Slice(byRet, func(i, j int) bool { return byRet[i].enqRet < byRet[j].enqRet })
	j := 0
	var latest *item // among items whose Push returned before the current Push was called: the one pulled latest (by call time)
	for _, b := range byCall {
		for j < len(byRet) && byRet[j].enqRet < b.enqCall {
			if latest == nil || byRet[j].deqCall > latest.deqCall {
				latest = byRet[j]
			}
			j++
		}
		if latest != nil && latest.deqCall > b.deqRet {
			c.Violation("stress/fifo-order/"+qk.name, fmt.Sprintf("item %#x was pushed strictly before item %#x but pulled strictly after it", latest.v, b.v), wit())
			return
		}
	}
	// per (producer, consumer) order
	for k := range pulled {
		last := map[uint32]int64{}
		for _, v := range pulled[k] {
			p, s := v>>24, int64(v&0xffffff)
			if l, ok := last[p]; ok && s <= l {
				c.Violation("stress/producer-order/"+qk.name, fmt.Sprintf("consumer %d received item %d of producer %d after item %d", k, s, p, l), wit())
				return
			}
			last[p] = s
		}
	}
	if qk.cap == 0 {
		for p := range refusedCnt {
			if refusedCnt[p] > 0 {
				c.Violation("stress/unbounded-refused/"+qk.name, "the unbounded queue refused a push", wit())
				return
			}
		}
	} else {
		for p := range refusedCnt {
			if refusedCnt[p] > 0 {
				c.Cover("stress.bounded-queue-refused-when-full")
			}
		}
	}
	c.EvalN(int64(nacc), vm.HashStr("stress", qk.name, fmt.Sprint(P, C, perProd, consumersFirst, r.Uint64())), true)
	c.Cover("stress.ok." + qk.name)
}

// closeWithParked: N consumers parked on an empty queue, then Close: all must return.
func closeWithParked(c *vm.Ctx, qk queueKind, n int) {
	q := qk.mk()
	var wg sync.WaitGroup
	var inside int32
	for i := 0; i < n; i++ {
		wg.Add(1)
		go func() {
			defer wg.Done()
			atomic.AddInt32(&inside, 1)
			if _, ok := q.Pull(); ok {
				c.Violation("close/parked-consumer-got-item/"+qk.name, "a consumer of an empty closed queue received an item", nil)
			}
		}()
	}
	for i := 0; i < 5000 && atomic.LoadInt32(&inside) < int32(n); i++ {
		runtime.Gosched()
	}
	for i := 0; i < 50; i++ {
		runtime.Gosched()
	}
	q.Close()
	wg.Wait()
	c.EvalN(int64(n), vm.HashStr("close-parked", qk.name, fmt.Sprint(n)), n > 1)
	c.Cover("close.with-parked-consumers." + qk.name)
}

// burstOneEach: n consumers park on an empty queue and take exactly ONE item each; then n items arrive in a
// burst from several producers. Every consumer must be woken by an item (no Close helps here): a queue that
// signals only sometimes leaves consumers parked although items are waiting.
func burstOneEach(c *vm.Ctx, qk queueKind, n int) {
	if qk.cap != 0 && qk.cap < n {
		n = qk.cap
	}
	q := qk.mk()
	var wg sync.WaitGroup
	var inside int32
	got := make([]uint32, n)
	oks := make([]bool, n)
	for i := 0; i < n; i++ {
		wg.Add(1)
		go func(i int) {
			defer wg.Done()
			atomic.AddInt32(&inside, 1)
			got[i], oks[i] = q.Pull()
			c.Tick()
		}(i)
	}
	for i := 0; i < 5000 && atomic.LoadInt32(&inside) < int32(n); i++ {
		runtime.Gosched()
	}
	for i := 0; i < 100; i++ {
		runtime.Gosched()
	}
	var pw sync.WaitGroup
	for p := 0; p < 2; p++ {
		pw.Add(1)
		go func(p int) {
			defer pw.Done()
			for i := p; i < n; i += 2 {
				q.Push(uint32(i))
			}
		}(p)
	}
	pw.Wait()
	wg.Wait() // without Close: each consumer needs its own wake-up
	q.Close()
	seen := map[uint32]bool{}
	for i := range got {
		if !oks[i] || seen[got[i]] {
			c.Violation("burst/one-each/"+qk.name, fmt.Sprintf("consumer %d got (%d,%v)", i, got[i], oks[i]), nil)
			return
		}
		seen[got[i]] = true
	}
	c.EvalN(int64(n), vm.HashStr("burst", qk.name, fmt.Sprint(n)), n > 1)
	c.Cover("burst.every-parked-consumer-woken." + qk.name)
}

// fullQueue: a bounded queue that nobody drains must refuse, not block.
func fullQueue(c *vm.Ctx, qk queueKind) {
	if qk.cap == 0 {
		return
	}
	q := qk.mk()
	okCount := 0
	for i := 0; i < qk.cap+5; i++ {
		if q.Push(uint32(i)) { // would block for ever if Push blocked: the runtime then reports the deadlock
			okCount++
		}
	}
	if okCount != qk.cap {
		c.Violation("full/accepted-count/"+qk.name, fmt.Sprintf("a queue of capacity %d accepted %d items with no consumer", qk.cap, okCount), nil)
		return
	}
	q.Close()
	for i := 0; i < qk.cap; i++ {
		v, ok := q.Pull()
		if !ok || v != uint32(i) {
			c.Violation("full/remaining-items-after-close/"+qk.name, fmt.Sprintf("after Close the %d-th remaining item was (%d,%v)", i, v, ok), nil)
			return
		}
	}
	if _, ok := q.Pull(); ok {
		c.Violation("full/closure-not-reported/"+qk.name, "an empty closed queue still hands out items", nil)
		return
	}
	c.EvalN(int64(qk.cap+5), vm.HashStr("full", qk.name), true)
	c.Cover("full.refuses-not-blocks." + qk.name)
}

// ---------------------------------------------------------------------------
// 3. pooled codecs isolation

// payloadFor derives every byte from (goroutine, sequence).
func payloadFor(g, seq, n int) []byte {
	b := make([]byte, n)
	st := uint64(g)<<32 | uint64(seq)
	for i := range b {
		st = st*6364136223846793005 + 1442695040888963407
		b[i] = byte(st >> 33)
	}
	if n >= 8 {
		binary.LittleEndian.PutUint32(b, uint32(g))
		binary.LittleEndian.PutUint32(b[4:], uint32(seq))
	}
	return b
}

type pooledRange struct {
	mu sync.Mutex
	rs [][]byte
}

// spyWriter remembers the pooled ranges Pack hands to Write (read-only overlap check in concurrent mode).
type spyWriter struct {
	buf       bytes.Buffer
	share     *pooledRange
	failAfter int  // >= 0: the peer takes this many bytes in all, then fails (-1: never fails)
	failed    bool // a Write has failed
}

var errPeerGone = fmt.Errorf("verif: the peer is gone")

func (s *spyWriter) Write(p []byte) (int, error) {
	if s.failAfter >= 0 && s.buf.Len()+len(p) > s.failAfter {
		k := s.failAfter - s.buf.Len()
		if k < 0 {
			k = 0
		}
		runtime.Gosched() // the frame is still in the packer's hands while others run
		s.buf.Write(p[:k])
		s.failed = true
		return k, errPeerGone
	}
	// a peer that takes the bytes late: other goroutines run (and pack) while this Write holds the frame
	if len(p)%4 == 1 {
		for k := 0; k < 3; k++ {
			runtime.Gosched()
		}
	}
	s.buf.Write(p)
	if cap(p) > 0 {
		s.share.mu.Lock()
		if len(s.share.rs) < 4096 {
			s.share.rs = append(s.share.rs, p[:cap(p)])
		}
		s.share.mu.Unlock()
	}
	return len(p), nil
}

func (pr *pooledRange) overlaps(b []byte) bool {
	if cap(b) == 0 {
		return false
	}
	b0 := uintptr(unsafe.Pointer(unsafe.SliceData(b)))
	b1 := b0 + uintptr(cap(b))
	pr.mu.Lock()
	defer pr.mu.Unlock()
	for _, r := range pr.rs {
		r0 := uintptr(unsafe.Pointer(unsafe.SliceData(r)))
		if b0 < r0+uintptr(len(r)) && r0 < b1 {
			return true
		}
	}
	return false
}

type nbtDoc struct {
	G    int32    `nbt:"g"`
	Seq  int32    `nbt:"seq"`
	Blob []byte   `nbt:"blob"`
	Name string   `nbt:"name"`
	L    []int64  `nbt:"l"`
	S    []string `nbt:"s"`
}

// codecsCalls numbers the calls of codecs in this process; codecsTypesSeen holds every reflect-built type an
// earlier call has used (the monitor's own book-keeping that the types of a call are new ones).
var (
	codecsCalls     atomic.Int64
	codecsTypesMu   sync.Mutex
	codecsTypesSeen = map[reflect.Type]bool{}
)

func codecs(c *vm.Ctx, r *vm.Rand, G, rounds int) {
	share := &pooledRange{}
	// many distinct struct types, first used concurrently by several goroutines (the per-type cache). reflect.StructOf
	// hands back the identical type for an identical field list, and the library's cache is keyed by type: the tags
	// carry the number of this call, so that EVERY call brings types the cache has never seen (a first concurrent
	// use per call, not per process)
	call := codecsCalls.Add(1)
	ntypes := 40
	types := make([]reflect.Type, ntypes)
	for i := range types {
		var fs []reflect.StructField
		for j := 0; j <= i%6; j++ {
			fs = append(fs, reflect.StructField{Name: fmt.Sprintf("F%d_%d", i, j), Type: reflect.TypeOf(int32(0)), Tag: reflect.StructTag(fmt.Sprintf(`nbt:"k%d_%d_%d"`, call, i, j))})
		}
		fs = append(fs, reflect.StructField{Name: "Tail", Type: reflect.TypeOf(""), Tag: `nbt:"tail"`})
		types[i] = reflect.StructOf(fs)
	}
	// types of more shapes (embedded, nested, pointer, slice of structs, omitempty, list), new in every call as well
	rich, richInner := codecsRichTypes(call, 8)
	codecsTypesMu.Lock()
	freshTypes := true
	for _, ts := range [][]reflect.Type{types, rich, richInner} {
		for _, t := range ts {
			if codecsTypesSeen[t] {
				freshTypes = false
			}
			codecsTypesSeen[t] = true
		}
	}
	codecsTypesMu.Unlock()
	// packets every goroutine packs (nobody writes them)
	shared := newSharedPackets(call)
	var wg, start sync.WaitGroup
	start.Add(1)
	var bad int32
	var nReused, nFailedWrites, nBrokenReads int64
	var nFramesJudged, nSharedPacked, nRich, nSameName int64
	// what a replay needs: the run (seed, shard and mode fix the sequence of calls), the call, its size, and where it was seen
	cwit := func(g, seq int, more map[string]any) map[string]any {
		w := map[string]any{"seed": c.Seed, "shard": c.Shard, "codecs_call": call, "goroutines": G, "rounds": rounds, "goroutine": g, "seq": seq,
			"goroutine_rand_seed": uint64(g)*7919 + c.Seed}
		for k, v := range more {
			w[k] = v
		}
		return w
	}
	for g := 0; g < G; g++ {
		wg.Add(1)
		go func(g int) {
			defer wg.Done()
			start.Wait()
			lr := vm.NewRand(uint64(g)*7919 + c.Seed)
			type kept struct {
				p    pk.Packet
				want []byte
				id   int32
			}
			var keep []kept
			var keptDocs []nbtDoc
			var keptSeq []int
			// one destination packet used again and again (UnPack then writes into the capacity the previous call
			// left there) next to fresh ones; what the last call put there must still be there at the next one
			var reuse pk.Packet
			var reuseWant []byte
			var reuseID int32
			reused, failedWrites, brokenReads := 0, 0, 0
			framesJudged, sharedPacked, richDone, sameName := 0, 0, 0, 0
			defer func() {
				atomic.AddInt64(&nReused, int64(reused))
				atomic.AddInt64(&nFailedWrites, int64(failedWrites))
				atomic.AddInt64(&nBrokenReads, int64(brokenReads))
				atomic.AddInt64(&nFramesJudged, int64(framesJudged))
				atomic.AddInt64(&nSharedPacked, int64(sharedPacked))
				atomic.AddInt64(&nRich, int64(richDone))
				atomic.AddInt64(&nSameName, int64(sameName))
			}()
			for seq := 0; seq < rounds; seq++ {
				if atomic.LoadInt32(&bad) != 0 {
					return
				}
				th := []int{-1, 0, 32, 256}[lr.Intn(4)]
				n := []int{0, 5, 31, 32, 33, 300, 2000}[lr.Intn(7)]
				if lr.Intn(40) == 0 {
					n = []int{5000, 70000}[lr.Intn(2)] // beyond what a fresh pooled buffer holds: the buffer grows, then goes back
				}
				want := payloadFor(g, seq, n)
				w := &spyWriter{share: share, failAfter: -1}
				p := pk.Packet{ID: int32(g*1000 + seq%1000), Data: append([]byte{}, want...)}
				if lr.Intn(50) == 0 {
					// a peer that fails part-way: Pack comes back on its error path, its pooled scratch buffer (and zlib
					// writer) goes back to the pool and is the next goroutine's. Whether the error is reported is
					// property C09's business; here the neighbours' packets (and this goroutine's next ones) must stay exact.
					fw := &spyWriter{share: share, failAfter: lr.Intn(n + 4)}
					_ = p.Pack(fw, th)
					if fw.failed {
						failedWrites++
					}
				}
				if err := p.Pack(w, th); err != nil {
					c.Violation("codecs/pack-error", err.Error(), cwit(g, seq, map[string]any{"threshold": th, "size": n}))
					atomic.StoreInt32(&bad, 1)
					return
				}
				// what went to the writer, read by an independent reader: one frame, nothing behind it, this packet
				if msg := judgeFrame(w.buf.Bytes(), th, p.ID, want); msg != "" {
					c.Violation("codecs/frame-on-the-wire", fmt.Sprintf("goroutine %d seq %d threshold %d: %s", g, seq, th, msg), cwit(g, seq, mergeWit(map[string]any{"threshold": th, "size": n}, frameWitness(w.buf.Bytes()))))
					atomic.StoreInt32(&bad, 1)
					return
				}
				framesJudged++
				if seq%6 == 4 {
					// a packet that the other goroutines pack too, right now: each to a writer and with a threshold of its own
					k := lr.Intn(len(shared))
					sth := []int{-1, 0, 32, 256}[lr.Intn(4)]
					pp := shared[k].p // what Conn.WritePacket receives: a copy of the struct, the payload bytes are the shared ones
					sw := &spyWriter{share: share, failAfter: -1}
					var back pk.Packet
					err := pp.Pack(sw, sth)
					msg := ""
					if err == nil {
						msg = judgeFrame(sw.buf.Bytes(), sth, shared[k].id, shared[k].want)
						err = back.UnPack(bytes.NewReader(sw.buf.Bytes()), sth)
					}
					if err == nil && msg == "" && (back.ID != shared[k].id || !bytes.Equal(back.Data, shared[k].want)) {
						msg = "UnPack of what this goroutine packed gives another id or payload"
					}
					if err != nil || msg != "" {
						c.Violation("codecs/shared-packet/packed-by-many", fmt.Sprintf("goroutine %d seq %d threshold %d, packet of %d bytes that %d goroutines pack at the same time: err=%v %s", g, seq, sth, len(shared[k].want), G, err, msg),
							cwit(g, seq, mergeWit(map[string]any{"threshold": sth, "shared_packet": k, "size": len(shared[k].want)}, frameWitness(sw.buf.Bytes()))))
						atomic.StoreInt32(&bad, 1)
						return
					}
					sharedPacked++
				}
				if lr.Intn(50) == 0 && w.buf.Len() > 1 {
					// a stream that ends early: UnPack leaves through one of its error paths while it holds a pooled buffer
					// (and, past the threshold, a zlib reader). The outcome is C07/C09's business.
					var broken pk.Packet
					_ = broken.UnPack(bytes.NewReader(w.buf.Bytes()[:1+lr.Intn(w.buf.Len()-1)]), th)
					brokenReads++
				}
				var q pk.Packet
				dst := &q
				if lr.Bool() {
					if reuseWant != nil && (reuse.ID != reuseID || !bytes.Equal(reuse.Data, reuseWant)) {
						c.Violation("codecs/reused-packet-changed-between-calls", fmt.Sprintf("goroutine %d: the packet this goroutine keeps as its UnPack destination no longer holds what the previous UnPack put there", g), cwit(g, seq, map[string]any{"threshold": th, "size": n}))
						atomic.StoreInt32(&bad, 1)
						return
					}
					dst = &reuse
					reused++
				}
				reusedDst := dst == &reuse
				if err := dst.UnPack(bytes.NewReader(w.buf.Bytes()), th); err != nil {
					c.Violation("codecs/unpack-error", fmt.Sprintf("goroutine %d seq %d threshold %d: %v", g, seq, th, err), cwit(g, seq, map[string]any{"threshold": th, "size": n, "destination_reused": reusedDst}))
					atomic.StoreInt32(&bad, 1)
					return
				}
				if dst.ID != p.ID || !bytes.Equal(dst.Data, want) {
					c.Violation("codecs/cross-talk/packet", fmt.Sprintf("goroutine %d seq %d: unpacked packet differs from what this goroutine packed (id %d vs %d, %d vs %d bytes)", g, seq, dst.ID, p.ID, len(dst.Data), len(want)), cwit(g, seq, map[string]any{"threshold": th, "size": n, "destination_reused": reusedDst}))
					atomic.StoreInt32(&bad, 1)
					return
				}
				if share.overlaps(dst.Data) {
					c.Violation("codecs/returned-data-aliases-pooled-buffer", "Packet.Data returned by UnPack lies inside a pooled scratch buffer", cwit(g, seq, map[string]any{"threshold": th, "size": n, "destination_reused": reusedDst}))
					atomic.StoreInt32(&bad, 1)
					return
				}
				if reusedDst {
					reuseWant, reuseID = want, p.ID
					// the delayed check keeps a copy: the destination itself is overwritten by design
					q = pk.Packet{ID: reuse.ID, Data: append([]byte{}, reuse.Data...)}
				}
				keep = append(keep, kept{q, want, p.ID})
				// NBT encode/decode of self-identifying data
				doc := nbtDoc{G: int32(g), Seq: int32(seq), Blob: payloadFor(g, seq, lr.Intn(200)), Name: fmt.Sprintf("g%d-s%d", g, seq), L: []int64{int64(g), int64(seq)}, S: []string{fmt.Sprint(g), fmt.Sprint(seq)}}
				b, err := nbt.Marshal(doc)
				var back nbtDoc
				if err == nil {
					err = nbt.Unmarshal(b, &back)
				}
				if err != nil || !reflect.DeepEqual(doc, back) {
					c.Violation("codecs/cross-talk/nbt", fmt.Sprintf("goroutine %d seq %d: NBT round trip err=%v got %+v", g, seq, err, back), cwit(g, seq, nil))
					atomic.StoreInt32(&bad, 1)
					return
				}
				keptDocs = append(keptDocs, back)
				keptSeq = append(keptSeq, seq)
				// a dynamically built type, shared with other goroutines, possibly first used right now
				// even steps: all goroutines reach the same type at about the same time (its first use is contended);
				// odd steps: staggered, every goroutine on another type
				ti := seq / 2 % ntypes
				if seq%2 == 1 {
					ti = (g + seq) % ntypes
				}
				t := types[ti]
				v := reflect.New(t).Elem()
				for j := 0; j < t.NumField()-1; j++ {
					v.Field(j).SetInt(int64(g*100000 + seq*10 + j))
				}
				v.Field(t.NumField() - 1).SetString(fmt.Sprintf("t%d", g))
				tb, err := nbt.Marshal(v.Interface())
				out := reflect.New(t)
				if err == nil {
					err = nbt.Unmarshal(tb, out.Interface())
				}
				if err != nil || !reflect.DeepEqual(out.Elem().Interface(), v.Interface()) {
					c.Violation("codecs/cross-talk/typed-cache", fmt.Sprintf("goroutine %d seq %d type %d of call %d: err=%v", g, seq, ti, call, err), cwit(g, seq, map[string]any{"type": ti}))
					atomic.StoreInt32(&bad, 1)
					return
				}
				// the same type again from a document whose names differ in letter case: the decoder's
				// case-insensitive fallback consults the per-type table shared by all goroutines
				m := map[string]any{}
				for j := 0; j < t.NumField(); j++ {
					name := []byte(t.Field(j).Tag.Get("nbt"))
					for k := range name {
						if name[k] >= 'a' && name[k] <= 'z' && lr.Bool() {
							name[k] -= 'a' - 'A'
						}
					}
					m[string(name)] = v.Field(j).Interface()
				}
				mb, err := nbt.Marshal(m)
				out2 := reflect.New(t)
				if err == nil {
					err = nbt.Unmarshal(mb, out2.Interface())
				}
				if err != nil || !reflect.DeepEqual(out2.Elem().Interface(), v.Interface()) {
					c.Violation("codecs/cross-talk/typed-cache-case-folded-names", fmt.Sprintf("goroutine %d seq %d type %d of call %d: err=%v", g, seq, ti, call, err), cwit(g, seq, map[string]any{"type": ti}))
					atomic.StoreInt32(&bad, 1)
					return
				}
				// types of more shapes; every fifth step all goroutines are on the same one (its first use is contended:
				// the type itself, the inner type behind its nested, pointer and slice members)
				if seq%5 == 3 || seq%5 == 1 {
					ri := seq / 5 % len(rich)
					if seq%5 == 1 {
						ri = (g + seq) % len(rich)
					}
					if msg := richRoundTrip(rich[ri], g, seq); msg != "" {
						c.Violation("codecs/cross-talk/typed-cache-nested-and-embedded", fmt.Sprintf("goroutine %d seq %d rich type %d of call %d: %s", g, seq, ri, call, msg), cwit(g, seq, map[string]any{"rich_type": ri, "type": rich[ri].String()}))
						atomic.StoreInt32(&bad, 1)
						return
					}
					richDone++
				}
				// two types of one name, used side by side
				if seq%4 == 2 {
					fns := [2]func(int, int) string{sameNameA, sameNameB}
					first := (g + seq/4) % 2 // half of the goroutines meet the one type first, half the other
					msg := fns[first](g, seq)
					if msg == "" {
						msg = fns[1-first](g, seq)
					}
					if msg != "" {
						c.Violation("codecs/cross-talk/typed-cache-same-type-name", fmt.Sprintf("goroutine %d seq %d: %s", g, seq, msg), cwit(g, seq, nil))
						atomic.StoreInt32(&bad, 1)
						return
					}
					sameName++
				}
				// delayed re-verification: retained pooled memory only shows later
				if len(keep) > 24 {
					k := keep[0]
					keep = keep[1:]
					if k.p.ID != k.id || !bytes.Equal(k.p.Data, k.want) {
						c.Violation("codecs/returned-packet-changed-later", fmt.Sprintf("goroutine %d: a packet returned %d operations ago has changed since", g, 24), cwit(g, seq, nil))
						atomic.StoreInt32(&bad, 1)
						return
					}
					d, s := keptDocs[0], keptSeq[0]
					keptDocs, keptSeq = keptDocs[1:], keptSeq[1:]
					if d.G != int32(g) || d.Seq != int32(s) || !bytes.Equal(d.Blob, payloadFor(g, s, len(d.Blob))) {
						c.Violation("codecs/decoded-value-changed-later", fmt.Sprintf("goroutine %d: a decoded NBT value has changed since it was returned", g), cwit(g, seq, nil))
						atomic.StoreInt32(&bad, 1)
						return
					}
				}
			}
		}(g)
	}
	start.Done()
	wg.Wait()
	c.EvalN(int64(G*rounds*3), vm.HashStr("codecs", fmt.Sprint(G, rounds, r.Uint64())), true)
	if atomic.LoadInt32(&bad) == 0 {
		// everybody has returned: packing read the shared packets, it must have left them as they were
		for k := range shared {
			if msg := shared[k].unchanged(); msg != "" {
				c.Violation("codecs/shared-packet/changed-by-packing", fmt.Sprintf("a packet of %d bytes (capacity %d) that %d goroutines packed at the same time: %s", len(shared[k].want), len(shared[k].backing), G, msg),
					cwit(-1, -1, map[string]any{"shared_packet": k, "size": len(shared[k].want)}))
				atomic.StoreInt32(&bad, 1)
			}
		}
	}
	if atomic.LoadInt32(&bad) == 0 {
		c.Cover("codecs.isolated")
		if nFramesJudged > 0 {
			c.Cover("codecs.frame-read-by-independent-reader")
		}
		if nSharedPacked > 0 {
			c.Cover("codecs.one-packet-packed-by-many-at-once")
		}
		if nRich > 0 && freshTypes {
			c.Cover("codecs.type-cache-nested-embedded-pointer-slice")
		}
		if nSameName > 0 {
			c.Cover("codecs.type-cache-two-types-of-one-name")
		}
		c.Cover("codecs.case-folded-names")
		if nReused > 0 {
			c.Cover("codecs.unpack-into-reused-packet")
		}
		if nFailedWrites > 0 {
			c.Cover("codecs.failing-writer-next-to-others")
		}
		if nBrokenReads > 0 {
			c.Cover("codecs.truncated-stream-next-to-others")
		}
		if call > 1 && freshTypes {
			c.Cover("codecs.type-cache-first-use-in-a-later-call")
		}
	}
}

// 4. player list: playerlist.go

// ---------------------------------------------------------------------------

// only reports whether a section of the run is wanted: all of them, unless VERIF_C20_ONLY names some (a comma
// separated list; for trying a sub-check against a changed library without waiting for the other sections).
func only(section string) bool {
	sel := os.Getenv("VERIF_C20_ONLY")
	if sel == "" {
		return true
	}
	for _, s := range strings.Split(sel, ",") {
		if s == section {
			return true
		}
	}
	return false
}

func run(c *vm.Ctx) {
	r := c.Rand("c20")
	c.EnableParkWatch("deadlock")
	if c.Mode == "plain" {
		// the park watch (vm.EnableParkWatch) decides lost wake-ups: all goroutines parked on
		// synchronisation primitives with nobody left to run.
		for i := 0; i < c.Scale(160, 3000) && only("stress"); i++ {
			qk := queueKinds[i%len(queueKinds)]
			c.Inflight(fmt.Sprintf("stress %s #%d", qk.name, i))
			c.FlushInflight()
			stress(c, r, qk, r.Range(1, 8), r.Range(1, 8), r.Range(1, 2000), i%3 == 0)
			c.Inflight(fmt.Sprintf("close-with-parked %s #%d", qk.name, i))
			closeWithParked(c, qk, r.Range(1, 16))
			c.Inflight(fmt.Sprintf("burst-one-each %s #%d", qk.name, i))
			burstOneEach(c, qk, r.Range(2, 12))
			c.Inflight(fmt.Sprintf("full-queue %s #%d", qk.name, i))
			fullQueue(c, qk)
			boundedQueues(c, r, qk, i)
			typedQueues(c, r, i)
		}
		return
	}
	sigs := map[uint64]bool{}
	for i := 0; i < c.Scale(3000, 100000) && only("history"); i++ {
		c.Inflight(fmt.Sprintf("history #%d", i))
		history(c, r, i, sigs)
	}
	runtime.GOMAXPROCS(16)
	c.CoverN("history.distinct-interleaving-signatures", int64(len(sigs)))
	c.Note("distinct_interleaving_signatures_shard0", len(sigs))
	for i := 0; i < c.Scale(40, 800) && only("stress"); i++ {
		qk := queueKinds[i%len(queueKinds)]
		c.Inflight(fmt.Sprintf("stress %s #%d", qk.name, i))
		stress(c, r, qk, r.Range(1, 8), r.Range(1, 8), r.Range(1, 500), i%3 == 0)
		c.Inflight(fmt.Sprintf("close-with-parked %s #%d", qk.name, i))
		closeWithParked(c, qk, r.Range(1, 16))
		c.Inflight(fmt.Sprintf("burst-one-each %s #%d", qk.name, i))
		burstOneEach(c, qk, r.Range(2, 12))
		boundedQueues(c, r, qk, i)
		typedQueues(c, r, i)
	}
	for i := 0; i < c.Scale(6, 120) && only("botecho"); i++ {
		botEcho(c, r)
		botEchoParallel(c, r)
	}
	for i := 0; i < c.Scale(8, 160) && only("codecs"); i++ {
		c.Inflight("codecs")
		codecs(c, r, r.Range(16, 64), c.Pick(60, 200))
	}
	for i := 0; i < c.Scale(6, 120) && only("independent"); i++ {
		c.Inflight("independent")
		independent(c, r, 16, c.Pick(40, 120))
	}
	for i := 0; i < c.Scale(40, 800) && only("playerlist"); i++ {
		c.Inflight("playerlist")
		switch capacity := []int{1, 2, 10, 25, 0}[i%5]; capacity {
		case 25:
			// more than ten online while clients come and go (a status sample holds at most 10): 12 joiners keeping
			// up to 3 clients each in a list of 25
			playerList(c, r, capacity, 12, r.Range(20, 200), 3)
		default:
			playerList(c, r, capacity, r.Range(2, 12), r.Range(20, 200), 0)
		}
	}
}
