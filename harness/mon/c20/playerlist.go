// C20, player list part: joins, leaves, the gate's capacity question (CheckPlayer) and the status samplers, all
// at once on one list. The list must never be seen with more clients than its capacity, a status sample never
// holds more than 10 entries (nor one client twice), and when everybody has finished the list holds exactly the
// clients that were admitted and have not left.
package main

import (
	"fmt"
	"runtime"
	"sync"
	"sync/atomic"

	"github.com/google/uuid"

	"github.com/Tnze/go-mc/chat"
	"github.com/Tnze/go-mc/server"

	"verif/vm"
)

type plClient struct {
	id         int
	disconnect int32
}

func (p *plClient) SendDisconnect(chat.Message) { atomic.AddInt32(&p.disconnect, 1) }

func plSample(id int) server.PlayerSample {
	var u uuid.UUID
	u[0], u[1], u[2], u[3], u[15] = byte(id>>24), byte(id>>16), byte(id>>8), byte(id), 0x20
	return server.PlayerSample{Name: fmt.Sprint(id), ID: u}
}

// playerList: J joiners make `rounds` join attempts each with clients of their own. hold == 0: an admitted client
// leaves at once, except every third, which stays for good (the list fills up and then refuses). hold > 0: every
// joiner keeps its last `hold` admitted clients in the list and lets the oldest go when it admits one more, so
// that the list stays near its capacity while clients keep coming and going.
func playerList(c *vm.Ctx, r *vm.Rand, capacity, J, rounds, hold int) {
	pl := server.NewPlayerList(capacity)
	var wg sync.WaitGroup
	var over int32
	var overSample, dupSample int32
	var stop int32
	var netJoined int64
	var sawMoreThan10, sawClamped int32
	var gateCalls, gateAdmits, gateRefusals int64
	for s := 0; s < 3; s++ {
		wg.Add(1)
		go func() {
			defer wg.Done()
			calls, admits, refusals := int64(0), int64(0), int64(0)
			defer func() {
				atomic.AddInt64(&gateCalls, calls)
				atomic.AddInt64(&gateAdmits, admits)
				atomic.AddInt64(&gateRefusals, refusals)
			}()
			for atomic.LoadInt32(&stop) == 0 {
				if n := pl.Len(); n > capacity {
					atomic.StoreInt32(&over, int32(n))
				}
				if n := pl.OnlinePlayer(); n > capacity {
					atomic.StoreInt32(&over, int32(n))
				}
				ss := pl.PlayerSamples()
				if n := len(ss); n > capacity {
					atomic.StoreInt32(&over, int32(n))
				} else if n > 10 {
					atomic.StoreInt32(&overSample, int32(n))
				}
				for i := range ss {
					for k := 0; k < i; k++ {
						if ss[i].ID == ss[k].ID || ss[i].Name == ss[k].Name {
							atomic.StoreInt32(&dupSample, 1)
						}
					}
				}
				cnt := 0
				pl.Range(func(server.PlayerListClient, server.PlayerSample) { cnt++ })
				if cnt > capacity {
					atomic.StoreInt32(&over, int32(cnt))
				}
				if cnt > 10 {
					atomic.StoreInt32(&sawMoreThan10, 1)
					if len(pl.PlayerSamples()) == 10 {
						atomic.StoreInt32(&sawClamped, 1)
					}
				}
				// the question the login gate asks before a client is let in: it reads the same count under the same
				// lock as ClientJoin (what it answers while others join and leave cannot be judged; that it may be
				// asked at any time without a data race is what the race detector judges)
				if ok, _ := pl.CheckPlayer("", uuid.Nil, 0); ok {
					admits++
				} else {
					refusals++
				}
				calls++
				runtime.Gosched()
			}
		}()
	}
	var jw sync.WaitGroup
	var refusedTwice int32
	var doubleJoins int64
	for j := 0; j < J; j++ {
		jw.Add(1)
		go func(j int) {
			defer jw.Done()
			var held []*plClient
			doubles := int64(0)
			defer func() { atomic.AddInt64(&doubleJoins, doubles) }()
			for k := 0; k < rounds; k++ {
				cl := &plClient{id: j*10000 + k}
				pl.ClientJoin(cl, plSample(cl.id))
				d := atomic.LoadInt32(&cl.disconnect)
				if d > 1 {
					atomic.StoreInt32(&refusedTwice, d)
				}
				if d == 0 {
					atomic.AddInt64(&netJoined, 1)
					if k%5 == 2 {
						// the client that is in joins once more: it is still ONE client in the list (accepted again or told
						// "full" - it counts itself -, it has one place, and one ClientLeft gives that place back)
						pl.ClientJoin(cl, plSample(cl.id))
						doubles++
					}
					runtime.Gosched()
					if hold > 0 {
						held = append(held, cl)
						if len(held) > hold {
							pl.ClientLeft(held[0])
							atomic.AddInt64(&netJoined, -1)
							held = held[1:]
						}
					} else if k%3 != 0 {
						pl.ClientLeft(cl)
						atomic.AddInt64(&netJoined, -1)
					}
				} else {
					pl.ClientLeft(cl) // leaving after a refusal must be harmless
				}
			}
		}(j)
	}
	jw.Wait()
	// everybody who joins or leaves has finished (the samplers only read): the gate's answer must now agree with the count
	finalOK, _ := pl.CheckPlayer("", uuid.Nil, 0)
	finalLen := pl.Len()
	atomic.StoreInt32(&stop, 1)
	wg.Wait()
	wit := map[string]any{"seed": c.Seed, "shard": c.Shard, "capacity": capacity, "joiners": J, "rounds": rounds, "hold": hold}
	c.EvalN(int64(J*rounds), vm.HashStr("pl", fmt.Sprint(capacity, J, rounds, hold, r.Uint64())), true)
	if o := atomic.LoadInt32(&over); o != 0 {
		c.Violation("playerlist/over-capacity", fmt.Sprintf("a sampler observed %d players on a list of capacity %d", o, capacity), wit)
		return
	}
	if o := atomic.LoadInt32(&overSample); o != 0 {
		c.Violation("playerlist/over-capacity", fmt.Sprintf("PlayerSamples returned %d entries while clients joined and left (a status sample holds at most 10)", o), wit)
		return
	}
	if atomic.LoadInt32(&dupSample) != 0 {
		c.Violation("playerlist/sample-holds-one-client-twice", "PlayerSamples returned the same client twice in one sample (every client joined under a name and id of its own)", wit)
		return
	}
	if atomic.LoadInt32(&refusedTwice) != 0 {
		c.Violation("playerlist/refusal-told-more-than-once", "a refused client was told so more than once", wit)
		return
	}
	if got := int64(pl.Len()); got != atomic.LoadInt64(&netJoined) {
		c.Violation("playerlist/final-count", fmt.Sprintf("final Len()=%d, accepted joins minus leaves = %d (%d clients joined a second time while they were in)", got, netJoined, doubleJoins), wit)
		return
	}
	if finalOK != (finalLen < capacity) {
		c.Violation("playerlist/check-player-disagrees-with-count", fmt.Sprintf("with nobody joining or leaving any more, CheckPlayer answered ok=%v on a list of capacity %d holding %d", finalOK, capacity, finalLen), wit)
		return
	}
	c.Cover("playerlist.ok")
	if capacity == 0 && finalLen == 0 && atomic.LoadInt64(&netJoined) == 0 {
		c.Cover("playerlist.capacity-0-admits-nobody")
	}
	if gateCalls > 0 {
		c.Cover("playerlist.check-player-next-to-joins")
		if gateAdmits > 0 && gateRefusals > 0 {
			c.Cover("playerlist.check-player-gave-both-answers")
		}
	}
	if doubleJoins > 0 {
		c.Cover("playerlist.same-client-joined-twice")
	}
	if atomic.LoadInt32(&sawMoreThan10) != 0 {
		c.Cover("playerlist.more-than-10-online-while-sampled")
		if atomic.LoadInt32(&sawClamped) != 0 {
			c.Cover("playerlist.samples-clamped-at-10")
		}
	}
}
