// C20, "the bounded queue refuses, rather than blocks, when full" with more than one producer at the full queue, and
// the bounded queue that has no room at all.
//
// fullQueue (main.go) fills a queue from one goroutine. Here several producers arrive at a queue that nobody drains, at
// the same time: a Push that looks for room first and sends afterwards finds room for one item twice and then waits
// for a consumer that does not exist. Every producer must come back (a producer that stays inside Push leaves every
// goroutine parked: the park watch reports it), exactly `capacity` pushes are accepted, a producer that was refused
// once is refused from then on (the queue only fills), and after Close exactly the accepted items come out, each once,
// every producer's in the order it pushed them, before closure is reported.
//
// NewChannelQueue(0) is a bounded queue too: it is full whenever no consumer is waiting inside Pull. Without a
// consumer it refuses everything (and does not block); with consumers, every item a producer gets accepted is handed
// to exactly one of them, and Close ends them all.
package main

import (
	"fmt"
	"sync"

	"github.com/Tnze/go-mc/net/queue"

	"verif/vm"
)

// capNoRoom as the capacity of a typedQueueKind: a bounded queue (refusals are legal) without any room of its own.
const capNoRoom = -1

func fullQueueConcurrent(c *vm.Ctx, r *vm.Rand, qk queueKind) {
	if qk.cap == 0 {
		return
	}
	q := qk.mk()
	P := r.Range(2, 8)
	per := qk.cap // each producer alone would fill the queue
	if r.Bool() {
		per = r.Range(1, qk.cap+2)
	}
	for P*per <= qk.cap {
		per++
	}
	accepted := make([][]uint32, P)
	refusedAt := make([]int, P) // sequence number of the first refusal, -1: none
	acceptedAfterRefusal := make([]int, P)
	var start, wg sync.WaitGroup
	start.Add(1)
	for p := 0; p < P; p++ {
		refusedAt[p], acceptedAfterRefusal[p] = -1, -1
		wg.Add(1)
		go func(p int) {
			defer wg.Done()
			start.Wait()
			for s := 0; s < per; s++ {
				v := uint32(p)<<24 | uint32(s)
				if q.Push(v) { // a Push that blocks stays here for ever: nobody pulls
					accepted[p] = append(accepted[p], v)
					if refusedAt[p] >= 0 && acceptedAfterRefusal[p] < 0 {
						acceptedAfterRefusal[p] = s
					}
				} else if refusedAt[p] < 0 {
					refusedAt[p] = s
				}
			}
		}(p)
	}
	start.Done()
	wg.Wait()
	wit := func() any {
		return map[string]any{"queue": qk.name, "capacity": qk.cap, "producers": P, "pushes_per_producer": per, "consumers": 0, "seed": c.Seed, "shard": c.Shard}
	}
	c.EvalN(int64(P*per), vm.HashStr("full-concurrent", qk.name, fmt.Sprint(P, per, c.Shard)), true)
	total := 0
	pushed := map[uint32]int{}
	for p := range accepted {
		total += len(accepted[p])
		for _, v := range accepted[p] {
			pushed[v]++
		}
		if acceptedAfterRefusal[p] >= 0 {
			c.Violation("full-concurrent/accepted-after-refusal/"+qk.name, fmt.Sprintf("producer %d was refused at its push number %d and accepted at number %d although nobody pulls", p, refusedAt[p], acceptedAfterRefusal[p]), wit())
			return
		}
	}
	if total != qk.cap {
		c.Violation("full-concurrent/accepted-count/"+qk.name, fmt.Sprintf("a queue of capacity %d that nobody drains accepted %d of the %d pushes of %d producers", qk.cap, total, P*per, P), wit())
		return
	}
	q.Close()
	last := map[uint32]int{}
	for i := 0; i < total; i++ {
		v, ok := q.Pull()
		if !ok {
			c.Violation("full-concurrent/closure-reported-before-remaining-items/"+qk.name, fmt.Sprintf("%d items were accepted; after Close, Pull number %d reported closure", total, i), wit())
			return
		}
		if pushed[v] != 1 {
			c.Violation("full-concurrent/exactly-once/"+qk.name, fmt.Sprintf("after Close, Pull number %d gave %#x, which was accepted %d times (or has been handed out before)", i, v, pushed[v]), wit())
			return
		}
		pushed[v]--
		p, s := v>>24, int(v&0xffffff)
		if l, seen := last[p]; seen && s <= l {
			c.Violation("full-concurrent/producer-order/"+qk.name, fmt.Sprintf("item %d of producer %d came out after its item %d", s, p, l), wit())
			return
		}
		last[p] = s
	}
	if v, ok := q.Pull(); ok {
		c.Violation("full-concurrent/closure-not-reported/"+qk.name, fmt.Sprintf("all %d accepted items have been handed out and the queue is closed; Pull gave (%#x, true)", total, v), wit())
		return
	}
	c.Cover("full.concurrent-producers-refused-not-blocked." + qk.name)
}

// rendezvous: the channel queue of capacity 0.
func rendezvous(c *vm.Ctx, r *vm.Rand) {
	const name = "channel(0)"
	mk := func() queue.Queue[uint32] { return queue.NewChannelQueue[uint32](0) }
	q := mk()
	for i := 0; i < 3; i++ {
		if q.Push(uint32(i)) { // blocks for ever if Push blocked: the park watch reports it
			c.Violation("full/accepted-count/"+name, "a queue of capacity 0 accepted an item although no consumer was waiting", map[string]any{"queue": name, "push_number": i})
			return
		}
	}
	q.Close()
	for i := 0; i < 2; i++ {
		if v, ok := q.Pull(); ok {
			c.Violation("full/closure-not-reported/"+name, fmt.Sprintf("an empty closed queue of capacity 0 gave (%d, true)", v), map[string]any{"queue": name})
			return
		}
	}
	c.EvalN(5, vm.HashStr("full", name), true)
	c.Cover("full.refuses-not-blocks." + name)
	// producers retry until a consumer is there to take the item; exactly-once, conservation, producer order, closure
	P, C, n := r.Range(1, 6), r.Range(1, 6), r.Range(1, 60)
	c.Inflight(fmt.Sprintf("typed-stress uint32 %s P=%d C=%d n=%d", name, P, C, n))
	typedStress(c, r, kindUint32(), typedQueueKind[uint32]{name, capNoRoom, mk}, P, C, n)
}

// boundedQueues: several producers at a full queue for the bounded kinds; in the slot of the unbounded one, the
// bounded queue without room.
func boundedQueues(c *vm.Ctx, r *vm.Rand, qk queueKind, i int) {
	if qk.cap == 0 {
		c.Inflight(fmt.Sprintf("rendezvous channel(0) #%d", i))
		rendezvous(c, r)
		return
	}
	c.Inflight(fmt.Sprintf("full-queue, several producers %s #%d", qk.name, i))
	for k := 0; k < c.Pick(200, 1000); k++ { // a run costs microseconds; the two producers must meet at the last free place
		fullQueueConcurrent(c, r, qk)
	}
}
