// C20, more independent instances for the workload in independent.go: an NBT encoder and an NBT decoder of one's own
// working through a stream of several documents (into an interface value, maps with interface, struct and pointer
// elements, the two carriers, a struct), and a connection of one's own with a cipher and a compression threshold of
// its own (the two settings applied in either order).
package main

import (
	"bytes"
	"crypto/aes"
	"crypto/cipher"
	"fmt"
	"net"
	"sort"
	"time"

	"github.com/Tnze/go-mc/nbt"
	"github.com/Tnze/go-mc/nbt/dynbt"
	mcnet "github.com/Tnze/go-mc/net"
	"github.com/Tnze/go-mc/net/CFB8"
	pk "github.com/Tnze/go-mc/net/packet"

	"verif/vm"
)

type indepLeaf struct {
	ID   int32    `nbt:"id"`
	Name string   `nbt:"name"`
	Tags []string `nbt:"tags"`
}

type indepPair struct {
	A indepLeaf `nbt:"a"`
	B indepLeaf `nbt:"b"`
}

type indepDoc struct {
	Seed   int64       `nbt:"seed"`
	Leaf   indepLeaf   `nbt:"leaf"`
	Leaves []indepLeaf `nbt:"leaves"`
	Bytes  []byte      `nbt:"bytes"`
	Ints   []int32     `nbt:"ints"`
	Longs  []int64     `nbt:"longs"`
	F      float32     `nbt:"f"`
	D      float64     `nbt:"d"`
	Pair   indepPair   `nbt:"pair"`
}

func indepMakeLeaf(r *vm.Rand, seed uint64) indepLeaf {
	l := indepLeaf{ID: int32(r.Intn(1 << 30)), Name: fmt.Sprintf("leaf-%d-%d", seed%100000, r.Intn(1000))}
	for i := r.Intn(4); i > 0; i-- {
		l.Tags = append(l.Tags, fmt.Sprint("t", r.Intn(100)))
	}
	if l.Tags == nil {
		l.Tags = []string{"none"}
	}
	return l
}

func indepMakeDoc(r *vm.Rand, seed uint64) indepDoc {
	d := indepDoc{Seed: int64(seed), Leaf: indepMakeLeaf(r, seed), Bytes: r.Bytes(r.Range(1, 300)), F: float32(r.Intn(1000)) / 8, D: float64(r.Intn(100000)) / 16,
		Pair: indepPair{indepMakeLeaf(r, seed), indepMakeLeaf(r, seed)}}
	for i := r.Range(1, 5); i > 0; i-- {
		d.Leaves = append(d.Leaves, indepMakeLeaf(r, seed))
	}
	for i := r.Range(1, 40); i > 0; i-- {
		d.Ints = append(d.Ints, int32(r.Uint64()))
		d.Longs = append(d.Longs, int64(r.Uint64()))
	}
	return d
}

// indepNBTStream: six documents written by one Encoder into one buffer, read back by one Decoder, each into another
// kind of receiver. The result holds the bytes written, everything decoded (maps rendered in key order) and what the
// carriers write back.
func indepNBTStream(seed uint64) string {
	r := vm.NewRand(seed)
	network := r.Bool()
	var buf bytes.Buffer
	enc := nbt.NewEncoder(&buf)
	enc.NetworkFormat(network)
	docs := make([]indepDoc, 6)
	ends := make([]int, len(docs))
	for i := range docs {
		docs[i] = indepMakeDoc(r, seed)
		name := ""
		if !network {
			name = fmt.Sprint("doc", i)
		}
		if err := enc.Encode(docs[i], name); err != nil {
			return "encode: " + err.Error()
		}
		ends[i] = buf.Len()
	}
	dec := nbt.NewDecoder(bytes.NewReader(buf.Bytes()))
	dec.NetworkFormat(network)
	var (
		asAny    any
		asMap    map[string]any
		asRaw    nbt.RawMessage
		asDyn    dynbt.Value
		asStruct indepDoc
		asTyped  struct {
			Seed int64                `nbt:"seed"`
			Pair map[string]indepLeaf `nbt:"pair"`
			Leaf *indepLeaf           `nbt:"leaf"`
			Ls   []*indepLeaf         `nbt:"leaves"`
			Raw  nbt.RawMessage       `nbt:"ints"`
		}
	)
	names := ""
	for i, v := range []any{&asAny, &asMap, &asRaw, &asDyn, &asStruct, &asTyped} {
		name, err := dec.Decode(v)
		if err != nil {
			return fmt.Sprintf("decode document %d: %v", i, err)
		}
		names += name + ","
	}
	var rawOut, dynOut bytes.Buffer
	if err := nbt.NewEncoder(&rawOut).Encode(asRaw, "r"); err != nil {
		return "re-encode RawMessage: " + err.Error()
	}
	if err := nbt.NewEncoder(&dynOut).Encode(&asDyn, "d"); err != nil {
		return "re-encode dynbt.Value: " + err.Error()
	}
	var pairKeys []string
	for k := range asTyped.Pair {
		pairKeys = append(pairKeys, k)
	}
	sort.Strings(pairKeys)
	typed := fmt.Sprintf("%d %+v %d:%x", asTyped.Seed, *asTyped.Leaf, asTyped.Raw.Type, asTyped.Raw.Data)
	for _, k := range pairKeys {
		typed += fmt.Sprintf(" %s=%+v", k, asTyped.Pair[k])
	}
	for _, l := range asTyped.Ls {
		typed += fmt.Sprintf(" %+v", *l)
	}
	return fmt.Sprintf("%x|%s|%v|%v|%x|%x|%+v|%s", vm.Hash64(buf.Bytes()), names, asAny, asMap, rawOut.Bytes(), vm.Hash64(dynOut.Bytes()), asStruct, typed)
}

// bufConn is a net.Conn over a buffer: what is written can be read back, nothing else happens.
type bufConn struct{ bytes.Buffer }

func (*bufConn) Close() error                     { return nil }
func (*bufConn) LocalAddr() net.Addr              { return nil }
func (*bufConn) RemoteAddr() net.Addr             { return nil }
func (*bufConn) SetDeadline(time.Time) error      { return nil }
func (*bufConn) SetReadDeadline(time.Time) error  { return nil }
func (*bufConn) SetWriteDeadline(time.Time) error { return nil }

// indepConn: packets written through a connection with a key and a threshold of its own, read back through a second
// connection on the same bytes. The result holds a hash of the bytes on the wire and whether every packet came back.
func indepConn(seed uint64) string {
	r := vm.NewRand(seed)
	key := r.Bytes(16)
	th := []int{-1, 0, 64, 256}[r.Intn(4)]
	stream := func(encrypt bool) cipher.Stream {
		blk, _ := aes.NewCipher(key)
		if encrypt {
			return CFB8.NewCFB8Encrypt(blk, key)
		}
		return CFB8.NewCFB8Decrypt(blk, key)
	}
	bc := &bufConn{}
	tx, rx := mcnet.WrapConn(bc), mcnet.WrapConn(bc)
	for _, conn := range []*mcnet.Conn{tx, rx} {
		if r.Bool() {
			conn.SetThreshold(th)
			conn.SetCipher(stream(true), stream(false))
		} else {
			conn.SetCipher(stream(true), stream(false))
			conn.SetThreshold(th)
		}
	}
	n := r.Range(3, 12)
	sent := make([]pk.Packet, n)
	for i := range sent {
		sent[i] = pk.Packet{ID: int32(r.Intn(300)), Data: r.Bytes([]int{0, 1, 63, 64, 65, 255, 256, 257, 1000, 5000}[r.Intn(10)])}
		if err := tx.WritePacket(sent[i]); err != nil {
			return "write: " + err.Error()
		}
	}
	wire := vm.Hash64(bc.Bytes())
	wireLen := bc.Len()
	oneDestination := r.Bool() // every packet read into the same packet value, or each into a fresh one
	var q pk.Packet
	for i := range sent {
		if !oneDestination {
			q = pk.Packet{}
		}
		if err := rx.ReadPacket(&q); err != nil {
			return fmt.Sprintf("read packet %d: %v", i, err)
		}
		if q.ID != sent[i].ID || !bytes.Equal(q.Data, sent[i].Data) {
			return fmt.Sprintf("packet %d of %d came back as another one (id %d, %d bytes; sent id %d, %d bytes)", i, n, q.ID, len(q.Data), sent[i].ID, len(sent[i].Data))
		}
	}
	return fmt.Sprintf("%x %d all %d packets back", wire, wireLen, n)
}

func indepMoreJobs() []indepJob {
	return []indepJob{
		{"nbt Encoder and Decoder of one's own on a stream of documents", indepNBTStream},
		{"connection of one's own with cipher and threshold", indepConn},
	}
}
