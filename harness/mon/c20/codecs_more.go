// C20, codec isolation: what the goroutines of the codecs workload do besides packing and unpacking packets of their
// own.
//
//   - the frame a goroutine's Pack wrote is read by an independent reader (refwire.ParseFrame) as well: it must be ONE
//     well-formed frame that ends where the written bytes end and carries this goroutine's id and payload. The
//     library's own UnPack stops after the declared length, so bytes of somebody else's frame behind it (or a form
//     only the library's reader forgives) would go unseen if it were the only judge.
//   - one packet packed by many goroutines at once, each to a writer and with a threshold of its own (a server
//     sending one packet to all its connections): packing reads the packet, it must not change it, nor the spare
//     capacity behind its payload.
//   - struct types of more shapes, first used by several goroutines at once: embedded structs (two of them, with one
//     member name in common), a nested struct, a pointer to a struct, a slice of structs, an omitempty member, a list
//     member; and two named types that have the same name (declared in two functions) but other members.
package main

import (
	"bytes"
	"fmt"
	"reflect"

	"github.com/Tnze/go-mc/nbt"
	pk "github.com/Tnze/go-mc/net/packet"

	"verif/ref/refwire"
	"verif/vm"
)

// judgeFrame reads what one Pack call wrote as an independent reader would; "" means: exactly one frame, to the last
// byte, with this id and payload.
func judgeFrame(frame []byte, th int, id int32, want []byte) string {
	fr, err := refwire.ParseFrame(frame, th)
	switch {
	case err != nil:
		return "an independent reader cannot read what Pack wrote: " + err.Error()
	case fr.Size != len(frame):
		return fmt.Sprintf("Pack wrote %d bytes, the frame at their front ends after %d", len(frame), fr.Size)
	case fr.ID != id:
		return fmt.Sprintf("the frame carries id %d, the packet packed had id %d", fr.ID, id)
	case !bytes.Equal(fr.Payload, want):
		return fmt.Sprintf("the frame carries %d payload bytes that are not the %d bytes of the packet packed", len(fr.Payload), len(want))
	}
	return ""
}

func mergeWit(a, b map[string]any) map[string]any {
	for k, v := range b {
		a[k] = v
	}
	return a
}

func frameWitness(frame []byte) map[string]any {
	return map[string]any{"written_bytes": len(frame), "written_hex": vm.Hex(frame)}
}

// ---------------------------------------------------------------------------
// one packet, many packers

const sharedTail = 64 // spare capacity behind the payload of a shared packet, filled with sharedTailByte
const sharedTailByte = 0xa5

type sharedPacket struct {
	p       pk.Packet // Data = backing[:n], capacity n+sharedTail
	want    []byte    // a copy of the payload nobody else holds
	id      int32
	backing []byte
}

func newSharedPackets(call int64) []sharedPacket {
	var out []sharedPacket
	for k, n := range []int{0, 7, 40, 300, 5000} {
		backing := make([]byte, n+sharedTail)
		copy(backing, payloadFor(1000+k, int(call), n))
		for i := n; i < len(backing); i++ {
			backing[i] = sharedTailByte
		}
		out = append(out, sharedPacket{p: pk.Packet{ID: int32(900 + k), Data: backing[:n]}, want: append([]byte{}, backing[:n]...), id: int32(900 + k), backing: backing})
	}
	return out
}

// unchanged is asked when every packer has returned.
func (s *sharedPacket) unchanged() string {
	if s.p.ID != s.id || len(s.p.Data) != len(s.want) || cap(s.p.Data) != len(s.backing) {
		return "its id or length changed"
	}
	if !bytes.Equal(s.backing[:len(s.want)], s.want) {
		return "its payload changed"
	}
	for i := len(s.want); i < len(s.backing); i++ {
		if s.backing[i] != sharedTailByte {
			return fmt.Sprintf("byte %d of the spare capacity behind its payload changed from %#x to %#x", i-len(s.want), sharedTailByte, s.backing[i])
		}
	}
	return ""
}

// ---------------------------------------------------------------------------
// struct types of more shapes

// CodecsBase and CodecsBase2 are embedded in every rich type. Their members "dup" hide each other (two members of one
// name at one depth, neither tagged differently): by the rule the library took from encoding/json neither is written
// or read; the workload leaves both zero, so either reading of that rule gives the same values back.
type CodecsBase struct {
	BaseG    int32  `nbt:"base_g"`
	BaseName string `nbt:"base_name"`
	Dup      int32  `nbt:"dup"`
}

type CodecsBase2 struct {
	Base2Seq int64 `nbt:"base2_seq"`
	Dup      int32 `nbt:"dup"`
}

// codecsRichTypes builds n struct types (and n inner ones) no earlier call has built: the tags carry the call number.
func codecsRichTypes(call int64, n int) (rich, inner []reflect.Type) {
	tInt32, tString := reflect.TypeOf(int32(0)), reflect.TypeOf("")
	tag := func(f string, a ...any) reflect.StructTag { return reflect.StructTag(fmt.Sprintf(f, a...)) }
	for i := 0; i < n; i++ {
		in := reflect.StructOf([]reflect.StructField{
			{Name: "A", Type: tInt32, Tag: tag(`nbt:"a%d_%d"`, call, i)},
			{Name: "B", Type: tString, Tag: `nbt:"b"`},
		})
		fs := []reflect.StructField{
			{Name: "CodecsBase", Type: reflect.TypeOf(CodecsBase{}), Anonymous: true},
			{Name: "CodecsBase2", Type: reflect.TypeOf(CodecsBase2{}), Anonymous: true},
			{Name: "Nest", Type: in, Tag: tag(`nbt:"nest%d_%d"`, call, i)},
			{Name: "Ptr", Type: reflect.PointerTo(in), Tag: `nbt:"ptr"`},
			{Name: "Many", Type: reflect.SliceOf(in), Tag: `nbt:"many"`},
			{Name: "Opt", Type: tInt32, Tag: `nbt:"opt,omitempty"`},
			{Name: "AsList", Type: reflect.TypeOf([]int32(nil)), Tag: `nbt:"aslist,list"`},
		}
		for j := 0; j < i%3; j++ {
			fs = append(fs, reflect.StructField{Name: fmt.Sprintf("X%d", j), Type: tInt32, Tag: tag(`nbt:"x%d_%d_%d"`, call, i, j)})
		}
		fs = append(fs, reflect.StructField{Name: "Tail", Type: tString, Tag: `nbt:"tail"`})
		rich = append(rich, reflect.StructOf(fs))
		inner = append(inner, in)
	}
	return rich, inner
}

// codecsFill gives every member a value derived from (g, seq) and its position; members named Dup stay zero, and the
// omitempty member is zero in every third value (it is then left out and read back as zero).
func codecsFill(v reflect.Value, g, seq int, n *int) {
	switch v.Kind() {
	case reflect.Int32, reflect.Int64:
		*n++
		v.SetInt(int64(g*100000 + seq*100 + *n))
	case reflect.String:
		*n++
		v.SetString(fmt.Sprintf("g%d-s%d-m%d", g, seq, *n))
	case reflect.Struct:
		for j := 0; j < v.NumField(); j++ {
			switch name := v.Type().Field(j).Name; {
			case name == "Dup":
			case name == "Opt" && seq%3 == 0:
			default:
				codecsFill(v.Field(j), g, seq, n)
			}
		}
	case reflect.Pointer:
		v.Set(reflect.New(v.Type().Elem()))
		codecsFill(v.Elem(), g, seq, n)
	case reflect.Slice:
		v.Set(reflect.MakeSlice(v.Type(), 2+seq%2, 2+seq%2))
		for j := 0; j < v.Len(); j++ {
			codecsFill(v.Index(j), g, seq, n)
		}
	}
}

// richRoundTrip encodes a value of t made for (g, seq) and decodes it into a fresh value; "" means equal.
func richRoundTrip(t reflect.Type, g, seq int) string {
	v := reflect.New(t).Elem()
	n := 0
	codecsFill(v, g, seq, &n)
	b, err := nbt.Marshal(v.Interface())
	if err != nil {
		return "Marshal: " + err.Error()
	}
	out := reflect.New(t)
	if err := nbt.Unmarshal(b, out.Interface()); err != nil {
		return "Unmarshal: " + err.Error()
	}
	if !reflect.DeepEqual(out.Elem().Interface(), v.Interface()) {
		return fmt.Sprintf("decoded %+v, encoded %+v", out.Elem().Interface(), v.Interface())
	}
	return ""
}

// Two types of one name: reflect gives both the name "rec" and the string "main.rec"; they are two types all the same.
func sameNameA(g, seq int) string {
	type rec struct {
		G    int32  `nbt:"g"`
		Text string `nbt:"text"`
	}
	v := rec{int32(g*1000 + seq), fmt.Sprint("a", g, "-", seq)}
	b, err := nbt.Marshal(v)
	var back rec
	if err == nil {
		err = nbt.Unmarshal(b, &back)
	}
	if err != nil || back != v {
		return fmt.Sprintf("first type named rec: err=%v decoded %+v, encoded %+v (%x)", err, back, v, b)
	}
	return ""
}

func sameNameB(g, seq int) string {
	type rec struct {
		Seq   int64   `nbt:"seq"`
		Longs []int64 `nbt:"longs"`
		G     string  `nbt:"g"`
	}
	v := rec{int64(seq), []int64{int64(g), int64(seq)}, fmt.Sprint("b", g)}
	b, err := nbt.Marshal(v)
	var back rec
	if err == nil {
		err = nbt.Unmarshal(b, &back)
	}
	if err != nil || !reflect.DeepEqual(back, v) {
		return fmt.Sprintf("second type named rec: err=%v decoded %+v, encoded %+v (%x)", err, back, v, b)
	}
	return ""
}
