package main

import (
	"bytes"
	"crypto/aes"
	"encoding/json"
	"fmt"
	"io"
	"sync"

	"github.com/Tnze/go-mc/chat"
	"github.com/Tnze/go-mc/level"
	"github.com/Tnze/go-mc/nbt"
	"github.com/Tnze/go-mc/net/CFB8"
	pk "github.com/Tnze/go-mc/net/packet"
	"github.com/Tnze/go-mc/offline"
	"github.com/Tnze/go-mc/save"
	"github.com/Tnze/go-mc/save/region"

	"verif/vm"
)

// independent: functions and objects that share nothing a caller can see - a name turned into a UUID, a text
// component rendered and encoded, an SNBT text converted, a bit storage and a paletted container of one's own, a
// VarInt written into one's own buffer - used by many goroutines at once, each on its own values. Every result is
// compared with what the same call gave when it ran alone beforehand; the race detector watches the rest. A package
// level scratch buffer or cache introduced behind any of these would show as a changed result or a reported race.

type indepJob struct {
	name string
	run  func(seed uint64) string
}

func indepJobs() []indepJob {
	return []indepJob{
		{"offline.NameToUUID", func(seed uint64) string {
			r := vm.NewRand(seed)
			out := ""
			for i := 0; i < 20; i++ {
				u := offline.NameToUUID(fmt.Sprintf("player_%d_%d", seed, r.Intn(1000)))
				out += fmt.Sprintf("%x;", u[:4])
			}
			return out
		}},
		{"chat render+json+nbt", func(seed uint64) string {
			r := vm.NewRand(seed)
			m := chat.Message{Text: fmt.Sprintf("§a%d§r text %d", seed, r.Intn(99)), Bold: true, Color: chat.Gold,
				Extra: []chat.Message{{Translate: "chat.type.text", With: []any{chat.Message{Text: fmt.Sprint("n", r.Intn(9))}, chat.Message{Text: "§lhello"}}}}}
			js, _ := json.Marshal(m)
			var back chat.Message
			_ = json.Unmarshal(js, &back)
			var b bytes.Buffer
			_, _ = m.WriteTo(&b)
			var viaNBT chat.Message
			_, _ = viaNBT.ReadFrom(bytes.NewReader(b.Bytes()))
			return m.ClearString() + "|" + m.String() + "|" + string(js) + "|" + back.ClearString() + "|" + viaNBT.ClearString() + fmt.Sprintf("|%x", b.Bytes())
		}},
		{"snbt both ways", func(seed uint64) string {
			r := vm.NewRand(seed)
			text := fmt.Sprintf(`{a:%db,list:[%d,%d,%d],s:"x%d",n:{f:%d.5f,l:[L;%dl,2l]}}`, r.Intn(100), r.Intn(9), r.Intn(9), r.Intn(9), seed%1000, r.Intn(50), r.Intn(1000))
			var b bytes.Buffer
			if err := nbt.NewEncoder(&b).Encode(nbt.StringifiedMessage(text), ""); err != nil {
				return "err:" + err.Error()
			}
			var back nbt.StringifiedMessage
			if _, err := nbt.NewDecoder(bytes.NewReader(b.Bytes())).Decode(&back); err != nil {
				return "err:" + err.Error()
			}
			return fmt.Sprintf("%x|%s", b.Bytes(), string(back))
		}},
		{"BitStorage of one's own", func(seed uint64) string {
			r := vm.NewRand(seed)
			b := r.Range(1, 16)
			s := level.NewBitStorage(b, 300, nil)
			for i := 0; i < 600; i++ {
				s.Set(r.Intn(300), r.Intn(1<<uint(b)))
			}
			var buf bytes.Buffer
			_, _ = s.WriteTo(&buf)
			return fmt.Sprintf("%x", vm.Hash64(buf.Bytes()))
		}},
		{"PaletteContainer of one's own", func(seed uint64) string {
			r := vm.NewRand(seed)
			pc := level.NewStatesPaletteContainer(4096, 0)
			k := []int{2, 17, 300}[r.Intn(3)]
			for i := 0; i < 900; i++ {
				pc.Set(r.Intn(4096), level.BlocksState(r.Intn(k)))
			}
			var buf bytes.Buffer
			_, _ = pc.WriteTo(&buf)
			back := level.NewStatesPaletteContainer(4096, 0)
			_, err := back.ReadFrom(bytes.NewReader(buf.Bytes()))
			sum := 0
			for i := 0; i < 4096; i += 7 {
				sum = sum*31 + int(back.Get(i))
			}
			return fmt.Sprintf("%x %v %d", vm.Hash64(buf.Bytes()), err, sum)
		}},
		{"chunk of one's own to the save form, to the wire and back", func(seed uint64) string {
			r := vm.NewRand(seed)
			ch := level.EmptyChunk(2)
			for i := 0; i < 300; i++ {
				ch.Sections[r.Intn(2)].SetBlock(r.Intn(4096), level.BlocksState(r.Intn(40)))
			}
			var s save.Chunk
			if err := level.ChunkToSave(ch, &s); err != nil {
				return "tosave:" + err.Error()
			}
			back, err := level.ChunkFromSave(&s)
			if err != nil {
				return "fromsave:" + err.Error()
			}
			var buf bytes.Buffer
			_, _ = back.WriteTo(&buf)
			names := ""
			for _, p := range s.Sections[0].BlockStates.Palette {
				names += p.Name + string(p.Properties.Data) + ";"
			}
			return fmt.Sprintf("%x %x", vm.Hash64(buf.Bytes()), vm.Hash64([]byte(names)))
		}},
		{"region file of one's own", func(seed uint64) string {
			r := vm.NewRand(seed)
			f := &memFile{}
			reg, err := region.CreateWriter(f)
			if err != nil {
				return "create:" + err.Error()
			}
			sum := uint64(0)
			for i := 0; i < 12; i++ {
				x, z := r.Intn(4), r.Intn(4)
				data := r.Bytes(r.Range(1, 9000))
				if err := reg.WriteSector(x, z, data); err != nil {
					return "write:" + err.Error()
				}
				got, err := reg.ReadSector(x, z)
				if err != nil || !bytes.Equal(got, data) {
					return fmt.Sprint("read differs ", err)
				}
				sum = sum*31 + vm.Hash64(got)
			}
			// timestamps are clock values: leave the second header sector out of the fingerprint
			return fmt.Sprintf("%x %x %d", sum, vm.Hash64(f.b[:4096]), len(f.b))
		}},
		{"CFB8 streams of one's own", func(seed uint64) string {
			r := vm.NewRand(seed)
			key := r.Bytes(16)
			blk, _ := aes.NewCipher(key)
			enc := CFB8.NewCFB8Encrypt(blk, key)
			blk2, _ := aes.NewCipher(key)
			dec := CFB8.NewCFB8Decrypt(blk2, key)
			out := ""
			for i := 0; i < 6; i++ {
				msg := r.Bytes(r.Range(1, 200))
				ct := make([]byte, len(msg))
				enc.XORKeyStream(ct, msg)
				pt := make([]byte, len(ct))
				dec.XORKeyStream(pt, ct)
				out += fmt.Sprintf("%x:%v;", vm.Hash64(ct), bytes.Equal(pt, msg))
			}
			return out
		}},
		{"VarInt / VarLong / fields into one's own buffer", func(seed uint64) string {
			r := vm.NewRand(seed)
			var buf bytes.Buffer
			for i := 0; i < 50; i++ {
				_, _ = pk.VarInt(int32(r.Uint64())).WriteTo(&buf)
				_, _ = pk.VarLong(int64(r.Uint64())).WriteTo(&buf)
				_, _ = pk.String(fmt.Sprint("s", r.Intn(1000))).WriteTo(&buf)
				_, _ = pk.Position{X: r.Intn(1000) - 500, Y: r.Intn(300), Z: r.Intn(1000) - 500}.WriteTo(&buf)
			}
			rd := bytes.NewReader(buf.Bytes())
			sum := int64(0)
			for i := 0; i < 50; i++ {
				var a pk.VarInt
				var b pk.VarLong
				var s pk.String
				var p pk.Position
				_, _ = a.ReadFrom(rd)
				_, _ = b.ReadFrom(rd)
				_, _ = s.ReadFrom(rd)
				_, _ = p.ReadFrom(rd)
				sum = sum*31 + int64(a) + int64(b) + int64(len(s)) + int64(p.X)
			}
			return fmt.Sprintf("%x %d", vm.Hash64(buf.Bytes()), sum)
		}},
	}
}

// memFile is a minimal in-memory io.ReadWriteSeeker.
type memFile struct {
	b   []byte
	pos int64
}

func (m *memFile) Read(p []byte) (int, error) {
	if m.pos >= int64(len(m.b)) {
		return 0, io.EOF
	}
	n := copy(p, m.b[m.pos:])
	m.pos += int64(n)
	return n, nil
}

func (m *memFile) Write(p []byte) (int, error) {
	if end := m.pos + int64(len(p)); end > int64(len(m.b)) {
		m.b = append(m.b, make([]byte, end-int64(len(m.b)))...)
	}
	copy(m.b[m.pos:], p)
	m.pos += int64(len(p))
	return len(p), nil
}

func (m *memFile) Seek(off int64, whence int) (int64, error) {
	switch whence {
	case io.SeekCurrent:
		off += m.pos
	case io.SeekEnd:
		off += int64(len(m.b))
	}
	m.pos = off
	return off, nil
}

func independent(c *vm.Ctx, r *vm.Rand, G, rounds int) {
	jobs := append(indepJobs(), indepMoreJobs()...)
	// alone first
	type key struct {
		job  int
		seed uint64
	}
	want := map[key]string{}
	seeds := make([][]uint64, G)
	for g := range seeds {
		for k := 0; k < rounds; k++ {
			sd := r.Uint64()
			seeds[g] = append(seeds[g], sd)
			j := (g + k) % len(jobs)
			var res string
			if c.Guard("independent/alone/"+jobs[j].name, func() any { return map[string]any{"job": jobs[j].name, "seed": sd} }, func() { res = jobs[j].run(sd) }) {
				return
			}
			want[key{j, sd}] = res
		}
	}
	var wg sync.WaitGroup
	var mu sync.Mutex
	var firstBad string
	var start sync.WaitGroup
	start.Add(1)
	for g := 0; g < G; g++ {
		wg.Add(1)
		go func(g int) {
			defer wg.Done()
			defer func() {
				if p := recover(); p != nil {
					mu.Lock()
					if firstBad == "" {
						firstBad = fmt.Sprint("panic: ", p)
					}
					mu.Unlock()
				}
			}()
			start.Wait()
			for k, sd := range seeds[g] {
				j := (g + k) % len(jobs)
				if got := jobs[j].run(sd); got != want[key{j, sd}] {
					mu.Lock()
					if firstBad == "" {
						firstBad = fmt.Sprintf("%s (seed %d) gave another result next to %d other goroutines than alone", jobs[j].name, sd, G-1)
					}
					mu.Unlock()
					return
				}
			}
		}(g)
	}
	start.Done()
	wg.Wait()
	c.EvalN(int64(G*rounds), vm.HashStr("independent", fmt.Sprint(G, rounds, r.Uint64())), true)
	if firstBad != "" {
		c.Violation("independent/result-differs-under-concurrency", firstBad, nil)
		return
	}
	c.Cover("independent.ok")
	for _, j := range jobs {
		c.Cover("independent.ok." + j.name)
	}
}
