// C20, queues of other item types and the end of a queue's life.
//
// The queues are generic; the bot uses them with pk.Packet. An item may be a value whose type has a "nothing" form
// (a nil interface value, a nil pointer, a zero packet): it is an item all the same and must be delivered exactly once,
// with ok == true. closeDrain is the deterministic end-of-life case for every queue kind (also the plain uint32 ones):
// k items pushed, Close, then the k items come out in order BEFORE closure is reported, closure is reported every time
// it is asked for, and a push that comes after Close is not accepted. typedStress is one producers/consumers/closer
// configuration per item type with the same linear checks as stress (exactly-once, conservation, producer order).
package main

import (
	"encoding/binary"
	"fmt"
	"runtime"
	"sync"

	pk "github.com/Tnze/go-mc/net/packet"
	"github.com/Tnze/go-mc/net/queue"

	"verif/vm"
)

const typedMaxN = 512 // items per producer (the identity tables of the pointer kinds have this many columns)
const typedMaxP = 9   // producers 0..7, and row 8 for closeDrain's late push

// typedKind describes items of type T that identify their (producer, sequence).
type typedKind[T any] struct {
	name  string
	enc   func(p, s int) T                                    // the item producer p pushes as its s-th
	blank func(s int) string                                  // "" or the name of the "nothing" form the s-th item has (it then carries no identity)
	dec   func(v T) (p, s int, blank string, recognised bool) // recognised == false: nobody pushed this
}

type typedQueueKind[T any] struct {
	name string
	cap  int
	mk   func() queue.Queue[T]
}

func typedQueueKinds[T any]() []typedQueueKind[T] {
	return []typedQueueKind[T]{
		{"linked", 0, func() queue.Queue[T] { return queue.NewLinkedQueue[T]() }},
		{"channel(8)", 8, func() queue.Queue[T] { return queue.NewChannelQueue[T](8) }},
	}
}

func kindUint32() typedKind[uint32] {
	return typedKind[uint32]{
		name:  "uint32",
		enc:   func(p, s int) uint32 { return uint32(p)<<24 | uint32(s) },
		blank: func(int) string { return "" },
		dec:   func(v uint32) (int, int, string, bool) { return int(v >> 24), int(v & 0xffffff), "", true },
	}
}

func typedPacket(p, s int) pk.Packet {
	d := make([]byte, 8)
	binary.BigEndian.PutUint32(d, uint32(p))
	binary.BigEndian.PutUint32(d[4:], uint32(s))
	return pk.Packet{ID: int32(p*100000 + s + 1), Data: d}
}

func typedPacketDec(v pk.Packet) (p, s int, ok bool) {
	if len(v.Data) != 8 {
		return 0, 0, false
	}
	p, s = int(binary.BigEndian.Uint32(v.Data)), int(binary.BigEndian.Uint32(v.Data[4:]))
	return p, s, p >= 0 && p < typedMaxP && s >= 0 && s < typedMaxN && v.ID == int32(p*100000+s+1)
}

func kindPacket() typedKind[pk.Packet] {
	blank := func(s int) string {
		if s%5 == 0 {
			return "zero-packet"
		}
		return ""
	}
	return typedKind[pk.Packet]{
		name:  "pk.Packet",
		blank: blank,
		enc: func(p, s int) pk.Packet {
			if blank(s) != "" {
				return pk.Packet{}
			}
			return typedPacket(p, s)
		},
		dec: func(v pk.Packet) (int, int, string, bool) {
			if v.ID == 0 && v.Data == nil {
				return 0, 0, "zero-packet", true
			}
			p, s, ok := typedPacketDec(v)
			return p, s, "", ok && blank(s) == ""
		},
	}
}

// kindPacketPtr: the pointer that comes out must be the very pointer that went in (row p is written by producer p
// alone before it pushes, and read only after everybody has finished).
func kindPacketPtr() typedKind[*pk.Packet] {
	var table [typedMaxP][typedMaxN]*pk.Packet
	blank := func(s int) string {
		if s%5 == 0 {
			return "nil-pointer"
		}
		return ""
	}
	return typedKind[*pk.Packet]{
		name:  "*pk.Packet",
		blank: blank,
		enc: func(p, s int) *pk.Packet {
			if blank(s) != "" {
				return nil
			}
			v := typedPacket(p, s)
			table[p][s] = &v
			return &v
		},
		dec: func(v *pk.Packet) (int, int, string, bool) {
			if v == nil {
				return 0, 0, "nil-pointer", true
			}
			p, s, ok := typedPacketDec(*v)
			return p, s, "", ok && blank(s) == "" && table[p][s] == v
		},
	}
}

type typedStruct struct{ P, S int }

// kindAny: a queue of interface values; the s-th item's dynamic type goes round nil interface, int, *uint32, struct,
// pk.Packet and a nil *uint32 (an interface value that holds a nil pointer is not a nil interface value).
func kindAny() typedKind[any] {
	var table [typedMaxP][typedMaxN]*uint32
	blank := func(s int) string {
		switch s % 6 {
		case 0:
			return "nil-interface"
		case 5:
			return "interface-holding-nil-pointer"
		}
		return ""
	}
	return typedKind[any]{
		name:  "any",
		blank: blank,
		enc: func(p, s int) any {
			switch s % 6 {
			case 0:
				return nil
			case 1:
				return p<<20 | s
			case 2:
				u := uint32(p<<20 | s)
				table[p][s] = &u
				return &u
			case 3:
				return typedStruct{p, s}
			case 4:
				return typedPacket(p, s)
			}
			return (*uint32)(nil)
		},
		dec: func(v any) (int, int, string, bool) {
			inRange := func(p, s int) bool { return p >= 0 && p < typedMaxP && s >= 0 && s < typedMaxN }
			switch x := v.(type) {
			case nil:
				return 0, 0, "nil-interface", true
			case int:
				p, s := x>>20, x&0xfffff
				return p, s, "", inRange(p, s) && s%6 == 1
			case *uint32:
				if x == nil {
					return 0, 0, "interface-holding-nil-pointer", true
				}
				p, s := int(*x>>20), int(*x&0xfffff)
				return p, s, "", inRange(p, s) && s%6 == 2 && table[p][s] == x
			case typedStruct:
				return x.P, x.S, "", inRange(x.P, x.S) && x.S%6 == 3
			case pk.Packet:
				p, s, ok := typedPacketDec(x)
				return p, s, "", ok && s%6 == 4
			}
			return 0, 0, "", false
		},
	}
}

// closeDrain: k items, Close, k items out in order, closure reported twice, a late push not accepted, closure again.
// Single goroutine: nothing here depends on a schedule. It reports whether the queue behaved.
func closeDrain[T any](c *vm.Ctx, tk typedKind[T], qk typedQueueKind[T], k int) bool {
	if qk.cap > 0 && k > qk.cap {
		k = qk.cap
	}
	if k > typedMaxN {
		k = typedMaxN
	}
	wit := func() any {
		return map[string]any{"item_type": tk.name, "queue": qk.name, "items_pushed_before_close": k,
			"steps": "push items (0,0)..(0,k-1); Close; Pull k times; Pull twice more; Push (8,0); Pull"}
	}
	sig := func(what string) string { return "close-drain/" + what + "/" + tk.name + "/" + qk.name }
	good := true
	fail := func(what, text string) {
		good = false
		c.Violation(sig(what), text, wit())
	}
	if c.Guard("close-drain/"+tk.name+"/"+qk.name, wit, func() {
		q := qk.mk()
		for s := 0; s < k; s++ {
			if !q.Push(tk.enc(0, s)) {
				fail("open-queue-with-room-refused", fmt.Sprintf("push number %d on an open queue holding %d items was refused", s, s))
				return
			}
		}
		q.Close()
		for s := 0; s < k; s++ {
			v, ok := q.Pull()
			if !ok {
				fail("closure-reported-before-remaining-items", fmt.Sprintf("%d items were in the queue at Close; Pull number %d reported closure", k, s))
				return
			}
			p, s2, blank, known := tk.dec(v)
			if !known || blank != tk.blank(s) || (blank == "" && (p != 0 || s2 != s)) {
				fail("remaining-item-differs", fmt.Sprintf("after Close, Pull number %d gave %v, not the item pushed as number %d (%v)", s, v, s, tk.enc(0, s)))
				return
			}
			if blank != "" {
				c.Cover("close-drain.nothing-valued-item-delivered." + tk.name + "." + qk.name)
			}
		}
		for i := 0; i < 2; i++ {
			if v, ok := q.Pull(); ok {
				fail("closure-not-reported", fmt.Sprintf("the queue is closed and all %d items have been handed out; Pull number %d after that gave (%v, true)", k, i+1, v))
				return
			}
		}
		// a push that comes after Close: refused, or (bare channel) a panic - not accepted either way
		accepted := false
		func() {
			defer func() { _ = recover() }()
			accepted = q.Push(tk.enc(typedMaxP-1, 0))
		}()
		if accepted {
			fail("push-accepted-after-closure-was-reported", "Push returned true on a queue that had already reported closure to its consumer")
			return
		}
		if v, ok := q.Pull(); ok {
			fail("item-after-closure-was-reported", fmt.Sprintf("after closure had been reported (and a later push not accepted) Pull gave (%v, true)", v))
			return
		}
	}) {
		return false
	}
	c.EvalN(int64(k+5), vm.HashStr("close-drain", tk.name, qk.name, fmt.Sprint(k)), true)
	if good {
		c.Cover("close-drain.ok." + tk.name + "." + qk.name)
		if k == 0 {
			c.Cover("close-drain.empty-at-close." + qk.name)
		}
	}
	return good
}

// typedStress: P producers push n items each (retrying when a bounded queue refuses), C consumers pull until closure
// is reported, the closer acts after the producers. Values are inspected only after everybody has returned.
func typedStress[T any](c *vm.Ctx, r *vm.Rand, tk typedKind[T], qk typedQueueKind[T], P, C, n int) {
	if n > typedMaxN {
		n = typedMaxN
	}
	q := qk.mk()
	pulled := make([][]T, C)
	pushedN := make([]int, P)
	refusedUnbounded := make([]bool, P)
	panics := make([]any, C)
	var prodWG, consWG sync.WaitGroup
	wit := func() any {
		return map[string]any{"item_type": tk.name, "queue": qk.name, "producers": P, "consumers": C, "items_per_producer": n, "seed": c.Seed, "shard": c.Shard}
	}
	sig := func(what string) string { return "typed-stress/" + what + "/" + tk.name + "/" + qk.name }
	for k := 0; k < C; k++ {
		consWG.Add(1)
		go func(k int) {
			defer consWG.Done()
			defer func() {
				// a Pull that panics (it holds the queue's lock then): said here; the others may stay blocked, which the
				// park watch then reports as well
				if p := recover(); p != nil {
					panics[k] = p
					c.Violation(sig("pull-panicked"), fmt.Sprint("Pull panicked: ", p), wit())
				}
			}()
			for {
				v, ok := q.Pull()
				if !ok {
					return
				}
				pulled[k] = append(pulled[k], v)
				c.Tick()
			}
		}(k)
	}
	for p := 0; p < P; p++ {
		prodWG.Add(1)
		go func(p int) {
			defer prodWG.Done()
			refusals := 0
			for s := 0; s < n; s++ {
				v := tk.enc(p, s)
				for !q.Push(v) {
					if qk.cap == 0 {
						refusedUnbounded[p] = true
						return
					}
					refusals++
					if refusals > 50000000 {
						return
					}
					runtime.Gosched() // a bounded queue refuses, it must not block
				}
				pushedN[p] = s + 1
			}
		}(p)
	}
	prodWG.Wait()
	q.Close()
	consWG.Wait()
	for _, p := range panics {
		if p != nil {
			return
		}
	}
	for p := range refusedUnbounded {
		if refusedUnbounded[p] {
			c.Violation(sig("unbounded-refused"), "the unbounded queue refused a push before Close", wit())
			return
		}
	}
	seen := map[[2]int]int{}
	gotBlank := map[string]int{}
	total := 0
	for k := range pulled {
		last := map[int]int{}
		for _, v := range pulled[k] {
			total++
			p, s, blank, known := tk.dec(v)
			if !known {
				c.Violation(sig("delivered-item-was-never-pushed"), fmt.Sprintf("consumer %d received %v, which no producer pushed (or not in this form)", k, v), wit())
				return
			}
			if blank != "" {
				gotBlank[blank]++
				continue
			}
			seen[[2]int{p, s}]++
			if l, ok := last[p]; ok && s <= l {
				c.Violation(sig("producer-order"), fmt.Sprintf("consumer %d received item %d of producer %d after item %d", k, s, p, l), wit())
				return
			}
			last[p] = s
		}
	}
	wantBlank := map[string]int{}
	accepted := 0
	for p := range pushedN {
		accepted += pushedN[p]
		for s := 0; s < pushedN[p]; s++ {
			if b := tk.blank(s); b != "" {
				wantBlank[b]++
			} else if seen[[2]int{p, s}] != 1 {
				c.Violation(sig("exactly-once"), fmt.Sprintf("item %d of producer %d, pushed once, was delivered %d times", s, p, seen[[2]int{p, s}]), wit())
				return
			}
		}
	}
	if total != accepted {
		c.Violation(sig("conservation"), fmt.Sprintf("%d items accepted, %d delivered before closure was reported", accepted, total), wit())
		return
	}
	for b, w := range wantBlank {
		if gotBlank[b] != w {
			c.Violation(sig("nothing-valued-items-lost-or-invented"), fmt.Sprintf("%d items of the form %q were pushed, %d were delivered", w, b, gotBlank[b]), wit())
			return
		}
	}
	c.EvalN(int64(accepted), vm.HashStr("typed-stress", tk.name, qk.name, fmt.Sprint(P, C, n, r.Uint64())), true)
	c.Cover("typed-stress.ok." + tk.name + "." + qk.name)
	if len(wantBlank) > 0 {
		c.Cover("typed-stress.nothing-valued-items-delivered." + tk.name + "." + qk.name)
	}
}

// typedQueues runs one (item type, queue kind) combination chosen by i: the deterministic end-of-life case first, the
// concurrent configuration only if that went well (a Pull that panics keeps the queue's lock).
func typedQueues(c *vm.Ctx, r *vm.Rand, i int) {
	P, C, n := r.Range(1, 8), r.Range(1, 8), r.Range(1, 300)
	k := []int{0, 1, r.Range(2, 40)}[(i+c.Shard)%3]
	switch i % 6 {
	case 0, 1:
		typedQueuesOf(c, r, kindAny(), typedQueueKinds[any]()[i%2], k, P, C, n)
	case 2, 3:
		typedQueuesOf(c, r, kindPacket(), typedQueueKinds[pk.Packet]()[i%2], k, P, C, n)
	default:
		typedQueuesOf(c, r, kindPacketPtr(), typedQueueKinds[*pk.Packet]()[i%2], k, P, C, n)
	}
	// the end-of-life case for the plain uint32 queues of every kind (the bounded ones take at most their capacity)
	qk := queueKinds[i%len(queueKinds)]
	c.Inflight(fmt.Sprintf("close-drain uint32 %s k=%d", qk.name, k))
	closeDrain(c, kindUint32(), typedQueueKind[uint32]{qk.name, qk.cap, qk.mk}, k)
}

func typedQueuesOf[T any](c *vm.Ctx, r *vm.Rand, tk typedKind[T], qk typedQueueKind[T], k, P, C, n int) {
	c.Inflight(fmt.Sprintf("close-drain %s %s k=%d", tk.name, qk.name, k))
	if !closeDrain(c, tk, qk, k) {
		return
	}
	c.Inflight(fmt.Sprintf("typed-stress %s %s P=%d C=%d n=%d", tk.name, qk.name, P, C, n))
	typedStress(c, r, tk, qk, P, C, n)
}
