// C08, additions of the second blind-spot review: element counts that do not fit a 32-bit int; declared byte
// counts read into large used destinations; the length prefixes of a whole chunk (with light arrays present);
// self-consistent encodings of the wrong size, which must be errors; text components in JSON form nested deeply;
// the decoder table and the command dispatcher used from several goroutines at once.
package main

import (
	"bytes"
	"context"
	"encoding/json"
	"fmt"
	"strconv"
	"strings"
	"sync"

	"github.com/Tnze/go-mc/chat"
	"github.com/Tnze/go-mc/level"
	pk "github.com/Tnze/go-mc/net/packet"

	"verif/ref/refnbt"
	"verif/ref/refwire"
	"verif/vm"
)


// ---- element counts of 2^31 and more (Ary counted by a Long or a VarLong)

// wideCounts: an array whose count is 2^31, 2^32, 2^32+k (k = the number of elements that do follow) or 2^63-1
// declares far more elements than the input holds: an error, whatever the width of the platform's int.
func wideCounts(c *vm.Ctx) {
	elems := wbuf(pk.ByteArray{1, 2}, pk.ByteArray{3}, pk.ByteArray{})
	for _, n := range []int64{1 << 31, 1<<31 + 3, 1 << 32, 1<<32 + 1, 1<<32 + 3, 1 << 33, 1<<40 + 3, 1<<63 - 1} {
		for _, kind := range []string{"Ary[Long]ofByteArray", "Ary[VarLong]ofByteArray"} {
			var in []byte
			var run func(in []byte, v *[]pk.ByteArray) error
			if kind == "Ary[Long]ofByteArray" {
				in = append(wbuf(pk.Long(n)), elems...)
				run = func(in []byte, v *[]pk.ByteArray) error {
					_, err := pk.Ary[pk.Long]{Ary: v}.ReadFrom(rd(in))
					return err
				}
			} else {
				in = append(refwire.EncVarLong(n), elems...)
				run = func(in []byte, v *[]pk.ByteArray) error {
					_, err := pk.Ary[pk.VarLong]{Ary: v}.ReadFrom(rd(in))
					return err
				}
			}
			var v []pk.ByteArray
			var err error
			wit := func() any {
				return map[string]any{"decoder": kind, "declared_count": n, "elements_present": 3, "input_hex": vm.Hex(in), "int_bits": strconv.IntSize}
			}
			c.Inflight(fmt.Sprintf("wide count %s %d", kind, n))
			if c.Guard("decode/wide-count", wit, func() { err = run(in, &v) }) {
				continue
			}
			c.Eval(vm.HashStr("wide-count", kind, fmt.Sprint(n)), true)
			if err == nil {
				c.Violation("decode/"+kind+"/hostile-array-count-accepted/does-not-fit-int", fmt.Sprintf("an element count of %d with 3 elements present was reported as success (%d elements decoded)", n, len(v)), wit())
				continue
			}
			c.Cover("wide-count.rejected")
		}
	}
}

// ---- declared byte counts into destinations that are already large

// usedBigDestinations: ByteArray.ReadFrom keeps the destination's buffer; a destination of more than one growth
// step (64 KiB) that is still smaller than the declared length takes the branch that re-slices the old buffer
// inside the growth loop. Packet.UnPack keeps Packet.Data likewise.
func usedBigDestinations(c *vm.Ctx) {
	body := make([]byte, 1<<20)
	for i := range body {
		body[i] = 'a' + byte(i%11)
	}
	for _, capN := range []int{65537, 70000, 131072, 300000} {
		for _, n := range []int{capN - 1, capN, capN + 1, capN + 65536, 2*capN + 1, 3 * capN, 1 << 20} {
			full := append(refwire.EncVarInt(int32(n)), body[:n]...)
			for _, present := range []int{len(full), len(full) - 1, capN + 2, capN / 2, 65536 + 3} {
				if present > len(full) || present < 4 {
					continue
				}
				in := full[:present]
				for _, via := range []string{"ByteArray", "Ary[VarInt]ofByteArray(element buffers kept)", "Packet.UnPack(threshold=-1)", "Packet.UnPack(threshold=0)"} {
					wit := func() any {
						return map[string]any{"decoder": via, "destination_len": 10, "destination_cap": capN, "declared_bytes": n, "bytes_present": present - len(refwire.EncVarInt(int32(n)))}
					}
					c.Inflight(fmt.Sprintf("used big destination %s cap=%d declared=%d present=%d", via, capN, n, present))
					var err error
					truncated := present < len(full)
					if c.Guard("decode/used-big-destination/"+via, wit, func() {
						switch via {
						case "ByteArray":
							v := pk.ByteArray(make([]byte, 10, capN))
							_, err = v.ReadFrom(rd(in))
						case "Ary[VarInt]ofByteArray(element buffers kept)":
							v := make([]pk.ByteArray, 0, 2)
							v = append(v, make([]byte, 10, capN))[:0]
							_, err = pk.Array(&v).ReadFrom(rd(append([]byte{1}, in...)))
						default:
							// the same bytes as a frame: length, id 5, data (threshold 0: an uncompressed frame of the compression layer)
							th, frame := -1, append(refwire.EncVarInt(int32(n+1)), 5)
							if via == "Packet.UnPack(threshold=0)" {
								th, frame = 0, append(refwire.EncVarInt(int32(n+2)), 0, 5)
							}
							frame = append(frame, body[:n]...)
							if truncated {
								frame = frame[:len(frame)-(len(full)-present)]
							}
							p := pk.Packet{Data: make([]byte, 10, capN)}
							err = p.UnPack(rd(frame), th)
						}
					}) {
						continue
					}
					c.Eval(vm.HashStr("used-big-destination", via, fmt.Sprint(capN, n, present)), true)
					switch {
					case err == nil && truncated:
						c.Violation("decode/used-big-destination-truncated-accepted/"+via, fmt.Sprintf("%s declared %d bytes, fewer were present, and it decoded without error into a destination of capacity %d", via, n, capN), wit())
					case err == nil:
						c.Cover("used-big-destination.accepted")
					default:
						c.Cover("used-big-destination.rejected")
					}
				}
			}
		}
	}
}

// ---- the length prefixes of a whole chunk

// chunkPrefixes walks an encoded chunk (height-map NBT, data size, block entities, four light masks, two light
// arrays) and returns the offset of every length prefix in it.
func chunkPrefixes(b []byte) (ps []prefix, ok bool) {
	_, _, off, perr := refnbt.Parse(b, true)
	if perr != nil {
		return nil, false
	}
	varint := func() (int, bool) {
		if off > len(b) {
			return 0, false
		}
		v, n, err := refwire.DecVarInt(b[off:])
		if err != nil || v < 0 {
			return 0, false
		}
		off += n
		return int(v), true
	}
	ps = append(ps, prefix{off, "chunk-data-size"})
	size, ok1 := varint()
	if !ok1 {
		return nil, false
	}
	off += size
	ps = append(ps, prefix{off, "chunk-block-entity-count"})
	nbe, ok2 := varint()
	if !ok2 {
		return nil, false
	}
	for i := 0; i < nbe; i++ {
		off += 3
		if _, ok := varint(); !ok {
			return nil, false
		}
		if off > len(b) {
			return nil, false
		}
		_, _, n, perr := refnbt.Parse(b[off:], true)
		if perr != nil {
			return nil, false
		}
		off += n
	}
	for i := 0; i < 4; i++ {
		ps = append(ps, prefix{off, "chunk-light-mask-length"})
		n, ok := varint()
		if !ok {
			return nil, false
		}
		off += 8 * n
	}
	for i := 0; i < 2; i++ {
		ps = append(ps, prefix{off, "chunk-light-array-count"})
		n, ok := varint()
		if !ok {
			return nil, false
		}
		for j := 0; j < n; j++ {
			ps = append(ps, prefix{off, "chunk-light-array-length"})
			m, ok := varint()
			if !ok {
				return nil, false
			}
			off += m
		}
	}
	if off != len(b) {
		return nil, false
	}
	return ps, true
}

// litChunk: buildChunk, and in two of three chunks sky and/or block light for some sections (the light arrays of
// the encoding then have elements).
func litChunk(r *vm.Rand, secs int) *level.Chunk {
	ch := buildChunk(r, secs)
	if r.Intn(3) == 0 {
		return ch
	}
	for k := r.Range(1, 2); k > 0; k-- {
		s := &ch.Sections[r.Intn(secs)]
		if r.Bool() {
			s.SkyLight = r.Bytes(2048)
		}
		if r.Bool() || s.SkyLight == nil {
			s.BlockLight = bytes.Repeat([]byte{byte(r.Intn(256))}, 2048)
		}
	}
	coverHook("gen.chunk.with-light-arrays")
	return ch
}

// genChunkWithPrefixes is the generator of the Chunk.ReadFrom entries.
func genChunkWithPrefixes(r *vm.Rand, secs int) ([]byte, []prefix) {
	w := wbuf(litChunk(r, secs))
	ps, ok := chunkPrefixes(w)
	if !ok {
		coverHook("gen.chunk.prefixes-not-located") // never expected; the entry then runs without the must-error oracle
		return w, nil
	}
	return w, ps
}

// ---- self-consistent encodings of the wrong size: errors

// wrongSizedBitStorage: a data array that parses cleanly (count, then that many longs) but whose count is not what
// `length` values of `bits` bits take: ReadFrom followed by Fix(bits) - what the containers do - must report it.
func wrongSizedBitStorage(c *vm.Ctx, r *vm.Rand) {
	bits := []int{1, 4, 5, 9, 15, 32, 64}[r.Intn(7)]
	length := []int{1, 64, 256, 4096}[r.Intn(4)]
	per := 64 / bits
	expected := (length + per - 1) / per
	for _, n := range []int{0, 1, expected - 1, expected + 1, 2 * expected, expected} {
		if n < 0 {
			continue
		}
		in := append(refwire.EncVarInt(int32(n)), r.Bytes(8*n)...)
		for _, used := range []bool{false, true} {
			bs := level.NewBitStorage(bits, length, nil)
			if used {
				bs = level.NewBitStorage([]int{2, 7, 16}[r.Intn(3)], length, nil)
			}
			var rerr, ferr error
			wit := func() any {
				return map[string]any{"bits": bits, "values": length, "longs_expected": expected, "longs_sent": n, "receiver_was_made_for_another_width": used, "input_hex": vm.Hex(in[:min(len(in), 64)])}
			}
			c.Inflight(fmt.Sprintf("wrong-sized bit storage bits=%d length=%d longs=%d", bits, length, n))
			if c.Guard("decode/wrong-sized-bit-storage", wit, func() {
				if _, rerr = bs.ReadFrom(rd(in)); rerr == nil {
					ferr = bs.Fix(bits)
				}
			}) {
				continue
			}
			c.Eval(vm.HashStr("wrong-sized-bs", fmt.Sprint(bits, length, n, used)), true)
			switch {
			case n != expected && rerr == nil && ferr == nil:
				c.Violation("decode/inconsistent-size-accepted/bit-storage", fmt.Sprintf("a data array of %d longs for %d values of %d bits (%d longs) passed ReadFrom and Fix", n, length, bits, expected), wit())
			case n != expected:
				c.Cover("sizes.bit-storage.wrong-size-rejected")
			case rerr == nil && ferr == nil:
				c.Cover("sizes.bit-storage.right-size-accepted")
			}
		}
	}
}

// ---- text components in JSON form, nested deeply

// jsonNesting: every level of "extra", "with", a bare array or hoverEvent contents is decoded by a new call of
// Message.UnmarshalJSON on the raw text of that level. Depths on both sides of the JSON package's own limit
// (10000) and far beyond it, through each carrier, as a JSON chat packet field and through json.Unmarshal.
func jsonNesting(c *vm.Ctx) {
	type carrier struct {
		name        string
		open, close string
		depths      []int // the JSON package's limit counts brackets: a level of the object carriers has two, of "mixed" five
	}
	// decoding is quadratic in the depth (every level re-scans what is below it): the depths just below the limit
	// cost 2..4 CPU-seconds each and are left to the thorough tier
	carriers := []carrier{
		{"array", `[`, `]`, []int{1, 64, 3000, 10001, 200000}},
		{"extra", `{"text":"t","extra":[`, `]}`, []int{1, 64, 1000, 5001, 80000}},
		{"with", `{"translate":"%s","with":[`, `]}`, []int{1, 64, 600, 5001, 70000}},
		{"hover-contents", `{"text":"t","hoverEvent":{"action":"show_text","contents":`, `}}`, []int{1, 64, 4999, 5001, 30000}},
		{"mixed", `[{"translate":"%s","with":[{"text":"t","extra":[`, `]}]}]`, []int{1, 64, 400, 2001, 30000}},
	}
	if c.Thorough() {
		carriers[0].depths = append(carriers[0].depths, 9999)
		carriers[1].depths = append(carriers[1].depths, 4999)
		carriers[4].depths = append(carriers[4].depths, 1999)
	}
	for _, cr := range carriers {
		for _, depth := range cr.depths {
			doc := strings.Repeat(cr.open, depth) + `"x"` + strings.Repeat(cr.close, depth)
			if len(doc) > 2<<20 {
				continue // does not fit into a frame
			}
			wit := func() any {
				return map[string]any{"carrier": cr.name, "levels": depth, "document_bytes": len(doc), "document": "levels x " + cr.open + ` "x" levels x ` + cr.close}
			}
			for _, via := range []string{"chat.JsonMessage.ReadFrom", "json.Unmarshal(chat.Message)"} {
				c.Inflight(fmt.Sprintf("json nesting %s depth=%d via %s", cr.name, depth, via))
				var err error
				if c.Guard("decode/json-nesting/"+via, wit, func() {
					var m chat.Message
					if via == "chat.JsonMessage.ReadFrom" {
						_, err = (*chat.JsonMessage)(&m).ReadFrom(rd(wbuf(pk.String(doc))))
					} else {
						err = json.Unmarshal([]byte(doc), &m)
					}
					if err == nil {
						_ = m.ClearString()
						_ = m.String()
					}
				}) {
					continue
				}
				c.Eval(vm.HashStr("json-nesting", cr.name, via, fmt.Sprint(depth)), true)
				if err == nil {
					c.Cover("json-nesting.accepted")
				} else {
					c.Cover("json-nesting.rejected")
				}
			}
		}
	}
}

// ---- several goroutines at once

// concurrentDecoders: every decoder of the table, from `workers` goroutines at the same time, each with receivers
// and inputs of its own (a server decodes for many connections at once; a bot and a server may share a process).
// Each goroutine walks the table from another starting point and runs, per decoder: the valid encoding (must be
// accepted unless the entry is lenient), each known prefix with a negative and a too-large value (must be
// errors), truncations and hostile VarInts (a value or an error). Nothing is shared but the library: the inputs
// are generated beforehand, one list per goroutine.
func concurrentDecoders(c *vm.Ctx, es []entry, seed *vm.Rand, rounds int) {
	const workers = 8
	type job struct {
		e        *entry
		valid    []byte
		prefixes []prefix
	}
	jobs := make([][]job, workers)
	rands := make([]*vm.Rand, workers)
	for w := range jobs {
		rands[w] = seed.Fork()
		for round := 0; round < rounds; round++ {
			for k := range es {
				e := &es[(k+w*7+round)%len(es)]
				if e.dec == nil || strings.HasPrefix(e.name, "Registry[") {
					continue // the registry entries share one codec object per run: not unrelated values
				}
				if strings.HasPrefix(e.name, "Chunk.") && !strings.Contains(e.name, "(1 sections)") && (round+w)%4 != 0 {
					continue
				}
				valid, prefixes := e.gen(seed)
				jobs[w] = append(jobs[w], job{e, valid, prefixes})
			}
		}
	}
	var wg sync.WaitGroup
	for w := 0; w < workers; w++ {
		wg.Add(1)
		go func(w int) {
			defer wg.Done()
			r := rands[w]
			for _, j := range jobs[w] {
				e, valid := j.e, j.valid
				f := e.dec()
				run := func(in []byte, origin string) (err error, pan bool) {
					pan = c.Guard("decode/concurrent", func() any {
						return map[string]any{"decoder": e.name, "origin": origin, "input_hex": vm.Hex(in), "goroutines": workers, "note": "other goroutines were decoding unrelated inputs into receivers of their own"}
					}, func() { err = f(bytes.NewReader(in)) })
					c.Tick()
					c.Eval(0, false)
					return
				}
				err, pan := run(valid, "valid")
				if pan {
					continue
				}
				if err != nil && !e.lenient {
					c.Violation("decode/"+e.name+"/valid-input-rejected/concurrent", "with other goroutines decoding unrelated inputs, the decoder rejects an encoding the library itself produced: "+err.Error(),
						map[string]any{"decoder": e.name, "input_hex": vm.Hex(valid), "goroutines": workers})
					continue
				}
				for _, p := range j.prefixes {
					_, plen, derr := refwire.DecVarInt(valid[p.off:])
					if derr != nil {
						continue
					}
					remaining := len(valid) - p.off - plen
					for _, h := range []int32{-1, int32(remaining + 1)} {
						in := append(append(append([]byte{}, valid[:p.off]...), refwire.EncVarInt(h)...), valid[p.off+plen:]...)
						f = e.dec()
						if err, pan := run(in, fmt.Sprintf("%s=%d", p.kind, h)); !pan && err == nil {
							c.Violation("decode/"+e.name+"/hostile-"+p.kind+"-accepted/concurrent", fmt.Sprintf("with other goroutines decoding unrelated inputs, %s = %d (remaining input %d bytes) was reported as success", p.kind, h, remaining),
								map[string]any{"decoder": e.name, "input_hex": vm.Hex(in), "goroutines": workers})
						}
					}
				}
				for k := 0; k < 6 && len(valid) > 0; k++ {
					f = e.dec()
					run(valid[:r.Intn(len(valid))], "truncated")
					off := r.Intn(len(valid))
					in := append(append(append([]byte{}, valid[:off]...), refwire.EncVarInt(hostile[r.Intn(len(hostile))])...), valid[min(off+1, len(valid)):]...)
					run(in, "hostile-varint")
				}
			}
		}(w)
	}
	wg.Wait()
	c.Cover("concurrent.decoders")
}

// concurrentCommands: one graph, command lines from several goroutines at once (every player's chat goes through
// the same dispatcher): a value or an error for each of them.
func concurrentCommands(c *vm.Ctx, r *vm.Rand) {
	const workers = 6
	g, words := buildGraph(r, true, func(int) {})
	alpha := []byte("ab \t\"\\")
	lines := make([][]string, workers)
	for w := range lines {
		for i := 0; i < 120; i++ {
			var b []byte
			for k := r.Intn(8); k > 0; k-- {
				b = append(b, alpha[r.Intn(len(alpha))])
			}
			lines[w] = append(lines[w], string(b))
		}
	}
	var wg sync.WaitGroup
	for w := 0; w < workers; w++ {
		wg.Add(1)
		go func(w int) {
			defer wg.Done()
			for _, line := range lines[w] {
				c.Guard("command/Execute/concurrent", func() any { return map[string]any{"line": line, "graph_words": words, "goroutines": workers} }, func() {
					_ = g.Execute(context.Background(), line)
				})
				c.Tick()
				c.Eval(0, false)
			}
		}(w)
	}
	wg.Wait()
	c.Cover("concurrent.commands")
}

// concurrentFrames: the frame reader keeps its scratch buffers in package-level pools. Several goroutines unpack
// frames of their own at once (both forms of the compression layer and plain frames, built by the reference
// writer): a well-formed frame must not be refused, a frame whose data length disagrees with its stream or whose
// end is missing must be, and nothing may panic.
func concurrentFrames(c *vm.Ctx, r *vm.Rand) {
	const workers = 8
	type frame struct {
		th      int
		in      []byte
		mustErr string // "" = well-formed
	}
	sets := make([][]frame, workers)
	for w := range sets {
		for k := 0; k < 24; k++ {
			th := []int{-1, 0, 64, 256}[r.Intn(4)]
			payload := r.Bytes([]int{0, 1, 63, 64, 300, 5000, 70000}[r.Intn(7)])
			if r.Bool() {
				for i := range payload {
					payload[i] = byte(w*31 + i%7) // compressible, and different per goroutine
				}
			}
			id := int32(r.Intn(300))
			compress := th >= 0 && len(refwire.EncVarInt(id))+len(payload) >= th
			good := refwire.BuildFrame(id, payload, th, compress, 6)
			sets[w] = append(sets[w], frame{th, good, ""})
			if len(good) > 2 {
				sets[w] = append(sets[w], frame{th, good[:len(good)-1-r.Intn(len(good)-2)], "truncated"})
			}
			if compress {
				// the same stream under a data length one larger
				_, k1, _ := refwire.DecVarInt(good)
				dl, k2, _ := refwire.DecVarInt(good[k1:])
				z := good[k1+k2:]
				dlb := refwire.EncVarInt(dl + 1)
				sets[w] = append(sets[w], frame{th, refwire.RawFrame(int32(len(dlb)+len(z)), dlb, z), "data-length-larger-than-inflated"})
			}
		}
	}
	var wg sync.WaitGroup
	for w := 0; w < workers; w++ {
		wg.Add(1)
		go func(w int) {
			defer wg.Done()
			var p pk.Packet // one packet per goroutine, reused as a connection does
			for pass := 0; pass < 3; pass++ {
				for _, f := range sets[w] {
					var err error
					wit := func() any {
						return map[string]any{"threshold": f.th, "frame_hex": vm.Hex(f.in[:min(len(f.in), 600)]), "frame_len": len(f.in), "expected": map[bool]string{true: "accepted", false: "refused: " + f.mustErr}[f.mustErr == ""],
							"goroutines": workers, "note": "other goroutines were unpacking frames of their own"}
					}
					if c.Guard("decode/concurrent-frames", wit, func() { err = p.UnPack(bytes.NewReader(f.in), f.th) }) {
						continue
					}
					c.Tick()
					c.Eval(0, false)
					switch {
					case f.mustErr == "" && err != nil:
						c.Violation("decode/Packet.UnPack/valid-input-rejected/concurrent", "with other goroutines unpacking frames of their own, a well-formed frame was refused: "+err.Error(), wit())
					case f.mustErr != "" && err == nil:
						c.Violation("decode/Packet.UnPack/hostile-frame-accepted/concurrent/"+f.mustErr, "with other goroutines unpacking frames of their own, an inconsistent frame was reported as success", wit())
					}
				}
			}
		}(w)
	}
	wg.Wait()
	c.Cover("concurrent.frames")
}
