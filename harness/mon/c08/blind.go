// C08, additions after the blind-spot review: receivers that already hold a decoded value and sources that are
// plain io.Readers; bit storages of several widths; text components of every shape the decoders branch on;
// must-error fixed-width array counts.
package main

import (
	"bytes"
	"fmt"
	"io"
	"os"
	"strings"
	"time"

	"github.com/Tnze/go-mc/level"

	"verif/inject"
	"verif/ref/refnbt"
	"verif/ref/refwire"
	"verif/vm"
)

// coverHook lets the generators (which have no Ctx) record which form of input they produced.
var coverHook = func(string) {}

// shapeSeq walks through the hand-built shapes in turn (started at a shard-dependent offset by run), so that a
// run of a few dozen draws has seen every one of them.
var shapeSeq, jsonShapeSeq int

func nextShape(seq *int, n int) int { *seq++; return *seq % n }

// ---- BitStorage.ReadFrom+Fix at several widths and lengths, into fresh and used storages

var (
	bsBits = []int{0, 1, 4, 5, 15, 32, 64, 9}
	bsLens = []int{0, 1, 64, 256, 4096}
)

// bsConfig maps the two parameter bytes to (bits, length). Wide storages are kept short: the encoding of 4096
// values of 64 bits is 32 KiB, which would only slow the mutation loops down.
func bsConfig(b0, b1 byte) (bits, length int) {
	bits, length = bsBits[int(b0)%len(bsBits)], bsLens[int(b1)%len(bsLens)]
	if bits >= 32 && length > 256 {
		length = 256
	}
	return
}

// bitStorageDec: input = 3 parameter bytes (chosen by the test, see bsConfig; mutations of them merely select
// another configuration) followed by the peer's bytes (VarInt count, longs). The third byte says what the storage
// held before: 0..3 nothing (fresh, made for the width Fix will be called with), otherwise data of another width.
// When the receiver of a previous call has the right length it is used again. Fix(bits) is also called after a
// ReadFrom that failed (its result is then the ReadFrom error).
func bitStorageDec() func(io.Reader) error {
	var bs *level.BitStorage
	return func(src io.Reader) error {
		var hdr [3]byte
		if _, err := io.ReadFull(src, hdr[:]); err != nil {
			return err
		}
		bits, length := bsConfig(hdr[0], hdr[1])
		if bs == nil || bs.Len() != length {
			if hdr[2] < 4 {
				bs = level.NewBitStorage(bits, length, nil)
			} else {
				other := bsBits[int(hdr[2])%len(bsBits)]
				if other != bits {
					coverHook("bitstorage.receiver-held-another-width")
				}
				bs = level.NewBitStorage(other, length, nil)
				for i := 0; i < length && other > 0; i += 3 {
					bs.Set(i, 1)
				}
			}
		}
		if _, err := bs.ReadFrom(src); err != nil {
			_ = bs.Fix(bits)
			coverHook("bitstorage.fix-after-failed-read")
			return err
		}
		return bs.Fix(bits)
	}
}

// ---- text components: the shapes the NBT and JSON decoders branch on

func nbtList(elem byte, vs ...*refnbt.Value) *refnbt.Value {
	return &refnbt.Value{Tag: refnbt.List, Elem: elem, List: vs}
}

// nbtComponentShape returns a network-format NBT text component that the library's own writer never produces:
// a bare string, a bare list, translation arguments as byte/int/long arrays or plain strings, hover and click events.
func nbtComponentShape(r *vm.Rand) []byte {
	text := func(s string) *refnbt.Value { return comp("text", cstr(s)) }
	var v *refnbt.Value
	var name string
	switch nextShape(&shapeSeq, 12) {
	case 0:
		name, v = "root-string", cstr(str(r))
	case 1:
		name, v = "root-list-of-compounds", nbtList(refnbt.Compound, text("a"), comp("text", cstr(str(r)), "bold", refnbt.B(1)))
	case 2:
		name, v = "root-list-of-strings", nbtList(refnbt.String, cstr("a"), cstr(str(r)))
	case 3:
		name, v = "with-byte-array", comp("translate", cstr("chat.type.text"), "with", &refnbt.Value{Tag: refnbt.ByteArray, Bytes: []byte{1, 0xff, byte(r.Intn(256))}})
	case 4:
		name, v = "with-int-array", comp("translate", cstr("chat.type.text"), "with", &refnbt.Value{Tag: refnbt.IntArray, Ints: []int32{1, -1, int32(r.Intn(1000))}})
	case 5:
		name, v = "with-long-array", comp("translate", cstr("chat.type.text"), "with", &refnbt.Value{Tag: refnbt.LongArray, Longs: []int64{1, -1, r.Int64B()}})
	case 6:
		name, v = "with-plain-strings", comp("translate", cstr("chat.type.text"), "with", nbtList(refnbt.String, cstr("Bob"), cstr(str(r))))
	case 7:
		name, v = "hover-contents", comp("text", cstr("t"), "hoverEvent", comp("action", cstr("show_text"), "contents", text(str(r))))
	case 8:
		name, v = "hover-value", comp("text", cstr("t"), "hoverEvent", comp("action", cstr("show_text"), "value", text(str(r))))
	case 9:
		name, v = "click-event", comp("text", cstr("t"), "clickEvent", comp("action", cstr("open_url"), "value", cstr("http://verif/"+str(r))))
	case 10:
		name, v = "empty-lists", comp("text", cstr(str(r)), "extra", nbtList(refnbt.End), "with", nbtList(refnbt.End))
	default:
		name, v = "nested-translate-in-extra", comp("text", cstr("t"), "extra", nbtList(refnbt.Compound,
			comp("translate", cstr("%s %2$s"), "with", nbtList(refnbt.Compound, text("x"), comp("translate", cstr("k"), "with", nbtList(refnbt.String, cstr(str(r))))))))
	}
	coverHook("gen.chat-nbt." + name)
	return refnbt.Encode(v, "", true)
}

// jsonComponentShape: the top-level string and array forms, and objects with extra / click and hover events.
func jsonComponentShape(r *vm.Rand) string {
	q := func(s string) string { return fmt.Sprintf("%q", strings.ToValidUTF8(s, "?")) }
	var name, s string
	switch nextShape(&jsonShapeSeq, 6) {
	case 0:
		name, s = "root-string", q("abc"+str(r))
	case 1:
		name, s = "root-array", `[{"text":"a"},"b",`+q(str(r))+`]`
	case 2:
		name, s = "extra", `{"text":`+q(str(r))+`,"extra":[{"text":"x","bold":true},"y",["z"]]}`
	case 3:
		name, s = "events", `{"text":"t","clickEvent":{"action":"open_url","value":"http://verif"},"hoverEvent":{"action":"show_text","contents":{"text":`+q(str(r))+`}}}`
	case 4:
		name, s = "with-mixed", `{"translate":"chat.type.text","with":["Bob",{"text":`+q(str(r))+`},["l"]]}`
	default:
		name, s = "padded", " \t\n"+q(str(r))+" "
	}
	coverHook("gen.chat-json." + name)
	return s
}

// ---- a second pass over the decoder table: used receivers, plain readers

// execReused decodes the valid encoding and then the input into ONE receiver; the input arrives through a plain
// io.Reader (no ReadByte, no WriteTo), so the decoders take their wrapper branches and their reuse branches
// (existing slice elements, existing capacity, old packet data, a chunk that already has block entities).
func execReused(c *vm.Ctx, e *entry, valid, in []byte, origin string) (err error, panicked bool) {
	c.Inflight(e.name + " (used receiver, plain reader) " + origin + " " + vm.Hex(in))
	panicked = c.Guard("decode/used-receiver+plain-reader", func() any {
		return map[string]any{"decoder": e.name, "origin": origin, "receiver": "has just decoded valid_hex (from a bytes.Reader)", "source": "inject.PlainReader over input_hex",
			"valid_hex": vm.Hex(valid), "input_hex": vm.Hex(in), "input_len": len(in)}
	}, func() {
		f := e.dec()
		_ = f(bytes.NewReader(valid))
		err = f(&inject.PlainReader{R: bytes.NewReader(in)})
	})
	c.Eval(0, false)
	return
}

// fuzzEntryReused is fuzzEntry's second pass (a smaller mutation set, the same must-error oracle at known prefixes).
func fuzzEntryReused(c *vm.Ctx, r *vm.Rand, e *entry) {
	if e.dec == nil {
		return
	}
	valid, prefixes := e.gen(r)
	if _, pan := execReused(c, e, valid, valid, "valid"); pan {
		return
	}
	// (a second decode of the valid encoding into the same receiver may legitimately fail: chat.Type and the
	// registries merge into what they hold; the statement only asks for a value or an error)
	c.EvalN(1, vm.Hash64([]byte("reused"), []byte(e.name), valid[:min(len(valid), 256)]), true)
	for _, p := range prefixes {
		_, plen, derr := refwire.DecVarInt(valid[p.off:])
		if derr != nil {
			continue
		}
		remaining := len(valid) - p.off - plen
		for _, h := range []int32{-1, -2147483648, -77, int32(remaining + 1), int32(remaining + 1000)} {
			in := append(append(append([]byte{}, valid[:p.off]...), refwire.EncVarInt(h)...), valid[p.off+plen:]...)
			err, pan := execReused(c, e, valid, in, fmt.Sprintf("%s=%d", p.kind, h))
			if pan {
				continue
			}
			if err == nil {
				cls := "negative"
				if h > 0 {
					cls = "larger-than-remaining-input"
				}
				c.Violation("decode/"+e.name+"/hostile-"+p.kind+"-accepted/"+cls+"/used-receiver", fmt.Sprintf("%s = %d (remaining input %d bytes) was reported as success by a receiver that had decoded a valid encoding before", p.kind, h, remaining),
					map[string]any{"decoder": e.name, "valid_hex": vm.Hex(valid), "input_hex": vm.Hex(in), "source": "inject.PlainReader"})
			} else {
				c.Cover("reused.prefix.rejected")
			}
		}
	}
	step := 1
	if len(valid) > 200 {
		step = len(valid) / 100
	}
	for k := 0; k < len(valid); k += step {
		execReused(c, e, valid, valid[:k], "truncated")
	}
	var offs []int
	for i := 0; i < len(valid) && i < 24; i++ {
		offs = append(offs, i)
	}
	for i := 0; i < 12 && len(valid) > 24; i++ {
		offs = append(offs, r.Range(24, len(valid)-1))
	}
	for _, off := range offs {
		for _, h := range hostile {
			in := append(append([]byte{}, valid[:off]...), refwire.EncVarInt(h)...)
			if off+1 < len(valid) {
				in = append(in, valid[off+1:]...)
			}
			execReused(c, e, valid, in, fmt.Sprintf("varint=%d@%d", h, off))
		}
	}
	for k := 0; k < 16 && len(valid) > 0; k++ {
		in := append([]byte{}, valid...)
		in[r.Intn(len(in))] ^= 1 << uint(r.Intn(8))
		execReused(c, e, valid, in, "bitflip")
	}
	for k := 0; k < 8; k++ {
		in := r.Bytes(r.Intn(48))
		for i := range in {
			if r.Intn(3) != 0 {
				in[i] &= 0x7f
			}
		}
		execReused(c, e, valid, in, "random")
	}
	c.Cover("reused.decoder." + e.name)
	c.Cover("reused.pass")
}

// ---- arrays counted by a fixed-width integer or a VarLong

// fixedWidthCounts: a negative count, and a count of 100 elements where fewer than 100 bytes follow, must be
// reported as errors - as for the VarInt-counted arrays - not read as an empty or a shortened array.
func fixedWidthCounts(c *vm.Ctx, e *entry, valid []byte, w int) {
	neg := bytes.Repeat([]byte{0xff}, w)
	if strings.HasPrefix(e.name, "Ary[VarLong]") {
		neg = refwire.EncVarLong(-1)
	}
	type fillCase struct {
		cls  string
		fill []byte
	}
	cases := []fillCase{{"negative", neg}, {"larger-than-remaining-input", append(make([]byte, w-1), 100)}}
	if strings.HasPrefix(e.name, "Ary[Unsigned") {
		// no negative counts: all ones is 255 / 65535 elements
		cases = []fillCase{{"larger-than-remaining-input", neg}, {"larger-than-remaining-input", append(make([]byte, w-1), 100)}}
	}
	for _, t := range cases {
		if t.cls != "negative" && len(valid)-w >= 100 {
			continue // 100 one-byte elements could be there
		}
		in := append(append([]byte{}, t.fill...), valid[w:]...)
		err, pan := exec(c, e, in, "array-count="+t.cls)
		if pan {
			continue
		}
		if err == nil {
			c.Violation("decode/"+e.name+"/hostile-array-count-accepted/"+t.cls, fmt.Sprintf("an element count that is %s (count field %x) was reported as success", t.cls, t.fill),
				map[string]any{"decoder": e.name, "input_hex": vm.Hex(in), "valid_hex": vm.Hex(valid)})
		} else {
			c.Cover("prefix.fixed-width-array-count.rejected")
		}
	}
}

// sectionTimer: with VERIF_TIMING set, prints the CPU seconds each part of the run took (diagnostics for keeping
// the quick tier cheap; no verdict depends on it).
func sectionTimer(c *vm.Ctx) func(name string) {
	if os.Getenv("VERIF_TIMING") == "" {
		return func(string) {}
	}
	last, lastWall := vm.CPUSeconds(), time.Now()
	return func(name string) {
		now := vm.CPUSeconds()
		fmt.Fprintf(os.Stderr, "TIMING shard=%d %-60s cpu=%.1fs wall=%.1fs\n", c.Shard, name, now-last, time.Since(lastWall).Seconds())
		last, lastWall = now, time.Now()
	}
}

// usedStatesContainer returns a maker of block containers that have been written to: entries 0..39 hold the
// states 0, 3, .., 117 (a 6-bit hash palette of 40 values). Making one by 40 Set calls costs several resizes of
// 4096 entries each - per executed input, that was a quarter of the whole decoder table's run time - so the same
// container is built from its packed form; the two ways of building it are compared once.
func usedStatesContainer() func() *level.PaletteContainer[level.BlocksState] {
	bySet := func() *level.PaletteContainer[level.BlocksState] {
		pc := level.NewStatesPaletteContainer(4096, 0)
		for i := 0; i < 40; i++ {
			pc.Set(i, level.BlocksState(i*3))
		}
		return pc
	}
	idx, pal := make([]int, 4096), make([]level.BlocksState, 40)
	for i := range pal {
		idx[i], pal[i] = i, level.BlocksState(i*3)
	}
	data := refwire.PackLongs(idx, 6)
	packed := func() *level.PaletteContainer[level.BlocksState] {
		return level.NewStatesPaletteContainerWithData(4096, append([]uint64{}, data...), pal)
	}
	same := false
	func() {
		defer func() { _ = recover() }()
		a, b := bySet(), packed()
		var wa, wb bytes.Buffer
		a.WriteTo(&wa)
		b.WriteTo(&wb)
		same = bytes.Equal(wa.Bytes(), wb.Bytes()) && wa.Len() > 0
	}()
	if !same {
		return bySet
	}
	return packed
}
