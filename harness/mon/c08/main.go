// Monitor C08: every decoder a bot or server runs on peer-controlled bytes,
// and the command dispatcher, are total: a value or an error, never a panic,
// never spinning; hostile length prefixes are errors.
package main

import (
	"bytes"
	"compress/zlib"
	"context"
	"encoding/json"
	"errors"
	"fmt"
	"io"
	"net"
	"os"
	"strings"
	"sync/atomic"
	"time"

	"github.com/Tnze/go-mc/bot"
	"github.com/Tnze/go-mc/chat"
	"github.com/Tnze/go-mc/chat/sign"
	"github.com/Tnze/go-mc/data/packetid"
	"github.com/Tnze/go-mc/level"
	"github.com/Tnze/go-mc/level/block"
	"github.com/Tnze/go-mc/nbt"
	"github.com/Tnze/go-mc/nbt/dynbt"
	mcnet "github.com/Tnze/go-mc/net"
	pk "github.com/Tnze/go-mc/net/packet"
	"github.com/Tnze/go-mc/registry"
	"github.com/Tnze/go-mc/server"
	"github.com/Tnze/go-mc/server/command"
	"github.com/Tnze/go-mc/yggdrasil/user"

	"verif/ref/refnbt"
	"verif/ref/refwire"
	"verif/vm"
)

func main() { vm.Main("C08", run) }

// entry is one decoder under test.
type entry struct {
	name string
	// lenient: the generated "valid" encoding may legitimately be rejected (random key material, foreign chunk)
	lenient bool
	// gen returns a valid encoding and the offsets of VarInt length prefixes inside it whose
	// hostile values (negative / larger than the remaining input) MUST be reported as errors.
	gen func(r *vm.Rand) (valid []byte, prefixes []prefix)
	run func(in []byte) error
	// dec makes ONE receiver and returns the call that decodes into it: calling the result twice decodes twice
	// into the same object, from whatever reader it is handed. run (when not given) is dec()(bytes.Reader).
	dec func() func(src io.Reader) error
}

// recvEntry: an entry whose receiver is made by mk and filled by read.
func recvEntry[T any](name string, gen func(r *vm.Rand) ([]byte, []prefix), mk func() T, read func(v T, src io.Reader) error) entry {
	return entry{name: name, gen: gen, dec: func() func(io.Reader) error {
		v := mk()
		return func(src io.Reader) error { return read(v, src) }
	}}
}

func lenientEntry(e entry) entry { e.lenient = true; return e }

type prefix struct {
	off  int
	kind string
}

func wbuf(fs ...pk.FieldEncoder) []byte {
	var b bytes.Buffer
	for _, f := range fs {
		f.WriteTo(&b)
	}
	return b.Bytes()
}

func rd(in []byte) io.Reader { return bytes.NewReader(in) }

func fieldEntry[T any, PT interface {
	*T
	pk.FieldDecoder
}](name string, gen func(r *vm.Rand) ([]byte, []prefix)) entry {
	return entry{name: name, gen: gen, dec: func() func(io.Reader) error {
		v := new(T)
		return func(src io.Reader) error { _, err := PT(v).ReadFrom(src); return err }
	}}
}

func str(r *vm.Rand) string {
	return []string{"", "a", "minecraft:stone", "héllo wörld", strings.Repeat("x", 130)}[r.Intn(5)]
}

// buildChunk makes a chunk whose sections mostly hold at most 8 distinct states with small ids (single value or
// linear palette, a single biome, zero height maps): a hostile VarInt written into such an encoding shifts the
// parse, but what the decoder then reads as lengths stays small. In every fourth chunk one section is wider: 20 or
// 60 states (hash palette) or 300 (direct form), and its biomes use a linear palette or the direct form, so that
// the mutations also start from those encodings (one section only: a direct section takes 8 KiB).
func buildChunk(r *vm.Rand, secs int) *level.Chunk {
	c := level.EmptyChunk(secs)
	wide := -1
	if r.Intn(4) == 0 {
		wide = r.Intn(secs)
	}
	for si := range c.Sections {
		k, idMax := []int{0, 1, 3, 7}[r.Intn(4)], 100
		if si == wide {
			k, idMax = []int{20, 60, 300}[r.Intn(3)], 2000
		}
		vals := make([]int, 0, k)
		for j := 0; j < k; j++ {
			vals = append(vals, r.Intn(idMax))
		}
		for j := 0; j < k*3; j++ {
			c.Sections[si].SetBlock(r.Intn(4096), level.BlocksState(vals[r.Intn(len(vals))]))
		}
		if r.Bool() {
			c.Sections[si].Biomes.Set(0, level.BiomesState(r.Intn(60)))
			c.Sections[si].Biomes.Set(0, 0)
		}
		if si == wide {
			for j, n := 0, []int{2, 6, 12}[r.Intn(3)]; j < n; j++ {
				c.Sections[si].Biomes.Set(r.Intn(64), level.BiomesState(j*5))
			}
		}
	}
	for j := r.Intn(3); j > 0; j-- {
		var be level.BlockEntity
		be.PackXZ(r.Intn(8), r.Intn(16))
		be.Y, be.Type = int16(r.Intn(100)), block.EntityType(r.Intn(20))
		be.Data = nbt.RawMessage{Type: nbt.TagCompound, Data: refnbt.EncodePayload(&refnbt.Value{Tag: refnbt.Compound, Comp: []refnbt.Entry{{Name: "id", V: refnbt.St("x")}}})}
		c.BlockEntity = append(c.BlockEntity, be)
	}
	return c
}

func entries(nStates, nBiomes int) []entry {
	blocksKind := refwire.PalKind{Blocks: true, RegistrySize: nStates}
	biomesKind := refwire.PalKind{Blocks: false, RegistrySize: nBiomes}
	genPal := func(r *vm.Rand, k refwire.PalKind, length int) ([]byte, []prefix) {
		// up to 8 distinct values: single value / linear palette; 17..200: the hash palette (5..8 bits, blocks only);
		// beyond (300 block states, 9 or 40 biomes): the registry-wide direct form
		nvs, mul := []int{1, 2, 5, 8, 17, 40, 200, 300}, 7
		if !k.Blocks {
			nvs, mul = []int{1, 2, 5, 8, 9, 40}, 1
		}
		nv := nvs[r.Intn(4)]
		if r.Intn(4) == 0 {
			nv = nvs[r.Range(4, len(nvs)-1)] // the wider forms take 4..8 KiB: every fourth encoding
		}
		vals := make([]int, length)
		for i := range vals {
			if i < nv {
				vals[i] = i * mul // every one of the nv values occurs
			} else {
				vals[i] = r.Intn(nv) * mul
			}
		}
		w := refwire.WritePaletted(vals, k)
		// locate the prefixes: bits byte, then (single: value) / (indirect: palette length + entries) / (direct: nothing), then data length
		var ps []prefix
		_, _, info, _ := refwire.ReadPaletted(w, length, k)
		off := 1
		switch info.Form {
		case "single":
			_, n, _ := refwire.DecVarInt(w[off:])
			off += n
		case "indirect":
			ps = append(ps, prefix{off, "palette-length"})
			cnt, n, _ := refwire.DecVarInt(w[off:])
			off += n
			for i := 0; i < int(cnt); i++ {
				_, n, _ := refwire.DecVarInt(w[off:])
				off += n
			}
		}
		ps = append(ps, prefix{off, "data-array-length"})
		form := info.Form
		if form == "indirect" {
			form = "linear"
			if k.Blocks && info.Width > 4 {
				form = "hash"
			}
		}
		coverHook(fmt.Sprintf("gen.palette.%s.%s", map[bool]string{true: "blocks", false: "biomes"}[k.Blocks], form))
		return w, ps
	}
	var es []entry
	for _, th := range []int{-1, 0, 256} {
		th := th
		es = append(es, recvEntry(fmt.Sprintf("Packet.UnPack(threshold=%d)", th), func(r *vm.Rand) ([]byte, []prefix) {
			p := pk.Packet{ID: int32(r.Intn(300)), Data: r.Bytes([]int{0, 3, 255, 256, 257, 600}[r.Intn(6)])}
			if r.Bool() {
				for i := range p.Data {
					p.Data[i] = 7
				}
			}
			var b bytes.Buffer
			p.Pack(&b, th)
			ps := []prefix{{0, "frame-length"}}
			if th >= 0 {
				_, n, _ := refwire.DecVarInt(b.Bytes())
				ps = append(ps, prefix{n, "compressed-data-length"})
			}
			return b.Bytes(), ps
		}, func() *pk.Packet { return new(pk.Packet) }, func(p *pk.Packet, src io.Reader) error { return p.UnPack(src, th) }))
	}
	aryEntry := func(name string, gen func(r *vm.Rand) ([]byte, []prefix), mk func() func(io.Reader) error) entry {
		return entry{name: name, gen: gen, dec: mk}
	}
	es = append(es,
		fieldEntry[pk.String]("String", func(r *vm.Rand) ([]byte, []prefix) { return wbuf(pk.String(str(r))), []prefix{{0, "string-length"}} }),
		fieldEntry[pk.ByteArray]("ByteArray", func(r *vm.Rand) ([]byte, []prefix) {
			return wbuf(pk.ByteArray(r.Bytes(r.Intn(40)))), []prefix{{0, "byte-array-length"}}
		}),
		fieldEntry[pk.BitSet]("BitSet", func(r *vm.Rand) ([]byte, []prefix) {
			return wbuf(pk.BitSet{1, 2, r.Int64B()}), []prefix{{0, "bit-set-length"}}
		}),
		fieldEntry[pk.VarInt]("VarInt", func(r *vm.Rand) ([]byte, []prefix) { return wbuf(pk.VarInt(r.Int64B())), nil }),
		fieldEntry[pk.VarLong]("VarLong", func(r *vm.Rand) ([]byte, []prefix) { return wbuf(pk.VarLong(r.Int64B())), nil }),
		fieldEntry[pk.UUID]("UUID", func(r *vm.Rand) ([]byte, []prefix) { return r.Bytes(16), nil }),
		fieldEntry[pk.Position]("Position", func(r *vm.Rand) ([]byte, []prefix) { return r.Bytes(8), nil }),
		fieldEntry[pk.PluginMessageData]("PluginMessageData", func(r *vm.Rand) ([]byte, []prefix) { return r.Bytes(r.Intn(30)), nil }),
		aryEntry("Ary[VarInt]ofString", func(r *vm.Rand) ([]byte, []prefix) {
			return wbuf(pk.Array([]pk.String{"a", pk.String(str(r)), "c"})), []prefix{{0, "array-length"}, {1, "string-length"}}
		}, func() func(io.Reader) error {
			var v []pk.String
			return func(src io.Reader) error { _, err := pk.Array(&v).ReadFrom(src); return err }
		}),
		aryEntry("Ary[Short]ofByteArray", func(r *vm.Rand) ([]byte, []prefix) {
			return wbuf(pk.Ary[pk.Short]{Ary: []pk.ByteArray{{1, 2}, r.Bytes(5)}}), nil
		}, func() func(io.Reader) error {
			var v []pk.ByteArray
			return func(src io.Reader) error { _, err := pk.Ary[pk.Short]{Ary: &v}.ReadFrom(src); return err }
		}),
		aryEntry("Ary[Byte]ofLong", func(r *vm.Rand) ([]byte, []prefix) { return wbuf(pk.Ary[pk.Byte]{Ary: []pk.Long{1, 2, 3}}), nil }, func() func(io.Reader) error {
			var v []pk.Long
			return func(src io.Reader) error { _, err := pk.Ary[pk.Byte]{Ary: &v}.ReadFrom(src); return err }
		}),
		aryEntry("Ary[Int]ofVarInt", func(r *vm.Rand) ([]byte, []prefix) { return wbuf(pk.Ary[pk.Int]{Ary: []pk.VarInt{1, 2, 3}}), nil }, func() func(io.Reader) error {
			var v []pk.VarInt
			return func(src io.Reader) error { _, err := pk.Ary[pk.Int]{Ary: &v}.ReadFrom(src); return err }
		}),
		aryEntry("Ary[VarLong]ofUUID", func(r *vm.Rand) ([]byte, []prefix) { return wbuf(pk.Ary[pk.VarLong]{Ary: []pk.UUID{{1}, {2}}}), nil }, func() func(io.Reader) error {
			var v []pk.UUID
			return func(src io.Reader) error { _, err := pk.Ary[pk.VarLong]{Ary: &v}.ReadFrom(src); return err }
		}),
		// the three remaining count types of Ary (unsigned ones cannot be negative; a Long count does not fit an int
		// on every platform, see wideCounts)
		aryEntry("Ary[UnsignedByte]ofString", func(r *vm.Rand) ([]byte, []prefix) {
			return wbuf(pk.Ary[pk.UnsignedByte]{Ary: []pk.String{"a", pk.String(str(r))}}), []prefix{{1, "string-length"}}
		}, func() func(io.Reader) error {
			var v []pk.String
			return func(src io.Reader) error { _, err := pk.Ary[pk.UnsignedByte]{Ary: &v}.ReadFrom(src); return err }
		}),
		aryEntry("Ary[UnsignedShort]ofVarInt", func(r *vm.Rand) ([]byte, []prefix) {
			return wbuf(pk.Ary[pk.UnsignedShort]{Ary: []pk.VarInt{1, pk.VarInt(r.Int64B()), 3}}), nil
		}, func() func(io.Reader) error {
			var v []pk.VarInt
			return func(src io.Reader) error { _, err := pk.Ary[pk.UnsignedShort]{Ary: &v}.ReadFrom(src); return err }
		}),
		aryEntry("Ary[Long]ofByteArray", func(r *vm.Rand) ([]byte, []prefix) {
			return wbuf(pk.Ary[pk.Long]{Ary: []pk.ByteArray{{1, 2}, r.Bytes(r.Intn(9))}}), []prefix{{8, "byte-array-length"}}
		}, func() func(io.Reader) error {
			var v []pk.ByteArray
			return func(src io.Reader) error { _, err := pk.Ary[pk.Long]{Ary: &v}.ReadFrom(src); return err }
		}),
		// OptionDecoder (a copy of Option's reader for decode-only types) and the function forms of Opt.Has / Opt.Field
		aryEntry("Tuple(OptionDecoder,Opt(func forms))", func(r *vm.Rand) ([]byte, []prefix) {
			has := r.Bool()
			fs := []pk.FieldEncoder{pk.Boolean(true), pk.String(str(r)), pk.Boolean(has)}
			if has {
				fs = append(fs, pk.ByteArray(r.Bytes(r.Intn(20))), pk.String(str(r)))
			}
			fs = append(fs, pk.Boolean(true), chat.Text(str(r)))
			return wbuf(fs...), []prefix{{1, "string-length"}}
		}, func() func(io.Reader) error {
			var od pk.OptionDecoder[pk.String, *pk.String]
			var om pk.OptionDecoder[chat.Message, *chat.Message]
			var has pk.Boolean
			var ba pk.ByteArray
			var s pk.String
			return func(src io.Reader) error {
				_, err := pk.Tuple{&od, &has,
					pk.Opt{Has: func() bool { return bool(has) }, Field: func() pk.FieldDecoder { return &ba }},
					pk.Opt{Has: &has, Field: func() pk.Field { return &s }},
					&om}.ReadFrom(src)
				return err
			}
		}),
		aryEntry("Tuple(Option,Opt,NBTField)", func(r *vm.Rand) ([]byte, []prefix) {
			return wbuf(pk.Option[pk.String, *pk.String]{Has: true, Val: "s"}, pk.Boolean(true), pk.ByteArray{1, 2, 3}, pk.NBT(map[string]any{"k": "v", "n": int32(r.Intn(9))})), nil
		}, func() func(io.Reader) error {
			var o pk.Option[pk.String, *pk.String]
			var has pk.Boolean
			var ba pk.ByteArray
			var m map[string]any
			return func(src io.Reader) error {
				_, err := pk.Tuple{&o, &has, pk.Opt{Has: &has, Field: &ba}, pk.NBTField{V: &m, AllowUnknownFields: true}}.ReadFrom(src)
				return err
			}
		}),
		// The first three bytes of this entry's input are the test's own parameters, not peer bytes: which width
		// Fix is called with, how many values the storage holds and what the storage held before (see bitStorageDec).
		entry{name: "BitStorage.ReadFrom+Fix", gen: func(r *vm.Rand) ([]byte, []prefix) {
			hdr := []byte{byte(r.Intn(len(bsBits))), byte(r.Intn(len(bsLens))), byte(r.Intn(12))}
			bits, length := bsConfig(hdr[0], hdr[1])
			coverHook(fmt.Sprintf("gen.bitstorage.bits=%d", bits))
			bs := level.NewBitStorage(bits, length, nil)
			for i := 0; i < 20 && bits > 0 && length > 0; i++ {
				bs.Set(r.Intn(length), r.Intn(2))
			}
			return append(hdr, wbuf(bs)...), []prefix{{3, "data-array-length"}}
		}, dec: bitStorageDec},
		recvEntry("PaletteContainer[blocks].ReadFrom(fresh)", func(r *vm.Rand) ([]byte, []prefix) { return genPal(r, blocksKind, 4096) },
			func() *level.PaletteContainer[level.BlocksState] { return level.NewStatesPaletteContainer(4096, 0) },
			func(pc *level.PaletteContainer[level.BlocksState], src io.Reader) error {
				_, err := pc.ReadFrom(src)
				return err
			}),
		recvEntry("PaletteContainer[blocks].ReadFrom(used)", func(r *vm.Rand) ([]byte, []prefix) { return genPal(r, blocksKind, 4096) },
			usedStatesContainer(),
			func(pc *level.PaletteContainer[level.BlocksState], src io.Reader) error {
				_, err := pc.ReadFrom(src)
				return err
			}),
		recvEntry("PaletteContainer[biomes].ReadFrom", func(r *vm.Rand) ([]byte, []prefix) { return genPal(r, biomesKind, 64) },
			func() *level.PaletteContainer[level.BiomesState] { return level.NewBiomesPaletteContainer(64, 0) },
			func(pc *level.PaletteContainer[level.BiomesState], src io.Reader) error {
				_, err := pc.ReadFrom(src)
				return err
			}),
		// the bits-per-entry byte is the peer's: every value of a class selects the same form (blocks: 1..4 linear at
		// 4 bits, 9..255 direct; biomes: 4..255 direct), the writer only ever sends one of them
		lenientEntry(recvEntry("PaletteContainer[blocks].ReadFrom(other bits byte of the same form)", func(r *vm.Rand) ([]byte, []prefix) {
			for {
				w, ps := genPal(r, blocksKind, 4096)
				switch {
				case w[0] >= 1 && w[0] <= 4:
					w[0] = byte(r.Range(1, 3))
					coverHook("gen.palette.blocks.bits-byte-below-4")
				case w[0] > 8:
					w[0] = []byte{9, 14, 16, 32, 64, 127, 128, 255}[r.Intn(8)]
					coverHook("gen.palette.blocks.bits-byte-above-direct")
				default:
					continue
				}
				return w, ps
			}
		}, func() *level.PaletteContainer[level.BlocksState] { return level.NewStatesPaletteContainer(4096, 0) },
			func(pc *level.PaletteContainer[level.BlocksState], src io.Reader) error {
				_, err := pc.ReadFrom(src)
				return err
			})),
		lenientEntry(recvEntry("PaletteContainer[biomes].ReadFrom(other bits byte of the same form)", func(r *vm.Rand) ([]byte, []prefix) {
			for {
				w, ps := genPal(r, biomesKind, 64)
				if w[0] < 4 {
					continue
				}
				w[0] = []byte{4, 5, 7, 8, 64, 128, 255}[r.Intn(7)]
				coverHook("gen.palette.biomes.bits-byte-other-direct")
				return w, ps
			}
		}, func() *level.PaletteContainer[level.BiomesState] { return level.NewBiomesPaletteContainer(64, 0) },
			func(pc *level.PaletteContainer[level.BiomesState], src io.Reader) error {
				_, err := pc.ReadFrom(src)
				return err
			})),
		recvEntry("Section.ReadFrom", func(r *vm.Rand) ([]byte, []prefix) { c := buildChunk(r, 1); return wbuf(&c.Sections[0]), nil },
			func() *level.Chunk { return level.EmptyChunk(1) },
			func(c *level.Chunk, src io.Reader) error { _, err := c.Sections[0].ReadFrom(src); return err }),
		fieldEntry[level.BlockEntity]("BlockEntity.ReadFrom", func(r *vm.Rand) ([]byte, []prefix) {
			c := buildChunk(r, 1)
			if len(c.BlockEntity) == 0 {
				c.BlockEntity = []level.BlockEntity{{Data: nbt.RawMessage{Type: nbt.TagCompound, Data: []byte{0}}}}
			}
			return wbuf(c.BlockEntity[0]), nil
		}),
		fieldEntry[chat.Message]("chat.Message.ReadFrom(NBT)", func(r *vm.Rand) ([]byte, []prefix) {
			if r.Bool() {
				return nbtComponentShape(r), nil // hand-built documents of the other shapes the decoder has branches for
			}
			m := chat.Message{Text: str(r), Bold: r.Bool(), Color: "gold", Extra: []chat.Message{chat.Text("x")}}
			if r.Bool() {
				m = chat.TranslateMsg("chat.type.text", chat.Text("a"), chat.Text(str(r)))
			}
			return wbuf(m), nil
		}),
		fieldEntry[chat.JsonMessage]("chat.JsonMessage.ReadFrom", func(r *vm.Rand) ([]byte, []prefix) {
			if r.Intn(3) == 0 {
				return wbuf(pk.String(jsonComponentShape(r))), []prefix{{0, "string-length"}}
			}
			return wbuf(chat.JsonMessage(chat.Message{Text: str(r), Italic: true, Extra: []chat.Message{chat.Text("y")}})), []prefix{{0, "string-length"}}
		}),
		recvEntry("json.Unmarshal(chat.Message)", func(r *vm.Rand) ([]byte, []prefix) {
			if r.Intn(3) == 0 {
				return []byte(jsonComponentShape(r)), nil
			}
			b, _ := json.Marshal(chat.Message{Text: str(r), Translate: "a.b", With: chat.TranslateArgs{chat.Text("q"), "s"}, HoverEvent: chat.ShowText(chat.Text("h"))})
			return b, nil
		}, func() *chat.Message { return new(chat.Message) }, func(m *chat.Message, src io.Reader) error {
			in, _ := io.ReadAll(src)
			return json.Unmarshal(in, m)
		}),
		fieldEntry[chat.Type]("chat.Type.ReadFrom", func(r *vm.Rand) ([]byte, []prefix) {
			t := chat.Type{ID: int32(r.Intn(9)), SenderName: chat.Text(str(r))}
			if r.Bool() {
				tm := chat.Text("target")
				t.TargetName = &tm
			}
			return wbuf(&t), nil
		}),
		fieldEntry[user.Property]("user.Property.ReadFrom", func(r *vm.Rand) ([]byte, []prefix) {
			return wbuf(user.Property{Name: "textures", Value: str(r), Signature: "sig"}), []prefix{{0, "string-length"}}
		}),
		lenientEntry(fieldEntry[user.PublicKey]("user.PublicKey.ReadFrom", func(r *vm.Rand) ([]byte, []prefix) {
			return wbuf(pk.Long(r.Int64B()), pk.ByteArray(r.Bytes(r.Intn(200))), pk.ByteArray(r.Bytes(256))), []prefix{{8, "byte-array-length"}}
		})),
		fieldEntry[sign.PackedMessageBody]("sign.PackedMessageBody.ReadFrom", func(r *vm.Rand) ([]byte, []prefix) {
			// last-seen entries: cache ids, and full 256-byte signatures under the marker the reader looks for (-1)
			// as well as the one the writer sends (0)
			fs := []pk.FieldEncoder{pk.String(str(r)), pk.Long(1), pk.Long(2)}
			switch r.Intn(3) {
			case 0:
				fs = append(fs, pk.VarInt(1), pk.VarInt(5))
			case 1:
				fs = append(fs, pk.VarInt(3), pk.VarInt(-1), pk.PluginMessageData(r.Bytes(256)), pk.VarInt(7), pk.VarInt(-1), pk.PluginMessageData(r.Bytes(256)))
				coverHook("gen.packed-message-body.full-signatures")
			default:
				fs = append(fs, pk.VarInt(1), pk.VarInt(0), pk.PluginMessageData(r.Bytes(256)))
			}
			return wbuf(fs...), []prefix{{0, "string-length"}}
		}),
		fieldEntry[sign.HistoryMessage]("sign.HistoryMessage.ReadFrom", func(r *vm.Rand) ([]byte, []prefix) {
			return wbuf(pk.UUID{1}, pk.ByteArray(r.Bytes(20))), []prefix{{16, "byte-array-length"}}
		}),
		fieldEntry[sign.HistoryUpdate]("sign.HistoryUpdate.ReadFrom", func(r *vm.Rand) ([]byte, []prefix) { return wbuf(pk.VarInt(3), pk.NewFixedBitSet(20)), nil }),
		lenientEntry(fieldEntry[sign.Session]("sign.Session.ReadFrom", func(r *vm.Rand) ([]byte, []prefix) {
			return wbuf(pk.UUID{3}, pk.Long(5), pk.ByteArray(r.Bytes(40)), pk.ByteArray(r.Bytes(30))), nil
		})),
		fieldEntry[sign.FilterMask]("sign.FilterMask.ReadFrom", func(r *vm.Rand) ([]byte, []prefix) { return wbuf(pk.VarInt(2), pk.BitSet{1, 2}), nil }),
	)
	for _, secs := range []int{1, 4, 24} {
		secs := secs
		es = append(es, recvEntry(fmt.Sprintf("Chunk.ReadFrom(%d sections)", secs), func(r *vm.Rand) ([]byte, []prefix) { return genChunkWithPrefixes(r, secs) },
			func() *level.Chunk { return level.EmptyChunk(secs) }, func(c *level.Chunk, src io.Reader) error { _, err := c.ReadFrom(src); return err }))
		es = append(es, recvEntry(fmt.Sprintf("Chunk.PutData(%d sections)", secs), func(r *vm.Rand) ([]byte, []prefix) { d, _ := buildChunk(r, secs).Data(); return d, nil },
			func() *level.Chunk { return level.EmptyChunk(secs) }, func(c *level.Chunk, src io.Reader) error {
				in, _ := io.ReadAll(src)
				return c.PutData(in)
			}))
	}
	// height maps whose long count does not match the section count
	es = append(es, lenientEntry(recvEntry("Chunk.ReadFrom(foreign height maps)", func(r *vm.Rand) ([]byte, []prefix) {
		return wbuf(buildChunk(r, []int{1, 2, 8, 24}[r.Intn(4)])), nil
	}, func() *level.Chunk { return level.EmptyChunk(4) }, func(c *level.Chunk, src io.Reader) error { _, err := c.ReadFrom(src); return err })))
	// registries and tags
	regs := registry.NewNetworkCodec()
	addReg := func(name string, codec registry.RegistryCodec, sample any) {
		es = append(es, entry{name: "Registry[" + name + "].ReadFrom", gen: func(r *vm.Rand) ([]byte, []prefix) {
			return wbuf(pk.VarInt(2), pk.Identifier("minecraft:a"), pk.Boolean(true), pk.NBT(sample), pk.Identifier("minecraft:b"), pk.Boolean(false)), []prefix{{0, "registry-length"}}
		}, dec: func() func(io.Reader) error {
			return func(src io.Reader) error { _, err := codec.ReadFrom(src); return err } // one registry object for the whole run
		}})
		es = append(es, entry{name: "Registry[" + name + "].ReadTagsFrom", gen: func(r *vm.Rand) ([]byte, []prefix) {
			return wbuf(pk.VarInt(2), pk.Identifier("minecraft:t1"), pk.VarInt(2), pk.VarInt(0), pk.VarInt(0), pk.Identifier("minecraft:t2"), pk.VarInt(0)), []prefix{{0, "tag-count"}, {14, "tag-id-count"}}
		}, dec: func() func(io.Reader) error {
			return func(src io.Reader) error {
				// a registry with one entry so that id 0 is valid
				codec.ReadFrom(rd(wbuf(pk.VarInt(1), pk.Identifier("minecraft:a"), pk.Boolean(true), pk.NBT(sample))))
				_, err := codec.ReadTagsFrom(src)
				return err
			}
		}})
	}
	addReg("ChatType", &regs.ChatType, registry.ChatType{})
	addReg("DamageType", &regs.DamageType, registry.DamageType{MessageID: "x", Scaling: "never"})
	addReg("Dimension", &regs.DimensionType, registry.Dimension{Effects: "minecraft:overworld", MonsterSpawnLightLevel: nbt.RawMessage{Type: nbt.TagInt, Data: []byte{0, 0, 0, 7}}})
	addReg("RawMessage", &regs.WorldGenBiome, map[string]any{"temperature": float32(0.5)})
	for i := range es {
		if es[i].run == nil {
			d := es[i].dec
			es[i].run = func(in []byte) error { return d()(rd(in)) }
		}
	}
	return es
}

// hostile VarInt values written over a position
var hostile = []int32{-1, -2147483648, -128, 0, 1, 1 << 14, 1 << 16, 1 << 24, 0x7fffffff}

// bigVarint reports whether some offset of b starts a VarInt that decodes to a positive value above 2^24
// (allocation guard: decoders may allocate a declared length before validating it; negative values are fine).
func bigVarint(b []byte) bool {
	for i := 0; i+3 < len(b); i++ {
		if b[i]&0x80 == 0 || b[i+1]&0x80 == 0 || b[i+2]&0x80 == 0 {
			continue
		}
		if v, _, err := refwire.DecVarInt(b[i:]); err == nil && v > 1<<24 {
			return true
		}
	}
	return false
}

func exec(c *vm.Ctx, e *entry, in []byte, origin string) (err error, panicked bool) {
	if origin != "valid" && bigVarint(in) {
		c.Cover("input-declares-more-than-2^24") // no longer skipped: decoders grow their buffers as data arrives
	}
	c.Inflight(e.name + " " + origin + " " + vm.Hex(in))
	panicked = c.Guard("decode", func() any {
		return map[string]any{"decoder": e.name, "origin": origin, "input_hex": vm.Hex(in), "input_len": len(in)}
	}, func() { err = e.run(in) })
	c.Eval(0, false)
	return
}

// fixedPrefix: decoders whose length prefix is a fixed-width integer (Short/Int/Long/VarLong): writing a
// VarInt over it or flipping its bits declares gigabytes of elements, which only tests the allocator.
func fixedPrefix(name string) bool {
	return strings.HasPrefix(name, "Ary[") && !strings.HasPrefix(name, "Ary[VarInt]")
}

// carriesNBT: decoders whose input embeds NBT. NBT lengths are 4-byte big-endian fields, so a bit flip, a
// random byte or the value 1 landing on their top byte declares millions of (large) elements; hostile NBT
// lengths are C03's business (with its own bound), here only truncation and VarInt overwrites that cannot
// produce a small positive top byte are applied to such decoders.
func carriesNBT(name string) bool {
	for _, k := range []string{"chat.Message.ReadFrom(NBT)", "chat.Type", "BlockEntity", "Chunk.ReadFrom", "Registry[", "NBTField"} {
		if strings.Contains(name, k) {
			return true
		}
	}
	return false
}

func fuzzEntry(c *vm.Ctx, r *vm.Rand, e *entry) {
	valid, prefixes := e.gen(r)
	if err, pan := exec(c, e, valid, "valid"); pan {
		return
	} else if err != nil && !e.lenient {
		c.Violation("decode/"+e.name+"/valid-input-rejected", "the decoder rejects an encoding the library itself produced: "+err.Error(), map[string]any{"decoder": e.name, "input_hex": vm.Hex(valid)})
		return
	}
	c.EvalN(1, vm.Hash64([]byte(e.name), valid[:min(len(valid), 256)]), true)
	// known length prefixes: hostile values must be errors
	for _, p := range prefixes {
		_, plen, derr := refwire.DecVarInt(valid[p.off:])
		if derr != nil {
			continue
		}
		remaining := len(valid) - p.off - plen
		for _, h := range []int32{-1, -2147483648, -77, int32(remaining + 1), int32(remaining + 1000)} {
			if h > 1<<20 {
				continue
			}
			in := append(append(append([]byte{}, valid[:p.off]...), refwire.EncVarInt(h)...), valid[p.off+plen:]...)
			err, pan := exec(c, e, in, fmt.Sprintf("%s=%d", p.kind, h))
			if pan {
				continue
			}
			if err == nil {
				cls := "negative"
				if h > 0 {
					cls = "larger-than-remaining-input"
				}
				c.Violation("decode/"+e.name+"/hostile-"+p.kind+"-accepted/"+cls, fmt.Sprintf("%s = %d (remaining input %d bytes) was reported as success", p.kind, h, remaining), map[string]any{"decoder": e.name, "input_hex": vm.Hex(in)})
			} else {
				c.Cover("prefix." + p.kind + ".rejected")
			}
		}
	}
	// truncation at every offset (sampled above 600 bytes)
	step := 1
	if len(valid) > 600 {
		step = len(valid) / 300
	}
	for k := 0; k < len(valid); k += step {
		exec(c, e, valid[:k], "truncated")
	}
	c.Cover("mut.truncation")
	if fixedPrefix(e.name) {
		// targeted: the fixed-width prefix set to small hostile values (negative, zero, a little too many)
		w := map[string]int{"Ary[Short]": 2, "Ary[Int]": 4, "Ary[VarLong]": 1, "Ary[Byte]": 1, "Ary[UnsignedByte]": 1, "Ary[UnsignedShort]": 2, "Ary[Long]": 8}[e.name[:strings.Index(e.name, "]")+1]]
		for _, fill := range [][]byte{bytes.Repeat([]byte{0xff}, w), make([]byte, w), append(make([]byte, w-1), 100)} {
			in := append(append([]byte{}, fill...), valid[w:]...)
			exec(c, e, in, "fixed-width-prefix")
		}
		fixedWidthCounts(c, e, valid, w)
	}
	// hostile VarInt written at every offset (first 96 bytes exhaustively, sampled beyond)
	var offs []int
	for i := 0; i < len(valid) && i < 96; i++ {
		offs = append(offs, i)
	}
	for i := 0; i < 40 && len(valid) > 96; i++ {
		offs = append(offs, r.Range(96, len(valid)-1))
	}
	for _, off := range offs {
		for _, h := range hostile {
			enc := refwire.EncVarInt(h)
			in := append(append([]byte{}, valid[:off]...), enc...)
			if off+1 < len(valid) {
				in = append(in, valid[off+1:]...) // replaces one byte by the VarInt
			}
			exec(c, e, in, fmt.Sprintf("varint=%d@%d", h, off))
		}
	}
	c.Cover("mut.hostile-varint-at-every-offset")
	// bit flips, any bit
	for k := 0; k < 64 && len(valid) > 0; k++ {
		in := append([]byte{}, valid...)
		in[r.Intn(len(in))] ^= 1 << uint(r.Intn(8))
		exec(c, e, in, "bitflip")
	}
	c.Cover("mut.bitflip")
	// random bytes
	for k := 0; k < 32; k++ {
		in := r.Bytes(r.Intn(48))
		for i := range in {
			if r.Intn(3) != 0 {
				in[i] &= 0x7f
			}
		}
		exec(c, e, in, "random")
	}
	c.Cover("mut.random")
	c.Cover("decoder." + e.name)
}

// hugeArrays: arrays whose declared element count is astronomically larger than the input.
func hugeArrays(c *vm.Ctx) {
	type tc struct {
		name string
		in   []byte
		run  func(in []byte) error
	}
	var cases []tc
	for _, n := range []int32{1<<31 - 1, 1 << 30, 1 << 28, 1 << 24} {
		pre := refwire.EncVarInt(n)
		cases = append(cases,
			tc{"Ary[VarInt]ofString", append(append([]byte{}, pre...), 1, 'a'), func(in []byte) error { var v []pk.String; _, err := pk.Array(&v).ReadFrom(rd(in)); return err }},
			tc{"Ary[VarInt]ofByteArray", append(append([]byte{}, pre...), 1, 7), func(in []byte) error { var v []pk.ByteArray; _, err := pk.Array(&v).ReadFrom(rd(in)); return err }},
			tc{"Ary[VarInt]ofBlockEntity", append(append([]byte{}, pre...), 1, 0, 0, 0), func(in []byte) error {
				var v []level.BlockEntity
				_, err := pk.Array(&v).ReadFrom(rd(in))
				return err
			}},
			tc{"Ary[VarInt]ofProperty", append(append([]byte{}, pre...), 1, 'n', 1, 'v', 0), func(in []byte) error {
				var v []user.Property
				_, err := pk.Array(&v).ReadFrom(rd(in))
				return err
			}},
			tc{"Ary[Int]ofLong", []byte{byte(n >> 24), byte(n >> 16), byte(n >> 8), byte(n), 0, 0, 0, 0, 0, 0, 0, 1}, func(in []byte) error {
				var v []pk.Long
				_, err := pk.Ary[pk.Int]{Ary: &v}.ReadFrom(rd(in))
				return err
			}},
			tc{"chat.Message(extra list count)", append([]byte{0x0a, 0x09, 0, 5, 'e', 'x', 't', 'r', 'a', 0x0a, byte(n >> 24), byte(n >> 16), byte(n >> 8), byte(n)}, 0, 0), func(in []byte) error {
				var m chat.Message
				_, err := m.ReadFrom(rd(in))
				return err
			}},
		)
	}
	for _, t := range cases {
		e := entry{name: "huge-count/" + t.name, run: t.run}
		c.Inflight(e.name + " " + vm.Hex(t.in))
		var err error
		if c.Guard("decode", func() any { return map[string]any{"decoder": e.name, "input_hex": vm.Hex(t.in)} }, func() { err = t.run(t.in) }) {
			continue
		}
		c.Eval(vm.Hash64([]byte(e.name), t.in), true)
		if err == nil {
			c.Violation("decode/huge-count-accepted/"+t.name, "an array declaring far more elements than the input holds decoded without error", map[string]any{"decoder": t.name, "input_hex": vm.Hex(t.in)})
		} else {
			c.Cover("huge-count.rejected")
		}
	}
}

// wrongDataLength: a frame of the compression layer whose data-length field disagrees with what its (genuine,
// complete) zlib stream inflates to. Larger and smaller are both inconsistent: a reader that stops after the declared
// number of bytes hands the program a cut packet as if it were whole.
func wrongDataLength(c *vm.Ctx, r *vm.Rand) {
	th := []int{0, 1, 64, 256}[r.Intn(4)]
	id := int32(r.Intn(300))
	n := th + r.Range(8, 400)
	payload := r.Bytes(n)
	if r.Bool() {
		for i := range payload {
			payload[i] = byte(i % 5)
		}
	}
	good := refwire.BuildFrame(id, payload, 0, true, 6) // always the zlib form
	f, err := refwire.ParseFrame(good, 0)
	if err != nil || f.Form != "zlib" {
		c.Inconclusive("reference writer did not produce a zlib frame")
		return
	}
	_, k, _ := refwire.DecVarInt(good)
	_, k2, _ := refwire.DecVarInt(good[k:])
	z := good[k+k2:]
	trueLen := len(refwire.EncVarInt(id)) + n
	for _, dl := range []int{trueLen - 1, trueLen - 7, max(th, 1), max(th, len(refwire.EncVarInt(id))), trueLen + 1, trueLen + 50} {
		if dl == trueLen || dl < 1 || dl < th {
			continue
		}
		dlb := refwire.EncVarInt(int32(dl))
		in := append(refwire.RawFrame(int32(len(dlb)+len(z)), dlb, z), 0x01, 0x00) // a following frame's first bytes
		wit := func() any {
			return map[string]any{"threshold": th, "inflated_size": trueLen, "declared_data_length": dl, "frame_hex": vm.Hex(in)}
		}
		for _, via := range []string{"Packet.UnPack", "Conn.ReadPacket"} {
			var p pk.Packet
			var e error
			if c.Guard("decode/wrong-data-length/"+via, wit, func() {
				if via == "Packet.UnPack" {
					e = p.UnPack(rd(in), th)
				} else {
					conn := mcnet.WrapConn(&pipeEnd{r: rd(in)})
					conn.SetThreshold(th)
					e = conn.ReadPacket(&p)
				}
			}) {
				continue
			}
			c.Eval(vm.HashStr("wrong-dl", via, fmt.Sprint(th, trueLen, dl)), true)
			if e == nil {
				cls := "smaller-than-inflated"
				if dl > trueLen {
					cls = "larger-than-inflated"
				}
				c.Violation("decode/inconsistent-data-length-accepted/"+cls, fmt.Sprintf("%s returned success (id %d, %d bytes) for a frame declaring %d uncompressed bytes whose zlib stream inflates to %d", via, p.ID, len(p.Data), dl, trueLen), wit())
				continue
			}
			c.Cover("wrong-data-length.rejected")
		}
	}
}

// tinyCompressedFrames: every short plaintext over a handful of bytes (padded VarInts among them: 80 00, 81 80 00)
// as a genuine zlib stream under every small declared data length, at the thresholds a peer can pick: the arithmetic
// between "bytes the id took" and "bytes declared" has corners no mutation of a library-written frame visits.
func tinyCompressedFrames(c *vm.Ctx) {
	alpha := []byte{0x00, 0x01, 0x7f, 0x80, 0x81, 0xff}
	var plains [][]byte
	plains = append(plains, nil)
	var rec func(prefix []byte, left int)
	rec = func(prefix []byte, left int) {
		if left == 0 {
			return
		}
		for _, a := range alpha {
			p := append(append([]byte{}, prefix...), a)
			plains = append(plains, p)
			rec(p, left-1)
		}
	}
	rec(nil, 3)
	plains = append(plains, []byte{0x80, 0x80, 0x00}, []byte{0x80, 0x80, 0x80, 0x00}, []byte{0x80, 0x80, 0x80, 0x80, 0x00}, []byte{0xff, 0xff, 0xff, 0xff, 0x0f, 9, 9}, []byte{0x80, 0x80, 0x80, 0x80, 0x80, 0x00})
	for _, pl := range plains {
		var zb bytes.Buffer
		zw := zlib.NewWriter(&zb)
		zw.Write(pl)
		zw.Close()
		z := zb.Bytes()
		for dl := 1; dl <= 7; dl++ {
			for _, th := range []int{0, 1, 2, 4} {
				if dl < th {
					continue
				}
				dlb := refwire.EncVarInt(int32(dl))
				in := append(refwire.RawFrame(int32(len(dlb)+len(z)), dlb, z), 0x01, 0x00)
				wit := func() any {
					return map[string]any{"threshold": th, "declared_data_length": dl, "inflates_to_hex": vm.Hex(pl), "frame_hex": vm.Hex(in)}
				}
				c.Inflight(fmt.Sprintf("tiny compressed frame dl=%d th=%d plain=%x", dl, th, pl))
				var p pk.Packet
				var e error
				if c.Guard("decode/tiny-compressed-frame", wit, func() { e = p.UnPack(rd(in), th) }) {
					continue
				}
				c.Eval(vm.HashStr("tiny-frame", fmt.Sprint(dl, th), string(pl)), true)
				if e == nil && dl != len(pl) {
					c.Violation("decode/inconsistent-data-length-accepted/tiny", fmt.Sprintf("UnPack returned success for a frame declaring %d bytes whose stream inflates to %d (%x)", dl, len(pl), pl), wit())
					continue
				}
				if e == nil {
					c.Cover("tiny-compressed-frame.accepted")
				} else {
					c.Cover("tiny-compressed-frame.rejected")
				}
			}
		}
	}
}

// endTypedLists: a list whose element type is TAG_End is how an empty list is written; with its count changed to a
// large number nothing follows that could be consumed per element. The readers that only skip or capture a value
// (RawMessage inside a block entity or an NBT field, members a struct does not know) walk such a list with a loop of
// their own: it has to end in an error at once, not after 2^31 rounds per list.
func endTypedLists(c *vm.Ctx) {
	for _, lists := range []int{1, 8, 64} {
		for _, count := range []uint32{1, 1000, 1 << 20, 1<<31 - 1} {
			// {"Items": [ lists x list(TAG_End, count) ], "z": 1b}
			doc := []byte{0x0a, 0x09, 0, 5, 'I', 't', 'e', 'm', 's', 0x09, byte(lists >> 24), byte(lists >> 16), byte(lists >> 8), byte(lists)}
			for i := 0; i < lists; i++ {
				doc = append(doc, 0x00, byte(count>>24), byte(count>>16), byte(count>>8), byte(count))
			}
			doc = append(doc, 0x01, 0, 1, 'z', 1, 0x00)
			type known struct {
				Z int8 `nbt:"z"`
			}
			decs := []struct {
				name string
				run  func() error
			}{
				{"BlockEntity.ReadFrom", func() error {
					var be level.BlockEntity
					_, err := be.ReadFrom(rd(append([]byte{0x12, 0, 64, 5}, doc...)))
					return err
				}},
				{"pk.NBT(RawMessage)", func() error { var m nbt.RawMessage; _, err := pk.NBT(&m).ReadFrom(rd(doc)); return err }},
				{"NBTField(struct, unknown members allowed)", func() error {
					var k known
					_, err := pk.NBTField{V: &k, AllowUnknownFields: true}.ReadFrom(rd(doc))
					return err
				}},
				{"pk.NBT(any)", func() error { var v any; _, err := pk.NBT(&v).ReadFrom(rd(doc)); return err }},
				{"pk.NBT(dynbt.Value)", func() error { var v dynbt.Value; _, err := pk.NBT(&v).ReadFrom(rd(doc)); return err }},
			}
			for _, d := range decs {
				wit := func() any {
					return map[string]any{"decoder": d.name, "lists_of_end_type": lists, "declared_elements_each": count, "doc_hex": vm.Hex(doc[:min(len(doc), 200)])}
				}
				c.Inflight(fmt.Sprintf("end-typed lists: %s, %d lists declaring %d elements", d.name, lists, count))
				c.FlushInflight()
				var err error
				if c.Guard("decode/end-typed-lists/"+d.name, wit, func() { err = d.run() }) {
					continue
				}
				c.Eval(vm.HashStr("end-typed-lists", d.name, fmt.Sprint(lists, count)), true)
				if err == nil {
					c.Cover("end-typed-lists.accepted")
				} else {
					c.Cover("end-typed-lists.rejected")
				}
			}
		}
	}
}

type pipeEnd struct{ r io.Reader }

func (p *pipeEnd) Read(b []byte) (int, error)       { return p.r.Read(b) }
func (p *pipeEnd) Write(b []byte) (int, error)      { return len(b), nil }
func (p *pipeEnd) Close() error                     { return nil }
func (p *pipeEnd) LocalAddr() net.Addr              { return nil }
func (p *pipeEnd) RemoteAddr() net.Addr             { return nil }
func (p *pipeEnd) SetDeadline(time.Time) error      { return nil }
func (p *pipeEnd) SetReadDeadline(time.Time) error  { return nil }
func (p *pipeEnd) SetWriteDeadline(time.Time) error { return nil }

// bigPayloads: strings and byte arrays of 64 KiB .. 2 MiB, which a peer may send inside the frame limit, whole and
// with only a part of the declared bytes present. Readers that grow their buffer as data arrives have one branch per
// growth step; the short hostile inputs above never leave the first.
func bigPayloads(c *vm.Ctx) {
	sizes := []int{65536, 65537, 131072, 131073, 196608, 196609, 262145, 500000, 1<<20 + 1, 1<<21 - 10}
	type dec struct {
		name string
		run  func(in []byte) error
	}
	decs := []dec{
		{"String", func(in []byte) error { var v pk.String; _, err := v.ReadFrom(rd(in)); return err }},
		{"Identifier", func(in []byte) error { var v pk.Identifier; _, err := v.ReadFrom(rd(in)); return err }},
		{"ByteArray", func(in []byte) error { var v pk.ByteArray; _, err := v.ReadFrom(rd(in)); return err }},
		{"ByteArray(used destination)", func(in []byte) error {
			v := pk.ByteArray(make([]byte, 10, 40))
			_, err := v.ReadFrom(rd(in))
			return err
		}},
		{"Packet.Scan(VarInt,ByteArray,Boolean)", func(in []byte) error {
			var a pk.VarInt
			var b pk.ByteArray
			var f pk.Boolean
			return pk.Packet{ID: 1, Data: append([]byte{5}, in...)}.Scan(&a, &b, &f)
		}},
		{"Ary[VarInt]ofByteArray", func(in []byte) error {
			var v []pk.ByteArray
			_, err := pk.Array(&v).ReadFrom(rd(append([]byte{1}, in...)))
			return err
		}},
		{"chat.JsonMessage", func(in []byte) error { var m chat.JsonMessage; _, err := m.ReadFrom(rd(in)); return err }},
	}
	for _, n := range sizes {
		body := make([]byte, n)
		for i := range body {
			body[i] = 'a' + byte(i%7)
		}
		full := append(refwire.EncVarInt(int32(n)), body...)
		jsonBody := append(append([]byte{'"'}, body[:n-2]...), '"') // a JSON string of n bytes
		fullJSON := append(refwire.EncVarInt(int32(n)), jsonBody...)
		for _, d := range decs {
			src := full
			if d.name == "chat.JsonMessage" {
				src = fullJSON
			}
			for _, present := range []int{len(src), len(src) - 1, 131072 + 3, 65536 + 3, len(src) / 2} {
				if present > len(src) || present < 4 {
					continue
				}
				in := src[:present]
				wit := func() any {
					return map[string]any{"decoder": d.name, "declared_bytes": n, "bytes_present": present - len(refwire.EncVarInt(int32(n)))}
				}
				c.Inflight(fmt.Sprintf("big-payload %s declared=%d present=%d", d.name, n, present))
				var err error
				if c.Guard("decode/big-payload/"+d.name, wit, func() { err = d.run(in) }) {
					continue
				}
				c.Eval(vm.HashStr("big-payload", d.name, fmt.Sprint(n, present)), true)
				switch {
				case err == nil && present < len(src):
					c.Violation("decode/big-payload-truncated-accepted/"+d.name, fmt.Sprintf("%s declared %d bytes, %d were present, and it decoded without error", d.name, n, present), wit())
				case err == nil:
					c.Cover("big-payload.accepted")
				default:
					c.Cover("big-payload.rejected")
				}
			}
		}
	}
}

// ---- self-consistent encodings whose sizes disagree with the receiver's state

func longArray(n int, fill int64) *refnbt.Value {
	v := &refnbt.Value{Tag: refnbt.LongArray, Longs: make([]int64, n)}
	for i := range v.Longs {
		v.Longs[i] = fill
	}
	return v
}

// inconsistentSizes builds chunk bodies and paletted containers that parse cleanly as streams (every declared
// length is followed by exactly that much data) but whose sizes do not fit the receiving object: height maps of
// 0, 1, expected-1, expected+1 longs or for another section count, present/absent/duplicated; data arrays of 0, 1,
// expected-1, expected+1 longs. The decoders must return a value or an error.
func inconsistentSizes(c *vm.Ctx, r *vm.Rand) {
	secs := []int{1, 4, 24}[r.Intn(3)]
	var body bytes.Buffer
	ch := buildChunk(r, secs)
	ch.WriteTo(&body)
	_, _, hmEnd, perr := refnbt.Parse(body.Bytes(), true)
	if perr != nil {
		c.Inconclusive("cannot locate the height-map NBT in a chunk the library wrote")
		return
	}
	rest := body.Bytes()[hmEnd:]
	bitsFor := func(s int) int {
		b := 0
		for v := uint(s)*16 + 1; v != 0; v >>= 1 {
			b++
		}
		return b
	}
	expected := (256 + 64/bitsFor(secs) - 1) / (64 / bitsFor(secs))
	lens := []int{0, 1, expected - 1, expected, expected + 1, 37, 52}
	for _, lm := range lens {
		for _, lw := range []int{-1, 0, expected, lm} { // -1 = key absent
			comp := &refnbt.Value{Tag: refnbt.Compound}
			comp.Comp = append(comp.Comp, refnbt.Entry{Name: "MOTION_BLOCKING", V: longArray(lm, 0)})
			if lw >= 0 {
				comp.Comp = append(comp.Comp, refnbt.Entry{Name: "WORLD_SURFACE", V: longArray(lw, 1)})
			}
			if r.Intn(6) == 0 {
				comp.Comp = append(comp.Comp, refnbt.Entry{Name: "OCEAN_FLOOR", V: longArray(3, 0)})
			}
			in := append(refnbt.Encode(comp, "", true), rest...)
			e := entry{name: fmt.Sprintf("Chunk.ReadFrom(%d sections, consistent height maps of other sizes)", secs), run: func(in []byte) error {
				_, err := level.EmptyChunk(secs).ReadFrom(rd(in))
				return err
			}}
			err, pan := exec(c, &e, in, fmt.Sprintf("sizes: heightmaps=%d/%d longs (expected %d)", lm, lw, expected))
			if !pan {
				// a height map that is present, not empty and of another size than the chunk's own: an error
				wrong := (lm > 0 && lm != expected) || (lw > 0 && lw != expected)
				switch {
				case err == nil && wrong:
					c.Violation("decode/inconsistent-size-accepted/height-map", fmt.Sprintf("a chunk of %d sections (height maps of %d longs) took height maps of %d and %d longs without error", secs, expected, lm, lw),
						map[string]any{"sections": secs, "longs_expected": expected, "motion_blocking_longs": lm, "world_surface_longs": lw, "input_hex": vm.Hex(in[:min(len(in), 2048)])})
				case wrong:
					c.Cover("sizes.heightmap.wrong-size-rejected")
				}
				if err != nil {
					c.Cover("sizes.heightmap.error")
				} else {
					c.Cover("sizes.heightmap.accepted")
				}
			}
		}
	}
	c.EvalN(1, vm.Hash64(body.Bytes()[:min(body.Len(), 128)], []byte("sizes")), true)
	// paletted containers with a data array of another (self-consistent) size
	for _, blocks := range []bool{true, false} {
		length, k := 4096, refwire.PalKind{Blocks: true, RegistrySize: len(block.StateList)}
		if !blocks {
			length, k = 64, refwire.PalKind{Blocks: false, RegistrySize: 63}
		}
		vals := make([]int, length)
		nv := []int{1, 2, 5, 8}[r.Intn(4)]
		if r.Intn(6) == 0 { // the hash palette and the direct form (8 KiB of indices: every sixth time)
			nv = 20
			if blocks {
				nv = []int{40, 300}[r.Intn(2)]
			}
		}
		for i := range vals {
			vals[i] = r.Intn(nv)
		}
		w := refwire.WritePaletted(vals, k)
		_, _, info, _ := refwire.ReadPaletted(w, length, k)
		// find the data array (last field): header = everything before it
		per := 1
		if info.Width > 0 {
			per = 64 / info.Width
		}
		nl := 0
		if info.Width > 0 {
			nl = (length + per - 1) / per
		}
		hdr := w[:len(w)-nl*8-len(refwire.EncVarInt(int32(nl)))]
		for _, n := range []int{0, 1, nl - 1, nl + 1, 2 * nl} {
			if n < 0 {
				continue
			}
			in := append(append([]byte{}, hdr...), refwire.EncVarInt(int32(n))...)
			in = append(in, make([]byte, n*8)...)
			name := "PaletteContainer[biomes].ReadFrom(data array of another size)"
			run := func(in []byte) error { _, err := level.NewBiomesPaletteContainer(64, 0).ReadFrom(rd(in)); return err }
			if blocks {
				name = "PaletteContainer[blocks].ReadFrom(data array of another size)"
				run = func(in []byte) error { _, err := level.NewStatesPaletteContainer(4096, 0).ReadFrom(rd(in)); return err }
			}
			e := entry{name: name, run: run}
			err, pan := exec(c, &e, in, fmt.Sprintf("sizes: data-array=%d longs (expected %d, width %d)", n, nl, info.Width))
			// with a width, the number of longs is determined: any other count is inconsistent with the bits byte
			// (a single-valued container has no indices: what it does with longs that follow is not judged)
			switch {
			case pan || info.Width == 0 || n == nl:
			case err == nil:
				c.Violation("decode/inconsistent-size-accepted/palette-data-array", fmt.Sprintf("a container of %d entries at %d bits per entry (%d longs) took a data array of %d longs without error", length, info.Width, nl, n),
					map[string]any{"decoder": name, "entries": length, "bits_per_entry": info.Width, "longs_expected": nl, "longs_sent": n, "input_hex": vm.Hex(in[:min(len(in), 2048)])})
			default:
				c.Cover("sizes.palette-data-array.wrong-size-rejected")
			}
		}
	}
	c.Cover("sizes.palette-data-array")
}

// ---- command dispatcher

// buildGraph: with typeable set, the literals are words over the alphabet of the exhaustive lines ({a, b, ab, ba}:
// every node of the graph can then be spelled, siblings may be prefixes of each other or equal); otherwise
// command-like words. ran is told how many parsed values a handler received (root + one per node walked).
func buildGraph(r *vm.Rand, typeable bool, ran func(args int)) (*command.Graph, []string) {
	g := command.NewGraph()
	h := func(ctx context.Context, args []command.ParsedData) error { ran(len(args)); return nil }
	var words []string
	vocab := []string{"me", "help", "list", "uuids", "tp", "a", "say"}
	if typeable {
		vocab = []string{"a", "b", "ab", "ba"}
	}
	lit := func() string {
		w := vocab[r.Intn(len(vocab))]
		words = append(words, w)
		return w
	}
	var mkLit func(depth int) *command.Literal
	var mkArg func(depth int) *command.Argument
	mkArg = func(depth int) *command.Argument {
		b := g.Argument("arg", command.StringParser(r.Intn(3)))
		if depth < 3 && r.Bool() {
			if r.Bool() {
				bw := b.AppendLiteral(mkLit(depth + 1))
				if r.Bool() {
					return bw.HandleFunc(h)
				}
				return bw.Unhandle()
			}
			bw := b.AppendArgument(mkArg(depth + 1))
			if r.Bool() {
				return bw.HandleFunc(h)
			}
			return bw.Unhandle()
		}
		if r.Bool() {
			return b.HandleFunc(h)
		}
		return b.Unhandle()
	}
	mkLit = func(depth int) *command.Literal {
		b := g.Literal(lit())
		if depth < 3 && r.Bool() {
			if r.Bool() {
				bw := b.AppendLiteral(mkLit(depth + 1))
				for r.Intn(3) == 0 {
					bw = bw.AppendLiteral(mkLit(depth + 1))
				}
				if r.Bool() {
					return bw.HandleFunc(h)
				}
				return bw.Unhandle()
			}
			bw := b.AppendArgument(mkArg(depth + 1))
			if r.Bool() {
				return bw.HandleFunc(h)
			}
			return bw.Unhandle()
		}
		if r.Bool() {
			return b.HandleFunc(h)
		}
		return b.Unhandle()
	}
	for i := r.Range(1, 4); i > 0; i-- {
		g.AppendLiteral(mkLit(1))
	}
	return g, words
}

func checkCommands(c *vm.Ctx, r *vm.Rand, exhaustive bool) {
	typeable := exhaustive || r.Bool()
	deepest := 0
	g, words := buildGraph(r, typeable, func(args int) { deepest = max(deepest, args) })
	tryLine := func(line string) {
		c.Inflight("command " + fmt.Sprintf("%q", line))
		c.Guard("command/Execute", func() any { return map[string]any{"line": line, "graph_words": words} }, func() { _ = g.Execute(context.Background(), line) })
		c.Eval(vm.HashStr("cmd", line), len(line) > 0)
	}
	defer func() {
		// how far below the root the lines got (parsed values handed to a handler: the root's, then one per node)
		how := map[bool]string{true: "exhaustive", false: "random"}[exhaustive]
		if deepest >= 2 {
			c.Cover("command." + how + ".handler-ran")
		}
		if deepest >= 3 {
			c.Cover("command." + how + ".handler-ran-below-first-node")
		}
	}()
	alpha := []byte("ab \t\"\\")
	// whitespace as the dispatcher's two notions of it see it: strings.TrimSpace (Unicode) and the word parser (ASCII)
	spaces := []string{" ", "  ", "\t", "", "\n", "\r", "\v", "\f", "\u00a0", "\u0085", " \u00a0", "\u2003"}
	if exhaustive {
		var rec func(prefix []byte, depth int)
		rec = func(prefix []byte, depth int) {
			tryLine(string(prefix))
			if depth == 5 {
				return
			}
			for _, ch := range alpha {
				rec(append(prefix, ch), depth+1)
			}
		}
		rec(nil, 0)
		c.Cover("command.exhaustive<=5")
	}
	for i := 0; i < 200; i++ {
		var parts []string
		for j := r.Intn(5); j > 0; j-- {
			switch r.Intn(4) {
			case 0:
				parts = append(parts, words[r.Intn(len(words))])
			case 1:
				parts = append(parts, `"quoted `+string(alpha[r.Intn(len(alpha))])+`"`)
			case 2:
				parts = append(parts, string(r.Bytes(r.Intn(4))))
			default:
				var b []byte
				for k := r.Intn(6); k > 0; k-- {
					if r.Intn(4) == 0 {
						b = append(b, spaces[r.Intn(len(spaces))]...)
					} else {
						b = append(b, alpha[r.Intn(len(alpha))])
					}
				}
				parts = append(parts, string(b))
			}
		}
		line := strings.Join(parts, spaces[r.Intn(len(spaces))])
		if r.Intn(4) == 0 {
			line = spaces[r.Intn(len(spaces))] + line + spaces[r.Intn(len(spaces))]
		}
		tryLine(line)
	}
	c.Cover("command.random")
}

// ---- live peers

type pipeDialer struct {
	serve  func(conn net.Conn)
	client *net.Conn // when set: receives the client's end of the pipe
}

func (d pipeDialer) DialMCContext(ctx context.Context, addr string) (*mcnet.Conn, error) {
	a, b := net.Pipe()
	if d.client != nil {
		*d.client = a
	}
	go d.serve(b)
	return mcnet.WrapConn(a), nil
}

// hostileServer walks a real bot.Client through login and configuration and then sends hostile play packets.
func hostileServer(c *vm.Ctx, r *vm.Rand) {
	stage := r.Intn(3)
	var script []pk.Packet
	hostilePkts := func(n int, idMax int32) {
		for i := 0; i < n; i++ {
			id := int32(r.Intn(int(idMax)))
			switch r.Intn(6) {
			case 0:
				id = int32(packetid.ClientboundPacketIDGuard) + int32(r.Intn(5))
			case 1:
				id = -1 - int32(r.Intn(3))
			case 2:
				id = 1<<31 - 1
			}
			data := r.Bytes(r.Intn(40))
			if r.Bool() {
				data = refwire.EncVarInt(hostile[r.Intn(len(hostile))])
			}
			script = append(script, pk.Packet{ID: id, Data: data})
		}
	}
	wit := func() any {
		var s []string
		for _, p := range script {
			s = append(s, fmt.Sprintf("id=%d data=%x", p.ID, p.Data))
		}
		return map[string]any{"stage": []string{"login", "configuration", "play"}[stage], "script": s}
	}
	serve := func(raw net.Conn) {
		defer raw.Close()
		conn := mcnet.WrapConn(raw)
		var p pk.Packet
		if conn.ReadPacket(&p) != nil || conn.ReadPacket(&p) != nil { // handshake, login start
			return
		}
		// net.Pipe has no buffer: while the script goes out keep reading whatever the bot answers, or both ends block in Write
		if stage == 0 {
			go io.Copy(io.Discard, raw)
			for _, sp := range script {
				if conn.WritePacket(sp) != nil {
					return
				}
			}
			return
		}
		conn.WritePacket(pk.Marshal(packetid.ClientboundLoginGameProfile, pk.UUID{1}, pk.String("bot"), pk.VarInt(0), pk.Boolean(true)))
		if conn.ReadPacket(&p) != nil { // login acknowledged
			return
		}
		if stage == 1 {
			go io.Copy(io.Discard, raw)
			for _, sp := range script {
				if conn.WritePacket(sp) != nil {
					return
				}
			}
			return
		}
		conn.WritePacket(pk.Marshal(packetid.ClientboundConfigFinishConfiguration))
		if conn.ReadPacket(&p) != nil {
			return
		}
		go io.Copy(io.Discard, raw)
		for _, sp := range script {
			if conn.WritePacket(sp) != nil {
				return
			}
		}
	}
	switch stage {
	case 0:
		hostilePkts(r.Range(1, 6), 8)
	case 1:
		hostilePkts(r.Range(1, 6), 20)
	default:
		hostilePkts(r.Range(1, 12), 130)
	}
	c.Inflight(fmt.Sprintf("hostile server %v", wit()))
	cl := bot.NewClient()
	cl.Events.AddGeneric(bot.PacketHandler{F: func(p pk.Packet) error { return nil }})
	done := make(chan struct{})
	go func() {
		defer close(done)
		c.Guard("live/bot", wit, func() {
			if err := cl.JoinServerWithOptions("hostile.test:25565", bot.JoinOptions{MCDialer: pipeDialer{serve: serve}}); err != nil {
				return
			}
			defer cl.Close()
			_ = cl.HandleGame()
		})
	}()
	select {
	case <-done:
		c.Cover("live.hostile-server." + []string{"login", "configuration", "play"}[stage])
	case <-time.After(20 * time.Second):
		c.Inconclusive("hostile-server session did not finish in 20 s")
	}
	c.Eval(vm.HashStr("live-bot", fmt.Sprint(wit())), true)
}

type pingHandler struct {
	*server.PlayerList
	*server.PingInfo
}

// hostileClient sends mutated handshake / login-start packets to the real server gate.
func hostileClient(c *vm.Ctx, r *vm.Rand) {
	srv := &server.Server{ListPingHandler: pingHandler{server.NewPlayerList(5), server.NewPingInfo("x", 767, chat.Text("m"), nil)}, LoginHandler: &server.MojangLoginHandler{Threshold: []int{-1, 0, 64}[r.Intn(3)]}, ConfigHandler: &server.Configurations{Registries: registry.NewNetworkCodec()}, GamePlay: countGame{new(atomic.Int32)}}
	var script [][]byte
	hs := wbuf(pk.VarInt(0), pk.VarInt(767), pk.String("host"), pk.UnsignedShort(25565), pk.VarInt(2))
	ls := wbuf(pk.VarInt(0), pk.String("player"), pk.UUID{})
	mut := func(b []byte) []byte {
		b = append([]byte{}, b...)
		switch r.Intn(5) {
		case 0:
			return b[:r.Intn(len(b)+1)]
		case 1:
			off := r.Intn(len(b))
			return append(append(b[:off:off], refwire.EncVarInt(hostile[r.Intn(len(hostile))])...), b[min(off+1, len(b)):]...)
		case 2:
			b[r.Intn(len(b))] ^= 1 << uint(r.Intn(3))
			return b
		case 3:
			return r.Bytes(r.Intn(20))
		}
		return b
	}
	frame := func(body []byte) []byte { return append(refwire.EncVarInt(int32(len(body))), body...) }
	script = append(script, frame(mut(hs)), frame(mut(ls)), frame(r.Bytes(r.Intn(10))))
	if r.Intn(4) == 0 {
		script[0] = refwire.EncVarInt(hostile[r.Intn(len(hostile))]) // hostile frame length
	}
	wit := func() any {
		var s []string
		for _, b := range script {
			s = append(s, vm.Hex(b))
		}
		return map[string]any{"frames": s}
	}
	c.Inflight(fmt.Sprintf("hostile client %v", wit()))
	a, b := net.Pipe()
	done := make(chan struct{})
	go func() {
		defer close(done)
		c.Guard("live/server", wit, func() { srv.AcceptConn(mcnet.WrapConn(b)) })
	}()
	go func() {
		// net.Pipe has no buffer: what the server answers (set compression, profile, disconnect) is drained while
		// the frames go out, or both ends would sit in Write; the last answer gets 50 ms, then the client hangs up
		drained := make(chan struct{})
		go func() { defer close(drained); io.Copy(io.Discard, a) }()
		for _, f := range script {
			a.SetWriteDeadline(time.Now().Add(2 * time.Second))
			if _, err := a.Write(f); err != nil {
				break
			}
		}
		a.SetReadDeadline(time.Now().Add(50 * time.Millisecond))
		<-drained
		a.Close()
	}()
	select {
	case <-done:
		c.Cover("live.hostile-client")
	case <-time.After(20 * time.Second):
		c.Inconclusive("hostile-client session did not finish in 20 s")
	}
	c.Eval(vm.HashStr("live-server", fmt.Sprint(wit())), true)
}

var _ = errors.New

func run(c *vm.Ctx) {
	if c.Mode == "capped" {
		runCapped(c)
		return
	}
	c.EnableSpinWatch("spin", 20)
	nStates := len(block.StateList)
	es := entries(nStates, 63)
	coverHook, shapeSeq, jsonShapeSeq = c.Cover, c.Shard*5, c.Shard
	section := sectionTimer(c)
	r, rr := c.Rand("fuzz"), c.Rand("fuzz-reused")
	rounds := c.Scale(128, 3200)
	var reusedCPU float64
	perEntry := map[string]float64{}
	defer func() {
		if os.Getenv("VERIF_TIMING") != "" {
			for k, v := range perEntry {
				fmt.Fprintf(os.Stderr, "ENTRY %6.2f %s\n", v, k)
			}
		}
	}()
	for i := 0; i < rounds; i++ {
		for ei := range es {
			e := &es[ei]
			if strings.HasPrefix(e.name, "Chunk.") && strings.Contains(e.name, "24") && i%8 != 0 {
				continue // big inputs: every 8th round
			}
			if strings.Contains(e.name, "other bits byte") && i%2 != 0 {
				continue // 4..8 KiB encodings of forms the two entries above start from in every round
			}
			t0 := vm.CPUSeconds()
			fuzzEntry(c, r, e)
			perEntry[e.name] += vm.CPUSeconds() - t0
		}
		if i%8 == 1 {
			t0 := vm.CPUSeconds()
			for ei := range es {
				if e := &es[ei]; !(strings.HasPrefix(e.name, "Chunk.") && strings.Contains(e.name, "24")) || i%16 == 1 {
					fuzzEntryReused(c, rr, e) // second pass: used receiver, plain io.Reader
				}
			}
			reusedCPU += vm.CPUSeconds() - t0
		}
		if i == 0 {
			v, _ := es[3].gen(r)
			c.Sample("decoder-input", map[string]any{"decoder": es[3].name, "valid_hex": vm.Hex(v)})
		}
	}
	section("fuzz (of which the used-receiver pass: " + fmt.Sprintf("%.1f", reusedCPU) + " s)")
	// huge declared element counts (Ary with any prefix type, arrays inside chunks): an error, promptly
	if c.Shard == 0 {
		hugeArrays(c)
	}
	if c.Shard == 1%c.NShards {
		bigPayloads(c)
	}
	if c.Shard == 2%c.NShards {
		tinyCompressedFrames(c)
	}
	if c.Shard == 3%c.NShards {
		endTypedLists(c)
	}
	wideCounts(c)
	if c.Shard == 3%c.NShards {
		jsonNesting(c)
	}
	if c.Shard == 4%c.NShards {
		usedBigDestinations(c)
	}
	section("huge+big+wide+json-nesting+used-big")
	sr := c.Rand("sizes")
	for i := 0; i < c.Scale(400, 8000); i++ {
		inconsistentSizes(c, sr)
	}
	bsr := c.Rand("wrong-sized-bit-storage")
	for i := 0; i < c.Scale(400, 8000); i++ {
		wrongSizedBitStorage(c, bsr)
	}
	section("sizes")
	ccr := c.Rand("concurrent")
	concurrentDecoders(c, es, ccr, c.Pick(2, 8))
	for i := 0; i < c.Scale(40, 800); i++ {
		concurrentCommands(c, ccr)
	}
	for i := 0; i < c.Scale(24, 480); i++ {
		concurrentFrames(c, ccr)
	}
	section("concurrent")
	wr := c.Rand("wrong-data-length")
	for i := 0; i < c.Scale(200, 4000); i++ {
		wrongDataLength(c, wr)
	}
	section("wrong-data-length")
	cr := c.Rand("commands")
	for i := 0; i < c.Scale(40, 800); i++ {
		checkCommands(c, cr, i%10 == 0)
	}
	section("commands")
	lr, lsr := c.Rand("live"), c.Rand("live-server")
	for i := 0; i < c.Scale(160, 4000); i++ {
		hostileServer(c, lr)
		hostileClient(c, lr)
		serverSession(c, lsr, []string{"status", "config", "encryption", "config"}[i%4], c.Shard+i/4)
	}
	section("live")
	mr := c.Rand("managed")
	for i := 0; i < c.Scale(3000, 80000); i++ {
		managedBot(c, mr)
	}
	for i := 0; i < c.Scale(300, 6000); i++ {
		hostileEncryption(c, mr)
	}
	section("managed+encryption")
}
