// C08, capped run: inputs that can end the process rather than panic (see mon/c03 for the rationale).
// Every decoder of the table gets its valid encodings with length prefixes declaring up to 2^31-1 elements,
// and a 2^31-1 VarInt written at every early offset; the bot-facing decoders also get deeply nested NBT.
// Each batch of inputs runs in a process of its own under the 1 GiB address-space limit set by the driver.
package main

import (
	"bytes"
	"fmt"
	"strings"
	"time"

	"github.com/Tnze/go-mc/chat"
	"github.com/Tnze/go-mc/data/packetid"
	"github.com/Tnze/go-mc/level"
	"github.com/Tnze/go-mc/level/block"
	"github.com/Tnze/go-mc/nbt"
	pk "github.com/Tnze/go-mc/net/packet"

	"verif/ref/refnbt"
	"verif/ref/refwire"
	"verif/vm"
)

func overwriteVarInt(b []byte, off int, v int32) []byte {
	_, n, err := refwire.DecVarInt(b[off:])
	if err != nil || n < 1 {
		n = 1
	}
	out := append([]byte{}, b[:off]...)
	out = append(out, refwire.EncVarInt(v)...)
	return append(out, b[min(len(b), off+n):]...)
}

func runCapped(c *vm.Ctx) {
	nStates := len(block.StateList)
	es := entries(nStates, 63)
	r := vm.NewRand(c.Seed*7919 + 17)
	var cases []vm.IsoCase
	mustFail := map[int]bool{}
	for ei := range es {
		e := &es[ei]
		ndocs := 2
		if strings.HasPrefix(e.name, "Chunk.") {
			ndocs = 1
		}
		for k := 0; k < ndocs; k++ {
			valid, prefixes := e.gen(r)
			for _, p := range prefixes {
				for _, huge := range []int32{0x7fffffff, 1 << 28, 1 << 24} {
					in := overwriteVarInt(valid, p.off, huge)
					if !e.lenient {
						mustFail[len(cases)] = true
					}
					cases = append(cases, vm.IsoCase{Name: fmt.Sprintf("%s: %s prefix at offset %d declares %d", e.name, p.kind, p.off, huge),
						Class: "declared-length/" + e.name + "/" + p.kind, Input: in, Run: func() error { return e.run(in) }})
				}
			}
			lim := min(len(valid), 40)
			for off := 0; off < lim; off++ {
				in := overwriteVarInt(valid, off, 0x7fffffff)
				cases = append(cases, vm.IsoCase{Name: fmt.Sprintf("%s: VarInt 2^31-1 written at offset %d", e.name, off),
					Class: "huge-varint-anywhere/" + e.name, Input: in, Run: func() error { return e.run(in) }})
			}
		}
	}
	// deeply nested NBT through the decoders the bot runs on packets
	nestedCompounds := func(depth int) []byte { // payload of a compound holding `depth` nested unnamed-key compounds, all closed
		var b []byte
		for i := 0; i < depth; i++ {
			b = append(b, refnbt.Compound, 0, 0)
		}
		return append(b, make([]byte, depth+1)...)
	}
	for _, depth := range []int{600, 20000, 149000} { // 149000 levels through "extra" is what fits into a 2 MiB packet
		depth := depth
		// text component: {hoverEvent:{action:"show_text",contents:{"":{"":...}}}}
		hover := []byte{refnbt.Compound, refnbt.Compound, 0, 10}
		hover = append(hover, "hoverEvent"...)
		hover = append(hover, refnbt.Compound, 0, 8)
		hover = append(hover, "contents"...)
		hover = append(hover, nestedCompounds(depth)...)
		hover = append(hover, 0, 0)
		cases = append(cases, vm.IsoCase{Name: fmt.Sprintf("chat.Message with hoverEvent.contents nested %d compounds deep (%d bytes)", depth, len(hover)),
			Class: fmt.Sprintf("deep-nesting/chat.Message.hoverEvent.%d", depth), Input: hover,
			Run: func() error { var m chat.Message; return pk.Packet{ID: int32(packetid.ClientboundSystemChat), Data: hover}.Scan(&m) }})
		// text components nested through "extra": every level is decoded by a new call of Message.UnmarshalNBT
		var extra []byte
		extra = append(extra, refnbt.Compound)
		for i := 0; i < depth; i++ {
			extra = append(extra, refnbt.List, 0, 5)
			extra = append(extra, "extra"...)
			extra = append(extra, refnbt.Compound, 0, 0, 0, 1)
		}
		extra = append(extra, refnbt.String, 0, 4)
		extra = append(extra, "text"...)
		extra = append(extra, 0, 1, 'x')
		extra = append(extra, make([]byte, depth+1)...)
		cases = append(cases, vm.IsoCase{Name: fmt.Sprintf("chat.Message nested %d levels through extra (%d bytes)", depth, len(extra)),
			Class: fmt.Sprintf("deep-nesting/chat.Message.extra.%d", depth), Input: extra,
			Run: func() error {
				var m chat.Message
				if err := (pk.Packet{Data: extra}).Scan(&m); err != nil {
					return err
				}
				_ = m.ClearString()
				_ = m.String()
				return nil
			}})
		// text components nested through the arguments of a translation ("with"): every level is a component of its own
		// inside the argument list of the one above (28 bytes a level; 70000 levels fit into a 2 MiB packet)
		wdepth := min(depth, 70000)
		var with []byte
		with = append(with, refnbt.Compound)
		for i := 0; i < wdepth; i++ {
			with = append(with, refnbt.String, 0, 9)
			with = append(with, "translate"...)
			with = append(with, 0, 2, '%', 's')
			with = append(with, refnbt.List, 0, 4)
			with = append(with, "with"...)
			with = append(with, refnbt.Compound, 0, 0, 0, 1)
		}
		with = append(with, refnbt.String, 0, 4)
		with = append(with, "text"...)
		with = append(with, 0, 1, 'x')
		with = append(with, make([]byte, wdepth+1)...)
		cases = append(cases, vm.IsoCase{Name: fmt.Sprintf("chat.Message nested %d levels through with (%d bytes)", wdepth, len(with)),
			Class: fmt.Sprintf("deep-nesting/chat.Message.with.%d", wdepth), Input: with,
			Run: func() error {
				var m chat.Message
				if err := (pk.Packet{Data: with}).Scan(&m); err != nil {
					return err
				}
				_ = m.ClearString()
				_ = m.String()
				return nil
			}})
		// block entity data (kept as RawMessage: the value-skipping path)
		be := wbuf(pk.UnsignedByte(0), pk.Short(1), pk.VarInt(1))
		be = append(be, refnbt.Compound)
		be = append(be, nestedCompounds(depth)...)
		cases = append(cases, vm.IsoCase{Name: fmt.Sprintf("level.BlockEntity with data nested %d compounds deep", depth),
			Class: fmt.Sprintf("deep-nesting/BlockEntity.%d", depth), Input: be,
			Run: func() error { var b level.BlockEntity; _, err := b.ReadFrom(bytes.NewReader(be)); return err }})
		// NBT field into any, and a value the receiving struct does not know (skipped)
		doc := append([]byte{refnbt.Compound}, nestedCompounds(depth)...)
		cases = append(cases, vm.IsoCase{Name: fmt.Sprintf("pk.NBT(any) nested %d deep", depth), Class: fmt.Sprintf("deep-nesting/NBT-any.%d", depth), Input: doc,
			Run: func() error { var v any; _, err := pk.NBT(&v).ReadFrom(bytes.NewReader(doc)); return err }})
		cases = append(cases, vm.IsoCase{Name: fmt.Sprintf("pk.NBTField{AllowUnknownFields} skipping a value nested %d deep", depth), Class: fmt.Sprintf("deep-nesting/NBT-skip.%d", depth), Input: doc,
			Run: func() error {
				var v struct{ Known int32 }
				_, err := pk.NBTField{V: &v, AllowUnknownFields: true}.ReadFrom(bytes.NewReader(doc))
				return err
			}})
		cases = append(cases, vm.IsoCase{Name: fmt.Sprintf("nbt.RawMessage.String nested %d deep", depth), Class: fmt.Sprintf("deep-nesting/RawMessage.String.%d", depth), Input: doc,
			Run: func() error {
				var m nbt.RawMessage
				if _, err := pk.NBT(&m).ReadFrom(bytes.NewReader(doc)); err != nil {
					return err
				}
				_ = m.String()
				return nil
			}})
	}
	c.RunIsolated("c08", cases, 48, 600*time.Second, func(i int, cs *vm.IsoCase, r vm.IsoResult) {
		c.Eval(vm.Hash64(cs.Input, []byte(cs.Class)), true)
		wit := map[string]any{"what": cs.Name, "input_len": len(cs.Input), "input_head_hex": vm.Hex(cs.Input[:min(len(cs.Input), 64)]), "address_space_limit": "1 GiB (ulimit -v)"}
		switch {
		case r.Died:
			c.Violation("isolated/process-died/"+cs.Class+"/"+vm.NormMsg(r.Fatal), fmt.Sprintf("the process running this decode ended without a verdict: %s", r.Fatal), wit)
		case r.ErrMsg == "" && mustFail[i]:
			c.Violation("isolated/huge-length-accepted/"+cs.Class, "a length prefix declaring far more than the input holds was accepted", wit)
		default:
			switch {
			case strings.HasPrefix(cs.Class, "deep"):
				c.Cover("isolated.deep-nesting.survived")
			case strings.HasPrefix(cs.Class, "declared"):
				c.Cover("isolated.declared-length.survived")
			default:
				c.Cover("isolated.huge-varint-anywhere.survived")
			}
		}
	})
	c.Note("isolated_cases", len(cases))
}
